//! zxharness — correspondence checks between the real rustzx crates and the Lean models.
//! usage: zxharness <property> --model <zxmodel> --out <report.json> [--tier quick|thorough]
//!                  [--seed N] [--replay-case <text>]
mod host;
mod sys;
mod util;
mod c01;
mod c02;
mod c03;
mod c04;
mod c05;
mod c06;
mod c07;
mod c08;
mod c09;
mod c10;
mod c11;
mod c12;
mod c13;
mod c14;
mod c15;
mod c16;
mod c17;
mod c18;
mod c19;
mod c20;

use util::*;

fn main() {
    let args: Vec<String> = std::env::args().collect();
    if args.len() < 2 {
        eprintln!("usage: zxharness <property> --model <path> --out <path> [--tier t] [--seed n]");
        std::process::exit(2);
    }
    let prop = args[1].clone();
    let mut o = Opts {
        tier: "quick".into(),
        seed: 1,
        model: String::new(),
        out: String::new(),
        replay: None,
        corpus: None,
    };
    let mut i = 2;
    while i < args.len() {
        let v = args.get(i + 1).cloned().unwrap_or_default();
        match args[i].as_str() {
            "--tier" => o.tier = v,
            "--seed" => o.seed = v.parse().unwrap_or(1),
            "--model" => o.model = v,
            "--out" => o.out = v,
            "--replay-case" => o.replay = Some(v),
            "--corpus" => o.corpus = Some(v),
            x => {
                eprintln!("unknown option {}", x);
                std::process::exit(2);
            }
        }
        i += 2;
    }
    // panics inside the code under test are caught per case by the modules that expect them;
    // keep the default hook quiet so that expected panics do not flood the log
    let quiet = std::env::var("ZXH_PANIC_LOG").is_err();
    let default_hook = std::panic::take_hook();
    std::panic::set_hook(Box::new(move |info| {
        let msg = if let Some(s) = info.payload().downcast_ref::<&str>() {
            s.to_string()
        } else if let Some(s) = info.payload().downcast_ref::<String>() {
            s.clone()
        } else {
            "panic".to_string()
        };
        let loc = info.location().map(|l| format!("{}:{}", l.file(), l.line())).unwrap_or_default();
        if let Ok(mut m) = LAST_PANIC.lock() {
            *m = format!("{} at {}", msg, loc);
        }
        if !quiet {
            default_hook(info);
        }
    }));
    let t0 = std::time::Instant::now();
    let prop2 = prop.clone();
    let run_all = || match prop.as_str() {
        "C01" => c01::run(&o),
        "C02" => c02::run(&o),
        "C03" => c03::run(&o),
        "C04" => c04::run(&o),
        "C05" => c05::run(&o),
        "C06" => c06::run(&o),
        "C07" => c07::run(&o),
        "C08" => c08::run(&o),
        "C09" => c09::run(&o),
        "C10" => c10::run(&o),
        "C11" => c11::run(&o),
        "C12" => c12::run(&o),
        "C13" => c13::run(&o),
        "C14" => c14::run(&o),
        "C15" => c15::run(&o),
        "C16" => c16::run(&o),
        "C17" => c17::run(&o),
        "C18" => c18::run(&o),
        "C19" => c19::run(&o),
        "C20" => c20::run(&o),
        _ => {
            eprintln!("unknown property {}", prop);
            std::process::exit(2);
        }
    };
    // a panic that escapes a property module (in the code under test, reached through an unguarded
    // call, or in the harness itself) must not lose the run: it becomes a violation of its own
    let mut rep = match catch(run_all) {
        Ok(r) => r,
        Err(msg) => {
            let mut r = Report::new(&prop2);
            r.rule = "run aborted by a panic".into();
            r.violation(Violation {
                kind: Kind::ModelMismatch,
                key: format!("{}/panic-escaped", prop2),
                what: format!("a panic escaped the check: {}", msg),
                correspondence: format!("corr.{} (the run could not be completed)", prop2),
                case: J::obj(vec![("text", J::s("-"))]),
                implementation: msg,
                expected: "no panic".into(),
            });
            r
        }
    };
    rep.extra.push(("harness_wall_s".into(), J::F(t0.elapsed().as_secs_f64())));
    let text = rep.to_json().render();
    if o.out.is_empty() {
        println!("{}", text);
    } else {
        std::fs::write(&o.out, text).expect("cannot write report");
    }
}
