//! zxharness — correspondence checks between the real rustzx crates and the Lean models.
//! usage: zxharness <property> --model <zxmodel> --out <report.json> [--tier quick|thorough]
//!                  [--seed N] [--replay-case <text>]
mod host;
mod util;
mod c17;

use util::*;

fn main() {
    let args: Vec<String> = std::env::args().collect();
    if args.len() < 2 {
        eprintln!("usage: zxharness <property> --model <path> --out <path> [--tier t] [--seed n]");
        std::process::exit(2);
    }
    let prop = args[1].clone();
    let mut o = Opts {
        tier: "quick".into(),
        seed: 1,
        model: String::new(),
        out: String::new(),
        replay: None,
        corpus: None,
    };
    let mut i = 2;
    while i < args.len() {
        let v = args.get(i + 1).cloned().unwrap_or_default();
        match args[i].as_str() {
            "--tier" => o.tier = v,
            "--seed" => o.seed = v.parse().unwrap_or(1),
            "--model" => o.model = v,
            "--out" => o.out = v,
            "--replay-case" => o.replay = Some(v),
            "--corpus" => o.corpus = Some(v),
            x => {
                eprintln!("unknown option {}", x);
                std::process::exit(2);
            }
        }
        i += 2;
    }
    // panics inside the code under test are caught per case by the modules that expect them;
    // keep the default hook quiet so that expected panics do not flood the log
    let quiet = std::env::var("ZXH_PANIC_LOG").is_err();
    if quiet {
        std::panic::set_hook(Box::new(|_| {}));
    }
    let t0 = std::time::Instant::now();
    let mut rep = match prop.as_str() {
        "C17" => c17::run(&o),
        _ => {
            eprintln!("unknown property {}", prop);
            std::process::exit(2);
        }
    };
    rep.extra.push(("harness_wall_s".into(), J::F(t0.elapsed().as_secs_f64())));
    let text = rep.to_json().render();
    if o.out.is_empty() {
        println!("{}", text);
    } else {
        std::fs::write(&o.out, text).expect("cannot write report");
    }
}
