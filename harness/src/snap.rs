//! Shared by C13 and C14: machine descriptions (the text the Lean driver's `mach` request takes),
//! building a real emulator in that state through the bus and register hooks, observing a real
//! emulator in the canonical form of `Driver.Snap.fmtA`.
//!
//! RAM banks are "pattern <seed>" (16384 bytes of an LCG, seed 0 = all zero) plus a few explicit
//! overrides, so that a whole machine is a short text and the model never receives 128 KiB.
use crate::host::*;
use rustzx_core::host::{Snapshot, SnapshotRecorder};
use rustzx_z80::Prefix;
use std::collections::BTreeMap;
use std::panic::{catch_unwind, AssertUnwindSafe};

pub const PAGE: usize = 16384;

pub fn pat_bank(seed: u64) -> Vec<u8> {
    if seed == 0 {
        return vec![0; PAGE];
    }
    let mut x = seed
        .wrapping_mul(0x9E37_79B9_7F4A_7C15)
        .wrapping_add(0x1234567);
    let mut v = Vec::with_capacity(PAGE);
    for _ in 0..PAGE {
        x = x
            .wrapping_mul(6364136223846793005)
            .wrapping_add(1442695040888963407);
        v.push((x >> 56) as u8);
    }
    v
}

pub fn fnv(bs: &[u8]) -> u64 {
    let mut h: u64 = 0xcbf29ce484222325;
    for b in bs {
        h = (h ^ *b as u64).wrapping_mul(0x100000001b3);
    }
    h
}

#[derive(Clone, Debug, PartialEq, Eq)]
pub struct Bank {
    pub seed: u64,
    pub ov: Vec<(u16, u8)>,
}

impl Bank {
    pub fn new(seed: u64) -> Bank {
        Bank { seed, ov: vec![] }
    }
    pub fn bytes(&self) -> Vec<u8> {
        let mut v = pat_bank(self.seed);
        for (o, b) in &self.ov {
            v[*o as usize] = *b;
        }
        v
    }
    /// `<seed>` or `<seed>:<off>.<val>:...`
    pub fn desc(&self) -> String {
        let mut s = format!("{:x}", self.seed);
        for (o, b) in &self.ov {
            s.push_str(&format!(":{:x}.{:02x}", o, b));
        }
        s
    }
    pub fn parse(s: &str) -> Bank {
        let mut it = s.split(':');
        let seed = u64::from_str_radix(it.next().unwrap_or("0"), 16).unwrap_or(0);
        let mut ov = vec![];
        for t in it {
            if let Some((o, v)) = t.split_once('.') {
                ov.push((
                    u16::from_str_radix(o, 16).unwrap_or(0),
                    u8::from_str_radix(v, 16).unwrap_or(0),
                ));
            }
        }
        Bank { seed, ov }
    }
    pub fn set(&mut self, off: u16, v: u8) {
        self.ov.retain(|(o, _)| *o != off);
        self.ov.push((off, v));
    }
}

/// AY part of a machine description
#[derive(Clone, Debug, PartialEq, Eq)]
pub struct AyState {
    pub sel: u8,
    pub regs: [u8; 16],
    pub enabled: bool,
    /// the machine has been running for several frames since the registers were written: a
    /// one-shot envelope has finished, the generator is no longer at the start of its shape
    pub played: bool,
}

/// Everything a machine description carries. Field names = keys of the driver's `mach` request.
#[derive(Clone, Debug, PartialEq, Eq)]
pub struct MState {
    pub m128: bool,
    /// af bc de hl afx bcx dex hlx ix iy sp pc
    pub w: [u16; 12],
    pub i: u8,
    pub r: u8,
    pub iff1: bool,
    pub iff2: bool,
    pub im: u8,
    pub halt: bool,
    pub skip: bool,
    /// 0 none, 1 CB, 2 DD, 3 ED, 4 FD
    pub pfx: u8,
    pub border: u8,
    /// 128K: written to port 7FFD last (from the unlocked reset state)
    pub latch: u8,
    /// model bank order: 128K banks 0..7; 48K the pages at 0x4000, 0x8000, 0xC000
    pub banks: Vec<Bank>,
    pub ay: Option<AyState>,
    pub kemp: bool,
    pub mouse: bool,
}

pub const WNAMES: [&str; 12] = [
    "af", "bc", "de", "hl", "afx", "bcx", "dex", "hlx", "ix", "iy", "sp", "pc",
];

impl MState {
    pub fn fresh(m128: bool) -> MState {
        MState {
            m128,
            w: [0; 12],
            i: 0,
            r: 0,
            iff1: false,
            iff2: false,
            im: 0,
            halt: false,
            skip: false,
            pfx: 0,
            border: 0,
            latch: 0,
            banks: (0..if m128 { 8 } else { 3 }).map(|_| Bank::new(0)).collect(),
            ay: None,
            kemp: false,
            mouse: false,
        }
    }
    pub fn sp(&self) -> u16 {
        self.w[10]
    }
    pub fn pc(&self) -> u16 {
        self.w[11]
    }
    pub fn locked(&self) -> bool {
        self.m128 && self.latch & 0x20 != 0
    }
    /// model bank index and offset of a CPU address >= 0x4000
    pub fn bank_of(&self, addr: u16) -> (usize, u16) {
        let blk = (addr >> 14) as usize;
        let off = addr & 0x3FFF;
        let b = if self.m128 {
            match blk {
                1 => 5,
                2 => 2,
                _ => (self.latch & 7) as usize,
            }
        } else {
            blk - 1
        };
        (b, off)
    }
    /// puts a byte at a CPU address (RAM only)
    pub fn poke(&mut self, addr: u16, v: u8) {
        if addr >= 0x4000 {
            let (b, off) = self.bank_of(addr);
            self.banks[b].set(off, v);
        }
    }
    pub fn line(&self) -> String {
        let mut s = format!("k={}", if self.m128 { "128" } else { "48" });
        for (n, v) in WNAMES.iter().zip(self.w.iter()) {
            s.push_str(&format!(" {}={:04x}", n, v));
        }
        s.push_str(&format!(
            " i={:02x} r={:02x} iff={:x} im={} halt={} skip={} pfx={} bd={:02x} lat={:02x}",
            self.i,
            self.r,
            (self.iff1 as u8) * 2 + self.iff2 as u8,
            self.im,
            self.halt as u8,
            self.skip as u8,
            self.pfx,
            self.border,
            self.latch
        ));
        s.push_str(" banks=");
        s.push_str(
            &self
                .banks
                .iter()
                .map(|b| b.desc())
                .collect::<Vec<_>>()
                .join(","),
        );
        if let Some(ay) = &self.ay {
            // the chip has been programmed through the ports: it holds registers 0..13
            s.push_str(&format!(
                " ay={:x},{},{},{},{}",
                ay.sel,
                crate::util::hex(&ay.regs),
                crate::util::hex(&ay.regs[..14]),
                ay.enabled as u8,
                !ay.played as u8
            ));
        }
        s.push_str(&format!(" kemp={} mouse={}", self.kemp as u8, self.mouse as u8));
        s
    }
    pub fn parse(s: &str) -> MState {
        let kv: BTreeMap<&str, &str> = s
            .split_whitespace()
            .filter_map(|t| t.split_once('='))
            .collect();
        let g = |k: &str| kv.get(k).copied().unwrap_or("0");
        let h = |k: &str| u32::from_str_radix(g(k), 16).unwrap_or(0);
        let m128 = g("k") == "128";
        let mut st = MState::fresh(m128);
        for (n, name) in WNAMES.iter().enumerate() {
            st.w[n] = h(name) as u16;
        }
        st.i = h("i") as u8;
        st.r = h("r") as u8;
        st.iff1 = h("iff") & 2 != 0;
        st.iff2 = h("iff") & 1 != 0;
        st.im = h("im") as u8;
        st.halt = g("halt") == "1";
        st.skip = g("skip") == "1";
        st.pfx = h("pfx") as u8;
        st.border = h("bd") as u8;
        st.latch = h("lat") as u8;
        if let Some(b) = kv.get("banks") {
            let v: Vec<Bank> = b.split(',').map(Bank::parse).collect();
            for (k, bk) in v.into_iter().enumerate() {
                if k < st.banks.len() {
                    st.banks[k] = bk;
                }
            }
        }
        if let Some(a) = kv.get("ay") {
            let p: Vec<&str> = a.split(',').collect();
            if p.len() >= 4 {
                let regs = crate::util::unhex(p[1]);
                let mut r16 = [0u8; 16];
                for (k, b) in regs.iter().take(16).enumerate() {
                    r16[k] = *b;
                }
                st.ay = Some(AyState {
                    sel: u8::from_str_radix(p[0], 16).unwrap_or(0),
                    regs: r16,
                    enabled: p[3] == "1",
                    played: p.len() >= 5 && p[4] == "0",
                });
            }
        }
        st.kemp = g("kemp") == "1";
        st.mouse = g("mouse") == "1";
        st
    }
}

pub fn prefix_of(n: u8) -> Prefix {
    match n {
        1 => Prefix::CB,
        2 => Prefix::DD,
        3 => Prefix::ED,
        4 => Prefix::FD,
        _ => Prefix::None,
    }
}

pub fn prefix_num(p: Prefix) -> u8 {
    match p {
        Prefix::None => 0,
        Prefix::CB => 1,
        Prefix::DD => 2,
        Prefix::ED => 3,
        Prefix::FD => 4,
    }
}

/// Builds a real emulator in the described state: RAM through the bus (`verif_write_mem`, paging
/// each bank in at 0xC000 on the 128K), the latch through an OUT to 7FFD, the border through an
/// OUT to FE, the AY through its two ports, registers through the `Regs` setters.
/// seeds of the pattern pages held by the ROMs of every machine built here (ROM n: ROM_SEED + n)
pub const ROM_SEED: u64 = 0x501;

pub fn build(st: &MState) -> Emu {
    let mut c = Cfg::new(st.m128);
    c.sound = true;
    c.ay = st.ay.as_ref().map_or(false, |a| a.enabled);
    c.kempston = st.kemp;
    c.mouse = st.mouse;
    let mut e = emu(&c);
    // non-zero ROM contents (the Lean driver's machine holds the same pattern pages): a byte the loader reads
    // from ROM — a return address whose stack word reaches below 0x4000 — is then distinguishable from zero
    {
        struct Roms(Vec<VAsset>);
        impl rustzx_core::host::RomSet for Roms {
            type Asset = VAsset;
            fn format(&self) -> rustzx_core::host::RomFormat {
                rustzx_core::host::RomFormat::Binary16KPages
            }
            fn next_asset(&mut self) -> Option<VAsset> {
                if self.0.is_empty() { None } else { Some(self.0.remove(0)) }
            }
        }
        let n = if st.m128 { 2 } else { 1 };
        let pages: Vec<VAsset> = (0..n).map(|k| VAsset::new(pat_bank(ROM_SEED + k as u64))).collect();
        e.load_rom(Roms(pages)).ok().expect("load_rom of pattern pages");
    }
    if st.m128 {
        for (k, b) in st.banks.iter().enumerate() {
            if b.seed == 0 && b.ov.is_empty() {
                continue;
            }
            e.verif_write_io(0x7FFD, k as u8);
            for (off, v) in b.bytes().iter().enumerate() {
                e.verif_write_mem(0xC000 + off as u16, *v, 0);
            }
        }
        e.verif_write_io(0x7FFD, st.latch);
        if st.latch & 0x20 != 0 {
            // paging is locked now: a further write with other bank/screen/ROM bits is ignored by the hardware
            // and must not be remembered anywhere (the latch a snapshot stores is the one that took effect)
            e.verif_write_io(0x7FFD, st.latch ^ 0x17);
        }
    } else {
        for (k, b) in st.banks.iter().enumerate() {
            if b.seed == 0 && b.ov.is_empty() {
                continue;
            }
            let base = 0x4000 + (k * PAGE) as u16;
            for (off, v) in b.bytes().iter().enumerate() {
                e.verif_write_mem(base + off as u16, *v, 0);
            }
        }
    }
    e.verif_write_io(0x00FE, st.border & 7);
    if let Some(ay) = &st.ay {
        // the ports reach the chip whether or not it is mixed in
        {
            for k in 0..14u8 {
                e.verif_write_io(0xFFFD, k);
                e.verif_write_io(0xBFFD, ay.regs[k as usize]);
            }
            // registers 14, 15 exist in the register file only
            for k in 14..16u8 {
                e.verif_write_io(0xFFFD, k);
                e.verif_write_io(0xBFFD, ay.regs[k as usize]);
            }
            e.verif_write_io(0xFFFD, ay.sel);
        }
        if ay.played {
            let_frames_pass(&mut e, st.m128, 6);
        }
    }
    set_cpu(&mut e, st);
    e.verif_set_frame_clocks(0);
    e
}

/// "Whatever the machine was doing before": some receivers are not at a frame start but somewhere inside the
/// frame, having written their (unchanged) border colour to port 0xFE earlier in that frame. Chosen from the
/// state itself (no extra random draw), never for machines whose sound chip is mixed in (its run time is part of the state).
pub fn dirty_midframe(e: &mut Emu, st: &MState) -> bool {
    if st.ay.as_ref().map_or(false, |a| a.enabled) || st.r & 3 != 1 {
        return false;
    }
    e.verif_wait(9000 + (st.w[1] as usize % 50000));
    e.verif_write_io(0x00FE, st.border & 7);
    e.verif_wait(1 + (st.w[2] as usize % 700));
    while e.next_audio_sample().is_some() {}
    true
}

/// Lets `frames` frames of emulated time pass without CPU activity (the sound chip keeps running; the
/// sample queue is drained so that it never stalls), then on to the next frame start.
pub fn let_frames_pass(e: &mut Emu, m128: bool, frames: usize) {
    let frame_len = if m128 { 70908 } else { 69888 };
    for _ in 0..frames * 8 {
        e.verif_wait(frame_len / 8);
        while e.next_audio_sample().is_some() {}
    }
    let c = e.verif_frame_clocks();
    if c > 0 && c < frame_len {
        e.verif_wait(frame_len - c);
    }
    while e.next_audio_sample().is_some() {}
}

pub fn set_cpu(e: &mut Emu, st: &MState) {
    let cpu = e.verif_cpu();
    let r = &mut cpu.regs;
    // alternates first, then swap them away
    r.set_af(st.w[4]);
    r.set_bc(st.w[5]);
    r.set_de(st.w[6]);
    r.set_hl(st.w[7]);
    r.swap_af_alt();
    r.exx();
    r.set_af(st.w[0]);
    r.set_bc(st.w[1]);
    r.set_de(st.w[2]);
    r.set_hl(st.w[3]);
    r.set_ix(st.w[8]);
    r.set_iy(st.w[9]);
    r.set_sp(st.w[10]);
    r.set_pc(st.w[11]);
    r.set_i(st.i);
    r.set_r(st.r);
    r.set_iff1(st.iff1);
    r.set_iff2(st.iff2);
    r.set_mem_ptr(0);
    r.verif_set_q(0, 0);
    cpu.set_im(st.im.min(2));
    cpu.halted = st.halt;
    cpu.skip_interrupt = st.skip;
    cpu.verif_set_active_prefix(prefix_of(st.pfx));
}

/// Registers of the real CPU as `key=value` text in the driver's order. The alternate set is read
/// by swapping (EXX / EX AF,AF') and swapping back, never through the `get_*_alt` getters.
pub fn obs_regs(e: &mut Emu) -> String {
    let cpu = e.verif_cpu();
    let r = &mut cpu.regs;
    let (af, bc, de, hl) = (r.get_af(), r.get_bc(), r.get_de(), r.get_hl());
    r.swap_af_alt();
    r.exx();
    let (afx, bcx, dex, hlx) = (r.get_af(), r.get_bc(), r.get_de(), r.get_hl());
    r.swap_af_alt();
    r.exx();
    let im: u8 = cpu.get_im().into();
    format!(
        "af={:04x} bc={:04x} de={:04x} hl={:04x} afx={:04x} bcx={:04x} dex={:04x} hlx={:04x} ix={:04x} iy={:04x} sp={:04x} pc={:04x} i={:02x} r={:02x} iff={}{} im={}",
        af, bc, de, hl, afx, bcx, dex, hlx,
        cpu.regs.get_ix(), cpu.regs.get_iy(), cpu.regs.get_sp(), cpu.regs.get_pc(),
        cpu.regs.get_i(), cpu.regs.get_r(),
        cpu.regs.get_iff1() as u8, cpu.regs.get_iff2() as u8, im
    )
}

/// Hashes of the RAM pages in hardware numbering (`-` where the machine has no such page, `?`
/// where the page cannot be reached by the CPU any more: locked 128K, not mapped).
/// Unlocked 128K: every bank is paged in at 0xC000 through port 7FFD and the latch is then
/// re-written with its old value. All 49152 / 8*16384 bytes go through `Emulator::peek`.
pub fn obs_pages(e: &mut Emu, m128: bool) -> Vec<String> {
    let block = |e: &Emu, base: u32| -> String {
        let v: Vec<u8> = (0..PAGE as u32).map(|o| e.peek((base + o) as u16)).collect();
        format!("{:016x}", fnv(&v))
    };
    let mut out = vec!["-".to_string(); 8];
    if !m128 {
        out[5] = block(e, 0x4000);
        out[2] = block(e, 0x8000);
        out[0] = block(e, 0xC000);
        return out;
    }
    let (latch, enabled, _) = e.verif_paging();
    if enabled {
        for k in 0..8u8 {
            e.verif_write_io(0x7FFD, (latch & 0xD8) | k);
            out[k as usize] = block(e, 0xC000);
        }
        e.verif_write_io(0x7FFD, latch);
    } else {
        for o in out.iter_mut() {
            *o = "?".to_string();
        }
        out[5] = block(e, 0x4000);
        out[2] = block(e, 0x8000);
        out[(latch & 7) as usize] = block(e, 0xC000);
    }
    out
}

/// hash over all 65536 peeks (ROM included)
pub fn peek_hash(e: &Emu) -> u64 {
    let v: Vec<u8> = (0..=0xFFFFu16).map(|a| e.peek(a)).collect();
    fnv(&v)
}

/// Observation of a real emulator in the field order of `Driver.Snap.fmtA` (fields the property
/// does not name for SNA — AY, mouse, display cache — are appended by C14 separately).
pub fn observe(e: &mut Emu, m128: bool) -> BTreeMap<String, String> {
    let mut m = BTreeMap::new();
    for t in obs_regs(e).split(' ') {
        if let Some((k, v)) = t.split_once('=') {
            m.insert(k.to_string(), v.to_string());
        }
    }
    let (halt, skip, pfx) = {
        let c = e.verif_cpu();
        (c.halted, c.skip_interrupt, prefix_num(c.verif_active_prefix()))
    };
    {
        // hidden latches an SZX file describes (Z80R: wMemPtr, ZXSTZF_FSET)
        let c = e.verif_cpu();
        let (q, mp) = (c.regs.verif_q(), c.regs.get_mem_ptr());
        m.insert("q".into(), format!("{:02x}", q));
        m.insert("mp".into(), format!("{:04x}", mp));
    }
    m.insert("halt".into(), (halt as u8).to_string());
    m.insert("skip".into(), (skip as u8).to_string());
    m.insert("mid".into(), ((pfx != 0) as u8).to_string());
    m.insert("pfx".into(), pfx.to_string());
    let (latch, enabled, sb) = e.verif_paging();
    m.insert("lat".into(), format!("{:02x}", latch));
    m.insert("lk".into(), ((m128 && !enabled) as u8).to_string());
    m.insert("sb".into(), sb.to_string());
    m.insert("bd".into(), format!("{:02x}", e.border_color() as u8));
    // (the frame clock is never moved backwards: the screen device assumes monotone time in a frame)
    m.insert("pages".into(), obs_pages(e, m128).join(","));
    m
}

pub fn kv_of(s: &str) -> BTreeMap<String, String> {
    s.split_whitespace()
        .filter_map(|t| t.split_once('='))
        .map(|(k, v)| (k.to_string(), v.to_string()))
        .collect()
}

/// Compares an observation with an expectation on the given keys; `?` in an observed page list
/// matches anything. Returns the differing keys with (observed, expected).
pub fn diff_obs(
    got: &BTreeMap<String, String>,
    want: &BTreeMap<String, String>,
    keys: &[&str],
) -> Vec<(String, String, String)> {
    let mut out = vec![];
    for k in keys {
        let g = got.get(*k).cloned().unwrap_or_default();
        let w = want.get(*k).cloned().unwrap_or_default();
        if *k == "pages" {
            let gs: Vec<&str> = g.split(',').collect();
            let ws: Vec<&str> = w.split(',').collect();
            for n in 0..gs.len().max(ws.len()) {
                let a = gs.get(n).copied().unwrap_or("");
                let b = ws.get(n).copied().unwrap_or("");
                if a != b && a != "?" {
                    out.push((format!("page{}", n), a.to_string(), b.to_string()));
                }
            }
        } else if g != w && g != "?" {
            out.push((k.to_string(), g, w));
        }
    }
    out
}

#[derive(Clone, Debug, PartialEq, Eq)]
pub enum Outcome {
    Ok,
    Err(String),
    Panic,
}

impl Outcome {
    pub fn text(&self) -> String {
        match self {
            Outcome::Ok => "ok".into(),
            Outcome::Err(e) => format!("err {}", e),
            Outcome::Panic => "err panic".into(),
        }
    }
}

fn err_name(e: &rustzx_core::error::Error) -> String {
    use rustzx_core::error::*;
    match e {
        Error::AssetRead(IoError::UnexpectedEof) => "eof".into(),
        Error::SnapshotLoad(SnapshotLoadError::InvalidSZXFile) => "invalid-szx".into(),
        Error::SnapshotLoad(SnapshotLoadError::MachineNotSupported) => "machine-not-supported".into(),
        Error::ScreenLoad(ScreenLoadError::InvalidScrFile) => "invalid-scr".into(),
        Error::ScreenLoad(ScreenLoadError::MachineNotSupported) => "scr-machine".into(),
        other => format!("{:?}", other).to_lowercase(),
    }
}

pub fn load_sna(e: &mut Emu, bytes: &[u8]) -> Outcome {
    let a = VAsset::new(bytes.to_vec());
    match catch_unwind(AssertUnwindSafe(|| e.load_snapshot(Snapshot::Sna(a)))) {
        Ok(Ok(())) => Outcome::Ok,
        Ok(Err(err)) => Outcome::Err(err_name(&err)),
        Err(_) => Outcome::Panic,
    }
}

pub fn load_szx(e: &mut Emu, bytes: &[u8]) -> Outcome {
    let a = VAsset::new(bytes.to_vec());
    match catch_unwind(AssertUnwindSafe(|| e.load_snapshot(Snapshot::Szx(a)))) {
        Ok(Ok(())) => Outcome::Ok,
        Ok(Err(err)) => Outcome::Err(err_name(&err)),
        Err(_) => Outcome::Panic,
    }
}

pub fn load_scr(e: &mut Emu, bytes: &[u8]) -> Outcome {
    use rustzx_core::host::Screen;
    let a = VAsset::new(bytes.to_vec());
    match catch_unwind(AssertUnwindSafe(|| e.load_screen(Screen::Scr(a)))) {
        Ok(Ok(())) => Outcome::Ok,
        Ok(Err(err)) => Outcome::Err(err_name(&err)),
        Err(_) => Outcome::Panic,
    }
}

/// recorder writing into a shared buffer (`save_snapshot` takes its recorder by value)
pub struct SharedRec(pub std::rc::Rc<std::cell::RefCell<Vec<u8>>>);

impl rustzx_core::host::DataRecorder for SharedRec {
    fn write(&mut self, buf: &[u8]) -> Result<usize, rustzx_core::error::IoError> {
        // at most 1000 bytes per call: `write_all` has to loop
        let k = buf.len().min(1000);
        self.0.borrow_mut().extend_from_slice(&buf[..k]);
        Ok(k)
    }
}

pub fn save_sna(e: &mut Emu) -> Result<Vec<u8>, Outcome> {
    let buf = std::rc::Rc::new(std::cell::RefCell::new(Vec::new()));
    let rec = SharedRec(buf.clone());
    let r = catch_unwind(AssertUnwindSafe(|| e.save_snapshot(SnapshotRecorder::Sna(rec))));
    match r {
        Ok(Ok(())) => Ok(buf.borrow().clone()),
        Ok(Err(err)) => Err(Outcome::Err(err_name(&err))),
        Err(_) => Err(Outcome::Panic),
    }
}

/// A file as the segment list of the driver's `file` request: 16 KiB pieces that equal a known
/// bank travel as `p<desc>`, everything else as literal hex.
pub fn segments(bytes: &[u8], known: &[(Vec<u8>, String)], boundaries: &[usize]) -> Vec<String> {
    let mut segs = vec![];
    let mut pos = 0;
    let mut lit_start = 0;
    let flush = |segs: &mut Vec<String>, from: usize, to: usize| {
        // literal pieces are cut so that no request line grows beyond ~64 KiB
        let mut a = from;
        while a < to {
            let b = (a + 16384).min(to);
            segs.push(format!("h{}", crate::util::hex(&bytes[a..b])));
            a = b;
        }
    };
    while pos < bytes.len() {
        let mut matched = None;
        if boundaries.contains(&pos) && pos + PAGE <= bytes.len() {
            let piece = &bytes[pos..pos + PAGE];
            for (data, desc) in known {
                if data.as_slice() == piece {
                    matched = Some(desc.clone());
                    break;
                }
            }
        }
        if let Some(d) = matched {
            flush(&mut segs, lit_start, pos);
            segs.push(format!("p{}", d));
            pos += PAGE;
            lit_start = pos;
        } else {
            // advance to the next boundary or the end
            let next = boundaries
                .iter()
                .copied()
                .filter(|b| *b > pos)
                .min()
                .unwrap_or(bytes.len())
                .min(bytes.len());
            pos = next;
        }
    }
    flush(&mut segs, lit_start, bytes.len());
    segs
}

/// Runs `steps` calls of `Z80::emulate` (breakpoint after every one) and returns registers + a hash
/// over all 65536 peeks: "continued execution".
pub fn run_steps(e: &mut Emu, steps: usize) -> String {
    e.set_debug_interface(Dbg {
        break_all: true,
        ..Default::default()
    });
    for _ in 0..steps {
        let r = catch_unwind(AssertUnwindSafe(|| {
            let _ = e.emulate_frames(std::time::Duration::from_secs(1));
        }));
        if r.is_err() {
            return "panic".into();
        }
    }
    let halted = e.verif_cpu().halted;
    format!("{} halt={} mem={:016x}", obs_regs(e), halted as u8, peek_hash(e))
}
