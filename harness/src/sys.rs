//! Whole-machine lock-step: the real `Emulator` single-stepped (break-always debug interface) against
//! the Lean composition `Z80.emulate` on the Spectrum bus (lean/ZxVerif/Model/Spectrum.lean, driver
//! protocol `SYS`). Random programs, random CPU state, random placement in contended/uncontended
//! memory, random 128K paging, started at interesting frame T-states. After every instruction the
//! complete CPU state, the frame clock, the frame counter, the border colour, the paging latch and
//! the selected AY register are compared. Used as the last layer of the C04 check (instruction time
//! inside the machine) — it also re-checks C01/C03/C05/C06/C07 behaviour through the CPU path.
use crate::c01::{get_state, random_instr, random_state, set_state, St};
use crate::host::*;
use crate::util::*;
use std::time::Duration;

const PC: usize = 0;
const SP: usize = 1;
const BC: usize = 3;
const DE: usize = 4;
const HL: usize = 5;
const IX: usize = 10;
const IY: usize = 11;
const IR: usize = 12;

#[derive(Clone)]
pub struct SysCase {
    pub m128: bool,
    pub kempston: bool,
    pub mouse: bool,
    pub latch: u8,
    pub t: usize,
    pub st: St,
    /// (address, bytes) pokes: the program and some data
    pub pokes: Vec<(u16, Vec<u8>)>,
    pub steps: usize,
}

impl SysCase {
    pub fn text(&self) -> String {
        let pokes: Vec<String> = self.pokes.iter().map(|(a, b)| format!("{:04x}:{}", a, hex(b))).collect();
        format!(
            "sys {} {} {} {:02x} {} {} | {} | {}",
            if self.m128 { 128 } else { 48 },
            self.kempston as u8,
            self.mouse as u8,
            self.latch,
            self.t,
            self.steps,
            self.st.text(),
            pokes.join(",")
        )
    }
    pub fn parse(s: &str) -> Option<SysCase> {
        let parts: Vec<&str> = s.split('|').map(|x| x.trim()).collect();
        if parts.len() != 3 {
            return None;
        }
        let h: Vec<&str> = parts[0].split_whitespace().collect();
        if h.len() != 7 || h[0] != "sys" {
            return None;
        }
        let stt: Vec<&str> = parts[1].split_whitespace().collect();
        let st = St::parse(&stt)?;
        let mut pokes = vec![];
        for p in parts[2].split(',').filter(|x| !x.is_empty()) {
            let mut it = p.split(':');
            let a = u16::from_str_radix(it.next()?, 16).ok()?;
            pokes.push((a, unhex(it.next()?)));
        }
        Some(SysCase {
            m128: h[1] == "128",
            kempston: h[2] == "1",
            mouse: h[3] == "1",
            latch: u8::from_str_radix(h[4], 16).ok()?,
            t: h[5].parse().ok()?,
            steps: h[6].parse().ok()?,
            st,
            pokes,
        })
    }
}

struct SharedRec(std::rc::Rc<std::cell::RefCell<Vec<u8>>>);
impl rustzx_core::host::DataRecorder for SharedRec {
    fn write(&mut self, buf: &[u8]) -> Result<usize, rustzx_core::error::IoError> {
        self.0.borrow_mut().extend_from_slice(buf);
        Ok(buf.len())
    }
}

/// the whole RAM of the real machine as pages (48K: 3 pages through peek; 128K: all 8 banks through
/// an SNA save into memory: header 27, banks 5, 2, n, 4 bytes, then 0,1,3,4,6,7 without n)
fn dump_ram(e: &mut Emu, m128: bool) -> Vec<Vec<u8>> {
    if !m128 {
        return (0..3usize)
            .map(|p| (0..16384usize).map(|o| e.peek((0x4000 + p * 16384 + o) as u16)).collect())
            .collect();
    }
    let shared = std::rc::Rc::new(std::cell::RefCell::new(Vec::<u8>::new()));
    let r = e.save_snapshot(rustzx_core::host::SnapshotRecorder::Sna(SharedRec(shared.clone())));
    let mut pages = vec![vec![0u8; 16384]; 8];
    let data = shared.borrow();
    if r.is_err() || data.len() < 27 + 3 * 16384 + 4 {
        return pages;
    }
    let d = &data[..];
    let n = (d[27 + 3 * 16384 + 2] & 7) as usize;
    pages[5].copy_from_slice(&d[27..27 + 16384]);
    pages[2].copy_from_slice(&d[27 + 16384..27 + 2 * 16384]);
    pages[n].copy_from_slice(&d[27 + 2 * 16384..27 + 3 * 16384]);
    let mut pos = 27 + 3 * 16384 + 4;
    for b in [0usize, 1, 3, 4, 6, 7] {
        if b == n {
            continue;
        }
        if pos + 16384 <= d.len() {
            pages[b].copy_from_slice(&d[pos..pos + 16384]);
        }
        pos += 16384;
    }
    pages
}

struct Obs {
    st: St,
    clocks: usize,
    frames: usize,
    border: u8,
    latch: u8,
    pc_before: u16,
}

fn run_real(c: &SysCase) -> Result<(Vec<Obs>, Vec<Vec<u8>>), String> {
    catch(|| {
        let mut cfg = Cfg::new(c.m128);
        cfg.kempston = c.kempston;
        cfg.mouse = c.mouse;
        cfg.ay = true;
        cfg.sound = true;
        let mut e = emu(&cfg);
        let mut d = Dbg::default();
        d.break_all = true;
        e.set_debug_interface(d);
        if c.m128 {
            e.verif_write_io(0x7FFD, c.latch);
        }
        for (a, bytes) in &c.pokes {
            for (i, b) in bytes.iter().enumerate() {
                e.verif_write_mem(a.wrapping_add(i as u16), *b, 0);
            }
        }
        set_state(e.verif_cpu(), &c.st);
        e.verif_set_frame_clocks(c.t);
        let mut out = vec![];
        let mut frames = 0;
        for _ in 0..c.steps {
            let pc_before = e.verif_cpu().regs.get_pc();
            let _ = e.emulate_frames(Duration::from_secs(100));
            frames += e.verif_frames_count();
            let st = get_state(e.verif_cpu());
            out.push(Obs {
                st,
                clocks: e.verif_frame_clocks(),
                frames,
                border: e.border_color() as u8,
                latch: e.verif_paging().0,
                pc_before,
            });
        }
        let ram = dump_ram(&mut e, c.m128);
        (out, ram)
    })
}

fn model_lines(c: &SysCase) -> Vec<String> {
    let mut lines = vec![format!("new {} {} {}", if c.m128 { 128 } else { 48 }, c.kempston as u8, c.mouse as u8)];
    if c.m128 {
        lines.push(format!("out {:02x}", c.latch));
    }
    for (a, bytes) in &c.pokes {
        lines.push(format!("poke {:04x} {}", a, hex(bytes)));
    }
    lines.push(format!("cpu {}", c.st.text()));
    lines.push(format!("clk {:x}", c.t));
    for _ in 0..c.steps {
        lines.push("step".into());
    }
    lines.push("ram".into());
    lines
}

pub struct SysFail {
    pub step: usize,
    pub field: String,
    pub got: String,
    pub want: String,
    pub op: String,
    pub panic: bool,
}

pub fn check(model: &mut Model, c: &SysCase, mut rep: Option<&mut Report>) -> Option<SysFail> {
    let (real, ram) = match run_real(c) {
        Ok(r) => r,
        Err(msg) => {
            return Some(SysFail { step: 0, field: "panic".into(), got: msg, want: "no panic".into(), op: String::new(), panic: true });
        }
    };
    let lines = model_lines(c);
    let answers = model.ask_many(&lines);
    let first = lines.len() - c.steps - 1;
    let mem_at = |a: u16| -> u8 {
        // best effort label: byte from the pokes
        for (pa, b) in c.pokes.iter().rev() {
            let off = a.wrapping_sub(*pa) as usize;
            if off < b.len() {
                return b[off];
            }
        }
        0
    };
    for (i, o) in real.iter().enumerate() {
        if let Some(r) = rep.as_deref_mut() {
            r.eval();
        }
        let t: Vec<&str> = answers[first + i].split_whitespace().collect();
        if t.len() < 24 {
            return Some(SysFail { step: i, field: "driver".into(), got: answers[first + i].clone(), want: "24 fields".into(), op: String::new(), panic: false });
        }
        let mst = St::parse(&t[..19])?;
        let op = format!("{:02x}{:02x}", mem_at(o.pc_before), mem_at(o.pc_before.wrapping_add(1)));
        let fa = o.st.fields();
        let fb = mst.fields();
        for (x, y) in fa.iter().zip(fb.iter()) {
            if x.1 != y.1 {
                return Some(SysFail { step: i, field: x.0.to_string(), got: format!("{:x}", x.1), want: format!("{:x}", y.1), op, panic: false });
            }
        }
        let extras = [
            ("clock", o.clocks, usize::from_str_radix(t[19], 16).unwrap_or(usize::MAX)),
            ("frames", o.frames, usize::from_str_radix(t[20], 16).unwrap_or(usize::MAX)),
            ("border", o.border as usize, usize::from_str_radix(t[21], 16).unwrap_or(usize::MAX)),
            ("latch", o.latch as usize, usize::from_str_radix(t[22], 16).unwrap_or(usize::MAX)),
        ];
        for (name, got, want) in extras {
            if got != want {
                return Some(SysFail { step: i, field: name.to_string(), got: format!("{}", got), want: format!("{}", want), op, panic: false });
            }
        }
    }
    // whole RAM: every location the model stored to has the model's final value in the real machine, and
    // the real machine has no non-zero byte anywhere else (a store into a page no window maps is seen too)
    let mut expected: std::collections::HashMap<(usize, usize), u8> = std::collections::HashMap::new();
    for tok in answers[lines.len() - 1].split_whitespace() {
        let mut it = tok.split(':');
        let p = usize::from_str_radix(it.next().unwrap_or("0"), 16).unwrap_or(0);
        let o = usize::from_str_radix(it.next().unwrap_or("0"), 16).unwrap_or(0);
        let v = u8::from_str_radix(it.next().unwrap_or("0"), 16).unwrap_or(0);
        expected.insert((p, o), v);
    }
    let last = real.len().saturating_sub(1);
    for (p, page) in ram.iter().enumerate() {
        for (o, b) in page.iter().enumerate() {
            let want = expected.get(&(p, o)).copied().unwrap_or(0);
            if *b != want {
                return Some(SysFail {
                    step: last,
                    field: format!("ram[page {} offset {:04x}]", p, o),
                    got: format!("{:02x}", b),
                    want: format!("{:02x}", want),
                    op: String::new(),
                    panic: false,
                });
            }
        }
    }
    None
}

fn placement(rng: &mut Rng) -> u16 {
    let base = [0x4100u16, 0x8100, 0xC100, 0x5F00][rng.below(4) as usize];
    base + (rng.below(0x3000) as u16 & 0x1FFF)
}

/// data pointers also sit right on the 16K window boundaries (where the contention class of the
/// address changes from one byte to the next)
fn data_placement(rng: &mut Rng) -> u16 {
    if rng.chance(1, 3) {
        let edge = [0x4000u16, 0x8000, 0xC000, 0x0000][rng.below(4) as usize];
        edge.wrapping_add(rng.below(5) as u16).wrapping_sub(2)
    } else {
        placement(rng)
    }
}

pub fn random_case(rng: &mut Rng, ts: &[usize], focus: u8) -> SysCase {
    let focus_block = focus == 1;
    let m128 = rng.bool();
    let mut st = random_state(rng);
    st.w[PC] = placement(rng);
    st.w[SP] = data_placement(rng);
    if rng.chance(2, 3) {
        st.w[HL] = data_placement(rng);
        st.w[IX] = data_placement(rng);
        st.w[IY] = data_placement(rng);
        st.w[DE] = data_placement(rng);
    }
    if rng.chance(1, 2) {
        st.w[BC] = [0x0001u16, 0x0002, 0x0102, 0x7FFD, 0x40FE, 0xC0FF, 0xFFFD, 0xBFFD][rng.below(8) as usize];
    }
    st.w[IR] = (st.w[IR] & 0x00FF) | ([0x00u16, 0x40, 0x80, 0xC0, 0xFF][rng.below(5) as usize] << 8);
    st.ap = 0;
    st.ff &= !0x08;
    let steps = rng.range(4, 20) as usize;
    // the program: a run of random instructions; it may run off its end into zero bytes (NOPs)
    let mut code = vec![];
    // every sixth program starts with a block instruction (their repeat cycles carry HL/DE/BC addresses)
    if focus_block || rng.chance(1, 6) {
        if focus_block {
            // both pointers right on a window boundary
            for r in [HL, DE] {
                let edge = [0x4000u16, 0x8000, 0xC000, 0x0000][rng.below(4) as usize];
                st.w[r] = edge.wrapping_add(rng.below(5) as u16).wrapping_sub(2);
            }
        }
        code.extend([0xED, [0xA0u8, 0xA1, 0xA2, 0xA3, 0xA8, 0xA9, 0xAA, 0xAB, 0xB0, 0xB1, 0xB2, 0xB3, 0xB8, 0xB9, 0xBA, 0xBB][rng.below(16) as usize]]);
        st.w[BC] = [0x0001u16, 0x0002, 0x0003, 0x0180, 0x02FE][rng.below(5) as usize];
    }
    if focus == 2 {
        // 16-bit memory traffic right across the 16K window boundaries: the two bytes of a word live in
        // different windows (different banks, ROM/RAM, contended/uncontended)
        let edge = |r: &mut Rng| -> u16 { [0x3FFFu16, 0x7FFF, 0xBFFF, 0xFFFF][r.below(4) as usize].wrapping_sub(r.below(2) as u16) };
        st.w[SP] = edge(rng).wrapping_add(rng.below(3) as u16);
        st.w[IX] = edge(rng);
        st.w[IY] = edge(rng);
        st.w[IR] = (st.w[IR] & 0x00FF) | ((edge(rng) >> 8) << 8);
        code.clear();
        for _ in 0..6 {
            let a = edge(rng).to_le_bytes();
            let ins: Vec<u8> = match rng.below(14) {
                0 => vec![0x22, a[0], a[1]],             // LD (nn),HL
                1 => vec![0x2A, a[0], a[1]],             // LD HL,(nn)
                2 => vec![0xED, 0x43, a[0], a[1]],       // LD (nn),BC
                3 => vec![0xED, 0x5B, a[0], a[1]],       // LD DE,(nn)
                4 => vec![0xED, 0x73, a[0], a[1]],       // LD (nn),SP
                5 => vec![0xDD, 0x22, a[0], a[1]],       // LD (nn),IX
                6 => vec![0xFD, 0x2A, a[0], a[1]],       // LD IY,(nn)
                7 => vec![0xE5],                         // PUSH HL
                8 => vec![0xD1],                         // POP DE
                9 => vec![0xE3],                         // EX (SP),HL
                10 => vec![0xDD, 0xE3],                  // EX (SP),IX
                11 => vec![0xF5],                        // PUSH AF
                12 => vec![0x32, a[0], a[1]],            // LD (nn),A
                _ => vec![0x21, rng.u8() | 1, rng.u8() | 1], // LD HL,nn (fresh non-zero data)
            };
            code.extend(ins);
        }
        st.w[HL] = rng.u16() | 0x0101;
        st.w[BC] = rng.u16() | 0x0101;
    }
    if focus == 3 {
        // the instruction's own bytes straddle a window boundary: its last byte (a displacement, an operand) is
        // the last byte of a 16K window whose neighbour has the other contention class, so the address carried
        // by the internal T-states that follow matters (pc+1 vs pc+2)
        let ins: Vec<u8> = match rng.below(15) {
            // LD I,A / LD R,A / LD A,I with the old and the new I on different sides of the contention border: the
            // internal T-state carries IR as it was *before* the instruction
            12 | 13 | 14 => {
                st.w[crate::c01::AF] = (st.w[crate::c01::AF] & 0x00FF) | ([0x40u16, 0x80, 0x7F, 0x00][rng.below(4) as usize] << 8);
                st.w[IR] = (st.w[IR] & 0x00FF) | ([0x80u16, 0x40, 0x00, 0x7F][rng.below(4) as usize] << 8);
                vec![0xED, [0x47u8, 0x4F, 0x57][rng.below(3) as usize]]
            }
            0 | 1 => vec![0x18, rng.u8()],                          // JR d
            2 => vec![[0x20u8, 0x28, 0x30, 0x38][rng.below(4) as usize], rng.u8()], // JR cc,d
            3 | 4 => vec![0x10, rng.u8()],                          // DJNZ d
            5 => vec![0xDD, 0x34, rng.u8()],                        // INC (IX+d)
            6 => vec![0xFD, 0x36, rng.u8(), rng.u8()],              // LD (IY+d),n
            7 => vec![0xDD, 0xCB, rng.u8(), 0x06 | (rng.u8() & 0xF8)],
            8 => vec![0xED, 0xB0],
            9 => vec![0xCD, rng.u8(), 0x81],                        // CALL nn
            _ => random_instr(rng),
        };
        let edge = [0x8000u16, 0xC000, 0x8000, 0xC000][rng.below(4) as usize];
        st.w[PC] = edge.wrapping_sub(1 + rng.below(ins.len() as u64) as u16);
        code.clear();
        code.extend(ins);
        // DJNZ taken (B=2) or not taken (B=1); conditional jumps fall either way with the random flags
        st.w[BC] = (st.w[BC] & 0x00FF) | if rng.bool() { 0x0200 } else { 0x0100 };
    }
    while code.len() < 48 {
        code.extend(random_instr(rng));
    }
    let mut pokes = vec![(st.w[PC], code)];
    for target in [st.w[HL], st.w[SP], st.w[IX], st.w[DE]] {
        if rng.chance(1, 2) {
            pokes.push((target.wrapping_sub(2), rng.bytes(6)));
        }
    }
    // screen bytes so that the floating bus has something to show
    if rng.chance(1, 3) {
        pokes.push((0x4000 + (rng.below(0x1AF0) as u16), rng.bytes(16)));
    }
    let l = if m128 { 70908 } else { 69888 };
    let t = if rng.chance(2, 3) { *rng.pick(ts) } else { rng.below(l as u64) as usize };
    SysCase {
        m128,
        kempston: rng.chance(1, 3),
        mouse: rng.chance(1, 4),
        latch: if m128 { rng.u8() & 0x1F | if rng.chance(1, 10) { 0x20 } else { 0 } } else { 0 },
        t: t.min(l - 1),
        st,
        pokes,
        steps,
    }
}

pub fn record(model: &mut Model, rep: &mut Report, prop: &str, c: &SysCase, f: SysFail) {
    // shrink: cut after the failing step, then drop pokes that do not matter
    let mut small = c.clone();
    small.steps = f.step + 1;
    let mut cur_f = f;
    let mut i = 1;
    while i < small.pokes.len() {
        let mut cand = small.clone();
        cand.pokes.remove(i);
        match check(model, &cand, None) {
            Some(f2) if f2.field.split('[').next() == cur_f.field.split('[').next() => {
                small = cand;
                cur_f = f2;
            }
            _ => i += 1,
        }
    }
    let timing = cur_f.field == "clock" || cur_f.field == "frames";
    rep.violation(Violation {
        kind: Kind::SpecViolated,
        key: format!("{}/sys/{}/{}/op={}", prop, if small.m128 { "128k" } else { "48k" }, cur_f.field.split('[').next().unwrap_or(""), cur_f.op),
        what: format!(
            "whole-machine lock-step, step {} (instruction bytes {} at its PC): {} is {} in the real Emulator, {} in the Lean machine (Z80 reference on the Spectrum bus){}",
            cur_f.step, cur_f.op, cur_f.field, cur_f.got, cur_f.want,
            if timing { " — instruction time inside the machine differs from uncontended time + ULA delays" } else { "" }
        ),
        correspondence: "corr.SYS.lockstep (Emulator::emulate_frames single steps vs Spectrum.step)".into(),
        case: J::obj(vec![("text", J::s(small.text()))]),
        implementation: cur_f.got.clone(),
        expected: cur_f.want.clone(),
    });
}

/// runs `n` random lock-step cases; `ts` = interesting start T-states per machine chosen by the caller
pub fn lockstep(o: &Opts, rep: &mut Report, prop: &str, n: u64, ts48: &[usize], ts128: &[usize], word_focus: bool) {
    let mut model = Model::spawn(&o.model, "SYS");
    let mut rng = Rng::new(o.seed ^ 0x5157);
    let mut failures = 0;
    for k in 0..n {
        let mut r = rng.fork();
        // a third of the cases: a block instruction with HL and DE on window boundaries inside the picture;
        // a sixth: 16-bit loads/stores/stack operations straddling the window boundaries
        let focus_kind: u8 = if word_focus { 2 } else { match k % 6 { 1 | 3 => 1, 5 => 2, 2 => 3, _ => 0 } };
        let focus = focus_kind == 1 || focus_kind == 3;
        let mut c = random_case(&mut r, ts48, focus_kind);
        if c.m128 {
            let l = 70908;
            c.t = if r.chance(2, 3) { *r.pick(ts128) } else { r.below(l) as usize };
        }
        if focus {
            let (t0, line) = if c.m128 { (14361usize, 228usize) } else { (14335, 224) };
            c.t = t0 + (r.below(192) as usize) * line + r.below(120) as usize;
            c.steps = c.steps.min(3);
        }
        if k < 1 {
            rep.sample(J::s(c.text()));
        }
        rep.count("cases", "whole-machine lock-step program");
        rep.count_n("lockstep_steps", if c.m128 { "128k" } else { "48k" }, c.steps as u64);
        if let Some(f) = check(&mut model, &c, Some(rep)) {
            failures += 1;
            if failures <= 12 {
                record(&mut model, rep, prop, &c, f);
            } else {
                rep.count("repeat_violations", "lock-step failures beyond the first 12 (not shrunk)");
            }
        } else {
            rep.class(format!("lockstep ok {} steps~{}", c.m128, c.steps / 4 * 4));
        }
    }
}

/// Interrupt-driven programs in lock-step across a frame start: `EI; HALT` loops under IM 2 with a handler
/// that re-enables interrupts at once (re-entered while the 32-T pulse lasts) or only after more than 32 T
/// (once per frame), and a repeating LDIR with interrupts enabled started at every phase relative to the
/// frame start; code, vector table and stack in uncontended or contended RAM.
pub fn interrupt_programs(o: &Opts, rep: &mut Report, prop: &str) {
    let mut model = Model::spawn(&o.model, "SYS");
    let mut failures = 0;
    for m128 in [false, true] {
        let l: usize = if m128 { 70908 } else { 69888 };
        for base in [0x8000u16, 0x6000] {
            // main programs at base, vector table at base+0xEFF/0xF00, handlers at base+0x1000, stack below base+0x1F00
            let table = (base + 0x0EFF, vec![(base + 0x1000) as u8, ((base + 0x1000) >> 8) as u8]);
            let halt_loop = (base, vec![0xFB, 0x76, 0x18, 0xFC]);
            let ldir_loop = (base, vec![0xFB, 0x21, 0x00, 0xA0, 0x11, 0x00, 0xB0, 0x01, 0x00, 0x30, 0xED, 0xB0, 0x18, 0xF3]);
            let short_handler = (base + 0x1000, vec![0xFB, 0x04, 0xC9]);
            let mut long = vec![0x04];
            long.extend_from_slice(&[0x00; 10]);
            long.extend_from_slice(&[0xFB, 0xC9]);
            let long_handler = (base + 0x1000, long);
            let mut cases: Vec<(Vec<(u16, Vec<u8>)>, usize, usize)> = vec![];
            for k in 0..12usize {
                cases.push((vec![table.clone(), halt_loop.clone(), short_handler.clone()], l - 60 - 3 * k, 40));
                cases.push((vec![table.clone(), halt_loop.clone(), long_handler.clone()], l - 60 - 3 * k, 40));
            }
            for k in 0..(if o.thorough() { 84 } else { 42 }) {
                cases.push((vec![table.clone(), ldir_loop.clone(), short_handler.clone()], l - 400 - k, 50));
            }
            // nothing but index-register instructions around the frame start (EI; INC IX x4; LD A,(IX+0); JR)
            let ix_loop = (base, vec![0xFB, 0xDD, 0x23, 0xDD, 0x23, 0xDD, 0x23, 0xDD, 0x23, 0xDD, 0x7E, 0x00, 0x18, 0xF3]);
            for k in 0..30usize {
                cases.push((vec![table.clone(), ix_loop.clone(), long_handler.clone()], l - 150 - k, 40));
            }
            for (pokes, t, steps) in cases {
                let mut st = St::default();
                st.w[PC] = base;
                st.w[SP] = base + 0x1F00;
                st.w[IR] = (base + 0x0E00) & 0xFF00;
                st.im = 2;
                let c = SysCase { m128, kempston: false, mouse: false, latch: 0, t, st, pokes, steps };
                rep.count("cases", "whole-machine lock-step: interrupt program across a frame start");
                rep.count_n("lockstep_steps", if m128 { "128k" } else { "48k" }, steps as u64);
                if let Some(f) = check(&mut model, &c, Some(rep)) {
                    failures += 1;
                    if failures <= 6 {
                        record(&mut model, rep, prop, &c, f);
                    } else {
                        rep.count("repeat_violations", "interrupt-program failures beyond the first 6 (not shrunk)");
                    }
                } else {
                    rep.class(format!("interrupt program ok {} base={:04x} phase={}", m128, base, (l - t) % 42));
                }
            }
        }
    }
}

pub fn replay(o: &Opts, rep: &mut Report, prop: &str, text: &str) {
    let mut model = Model::spawn(&o.model, "SYS");
    if let Some(c) = SysCase::parse(text) {
        if let Some(f) = check(&mut model, &c, Some(rep)) {
            record(&mut model, rep, prop, &c, f);
        }
    }
}
