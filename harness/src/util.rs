//! Shared plumbing: PRNG, model child process, JSON writer, report accumulation.
use std::collections::{BTreeMap, BTreeSet};
use std::io::{BufRead, BufReader, Write};
use std::process::{Child, ChildStdin, ChildStdout, Command, Stdio};

/// SplitMix64: every random choice of every check derives from one seed.
#[derive(Clone)]
pub struct Rng(pub u64);

impl Rng {
    pub fn new(seed: u64) -> Self {
        Rng(seed.wrapping_mul(0x9E37_79B9_7F4A_7C15) ^ 0xD1B5_4A32_D192_ED03)
    }
    pub fn next(&mut self) -> u64 {
        self.0 = self.0.wrapping_add(0x9E37_79B9_7F4A_7C15);
        let mut z = self.0;
        z = (z ^ (z >> 30)).wrapping_mul(0xBF58_476D_1CE4_E5B9);
        z = (z ^ (z >> 27)).wrapping_mul(0x94D0_49BB_1331_11EB);
        z ^ (z >> 31)
    }
    pub fn below(&mut self, n: u64) -> u64 {
        if n == 0 {
            0
        } else {
            self.next() % n
        }
    }
    pub fn range(&mut self, lo: u64, hi: u64) -> u64 {
        lo + self.below(hi - lo + 1)
    }
    pub fn u8(&mut self) -> u8 {
        self.next() as u8
    }
    pub fn u16(&mut self) -> u16 {
        self.next() as u16
    }
    pub fn bool(&mut self) -> bool {
        self.next() & 1 == 1
    }
    pub fn chance(&mut self, num: u64, den: u64) -> bool {
        self.below(den) < num
    }
    pub fn pick<'a, T>(&mut self, xs: &'a [T]) -> &'a T {
        &xs[self.below(xs.len() as u64) as usize]
    }
    pub fn fork(&mut self) -> Rng {
        Rng(self.next())
    }
    pub fn bytes(&mut self, n: usize) -> Vec<u8> {
        (0..n).map(|_| self.u8()).collect()
    }
}

/// The compiled Lean driver behind a pipe: one request line, one response line.
pub struct Model {
    child: Child,
    stdin: ChildStdin,
    stdout: BufReader<ChildStdout>,
    pub requests: u64,
}

impl Model {
    pub fn spawn(path: &str, proto: &str) -> Model {
        let mut child = Command::new(path)
            .arg(proto)
            .stdin(Stdio::piped())
            .stdout(Stdio::piped())
            .spawn()
            .unwrap_or_else(|e| panic!("cannot start model driver {}: {}", path, e));
        let stdin = child.stdin.take().unwrap();
        let stdout = BufReader::with_capacity(1 << 20, child.stdout.take().unwrap());
        Model {
            child,
            stdin,
            stdout,
            requests: 0,
        }
    }

    pub fn ask(&mut self, line: &str) -> String {
        debug_assert!(!line.contains('\n'));
        self.requests += 1;
        self.stdin.write_all(line.as_bytes()).unwrap();
        self.stdin.write_all(b"\n.\n").unwrap();
        self.stdin.flush().unwrap();
        let mut out = String::new();
        let n = self.stdout.read_line(&mut out).unwrap();
        if n == 0 {
            panic!("model driver closed the pipe on request: {}", line);
        }
        while out.ends_with('\n') || out.ends_with('\r') {
            out.pop();
        }
        out
    }

    /// Sends many lines, then reads as many responses (pipelined; much faster for bulk sweeps).
    pub fn ask_many(&mut self, lines: &[String]) -> Vec<String> {
        let mut res = Vec::with_capacity(lines.len());
        for chunk in lines.chunks(512) {
            let mut buf = String::new();
            for l in chunk {
                buf.push_str(l);
                buf.push('\n');
            }
            buf.push_str(".\n");
            self.requests += chunk.len() as u64;
            self.stdin.write_all(buf.as_bytes()).unwrap();
            self.stdin.flush().unwrap();
            for l in chunk {
                let mut out = String::new();
                let n = self.stdout.read_line(&mut out).unwrap();
                if n == 0 {
                    panic!("model driver closed the pipe on request: {}", l);
                }
                while out.ends_with('\n') || out.ends_with('\r') {
                    out.pop();
                }
                res.push(out);
            }
        }
        res
    }
}

impl Drop for Model {
    fn drop(&mut self) {
        let _ = self.child.kill();
        let _ = self.child.wait();
    }
}

/// Minimal JSON value (no external crates are needed offline).
#[derive(Clone, Debug)]
pub enum J {
    Null,
    B(bool),
    I(i64),
    F(f64),
    S(String),
    A(Vec<J>),
    O(Vec<(String, J)>),
}

impl J {
    pub fn s(x: impl Into<String>) -> J {
        J::S(x.into())
    }
    pub fn obj(items: Vec<(&str, J)>) -> J {
        J::O(items.into_iter().map(|(k, v)| (k.to_string(), v)).collect())
    }
    pub fn render(&self) -> String {
        let mut out = String::new();
        self.write(&mut out);
        out
    }
    fn write(&self, out: &mut String) {
        match self {
            J::Null => out.push_str("null"),
            J::B(b) => out.push_str(if *b { "true" } else { "false" }),
            J::I(i) => out.push_str(&i.to_string()),
            J::F(f) => {
                if f.is_finite() {
                    out.push_str(&format!("{}", f))
                } else {
                    out.push_str("null")
                }
            }
            J::S(s) => {
                out.push('"');
                for c in s.chars() {
                    match c {
                        '"' => out.push_str("\\\""),
                        '\\' => out.push_str("\\\\"),
                        '\n' => out.push_str("\\n"),
                        '\r' => out.push_str("\\r"),
                        '\t' => out.push_str("\\t"),
                        c if (c as u32) < 0x20 => out.push_str(&format!("\\u{:04x}", c as u32)),
                        c => out.push(c),
                    }
                }
                out.push('"');
            }
            J::A(xs) => {
                out.push('[');
                for (i, x) in xs.iter().enumerate() {
                    if i > 0 {
                        out.push(',');
                    }
                    x.write(out);
                }
                out.push(']');
            }
            J::O(kv) => {
                out.push('{');
                for (i, (k, v)) in kv.iter().enumerate() {
                    if i > 0 {
                        out.push(',');
                    }
                    J::S(k.clone()).write(out);
                    out.push(':');
                    v.write(out);
                }
                out.push('}');
            }
        }
    }
}

/// What kind of disagreement a case produced.
#[derive(Clone, Copy, PartialEq, Eq, Debug)]
pub enum Kind {
    /// the real code's observation contradicts the executable spec on this concrete input
    SpecViolated,
    /// the real code and the Lean model differ, the spec does not decide this input
    ModelMismatch,
}

#[derive(Clone)]
pub struct Violation {
    pub kind: Kind,
    /// stable identification of *what* fails (matched against known_findings.json)
    pub key: String,
    pub what: String,
    /// which correspondence / theorem is no longer established
    pub correspondence: String,
    pub case: J,
    pub implementation: String,
    pub expected: String,
}

/// Everything one harness run reports back to ./check.
pub struct Report {
    pub property: String,
    pub evaluations: u64,
    distinct: BTreeSet<String>,
    pub samples: Vec<J>,
    pub distribution: BTreeMap<String, BTreeMap<String, u64>>,
    pub violations: Vec<Violation>,
    seen_keys: BTreeSet<String>,
    pub rule: String,
    pub exhaustive: bool,
    pub notes: Vec<String>,
    pub extra: Vec<(String, J)>,
    pub max_samples: usize,
}

impl Report {
    pub fn new(property: &str) -> Report {
        Report {
            property: property.to_string(),
            evaluations: 0,
            distinct: BTreeSet::new(),
            samples: vec![],
            distribution: BTreeMap::new(),
            violations: vec![],
            seen_keys: BTreeSet::new(),
            rule: String::new(),
            exhaustive: false,
            notes: vec![],
            extra: vec![],
            max_samples: 6,
        }
    }
    pub fn eval(&mut self) {
        self.evaluations += 1;
    }
    /// Registers a non-trivial case class; distinct_nontrivial is the size of this set.
    pub fn class(&mut self, c: impl Into<String>) {
        self.distinct.insert(c.into());
    }
    pub fn distinct_count(&self) -> usize {
        self.distinct.len()
    }
    pub fn count(&mut self, hist: &str, bucket: impl Into<String>) {
        *self
            .distribution
            .entry(hist.to_string())
            .or_default()
            .entry(bucket.into())
            .or_default() += 1;
    }
    pub fn count_n(&mut self, hist: &str, bucket: impl Into<String>, n: u64) {
        *self
            .distribution
            .entry(hist.to_string())
            .or_default()
            .entry(bucket.into())
            .or_default() += n;
    }
    pub fn sample(&mut self, j: J) {
        if self.samples.len() < self.max_samples {
            self.samples.push(j);
        }
    }
    /// Records a violation; only the first (assumed smallest) case per key is kept.
    pub fn violation(&mut self, v: Violation) {
        if self.seen_keys.insert(v.key.clone()) {
            self.violations.push(v);
        } else {
            self.count("repeat_violations", v.key.clone());
        }
    }
    pub fn has_key(&self, key: &str) -> bool {
        self.seen_keys.contains(key)
    }

    pub fn to_json(&self) -> J {
        let dist = J::O(
            self.distribution
                .iter()
                .map(|(k, m)| {
                    (
                        k.clone(),
                        J::O(m.iter().map(|(b, n)| (b.clone(), J::I(*n as i64))).collect()),
                    )
                })
                .collect(),
        );
        let viols = J::A(
            self.violations
                .iter()
                .map(|v| {
                    J::obj(vec![
                        (
                            "kind",
                            J::s(match v.kind {
                                Kind::SpecViolated => "spec-violated",
                                Kind::ModelMismatch => "model-mismatch",
                            }),
                        ),
                        ("key", J::s(v.key.clone())),
                        ("what", J::s(v.what.clone())),
                        ("correspondence", J::s(v.correspondence.clone())),
                        ("case", v.case.clone()),
                        ("implementation", J::s(v.implementation.clone())),
                        ("expected", J::s(v.expected.clone())),
                    ])
                })
                .collect(),
        );
        let mut items = vec![
            ("property".to_string(), J::s(self.property.clone())),
            ("evaluations".to_string(), J::I(self.evaluations as i64)),
            (
                "distinct_nontrivial".to_string(),
                J::I(self.distinct.len() as i64),
            ),
            ("rule".to_string(), J::s(self.rule.clone())),
            ("exhaustive".to_string(), J::B(self.exhaustive)),
            ("samples".to_string(), J::A(self.samples.clone())),
            ("distribution".to_string(), dist),
            ("violations".to_string(), viols),
            (
                "notes".to_string(),
                J::A(self.notes.iter().map(|n| J::s(n.clone())).collect()),
            ),
        ];
        for (k, v) in &self.extra {
            items.push((k.clone(), v.clone()));
        }
        J::O(items)
    }
}

pub fn hex(bytes: &[u8]) -> String {
    let mut s = String::with_capacity(bytes.len() * 2);
    for b in bytes {
        s.push_str(&format!("{:02x}", b));
    }
    s
}

pub fn unhex(s: &str) -> Vec<u8> {
    let s = s.trim();
    (0..s.len() / 2)
        .map(|i| u8::from_str_radix(&s[2 * i..2 * i + 2], 16).unwrap())
        .collect()
}

/// Command-line options shared by every property module.
pub struct Opts {
    pub tier: String,
    pub seed: u64,
    pub model: String,
    pub out: String,
    pub replay: Option<String>,
    pub corpus: Option<String>,
}

impl Opts {
    pub fn thorough(&self) -> bool {
        self.tier == "thorough"
    }
    /// quick-or-thorough count
    pub fn n(&self, quick: u64, thorough: u64) -> u64 {
        if self.thorough() {
            thorough
        } else {
            quick
        }
    }
}

/// Message and location of the most recent panic (recorded by the hook installed in `main`).
pub static LAST_PANIC: std::sync::Mutex<String> = std::sync::Mutex::new(String::new());

/// Runs real-code calls that may panic; `Err(message)` instead of unwinding further.
pub fn catch<R>(f: impl FnOnce() -> R) -> Result<R, String> {
    match std::panic::catch_unwind(std::panic::AssertUnwindSafe(f)) {
        Ok(r) => Ok(r),
        Err(_) => Err(LAST_PANIC.lock().map(|m| m.clone()).unwrap_or_default()),
    }
}
