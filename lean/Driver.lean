import Driver.Main
