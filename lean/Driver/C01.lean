import Driver.Util
/- Sub-protocol `C01`: not built yet. -/
namespace Driver.C01

def proto : Driver.Proto := { σ := Unit, init := (), handle := fun s _ => (s, "unimplemented") }

end Driver.C01
