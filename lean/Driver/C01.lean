import Driver.Util
import ZxVerif.Model.Z80.RecBus
import ZxVerif.Extracted.Z80Tables
/-
Sub-protocol `C01` (shared by C02 and C03): the Z80 reference model behind a recording bus.

  x <state> <seed> <lines> <bus> <io> <mem>   load a CPU state and a bus, run ONE `emulate` (reference, `Variant.hw`)
  c <state> <seed> <lines> <bus> <io> <mem>   the same with `Variant.code` (rustzx's MEMPTR arithmetic for LD (nn),A / OUT (n),A)
  n <lines> <bus>                             one more `emulate` from the state left by the previous request
  m <lines> <bus>                             the same with `Variant.code`
  t                                           the eight flag lookup tables of Extracted/Z80Tables.lean (hex)

  <state> = 19 hex tokens: pc sp af bc de hl af' bc' de' hl' ix iy ir mp q lq ff im ap
            ff: bit0 IFF1, bit1 IFF2, bit2 halted, bit3 skip_interrupt; im 0..2; ap 0 none 1 CB 2 DD 3 ED 4 FD
  <seed>  = hex; memory not listed in <mem> holds memDefault seed addr, port reads beyond <io> ioDefault seed port k
  <lines> = bit0 INT active, bit1 NMI active;  <bus> = byte answered by read_interrupt
  <io>    = hex bytes answered by successive port reads, or "-"
  <mem>   = addr:hexbytes[,addr:hexbytes...] or "-"; addr*count:byte repeats one byte

  response: <state> | <bus events in call order>
    M<addr>:<clk> wait_mreq   N<addr>:<clk> wait_no_mreq   I<clk> wait_internal
    R<addr>:<v> read_internal W<addr>:<v> write_internal   i<port>:<v> read_io  o<port>:<v> write_io
    K<v> read_interrupt       T reti      H<0|1> halt      P<addr> pc_callback
-/
namespace Driver.C01
open ZxVerif.Z80

def memDefault (seed : Nat) (a : BitVec 16) : BitVec 8 :=
  BitVec.ofNat 8 (a.toNat * 167 + (a.toNat / 256) * 29 + seed * 59 + 53)

def ioDefault (seed : Nat) (p : BitVec 16) (k : Nat) : BitVec 8 :=
  BitVec.ofNat 8 ((p.toNat % 256) * 31 + (p.toNat / 256) * 17 + seed * 7 + k * 13 + 90)

structure St where
  cpu : Cpu := {}
  bus : RecBus := { mem := fun _ => 0 }

def apOfNat : Nat → APfx
  | 1 => .cb | 2 => .dd | 3 => .ed | 4 => .fd | _ => .none

def apToNat : APfx → Nat
  | .none => 0 | .cb => 1 | .dd => 2 | .ed => 3 | .fd => 4

def parseCpu : List String → Option (Cpu × List String)
  | pc :: sp :: af :: bc :: de :: hl :: af' :: bc' :: de' :: hl' :: ix :: iy :: ir :: mp :: q :: lq ::
      ff :: im :: ap :: rest =>
    let w (s : String) : BitVec 16 := bv16 s
    let ffn := hexNatD ff
    some ({ a := hi (w af), f := lo (w af), b := hi (w bc), c := lo (w bc), d := hi (w de), e := lo (w de),
            h := hi (w hl), l := lo (w hl), a' := hi (w af'), f' := lo (w af'), b' := hi (w bc'),
            c' := lo (w bc'), d' := hi (w de'), e' := lo (w de'), h' := hi (w hl'), l' := lo (w hl'),
            ixh := hi (w ix), ixl := lo (w ix), iyh := hi (w iy), iyl := lo (w iy),
            i := hi (w ir), r := lo (w ir), sp := w sp, pc := w pc, memptr := w mp,
            q := bv8 q, lastQ := bv8 lq,
            iff1 := ffn % 2 = 1, iff2 := (ffn / 2) % 2 = 1, halted := (ffn / 4) % 2 = 1,
            skipInt := (ffn / 8) % 2 = 1, im := hexNatD im % 3, activePrefix := apOfNat (hexNatD ap) }, rest)
  | _ => none

def showCpu (s : Cpu) : String :=
  let ff := (if s.iff1 then 1 else 0) + (if s.iff2 then 2 else 0) + (if s.halted then 4 else 0) +
    (if s.skipInt then 8 else 0)
  String.intercalate " "
    [hex16 s.pc, hex16 s.sp, hex16 s.af, hex16 s.bc, hex16 s.de, hex16 s.hl,
     hex16 (mk16 s.a' s.f'), hex16 (mk16 s.b' s.c'), hex16 (mk16 s.d' s.e'), hex16 (mk16 s.h' s.l'),
     hex16 s.ix, hex16 s.iy, hex16 s.ir, hex16 s.memptr, hex8 s.q, hex8 s.lastQ,
     toHex 1 ff, toHex 1 s.im, toHex 1 (apToNat s.activePrefix)]

def showEv : Ev → String
  | .mreq a c => "M" ++ hex16 a ++ ":" ++ toHex 1 c
  | .nomreq a c => "N" ++ hex16 a ++ ":" ++ toHex 1 c
  | .internal c => "I" ++ toHex 1 c
  | .rd a v => "R" ++ hex16 a ++ ":" ++ hex8 v
  | .wr a v => "W" ++ hex16 a ++ ":" ++ hex8 v
  | .ior p v => "i" ++ hex16 p ++ ":" ++ hex8 v
  | .iow p v => "o" ++ hex16 p ++ ":" ++ hex8 v
  | .iack v => "K" ++ hex8 v
  | .reti => "T"
  | .halt on => if on then "H1" else "H0"
  | .pccb a => "P" ++ hex16 a

/-- `addr:hexbytes,addr:hexbytes` → association list, later entries win;
`addr*count:byte` repeats one byte -/
def parseMem (s : String) : List (BitVec 16 × BitVec 8) :=
  if s = "-" then [] else
  (s.splitOn ",").foldl (fun acc part =>
    match part.splitOn ":" with
    | [a, bytes] =>
      let (base, bs) :=
        match a.splitOn "*" with
        | [a0, n] => (bv16 a0, List.replicate (hexNatD n) (bv8 bytes))
        | _ => (bv16 a, hexBytes bytes)
      (bs.zipIdx.map fun (v, k) => (base + BitVec.ofNat 16 k, v)).reverse ++ acc
    | _ => acc) []

def mkBus (seed : Nat) (lines : Nat) (busByte : BitVec 8) (io : String) (mem : String) : RecBus :=
  let ov := parseMem mem
  { mem := fun a => match ov.lookup a with | some v => v | none => memDefault seed a,
    io := if io = "-" then [] else hexBytes io,
    ioDefault := ioDefault seed,
    int := lines % 2 = 1, nmi := (lines / 2) % 2 = 1, busByte := busByte }

def respond (sb : Cpu × RecBus) : String :=
  showCpu sb.1 ++ " | " ++ String.intercalate " " (sb.2.trace.map showEv)

def stepFrom (v : Variant) (cpu : Cpu) (bus : RecBus) : St × String :=
  let sb := emulate v (cpu, bus)
  ({ cpu := sb.1, bus := sb.2 }, respond sb)

def load (v : Variant) (args : List String) (s : St) : St × String :=
  match parseCpu args with
  | some (cpu, [seed, lines, busB, io, mem]) =>
    stepFrom v cpu (mkBus (hexNatD seed) (hexNatD lines) (bv8 busB) io mem)
  | _ => (s, "bad-op")

def next (v : Variant) (lines busB : String) (s : St) : St × String :=
  let l := hexNatD lines
  stepFrom v s.cpu { s.bus with log := [], int := l % 2 = 1, nmi := (l / 2) % 2 = 1, busByte := bv8 busB }

def handle (s : St) : List String → St × String
  | "x" :: args => load .hw args s
  | "c" :: args => load .code args s
  | ["n", lines, busB] => next .hw lines busB s
  | ["m", lines, busB] => next .code lines busB s
  | ["t"] =>
    -- the committed copy of the flag lookup tables (Extracted/Z80Tables.lean), for the textual tie
    let ts := [Extracted.halfCarryAdd, Extracted.halfCarrySub, Extracted.overflowAdd, Extracted.overflowSub,
               Extracted.parity, Extracted.f3f5, Extracted.szf3f5, Extracted.szpf3f5]
    (s, String.intercalate " " (ts.map bytesHex))
  | _ => (s, "bad-op")

def proto : Driver.Proto := { σ := St, init := {}, handle := handle }

end Driver.C01
