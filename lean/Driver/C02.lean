import Driver.C01
/- Sub-protocol `C02`: the Z80 reference model behind a recording bus — the protocol of `C01`
(the C02 harness speaks it; see Driver/C01.lean for the wire format). -/
namespace Driver.C02

def proto : Driver.Proto := Driver.C01.proto

end Driver.C02
