import Driver.Util
/- Sub-protocol `C02`: not built yet. -/
namespace Driver.C02

def proto : Driver.Proto := { σ := Unit, init := (), handle := fun s _ => (s, "unimplemented") }

end Driver.C02
