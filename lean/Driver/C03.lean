import Driver.Util
/- Sub-protocol `C03`: not built yet. -/
namespace Driver.C03

def proto : Driver.Proto := { σ := Unit, init := (), handle := fun s _ => (s, "unimplemented") }

end Driver.C03
