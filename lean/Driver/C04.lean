import Driver.Util
/- Sub-protocol `C04`: not built yet. -/
namespace Driver.C04

def proto : Driver.Proto := { σ := Unit, init := (), handle := fun s _ => (s, "unimplemented") }

end Driver.C04
