import Driver.Machine
/- Sub-protocol `C04`: the machine protocol (see Driver/Machine.lean). -/
namespace Driver.C04

def proto : Driver.Proto := Driver.Machine.proto

end Driver.C04
