import Driver.Machine
/- Sub-protocol `C05`: the machine protocol (see Driver/Machine.lean). -/
namespace Driver.C05

def proto : Driver.Proto := Driver.Machine.proto

end Driver.C05
