import Driver.Util
/- Sub-protocol `C05`: not built yet. -/
namespace Driver.C05

def proto : Driver.Proto := { σ := Unit, init := (), handle := fun s _ => (s, "unimplemented") }

end Driver.C05
