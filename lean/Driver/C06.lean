import Driver.Util
/- Sub-protocol `C06`: not built yet. -/
namespace Driver.C06

def proto : Driver.Proto := { σ := Unit, init := (), handle := fun s _ => (s, "unimplemented") }

end Driver.C06
