import Driver.Machine
/- Sub-protocol `C06`: the machine protocol (see Driver/Machine.lean). -/
namespace Driver.C06

def proto : Driver.Proto := Driver.Machine.proto

end Driver.C06
