import Driver.Util
/- Sub-protocol `C07`: not built yet. -/
namespace Driver.C07

def proto : Driver.Proto := { σ := Unit, init := (), handle := fun s _ => (s, "unimplemented") }

end Driver.C07
