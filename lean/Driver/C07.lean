import Driver.Machine
/- Sub-protocol `C07`: the machine protocol (see Driver/Machine.lean). -/
namespace Driver.C07

def proto : Driver.Proto := Driver.Machine.proto

end Driver.C07
