import Driver.Util
/- Sub-protocol `C08`: not built yet. -/
namespace Driver.C08

def proto : Driver.Proto := { σ := Unit, init := (), handle := fun s _ => (s, "unimplemented") }

end Driver.C08
