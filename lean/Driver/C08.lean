import Driver.Util
import ZxVerif.Spec.Video
/-
Sub-protocol `C08`: the controller/screen model against the standard-decode spec.
  new <m 0|1> <fixed 0|1>        fresh machine (0 = 48K, 1 = 128K); `fixed` selects the repaired poke
  wait <n>                       wait_internal
  setclk <t>                     hook verif_set_frame_clocks
  w <addr> <val> <clk>           CPU memory write cycle
  wblk <addr> <clk> <hex>        consecutive CPU writes
  wi <addr> <val>                write_internal (fast-load)
  wiblk <addr> <hex>             consecutive write_internal
  out <port> <v>                 write_io (OUT by the CPU; 7ffd = paging latch on the 128K)
  set7ffd <v>                    write_7ffd as a snapshot loader calls it
  scr <hex>                      screenshot::scr::load
  pages (<bank> <hex>)*          snapshot load: whole pages + refresh
  poke <addr> <val>
  peek <addr>                    -> <byte>
  status                         -> <frameClocks> <passedFrames> (no state change)
every state-changing op answers  <frameClocks> <passedFrames>
  frame                          -> <fnv of model front canvas> <model flash> <model frame counter>
  spec                           -> <fnv of stdDecode of the visible bank, phase 0> <phase 1>
  back                           -> <fnv of model back canvas>
  px <x> <y>                     -> <model front px> <spec px phase 0> <spec px phase 1>
  pxo <x> <y> <off> <val>        -> <spec px phase 0> <phase 1> <the same with screen byte off := val, phase 0> <phase 1>
  flashok (<n>:<0|1>)*           -> ok | bad      (spec: some alignment of 16-frame windows fits)
  fetch <y> <col>                -> <spec fetch clock> (decimal fields are hex like everything else)
-/
namespace Driver.C08
open ZxVerif.Video

structure St where
  c : Ctl := Ctl.new .k48
  fixed : Bool := false

def fnvStep (h : UInt64) (b : BitVec 8) : UInt64 := (h ^^^ b.toNat.toUInt64) * 0x100000001b3

def fnvArray (a : Array Px) : UInt64 := a.foldl fnvStep 0xcbf29ce484222325

def specMem (c : Ctl) : Nat → BitVec 8 :=
  let bank := Spec.visibleBank c.machine c.port7ffd
  fun off => c.mem.ramByte bank off

def fnvSpec (c : Ctl) (phase : Bool) : UInt64 :=
  let mem := specMem c
  Nat.fold (256 * 192) (fun p _ h => fnvStep h (Spec.stdPx mem phase (p % 256) (p / 256))) 0xcbf29ce484222325

def hex64 (h : UInt64) : String := toHex 16 h.toNat

def status (c : Ctl) : String := s!"{toHex 5 c.frameClocks} {toHex 4 c.passedFrames}"

def step (s : St) (op : Op) : St × String :=
  let c := s.c.step s.fixed op
  ({ s with c := c }, status c)

def writeBlock (c : Ctl) (addr : Nat) (clk : Nat) : List (BitVec 8) → Ctl
  | [] => c
  | b :: bs => writeBlock (c.write (BitVec.ofNat 16 addr) b clk) (addr + 1) clk bs

def writeInternalBlock (c : Ctl) (addr : Nat) : List (BitVec 8) → Ctl
  | [] => c
  | b :: bs => writeInternalBlock (c.writeInternal (BitVec.ofNat 16 addr) b) (addr + 1) bs

def pages? : List String → Option (List (Nat × List (BitVec 8)))
  | [] => some []
  | b :: h :: rest => do
    let r ← pages? rest
    some ((hexNatD b, hexBytes h) :: r)
  | _ => none

def obs? (s : String) : Option (Nat × Bool) :=
  match s.splitOn ":" with
  | [n, b] => do some ((← hexNat? n), (← bool? b))
  | _ => none

def handle (s : St) : List String → St × String
  | ["new", m, f] =>
    let c := Ctl.new (if m = "1" then .k128 else .k48)
    ({ c := c, fixed := boolD f }, status c)
  | ["wait", n] => step s (.wait (hexNatD n))
  | ["setclk", t] =>
    let c := { s.c with frameClocks := hexNatD t }
    ({ s with c := c }, status c)
  | ["w", a, v, k] => step s (.cpuWrite (bv16 a) (bv8 v) (hexNatD k))
  | ["wblk", a, k, h] =>
    let c := writeBlock s.c (hexNatD a) (hexNatD k) (hexBytes h)
    ({ s with c := c }, status c)
  | ["wi", a, v] => step s (.tapeWrite (bv16 a) (bv8 v))
  | ["wiblk", a, h] =>
    let c := writeInternalBlock s.c (hexNatD a) (hexBytes h)
    ({ s with c := c }, status c)
  | ["out", p, v] => step s (.out (bv16 p) (bv8 v))
  | ["set7ffd", v] => step s (.set7ffd (bv8 v))
  | ["scr", h] => step s (.loadScr (hexBytes h))
  | "pages" :: rest =>
    match pages? rest with
    | some ps => step s (.loadPages ps)
    | none => (s, "bad-op")
  | ["poke", a, v] => step s (.poke (bv16 a) (bv8 v))
  | ["status"] => (s, status s.c)
  | ["peek", a] => (s, hex8 (s.c.mem.read (bv16 a)))
  | ["frame"] =>
    let c := s.c
    (s, s!"{hex64 (fnvArray c.screen.front)} {bit c.screen.flash} {toHex 4 c.screen.frameCounter}")
  | ["spec"] => (s, s!"{hex64 (fnvSpec s.c false)} {hex64 (fnvSpec s.c true)}")
  | ["back"] => (s, hex64 (fnvArray s.c.screen.back))
  | ["px", x, y] =>
    let x := hexNatD x
    let y := hexNatD y
    let mem := specMem s.c
    (s, s!"{hex8 (s.c.screen.front.getD (y * 256 + x) 0xEE)} {hex8 (Spec.stdPx mem false x y)} {hex8 (Spec.stdPx mem true x y)}")
  | ["pxo", x, y, off, v] =>
    -- spec pixel of the current memory, and of the same memory with byte `off` replaced by `v`
    let x := hexNatD x
    let y := hexNatD y
    let o := hexNatD off
    let mem := specMem s.c
    let mem' : Nat → BitVec 8 := fun a => if a = o then bv8 v else mem a
    (s, s!"{hex8 (Spec.stdPx mem false x y)} {hex8 (Spec.stdPx mem true x y)} " ++
        s!"{hex8 (Spec.stdPx mem' false x y)} {hex8 (Spec.stdPx mem' true x y)}")
  | "flashok" :: rest =>
    match rest.mapM obs? with
    | some obs => (s, if Spec.flashOk obs then "ok" else "bad")
    | none => (s, "bad-op")
  | ["fetch", y, col] => (s, toHex 5 (Spec.fetchClock s.c.machine (hexNatD y) (hexNatD col)))
  | _ => (s, "bad-op")

def proto : Driver.Proto := { σ := St, init := {}, handle := handle }

end Driver.C08
