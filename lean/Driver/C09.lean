import Driver.Util
/- Sub-protocol `C09`: not built yet. -/
namespace Driver.C09

def proto : Driver.Proto := { σ := Unit, init := (), handle := fun s _ => (s, "unimplemented") }

end Driver.C09
