import Driver.Util
import ZxVerif.Spec.Video
/-
Sub-protocol `C09`: the border model against the beam-position spec.
  new <m 0|1>
  wait <n> | setclk <t>                  -> <frameClocks> <passedFrames>
  out <port> <val>                       -> <frameClocks> <passedFrames> <clock at which the ULA latched it | ->
  snap <colour>                          snapshot border: set_border_color(0, c)
  snapszx <border> <fe>                  SZX SPCR chunk: write_io(0xFE, fe); set_border_color(frame_clocks, border)
  frame                                  -> <fnv of model border buffer> <spec verdict on it> <model reported colour> <spec reported colour | ->
  adj <runs>                             spec verdict on a buffer given as run-length list  n:code,n:code,...
  bpx <q>                                -> model border pixel at linear index q
  beam <t>                               -> <model line> <model pixel> <model frame_end> <spec position | ->
Spec verdicts refer to the last *completed* frame: ok | unspec (frame saw a snapshot load) |
bad <q> <shown> <exact colour or ->.
The driver keeps, per frame, the colour in force at its start and the (latch clock, colour) list.
-/
namespace Driver.C09
open ZxVerif.Video

structure FrameRec where
  init : Option (BitVec 3) := none
  ws : List (Nat × BitVec 3) := []     -- time order
  unspec : Bool := false

structure St where
  c : Ctl := Ctl.new .k48
  cur : List (Nat × BitVec 3) := []    -- reversed
  curInit : Option (BitVec 3) := none
  curUnspec : Bool := false
  last : FrameRec := {}
  reported : Option (BitVec 3) := none

def fnvStep (h : UInt64) (b : BitVec 8) : UInt64 := (h ^^^ b.toNat.toUInt64) * 0x100000001b3
def fnvArray (a : Array Px) : UInt64 := a.foldl fnvStep 0xcbf29ce484222325
def hex64 (h : UInt64) : String := toHex 16 h.toNat

def status (c : Ctl) : String := s!"{toHex 5 c.frameClocks} {toHex 4 c.passedFrames}"

/-- a frame boundary was crossed: the record of the frame in progress becomes `last` -/
def rotate (s : St) : St :=
  let init' := match s.cur with
    | (_, col) :: _ => some col
    | [] => s.curInit
  { s with last := { init := s.curInit, ws := s.cur.reverse, unspec := s.curUnspec },
           cur := [], curInit := init', curUnspec := false }

def rotateIf (s : St) (before after : Nat) : St := if after > before then rotate s else s

/-- the port reaches the ULA branch of `write_io` -/
def ulaRouted (port : BitVec 16) : Bool :=
  !(port &&& 0xC002 == 0xC000) && !(port &&& 0xC002 == 0x8000) && (port &&& 1 == 0)

/-- first pixel the buffer gets wrong w.r.t. the spec of frame `fr` -/
def specCheck (m : Machine) (fr : FrameRec) (buf : Array Px) : String :=
  if fr.unspec then "unspec" else
  let pws := Spec.positions m fr.ws
  let bad := Nat.fold (320 * 240) (fun q _ (acc : Option (Nat × Px × Option (BitVec 3))) =>
    match acc with
    | some _ => acc
    | none =>
      let shown := buf.getD q 0xEE
      let exact := Spec.colourAtPos fr.init pws q
      let fast := match exact with
        | some c => shown == pxCode c false
        | none => shown &&& 0xF8 == 0
      if fast then none
      else if shown &&& 0xF8 == 0 && Spec.allowedAtPos fr.init pws q (shown.setWidth 3) then none
      else some (q, shown, exact)) none
  match bad with
  | none => "ok"
  | some (q, shown, exact) =>
    let e := match exact with | some c => toHex 1 c.toNat | none => "-"
    s!"bad {toHex 5 q} {hex8 shown} {e}"

def runs? (s : String) : Option (Array Px) :=
  (s.splitOn ",").foldlM (fun (acc : Array Px) r =>
    match r.splitOn ":" with
    | [n, c] => do
      let n ← hexNat? n
      let c ← hexNat? c
      some (acc ++ Array.replicate n (BitVec.ofNat 8 c))
    | _ => none) #[]

def col1 : Option (BitVec 3) → String
  | some c => toHex 1 c.toNat
  | none => "-"

def handle (s : St) : List String → St × String
  | ["new", m] =>
    let c := Ctl.new (if m = "1" then .k128 else .k48)
    ({ c := c }, status c)
  | ["wait", n] =>
    let c := s.c.waitInternal (hexNatD n)
    (rotateIf { s with c := c } s.c.passedFrames c.passedFrames, status c)
  | ["setclk", t] =>
    let c := { s.c with frameClocks := hexNatD t }
    ({ s with c := c }, status c)
  | ["out", p, v] =>
    let port := bv16 p
    let data := bv8 v
    let c1 := s.c.ioContentionFirst port
    let s1 := rotateIf s s.c.passedFrames c1.passedFrames
    let col : BitVec 3 := (data &&& 0x07).setWidth 3
    let (s2, latch) :=
      if ulaRouted port then
        ({ s1 with cur := (c1.frameClocks, col) :: s1.cur, reported := some col }, toHex 5 c1.frameClocks)
      else (s1, "-")
    let c2 := s.c.writeIo port data
    let s3 := rotateIf { s2 with c := c2 } c1.passedFrames c2.passedFrames
    (s3, s!"{status c2} {latch}")
  | ["snapszx", b, fe] =>
    -- SZX SPCR chunk: OUT (0xFE),chFe through the port path, then the stored border at the current clock;
    -- the frame is not adjudicated pixel by pixel, the reported colour is the stored border
    -- restore_7ffd(0): the 128K is unlocked and paged back to its reset map first
    let c0 := if s.c.machine == .k128 then ({ s.c with pagingEnabled := true }).write7ffd 0 else s.c
    let c1 := c0.writeIo 0x00FE (bv8 fe)
    let s1 := rotateIf { s with c := c1 } s.c.passedFrames c1.passedFrames
    let col : BitVec 3 := BitVec.ofNat 3 (hexNatD b)
    let c2 := c1.setBorderColor c1.frameClocks col
    ({ s1 with c := c2, cur := (c1.frameClocks, col) :: s1.cur, curUnspec := true, reported := some col }, status c2)
  | ["snap", v] =>
    let col : BitVec 3 := BitVec.ofNat 3 (hexNatD v)
    let c := s.c.setBorderColor 0 col
    -- the snapshot border counts as the colour in force from now on; this frame is not adjudicated
    ({ s with c := c, cur := (0, col) :: s.cur, curUnspec := true, reported := some col }, status c)
  | ["frame"] =>
    let c := s.c
    (s, s!"{hex64 (fnvArray c.border.buf)} {specCheck c.machine s.last c.border.buf} " ++
        s!"{toHex 1 c.borderColor.toNat} {col1 s.reported}")
  | ["adj", rl] =>
    match runs? rl with
    | some buf => (s, specCheck s.c.machine s.last buf)
    | none => (s, "bad-op")
  | ["bpx", q] => (s, hex8 (s.c.border.buf.getD (hexNatD q) 0xEE))
  | ["beam", t] =>
    let (l, p, e) := nextBorderPixel s.c.machine (hexNatD t)
    let sp := match Spec.beamPos s.c.machine (hexNatD t) with
      | some q => toHex 5 q
      | none => "-"
    (s, s!"{toHex 2 l} {toHex 3 p} {bit e} {sp}")
  | _ => (s, "bad-op")

def proto : Driver.Proto := { σ := St, init := {}, handle := handle }

end Driver.C09
