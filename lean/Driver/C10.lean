import Driver.Util
import ZxVerif.Spec.Tape
/-
Sub-protocol `C10`: fast tape loading.
  variant <0|1>                 0 = code as it is, 1 = with proposed_fixes/C10-1.diff      -> ok
  tape <hex|->                  insert a TAP image (fresh Tap, fresh spec block list)      -> ok <blocks> <tail>
  nb                            component level: Tap::next_block            -> M true|false|err:<e> S true|false|undecided
  nbb <n>                       component level: up to n × Tap::next_block_byte
                                -> M <hex|-> more|none|err:<e> S <hex|-> more|none  (or S undecided)
  req <a> <load> <ix> <de> <sp> <win hex|->
        system level: call of ROM 0x0556 with A, carry=load, IX, DE, SP (return address on top),
        `win` = memory contents at IX, IX+1, … before the call
        -> M <outcome> <ix> <de> <win after> S <outcome> <ix> <de> <win after>
           outcome: ret1 | ret0 (returned to the caller with carry set / clear) | loops | err:<e>
           spec outcome `undecided` when the request reaches a truncated tail of the image
-/
namespace Driver.C10
open ZxVerif.Tape

structure St where
  fixed : Bool := false
  tap : Tap := Tap.new []
  blocks : List (List Byte) := []
  tailLen : Nat := 0
  specLost : Bool := false
  cur : List Byte := []      -- spec: what is left of the block being read (component level)

def errStr : Err → String
  | .eof => "err:eof"
  | .invalidTap => "err:invalid"
  | .fuel => "err:fuel"

def outcomeStr : SysOutcome → String
  | .returned true => "ret1"
  | .returned false => "ret0"
  | .loops => "loops"
  | .error e => errStr e

def hexOrDash (bs : List Byte) : String := if bs.isEmpty then "-" else bytesHex bs

def parseHex (s : String) : List Byte := if s = "-" then [] else hexBytes s

/-- memory whose contents at ix, ix+1, … are `win` (zero elsewhere) -/
def winMem (ix : BitVec 16) (win : Array Byte) : Mem :=
  { base := fun a => win.getD ((a - ix).toNat) 0 }

/-- the window after the writes of `m` -/
def winAfter (ix : BitVec 16) (win : Array Byte) (m : Mem) : List Byte :=
  (m.writes.foldr (fun (w : BitVec 16 × Byte) (arr : Array Byte) =>
      arr.setIfInBounds ((w.1 - ix).toNat) w.2) win).toList

def drain : Nat → Reader → List Byte → List Byte × String × Reader
  | 0, r, acc => (acc.reverse, "more", r)
  | n + 1, r, acc =>
    match nextBlockByte r with
    | (.error e, r) => (acc.reverse, errStr e, r)
    | (.ok none, r) => (acc.reverse, "none", r)
    | (.ok (some b), r) => drain n r (b :: acc)

def handle (s : St) : List String → St × String
  | ["variant", v] => ({ s with fixed := boolD v }, "ok")
  | ["tape", h] =>
    let data := parseHex h
    let bl := Spec.blocks data
    let tl := (Spec.tail data).length
    ({ s with tap := Tap.new data, blocks := bl, tailLen := tl, specLost := false, cur := [] },
      s!"ok {bl.length} {tl}")
  | ["nb"] =>
    let (mStr, rd) := match nextBlock s.tap.rd with
      | (.error e, rd) => (errStr e, rd)
      | (.ok b, rd) => (if b then "true" else "false", rd)
    let s := { s with tap := { s.tap with rd := rd } }
    if s.specLost then (s, s!"M {mStr} S undecided")
    else match s.blocks with
      | [] => if s.tailLen < 2 then ({ s with cur := [] }, s!"M {mStr} S false")
              else ({ s with specLost := true }, s!"M {mStr} S undecided")
      | b :: rest => ({ s with cur := b, blocks := rest }, s!"M {mStr} S true")
  | ["nbb", n] =>
    let n := hexNatD n
    let (bs, st, rd) := drain n s.tap.rd []
    let s := { s with tap := { s.tap with rd := rd } }
    if s.specLost then (s, s!"M {hexOrDash bs} {st} S undecided")
    else
      let sStr := if n ≤ s.cur.length then s!"{hexOrDash (s.cur.take n)} more" else s!"{hexOrDash s.cur} none"
      ({ s with cur := s.cur.drop n }, s!"M {hexOrDash bs} {st} S {sStr}")
  | ["req", a, load, ix, de, sp, win] =>
    let r : Request := { a := bv8 a, load := boolD load, ix := bv16 ix, de := bv16 de }
    let winA := (parseHex win).toArray
    let m0 := winMem r.ix winA
    let (o, c, m, tap) := sysCall s.fixed r (bv16 sp) m0 s.tap
    let mStr := s!"M {outcomeStr o} {hex16 c.ix} {hex16 c.de} {hexOrDash (winAfter r.ix winA m)}"
    -- spec
    let (sStr, blocks, lost) :=
      if s.specLost then ("S undecided", s.blocks, true)
      else match Spec.request r m0 s.blocks with
        | (none, rest) =>
          if s.tailLen < 2 then (s!"S loops {hex16 r.ix} {hex16 r.de} {hexOrDash winA.toList}", rest, false)
          else ("S undecided", rest, true)
        | (some res, rest) =>
          (s!"S {if res.carry then "ret1" else "ret0"} {hex16 res.ix} {hex16 res.de} " ++
             hexOrDash (winAfter r.ix winA res.mem), rest, false)
    ({ s with tap := tap, blocks := blocks, specLost := lost, cur := [] }, mStr ++ " " ++ sStr)
  | _ => (s, "bad-op")

def proto : Driver.Proto := { σ := St, init := {}, handle := handle }

end Driver.C10
