import Driver.Util
/- Sub-protocol `C10`: not built yet. -/
namespace Driver.C10

def proto : Driver.Proto := { σ := Unit, init := (), handle := fun s _ => (s, "unimplemented") }

end Driver.C10
