import Driver.Util
import ZxVerif.Spec.Tape
/-
Sub-protocol `C11` (also the base of `C12`): the pulse generator under step schedules.
  variant <0|1>               0 = code as found, 1 = with proposed_fixes/C12-1.diff          -> ok
  tape <hex|->                insert a TAP image (fresh Tap, time 0)                          -> ok <blocks> <tail>
  cmd play|stop|rewind        Tap::play / stop / rewind                                       -> ok
  run <kind> <seed> <n>       n calls of process_clocks with the step schedule (kind, seed)
        -> <ok|err:e> <time after> <stopped 0|1> <stop time|-> E <time:level> …   (edges of this run)
  verdict                     the waveform spec on all edges since the tape was inserted       -> ok | undecided | violates:<what>
  adjudicate <stop|-> <time:level> …   the same verdict for an edge list observed on the real code
  adjwide <last sample time> <a:b:level> …   verdict for a *sampled* observation (system level): every edge lies in
        (a, b]; a pulse is rejected only if no length compatible with the samples is within nominal..nominal+32
Schedules (both sides implement them identically; SplitMix64 as in harness/src/util.rs):
  kind 0 uniform 1..16 · 1 constant (seed mod 16)+1 · 2 mostly 1..4, sometimes 16 · 3 alternating 16,1
  · 4 instruction-like {3,4,4,4,5,6,7,8,3,1} · 5 constant `seed` T (coarse advance, used by C12 only)
-/
namespace Driver.C11
open ZxVerif.Tape

structure Rng where
  s : UInt64

def Rng.new (seed : UInt64) : Rng := ⟨(seed * 0x9E3779B97F4A7C15) ^^^ 0xD1B54A32D192ED03⟩

def Rng.next (r : Rng) : UInt64 × Rng :=
  let s := r.s + 0x9E3779B97F4A7C15
  let z := s
  let z := (z ^^^ (z >>> 30)) * 0xBF58476D1CE4E5B9
  let z := (z ^^^ (z >>> 27)) * 0x94D049BB133111EB
  (z ^^^ (z >>> 31), ⟨s⟩)

def instrTable : Array Nat := #[3, 4, 4, 4, 5, 6, 7, 8, 3, 1]

/-- step number `i` of schedule `kind` -/
def nextStep (kind : Nat) (seed : Nat) (i : Nat) (r : Rng) : Nat × Rng :=
  match kind with
  | 5 => (seed, r)
  | 1 => (seed % 16 + 1, r)
  | 3 => (if i % 2 = 0 then 16 else 1, r)
  | 2 => let (x, r) := r.next
         (if x % 16 = 0 then 16 else 1 + ((x >>> 8) % 4).toNat, r)
  | 4 => let (x, r) := r.next
         (instrTable.getD (x % 10).toNat 4, r)
  | _ => let (x, r) := r.next
         (1 + (x % 16).toNat, r)

structure Edge where
  time : Nat
  level : Bool

structure St where
  fixed : Bool := false
  tap : Tap := Tap.new []
  now : Nat := 0
  edges : List Edge := []        -- newest first, since the tape was inserted
  stopTime : Option Nat := none  -- when the generator was first seen in `Stop` after running
  blocks : List (List Byte) := []
  tailLen : Nat := 0

def errStr : Err → String
  | .eof => "err:eof"
  | .invalidTap => "err:invalid"
  | .fuel => "err:fuel"

structure RunRes where
  tap : Tap
  now : Nat
  edges : List Edge       -- of this run, newest first
  stopTime : Option Nat
  err : Option Err

/-- n calls of `process_clocks` -/
def drive (fixed : Bool) (kind seed : Nat) :
    Nat → Nat → Rng → Tap → Nat → List Edge → Option Nat → RunRes
  | 0, _, _, tap, now, edges, stopTime => { tap, now, edges, stopTime, err := none }
  | n + 1, i, rng, tap, now, edges, stopTime =>
    let (c, rng) := nextStep kind seed i rng
    let wasRunning := tap.state != .stop
    let lvl := tap.currBit
    let (e, t) := processClocks fixed tap c
    let now := now + c
    let edges := if t.currBit != lvl then ⟨now, t.currBit⟩ :: edges else edges
    let stopTime := if wasRunning && t.state == .stop && stopTime.isNone then some now else stopTime
    match e with
    | some err => { tap := t, now := now, edges := edges, stopTime := stopTime, err := some err }
    | none => drive fixed kind seed n (i + 1) rng t now edges stopTime

def edgeStr (e : Edge) : String := s!"{(Nat.toDigits 16 e.time).asString}:{bit e.level}"

def parseEdge (s : String) : Option Edge :=
  match s.splitOn ":" with
  | [t, l] => some ⟨hexNatD t, l = "1"⟩
  | _ => none

/-- pulse lengths between consecutive edges, plus the time from the last edge to the stop -/
def pulsesOf (edges : List Edge) (stop : Option Nat) : List Nat :=
  let times := edges.map (·.time) ++ (match stop with | some s => [s] | none => [])
  (times.zip (times.drop 1)).map fun (a, b) => b - a

/-- cut a pulse list after every pause (a pulse of at least 3 000 000 T) -/
def segments (ps : List Nat) : List (List Nat) × List Nat :=
  let (segs, cur) := ps.foldl (fun (acc : List (List Nat) × List Nat) p =>
      if p ≥ 3000000 then ((p :: acc.2).reverse :: acc.1, []) else (acc.1, p :: acc.2)) ([], [])
  (segs.reverse, cur.reverse)

/-- which part of a block's waveform is off (only called when `Spec.acceptsBlock` rejects) -/
def diagnose (bs : List Byte) (measured : List Nat) : String :=
  match bs with
  | [] => "empty-block"
  | flag :: _ =>
    let pilot := measured.takeWhile (fun a => Spec.pulseOk 2168 a)
    let restM := measured.drop pilot.length
    let body := [667, 735] ++ bs.flatMap Spec.bytePulses
    let pilotOk := if flag = 0 then pilot.length == 8063 else pilot.length ≥ 3223
    if !pilotOk then
      (if restM.isEmpty || Spec.pulseOk 667 (restM.headD 0) then "pilot-count" else "pilot-length")
    else
      let idx := (body.zip restM).findIdx? (fun (n, a) => !Spec.pulseOk n a)
      match idx with
      | some 0 => "sync1"
      | some 1 => "sync2"
      | some i => if body.getD i 0 == 855 then "bit0-length" else "bit1-length"
      | none =>
        if restM.length != body.length + 1 then "pulse-count" else "pause"

def verdictOf (blocks : List (List Byte)) (tailLen : Nat) (edges : List Edge) (stop : Option Nat) : String :=
  if tailLen ≥ 2 || blocks.any (·.isEmpty) then "undecided" else
  let (segs, rest) := segments (pulsesOf edges stop)
  let rec go : Nat → List (List Byte) → List (List Nat) → String
    | _, _, [] => "ok"
    | i, [], _ :: _ => s!"violates:more-than-{i}-blocks-played"
    | i, b :: bs, s :: ss =>
      if Spec.acceptsBlock b s then go (i + 1) bs ss else s!"violates:block-{i}:{diagnose b s}"
  let v := go 0 blocks segs
  if v != "ok" then v
  else if stop.isSome && segs.length < blocks.length then s!"violates:stopped-after-{segs.length}-of-{blocks.length}-blocks"
  else if stop.isSome && !rest.isEmpty then "violates:pulses-after-last-pause"
  else "ok"

/-! sampled observation (system level): every edge is only known to lie in `(a, b]` -/

structure WEdge where
  a : Nat
  b : Nat
  level : Bool

def parseWEdge (s : String) : Option WEdge :=
  match s.splitOn ":" with
  | [a, b, l] => some ⟨hexNatD a, hexNatD b, l = "1"⟩
  | _ => none

/-- (exclusive lower bound, exclusive upper bound) of every pulse between consecutive edges -/
def widePulses : List WEdge → List (Nat × Nat)
  | e :: f :: rest => (f.a - e.b, f.b - e.a) :: widePulses (f :: rest)
  | _ => []

/-- the sampled edges of one block; `pause`: the pulse between its last edge and the next block's first -/
structure WBlock where
  edges : List WEdge
  pause : Option (Nat × Nat)

/-- cut the edge list where two consecutive edges are at least ~3 M T-states apart -/
def splitBlocks (es : List WEdge) : List WBlock :=
  let (done, cur) := es.foldl (fun (acc : List WBlock × List WEdge) f =>
      match acc.2 with
      | e :: _ =>
        if f.a - e.b ≥ 2999000 then (⟨acc.2.reverse, some (f.a - e.b, f.b - e.a)⟩ :: acc.1, [f])
        else (acc.1, f :: acc.2)
      | [] => (acc.1, [f])) ([], [])
  (if cur.isEmpty then done else ⟨cur.reverse, none⟩ :: done).reverse

/-- first thing wrong with the sampled edges of one block, or `ok` / `incomplete` -/
def diagnoseWide (bs : List Byte) (blk : WBlock) (silent : Bool) : String :=
  match bs with
  | [] => "empty-block"
  | flag :: _ =>
    let measured := widePulses blk.edges
    let pauseSeen := blk.pause.isSome
    let run := (measured.takeWhile (fun a => Spec.pulseOkWide 2168 a.1 a.2)).length
    let p := if flag = 0 then 8063 else max 3223 run
    let kinds : List (String × Nat) :=
      List.replicate p ("pilot", 2168) ++ [("sync1", 667), ("sync2", 735)] ++
        (bs.flatMap Spec.bytePulses).map (fun l => (if l == 855 then "bit0" else "bit1", l))
    let bad := (kinds.zip measured).find? (fun (k, m) => !Spec.pulseOkWide k.2 m.1 m.2)
    match bad with
    | some ((kind, len), (lo, hi)) =>
      if kind == "pilot" && Spec.pulseOkWide 667 lo hi then "pilot-count"
      else if kind == "sync1" && Spec.pulseOkWide 2168 lo hi then "pilot-count"
      else if lo + 1 > len + 32 then s!"{kind}-too-long" else s!"{kind}-too-short"
    | none =>
      -- cumulative: the first k pulses together (bites when samples are far apart)
      let e0 := blk.edges.headD ⟨0, 0, false⟩
      let cum := (kinds.zip (blk.edges.drop 1)).foldl
        (fun (acc : Nat × Nat × String) (ke : (String × Nat) × WEdge) =>
          let total := acc.1 + ke.1.2
          let k := acc.2.1 + 1
          let lo := ke.2.a - e0.b
          let hi := ke.2.b - e0.a
          if acc.2.2 != "" then acc
          else if Spec.sumOkWide total k lo hi then (total, k, "")
          else (total, k, if lo + 1 > total + 32 * k then "pulse-too-long" else "pulse-too-short"))
        (0, 0, "")
      if cum.2.2 != "" then cum.2.2
      else if measured.length < kinds.length then
        (if pauseSeen || silent then "pulse-count" else "incomplete")
      else if measured.length > kinds.length then "pulse-count"
      else match blk.pause with
        | none => "ok"
        | some pz => if 3000000 < pz.2 && pz.1 < 4500000 then "ok" else "pause"

/-- verdict over a sampled observation that ended at time `lastT` -/
def verdictWide (blocks : List (List Byte)) (tailLen : Nat) (edges : List WEdge) (lastT : Nat) : String :=
  if tailLen ≥ 2 || blocks.any (·.isEmpty) then "undecided" else
  let blks := splitBlocks edges
  let lastB := match edges.getLast? with | some e => e.b | none => 0
  let silent := lastT ≥ lastB + 100000
  let rec go : Nat → List (List Byte) → List WBlock → String
    | _, _, [] => "ok"
    | i, [], _ :: _ => s!"violates:block-{i}:more-blocks-than-on-tape"
    | i, b :: bs, k :: ks =>
      let d := diagnoseWide b k silent
      if d == "ok" || (d == "incomplete" && ks.isEmpty) then go (i + 1) bs ks else s!"violates:block-{i}:{d}"
  go 0 blocks blks

def handle (s : St) : List String → St × String
  | ["variant", v] => ({ s with fixed := boolD v }, "ok")
  | ["tape", h] =>
    let data := if h = "-" then [] else hexBytes h
    let bl := Spec.blocks data
    let tl := (Spec.tail data).length
    ({ s with tap := Tap.new data, now := 0, edges := [], stopTime := none, blocks := bl, tailLen := tl },
      s!"ok {bl.length} {tl}")
  | ["cmd", c] =>
    match c with
    | "play" => ({ s with tap := s.tap.play }, "ok")
    | "stop" => ({ s with tap := s.tap.stop s.fixed }, "ok")
    | "rewind" => ({ s with tap := s.tap.rewind s.fixed }, "ok")
    | _ => (s, "bad-op")
  | ["run", kind, seed, n] =>
    let seedN := hexNatD seed
    let r := drive s.fixed (hexNatD kind) seedN (hexNatD n) 0 (Rng.new (UInt64.ofNat seedN))
      s.tap s.now [] s.stopTime
    let es := r.edges.reverse
    let st := match r.err with | some e => errStr e | none => "ok"
    let stopStr := match r.stopTime with | some t => (Nat.toDigits 16 t).asString | none => "-"
    ({ s with tap := r.tap, now := r.now, edges := r.edges ++ s.edges, stopTime := r.stopTime },
      s!"{st} {(Nat.toDigits 16 r.now).asString} {bit (r.tap.state == .stop)} {stopStr} E" ++
        String.join (es.map fun e => " " ++ edgeStr e))
  | ["verdict"] => (s, verdictOf s.blocks s.tailLen s.edges.reverse s.stopTime)
  | "adjudicate" :: stop :: es =>
    let stopT := if stop = "-" then none else some (hexNatD stop)
    (s, verdictOf s.blocks s.tailLen (es.filterMap parseEdge) stopT)
  | "adjwide" :: lastT :: es =>
    (s, verdictWide s.blocks s.tailLen (es.filterMap parseWEdge) (hexNatD lastT))
  | _ => (s, "bad-op")

def proto : Driver.Proto := { σ := St, init := {}, handle := handle }

end Driver.C11
