import Driver.Util
/- Sub-protocol `C11`: not built yet. -/
namespace Driver.C11

def proto : Driver.Proto := { σ := Unit, init := (), handle := fun s _ => (s, "unimplemented") }

end Driver.C11
