import Driver.Util
/- Sub-protocol `C12`: not built yet. -/
namespace Driver.C12

def proto : Driver.Proto := { σ := Unit, init := (), handle := fun s _ => (s, "unimplemented") }

end Driver.C12
