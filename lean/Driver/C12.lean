import Driver.C11
/-
Sub-protocol `C12`: command histories (play / stop / rewind / advance) against the tape model and the
cassette-deck spec. Same requests as `C11`; every answer to `cmd` and `run` additionally carries the
deck's view after ` D `:
  tape <hex|->            -> ok <blocks> <tail>
  cmd play|stop|rewind    -> ok
  run <kind> <seed> <n>   -> <model part as in C11> D <playing 0|1> <stop time|-> E <time:level> …
                             (or `D undecided` when the image has an empty block or a truncated tail)
-/
namespace Driver.C12
open ZxVerif.Tape Driver.C11

structure St where
  base : Driver.C11.St := {}
  deck : Spec.Deck := Spec.Deck.init []
  decided : Bool := true
  deckStop : Option Nat := none

structure DeckRun where
  deck : Spec.Deck
  now : Nat
  edges : List Edge
  stopTime : Option Nat

def driveDeck (kind seed : Nat) : Nat → Nat → Rng → Spec.Deck → Nat → List Edge → Option Nat → DeckRun
  | 0, _, _, d, now, edges, st => { deck := d, now, edges, stopTime := st }
  | n + 1, i, rng, d, now, edges, st =>
    let (c, rng) := nextStep kind seed i rng
    let d' := d.advance c
    let now := now + c
    let edges := if d'.level != d.level then ⟨now, d'.level⟩ :: edges else edges
    let st := if d.playing && !d'.playing && st.isNone then some now else st
    driveDeck kind seed n (i + 1) rng d' now edges st

def handle (s : St) : List String → St × String
  | ["tape", h] =>
    let (b, out) := Driver.C11.handle s.base ["tape", h]
    let decided := b.tailLen < 2 && !(b.blocks.any (·.isEmpty))
    ({ base := b, deck := Spec.Deck.init b.blocks, decided := decided, deckStop := none }, out)
  | ["cmd", c] =>
    let (b, out) := Driver.C11.handle s.base ["cmd", c]
    let d := match c with
      | "play" => s.deck.cmd .play
      | "stop" => s.deck.cmd .stop
      | "rewind" => s.deck.cmd .rewind
      | _ => s.deck
    ({ s with base := b, deck := d }, out)
  | ["run", kind, seed, n] =>
    let now0 := s.base.now
    let (b, out) := Driver.C11.handle s.base ["run", kind, seed, n]
    if !s.decided then ({ s with base := b }, out ++ " D undecided") else
    let seedN := hexNatD seed
    let r := driveDeck (hexNatD kind) seedN (hexNatD n) 0 (Rng.new (UInt64.ofNat seedN)) s.deck now0 [] s.deckStop
    let stopStr := match r.stopTime with | some t => (Nat.toDigits 16 t).asString | none => "-"
    ({ s with base := b, deck := r.deck, deckStop := r.stopTime },
      out ++ s!" D {bit r.deck.playing} {stopStr} E" ++ String.join (r.edges.reverse.map fun e => " " ++ edgeStr e))
  | req => let (b, out) := Driver.C11.handle s.base req; ({ s with base := b }, out)

def proto : Driver.Proto := { σ := St, init := {}, handle := handle }

end Driver.C12
