import Driver.Util
/- Sub-protocol `C13`: not built yet. -/
namespace Driver.C13

def proto : Driver.Proto := { σ := Unit, init := (), handle := fun s _ => (s, "unimplemented") }

end Driver.C13
