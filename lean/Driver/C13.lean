import Driver.Snap
/-
Sub-protocol `C13` (SNA save/load round trip). Common requests: see Driver/Snap.lean.
  save <slot>            -> len= hash= hdr= sec= | spec len= hash= hdr= sec= | eff <obs of the machine afterwards>
                            (the model's file becomes the current file; `spec` is the file the SNA layout
                            prescribes for the abstract state of the slot; the spec for the effect is
                            "unchanged", i.e. `obs <slot>`)
  specfile <slot>        -> makes the file the layout prescribes the current file; len=
  load <recv> <dst>      -> ok <obs> | err <kind>  ;  then " | spec <obs>" or " | spec none"
                            (`snaLoad` of the current file into slot <recv>, result stored in <dst>;
                            spec = what the file describes, on top of the receiver's abstract state)
  rt <src> <recv>        -> <obs>: what loading the prescribed file of <src> into <recv> must give
-/
namespace Driver.C13
open ZxVerif.Snap Driver Driver.Snap

def sec (f : Bytes) : String :=
  if f.length > 49183 then bytesHex ((f.drop 49179).take 4) else "-"

def fileSummary (f : Bytes) : String :=
  s!"len={f.length} hash={hex64 (fnv f)} hdr={bytesHex (f.take 27)} sec={sec f}"

def handle (s : St) (req : List String) : St × String :=
  match common s req with
  | some r => r
  | none =>
    match req with
    | ["save", i] =>
      let m := s.slot i
      let f := snaSave s.fx m
      let sf := Spec.snaOf (Spec.abs m)
      ({ s with file := f },
       fileSummary f ++ " | spec " ++ fileSummary sf ++ " | eff " ++ fmtM (snaSaveEffect s.fx m))
    | ["specfile", i] =>
      let sf := Spec.snaOf (Spec.abs (s.slot i))
      ({ s with file := sf }, s!"len={sf.length}")
    | ["load", r, d] =>
      let recv := s.slot r
      let spec := match Spec.describeSna s.file (Spec.abs recv) with
        | some a => " | spec " ++ fmtA a
        | none => " | spec none"
      match snaLoad s.fx s.file recv with
      | .ok m => (s.setSlot d m, "ok " ++ fmtM m ++ spec)
      | .error e => (s, "err " ++ errName e ++ spec)
    | ["rt", i, r] =>
      match Spec.describeSna (Spec.snaOf (Spec.abs (s.slot i))) (Spec.abs (s.slot r)) with
      | some a => (s, fmtA a)
      | none => (s, "none")
    | _ => (s, "bad-op")

def proto : Driver.Proto := { σ := St, init := {}, handle := handle }

end Driver.C13
