import Driver.Util
/- Sub-protocol `C14`: not built yet. -/
namespace Driver.C14

def proto : Driver.Proto := { σ := Unit, init := (), handle := fun s _ => (s, "unimplemented") }

end Driver.C14
