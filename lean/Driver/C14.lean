import Driver.Snap
/-
Sub-protocol `C14` (loading well-formed SNA / SZX / SCR). Common requests: see Driver/Snap.lean.
The current file is set with `file` / `fileadd`; compressed RAM pages travel as tags (`z<desc>`),
`inflateTag` is the model's and the spec's `inflate` parameter.
  load sna|szx|scr <recv> <dst>
      -> ok <obs> | err <kind>          model: snaLoad / szxLoad / scrLoad with the selected repairs
         | spec <obs> | spec none       what the file describes on top of the receiver's abstract
                                        state (SZX: HALTED read as "PC at the HALT opcode")
         | specb <pc>                   SZX only: PC under the other reading ("PC after the HALT")
-/
namespace Driver.C14
open ZxVerif.Snap Driver Driver.Snap

def handle (s : St) (req : List String) : St × String :=
  match common s req with
  | some r => r
  | none =>
    match req with
    | ["load", kind, r, d] =>
      let recv := s.slot r
      let a := Spec.abs recv
      let (res, spec, specb) :=
        if kind = "sna" then (snaLoad s.fx s.file recv, Spec.describeSna s.file a, none)
        else if kind = "szx" then
          (szxLoad s.fx inflateTag s.file recv, Spec.describeSzx .pcAtHalt inflateTag s.file a,
           (Spec.describeSzx .pcAfterHalt inflateTag s.file a).map (·.regs.pc))
        else (scrLoad s.file recv, Spec.describeScr s.file a, none)
      let st := match spec with
        | some x => " | spec " ++ fmtA x
        | none => " | spec none"
      let sb := match specb with
        | some pc => " | specb " ++ hex16 pc
        | none => ""
      match res with
      | .ok m => (s.setSlot d m, "ok " ++ fmtM m ++ st ++ sb)
      | .error e => (s, "err " ++ errName e ++ st ++ sb)
    | _ => (s, "bad-op")

def proto : Driver.Proto := { σ := St, init := {}, handle := handle }

end Driver.C14
