import Driver.Util
import ZxVerif.Spec.Loaders
/-
Sub-protocol `C15`: loader models (explicit partiality) and the totality spec.

  <fix>    hex bit mask over `Site.all` (bit i set = site i repaired)
  <recv>   <m128 0|1> <locked 0|1> <bank hex> <ay 0|1>
  <script> <chunk hex (0 = unlimited)> <failing read index hex | -> <failing seek index hex | -> <eofZero 0|1>
  <bytes>  comma separated segments: h<hex bytes> | z<count hex>x<byte hex> | - (empty)

  sna <fix> <recv> <script> <bytes>
  szx <fix> <recv> <script> <bytes> <inflate>     inflate: `-` or off:res,off:res (res = hex length | x = error)
  scr <fix> <recv> <script> <bytes>
  rom <m128> <script> <bytes> [<script> <bytes> ...]
  vtx <fix> <script> <bytes> <produced hex | p = the LH5 decoder panics>
        -> <ok|err|panic|hang> <detail> <maxAlloc hex> <steps hex> <allocBound hex> <stepBound hex>
  tap <script> <bytes> <op;op;...>    ops: p s r c<hex> k<count hex>:<clocks hex> b y f<f>:<a>:<de>:<ix>
        -> per op, comma separated: ok[:value] | err:<kind> | panic:<site> | hang
  judge <len hex> <extra hex> <acceptable 0|1> <maxAlloc hex>   -> ok | badOutcome | badAlloc
-/
namespace Driver.C15
open ZxVerif.Loaders

def lastName (s : String) : String := (s.splitOn ".").getLast!

def siteName (p : Site) : String := lastName (toString (repr p))

def ioName : IoErr → String
  | .unexpectedEof => "eof" | .writeZero => "writeZero"
  | .seekBeforeStart => "seekBeforeStart" | .hostFailed => "hostFailed"

def errName : ErrKind → String
  | .io e => "io." ++ ioName e
  | .moreAssetsRequired => "moreAssetsRequired"
  | .invalidTap => "invalidTap"
  | .invalidScr => "invalidScr" | .scrMachineNotSupported => "scrMachineNotSupported"
  | .invalidSna => "invalidSna" | .invalidSzx => "invalidSzx"
  | .machineNotSupported => "machineNotSupported" | .zlibNotSupported => "zlibNotSupported"
  | .vtxHeader => "vtxHeader" | .vtxIo => "vtxIo" | .vtxDecompress => "vtxDecompress"

def outcomeStr : Outcome → String
  | .ok => "ok -"
  | .err k => "err " ++ errName k
  | .panic p => "panic " ++ siteName p
  | .hang => "hang -"

def outcomeShort : Outcome → String
  | .ok => "ok"
  | .err k => "err:" ++ errName k
  | .panic p => "panic:" ++ siteName p
  | .hang => "hang"

def parseFix (s : String) : Fix :=
  let m := hexNatD s
  fun p => m.testBit (Site.all.idxOf p)

def parseSeg (acc : Array Byte) (seg : String) : Array Byte :=
  if seg.startsWith "h" then
    (hexBytes (seg.drop 1).toString).foldl (fun a b => a.push b) acc
  else if seg.startsWith "z" then
    match ((seg.drop 1).toString).splitOn "x" with
    | [n, b] => acc ++ Array.replicate (hexNatD n) (bv8 b)
    | _ => acc
  else acc

def parseBytes (s : String) : Array Byte :=
  (s.splitOn ",").foldl parseSeg #[]

def optIdx (s : String) : List Nat := match hexNat? s with | some n => [n] | none => []

def parseScript (chunk fr fs ez : String) : Script :=
  let c := hexNatD chunk
  { chunk := fun _ => c, readFails := optIdx fr, seekFails := optIdx fs, eofZero := boolD ez }

def mkAsset (b : Array Byte) (sc : Script) : Asset :=
  { len := b.size, byte := fun i => b.getD i 0, sc := sc }

def parseRecv (m l b a : String) : Recv :=
  { m128 := boolD m, locked := boolD l, bank := hexNatD b, ay := boolD a }

def parseInflate (s : String) : Inflate :=
  let tbl : List (Nat × Option Nat) := (s.splitOn ",").filterMap fun e =>
    match e.splitOn ":" with
    | [o, r] => some (hexNatD o, hexNat? r)
    | _ => none
  fun off _ => (tbl.lookup off).getD none

def hx (n : Nat) : String := String.ofList (Nat.toDigits 16 n)

def resStr (r : Res) (len extra : Nat) : String :=
  s!"{outcomeStr r.outcome} {hx r.maxAlloc} {hx r.steps} {hx (Spec.allocBound len extra)} {hx (Spec.stepBound len)}"

def parseOp (s : String) : Option TapOp :=
  if s = "p" then some .play else if s = "s" then some .stop else if s = "r" then some .rewind
  else if s = "b" then some .nextBlock else if s = "y" then some .nextByte
  else if s.startsWith "c" then some (.clocks (hexNatD (s.drop 1).toString))
  else if s.startsWith "k" then
    match ((s.drop 1).toString).splitOn ":" with
    | [n, c] => some (.repeatClocks (hexNatD n) (hexNatD c))
    | _ => none
  else if s.startsWith "f" then
    match ((s.drop 1).toString).splitOn ":" with
    | [f, a, de, ix] => some (.fastLoad { f := hexNatD f, acc := hexNatD a, de := hexNatD de, ix := hexNatD ix })
    | _ => none
  else none

/-- runs one tape operation and renders its result (values included) -/
def tapOp (t : Tap) : TapOp → String × Tap
  | .play => ("ok", t.play)
  | .stop => ("ok", t.stop)
  | .rewind => match t.rewind with
    | (.ok _, t') => ("ok", t') | (.stop o, t') => (outcomeShort o, t')
  | .clocks n => match t.processClocks n with
    | (.ok _, t') => ("ok", t') | (.stop o, t') => (outcomeShort o, t')
  | .repeatClocks n c => match Tap.repeatClocks n c t with
    | (.ok _, t') => ("ok", t') | (.stop o, t') => (outcomeShort o, t')
  | .nextBlock => match t.nextBlock with
    | (.ok b, t') => ("ok:" ++ bit b, t') | (.stop o, t') => (outcomeShort o, t')
  | .nextByte => match t.nextBlockByte with
    | (.ok (some b), t') => ("ok:" ++ toHex 2 b, t')
    | (.ok none, t') => ("ok:-", t')
    | (.stop o, t') => (outcomeShort o, t')
  | .fastLoad g =>
    if t.state = .stop then
      match t.fastLoad (fun _ => 0) g with
      | (.ok (g', fl), t') =>
        (s!"ok:{hx g'.de}:{hx g'.ix}:{match fl with | some f => hx f | none => "-"}", t')
      | (.stop o, t') => (outcomeShort o, t')
    else ("ok:skip", t)

def tapRun (t : Tap) : List TapOp → List String → List String
  | [], acc => acc.reverse
  | op :: ops, acc => let (s, t') := tapOp t op; tapRun t' ops (s :: acc)

def romAssets : List String → Option (List Asset)
  | [] => some []
  | c :: fr :: fs :: ez :: b :: rest => do
      let more ← romAssets rest
      some (mkAsset (parseBytes b) (parseScript c fr fs ez) :: more)
  | _ => none

def handle (s : Unit) : List String → Unit × String
  | ["sna", fx, m, l, b, ay, c, fr, fs, ez, bytes] =>
    let a := mkAsset (parseBytes bytes) (parseScript c fr fs ez)
    (s, resStr (M.run (snaLoad (parseFix fx) (parseRecv m l b ay)) a) a.len 0)
  | ["szx", fx, m, l, b, ay, c, fr, fs, ez, bytes, inf] =>
    let a := mkAsset (parseBytes bytes) (parseScript c fr fs ez)
    (s, resStr (M.run (szxLoad (parseFix fx) (parseRecv m l b ay) (parseInflate inf)) a) a.len 0)
  | ["scr", _, _, _, _, _, c, fr, fs, ez, bytes] =>
    let a := mkAsset (parseBytes bytes) (parseScript c fr fs ez)
    (s, resStr (M.run scrLoad a) a.len 0)
  | "rom" :: m :: rest =>
    match romAssets rest with
    | some as =>
      let len := (as.map (·.len)).foldl (· + ·) 0
      (s, resStr (romLoad (Recv.init (boolD m) false) as) len 0)
    | none => (s, "bad-op")
  | ["vtx", fx, c, fr, fs, ez, bytes, produced] =>
    let a := mkAsset (parseBytes bytes) (parseScript c fr fs ez)
    let p := hexNat? produced
    (s, resStr (M.run (vtxLoad (parseFix fx) p) a) a.len (Spec.vtxExtra (p.getD 0)))
  | ["tap", c, fr, fs, ez, bytes, ops] =>
    let a := mkAsset (parseBytes bytes) (parseScript c fr fs ez)
    match (ops.splitOn ";").mapM parseOp with
    | some os => (s, ",".intercalate (tapRun (Tap.fromAsset a) os []))
    | none => (s, "bad-op")
  | ["judge", len, extra, acc, alloc] =>
    (s, match Spec.judge (hexNatD len) (hexNatD extra) (boolD acc) (hexNatD alloc) with
        | .ok => "ok" | .badOutcome => "badOutcome" | .badAlloc => "badAlloc")
  | _ => (s, "bad-op")

def proto : Driver.Proto := { σ := Unit, init := (), handle := handle }

end Driver.C15
