import Driver.Util
/- Sub-protocol `C15`: not built yet. -/
namespace Driver.C15

def proto : Driver.Proto := { σ := Unit, init := (), handle := fun s _ => (s, "unimplemented") }

end Driver.C15
