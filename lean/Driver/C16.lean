import Driver.Util
import ZxVerif.Spec.Driving
/-
Sub-protocol `C16` (all numbers hexadecimal):
  toy <L> <t0> <t1> ...       frame length and cyclic instruction-length table of the toy machine
  err <i0> ...                instruction indices whose execution reports an emulation error
  bps <i0> ... | bpall <0|1>  breakpoint set (index of the *next* instruction, as `pc_callback` sees the
                              new PC) / stop after every instruction
  state <idx> <clocks>        start of a driving: s0 := cur := (idx, clocks), totals := 0
  call fc <n> <limit> <fuel> <sw...> | call max 0 <limit> <fuel> <sw...>
        -> <reason> <steps> <idx> <clocks> <passed> <measures> <duration> <swLeft> <K> <verdict>
           K = frame boundaries passed since `state`; verdict = the spec's word on the *model's* state:
           `ok`  (call ended at a frame boundary and cur = runToFrame K s0) | `mid` (not at a boundary)
           | `diff <idx> <clocks>` (what runToFrame K s0 is instead)
  want <K>                    -> <idx> <clocks> | none      runToFrame K s0 (adjudicates the real code)
  rx <eofZero> <pos> <n> <data|-> <chunks...>
        -> <out> <buf|-> <pos'> <reads> spec <out> <buf|-> <pos'>
  seek <s|e|c> <[-]off> <pos> <len>   -> ok <pos'> | err sbs
-/
namespace Driver.C16
open ZxVerif.Driving ZxVerif.Driving.Spec

structure St where
  L : Nat := 1
  table : List Nat := [1]
  errAt : List Nat := []
  bps : List Nat := []
  bpAll : Bool := false
  s0 : Toy := ⟨0, 0⟩
  cur : Toy := ⟨0, 0⟩
  total : Nat := 0

def St.mc (s : St) : Machine Toy := toyMachine s.L s.table s.errAt

def reasonStr : Stop → String
  | .completed => "completed" | .timeout => "timeout" | .breakpoint => "breakpoint"
  | .error => "error" | .outOfFuel => "fuel"

def outStr : Outcome → String
  | .ok => "ok" | .err .unexpectedEof => "eof" | .err .seekBeforeStart => "sbs"
  | .err .hostFailed => "host" | .diverged => "diverged"

def bytesOrDash (bs : List Byte) : String := if bs.isEmpty then "-" else bytesHex bs

def atBoundary (mode : Mode) (r : Stop) : Bool :=
  match mode, r with
  | .max, .timeout => true
  | .frameCount n, .completed => decide (1 ≤ n)
  | _, _ => false

def signed? (s : String) : Option Int :=
  if s.startsWith "-" then (hexNat? (s.drop 1).toString).map (fun n => -(n : Int))
  else (hexNat? s).map (fun n => (n : Int))

def doCall (s : St) (mode : Mode) (limit fuel : Nat) (sw : List Nat) : St × String :=
  let bpAll := s.bpAll
  let bps := s.bps
  let c : Call Toy := ⟨mode, limit, fun _ m' => bpAll || bps.contains m'.idx⟩
  let r := emulateFrames s.mc c fuel s.cur sw
  let total := s.total + r.steps
  let k := crossedSumTR s.mc total s.s0 0
  let verdict :=
    if atBoundary mode r.reason then
      match runToFrame s.mc total k s.s0 with
      | some t => if t = r.m then "ok" else s!"diff {toHex 4 t.idx} {toHex 5 t.clocks}"
      | none => "diff none"
    else "mid"
  ({ s with cur := r.m, total := total },
   s!"{reasonStr r.reason} {toHex 6 r.steps} {toHex 4 r.m.idx} {toHex 5 r.m.clocks} " ++
   s!"{toHex 4 r.passed} {toHex 4 r.measures} {toHex 12 r.duration} {toHex 4 r.sw.length} " ++
   s!"{toHex 4 k} {verdict}")

def handle (s : St) : List String → St × String
  | "toy" :: l :: tbl =>
    if tbl.isEmpty then (s, "bad-op")
    else ({ s with L := hexNatD l, table := tbl.map hexNatD }, "ok")
  | "err" :: is => ({ s with errAt := is.map hexNatD }, "ok")
  | "bps" :: is => ({ s with bps := is.map hexNatD }, "ok")
  | ["bpall", b] => ({ s with bpAll := boolD b }, "ok")
  | ["state", i, c] =>
    let t : Toy := ⟨hexNatD i, hexNatD c⟩
    ({ s with s0 := t, cur := t, total := 0 }, "ok")
  | "call" :: "fc" :: n :: limit :: fuel :: sw =>
    doCall s (.frameCount (hexNatD n)) (hexNatD limit) (hexNatD fuel) (sw.map hexNatD)
  | "call" :: "max" :: _ :: limit :: fuel :: sw =>
    doCall s .max (hexNatD limit) (hexNatD fuel) (sw.map hexNatD)
  | ["want", k] =>
    let kk := hexNatD k
    match runToFrame s.mc (kk * s.L + 1) kk s.s0 with
    | some t => (s, s!"{toHex 4 t.idx} {toHex 5 t.clocks}")
    | none => (s, "none")
  | "rx" :: ez :: pos :: n :: data :: chunks =>
    let bytes := if data = "-" then [] else hexBytes data
    let a : Asset := ⟨bytes, hexNatD pos, chunks.map hexNatD, boolD ez⟩
    let r := readExact a (hexNatD n)
    let sp := readExactSpec bytes (hexNatD pos) (hexNatD n)
    (s, s!"{outStr r.1.out} {bytesOrDash r.1.data} {toHex 4 r.2.pos} " ++
        s!"{toHex 4 (a.chunks.length - r.2.chunks.length)} " ++
        s!"spec {outStr sp.out} {bytesOrDash sp.data} {toHex 4 (posAfter bytes (hexNatD pos) (hexNatD n))}")
  | ["seek", kind, off, pos, len] =>
    match signed? off with
    | none => (s, "bad-op")
    | some d =>
      let a : Asset := ⟨List.replicate (hexNatD len) 0, hexNatD pos, [], false⟩
      let sf? : Option SeekFrom :=
        if kind = "s" then (if d < 0 then none else some (.start d.toNat))
        else if kind = "e" then some (.fromEnd d)
        else if kind = "c" then some (.current d) else none
      match sf? with
      | none => (s, "bad-op")
      | some sf =>
        match (a.seek sf).1 with
        | .ok p => (s, s!"ok {toHex 4 p}")
        | .error _ => (s, "err sbs")
  | _ => (s, "bad-op")

def proto : Driver.Proto := { σ := St, init := {}, handle := handle }

end Driver.C16
