import Driver.Util
/- Sub-protocol `C16`: not built yet. -/
namespace Driver.C16

def proto : Driver.Proto := { σ := Unit, init := (), handle := fun s _ => (s, "unimplemented") }

end Driver.C16
