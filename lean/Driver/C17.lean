import Driver.Util
import ZxVerif.Spec.Input
/-
Sub-protocol `C17`: event histories against the keyboard/joystick/mouse model and the held-set spec.
  reset <kempston 0|1> <mouse 0|1>
  ev key <i> <p> | ev comp <i> <p> | ev sinc <joy> <i> <p> | ev kemp <i> <p>
  ev mbtn <i> <p> | ev wheel <up> | ev move <dx> <dy>
  read <sel> <ear>      -> <model> <spec>
  ports                 -> kemp <model|-> <spec> mb <model|-> <spec> mx .. my ..
Indices follow the declaration order of the Rust enums (strum's EnumIter order).
-/
namespace Driver.C17
open ZxVerif.Input

structure St where
  kbd : Kbd := {}
  held : Spec.Held := {}

def event? : List String → Option Event
  | ["key", i, p] => do some (.key (← ZXKey.all[(hexNatD i)]?) (← bool? p))
  | ["comp", i, p] => do some (.compound (← CompoundKey.all[(hexNatD i)]?) (← bool? p))
  | ["sinc", j, i, p] => do
      some (.sinclair (← JoyNum.all[(hexNatD j)]?) (← SinclairKey.all[(hexNatD i)]?) (← bool? p))
  | ["kemp", i, p] => do some (.kempston (← KempstonKey.all[(hexNatD i)]?) (← bool? p))
  | ["mbtn", i, p] => do some (.mouseButton (← MouseButton.all[(hexNatD i)]?) (← bool? p))
  | ["wheel", u] => do some (.mouseWheel (← bool? u))
  | ["move", dx, dy] => some (.mouseMove (bv8 dx) (bv8 dy))
  | _ => none

def opt8 : Option (BitVec 8) → String
  | some b => hex8 b
  | none => "-"

def handle (s : St) : List String → St × String
  | ["reset", k, m] => ({ kbd := Kbd.init (boolD k) (boolD m), held := {} }, "ok")
  | "ev" :: rest =>
    match event? rest with
    | some e => ({ kbd := step codeSinclairMap s.kbd e, held := s.held.step e }, "ok")
    | none => (s, "bad-op")
  | ["read", sel, ear] =>
    (s, s!"{hex8 (readUla s.kbd (bv8 sel) (boolD ear))} {hex8 (Spec.readUla s.held (bv8 sel) (boolD ear))}")
  | ["ports"] =>
    let m := s.kbd.mouse
    (s, s!"kemp {opt8 s.kbd.kempston} {hex8 (Spec.kempstonPort s.held)} " ++
        s!"mb {opt8 (m.map (·.buttons))} {hex8 (Spec.mouseButtonsPort s.held)} " ++
        s!"mx {opt8 (m.map (·.x))} {hex8 (Spec.mouseX s.held)} " ++
        s!"my {opt8 (m.map (·.y))} {hex8 (Spec.mouseY s.held)}")
  | _ => (s, "bad-op")

def proto : Driver.Proto := { σ := St, init := {}, handle := handle }

end Driver.C17
