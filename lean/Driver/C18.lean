import Driver.Util
import ZxVerif.Spec.Ay
import ZxVerif.Model.AyFilter
/-
Sub-protocol `C18`: the integer core of AymPrecise, the chip-definition spec, the ZXAyChip file.
All numbers hexadecimal unless said otherwise.
  new <ym 0|1> <mode idx>      -> ok <32 DAC values, decimal, comma separated> <pan2 A> <pan2 B> <pan2 C>
  w <addr> <val>               -> ok                       (AymBackend::write_register)
  t                            -> <outA> <outB> <outC> <toneA><toneB><toneC> <tcA> <tcB> <tcC> <lfsr> <nc> <level> <ec> <seg>
  tn <count>                   -> same line, after <count> ticks (outs of the last tick)
  spec env <shape> <len>       -> levels of the first <len> steps, two steps at the turns (comma separated)
  spec envok <shape> <levels>  -> 1 | 0      the adjudicating relation (one or two steps at the turns)
  spec tone <tp>               -> ticks between toggles
  spec noise <np>              -> ticks between LFSR clocks
  spec envp <ep>               -> ticks between envelope steps
  spec lfsr <x>                -> next 17-bit LFSR value
  spec idx <r7> <volreg> <ch> <tone> <noise> <level>  -> DAC index
  spec place <mode> <ch>       -> <left gain² in halves> <right gain² in halves>
  spec fir                     -> the FIR table of the ℚ-model: j:c_j·10^22 (decimal), comma separated, incl. 96:centre
  chip reset | chip sel <v> | chip w <v>   -> ok
  chip r <value the real port returned>    -> <model> <spec last written> <accepted 0|1>
-/
namespace Driver.C18
open ZxVerif.Ay

structure St where
  ay : Ay := {}
  chip : Chip := {}
  file : Spec.RegFile := {}

def natHex (n : Nat) : String :=
  if n = 0 then "0" else
  let rec go (fuel n : Nat) (acc : List Char) : List Char :=
    match fuel with
    | 0 => acc
    | fuel + 1 => if n = 0 then acc else go fuel (n / 16) (hexChar (n % 16) :: acc)
  String.ofList (go 64 n [])

/-- value / 10^14 as a decimal literal with 14 fractional digits -/
def dacString (v : Nat) : String :=
  let ip := v / dacScale
  let fp := toString (v % dacScale)
  s!"{ip}." ++ String.ofList (List.replicate (14 - fp.length) '0') ++ fp

def modeOf (i : Nat) : Mode := Mode.all.getD i .mono

def stateLine (s : Ay) (o : Nat × Nat × Nat) : String :=
  s!"{natHex o.1} {natHex o.2.1} {natHex o.2.2} {bit s.ch0.tone}{bit s.ch1.tone}{bit s.ch2.tone} " ++
  s!"{natHex s.ch0.toneCounter} {natHex s.ch1.toneCounter} {natHex s.ch2.toneCounter} " ++
  s!"{natHex s.noise.lfsr.toNat} {natHex s.noise.counter} {natHex s.env.level} {natHex s.env.counter} {bit s.env.segment}"

def tickN : Nat → Ay → (Nat × Nat × Nat) → Ay × (Nat × Nat × Nat)
  | 0, s, o => (s, o)
  | n + 1, s, _ => let r := s.tick; tickN n r.1 r.2

def natList (s : String) : List Nat :=
  if s = "-" then [] else (s.splitOn ",").map hexNatD

def handle (s : St) : List String → St × String
  | ["new", ym, mode] =>
    let m := modeOf (hexNatD mode)
    let p := pan2 m
    ({ s with ay := Ay.init },
     s!"ok {",".intercalate ((dacTable (boolD ym)).map dacString)} {p.1} {p.2.1} {p.2.2}")
  | ["w", a, v] => ({ s with ay := s.ay.writeRegister (bv8 a) (bv8 v) }, "ok")
  | ["t"] =>
    let r := s.ay.tick
    ({ s with ay := r.1 }, stateLine r.1 r.2)
  | ["tn", n] =>
    let r := tickN (hexNatD n) s.ay (0, 0, 0)
    ({ s with ay := r.1 }, stateLine r.1 r.2)
  | ["spec", "env", sh, len] =>
    (s, ",".intercalate (((List.range (hexNatD len)).map (Spec.envLevel 2 (hexNatD sh))).map natHex))
  | ["spec", "envok", sh, levels] => (s, bit (Spec.envAccepts (hexNatD sh) (natList levels)))
  | ["spec", "tone", tp] => (s, natHex (Spec.eff (hexNatD tp % 4096)))
  | ["spec", "noise", np] => (s, natHex (2 * Spec.eff (hexNatD np % 32)))
  | ["spec", "envp", ep] => (s, natHex (Spec.eff (hexNatD ep % 65536)))
  | ["spec", "lfsr", x] => (s, natHex (Spec.lfsr17 (BitVec.ofNat 17 (hexNatD x))).toNat)
  | ["spec", "idx", r7, vol, ch, tone, noise, lvl] =>
    (s, natHex (Spec.channelIndex (bv8 r7) (bv8 vol) (hexNatD ch) (boolD tone) (boolD noise) (hexNatD lvl)))
  | ["spec", "place", mode, ch] =>
    let g := Spec.gains2 (Spec.placement (modeOf (hexNatD mode)) (hexNatD ch))
    (s, s!"{g.1} {g.2}")
  | ["spec", "fir"] =>
    (s, ",".intercalate ((Filter.firPairs.map fun p => s!"{p.1}:{p.2}") ++ [s!"96:{Filter.firCenter}"]))
  | ["chip", "reset"] => ({ s with chip := {}, file := {} }, "ok")
  | ["chip", "sel", v] =>
    ({ s with chip := s.chip.selectReg (bv8 v), file := s.file.step (.select (bv8 v)) }, "ok")
  | ["chip", "w", v] =>
    ({ s with chip := s.chip.write (bv8 v), file := s.file.step (.write (bv8 v)) }, "ok")
  | ["chip", "r", got] =>
    (s, s!"{hex8 s.chip.read} {hex8 (s.file.last s.file.selected)} {bit (Spec.readAccepts s.file (bv8 got))}")
  | _ => (s, "bad-op")

def proto : Driver.Proto := { σ := St, init := {}, handle := handle }

end Driver.C18
