import Driver.Util
/- Sub-protocol `C18`: not built yet. -/
namespace Driver.C18

def proto : Driver.Proto := { σ := Unit, init := (), handle := fun s _ => (s, "unimplemented") }

end Driver.C18
