import Driver.Util
/- Sub-protocol `C19`: not built yet. -/
namespace Driver.C19

def proto : Driver.Proto := { σ := Unit, init := (), handle := fun s _ => (s, "unimplemented") }

end Driver.C19
