import Driver.Util
import ZxVerif.Spec.Mixer
/-
Sub-protocol `C19`: the mixer / frame clock model and the C19 spec. Numbers hexadecimal.
  new <spf> <L> <useBeeper 0|1>      -> ok
  w <clk> <pos>                      -> <frames> <fc> <len> <lastPos> <hyp 0|1>
        wait_internal(clk); <pos> is the sample index the harness computed with the f64 formula of the
        code for the new frame clock; hyp = 1 iff it has the properties the theorems assume, checked
        against the rational index q = ⌊spf·t/L⌋: pos ≤ spf, pos = spf from t ≥ L on, q-1 ≤ pos ≤ q
  o <data>                           -> ok            (level change of the ULA write)
  p <n>                              -> <samples | -> <len>     n calls of next_audio_sample
  d                                  -> <samples | -> 0         drain everything
  sf <L> <spf> <init code> <writes t:code,… | -> <batch | ->   -> ok | bad <k>    (Spec.frameOk)
  sq <spf> <len>                     -> 1 | 0                                    (Spec.queueOk)
  sv <vol>                           -> bound in units of 1/2000                 (Spec.valueBound)
samples: run-length `code:count` joined by `,`; code = 2·ear + mic.
-/
namespace Driver.C19
open ZxVerif.Mixer

structure St where
  m : Machine := { mixer := { spf := 0 }, L := 1 }

def natHex (n : Nat) : String :=
  if n = 0 then "0" else
  let rec go (fuel n : Nat) (acc : List Char) : List Char :=
    match fuel with
    | 0 => acc
    | fuel + 1 => if n = 0 then acc else go fuel (n / 16) (hexChar (n % 16) :: acc)
  String.ofList (go 64 n [])

def rle (xs : List Level) : String :=
  let rec go : List Level → Option (Nat × Nat) → List String → List String
    | [], none, acc => acc.reverse
    | [], some (c, n), acc => (s!"{c}:{natHex n}" :: acc).reverse
    | x :: xs, none, acc => go xs (some (x.code, 1)) acc
    | x :: xs, some (c, n), acc =>
        if x.code = c then go xs (some (c, n + 1)) acc else go xs (some (x.code, 1)) (s!"{c}:{natHex n}" :: acc)
  let toks := go xs none []
  if toks.isEmpty then "-" else ",".intercalate toks

def levelOf (code : Nat) : Level := { ear := code / 2 % 2 = 1, mic := code % 2 = 1 }

def unrle (s : String) : List Level :=
  if s = "-" then [] else
  (s.splitOn ",").flatMap fun t =>
    match t.splitOn ":" with
    | [c, n] => List.replicate (hexNatD n) (levelOf (hexNatD c))
    | _ => []

def writesOf (s : String) : List (Nat × Level) :=
  if s = "-" then [] else
  (s.splitOn ",").filterMap fun t =>
    match t.splitOn ":" with
    | [a, c] => some (hexNatD a, levelOf (hexNatD c))
    | _ => none

def handle (s : St) : List String → St × String
  | ["new", spf, l, ub] =>
    ({ m := { mixer := { spf := hexNatD spf, useBeeper := boolD ub }, L := hexNatD l } }, "ok")
  | ["w", clk, pos] =>
    let clk := hexNatD clk
    let pos := hexNatD pos
    let t := s.m.fc + clk
    let spf := s.m.mixer.spf
    let q := posQ spf s.m.L t
    let hyp := decide (pos ≤ spf) && (decide (t < s.m.L) || decide (pos = spf)) &&
      decide (pos ≤ q) && decide (q ≤ pos + 1)
    let m := s.m.wait clk pos
    ({ m := m }, s!"{natHex m.frames} {natHex m.fc} {natHex m.mixer.buf.length} {natHex m.mixer.lastPos} {bit hyp}")
  | ["o", d] => ({ m := s.m.out (bv8 d) }, "ok")
  | ["p", n] =>
    let r := s.m.mixer.popN (hexNatD n)
    ({ m := { s.m with mixer := r.1 } }, s!"{rle r.2} {natHex r.1.buf.length}")
  | ["d"] =>
    let r := s.m.mixer.popN s.m.mixer.buf.length
    ({ m := { s.m with mixer := r.1 } }, s!"{rle r.2} {natHex r.1.buf.length}")
  | ["sf", l, spf, init, ws, batch] =>
    match Spec.frameOk (hexNatD l) (hexNatD spf) (levelOf (hexNatD init)) (writesOf ws) (unrle batch) with
    | none => (s, "ok")
    | some k => (s, s!"bad {natHex k}")
  | ["sq", spf, len] => (s, bit (Spec.queueOk (hexNatD spf) (hexNatD len)))
  | ["sv", vol] => (s, natHex (Spec.valueBound (hexNatD vol)))
  | _ => (s, "bad-op")

def proto : Driver.Proto := { σ := St, init := {}, handle := handle }

end Driver.C19
