import Driver.Util
import ZxVerif.Spec.Vtx
/-
Sub-protocol `C20`: the VTX player over the recording backend, and the loader's transposition.
  new <stereo 0|1> <vtx stereo idx> <rate> <player freq> <frame data hex | ->
        -> ok <spf> <AyMode idx> <frames>     | panic           (player frequency 0)
  play <buffer length>
        -> <returned> <ordinal of first sample> <model calls> <spec calls | -> <spec returned | ->
           calls of this `play` only: `w<addr><val>` per write, `s<count>` per run of next_sample,
           comma separated, `-` if none. The spec columns are `-` when spf = 0 (the property
           assumes a positive samples-per-frame).
  transpose <register-major hex | ->
        -> <model frame-major hex | -> <spec frame-major hex | - | na>   (na: length not 14·n)
All numbers hexadecimal.
-/
namespace Driver.C20
open ZxVerif.Vtx

structure St where
  player : Option (Player RecState) := none
  /-- loop iterations offered so far (= output position per channel while the log lasts) -/
  offered : Nat := 0

def natHex (n : Nat) : String :=
  if n = 0 then "0" else
  let rec go (fuel n : Nat) (acc : List Char) : List Char :=
    match fuel with
    | 0 => acc
    | fuel + 1 => if n = 0 then acc else go fuel (n / 16) (hexChar (n % 16) :: acc)
  String.ofList (go 64 n [])

/-- canonical text of a call list (run-length for samples) -/
def encodeCalls (cs : List Call) : String :=
  let rec go : List Call → Nat → List String → List String
    | [], pending, acc => (if pending = 0 then acc else s!"s{natHex pending}" :: acc).reverse
    | .sample :: cs, pending, acc => go cs (pending + 1) acc
    | .write a v :: cs, pending, acc =>
        let acc := if pending = 0 then acc else s!"s{natHex pending}" :: acc
        go cs 0 (s!"w{hex8 a}{hex8 v}" :: acc)
  let toks := go cs 0 []
  if toks.isEmpty then "-" else ",".intercalate toks

def dataOf (s : String) : List (BitVec 8) := if s = "-" then [] else hexBytes s

def hexOrDash (bs : List (BitVec 8)) : String := if bs.isEmpty then "-" else bytesHex bs

def handle (s : St) : List String → St × String
  | ["new", st, vs, rate, pf, d] =>
    let stereo := boolD st
    match Player.new (dataOf d) (hexNatD pf) (hexNatD rate) stereo ({} : RecState) with
    | none => ({ player := none }, "panic")
    | some p =>
      ({ player := some p, offered := 0 },
       s!"ok {natHex p.spf} {natHex (modeIndex stereo (hexNatD vs))} {natHex (framesCount p.frameData)}")
  | ["play", n] =>
    match s.player with
    | none => (s, "bad-op")
    | some p =>
      let n := hexNatD n
      let r := play recorder p n
      let p' := r.1
      let added := (p'.ay.rev.take (p'.ay.rev.length - p.ay.rev.length)).reverse
      let u := units p.stereo n
      let specCols :=
        if p.spf = 0 then "- -"
        else
          let calls := Spec.schedule p.frameData p.spf s.offered u
          let ret := returned p.stereo (Spec.delivered p.frameData p.spf s.offered u)
          s!"{encodeCalls calls} {natHex ret}"
      ({ player := some p', offered := s.offered + u },
       s!"{natHex (returned p.stereo r.2.length)} {natHex p.ay.samples} {encodeCalls added} {specCols}")
  | ["transpose", d] =>
    let t := dataOf d
    let spec := if t.length % 14 = 0 then hexOrDash (Spec.transposed (t.length / 14) t) else "na"
    (s, s!"{hexOrDash (transpose t)} {spec}")
  | _ => (s, "bad-op")

def proto : Driver.Proto := { σ := St, init := {}, handle := handle }

end Driver.C20
