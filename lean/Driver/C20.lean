import Driver.Util
/- Sub-protocol `C20`: not built yet. -/
namespace Driver.C20

def proto : Driver.Proto := { σ := Unit, init := (), handle := fun s _ => (s, "unimplemented") }

end Driver.C20
