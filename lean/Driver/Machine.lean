import Driver.Util
import ZxVerif.Spec.Machine
/-
Sub-protocol shared by C04, C05, C06, C07 (machine model: clock, contention, memory map, ports).
  new <48|128>                     fresh controller + fresh abstract memory
  rom <page> <seed>                ROM page := romByte seed offset (same formula in the harness)
  out <v>                          a paging write that reached the latch decoder
  wr <a> <v>  /  rd <a>            memory write / read        rd -> <model> <spec>
  pg                               -> <7ffd> <enabled> <screen> <specLatch> <specLocked> <specScreen>
  clk <t>                          frame clock := t, frame counter := 0
  wait <n> / mreq <a> <clk> / ioc <port>   -> <frameClocks> <frames> <int>
  trace <t> <op>*                  op = m<addr>:<clk> | p<clk> | i<port>   -> <modelElapsed> <specElapsed>
  fbus <t>                         -> floating-bus address (hex) or -
  rtab <kemp> <mouse> <extmask> <extval>   -> per port: model device (1 hex) + acceptable set (2 hex)
  wtab <kemp> <mouse> <extmask> <extval>   -> same for writes
All numbers hexadecimal except <48|128>.
-/
namespace Driver.Machine
open ZxVerif.Machine

structure St where
  c : Ctl := Ctl.new .k48
  s : Spec.Mem128 := { banks := fun _ _ => 0, roms := fun _ _ => 0 }

def romByte (seed o : Nat) : BitVec 8 := BitVec.ofNat 8 (o * 7 + (o >>> 8) * 13 + seed * 29 + 1)

def kindOf (s : String) : Kind := if s = "128" then .k128 else .k48

def clockLine (c : Ctl) : String :=
  s!"{toHex 5 c.frameClocks} {toHex 4 c.passedFrames} {bit c.intActive}"

def parseOp (tok : String) : Option Spec.BusOp :=
  match tok.toList with
  | 'm' :: rest =>
    match (String.ofList rest).splitOn ":" with
    | [a, k] => some (.mem (bv16 a) (hexNatD k))
    | _ => none
  | 'p' :: rest => some (.plain (hexNatD (String.ofList rest)))
  | 'i' :: rest => some (.io (bv16 (String.ofList rest)))
  | _ => none

def runOp (c : Ctl) : Spec.BusOp → Ctl
  | .mem a k => c.waitMreq a k
  | .plain k => c.waitInternal k
  | .io p => c.ioCycle p

def total (c : Ctl) : Nat := c.passedFrames * c.kind.specs.clocksFrame + c.frameClocks

def readIdx : ReadDev → Nat
  | .extender => 0 | .ula => 1 | .mouseButtons => 2 | .mouseX => 3 | .mouseY => 4
  | .ay => 5 | .kempston => 6 | .floating => 7

def readDevs : List ReadDev :=
  [.extender, .ula, .mouseButtons, .mouseX, .mouseY, .ay, .kempston, .floating]

def writeIdx : WriteDev → Nat
  | .extender => 0 | .aySelect => 1 | .ayData => 2 | .ula => 3 | .paging => 4 | .none => 5

def writeDevs : List WriteDev := [.extender, .aySelect, .ayData, .ula, .paging, .none]

def readCell (cfg : IoCfg) (p : BitVec 16) : String :=
  let d := readDecode cfg p
  let mask := if Spec.readExactlyOne cfg p || Spec.readNobody cfg p then
      readDevs.foldl (fun acc x => if Spec.readRouteOk cfg p x then acc ||| (1 <<< readIdx x) else acc) 0
    else 0xFF
  toHex 1 (readIdx d) ++ toHex 2 mask

def writeCell (cfg : IoCfg) (p : BitVec 16) : String :=
  let d := writeDecode cfg p
  let mask := if Spec.writeExactlyOne cfg p || Spec.writeNobody cfg p then
      writeDevs.foldl (fun acc x => if Spec.writeRouteOk cfg p x then acc ||| (1 <<< writeIdx x) else acc) 0
    else 0xFF
  toHex 1 (writeIdx d) ++ toHex 2 mask

def table (f : BitVec 16 → String) : String :=
  String.join ((List.range 65536).map fun n => f (BitVec.ofNat 16 n))

def handle (st : St) : List String → St × String
  | ["new", k] => ({ c := Ctl.new (kindOf k), s := { banks := fun _ _ => 0, roms := fun _ _ => 0 } }, "ok")
  | ["rom", page, seed] =>
    let pg := hexNatD page
    let sd := hexNatD seed
    ({ c := { st.c with mem := st.c.mem.loadRomPage pg (romByte sd) },
       s := { st.s with roms := fun p o => if p = pg then romByte sd o else st.s.roms p o } }, "ok")
  | ["out", v] =>
    let s' := match st.c.kind with
      | .k128 => st.s.out7ffd (bv8 v)
      | .k48 => st.s
    ({ c := st.c.write7ffd (bv8 v), s := s' }, "ok")
  | ["restore", v] =>
    -- snapshot loaders: `restore_7ffd` = unlock, then an ordinary latch write (128K only)
    match st.c.kind with
    | .k128 =>
      ({ c := ({ st.c with pagingEnabled := true }).write7ffd (bv8 v),
         s := ({ st.s with locked := false }).out7ffd (bv8 v) }, "ok")
    | .k48 => (st, "ok")
  | ["poke", a, v] =>
    -- host poke (`force_write`): RAM like a CPU write; below 0x4000 the byte goes into the ROM page that is mapped there
    if (bv16 a).toNat < 16384 then
      let off := (bv16 a).toNat
      let pg := match st.c.mem.map 0 with | .rom n => n | .ram _ => 0
      let spg := match st.c.kind with
        | .k128 => if st.s.latch &&& 0x10 = 0 then 0 else 1
        | .k48 => 0
      ({ c := { st.c with mem := st.c.mem.loadRomPage pg (fun o => if o = off then bv8 v else st.c.mem.rom pg o) },
         s := { st.s with roms := fun p o => if p = spg && o = off then bv8 v else st.s.roms p o } }, "ok")
    else
      let s' := match st.c.kind with
        | .k128 => st.s.write (bv16 a) (bv8 v)
        | .k48 => st.s.write48 (bv16 a) (bv8 v)
      ({ c := st.c.writeInternal (bv16 a) (bv8 v), s := s' }, "ok")
  | ["wr", a, v] =>
    let s' := match st.c.kind with
      | .k128 => st.s.write (bv16 a) (bv8 v)
      | .k48 => st.s.write48 (bv16 a) (bv8 v)
    ({ c := st.c.writeInternal (bv16 a) (bv8 v), s := s' }, "ok")
  | ["rd", a] =>
    let sp := match st.c.kind with
      | .k128 => st.s.read (bv16 a)
      | .k48 => st.s.read48 (bv16 a)
    (st, s!"{hex8 (st.c.readInternal (bv16 a))} {hex8 sp}")
  | ["pg"] =>
    let c := st.c
    let (sl, sk, ss) := match c.kind with
      | .k128 => (st.s.latch, st.s.locked, st.s.screenBank)
      | .k48 => (0, true, 0)
    (st, s!"{hex8 c.port7ffd} {bit c.pagingEnabled} {c.screenBank} {hex8 sl} {bit sk} {ss}")
  | ["clk", t] => ({ st with c := { st.c with frameClocks := hexNatD t, passedFrames := 0 } }, "ok")
  | ["wait", n] =>
    let c := st.c.waitInternal (hexNatD n)
    ({ st with c := c }, clockLine c)
  | ["mreq", a, k] =>
    let c := st.c.waitMreq (bv16 a) (hexNatD k)
    ({ st with c := c }, clockLine c)
  | ["ioc", p] =>
    let c := st.c.ioCycle (bv16 p)
    ({ st with c := c }, clockLine c)
  | "trace" :: t :: toks =>
    match toks.mapM parseOp with
    | none => (st, "bad-op")
    | some ops =>
      let t0 := hexNatD t
      let c0 := { st.c with frameClocks := t0, passedFrames := 0 }
      let c1 := ops.foldl runOp c0
      let sp := Spec.traceTime c0.kind c0.port7ffd t0 ops
      (st, s!"{toHex 6 (total c1 - t0)} {toHex 6 (sp - t0)}")
  | ["fbus", t] =>
    (st, match floatingBusAddr st.c.kind (hexNatD t) with
      | none => "-"
      | some a => toHex 4 a)
  | ["rtab", ke, mo, em, ev] =>
    let m := bv16 em
    let v := bv16 ev
    (st, table fun p => readCell ⟨st.c.kind, boolD ke, boolD mo, (p &&& m) == v⟩ p)
  | ["wtab", ke, mo, em, ev] =>
    let m := bv16 em
    let v := bv16 ev
    (st, table fun p => writeCell ⟨st.c.kind, boolD ke, boolD mo, (p &&& m) == v⟩ p)
  | _ => (st, "bad-op")

def proto : Driver.Proto := { σ := St, init := {}, handle := handle }

end Driver.Machine
