import Driver.C01
import Driver.C02
import Driver.C03
import Driver.C04
import Driver.C05
import Driver.C06
import Driver.C07
import Driver.C08
import Driver.C09
import Driver.C10
import Driver.C11
import Driver.C12
import Driver.C13
import Driver.C14
import Driver.C15
import Driver.C16
import Driver.C17
import Driver.C18
import Driver.C19
import Driver.C20
import Driver.Sys
import Driver.Util

def protos : List (String × Driver.Proto) :=
  [("C01", Driver.C01.proto),
   ("C02", Driver.C02.proto),
   ("C03", Driver.C03.proto),
   ("C04", Driver.C04.proto),
   ("C05", Driver.C05.proto),
   ("C06", Driver.C06.proto),
   ("C07", Driver.C07.proto),
   ("C08", Driver.C08.proto),
   ("C09", Driver.C09.proto),
   ("C10", Driver.C10.proto),
   ("C11", Driver.C11.proto),
   ("C12", Driver.C12.proto),
   ("C13", Driver.C13.proto),
   ("C14", Driver.C14.proto),
   ("C15", Driver.C15.proto),
   ("C16", Driver.C16.proto),
   ("C17", Driver.C17.proto),
   ("C18", Driver.C18.proto),
   ("C19", Driver.C19.proto),
   ("C20", Driver.C20.proto),
   ("SYS", Driver.Sys.proto)]

def main (args : List String) : IO UInt32 := do
  let inp ← IO.getStdin
  let out ← IO.getStdout
  match args with
  | [name] =>
    match protos.lookup name with
    | some p => p.loop inp out p.init; return 0
    | none => IO.eprintln s!"unknown protocol {name}"; return 2
  | _ => IO.eprintln "usage: zxmodel <protocol>"; return 2
