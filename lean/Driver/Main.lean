import Driver.Util
import Driver.C17

def protos : List (String × Driver.Proto) :=
  [("C17", Driver.C17.proto)]

def main (args : List String) : IO UInt32 := do
  let inp ← IO.getStdin
  let out ← IO.getStdout
  match args with
  | [name] =>
    match protos.lookup name with
    | some p => p.loop inp out p.init; return 0
    | none => IO.eprintln s!"unknown protocol {name}"; return 2
  | _ => IO.eprintln "usage: zxmodel <protocol>"; return 2
