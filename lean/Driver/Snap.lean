import Driver.Util
import ZxVerif.Spec.Snapshot
/-
Shared by the sub-protocols `C13` and `C14`: machine descriptions, files as segment lists,
observations.

RAM never crosses the pipe byte by byte: a bank is "pattern <seed>" (16384 bytes of the LCG below,
the harness fills the real RAM with the same generator) plus a few explicit overrides; a file is a
list of segments (`h<hex>` literal bytes, `p<seed>[:<off>.<val>…]` a pattern bank with overrides,
`z<desc>` a *compressed* bank, which stays a tag — compression is a parameter of the model, see
`inflateTag`); observations carry a 64-bit FNV-1a hash per bank.

  fx <hex>                       select the repair flags (bit i = i-th field of `Fixes`)
  mach <slot> k=.. af=.. …       define machine <slot> (see `machOf`)
  obs <slot>                     -> observation of the slot (model machine through `Spec.abs`)
-/
namespace Driver.Snap
open ZxVerif.Snap Driver

/-! pattern banks -/

def lcgNext (x : UInt64) : UInt64 := x * 6364136223846793005 + 1442695040888963407

/-- 16384 bytes: top byte of successive LCG states started from a scrambled seed; seed 0 is the
all-zero bank (what a fresh emulator holds) -/
def patBank (seed : Nat) : Bytes :=
  if seed = 0 then List.replicate 16384 0 else
  let rec go : Nat → UInt64 → List Byte → List Byte
    | 0, _, acc => acc.reverse
    | n + 1, x, acc =>
      let x' := lcgNext x
      go n x' ((x' >>> 56).toUInt8.toBitVec :: acc)
  go 16384 (UInt64.ofNat seed * 0x9E3779B97F4A7C15 + 0x1234567) []

def fnv (bs : Bytes) : UInt64 :=
  bs.foldl (fun h b => (h ^^^ UInt64.ofNat b.toNat) * 0x100000001b3) 0xcbf29ce484222325

def hex64 (x : UInt64) : String := toHex 16 x.toNat

/-- `<seed>` or `<seed>:<off>.<val>:…` -/
def bankOf (s : String) : Bytes :=
  match s.splitOn ":" with
  | [] => []
  | seed :: ovs => ovs.foldl (fun b t =>
      match t.splitOn "." with
      | [o, v] => b.set (hexNatD o) (bv8 v)
      | _ => b) (patBank (hexNatD seed))

/-! compression as a parameter: a compressed page travels as the tag bytes `0xC0DE, seed…`; the
driver's `inflate` expands tags it made itself and rejects everything else. The harness sends the
really deflated bytes to the real code and the tag to the model; that the two describe the same
16 KiB is exactly the assumed law `inflate (deflate x) = some x`. -/

def tagMagic : Bytes := [0xC0, 0xDE, 0x5A, 0x4C]

/-- a tagged compressed stream: magic, then the text of a `bankOf` description as bytes -/
def deflateTag (desc : String) : Bytes := tagMagic ++ desc.toUTF8.toList.map (fun b => BitVec.ofNat 8 b.toNat)

def inflateTag (bs : Bytes) : Option Bytes :=
  if bs.take 4 = tagMagic then
    let s := String.ofList ((bs.drop 4).map fun b => Char.ofNat b.toNat)
    -- "bad" marks a stream the real inflater rejects; "short:<n>:<desc>" one that inflates to n bytes
    if s = "bad" then none
    else match s.splitOn "/" with
      | ["short", n, d] => some ((bankOf d).take (hexNatD n))
      | _ => some (bankOf s)
  else none

/-- one file segment -/
def segOf (s : String) : Bytes :=
  if s.isEmpty then [] else
  let body := (s.drop 1).toString
  match s.front with
  | 'h' => hexBytes body
  | 'p' => bankOf body
  | 'z' => deflateTag body
  | _ => []

def fileOf (segs : List String) : Bytes := (segs.map segOf).flatten

/-! machines -/

def lookup (kv : List (String × String)) (k : String) : String :=
  ((kv.find? (·.1 == k)).map (·.2)).getD ""

def kvOf (toks : List String) : List (String × String) :=
  toks.filterMap fun t => match t.splitOn "=" with
    | [k, v] => some (k, v)
    | _ => none

def pfxOf (n : Nat) : Pfx :=
  match n with
  | 1 => .cb | 2 => .dd | 3 => .ed | 4 => .fd | _ => .none

def pfxNum : Pfx → Nat
  | .none => 0 | .cb => 1 | .dd => 2 | .ed => 3 | .fd => 4

def fixesOf (n : Nat) : Fixes :=
  let b (i : Nat) : Bool := (n >>> i) % 2 == 1
  ⟨b 0, b 1, b 2, b 3, b 4, b 5, b 6, b 7⟩

def initMachine (k : Kind) : Machine :=
  match k with
  | .k48 => { kind := .k48, pagingEnabled := false, screenBank := 0, map3 := 2,
              ram := fun _ => patBank 0, rom := fun n => patBank (0x501 + n), scr := fun _ => patBank 0 }
  | .k128 => { kind := .k128, pagingEnabled := true, screenBank := 5, map3 := 0,
               ram := fun _ => patBank 0, rom := fun n => patBank (0x501 + n), scr := fun _ => patBank 0 }

/-- `k=48|128 af= bc= de= hl= afx= bcx= dex= hlx= ix= iy= sp= pc= i= r= iff=<iff1 iff2 as 2 bits>
im= halt= skip= pfx= mp= q= bd= bdev= lat= banks=<b0,b1,..> (model bank order) ay=<sel>,<16 regs hex>,<14 chip hex>,<enabled>
kemp= mouse=`; every field optional. The latch is applied through `write7ffd` from the reset
state, so lock, bank and screen selection are the reachable ones. -/
def machOf (toks : List String) : Machine :=
  let kv := kvOf toks
  let g (k : String) : String := lookup kv k
  let has (k : String) : Bool := (kv.find? (·.1 == k)).isSome
  let kind := if g "k" = "128" then Kind.k128 else Kind.k48
  let m := initMachine kind
  let w (k : String) : BitVec 16 := bv16 (g k)
  let iff := hexNatD (g "iff")
  let cpu : Cpu :=
    { a := hi (w "af"), f := lo (w "af"), b := hi (w "bc"), c := lo (w "bc"),
      d := hi (w "de"), e := lo (w "de"), h := hi (w "hl"), l := lo (w "hl"),
      a' := hi (w "afx"), f' := lo (w "afx"), b' := hi (w "bcx"), c' := lo (w "bcx"),
      d' := hi (w "dex"), e' := lo (w "dex"), h' := hi (w "hlx"), l' := lo (w "hlx"),
      ix := w "ix", iy := w "iy", sp := w "sp", pc := w "pc", i := bv8 (g "i"), r := bv8 (g "r"),
      iff1 := iff / 2 % 2 == 1, iff2 := iff % 2 == 1, im := hexNatD (g "im"),
      halted := boolD (g "halt"), skipInt := boolD (g "skip"), pfx := pfxOf (hexNatD (g "pfx")),
      memptr := w "mp", q := bv8 (g "q") }
  let m := { m with cpu := cpu, border := bv8 (g "bd"),
                    borderDev := if has "bdev" then bv8 (g "bdev") else bv8 (g "bd") }
  let m := m.write7ffd (bv8 (g "lat"))
  let banks := if has "banks" then (g "banks").splitOn "," else []
  let ramList := banks.map bankOf
  let ram : Nat → Bytes := fun k => ramList.getD k (patBank 0)
  let m := { m with ram := ram }
  let m := m.refresh
  let m := match (g "ay").splitOn "," with
    | [sel, regs, chip, en] =>
      { m with aySel := hexNatD sel, ayRegs := hexBytes regs, ayChip := hexBytes chip, ayEnabled := boolD en }
    | [sel, regs, chip, en, env] =>
      { m with aySel := hexNatD sel, ayRegs := hexBytes regs, ayChip := hexBytes chip, ayEnabled := boolD en,
               ayEnvAtStart := boolD env }
    | _ => m
  { m with kempston := boolD (g "kemp"), mouse := boolD (g "mouse"),
           ear := boolD (g "ear"), mic := boolD (g "mic") }

/-! observations -/

def fmtRegs (g : Spec.Regs) : String :=
  s!"af={hex16 g.af} bc={hex16 g.bc} de={hex16 g.de} hl={hex16 g.hl} afx={hex16 g.af'} bcx={hex16 g.bc'} " ++
  s!"dex={hex16 g.de'} hlx={hex16 g.hl'} ix={hex16 g.ix} iy={hex16 g.iy} sp={hex16 g.sp} pc={hex16 g.pc} " ++
  s!"i={hex8 g.i} r={hex8 g.r} iff={bit g.iff1}{bit g.iff2} im={g.im}"

/-- canonical text of an abstract state; pages in hardware numbering, `-` for pages the model of
machine does not have -/
def fmtA (a : Spec.AState) : String :=
  let pages := (List.range 8).map fun n =>
    if n ∈ Spec.pagesOf a.model then hex64 (fnv (a.page n)) else "-"
  let shown := (Spec.shownPagesOf a.model).map fun n => hex64 (fnv (a.page n))
  fmtRegs a.regs ++
  s!" halt={bit a.halted} skip={bit a.eiPending} mid={bit a.midInstr} lat={hex8 a.latch} lk={bit a.locked}" ++
  s!" bd={hex8 a.border} bdev={hex8 a.borderShown} pages={",".intercalate pages} shown={",".intercalate shown}" ++
  s!" aypres={bit a.ayPresent} aysel={toHex 1 a.aySel} ayregs={bytesHex a.ayRegs} aychip={bytesHex a.ayAudible} ayenv={bit a.ayEnvAtStart}" ++
  s!" mouse={bit a.mouse}"

/-- model-only extras (not part of the abstract state) -/
def fmtExtra (m : Machine) : String :=
  let scr := (Spec.shownPagesOf m.kind).map fun n => hex64 (fnv (m.scr (Spec.absPage m.kind n)))
  s!" scr={",".intercalate scr} pfx={pfxNum m.cpu.pfx} kemp={bit m.kempston} sb={m.screenBank} rom={m.map0} top={m.map3} mp={hex16 m.cpu.memptr} q={hex8 m.cpu.q} ear={bit m.ear} mic={bit m.mic}"

def fmtM (m : Machine) : String := fmtA (Spec.abs m) ++ fmtExtra m

def errName : Err → String
  | .eof => "eof" | .invalidSzx => "invalid-szx" | .machineNotSupported => "machine-not-supported"
  | .invalidScr => "invalid-scr" | .scrMachine => "scr-machine" | .panic => "panic"

structure St where
  fx : Fixes := Fixes.none
  slots : Array Machine := Array.replicate 6 (initMachine .k48)
  file : Bytes := []

def St.slot (s : St) (i : String) : Machine := s.slots.getD (hexNatD i) (initMachine .k48)
def St.setSlot (s : St) (i : String) (m : Machine) : St :=
  { s with slots := s.slots.setIfInBounds (hexNatD i) m }

/-- requests common to C13 and C14; `none` = not one of them -/
def common (s : St) : List String → Option (St × String)
  | ["fx", n] => some ({ s with fx := fixesOf (hexNatD n) }, "ok")
  | "mach" :: i :: rest => some (s.setSlot i (machOf rest), "ok")
  | ["obs", i] => some (s, fmtM (s.slot i))
  | "file" :: segs => some ({ s with file := fileOf segs }, s!"len={(fileOf segs).length}")
  | "fileadd" :: segs => some ({ s with file := s.file ++ fileOf segs }, s!"len={(s.file ++ fileOf segs).length}")
  | ["fhash", off, len] =>
      some (s, hex64 (fnv ((s.file.drop (hexNatD off)).take (hexNatD len))))
  | ["fslice", off, len] =>
      some (s, "h" ++ bytesHex ((s.file.drop (hexNatD off)).take (hexNatD len)))
  | _ => none

end Driver.Snap
