import Driver.C01
import ZxVerif.Model.Spectrum
/-
Sub-protocol `SYS`: the whole machine (Z80 model on the Spectrum bus) in lock-step with the real
Emulator.
  new <48|128> <kempston> <mouse>
  poke <addr> <hexbytes>           bytes into memory through the current map (no time passes)
  out <v>                          paging write (sets up the 128K map)
  cpu <19 fields as in C01>        load the CPU state
  clk <t>                          frame clock := t, frame counter := 0
  step                             one `emulate` -> <cpu 19 fields> <frameClocks> <frames> <border> <7ffd> <ayreg>
  ram                              final value of every RAM location stored to so far -> page:offset:value ...
All numbers hexadecimal except <48|128>.
-/
namespace Driver.Sys
open ZxVerif ZxVerif.Machine ZxVerif.Spectrum

structure St where
  cpu : Z80.Cpu := {}
  zx : ZX := ZX.new .k48 false false

def pokeBytes (z : ZX) (a : BitVec 16) (bs : List (BitVec 8)) : ZX :=
  (bs.foldl (fun (acc : ZX × BitVec 16) b =>
    (Z80.Bus.writeInternal acc.2 b acc.1, acc.2 + 1)) (z, a)).1

/-- the final value of every RAM location ever stored to (pokes included): `page:offset:value` -/
def ramLog (z : ZX) : String :=
  -- newest first: keep the first occurrence of each location
  let rec go (l : List (Nat × Nat × BitVec 8)) (seen : List (Nat × Nat)) (acc : List String) : List String :=
    match l with
    | [] => acc
    | (p, o, v) :: rest =>
      if seen.contains (p, o) then go rest seen acc
      else go rest ((p, o) :: seen) (s!"{toHex 1 p}:{toHex 4 o}:{hex8 v}" :: acc)
  String.intercalate " " (go z.wlog [] [])

def handle (s : St) : List String → St × String
  | ["new", k, ke, mo] =>
    ({ cpu := {}, zx := ZX.new (if k = "128" then .k128 else .k48) (boolD ke) (boolD mo) }, "ok")
  | ["poke", a, bytes] => ({ s with zx := pokeBytes s.zx (bv16 a) (hexBytes bytes) }, "ok")
  | ["out", v] => ({ s with zx := { s.zx with ctl := s.zx.ctl.write7ffd (bv8 v) } }, "ok")
  | "cpu" :: args =>
    match Driver.C01.parseCpu args with
    | some (cpu, _) => ({ s with cpu := cpu }, "ok")
    | none => (s, "bad-op")
  | ["clk", t] =>
    ({ s with zx := { s.zx with ctl := { s.zx.ctl with frameClocks := hexNatD t, passedFrames := 0 } } }, "ok")
  | ["step"] =>
    let r := Spectrum.step (s.cpu, s.zx)
    let c := r.2.ctl
    ({ cpu := r.1, zx := r.2 },
      s!"{Driver.C01.showCpu r.1} {toHex 5 c.frameClocks} {toHex 4 c.passedFrames} {hex8 r.2.border} {hex8 c.port7ffd} {toHex 1 r.2.ayReg}")
  | ["ram"] => (s, ramLog s.zx)
  | _ => (s, "bad-op")

def proto : Driver.Proto := { σ := St, init := {}, handle := handle }

end Driver.Sys
