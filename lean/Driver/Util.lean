/-
Line-protocol helpers shared by every sub-protocol of the native driver `zxmodel`.
-/
namespace Driver

def hexDigit? (c : Char) : Option Nat :=
  if '0' ≤ c ∧ c ≤ '9' then some (c.toNat - '0'.toNat)
  else if 'a' ≤ c ∧ c ≤ 'f' then some (c.toNat - 'a'.toNat + 10)
  else if 'A' ≤ c ∧ c ≤ 'F' then some (c.toNat - 'A'.toNat + 10)
  else none

/-- parse a hexadecimal natural number; `none` on any non-hex character or empty string -/
def hexNat? (s : String) : Option Nat :=
  if s.isEmpty then none else
  s.foldl (fun acc c => match acc, hexDigit? c with
    | some a, some d => some (a * 16 + d)
    | _, _ => none) (some 0)

def hexNatD (s : String) : Nat := (hexNat? s).getD 0

def hexChar (n : Nat) : Char :=
  if n < 10 then Char.ofNat ('0'.toNat + n) else Char.ofNat ('a'.toNat + n - 10)

/-- fixed-width lower-case hexadecimal -/
def toHex (width : Nat) (n : Nat) : String :=
  String.ofList ((List.range width).reverse.map fun i => hexChar ((n >>> (4 * i)) % 16))

def hex8 (b : BitVec 8) : String := toHex 2 b.toNat
def hex16 (b : BitVec 16) : String := toHex 4 b.toNat

def bv8 (s : String) : BitVec 8 := BitVec.ofNat 8 (hexNatD s)
def bv16 (s : String) : BitVec 16 := BitVec.ofNat 16 (hexNatD s)

def bool? (s : String) : Option Bool :=
  if s = "1" then some true else if s = "0" then some false else none

def boolD (s : String) : Bool := s = "1"

def bit (b : Bool) : String := if b then "1" else "0"

/-- hex string → bytes -/
def hexBytes (s : String) : List (BitVec 8) :=
  let rec go : List Char → List (BitVec 8) → List (BitVec 8)
    | a :: b :: rest, acc =>
        go rest (BitVec.ofNat 8 (((hexDigit? a).getD 0) * 16 + (hexDigit? b).getD 0) :: acc)
    | _, acc => acc.reverse
  go s.toList []

def bytesHex (bs : List (BitVec 8)) : String :=
  String.join (bs.map hex8)

/-- One sub-protocol: a state and a total handler for request lines. -/
structure Proto where
  σ : Type
  init : σ
  handle : σ → List String → σ × String

partial def Proto.loop (p : Proto) (inp out : IO.FS.Stream) (s : p.σ) : IO Unit := do
  let line ← inp.getLine
  if line.isEmpty then return ()
  -- a lone "." asks for a flush and has no response line (lets the harness pipeline requests)
  if line == ".\n" then
    out.flush
    p.loop inp out s
  else
    let (s', o) := p.handle s (line.trimAscii.toString.splitOn " ")
    out.putStrLn o
    p.loop inp out s'

end Driver
