import ZxVerif.Props.C17
import ZxVerif.Props.C01
import ZxVerif.Props.C02
import ZxVerif.Props.C03
