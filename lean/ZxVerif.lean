import ZxVerif.Props.C17
import ZxVerif.Props.C15
