import ZxVerif.Props.C04
import ZxVerif.Props.C04X
import ZxVerif.Props.C05
import ZxVerif.Props.C06
import ZxVerif.Props.C07
import ZxVerif.Props.C17
import ZxVerif.Props.C17X
