import ZxVerif.Props.C17
import ZxVerif.Props.C08
import ZxVerif.Props.C09
