import ZxVerif.Props.C17
import ZxVerif.Props.C10
import ZxVerif.Props.C11
import ZxVerif.Props.C12
