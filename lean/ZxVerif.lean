import ZxVerif.Props.C13
import ZxVerif.Props.C14
import ZxVerif.Props.C17
