import ZxVerif.Props.C17
