import ZxVerif.Props.C17
import ZxVerif.Props.C10
import ZxVerif.Props.C11
