import ZxVerif.Props.C17
import ZxVerif.Props.C18
import ZxVerif.Props.C18Filter
import ZxVerif.Props.C19
import ZxVerif.Props.C20
