/-
Timing constants of rustzx-core/src/zx/tape/tap.rs, extracted by tools/extract.py (TapeConsts).
Do not edit by hand.
-/
namespace ZxVerif.Tape.Extracted

def PILOT_LENGTH : Nat := 2168
def PILOT_PULSES_HEADER : Nat := 8063
def PILOT_PULSES_DATA : Nat := 3223
def SYNC1_LENGTH : Nat := 667
def SYNC2_LENGTH : Nat := 735
def BIT_ONE_LENGTH : Nat := 1710
def BIT_ZERO_LENGTH : Nat := 855
def PAUSE_LENGTH : Nat := 3500000
def BUFFER_SIZE : Nat := 128

end ZxVerif.Tape.Extracted
