/-
Helper lemmas for C18: the generic counter-divider, its three instances (tone, noise, envelope),
the envelope closed form via folding the step index into 96 classes, and the decode invariant
(generator parameters are always the decoded register file).
-/
import ZxVerif.Spec.Ay
import Std.Tactic.BVDecide
namespace ZxVerif.Ay
open Spec (iter eff)

/-! ### iteration -/

theorem iter_succ' (f : α → α) (n : Nat) (x : α) : iter f (n + 1) x = f (iter f n x) := by
  induction n generalizing x with
  | zero => rfl
  | succ n ih => rw [iter, ih]; rfl

theorem iter_add (f : α → α) (a b : Nat) (x : α) : iter f (a + b) x = iter f b (iter f a x) := by
  induction a generalizing x with
  | zero => simp [iter]
  | succ a ih => rw [Nat.succ_add]; simp only [iter]; exact ih _

/-! ### the counter-divider shared by the three generators -/

/-- `counter += 1; if counter >= P { counter = 0; payload = g(payload) }` -/
def divTick (P : Nat) (g : β → β) (x : Nat × β) : Nat × β :=
  if x.1 + 1 ≥ P then (0, g x.2) else (x.1 + 1, x.2)

/-- after `n` ticks the counter is `(c+n) mod P` and the payload stepped `(c+n) / P` times -/
theorem divTick_iter (P : Nat) (hP : 1 ≤ P) (g : β → β) (n : Nat) (c : Nat) (b : β) (hc : c < P) :
    iter (divTick P g) n (c, b) = ((c + n) % P, iter g ((c + n) / P) b) := by
  induction n generalizing c b with
  | zero => simp [iter, Nat.mod_eq_of_lt hc, Nat.div_eq_of_lt hc]
  | succ n ih =>
    simp only [iter]
    by_cases hw : c + 1 ≥ P
    · have hcP : c + 1 = P := by omega
      have h1 : divTick P g (c, b) = (0, g b) := by simp [divTick, hw]
      rw [h1, ih 0 (g b) (by omega)]
      have e : c + (n + 1) = P + n := by omega
      rw [e, Nat.add_mod_left, Nat.add_div_left _ (by omega), Nat.zero_add]
      rfl
    · have h1 : divTick P g (c, b) = (c + 1, b) := by simp [divTick, hw]
      rw [h1, ih (c + 1) b (by omega)]
      have e : c + 1 + n = c + (n + 1) := by omega
      rw [e]

/-! ### tone -/

theorem Chan.tick_eq (c : Chan) :
    c.tick = { c with toneCounter := (divTick c.tonePeriod (!·) (c.toneCounter, c.tone)).1,
                      tone := (divTick c.tonePeriod (!·) (c.toneCounter, c.tone)).2 } := by
  unfold Chan.tick divTick
  by_cases h : c.toneCounter + 1 ≥ c.tonePeriod <;> simp [h]

theorem Chan.iter_tick (c : Chan) (n : Nat) :
    iter Chan.tick n c =
      { c with toneCounter := (iter (divTick c.tonePeriod (!·)) n (c.toneCounter, c.tone)).1,
               tone := (iter (divTick c.tonePeriod (!·)) n (c.toneCounter, c.tone)).2 } := by
  induction n generalizing c with
  | zero => rfl
  | succ n ih =>
    simp only [iter]
    rw [ih c.tick, Chan.tick_eq]

theorem iter_not (k : Nat) (b : Bool) : iter (!·) k b = (b ^^ decide (k % 2 = 1)) := by
  induction k generalizing b with
  | zero => simp [iter]
  | succ k ih =>
    simp only [iter, ih]
    have : (k + 1) % 2 = 1 ↔ ¬ (k % 2 = 1) := by omega
    cases b <;> by_cases h : k % 2 = 1 <;> simp [h, this]

/-! ### noise -/

theorem Noise.tick_eq (s : Noise) :
    s.tick = { s with counter := (divTick (s.period * 2) lfsrStep (s.counter, s.lfsr)).1,
                      lfsr := (divTick (s.period * 2) lfsrStep (s.counter, s.lfsr)).2 } := by
  unfold Noise.tick divTick
  by_cases h : s.counter + 1 ≥ s.period * 2 <;> simp [h]

theorem Noise.iter_tick (s : Noise) (n : Nat) :
    iter Noise.tick n s =
      { s with counter := (iter (divTick (s.period * 2) lfsrStep) n (s.counter, s.lfsr)).1,
               lfsr := (iter (divTick (s.period * 2) lfsrStep) n (s.counter, s.lfsr)).2 } := by
  induction n generalizing s with
  | zero => rfl
  | succ n ih =>
    simp only [iter]
    rw [ih s.tick, Noise.tick_eq]

/-- on 17-bit values the 64-bit register of the code is the 17-bit LFSR of the chip definition -/
theorem lfsrStep_eq_spec (x : BitVec 64) (h : x < 0x20000) :
    lfsrStep x < 0x20000 ∧ (lfsrStep x).truncate 17 = Spec.lfsr17 (x.truncate 17) := by
  unfold lfsrStep Spec.lfsr17
  constructor <;> bv_decide

theorem lfsr_iter_bound (k : Nat) (x : BitVec 64) (h : x < 0x20000) :
    iter lfsrStep k x < 0x20000 ∧ (iter lfsrStep k x).truncate 17 = iter Spec.lfsr17 k (x.truncate 17) := by
  induction k generalizing x with
  | zero => exact ⟨h, rfl⟩
  | succ k ih =>
    simp only [iter]
    have := lfsrStep_eq_spec x h
    rw [← this.2]
    exact ih _ this.1

/-! ### envelope -/

/-- the part of the envelope state the step function changes -/
def coreStep (shape : Nat) (x : Bool × Nat) : Bool × Nat :=
  let e := Env.step { shape := shape, segment := x.1, level := x.2 }
  (e.segment, e.level)

theorem Env.step_eq (e : Env) :
    e.step = { e with segment := (coreStep e.shape (e.segment, e.level)).1,
                      level := (coreStep e.shape (e.segment, e.level)).2 } := by
  unfold coreStep Env.step
  cases envelopes e.shape e.segment <;>
    simp only [Env.slideDown, Env.slideUp, Env.resetSegment] <;> (try split) <;> rfl

theorem Env.tick_eq (e : Env) :
    e.tick = { e with
      counter := (divTick e.period (coreStep e.shape) (e.counter, (e.segment, e.level))).1,
      segment := (divTick e.period (coreStep e.shape) (e.counter, (e.segment, e.level))).2.1,
      level := (divTick e.period (coreStep e.shape) (e.counter, (e.segment, e.level))).2.2 } := by
  unfold Env.tick divTick
  by_cases h : e.counter + 1 ≥ e.period
  · simp only [h, if_true]; rw [Env.step_eq]
  · simp [h]

theorem Env.iter_tick (e : Env) (n : Nat) :
    iter Env.tick n e = { e with
      counter := (iter (divTick e.period (coreStep e.shape)) n (e.counter, (e.segment, e.level))).1,
      segment := (iter (divTick e.period (coreStep e.shape)) n (e.counter, (e.segment, e.level))).2.1,
      level := (iter (divTick e.period (coreStep e.shape)) n (e.counter, (e.segment, e.level))).2.2 } := by
  induction n generalizing e with
  | zero => rfl
  | succ n ih =>
    simp only [iter]
    rw [ih e.tick, Env.tick_eq]

/-- closed form of the segment flag after `k` steps -/
def segClosed (shape k : Nat) : Bool :=
  if k < 32 then false
  else if Spec.cont shape && !Spec.hold shape then decide (k / 32 % 2 = 1)
  else true

/-- closed form of (segment, level) after `k` steps since the shape write -/
def coreClosed (shape k : Nat) : Bool × Nat := (segClosed shape k, Spec.envLevel 2 shape k)

/-- folds the step index into 96 classes: 0..31 the first ramp, then period 64 -/
def fold96 (k : Nat) : Nat := if k < 32 then k else 32 + (k - 32) % 64

def next96 (c : Nat) : Nat := if c < 95 then c + 1 else 32

theorem fold96_lt (k : Nat) : fold96 k < 96 := by unfold fold96; split <;> omega

theorem fold96_succ (k : Nat) : fold96 (k + 1) = next96 (fold96 k) := by
  unfold fold96 next96; split <;> split <;> (try split) <;> omega

theorem coreClosed_fold (shape k : Nat) : coreClosed shape k = coreClosed shape (fold96 k) := by
  by_cases hk : k < 32
  · simp [fold96, hk]
  · have h1 : ¬ fold96 k < 32 := by unfold fold96; simp [hk]
    have h2 : fold96 k % 32 = k % 32 := by unfold fold96; simp [hk]; omega
    have h3 : fold96 k % 64 = k % 64 := by unfold fold96; simp [hk]; omega
    have h4 : fold96 k / 32 % 2 = k / 32 % 2 := by unfold fold96; simp [hk]; omega
    simp only [coreClosed, segClosed, Spec.envLevel, hk, h1, h2, h3, h4, if_false]

/-- the whole table: one step of the code's envelope functions moves the closed form from class
`c` to class `next96 c`, for all 16 shapes and all 96 classes -/
theorem coreClosed_step_table : ∀ shape < 16, ∀ c < 96,
    coreClosed shape (next96 c) = coreStep shape (coreClosed shape c) := by
  decide +kernel

theorem coreClosed_zero_table : ∀ shape < 16,
    coreClosed shape 0 = (false, if resetToMax shape false then 31 else 0) := by
  decide

theorem coreClosed_iter (shape : Nat) (hs : shape < 16) (k : Nat) :
    iter (coreStep shape) k (false, if resetToMax shape false then 31 else 0) = coreClosed shape k := by
  induction k with
  | zero => exact (coreClosed_zero_table shape hs).symm
  | succ k ih =>
    rw [iter_succ', ih, coreClosed_fold shape (k + 1), fold96_succ,
      coreClosed_step_table shape hs _ (fold96_lt k), ← coreClosed_fold]

/-! ### whole chip: the generators tick independently -/

theorem Ay.iter_tick_proj (s : Ay) (n : Nat) :
    (iter (fun s => (Ay.tick s).1) n s).ch0 = iter Chan.tick n s.ch0 ∧
    (iter (fun s => (Ay.tick s).1) n s).ch1 = iter Chan.tick n s.ch1 ∧
    (iter (fun s => (Ay.tick s).1) n s).ch2 = iter Chan.tick n s.ch2 ∧
    (iter (fun s => (Ay.tick s).1) n s).noise = iter Noise.tick n s.noise ∧
    (iter (fun s => (Ay.tick s).1) n s).env = iter Env.tick n s.env ∧
    (iter (fun s => (Ay.tick s).1) n s).regs = s.regs := by
  induction n generalizing s with
  | zero => simp [iter]
  | succ n ih =>
    simp only [iter]
    have := ih (Ay.tick s).1
    simpa [Ay.tick] using this

/-! ### bit tests on register bytes -/

theorem bit_eq_div (v : BitVec 8) (i : Nat) (hi : i < 8) :
    bit v (1 <<< i) = decide (v.toNat / 2 ^ i % 2 = 1) := by
  have : i = 0 ∨ i = 1 ∨ i = 2 ∨ i = 3 ∨ i = 4 ∨ i = 5 ∨ i = 6 ∨ i = 7 := by omega
  rcases this with h | h | h | h | h | h | h | h <;> subst h <;> revert v <;> decide

theorem bit8_eq_div (v : BitVec 8) (i : Nat) (hi : i < 3) :
    bit v (8 <<< i) = decide (v.toNat / 2 ^ (3 + i) % 2 = 1) := by
  have : i = 0 ∨ i = 1 ∨ i = 2 := by omega
  rcases this with h | h | h <;> subst h <;> revert v <;> decide

theorem bit10_eq_div (v : BitVec 8) : bit v 0x10 = decide (v.toNat / 16 % 2 = 1) := by
  revert v; decide

/-! ### decode invariant -/

/-- what `write_register` keeps true of channel `i` -/
structure ChanDecoded (r : Nat → BitVec 8) (i : Nat) (c : Chan) : Prop where
  period : c.tonePeriod = eff (Spec.tonePeriodOf (r (2 * i)) (r (2 * i + 1)))
  toneOff : c.toneOff = bit (r 7) (1 <<< i)
  noiseOff : c.noiseOff = bit (r 7) (8 <<< i)
  envEnabled : c.envEnabled = bit (r (8 + i)) 0x10
  volume : c.volume = (r (8 + i)).toNat % 16

/-- Every generator parameter is the decoded register file; the envelope level and the shape stay
in range. (The noise period is 0 until R6 is first written: `AymPrecise::new` does not call
`set_noise`.) -/
structure Decoded (s : Ay) : Prop where
  c0 : ChanDecoded s.regs 0 s.ch0
  c1 : ChanDecoded s.regs 1 s.ch1
  c2 : ChanDecoded s.regs 2 s.ch2
  noise : s.noise.period = 0 ∨ s.noise.period = eff ((s.regs 6).toNat % 32)
  envPeriod : s.env.period = eff ((s.regs 11).toNat + 256 * (s.regs 12).toNat)
  envShape : s.env.shape = (s.regs 13).toNat % 16
  envLevel : s.env.level ≤ 31

theorem Decoded.init : Decoded Ay.init := by
  refine ⟨⟨?_, ?_, ?_, ?_, ?_⟩, ⟨?_, ?_, ?_, ?_, ?_⟩, ⟨?_, ?_, ?_, ?_, ?_⟩, ?_, ?_, ?_, ?_⟩ <;>
    first | rfl | decide | exact Or.inl rfl | exact Nat.zero_le _

theorem Chan.tick_params (c : Chan) :
    c.tick.tonePeriod = c.tonePeriod ∧ c.tick.toneOff = c.toneOff ∧ c.tick.noiseOff = c.noiseOff ∧
    c.tick.envEnabled = c.envEnabled ∧ c.tick.volume = c.volume := by
  by_cases h : c.toneCounter + 1 ≥ c.tonePeriod <;> simp [Chan.tick, h]

theorem ChanDecoded.tick {r : Nat → BitVec 8} {i : Nat} {c : Chan} (h : ChanDecoded r i c) :
    ChanDecoded r i c.tick := by
  obtain ⟨h1, h2, h3, h4, h5⟩ := Chan.tick_params c
  exact ⟨h1 ▸ h.period, h2 ▸ h.toneOff, h3 ▸ h.noiseOff, h4 ▸ h.envEnabled, h5 ▸ h.volume⟩

theorem resetSegment_level (e : Env) : e.resetSegment.level ≤ 31 := by
  unfold Env.resetSegment; simp only; split <;> omega

theorem Env.slideUp_params (e : Env) (hl : e.level ≤ 31) :
    e.slideUp.period = e.period ∧ e.slideUp.shape = e.shape ∧ e.slideUp.counter = e.counter ∧
      e.slideUp.level ≤ 31 := by
  unfold Env.slideUp
  by_cases h : e.level = 31
  · rw [if_pos h]; exact ⟨rfl, rfl, rfl, resetSegment_level _⟩
  · rw [if_neg h]; exact ⟨rfl, rfl, rfl, by show e.level + 1 ≤ 31; omega⟩

theorem Env.slideDown_params (e : Env) (hl : e.level ≤ 31) :
    e.slideDown.period = e.period ∧ e.slideDown.shape = e.shape ∧ e.slideDown.counter = e.counter ∧
      e.slideDown.level ≤ 31 := by
  unfold Env.slideDown
  by_cases h : e.level = 0
  · rw [if_pos h]; exact ⟨rfl, rfl, rfl, resetSegment_level _⟩
  · rw [if_neg h]; exact ⟨rfl, rfl, rfl, by show e.level - 1 ≤ 31; omega⟩

theorem Env.step_params (e : Env) (hl : e.level ≤ 31) :
    e.step.period = e.period ∧ e.step.shape = e.shape ∧ e.step.counter = e.counter ∧ e.step.level ≤ 31 := by
  unfold Env.step
  cases envelopes e.shape e.segment
  · exact Env.slideDown_params e hl
  · exact Env.slideUp_params e hl
  · exact ⟨rfl, rfl, rfl, hl⟩
  · exact ⟨rfl, rfl, rfl, hl⟩

theorem Env.tick_params (e : Env) (hl : e.level ≤ 31) :
    e.tick.period = e.period ∧ e.tick.shape = e.shape ∧ e.tick.level ≤ 31 := by
  unfold Env.tick
  simp only
  split
  · have := Env.step_params { e with counter := 0 } hl
    exact ⟨this.1, this.2.1, this.2.2.2⟩
  · exact ⟨rfl, rfl, hl⟩

theorem Noise.tick_period (s : Noise) : s.tick.period = s.period := by
  unfold Noise.tick; simp only; split <;> rfl

theorem Decoded.tick {s : Ay} (h : Decoded s) : Decoded (Ay.tick s).1 := by
  have he := Env.tick_params s.env h.envLevel
  exact ⟨h.c0.tick, h.c1.tick, h.c2.tick,
    by show s.noise.tick.period = 0 ∨ s.noise.tick.period = _; rw [Noise.tick_period]; exact h.noise,
    by show s.env.tick.period = _; rw [he.1]; exact h.envPeriod,
    by show s.env.tick.shape = _; rw [he.2.1]; exact h.envShape,
    he.2.2⟩

/-! ### register writes keep the decode invariant -/

theorem setTone_period (c : Chan) (lo hi : BitVec 8) :
    (c.setTone (lo.toNat + 256 * (hi.toNat % 16))).tonePeriod = eff (Spec.tonePeriodOf lo hi) := by
  have := lo.isLt
  unfold Chan.setTone Spec.tonePeriodOf eff
  simp only
  rw [Nat.mod_eq_of_lt (by omega)]

theorem setTone_rest (c : Chan) (p : Nat) :
    (c.setTone p).toneOff = c.toneOff ∧ (c.setTone p).noiseOff = c.noiseOff ∧
    (c.setTone p).envEnabled = c.envEnabled ∧ (c.setTone p).volume = c.volume := ⟨rfl, rfl, rfl, rfl⟩

theorem mixerOf_fields (r : Nat → BitVec 8) (i : Nat) (c : Chan) :
    (mixerOf r i c).tonePeriod = c.tonePeriod ∧ (mixerOf r i c).toneOff = bit (r 7) (1 <<< i) ∧
    (mixerOf r i c).noiseOff = bit (r 7) (8 <<< i) ∧ (mixerOf r i c).envEnabled = bit (r (8 + i)) 0x10 ∧
    (mixerOf r i c).volume = c.volume := by
  simp [mixerOf, Chan.setMixer]

theorem setVolume_fields (c : Chan) (v : Nat) :
    (c.setVolume v).tonePeriod = c.tonePeriod ∧ (c.setVolume v).toneOff = c.toneOff ∧
    (c.setVolume v).noiseOff = c.noiseOff ∧ (c.setVolume v).envEnabled = c.envEnabled ∧
    (c.setVolume v).volume = v % 16 := ⟨rfl, rfl, rfl, rfl, rfl⟩

theorem setNoise_period (n : Noise) (v : Nat) : (n.setPeriod (v % 32)).period = eff (v % 32) := by
  simp [Noise.setPeriod, eff]

theorem env_setPeriod_fields (e : Env) (p : Nat) :
    (e.setPeriod p).period = eff p ∧ (e.setPeriod p).shape = e.shape ∧ (e.setPeriod p).level = e.level :=
  ⟨rfl, rfl, rfl⟩

theorem env_setShape_fields (e : Env) (sh : Nat) :
    (e.setShape sh).period = e.period ∧ (e.setShape sh).shape = sh % 16 ∧ (e.setShape sh).level ≤ 31 :=
  ⟨rfl, rfl, resetSegment_level _⟩

macro "decode_case" : tactic => `(tactic|
  (refine ⟨⟨?_, ?_, ?_, ?_, ?_⟩, ⟨?_, ?_, ?_, ?_, ?_⟩, ⟨?_, ?_, ?_, ?_, ?_⟩, ?_, ?_, ?_, ?_⟩ <;>
    simp_all [Ay.decode, upd, setTone_period, setTone_rest, mixerOf_fields, setVolume_fields,
      setNoise_period, env_setPeriod_fields, env_setShape_fields]))

theorem Decoded.decode {s : Ay} (h : Decoded s) (a : Nat) (ha : a < 14) (v : BitVec 8) :
    Decoded (Ay.decode { s with regs := upd s.regs a v } a) := by
  obtain ⟨⟨a1,a2,a3,a4,a5⟩, ⟨b1,b2,b3,b4,b5⟩, ⟨c1,c2,c3,c4,c5⟩, hn, hp, hs, hl⟩ := h
  have : a = 0 ∨ a = 1 ∨ a = 2 ∨ a = 3 ∨ a = 4 ∨ a = 5 ∨ a = 6 ∨ a = 7 ∨ a = 8 ∨ a = 9 ∨ a = 10 ∨
      a = 11 ∨ a = 12 ∨ a = 13 := by omega
  rcases this with h | h | h | h | h | h | h | h | h | h | h | h | h | h <;> subst h
  all_goals decode_case

theorem Decoded.writeReg {s : Ay} (h : Decoded s) (a : Nat) (v : BitVec 8) : Decoded (s.writeReg a v) := by
  unfold Ay.writeReg
  by_cases ha : a ≥ 14
  · simp [ha]; exact h
  · simp only [ha, if_false]; exact h.decode a (by omega) v

theorem Decoded.apply {s : Ay} (h : Decoded s) (op : Op) : Decoded (s.apply op) := by
  cases op with
  | write a v => exact h.writeReg _ v
  | tick => exact h.tick

/-- the decode invariant holds after every history of writes and ticks -/
theorem Decoded.run (ops : List Op) : Decoded (Ay.init.run ops) := by
  have : ∀ (ops : List Op) (s : Ay), Decoded s → Decoded (s.run ops) := by
    intro ops
    induction ops with
    | nil => intro s h; exact h
    | cons op ops ih => intro s h; exact ih _ (h.apply op)
  exact this ops _ Decoded.init

/-! ### pieces used by the property statements -/

/-- ticks alone -/
def ticks (n : Nat) (s : Ay) : Ay := iter (fun s => (Ay.tick s).1) n s

/-- Number of toggles (tone) / LFSR steps (noise) / envelope steps during the first `n` ticks of a
divider with period `P` whose counter stands at `c`: the first one comes after `P - c` ticks (at
the very next tick if the period was lowered below the counter), then one every `P` ticks. -/
def events (P c n : Nat) : Nat :=
  let d := if c < P then P - c else 1
  if n < d then 0 else 1 + (n - d) / P

theorem divider_events (P : Nat) (hP : 1 ≤ P) (g : β → β) (n c : Nat) (b : β) :
    (iter (divTick P g) n (c, b)).2 = iter g (events P c n) b := by
  by_cases hc : c < P
  · rw [divTick_iter P hP g n c b hc]
    simp only [events, hc, if_true]
    by_cases hn : n < P - c
    · simp only [hn, if_true]
      rw [Nat.div_eq_of_lt (by omega)]
    · simp only [hn, if_false]
      have e : c + n = P + (n - (P - c)) := by omega
      rw [e, Nat.add_div_left _ (by omega), Nat.add_comm 1]
  · cases n with
    | zero => simp [iter, events, hc]
    | succ n =>
      have h1 : divTick P g (c, b) = (0, g b) := by simp [divTick]; omega
      simp only [iter, h1]
      rw [divTick_iter P hP g n 0 (g b) (by omega)]
      simp only [events, hc, if_false, Nat.zero_add]
      have : ¬ n + 1 < 1 := by omega
      simp only [this, if_false, Nat.add_sub_cancel]
      rw [Nat.add_comm 1, iter]


/-! ### the register file behind ports 0xFFFD / 0xBFFD -/

def Chip.apply (c : Chip) : Spec.PortOp → Chip
  | .select v => c.selectReg v
  | .write v => c.write v

def Chip.run (c : Chip) (ops : List Spec.PortOp) : Chip := ops.foldl Chip.apply c

theorem and15_eq_mod (v : BitVec 8) : (v &&& 0x0F).toNat = v.toNat % 16 := by
  revert v; decide

theorem chip_refines (ops : List Spec.PortOp) :
    ((Chip.run {} ops).currentReg = (Spec.RegFile.run {} ops).selected) ∧
    (∀ r, (Chip.run {} ops).regs r = (Spec.RegFile.run {} ops).last r) := by
  have : ∀ (ops : List Spec.PortOp) (c : Chip) (f : Spec.RegFile),
      c.currentReg = f.selected → (∀ r, c.regs r = f.last r) →
      (Chip.run c ops).currentReg = (Spec.RegFile.run f ops).selected ∧
      (∀ r, (Chip.run c ops).regs r = (Spec.RegFile.run f ops).last r) := by
    intro ops
    induction ops with
    | nil => intro c f h1 h2; exact ⟨h1, h2⟩
    | cons op ops ih =>
      intro c f h1 h2
      apply ih
      · cases op with
        | select v => exact and15_eq_mod v
        | write v => exact h1
      · intro r
        cases op with
        | select v => exact h2 r
        | write v =>
          show upd c.regs c.currentReg v r = _
          simp only [upd, Spec.RegFile.step, h1, h2]
  exact this ops {} {} rfl (fun _ => rfl)


end ZxVerif.Ay
