/-
The machine together with its AY chip as a `Z80.Bus`: `AyZX` wraps the machine bus `Spectrum.ZX`
(Model/Spectrum.lean) and additionally carries the chip model `Ay.Chip` (shadow register file +
sound generator, Model/Ay.lean), so that running `Z80.emulate` on `AyZX` drives exactly the
`Chip.selectReg` / `Chip.write` operations the C18 theorems quantify over.

  rustzx-core/src/zx/controller.rs   write_io: `select_ay_reg(data)` / `write_ay_port(data)`
  rustzx-core/src/zx/sound/ay.rs     ZXAyChip::select_reg / write (forwards to AymPrecise::write_register)

`AyZX` =
  * `zx`    the machine bus; *every* primitive forwards to the `ZX` primitive (`zx_hom`: the projection
            `AyZX.zx` is a bus homomorphism, so by Lemmas/Z80Hom.lean every program goes through the same
            CPU states on `AyZX` as on `ZX`, and the `zx` component of a run is the run on `ZX`);
  * `chip`  the chip model; `write_io` applies `Chip.selectReg` / `Chip.write` exactly when `writeDecode`
            routes the port to the AY select / AY data device;
  * `sched` an oracle for sample generation: the real machine produces audio samples while the program
            runs, each of which ticks the generator (`update_mixer`) some number of times that depends
            on floating-point resampling (not modelled). `sched k` = the number of generator ticks
            between the (k-1)-th and the k-th AY data write of the run — an arbitrary function, the
            theorems hold for all of them (ticks commute with everything but data writes, so lumping
            them in front of the next data write loses no interleaving); `fun _ => 0` = no samples;
  * `dataWrites`  the number of AY data writes so far (index into the oracle);
  * `hist`  ghost: the AY port operations the CPU performed, oldest first. Nothing reads it back.
-/
import ZxVerif.Model.Spectrum
import ZxVerif.Lemmas.Ay
import ZxVerif.Lemmas.Z80Hom
import ZxVerif.Lemmas.Z80Closed
set_option linter.unusedSimpArgs false

/-! ## list-level facts about port histories -/
namespace ZxVerif.Ay
open Spec (PortOp iter)

deriving instance DecidableEq for Spec.PortOp
deriving instance DecidableEq for Op

theorem Chip.run_snoc (c : Chip) (h : List PortOp) (op : PortOp) :
    Chip.run c (h ++ [op]) = (Chip.run c h).apply op := by
  simp [Chip.run, List.foldl_append]

/-- The register writes a port history amounts to (oldest first), `sel` being the register selected
at its start: a select of `v` selects register `v mod 16`, a data write of `v` is a write of `v` to
the selected register. -/
def portWrites (sel : Nat) : List PortOp → List Op
  | [] => []
  | .select v :: t => portWrites (v.toNat % 16) t
  | .write v :: t => .write (BitVec.ofNat 8 sel) v :: portWrites sel t

theorem portWrites_snoc (c : Chip) (h : List PortOp) (op : PortOp) :
    portWrites c.currentReg (h ++ [op]) = portWrites c.currentReg h ++
      (match op with
       | .select _ => []
       | .write v => [.write (BitVec.ofNat 8 (Chip.run c h).currentReg) v]) := by
  induction h generalizing c with
  | nil => cases op <;> rfl
  | cons o t ih =>
    cases o with
    | select w =>
      have e : (c.selectReg w).currentReg = w.toNat % 16 := and15_eq_mod w
      have := ih (c.selectReg w)
      rw [e] at this
      exact this
    | write w =>
      have := ih (c.write w)
      show Op.write _ w :: portWrites c.currentReg (t ++ [op]) = Op.write _ w :: portWrites c.currentReg t ++ _
      rw [List.cons_append]
      exact congrArg _ this

/-- sample generation between register writes: `sched k` ticks in front of the `k`-th write -/
def interleave (sched : Nat → Nat) (k : Nat) : List Op → List Op
  | [] => []
  | w :: t => List.replicate (sched k) Op.tick ++ w :: interleave sched (k + 1) t

theorem interleave_snoc (sched : Nat → Nat) (k : Nat) (l : List Op) (w : Op) :
    interleave sched k (l ++ [w]) =
      interleave sched k l ++ (List.replicate (sched (k + l.length)) Op.tick ++ [w]) := by
  induction l generalizing k with
  | nil => simp [interleave]
  | cons x t ih =>
    simp only [List.cons_append, interleave, ih, List.length_cons, List.append_assoc]
    have : k + 1 + t.length = k + (t.length + 1) := by omega
    rw [this]

/-- no sample generation: the generator sees the writes alone -/
theorem interleave_zero (k : Nat) (l : List Op) : interleave (fun _ => 0) k l = l := by
  induction l generalizing k with
  | nil => rfl
  | cons x t ih => simp [interleave, ih]

theorem Ay.run_append (s : Ay) (l1 l2 : List Op) : s.run (l1 ++ l2) = (s.run l1).run l2 := by
  simp [Ay.run, List.foldl_append]

theorem Ay.run_ticks (s : Ay) (n : Nat) : s.run (List.replicate n Op.tick) = ticks n s := by
  induction n generalizing s with
  | zero => rfl
  | succ n ih =>
    show Ay.run (s.apply .tick) (List.replicate n Op.tick) = iter _ n (Ay.tick s).1
    exact ih _

theorem ticks_regs (n : Nat) (s : Ay) : (ticks n s).regs = s.regs := (Ay.iter_tick_proj s n).2.2.2.2.2

/-- the generator behind a chip that is fed a port history has received the history's register writes -/
theorem Chip.run_ay (c : Chip) (h : List PortOp) :
    (Chip.run c h).ay = c.ay.run (portWrites c.currentReg h) := by
  induction h generalizing c with
  | nil => rfl
  | cons o t ih =>
    cases o with
    | select w =>
      have e : (c.selectReg w).currentReg = w.toNat % 16 := and15_eq_mod w
      have := ih (c.selectReg w)
      rw [e] at this
      exact this
    | write w => exact ih (c.write w)

/-- an operation the generator does not ignore: a tick, or a write to one of R0–R13 -/
def Op.relevant : Op → Bool
  | .tick => true
  | .write a _ => decide (a.toNat < 14)

/-- writes to R14/R15 (the I/O ports of the chip) never change the generator -/
theorem Ay.run_filter_relevant (s : Ay) (ops : List Op) : s.run (ops.filter Op.relevant) = s.run ops := by
  induction ops generalizing s with
  | nil => rfl
  | cons o t ih =>
    cases o with
    | tick => exact ih _
    | write a v =>
      by_cases ha : a.toNat < 14
      · have : Op.relevant (.write a v) = true := by simp [Op.relevant, ha]
        rw [List.filter_cons_of_pos this]
        exact ih _
      · have : ¬ (Op.relevant (.write a v) = true) := by simp [Op.relevant, ha]
        rw [List.filter_cons_of_neg this, ih]
        show s.run t = (s.writeReg a.toNat v).run t
        have : s.writeReg a.toNat v = s := by unfold Ay.writeReg; rw [if_pos (by omega)]
        rw [this]

/-- the generator's copy of a register after a write through the chip (`cur < 16`: the selected register) -/
theorem writeRegister_regs (s : Ay) (cur : Nat) (hc : cur < 16) (v : BitVec 8) (r : Nat) (hr : r < 14) :
    (s.writeRegister (BitVec.ofNat 8 cur) v).regs r = upd s.regs cur v r := by
  have hcur : (BitVec.ofNat 8 cur).toNat = cur := by simp [BitVec.toNat_ofNat]; omega
  unfold Ay.writeRegister Ay.writeReg
  rw [hcur]
  by_cases h14 : cur ≥ 14
  · have : r ≠ cur := by omega
    simp [h14, upd, this]
  · simp only [h14, if_false]
    have hreg : ∀ (s : Ay) (a : Nat), (Ay.decode s a).regs = s.regs := by
      intro s a; unfold Ay.decode; split <;> rfl
    rw [hreg]

/-! ### the noise period is programmed by the first write to R6 and stays programmed -/

theorem noise_period_apply (s : Ay) (op : Op) (h : 1 ≤ s.noise.period) : 1 ≤ (s.apply op).noise.period := by
  cases op with
  | tick => show 1 ≤ s.noise.tick.period; rw [Noise.tick_period]; exact h
  | write a v =>
    show 1 ≤ (s.writeReg a.toNat v).noise.period
    unfold Ay.writeReg
    split
    · exact h
    · unfold Ay.decode
      split <;> first | exact h | (show 1 ≤ (Noise.setPeriod _ (_ % 32)).period; rw [setNoise_period]; unfold Spec.eff; split <;> omega)

theorem noise_period_write6 (s : Ay) (v : BitVec 8) : 1 ≤ (s.apply (.write 6 v)).noise.period := by
  show 1 ≤ (s.writeReg 6 v).noise.period
  have : s.writeReg 6 v = { s with regs := upd s.regs 6 v, noise := s.noise.setPeriod ((upd s.regs 6 v 6).toNat % 32) } := by
    simp [Ay.writeReg, Ay.decode]
  rw [this]
  show 1 ≤ (Noise.setPeriod _ (_ % 32)).period
  rw [setNoise_period]; unfold Spec.eff; split <;> omega

/-- once a history contains a write to R6 the noise period is the decoded register, not the power-on 0 -/
theorem noise_period_programmed (ops : List Op) (s : Ay)
    (h : 1 ≤ s.noise.period ∨ ∃ v, Op.write 6 v ∈ ops) : 1 ≤ (s.run ops).noise.period := by
  induction ops generalizing s with
  | nil =>
    rcases h with h | ⟨v, hv⟩
    · exact h
    · cases hv
  | cons op t ih =>
    apply ih
    rcases h with h | ⟨v, hv⟩
    · exact Or.inl (noise_period_apply s op h)
    · rcases List.mem_cons.mp hv with e | hm
      · subst e; exact Or.inl (noise_period_write6 s v)
      · exact Or.inr ⟨v, hm⟩

theorem mem_interleave (sched : Nat → Nat) (k : Nat) (l : List Op) (w : Op) (h : w ∈ l) :
    w ∈ interleave sched k l := by
  induction l generalizing k with
  | nil => cases h
  | cons x t ih =>
    simp only [interleave, List.mem_append, List.mem_cons]
    rcases List.mem_cons.mp h with e | hm
    · exact Or.inr (Or.inl e)
    · exact Or.inr (Or.inr (ih _ hm))

/-! ### register numbers modulo 16 at the level of histories -/

/-- two port operations that differ at most in the unused upper bits of a register number -/
def PortOp.congr16 : PortOp → PortOp → Prop
  | .select v, .select w => v.toNat % 16 = w.toNat % 16
  | .write v, .write w => v = w
  | _, _ => False

/-- pointwise `congr16` -/
def congr16 : List PortOp → List PortOp → Prop
  | [], [] => True
  | a :: s, b :: t => PortOp.congr16 a b ∧ congr16 s t
  | _, _ => False

theorem selectReg_congr (c : Chip) (v w : BitVec 8) (h : v.toNat % 16 = w.toNat % 16) :
    c.selectReg v = c.selectReg w := by
  have : (v &&& 0x0F).toNat = (w &&& 0x0F).toNat := by rw [and15_eq_mod, and15_eq_mod, h]
  unfold Chip.selectReg
  rw [this]

/-- histories that agree up to the upper bits of the register numbers leave the chip in the same state -/
theorem Chip.run_congr16 (c : Chip) (h1 h2 : List PortOp) (h : congr16 h1 h2) : Chip.run c h1 = Chip.run c h2 := by
  induction h1 generalizing c h2 with
  | nil => cases h2 with
    | nil => rfl
    | cons _ _ => cases h
  | cons a s ih =>
    cases h2 with
    | nil => cases h
    | cons b t =>
      obtain ⟨hab, hst⟩ := h
      show Chip.run (c.apply a) s = Chip.run (c.apply b) t
      have : c.apply a = c.apply b := by
        cases a <;> cases b
        · exact selectReg_congr c _ _ hab
        · cases hab
        · cases hab
        · cases hab; rfl
      rw [this]
      exact ih _ _ hst

/-- … and amount to the same register writes -/
theorem portWrites_congr16 (sel : Nat) (h1 h2 : List PortOp) (h : congr16 h1 h2) :
    portWrites sel h1 = portWrites sel h2 := by
  induction h1 generalizing sel h2 with
  | nil => cases h2 with
    | nil => rfl
    | cons _ _ => cases h
  | cons a s ih =>
    cases h2 with
    | nil => cases h
    | cons b t =>
      obtain ⟨hab, hst⟩ := h
      cases a <;> cases b
      · have hab' : _ % 16 = _ % 16 := hab
        simp only [portWrites, hab']
        exact ih _ _ hst
      · cases hab
      · cases hab
      · cases hab
        simp only [portWrites]
        rw [ih _ _ hst]

theorem Chip.ext' (a b : Chip) (h1 : a.currentReg = b.currentReg) (h2 : a.regs = b.regs) (h3 : a.ay = b.ay) :
    a = b := by
  cases a; cases b; simp_all

end ZxVerif.Ay

/-! ## the bus -/
namespace ZxVerif.Spectrum
open ZxVerif.Machine ZxVerif.Z80
open ZxVerif.Ay (Chip Op portWrites interleave ticks upd)
open ZxVerif.Ay.Spec (PortOp)

structure AyZX where
  zx : ZX
  chip : Chip := {}
  /-- oracle: generator ticks between the (k-1)-th and the k-th AY data write -/
  sched : Nat → Nat := fun _ => 0
  /-- number of AY data writes so far -/
  dataWrites : Nat := 0
  /-- ghost: the AY port operations so far, oldest first -/
  hist : List PortOp := []

/-- a machine state `z` (any memory, clock, paging, keyboard …) with the chip at power-on -/
def AyZX.start (z : ZX) (sched : Nat → Nat) : AyZX := { zx := z, sched := sched }

/-- the AY part of `write_io`: what the port write does to the chip, and what the ghost records -/
def AyZX.device (x : AyZX) (p : BitVec 16) (v : BitVec 8) : AyZX :=
  match writeDecode x.zx.cfg p with
  | .aySelect => { x with chip := x.chip.selectReg v, hist := x.hist ++ [.select v] }
  | .ayData =>
    { x with
      chip := ({ x.chip with ay := ticks (x.sched x.dataWrites) x.chip.ay }).write v
      dataWrites := x.dataWrites + 1
      hist := x.hist ++ [.write v] }
  | _ => x

/-- `write_io` -/
def AyZX.writeIo (p : BitVec 16) (v : BitVec 8) (x : AyZX) : AyZX :=
  { x.device p v with zx := Bus.writeIo p v x.zx }

instance : Bus AyZX where
  waitMreq a clk x := { x with zx := Bus.waitMreq a clk x.zx }
  waitNoMreq a clk x := { x with zx := Bus.waitNoMreq a clk x.zx }
  waitInternal clk x := { x with zx := Bus.waitInternal clk x.zx }
  readInternal a x := ((Bus.readInternal a x.zx).1, { x with zx := (Bus.readInternal a x.zx).2 })
  writeInternal a v x := { x with zx := Bus.writeInternal a v x.zx }
  readIo p x := ((Bus.readIo p x.zx).1, { x with zx := (Bus.readIo p x.zx).2 })
  writeIo := AyZX.writeIo
  readInterrupt x := ((Bus.readInterrupt x.zx).1, { x with zx := (Bus.readInterrupt x.zx).2 })
  reti x := { x with zx := Bus.reti x.zx }
  halt on x := { x with zx := Bus.halt on x.zx }
  intActive x := Bus.intActive x.zx
  nmiActive x := Bus.nmiActive x.zx
  pcCallback a x := { x with zx := Bus.pcCallback a x.zx }

/-- every primitive of `AyZX` is the `ZX` primitive on the `zx` component -/
theorem zx_hom : BusHom AyZX.zx where
  waitMreq _ _ _ := rfl
  waitNoMreq _ _ _ := rfl
  waitInternal _ _ := rfl
  readInternal _ _ := rfl
  writeInternal _ _ _ := rfl
  readIo _ _ := rfl
  writeIo _ _ _ := rfl
  readInterrupt _ := rfl
  reti _ := rfl
  halt _ _ := rfl
  intActive _ := rfl
  nmiActive _ := rfl
  pcCallback _ _ := rfl

/-- **Adding the chip changes nothing for the program**: on `AyZX` every program goes through the
same CPU states as on the machine bus `ZX`, and the `zx` component is the run on `ZX`. -/
theorem run_zx (v : Variant) (n : Nat) (s : Cpu) (x : AyZX) :
    (Z80.run v n (s, x)).1 = (Z80.run v n (s, x.zx)).1 ∧ (Z80.run v n (s, x)).2.zx = (Z80.run v n (s, x.zx)).2 := by
  have := zx_hom.run v n s x
  exact ⟨(congrArg Prod.fst this).symm, (congrArg Prod.snd this).symm⟩

/-! ### what a port write does to the AY part of the machine bus `ZX` -/

theorem ZX.writeIo_ay (p : BitVec 16) (v : BitVec 8) (z : ZX) :
    (ZX.writeIo p v z).ayReg =
      (match writeDecode z.cfg p with | .aySelect => (v &&& 0x0F).toNat | _ => z.ayReg) ∧
    (ZX.writeIo p v z).ayRegs =
      (match writeDecode z.cfg p with
       | .ayData => fun r => if r = z.ayReg then v else z.ayRegs r
       | _ => z.ayRegs) := by
  unfold ZX.writeIo
  cases writeDecode z.cfg p <;> exact ⟨rfl, rfl⟩

/-- what the ghost history records, by definition: a port write appends one entry exactly when
`writeDecode` routes it to the AY select or the AY data device -/
theorem AyZX.writeIo_hist (p : BitVec 16) (v : BitVec 8) (x : AyZX) :
    (Bus.writeIo p v x).hist =
      (match writeDecode x.zx.cfg p with
       | .aySelect => x.hist ++ [.select v]
       | .ayData => x.hist ++ [.write v]
       | _ => x.hist) := by
  show (x.device p v).hist = _
  unfold AyZX.device
  cases writeDecode x.zx.cfg p <;> rfl

/-! ### the ghost history does not depend on the chip or on the sample-generation oracle -/

/-- the machine bus with the ghost history alone -/
structure HistZX where
  zx : ZX
  hist : List PortOp := []

/-- what a port write appends to the history -/
def histStep (cfg : IoCfg) (p : BitVec 16) (v : BitVec 8) (hist : List PortOp) : List PortOp :=
  match writeDecode cfg p with
  | .aySelect => hist ++ [.select v]
  | .ayData => hist ++ [.write v]
  | _ => hist

instance : Bus HistZX where
  waitMreq a clk x := { x with zx := Bus.waitMreq a clk x.zx }
  waitNoMreq a clk x := { x with zx := Bus.waitNoMreq a clk x.zx }
  waitInternal clk x := { x with zx := Bus.waitInternal clk x.zx }
  readInternal a x := ((Bus.readInternal a x.zx).1, { x with zx := (Bus.readInternal a x.zx).2 })
  writeInternal a v x := { x with zx := Bus.writeInternal a v x.zx }
  readIo p x := ((Bus.readIo p x.zx).1, { x with zx := (Bus.readIo p x.zx).2 })
  writeIo p v x := { zx := Bus.writeIo p v x.zx, hist := histStep x.zx.cfg p v x.hist }
  readInterrupt x := ((Bus.readInterrupt x.zx).1, { x with zx := (Bus.readInterrupt x.zx).2 })
  reti x := { x with zx := Bus.reti x.zx }
  halt on x := { x with zx := Bus.halt on x.zx }
  intActive x := Bus.intActive x.zx
  nmiActive x := Bus.nmiActive x.zx
  pcCallback a x := { x with zx := Bus.pcCallback a x.zx }

/-- forget chip and oracle -/
def AyZX.toHist (x : AyZX) : HistZX := { zx := x.zx, hist := x.hist }

theorem toHist_hom : BusHom AyZX.toHist where
  waitMreq _ _ _ := rfl
  waitNoMreq _ _ _ := rfl
  waitInternal _ _ := rfl
  readInternal _ _ := rfl
  writeInternal _ _ _ := rfl
  readIo _ _ := rfl
  writeIo p v x := by
    show HistZX.mk _ (histStep x.zx.cfg p v x.hist) = HistZX.mk _ (Bus.writeIo p v x).hist
    rw [AyZX.writeIo_hist]; rfl
  readInterrupt _ := rfl
  reti _ := rfl
  halt _ _ := rfl
  intActive _ := rfl
  nmiActive _ := rfl
  pcCallback _ _ := rfl

/-- the port history of a run is that of the run on the machine bus with the ghost alone: it depends
on the program and the machine, not on the chip state or the oracle -/
theorem run_hist (v : Variant) (n : Nat) (s : Cpu) (x : AyZX) :
    (Z80.run v n (s, x)).2.hist = (Z80.run v n (s, x.toHist)).2.hist :=
  (congrArg (fun r => r.2.hist) (toHist_hom.run v n s x)).symm

/-! ### the invariant -/

/-- the chip is what its port history says, and the machine's own AY latch and file agree with it -/
structure Good (x : AyZX) : Prop where
  latch : x.chip.currentReg = (Chip.run {} x.hist).currentReg
  file : x.chip.regs = (Chip.run {} x.hist).regs
  gen : x.chip.ay = Ay.Ay.init.run (interleave x.sched 0 (portWrites 0 x.hist))
  cnt : x.dataWrites = (portWrites 0 x.hist).length
  lt16 : x.chip.currentReg < 16
  feeds : ∀ r < 14, x.chip.ay.regs r = x.chip.regs r
  zxLatch : x.zx.ayReg = x.chip.currentReg
  zxFile : x.zx.ayRegs = x.chip.regs

theorem Good.start (z : ZX) (sched : Nat → Nat) (h1 : z.ayReg = 0) (h2 : z.ayRegs = fun _ => 0) :
    Good (AyZX.start z sched) where
  latch := rfl
  file := rfl
  gen := rfl
  cnt := rfl
  lt16 := by show 0 < 16; omega
  feeds _ _ := rfl
  zxLatch := h1
  zxFile := h2

/-- a primitive that leaves the chip, the ghost and the machine's AY fields alone keeps the invariant -/
theorem Good.of_same {x y : AyZX} (g : Good x) (h1 : y.chip = x.chip) (h2 : y.hist = x.hist)
    (h3 : y.sched = x.sched) (h4 : y.dataWrites = x.dataWrites) (h5 : y.zx.ayReg = x.zx.ayReg)
    (h6 : y.zx.ayRegs = x.zx.ayRegs) : Good y where
  latch := by rw [h1, h2]; exact g.latch
  file := by rw [h1, h2]; exact g.file
  gen := by rw [h1, h2, h3]; exact g.gen
  cnt := by rw [h2, h4]; exact g.cnt
  lt16 := by rw [h1]; exact g.lt16
  feeds := by rw [h1]; exact g.feeds
  zxLatch := by rw [h1, h5]; exact g.zxLatch
  zxFile := by rw [h1, h6]; exact g.zxFile

theorem Good.writeIo {x : AyZX} (g : Good x) (p : BitVec 16) (v : BitVec 8) : Good (AyZX.writeIo p v x) := by
  have hz := ZX.writeIo_ay p v x.zx
  cases hd : writeDecode x.zx.cfg p with
  | aySelect =>
    have e : AyZX.writeIo p v x =
        { x with chip := x.chip.selectReg v, hist := x.hist ++ [.select v], zx := ZX.writeIo p v x.zx } := by
      simp only [AyZX.writeIo, AyZX.device, hd]; rfl
    rw [hd] at hz
    rw [e]
    have hp := Ay.portWrites_snoc {} x.hist (.select v)
    exact {
      latch := by simp only [Ay.Chip.run_snoc]; rfl
      file := by simp only [Ay.Chip.run_snoc]; exact g.file
      gen := by
        show x.chip.ay = _
        rw [g.gen]
        show _ = Ay.Ay.init.run (interleave x.sched 0 (portWrites (Chip.currentReg {}) (x.hist ++ [.select v])))
        rw [hp]; simp only [List.append_nil]
      cnt := by
        show x.dataWrites = (portWrites (Chip.currentReg {}) (x.hist ++ [.select v])).length
        rw [hp]; simp only [List.append_nil]; exact g.cnt
      lt16 := by
        show (v &&& 0x0F).toNat < 16
        rw [Ay.and15_eq_mod]; exact Nat.mod_lt _ (by omega)
      feeds := g.feeds
      zxLatch := hz.1
      zxFile := hz.2.trans g.zxFile }
  | ayData =>
    have e : AyZX.writeIo p v x =
        { x with chip := ({ x.chip with ay := ticks (x.sched x.dataWrites) x.chip.ay }).write v,
                 dataWrites := x.dataWrites + 1,
                 hist := x.hist ++ [.write v], zx := ZX.writeIo p v x.zx } := by
      simp only [AyZX.writeIo, AyZX.device, hd]; rfl
    rw [hd] at hz
    rw [e]
    have hp := Ay.portWrites_snoc {} x.hist (.write v)
    exact {
      latch := by simp only [Ay.Chip.run_snoc]; exact g.latch
      file := by
        simp only [Ay.Chip.run_snoc]
        show upd x.chip.regs x.chip.currentReg v = upd (Chip.run {} x.hist).regs (Chip.run {} x.hist).currentReg v
        rw [g.latch, g.file]
      gen := by
        show (ticks (x.sched x.dataWrites) x.chip.ay).writeRegister (BitVec.ofNat 8 x.chip.currentReg) v =
          Ay.Ay.init.run (interleave x.sched 0 (portWrites (Chip.currentReg {}) (x.hist ++ [.write v])))
        rw [hp]
        simp only [Ay.interleave_snoc, Ay.Ay.run_append, Ay.Ay.run_ticks]
        rw [← g.gen, Nat.zero_add, ← g.cnt, ← g.latch]
        rfl
      cnt := by
        show x.dataWrites + 1 = (portWrites (Chip.currentReg {}) (x.hist ++ [.write v])).length
        rw [hp, List.length_append, ← g.cnt]; rfl
      lt16 := g.lt16
      feeds := by
        intro r hr
        show ((ticks (x.sched x.dataWrites) x.chip.ay).writeRegister (BitVec.ofNat 8 x.chip.currentReg) v).regs r =
          upd x.chip.regs x.chip.currentReg v r
        rw [Ay.writeRegister_regs _ _ g.lt16 _ _ hr, Ay.ticks_regs]
        simp only [upd]
        split
        · rfl
        · exact g.feeds r hr
      zxLatch := hz.1.trans g.zxLatch
      zxFile := by
        show (ZX.writeIo p v x.zx).ayRegs = upd x.chip.regs x.chip.currentReg v
        rw [hz.2, g.zxLatch, g.zxFile]; rfl }
  | extender | ula | paging | none =>
    have e : AyZX.writeIo p v x = { x with zx := ZX.writeIo p v x.zx } := by
      simp only [AyZX.writeIo, AyZX.device, hd]; rfl
    rw [hd] at hz
    rw [e]
    exact g.of_same rfl rfl rfl rfl hz.1 hz.2

/-- the invariant carries over, and the sample-generation oracle is never changed -/
def Keeps (x y : AyZX) : Prop := y.sched = x.sched ∧ (Good x → Good y)

theorem AyZX.writeIo_sched (p : BitVec 16) (v : BitVec 8) (x : AyZX) : (AyZX.writeIo p v x).sched = x.sched := by
  show (x.device p v).sched = _
  unfold AyZX.device
  cases writeDecode x.zx.cfg p <;> rfl

/-- every primitive bus operation keeps the invariant, whatever the clock counts -/
theorem keeps_closed : BusClosed Keeps where
  refl _ := ⟨rfl, id⟩
  trans h1 h2 := ⟨h2.1.trans h1.1, fun g => h2.2 (h1.2 g)⟩
  waitMreq _ _ _ := ⟨rfl, fun g => g.of_same rfl rfl rfl rfl rfl rfl⟩
  waitNoMreq _ _ _ := ⟨rfl, fun g => g.of_same rfl rfl rfl rfl rfl rfl⟩
  waitInternal _ _ := ⟨rfl, fun g => g.of_same rfl rfl rfl rfl rfl rfl⟩
  readInternal _ _ := ⟨rfl, fun g => g.of_same rfl rfl rfl rfl rfl rfl⟩
  writeInternal _ _ _ := ⟨rfl, fun g => g.of_same rfl rfl rfl rfl rfl rfl⟩
  readIo _ _ := ⟨rfl, fun g => g.of_same rfl rfl rfl rfl rfl rfl⟩
  writeIo p v x := ⟨AyZX.writeIo_sched p v x, fun g => g.writeIo p v⟩
  readInterrupt _ := ⟨rfl, fun g => g.of_same rfl rfl rfl rfl rfl rfl⟩
  reti _ := ⟨rfl, fun g => g.of_same rfl rfl rfl rfl rfl rfl⟩
  halt _ _ := ⟨rfl, fun g => g.of_same rfl rfl rfl rfl rfl rfl⟩
  pcCallback _ _ := ⟨rfl, fun g => g.of_same rfl rfl rfl rfl rfl rfl⟩

/-- **Every program keeps the invariant**, from any state that has it. -/
theorem program_keeps_good (v : Variant) (n : Nat) (s : Cpu) (x : AyZX) (g : Good x) :
    Good (Z80.run v n (s, x)).2 ∧ (Z80.run v n (s, x)).2.sched = x.sched :=
  ⟨(keeps_closed.run v n (s, x)).2 g, (keeps_closed.run v n (s, x)).1⟩

end ZxVerif.Spectrum
