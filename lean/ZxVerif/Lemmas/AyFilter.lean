/-
Bounds for the ℚ-model of the AY filter chain (uses Mathlib's `nlinarith`/`ring`; not linked into the
driver).
-/
import ZxVerif.Model.AyFilter
import Mathlib.Tactic.Linarith
import Mathlib.Tactic.Ring
namespace ZxVerif.Ay.Filter

theorem absI_nonneg (c : Int) : 0 ≤ absI c := by unfold absI; split <;> omega

theorem term_bound (c u v B : Int) (hu : -B ≤ u ∧ u ≤ B) (hv : -B ≤ v ∧ v ≤ B) :
    -(2 * absI c * B) ≤ c * (u + v) ∧ c * (u + v) ≤ 2 * absI c * B := by
  unfold absI
  split
  · constructor <;> nlinarith
  · constructor <;> nlinarith

theorem pairs_bound (ps : List (Nat × Int)) (x : Nat → Int) (B : Int)
    (hx : ∀ i, -B ≤ x i ∧ x i ≤ B) :
    -((ps.map fun p => 2 * absI p.2).sum * B) ≤ (ps.map fun p => p.2 * (x p.1 + x (192 - p.1))).sum ∧
    (ps.map fun p => p.2 * (x p.1 + x (192 - p.1))).sum ≤ (ps.map fun p => 2 * absI p.2).sum * B := by
  induction ps with
  | nil => simp
  | cons p ps ih =>
    have ht := term_bound p.2 (x p.1) (x (192 - p.1)) B (hx _) (hx _)
    simp only [List.map_cons, List.sum_cons]
    constructor <;> nlinarith [ih.1, ih.2, ht.1, ht.2]

theorem sum_bound (ds : List Int) (B : Int) (h : ∀ d ∈ ds, -B ≤ d ∧ d ≤ B) :
    -((ds.length : Int) * B) ≤ ds.sum ∧ ds.sum ≤ (ds.length : Int) * B := by
  induction ds with
  | nil => simp
  | cons d ds ih =>
    have hd := h d List.mem_cons_self
    have := ih (fun e he => h e (List.mem_cons_of_mem _ he))
    simp only [List.sum_cons, List.length_cons]
    push_cast
    constructor <;> nlinarith [this.1, this.2, hd.1, hd.2]

end ZxVerif.Ay.Filter
