/-
Bit-level helper lemmas shared by several models (core only).
-/
namespace ZxVerif.Bits

theorem shl_one_bit (i b : Nat) :
    (decide (b < i) || !decide (b - i = 0)) = !decide (b = i) := by
  by_cases h1 : b < i <;> by_cases h2 : b = i <;> simp [h1, h2] <;> omega

/-- clearing bit `i` -/
theorem getLsbD_clear (x : BitVec 8) (i b : Nat) :
    (x &&& ~~~(1#8 <<< i)).getLsbD b = (x.getLsbD b && !decide (b = i)) := by
  by_cases hb : b < 8
  · simp [hb, shl_one_bit]
  · simp [BitVec.getLsbD_of_ge _ _ (Nat.le_of_not_lt hb)]

/-- setting bit `i` -/
theorem getLsbD_set (x : BitVec 8) (i b : Nat) (hi : i < 8) :
    (x ||| (1#8 <<< i)).getLsbD b = (x.getLsbD b || decide (b = i)) := by
  by_cases hb : b < 8
  · by_cases h1 : b < i <;> by_cases h2 : b = i <;> simp [hb, h1, h2] <;> omega
  · have : b ≠ i := by omega
    simp [BitVec.getLsbD_of_ge _ _ (Nat.le_of_not_lt hb), this]

theorem getLsbD_clear32 (x : BitVec 32) (i b : Nat) :
    (x &&& ~~~(1#32 <<< i)).getLsbD b = (x.getLsbD b && !decide (b = i)) := by
  by_cases hb : b < 32
  · simp [hb, shl_one_bit]
  · simp [BitVec.getLsbD_of_ge _ _ (Nat.le_of_not_lt hb)]

theorem getLsbD_set32 (x : BitVec 32) (i b : Nat) (hi : i < 32) :
    (x ||| (1#32 <<< i)).getLsbD b = (x.getLsbD b || decide (b = i)) := by
  by_cases hb : b < 32
  · by_cases h1 : b < i <;> by_cases h2 : b = i <;> simp [hb, h1, h2] <;> omega
  · have : b ≠ i := by omega
    simp [BitVec.getLsbD_of_ge _ _ (Nat.le_of_not_lt hb), this]

theorem getLsbD_one_shl (i b : Nat) (hi : i < 8) :
    (1#8 <<< i).getLsbD b = decide (b = i) := by
  have := getLsbD_set 0#8 i b hi
  simpa using this

/-- AND-fold over a list of indices, read bitwise -/
theorem getLsbD_foldl_and (l : List Nat) (c : Nat → Bool) (f : Nat → BitVec 8) (init : BitVec 8)
    (b : Nat) :
    (l.foldl (fun tmp n => if c n then tmp &&& f n else tmp) init).getLsbD b =
      (init.getLsbD b && l.all (fun n => !c n || (f n).getLsbD b)) := by
  induction l generalizing init with
  | nil => simp
  | cons n l ih =>
    simp only [List.foldl_cons, List.all_cons]
    rw [ih]
    by_cases hc : c n <;> simp [hc, Bool.and_assoc]

/-- OR-fold building a byte from a bit predicate -/
theorem getLsbD_foldl_or (l : List Nat) (f : Nat → Bool) (init : BitVec 8) (b : Nat)
    (hl : ∀ n ∈ l, n < 8) :
    (l.foldl (fun acc n => if f n then acc ||| (1#8 <<< n) else acc) init).getLsbD b =
      (init.getLsbD b || (decide (b ∈ l) && f b)) := by
  induction l generalizing init with
  | nil => simp
  | cons n l ih =>
    simp only [List.foldl_cons]
    rw [ih _ (fun m hm => hl m (List.mem_cons_of_mem _ hm))]
    have hn : n < 8 := hl n List.mem_cons_self
    by_cases hf : f n
    · simp only [hf, if_true, getLsbD_set _ _ _ hn, List.mem_cons]
      by_cases hbn : b = n
      · subst hbn; simp [hf]
      · simp [hbn]
    · simp only [hf, List.mem_cons]
      by_cases hbn : b = n
      · subst hbn; simp [hf]
      · simp [hbn]

end ZxVerif.Bits
