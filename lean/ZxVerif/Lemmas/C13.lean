/-
Predicates and helper lemmas of the C13 property theorems (what "restored" means; the loaded
machine satisfies it).
-/
import ZxVerif.Lemmas.SnaDescribe
namespace ZxVerif.C13
open ZxVerif.Snap

/-- What a 128K round trip must restore, as one predicate: everything SNA carries of the Z80
(`Spec.snaCarried`), border (field and device), the 7FFD latch with its lock and the memory map it
implies, all eight RAM banks, the display's view of banks 5 and 7. -/
def Restored128 (s s' : Machine) : Prop :=
  Spec.absRegs s'.cpu = Spec.snaCarried (Spec.absRegs s.cpu) ∧
  s'.border = s.border ∧ s'.borderDev = s.border ∧
  s'.latch = s.latch ∧ s'.pagingEnabled = s.pagingEnabled ∧
  s'.map3 = s.map3 ∧ s'.map0 = s.map0 ∧ s'.screenBank = s.screenBank ∧
  (∀ n, n < 8 → s'.ram n = s.ram n) ∧ s'.scr 5 = s.ram 5 ∧ s'.scr 7 = s.ram 7

/-- Nothing of the machine that was running before survives in the execution state. -/
def CleanExec (s' : Machine) : Prop :=
  s'.cpu.halted = false ∧ s'.cpu.skipInt = false ∧ s'.cpu.pfx = .none

theorem restored128_of_loaded (fx : Fixes) (s r : Machine) (hs : WF128 s) (hr : r.kind = .k128)
    (hu : fx.unlockOnLoad = true ∨ r.pagingEnabled = true)
    (hh : saveHAlt fx s.cpu = s.cpu.h') (hl : saveLAlt fx s.cpu = s.cpu.l') :
    Restored128 s (loaded128 fx s r) := by
  -- the machine the latch is restored into
  let m1 : Machine := hdrLoaded fx s { r with cpu := r.cpu.resetExec fx }
  let m1' : Machine := { m1 with cpu := { m1.cpu with pc := s.cpu.pc } }
  let m2 := m1'.restore7ffd fx s.latch
  let m3 : Machine := { m2 with ram := fun k => if k < 8 then s.ram k else m2.ram k }
  have hl128 : loaded128 fx s r = m3.refresh := rfl
  obtain ⟨c1, c2, c3, _, c5, _⟩ := restore7ffd_same fx m1' s.latch
  obtain ⟨p1, p2, p3, p4, p5⟩ := restore7ffd_paging fx m1' s.latch hr hu
  obtain ⟨f1, f2, f3, f4, f5, f6, f7, f8, f9, f10⟩ := refresh_same m3
  have hk3 : m3.kind = .k128 := by
    show m2.kind = _
    rw [restore7ffd_kind]; exact hr
  obtain ⟨g5, g7⟩ := refresh_scr128 m3 hk3
  rw [hl128]
  unfold Restored128
  refine ⟨?_, ?_, ?_, ?_, ?_, ?_, ?_, ?_, ?_, ?_, ?_⟩
  · rw [f1]
    show Spec.absRegs m2.cpu = _
    rw [c1]
    simp [m1', m1, hdrLoaded, Spec.absRegs, Spec.snaCarried, hh, hl]
  · rw [f2]; show m2.border = _; rw [c2]; rfl
  · rw [f3]; show m2.borderDev = _; rw [c3]; rfl
  · rw [f5]; exact p1
  · rw [f6]; show m2.pagingEnabled = _; rw [p5, hs.lock]
  · rw [f7]; show m2.map3 = _; rw [p2, hs.map3]
  · rw [f8]; show m2.map0 = _; rw [p3, hs.map0]
  · rw [f9]; show m2.screenBank = _; rw [p4, hs.screen]
  · intro n hn; rw [f4]; simp [m3, hn]
  · rw [g5]; simp [m3]
  · rw [g7]; simp [m3]

/-- execution state of the loaded 128K machine, for every repair setting -/
theorem exec_of_loaded128 (fx : Fixes) (s r : Machine) :
    execState (loaded128 fx s r).cpu = execState (r.cpu.resetExec fx) := by
  obtain ⟨c1, _⟩ := restore7ffd_same fx
    ({ (hdrLoaded fx s { r with cpu := r.cpu.resetExec fx }) with
        cpu := { (hdrLoaded fx s { r with cpu := r.cpu.resetExec fx }).cpu with pc := s.cpu.pc } }) s.latch
  obtain ⟨f1, _⟩ := refresh_same
    ({ (({ (hdrLoaded fx s { r with cpu := r.cpu.resetExec fx }) with
        cpu := { (hdrLoaded fx s { r with cpu := r.cpu.resetExec fx }).cpu with pc := s.cpu.pc } }).restore7ffd fx s.latch) with
      ram := fun k => if k < 8 then s.ram k else
        (({ (hdrLoaded fx s { r with cpu := r.cpu.resetExec fx }) with
        cpu := { (hdrLoaded fx s { r with cpu := r.cpu.resetExec fx }).cpu with pc := s.cpu.pc } }).restore7ffd fx s.latch).ram k })
  unfold loaded128 fin128
  rw [f1]
  show execState (Machine.restore7ffd fx _ s.latch).cpu = _
  rw [c1]
  rfl

/-- What a 48K round trip must restore: the carried Z80 state incl. PC and SP, the border, and
all of RAM except that the two bytes below SP now hold PC (that is how the format keeps PC). -/
def Restored48 (s s' : Machine) : Prop :=
  Spec.absRegs s'.cpu = Spec.snaCarried (Spec.absRegs s.cpu) ∧
  s'.border = s.border ∧ s'.borderDev = s.border ∧
  (∀ k, k < 3 → s'.ram k = s.pushPc.ram k) ∧ s'.scr 0 = s'.ram 0

theorem restored48_of_loaded (fx : Fixes) (s r : Machine) (hs : WF48 s) (hr : r.kind = .k48)
    (hst : stackInRam s) (hh : saveHAlt fx s.cpu = s.cpu.h') (hl : saveLAlt fx s.cpu = s.cpu.l') :
    Restored48 s (loaded48 fx s r) ∧ execState (loaded48 fx s r).cpu = execState (r.cpu.resetExec fx) := by
  let e := s.pushPc
  let m := hdrLoaded fx e { r with cpu := r.cpu.resetExec fx }
  let m' : Machine := { m with ram := fun k => if k ∈ [0, 1, 2] then e.ram k else m.ram k }
  have hl48 : loaded48 fx s r = m'.popPc.refresh := rfl
  have hk' : m'.kind = .k48 := hr
  have hke : e.kind = .k48 := hs.pushPc.kind
  have hram : ∀ k, k < 3 → m'.ram k = e.ram k := by
    intro k hk
    have : k ∈ [0, 1, 2] := by simp; omega
    simp [m', this]
  have hsp : m'.cpu.sp = s.cpu.sp - 2 := by
    show e.cpu.sp = _
    rfl
  obtain ⟨r1, r2, _⟩ := pushPc_read s hs hst
  obtain ⟨a1, a2⟩ := sp_arith s.cpu.sp
  have hread1 : m'.read (s.cpu.sp - 2) = lo s.cpu.pc := by
    rw [read_congr48 m' e hk' hke hram _ hst.2]; exact r1
  have hread2 : m'.read (s.cpu.sp - 2 + 1) = hi s.cpu.pc := by
    rw [a2, read_congr48 m' e hk' hke hram _ hst.1]; exact r2
  obtain ⟨f1, f2, f3, f4, _⟩ := refresh_same m'.popPc
  have hkp : m'.popPc.kind = .k48 := hr
  have ecpu : e.cpu = { s.cpu with sp := s.cpu.sp - 2 } := by
    show { ((s.write _ _).write _ _).cpu with sp := s.cpu.sp - 2 } = _
    rw [write_cpu, write_cpu]
  have ebd : e.border = s.border := by
    show ((s.write _ _).write _ _).border = _
    rw [write_border, write_border]
  rw [hl48]
  refine ⟨⟨?_, ?_, ?_, ?_, ?_⟩, ?_⟩
  · rw [f1]
    unfold Machine.popPc
    simp only [hsp, hread1, hread2, word_lo_hi, a1]
    have hh' : (if fx.hlAlt = true then s.cpu.h' else s.cpu.h) = s.cpu.h' := by simpa [saveHAlt] using hh
    have hl' : (if fx.hlAlt = true then s.cpu.l' else s.cpu.l) = s.cpu.l' := by simpa [saveLAlt] using hl
    simp [m', m, hdrLoaded, ecpu, Spec.absRegs, Spec.snaCarried, saveHAlt, saveLAlt, hh', hl']
  · rw [f2]; exact ebd
  · rw [f3]; exact ebd
  · intro k hk; rw [f4]; exact hram k hk
  · rw [refresh_scr48 _ hkp, f4]
  · rw [f1]; rfl

/-- the 48K machine after `save` in the code as it is: PC was pushed and popped again -/
theorem saveEffect48_none (s : Machine) (h : s.kind = .k48) :
    snaSaveEffect Fixes.none s = s.pushPc.popPc := by
  unfold snaSaveEffect
  rw [h]
  rfl

theorem spec_lo_w16 (l h : Byte) : Spec.lo8 (Spec.w16 l h) = l := lo_word l h
theorem spec_hi_w16 (l h : Byte) : Spec.hi8 (Spec.w16 l h) = h := hi_word l h


end ZxVerif.C13
