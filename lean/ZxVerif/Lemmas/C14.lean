/-
Helper lemmas of the C14 property theorems: the AY chunk spelled out.
-/
import ZxVerif.Lemmas.SnaDescribe
namespace ZxVerif.C14
open ZxVerif.Snap

/-- the machine after the enable/disable step of the AY chunk -/
def ayStep1 (mid : Nat) (d : Bytes) (m : Machine) : Machine :=
  if mid < 2 then { m with ayEnabled := d.getD 0 0 &&& 2 != 0 } else m

theorem ayStep1_chip (mid : Nat) (d : Bytes) (m : Machine) : (ayStep1 mid d m).ayChip = m.ayChip := by
  unfold ayStep1; split <;> rfl

theorem ayStep1_env (mid : Nat) (d : Bytes) (m : Machine) :
    (ayStep1 mid d m).ayEnvAtStart = m.ayEnvAtStart := by
  unfold ayStep1; split <;> rfl

/-- `szxAY` on a full-length chunk, spelled out -/
theorem szxAY_eq (fx : Fixes) (mid : Nat) (d : Bytes) (m : Machine) (hl : d.length = 18) :
    szxAY fx mid d m = some (if (ayStep1 mid d m).ayEnabled
      then ((ayStep1 mid d m).aySelect (d.getD 1 0)).aySetRegs fx (d.drop 2) else ayStep1 mid d m) := by
  unfold szxAY ayStep1
  have h1 : ¬ d.length < 1 := by omega
  have h2 : ¬ d.length < 18 := by omega
  rw [if_neg h1]
  simp only [h2, if_false]
  generalize (if mid < 2 then ({ m with ayEnabled := d.getD 0 0 &&& 2 != 0 } : Machine) else m) = m1
  cases h : m1.ayEnabled <;> simp

theorem aySetRegs_all (m : Machine) (v : Byte) (regs : Bytes) :
    ((m.aySelect v).aySetRegs Fixes.all regs).ayChip = chipProgram m.ayChip regs ∧
    ((m.aySelect v).aySetRegs Fixes.all regs).ayRegs = regs.take 16 ∧
    ((m.aySelect v).aySetRegs Fixes.all regs).aySel = (v &&& 0x0F).toNat ∧
    ((m.aySelect v).aySetRegs Fixes.all regs).ayEnvAtStart = true := by
  simp [Machine.aySetRegs, Machine.aySelect, Fixes.all, envProgram_true]

theorem aySetRegs_none (m : Machine) (v : Byte) (regs : Bytes) :
    ((m.aySelect v).aySetRegs Fixes.none regs).ayChip = m.ayChip ∧
    ((m.aySelect v).aySetRegs Fixes.none regs).ayRegs = regs.take 16 ∧
    ((m.aySelect v).aySetRegs Fixes.none regs).ayEnvAtStart = m.ayEnvAtStart := by
  simp [Machine.aySetRegs, Machine.aySelect, Fixes.none]


end ZxVerif.C14
