/-
Helper lemmas for C16: iteration/trajectory algebra, the single-call invariant of the
`emulate_frames` loop model, fuel bounds, and the closed form of `read_exact`.
-/
import ZxVerif.Spec.Driving
namespace ZxVerif.Driving
open Spec

variable {M : Type}

/-! ### trajectories -/

theorem iter_succ' (f : M → M) (j : Nat) (m : M) : iter f (j + 1) m = f (iter f j m) := by
  induction j generalizing m with
  | zero => rfl
  | succ j ih => rw [iter, ih (f m)]; rfl

theorem iter_add (f : M → M) (a b : Nat) (m : M) : iter f (a + b) m = iter f b (iter f a m) := by
  induction a generalizing m with
  | zero => simp [iter]
  | succ a ih =>
    have : a + 1 + b = (a + b) + 1 := by omega
    rw [this, iter, ih (f m)]; rfl

theorem crossedSum_succ' (mc : Machine M) (j : Nat) (m : M) :
    crossedSum mc (j + 1) m = crossedSum mc j m + mc.crossed (iter mc.step j m) := by
  induction j generalizing m with
  | zero => simp [crossedSum, iter]
  | succ j ih =>
    rw [crossedSum, ih (mc.step m)]
    simp only [crossedSum, iter]
    omega

theorem crossedSum_add (mc : Machine M) (a b : Nat) (m : M) :
    crossedSum mc (a + b) m = crossedSum mc a m + crossedSum mc b (iter mc.step a m) := by
  induction a generalizing m with
  | zero => simp [crossedSum, iter]
  | succ a ih =>
    have : a + 1 + b = (a + b) + 1 := by omega
    rw [this, crossedSum, ih (mc.step m)]
    simp only [crossedSum, iter]
    omega

theorem crossedSumTR_eq (mc : Machine M) (j : Nat) (m : M) (acc : Nat) :
    crossedSumTR mc j m acc = acc + crossedSum mc j m := by
  induction j generalizing m acc with
  | zero => rfl
  | succ j ih => rw [crossedSumTR, ih, crossedSum]; omega

theorem runToFrame_zero (mc : Machine M) (fuel : Nat) (m : M) : runToFrame mc fuel 0 m = some m := by
  cases fuel <;> rfl

/-- If the `(j+1)`-th step is the one with which the `K`-th boundary is passed, `runToFrame K`
is the state after exactly `j+1` steps (given enough fuel). -/
theorem runToFrame_eq_iter (mc : Machine M) :
    ∀ (j : Nat) (m : M) (K fuel : Nat), crossedSum mc j m < K → K ≤ crossedSum mc (j + 1) m →
      j + 1 ≤ fuel → runToFrame mc fuel K m = some (iter mc.step (j + 1) m) := by
  intro j
  induction j with
  | zero =>
    intro m K fuel h1 h2 hf
    simp only [crossedSum, Nat.add_zero] at h1 h2
    obtain ⟨f, rfl⟩ : ∃ f, fuel = f + 1 := ⟨fuel - 1, by omega⟩
    obtain ⟨k, rfl⟩ : ∃ k, K = k + 1 := ⟨K - 1, by omega⟩
    rw [runToFrame]
    have : k + 1 - mc.crossed m = 0 := by omega
    rw [this, runToFrame_zero]; rfl
  | succ j ih =>
    intro m K fuel h1 h2 hf
    obtain ⟨f, rfl⟩ : ∃ f, fuel = f + 1 := ⟨fuel - 1, by omega⟩
    obtain ⟨k, rfl⟩ : ∃ k, K = k + 1 := ⟨K - 1, by omega⟩
    rw [crossedSum] at h1
    rw [crossedSum] at h2
    rw [runToFrame, ih (mc.step m) (k + 1 - mc.crossed m) f (by omega) (by omega) (by omega)]
    rfl

/-! ### one call of the loop -/

/-- what the loop maintains about `passed_frames` at the head of the `'cpu` loop -/
def Pre : Mode → Nat → Prop
  | .frameCount n, passed => passed < n
  | .max, passed => passed = 0

theorem ret_case (mc : Machine M) (mode : Mode) (m : M) (passed steps : Nat) (r : Result M)
    (hm : r.m = mc.step m) (hs : r.steps = steps + 1) (hp : r.passed = passed + mc.crossed m)
    (hx : Pre mode passed → (r.reason = .timeout ∨ r.reason = .completed) → 1 ≤ mc.crossed m) :
    ∃ j, r.steps = steps + j ∧ r.m = iter mc.step j m ∧ (r.reason ≠ .outOfFuel → 1 ≤ j)
      ∧ (∀ n, mode = .frameCount n → r.passed = passed + crossedSum mc j m)
      ∧ (Pre mode passed → (r.reason = .timeout ∨ r.reason = .completed) →
          ∃ j', j = j' + 1 ∧ 1 ≤ mc.crossed (iter mc.step j' m)) :=
  ⟨1, hs, by rw [hm]; rfl, fun _ => Nat.le_refl 1, fun n _ => by rw [hp]; simp [crossedSum],
    fun hP hr => ⟨0, rfl, hx hP hr⟩⟩

/-- Single-call invariant: a call only moves the machine along its own trajectory, by at least
one step; in `FrameCount` mode the counter it reports is the number of boundaries passed; and if
it ends `Completed`/`Timeout` its last step passed a frame boundary. -/
theorem run_traj (mc : Machine M) (c : Call M) :
    ∀ (fuel : Nat) (m : M) (passed : Nat) (sw : List Nat) (steps ms : Nat),
      ∃ j, (run mc c fuel m passed sw steps ms).steps = steps + j
        ∧ (run mc c fuel m passed sw steps ms).m = iter mc.step j m
        ∧ ((run mc c fuel m passed sw steps ms).reason ≠ .outOfFuel → 1 ≤ j)
        ∧ (∀ n, c.mode = .frameCount n →
            (run mc c fuel m passed sw steps ms).passed = passed + crossedSum mc j m)
        ∧ (Pre c.mode passed →
            ((run mc c fuel m passed sw steps ms).reason = .timeout
              ∨ (run mc c fuel m passed sw steps ms).reason = .completed) →
            ∃ j', j = j' + 1 ∧ 1 ≤ mc.crossed (iter mc.step j' m)) := by
  intro fuel
  induction fuel with
  | zero =>
    intro m passed sw steps ms
    refine ⟨0, ?_⟩
    simp [run, iter, crossedSum]
  | succ fuel ih =>
    intro m passed sw steps ms
    -- the three ways to recurse share this step
    have rec_case : ∀ (p' : Nat) (sw' : List Nat) (ms' : Nat),
        (∀ n, c.mode = .frameCount n → p' = passed + mc.crossed m) →
        (Pre c.mode passed → Pre c.mode p') →
        ∃ j, (run mc c fuel (mc.step m) p' sw' (steps + 1) ms').steps = steps + j
          ∧ (run mc c fuel (mc.step m) p' sw' (steps + 1) ms').m = iter mc.step j m
          ∧ ((run mc c fuel (mc.step m) p' sw' (steps + 1) ms').reason ≠ .outOfFuel → 1 ≤ j)
          ∧ (∀ n, c.mode = .frameCount n →
              (run mc c fuel (mc.step m) p' sw' (steps + 1) ms').passed
                = passed + crossedSum mc j m)
          ∧ (Pre c.mode passed →
              ((run mc c fuel (mc.step m) p' sw' (steps + 1) ms').reason = .timeout
                ∨ (run mc c fuel (mc.step m) p' sw' (steps + 1) ms').reason = .completed) →
              ∃ j', j = j' + 1 ∧ 1 ≤ mc.crossed (iter mc.step j' m)) := by
      intro p' sw' ms' hp hpre
      obtain ⟨j, h1, h2, _, h4, h5⟩ := ih (mc.step m) p' sw' (steps + 1) ms'
      refine ⟨j + 1, by omega, by rw [h2]; rfl, by intro _; omega, ?_, ?_⟩
      · intro n hn
        rw [h4 n hn, hp n hn, crossedSum]; omega
      · intro hP hr
        obtain ⟨j', hj', hc⟩ := h5 (hpre hP) hr
        exact ⟨j' + 1, by omega, by simpa [iter] using hc⟩
    rw [run]
    by_cases he : mc.err m = true
    · rw [if_pos he]
      exact ret_case mc c.mode m passed steps _ rfl rfl rfl (by intro _ h; simp at h)
    · rw [if_neg he]
      by_cases hb : c.bp steps (mc.step m) = true
      · rw [if_pos hb]
        exact ret_case mc c.mode m passed steps _ rfl rfl rfl (by intro _ h; simp at h)
      · rw [if_neg hb]
        cases hmode : c.mode with
        | frameCount n =>
          simp only [hmode] at rec_case
          simp only []
          by_cases hn : n ≤ passed + mc.crossed m
          · rw [if_pos hn]
            refine ret_case mc _ m passed steps _ ?_ ?_ ?_ ?_
            · rfl
            · rfl
            · rfl
            · intro hP _
              simp only [Pre] at hP
              omega
          · rw [if_neg hn]
            exact rec_case _ _ _ (by intro _ _; rfl) (by intro _; simp only [Pre]; omega)
        | max =>
          simp only [hmode] at rec_case
          simp only []
          by_cases hp : passed + mc.crossed m ≠ 0
          · rw [if_pos hp]
            by_cases hl : c.limit < (measure sw).1
            · rw [if_pos hl]
              refine ret_case mc _ m passed steps _ ?_ ?_ ?_ ?_
              · rfl
              · rfl
              · rfl
              · intro hP _
                simp only [Pre] at hP
                omega
            · rw [if_neg hl]
              exact rec_case _ _ _ (by intro n h; cases h) (by intro _; simp [Pre])
          · rw [if_neg hp]
            have hz : passed + mc.crossed m = 0 := by omega
            rw [hz]
            exact rec_case _ _ _ (by intro n h; cases h) (by intro _; simp only [Pre])

/-- In `Max` mode (frames shorter than no instruction: `crossed ≤ 1`) the frames of a call can be
read off the stopwatch: every completed frame costs exactly one reading, the return one more. -/
theorem run_max_measures (mc : Machine M) (c : Call M) (hmode : c.mode = .max)
    (h1 : ∀ m, mc.crossed m ≤ 1) :
    ∀ (fuel : Nat) (m : M) (sw : List Nat) (steps ms : Nat),
      ∃ j, (run mc c fuel m 0 sw steps ms).steps = steps + j
        ∧ ((run mc c fuel m 0 sw steps ms).reason = .timeout →
            (run mc c fuel m 0 sw steps ms).measures = ms + crossedSum mc j m + 1)
        ∧ ((run mc c fuel m 0 sw steps ms).reason = .breakpoint →
            (run mc c fuel m 0 sw steps ms).measures + (run mc c fuel m 0 sw steps ms).passed
              = ms + crossedSum mc j m + 1) := by
  intro fuel
  induction fuel with
  | zero =>
    intro m sw steps ms
    exact ⟨0, by simp [run], by simp [run], by simp [run]⟩
  | succ fuel ih =>
    intro m sw steps ms
    have hc := h1 m
    rw [run]
    simp only [hmode, Nat.zero_add]
    by_cases he : mc.err m = true
    · simp only [he, ↓reduceIte]
      exact ⟨1, rfl, by simp, by simp⟩
    · simp only [he, Bool.false_eq_true, ↓reduceIte]
      by_cases hb : c.bp steps (mc.step m) = true
      · simp only [hb, ↓reduceIte]
        exact ⟨1, rfl, by simp, by intro _; simp [crossedSum]; omega⟩
      · simp only [hb, Bool.false_eq_true, ↓reduceIte]
        by_cases hp : mc.crossed m ≠ 0
        · simp only [hp, ne_eq, not_false_eq_true, ↓reduceIte]
          by_cases hl : c.limit < (measure sw).1
          · simp only [hl, ↓reduceIte]
            exact ⟨1, rfl, by intro _; simp [crossedSum]; omega, by simp⟩
          · simp only [hl, ↓reduceIte]
            obtain ⟨j, e1, e2, e3⟩ := ih (mc.step m) (measure sw).2 (steps + 1) (ms + 1)
            refine ⟨j + 1, by omega, ?_, ?_⟩
            · intro h; rw [e2 h, crossedSum]; omega
            · intro h; rw [e3 h, crossedSum]; omega
        · have hz : mc.crossed m = 0 := by omega
          simp only [hz, ne_eq, not_true_eq_false, ↓reduceIte]
          obtain ⟨j, e1, e2, e3⟩ := ih (mc.step m) sw (steps + 1) ms
          refine ⟨j + 1, by omega, ?_, ?_⟩
          · intro h; rw [e2 h, crossedSum]; omega
          · intro h; rw [e3 h, crossedSum]; omega

/-! ### drivings -/

theorem drive_append (mc : Machine M) (cs : List (CallSpec M)) (c : CallSpec M) (m : M) :
    drive mc (cs ++ [c]) m
      = drive mc cs m ++ [emulateFrames mc c.call c.fuel (finalOf m (drive mc cs m)) c.sw] := by
  induction cs generalizing m with
  | nil => simp [drive, finalOf]
  | cons d ds ih => simp [drive, finalOf, ih]

theorem finalOf_append (m : M) (rs : List (Result M)) (r : Result M) :
    finalOf m (rs ++ [r]) = r.m := by
  induction rs generalizing m with
  | nil => rfl
  | cons q qs ih => simp [finalOf, ih]

/-- Whatever the calls were, the machine is on the trajectory of its start state, exactly as many
steps along as the calls executed together. -/
theorem drive_traj (mc : Machine M) (cs : List (CallSpec M)) (m : M) :
    finalOf m (drive mc cs m) = iter mc.step (totalSteps (drive mc cs m)) m := by
  induction cs generalizing m with
  | nil => rfl
  | cons c cs ih =>
    obtain ⟨j, h1, h2, -⟩ := run_traj mc c.call c.fuel m 0 c.sw 0 0
    simp only [drive, finalOf, totalSteps, List.map_cons, List.sum_cons, emulateFrames]
    rw [ih, h2, h1, Nat.zero_add, iter_add]
    rfl

/-! ### fuel -/

/-- "Every step advances time by at least 1 T and a frame has finitely many (`L`) T":
`clock` is the position inside the frame. -/
structure Timed (mc : Machine M) (L : Nat) (clock : M → Nat) (Inv : M → Prop) : Prop where
  inv_step : ∀ m, Inv m → Inv (mc.step m)
  bound : ∀ m, Inv m → clock m < L
  advance : ∀ m, Inv m → clock m + 1 ≤ clock (mc.step m) + L * mc.crossed m
  crossed_le : ∀ m, Inv m → mc.crossed m ≤ 1

theorem run_fuel_frameCount (mc : Machine M) (c : Call M) (n L : Nat) (clock : M → Nat)
    (Inv : M → Prop) (ht : Timed mc L clock Inv) (hmode : c.mode = .frameCount n) :
    ∀ (fuel : Nat) (m : M) (passed : Nat) (sw : List Nat) (steps ms : Nat),
      Inv m → passed < n → (n - passed) * L ≤ fuel + clock m →
      (run mc c fuel m passed sw steps ms).reason ≠ .outOfFuel := by
  intro fuel
  induction fuel with
  | zero =>
    intro m passed sw steps ms hi hp hf
    exfalso
    have hb := ht.bound m hi
    have : 1 * L ≤ (n - passed) * L := Nat.mul_le_mul_right L (by omega)
    omega
  | succ fuel ih =>
    intro m passed sw steps ms hi hp hf
    rw [run]
    simp only [hmode]
    by_cases he : mc.err m = true
    · simp [he]
    · simp only [he, Bool.false_eq_true, ↓reduceIte]
      by_cases hb : c.bp steps (mc.step m) = true
      · simp [hb]
      · simp only [hb, Bool.false_eq_true, ↓reduceIte]
        by_cases hn : n ≤ passed + mc.crossed m
        · simp [hn]
        · simp only [hn, ↓reduceIte]
          apply ih _ _ _ _ _ (ht.inv_step m hi) (by omega)
          have ha := ht.advance m hi
          have hc := ht.crossed_le m hi
          have hc' : mc.crossed m = 0 ∨ mc.crossed m = 1 := by omega
          rcases hc' with h0 | h1
          · rw [h0] at ha ⊢
            simp only [Nat.mul_zero, Nat.add_zero] at ha ⊢
            omega
          · rw [h1] at ha ⊢
            have e : (n - (passed + 1)) * L = (n - passed) * L - L := by
              have : n - (passed + 1) = (n - passed) - 1 := by omega
              rw [this, Nat.sub_mul, Nat.one_mul]
            rw [e]
            simp only [Nat.mul_one] at ha
            omega

theorem run_fuel_max (mc : Machine M) (c : Call M) (L : Nat) (clock : M → Nat)
    (Inv : M → Prop) (ht : Timed mc L clock Inv) (hmode : c.mode = .max) :
    ∀ (fuel : Nat) (m : M) (sw : List Nat) (steps ms k : Nat),
      Inv m → (∃ t, sw[k]? = some t ∧ c.limit < t) → (k + 1) * L ≤ fuel + clock m →
      (run mc c fuel m 0 sw steps ms).reason ≠ .outOfFuel := by
  intro fuel
  induction fuel with
  | zero =>
    intro m sw steps ms k hi _ hf
    exfalso
    have hb := ht.bound m hi
    have : 1 * L ≤ (k + 1) * L := Nat.mul_le_mul_right L (by omega)
    omega
  | succ fuel ih =>
    intro m sw steps ms k hi hk hf
    have ha := ht.advance m hi
    have hc := ht.crossed_le m hi
    rw [run]
    simp only [hmode, Nat.zero_add]
    by_cases he : mc.err m = true
    · simp [he]
    · simp only [he, Bool.false_eq_true, ↓reduceIte]
      by_cases hb : c.bp steps (mc.step m) = true
      · simp [hb]
      · simp only [hb, Bool.false_eq_true, ↓reduceIte]
        by_cases hp : mc.crossed m ≠ 0
        · simp only [hp, ne_eq, not_false_eq_true, ↓reduceIte]
          by_cases hl : c.limit < (measure sw).1
          · simp [hl]
          · simp only [hl, ↓reduceIte]
            obtain ⟨t, hkt, hlt⟩ := hk
            have h1 : mc.crossed m = 1 := by omega
            rw [h1] at ha
            simp only [Nat.mul_one] at ha
            cases sw with
            | nil => simp at hkt
            | cons d ds =>
              cases k with
              | zero =>
                simp only [List.getElem?_cons_zero, Option.some.injEq] at hkt
                simp only [measure] at hl
                omega
              | succ k =>
                simp only [List.getElem?_cons_succ] at hkt
                apply ih _ _ _ _ k (ht.inv_step m hi) ⟨t, by simpa [measure] using hkt, hlt⟩
                have e : (k + 1 + 1) * L = (k + 1) * L + L := by
                  rw [Nat.add_mul, Nat.one_mul]
                omega
        · have hz : mc.crossed m = 0 := by omega
          simp only [hz, ne_eq, not_true_eq_false, ↓reduceIte]
          rw [hz] at ha
          simp only [Nat.mul_zero, Nat.add_zero] at ha
          apply ih _ _ _ _ k (ht.inv_step m hi) hk
          omega

/-! ### `read_exact` -/

theorem Asset.read_eof (a : Asset) (n : Nat) (h : a.data.length ≤ a.pos) :
    a.read n = (if a.eofZero then .ok [] else .error .unexpectedEof,
                { a with chunks := a.chunks.tail }) := by
  simp [Asset.read, h]

theorem Asset.read_data (a : Asset) (n : Nat) (hn : 1 ≤ n) (hp : a.productive)
    (h : a.pos < a.data.length) :
    ∃ k, 1 ≤ k ∧ k ≤ n ∧ k ≤ a.data.length - a.pos ∧
      a.read n = (.ok ((a.data.drop a.pos).take k),
                  { a with chunks := a.chunks.tail, pos := a.pos + k }) := by
  have hnl : ¬ a.data.length ≤ a.pos := by omega
  cases hch : a.chunks with
  | nil =>
    refine ⟨min n (a.data.length - a.pos), by omega, by omega, by omega, ?_⟩
    simp [Asset.read, hnl, hch]
  | cons c cs =>
    have hc : 1 ≤ c := hp c (by simp [hch])
    refine ⟨min (min n (a.data.length - a.pos)) c, by omega, by omega, by omega, ?_⟩
    simp [Asset.read, hnl, hch]

theorem productive_tail (a : Asset) (hp : a.productive) (p : Nat) :
    Asset.productive { a with chunks := a.chunks.tail, pos := p } := by
  intro c hc
  exact hp c (List.mem_of_mem_tail hc)

/-- Closed form of the `read_exact` loop for every productive chunking. -/
theorem readExactGo_spec :
    ∀ (fuel : Nat) (a : Asset) (rem : Nat) (acc : List Byte), a.productive → rem ≤ fuel →
      (readExactGo fuel a rem acc).1
          = ⟨acc ++ (a.data.drop a.pos).take rem,
             if rem ≤ a.data.length - a.pos then .ok else .err .unexpectedEof⟩
        ∧ (readExactGo fuel a rem acc).2.data = a.data
        ∧ (readExactGo fuel a rem acc).2.pos = a.pos + min rem (a.data.length - a.pos)
        ∧ (readExactGo fuel a rem acc).2.eofZero = a.eofZero
        ∧ (readExactGo fuel a rem acc).2.productive := by
  intro fuel
  induction fuel with
  | zero =>
    intro a rem acc hp hr
    have : rem = 0 := by omega
    subst this
    simp [readExactGo, hp]
  | succ fuel ih =>
    intro a rem acc hp hr
    cases rem with
    | zero => simp [readExactGo, hp]
    | succ rem =>
      by_cases hpos : a.data.length ≤ a.pos
      · have hd : a.data.drop a.pos = [] := List.drop_eq_nil_of_le hpos
        have hz : a.data.length - a.pos = 0 := by omega
        rw [readExactGo, Asset.read_eof a _ hpos]
        cases a.eofZero <;> simp [hd, hz] <;>
          first | done | exact productive_tail a hp a.pos
      · obtain ⟨k, hk1, hk2, hk3, hread⟩ :=
          Asset.read_data a (rem + 1) (by omega) hp (by omega)
        have hlen : ((a.data.drop a.pos).take k).length = k := by
          simp [List.length_take, List.length_drop]; omega
        rw [readExactGo, hread]
        simp only [hlen]
        have hk0 : ¬ k = 0 := by omega
        simp only [hk0, if_false]
        obtain ⟨e1, e2, e3, e4, e5⟩ :=
          ih { a with chunks := a.chunks.tail, pos := a.pos + k } (rem + 1 - k)
            (acc ++ (a.data.drop a.pos).take k) (productive_tail a hp _) (by omega)
        refine ⟨?_, e2, ?_, e4, e5⟩
        · rw [e1]
          simp only
          have hsplit : (a.data.drop a.pos).take (rem + 1)
              = (a.data.drop a.pos).take k ++ (a.data.drop (a.pos + k)).take (rem + 1 - k) := by
            have : rem + 1 = k + (rem + 1 - k) := by omega
            rw [this, List.take_add, List.drop_drop]
            first | done | (congr 3 <;> omega)
          rw [hsplit, List.append_assoc]
          congr 1
          have : (rem + 1 - k ≤ a.data.length - (a.pos + k)) ↔ (rem + 1 ≤ a.data.length - a.pos) := by
            omega
          simp only [this]
        · rw [e3]
          simp only
          omega


/-! ### boundary stops, non-interference, same-file relation -/

/-- the call ended because a frame was completed: `Timeout` in `Max` mode, or `Completed` in
`FrameCount(n)` with `n ≥ 1` (`FrameCount(0)` "completes" after one instruction) -/
def AtBoundary (mode : Mode) (reason : Stop) : Prop :=
  (mode = .max ∧ reason = .timeout) ∨ (∃ n, mode = .frameCount n ∧ 1 ≤ n ∧ reason = .completed)

theorem AtBoundary.pre {mode : Mode} {reason : Stop} (h : AtBoundary mode reason) :
    Pre mode 0 ∧ (reason = .timeout ∨ reason = .completed) := by
  rcases h with ⟨hm, hr⟩ | ⟨n, hm, hn, hr⟩
  · subst hm; exact ⟨rfl, Or.inl hr⟩
  · subst hm; exact ⟨hn, Or.inr hr⟩

/-- State = (core, mixer). The machine step, the frame-boundary count and the error flag of the
core do not depend on the mixer component. In the code: `wait_internal` *feeds* the mixer
(`mixer.process(frame_pos)`, `mixer.new_frame()`), `write_io` feeds the beeper, and nothing of the
sample queue, `last_pos`, `last_sample`, volume, `use_ay/use_beeper`, `sound_enabled` or the
resampler state of `AymPrecise` is read back (`read_ay_port` reads the plain register file, which
belongs to the core). The harness checks this dynamically. -/
def NonInterference {C X : Type} (mc : Machine (C × X)) : Prop :=
  ∀ c x x', (mc.step (c, x)).1 = (mc.step (c, x')).1
    ∧ mc.crossed (c, x) = mc.crossed (c, x') ∧ mc.err (c, x) = mc.err (c, x')

/-- the host's breakpoint decision looks at the core only (it is given the PC) -/
def CoreBp {C X : Type} (c : Call (C × X)) : Prop :=
  ∀ i c0 x x', c.bp i (c0, x) = c.bp i (c0, x')

/-- two results agree on everything except the mixer component -/
def CoreEq {C X : Type} (r r' : Result (C × X)) : Prop :=
  r.m.1 = r'.m.1 ∧ r.reason = r'.reason ∧ r.passed = r'.passed ∧ r.sw = r'.sw
    ∧ r.duration = r'.duration ∧ r.steps = r'.steps ∧ r.measures = r'.measures

/-- call-by-call agreement of two drivings on everything except the mixer -/
def CoreEqAll {C X : Type} : List (Result (C × X)) → List (Result (C × X)) → Prop
  | [], [] => True
  | r :: rs, r' :: rs' => CoreEq r r' ∧ CoreEqAll rs rs'
  | _, _ => False

theorem run_core {C X : Type} (mc : Machine (C × X)) (hni : NonInterference mc)
    (c : Call (C × X)) (hbp : CoreBp c) :
    ∀ (fuel : Nat) (m m' : C × X) (passed : Nat) (sw : List Nat) (steps ms : Nat),
      m.1 = m'.1 →
      CoreEq (run mc c fuel m passed sw steps ms) (run mc c fuel m' passed sw steps ms) := by
  intro fuel
  induction fuel with
  | zero =>
    intro m m' passed sw steps ms h
    simp [run, CoreEq, h]
  | succ fuel ih =>
    intro m m' passed sw steps ms h
    obtain ⟨c0, x⟩ := m
    obtain ⟨c0', x'⟩ := m'
    simp only at h
    subst h
    obtain ⟨h1, h2, h3⟩ := hni c0 x x'
    have h4 : c.bp steps (mc.step (c0, x)) = c.bp steps (mc.step (c0, x')) := by
      have e : mc.step (c0, x) = ((mc.step (c0, x')).1, (mc.step (c0, x)).2) := by rw [← h1]
      rw [e]
      exact hbp steps _ _ _
    rw [run, run, h2, h3, h4]
    by_cases he : mc.err (c0, x') = true
    · rw [if_pos he, if_pos he]
      exact ⟨h1, rfl, rfl, rfl, rfl, rfl, rfl⟩
    · rw [if_neg he, if_neg he]
      by_cases hb : c.bp steps (mc.step (c0, x')) = true
      · rw [if_pos hb, if_pos hb]
        exact ⟨h1, rfl, rfl, rfl, rfl, rfl, rfl⟩
      · rw [if_neg hb, if_neg hb]
        cases c.mode with
        | frameCount n =>
          simp only []
          by_cases hn : n ≤ passed + mc.crossed (c0, x')
          · rw [if_pos hn, if_pos hn]
            exact ⟨h1, rfl, rfl, rfl, rfl, rfl, rfl⟩
          · rw [if_neg hn, if_neg hn]
            exact ih _ _ _ _ _ _ h1
        | max =>
          simp only []
          by_cases hp : passed + mc.crossed (c0, x') ≠ 0
          · rw [if_pos hp, if_pos hp]
            by_cases hl : c.limit < (measure sw).1
            · rw [if_pos hl, if_pos hl]
              exact ⟨h1, rfl, rfl, rfl, rfl, rfl, rfl⟩
            · rw [if_neg hl, if_neg hl]
              exact ih _ _ _ _ _ _ h1
          · rw [if_neg hp, if_neg hp]
            exact ih _ _ _ _ _ _ h1

/-- two assets present the same file at the same position (chunking and EOF style may differ) -/
def SameFile (a a' : Asset) : Prop := a.data = a'.data ∧ a.pos = a'.pos

theorem readExact_spec (a : Asset) (n : Nat) (hp : a.productive) :
    (readExact a n).1 = readExactSpec a.data a.pos n
      ∧ (readExact a n).2.data = a.data
      ∧ (readExact a n).2.pos = posAfter a.data a.pos n
      ∧ (readExact a n).2.eofZero = a.eofZero
      ∧ (readExact a n).2.productive := by
  have := readExactGo_spec n a n [] hp (Nat.le_refl n)
  simpa [readExact, readExactSpec, posAfter] using this

theorem seek_sameFile (a a' : Asset) (s : SeekFrom) (h : SameFile a a') :
    (a.seek s).1 = (a'.seek s).1 ∧ SameFile (a.seek s).2 (a'.seek s).2
      ∧ (a.seek s).2.chunks = a.chunks ∧ (a'.seek s).2.chunks = a'.chunks := by
  obtain ⟨hd, hpos⟩ := h
  have e : seekTarget a.data.length a.pos s = seekTarget a'.data.length a'.pos s := by
    rw [hd, hpos]
  unfold Asset.seek
  rw [e]
  by_cases h : seekTarget a'.data.length a'.pos s < 0
  · rw [if_pos h, if_pos h]; exact ⟨rfl, ⟨hd, hpos⟩, rfl, rfl⟩
  · rw [if_neg h, if_neg h]; exact ⟨rfl, ⟨hd, rfl⟩, rfl, rfl⟩

/-! ### small concrete instances used by the non-vacuity examples -/

/-- a toy machine: frame of 20 T, instructions of 4, 7 and 11 T -/
def toy : Machine Toy := toyMachine 20 [4, 7, 11] []

/-- a miniature of `Tap::next_block`: two length bytes, then `min(len,128)` bytes of the block -/
def tapNextBlock : Prog (Option (List Byte)) :=
  .readExact 2 fun r =>
    match r.out, r.data with
    | .ok, [lo, hi] =>
      .readExact (min (lo.toNat + 256 * hi.toNat) 128) fun r2 =>
        .ret (if r2.out = .ok then some r2.data else none)
    | _, _ => .ret none

end ZxVerif.Driving
