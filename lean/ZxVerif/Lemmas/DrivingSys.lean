/-
Helper lemmas for Props/C16Sys.lean: an *upper* bound on the emulated time of one `Spectrum.step`.

`Within n z z'`: if the machine `z` is in a regular state (`C04Sys.Good`) then so is `z'`, it is the
same kind of machine, and at most `28·n` T-states have passed. Every timed primitive of the
Spectrum bus is `Within 1` — a memory-side cycle takes at most 7 clocks + 6 of ULA delay, a port
cycle at most 4 clocks + 4 × 6 of delay (the exact times are `C04Sys.mem_time`/`io_time`) — so by
the graded closure theorem (`Lemmas/Z80Graded.lean`: at most 20 timed bus operations per `emulate`)
one step takes at most 560 T-states, far less than a frame (69888/70908 T).
-/
import ZxVerif.Lemmas.Z80Graded
import ZxVerif.Props.C04Sys
import ZxVerif.Props.C05Sys
import ZxVerif.Lemmas.Driving
namespace ZxVerif.DrivingSys
open ZxVerif.Z80 ZxVerif.Machine ZxVerif.Spectrum ZxVerif.C05
open ZxVerif.C04Sys (Good)

/-- `z'` is `z` at most `n` timed bus operations (of at most 28 T-states each) later -/
def Within (n : Nat) (z z' : ZX) : Prop :=
  Good z.ctl → Good z'.ctl ∧ z'.ctl.kind = z.ctl.kind ∧ total z'.ctl ≤ total z.ctl + 28 * n

theorem within_same {z z' : ZX}
    (h : Good z.ctl → Good z'.ctl ∧ z'.ctl.kind = z.ctl.kind ∧ total z'.ctl = total z.ctl) :
    Within 0 z z' := fun g => by
  obtain ⟨a, b, c⟩ := h g; exact ⟨a, b, by omega⟩

/-- the property's time for a memory-side cycle of at most 7 clocks: at most 13 T-states -/
theorem mem_opTime_le (k : Kind) (latch : BitVec 8) (t : Nat) (a : BitVec 16) (j : Nat) (hj : j ≤ 7) :
    Spec.opTime k latch t (.mem a j) ≤ t + 13 := by
  have := C04.specDelay_le k (t % Spec.frameLen k)
  simp only [Spec.opTime]
  split <;> omega

/-- the property's time for a port cycle: at most 4 + 4·6 T-states -/
theorem io_opTime_le (k : Kind) (latch : BitVec 8) (t : Nat) (p : BitVec 16) :
    Spec.opTime k latch t (.io p) ≤ t + 28 := by
  have hd := fun u => C04.specDelay_le k u
  simp only [Spec.opTime]
  cases Spec.addrContended k latch p <;> cases (p &&& 1 != 0) <;>
    simp only [Spec.ioPattern, List.foldl]
  · have := hd ((t + 1) % Spec.frameLen k); omega
  · omega
  · have h1 := hd (t % Spec.frameLen k)
    have h2 := hd ((t + Spec.specDelay k (t % Spec.frameLen k) + 1) % Spec.frameLen k)
    omega
  · have h1 := hd (t % Spec.frameLen k)
    generalize Spec.specDelay k (t % Spec.frameLen k) = d1 at *
    have h2 := hd ((t + d1 + 1) % Spec.frameLen k)
    generalize Spec.specDelay k ((t + d1 + 1) % Spec.frameLen k) = d2 at *
    have h3 := hd ((t + d1 + 1 + d2 + 1) % Spec.frameLen k)
    generalize Spec.specDelay k ((t + d1 + 1 + d2 + 1) % Spec.frameLen k) = d3 at *
    have h4 := hd ((t + d1 + 1 + d2 + 1 + d3 + 1) % Spec.frameLen k)
    omega

theorem within_mem (a : BitVec 16) (k : Nat) (z z' : ZX) (hk : k ≤ 7)
    (hc : z'.ctl = z.ctl.waitMreq a k) : Within 1 z z' := fun g => by
  obtain ⟨t, g', kd⟩ := C04Sys.mem_time z.ctl a k g hk
  have := mem_opTime_le z.ctl.kind z.ctl.port7ffd (total z.ctl) a k hk
  rw [hc]
  exact ⟨g', kd, by omega⟩

theorem within_io (p : BitVec 16) (z z' : ZX) (d : Ctl → Ctl)
    (hc : z'.ctl = ((d (z.ctl.ioContentionFirst p)).ioContentionLast p).waitInternal 1)
    (hd : ∀ x, Good x → x.kind = z.ctl.kind → x.addrIsContended p = z.ctl.addrIsContended p →
      total (d x) = total x ∧ Good (d x) ∧ (d x).kind = z.ctl.kind ∧
      (d x).addrIsContended p = z.ctl.addrIsContended p) : Within 1 z z' := fun g => by
  obtain ⟨t, g', kd⟩ := C04Sys.io_time z.ctl p d g hd
  have := io_opTime_le z.ctl.kind z.ctl.port7ffd (total z.ctl) p
  rw [hc]
  exact ⟨g', kd, by omega⟩

/-- **Every primitive of the Spectrum bus takes at most 28 T-states** (and keeps `Good`). -/
theorem within_graded : BusGraded 7 Within where
  big := Nat.le_refl 7
  up h hnm g := by
    obtain ⟨a, b, c⟩ := h g
    exact ⟨a, b, by omega⟩
  refl z := within_same fun g => ⟨g, rfl, rfl⟩
  trans := by
    intro n m a b c h1 h2 g
    obtain ⟨g1, k1, t1⟩ := h1 g
    obtain ⟨g2, k2, t2⟩ := h2 g1
    exact ⟨g2, k2.trans k1, by omega⟩
  waitMreq a k z hk := within_mem a k z _ hk rfl
  waitNoMreq a k z hk := within_mem a k z _ hk rfl
  waitInternal k z hk g := by
    obtain ⟨t, g', kd, _, _⟩ := C04Sys.nstep z.ctl k g hk
    refine ⟨g', kd, ?_⟩
    show total (z.ctl.waitInternal k) ≤ _
    omega
  readInternal _ z := within_same fun g => ⟨g, rfl, rfl⟩
  writeInternal a v z := within_same fun g => by
    obtain ⟨g', kd, t⟩ := C04Sys.writeInternal_good z.ctl a v g; exact ⟨g', kd, t⟩
  readIo p z := within_io p z _ id rfl (fun x gx kx cx => ⟨rfl, gx, kx, cx⟩)
  writeIo p v z := by
    by_cases hdec : writeDecode z.cfg p = .paging
    · have hlow := C04Sys.paging_port_low p (C04Sys.paging_decode _ _ hdec)
      refine within_io p z _ (fun x => x.write7ffd v) ?_ (fun x gx kx cx =>
        ⟨C04Sys.write7ffd_total x v, C04Sys.write7ffd_good x v gx, (C04Sys.write7ffd_clock x v).1.trans kx,
         (C04Sys.write7ffd_contended_low x v gx.map p hlow).trans cx⟩)
      show (ZX.writeIo p v z).ctl = _
      rw [C04Sys.writeIo_ctl]; simp only [hdec, if_true]
    · refine within_io p z _ id ?_ (fun x gx kx cx => ⟨rfl, gx, kx, cx⟩)
      show (ZX.writeIo p v z).ctl = _
      rw [C04Sys.writeIo_ctl]; simp only [hdec, if_false]; rfl
  readInterrupt z := within_same fun g => ⟨g, rfl, rfl⟩
  reti z := within_same fun g => ⟨g, rfl, rfl⟩
  halt _ z := within_same fun g => ⟨g, rfl, rfl⟩
  pcCallback _ z := within_same fun g => ⟨g, rfl, rfl⟩

/-- One `cpu.emulate` on the machine, from a regular state: regular again, same machine kind, and
between 4 and 560 T-states later. -/
theorem step_bounds (s : Cpu) (z : ZX) (hg : Good z.ctl) :
    Good (Spectrum.step (s, z)).2.ctl ∧ (Spectrum.step (s, z)).2.ctl.kind = z.ctl.kind ∧
    total z.ctl + 4 ≤ total (Spectrum.step (s, z)).2.ctl ∧
    total (Spectrum.step (s, z)).2.ctl ≤ total z.ctl + 560 := by
  obtain ⟨g, k, t⟩ := within_graded.emulate .hw s z hg
  exact ⟨g, k, C05Sys.step_costs_at_least_4 s z, t⟩

/-- what the two time bounds mean for the frame counter and the in-frame offset: the counter goes up
by 0 or 1, and the offset moves forward by 4..560 T-states modulo the frame length -/
theorem frame_arith {L pf fc pf' fc' : Nat} (hL : 69888 ≤ L) (hfc : fc < L) (hfc' : fc' < L)
    (hlo : pf * L + fc + 4 ≤ pf' * L + fc') (hhi : pf' * L + fc' ≤ pf * L + fc + 560) :
    (pf' = pf ∧ fc + 4 ≤ fc' ∧ fc' ≤ fc + 560) ∨
    (pf' = pf + 1 ∧ fc + 4 ≤ fc' + L ∧ fc' + L ≤ fc + 560) := by
  have h0 : pf ≤ pf' := by
    apply Nat.le_of_not_lt
    intro hlt
    have : (pf' + 1) * L ≤ pf * L := Nat.mul_le_mul_right L hlt
    rw [Nat.add_mul] at this
    omega
  obtain ⟨d, rfl⟩ : ∃ d, pf' = pf + d := ⟨pf' - pf, by omega⟩
  rw [Nat.add_mul] at hlo hhi
  have h2 : d < 2 := by
    apply Nat.lt_of_not_le
    intro hge
    have : 2 * L ≤ d * L := Nat.mul_le_mul_right L hge
    omega
  rcases (by omega : d = 0 ∨ d = 1) with rfl | rfl
  · left; omega
  · right; omega

/-! ### `run_max_measures` relative to an invariant

`Lemmas/Driving.lean` asks `crossed ≤ 1` of *every* state; a concrete machine has it only in its
regular states (a controller whose in-frame offset is far beyond the frame length would pass several
frame ends in one step). Same proof, carrying the invariant along the trajectory. -/

open ZxVerif.Driving ZxVerif.Driving.Spec in
theorem run_max_measures_inv {M : Type} (mc : Machine M) (c : Call M) (hmode : c.mode = .max)
    (Inv : M → Prop) (hstep : ∀ m, Inv m → Inv (mc.step m)) (h1 : ∀ m, Inv m → mc.crossed m ≤ 1) :
    ∀ (fuel : Nat) (m : M) (sw : List Nat) (steps ms : Nat), Inv m →
      ∃ j, (Driving.run mc c fuel m 0 sw steps ms).steps = steps + j
        ∧ ((Driving.run mc c fuel m 0 sw steps ms).reason = .timeout →
            (Driving.run mc c fuel m 0 sw steps ms).measures = ms + crossedSum mc j m + 1)
        ∧ ((Driving.run mc c fuel m 0 sw steps ms).reason = .breakpoint →
            (Driving.run mc c fuel m 0 sw steps ms).measures + (Driving.run mc c fuel m 0 sw steps ms).passed
              = ms + crossedSum mc j m + 1) := by
  intro fuel
  induction fuel with
  | zero =>
    intro m sw steps ms _
    exact ⟨0, by simp [Driving.run], by simp [Driving.run], by simp [Driving.run]⟩
  | succ fuel ih =>
    intro m sw steps ms hi
    have hc := h1 m hi
    have hi' := hstep m hi
    rw [Driving.run]
    simp only [hmode, Nat.zero_add]
    by_cases he : mc.err m = true
    · simp only [he, ↓reduceIte]
      exact ⟨1, rfl, by simp, by simp⟩
    · simp only [he, Bool.false_eq_true, ↓reduceIte]
      by_cases hb : c.bp steps (mc.step m) = true
      · simp only [hb, ↓reduceIte]
        exact ⟨1, rfl, by simp, by intro _; simp [crossedSum]; omega⟩
      · simp only [hb, Bool.false_eq_true, ↓reduceIte]
        by_cases hp : mc.crossed m ≠ 0
        · simp only [hp, ne_eq, not_false_eq_true, ↓reduceIte]
          by_cases hl : c.limit < (measure sw).1
          · simp only [hl, ↓reduceIte]
            exact ⟨1, rfl, by intro _; simp [crossedSum]; omega, by simp⟩
          · simp only [hl, ↓reduceIte]
            obtain ⟨j, e1, e2, e3⟩ := ih (mc.step m) (measure sw).2 (steps + 1) (ms + 1) hi'
            refine ⟨j + 1, by omega, ?_, ?_⟩
            · intro h; rw [e2 h, crossedSum]; omega
            · intro h; rw [e3 h, crossedSum]; omega
        · have hz : mc.crossed m = 0 := by omega
          simp only [hz, ne_eq, not_true_eq_false, ↓reduceIte]
          obtain ⟨j, e1, e2, e3⟩ := ih (mc.step m) sw (steps + 1) ms hi'
          refine ⟨j + 1, by omega, ?_, ?_⟩
          · intro h; rw [e2 h, crossedSum]; omega
          · intro h; rw [e3 h, crossedSum]; omega

/-- On a `Timed` machine the state at frame boundary `K` exists: stepping until `K` frame boundaries
have passed takes at most `K·L` steps. -/
theorem runToFrame_total {M : Type} (mc : Driving.Machine M) (L : Nat) (clock : M → Nat) (Inv : M → Prop)
    (ht : Driving.Timed mc L clock Inv) :
    ∀ (fuel K : Nat) (m : M), Inv m → K * L ≤ fuel + clock m →
      ∃ m', Driving.Spec.runToFrame mc fuel K m = some m' := by
  intro fuel
  induction fuel with
  | zero =>
    intro K m hi hf
    cases K with
    | zero => exact ⟨m, rfl⟩
    | succ K =>
      exfalso
      have hb := ht.bound m hi
      have : 1 * L ≤ (K + 1) * L := Nat.mul_le_mul_right L (by omega)
      omega
  | succ fuel ih =>
    intro K m hi hf
    cases K with
    | zero => exact ⟨m, rfl⟩
    | succ K =>
      rw [Driving.Spec.runToFrame]
      have ha := ht.advance m hi
      have hc := ht.crossed_le m hi
      rw [Nat.add_mul, Nat.one_mul] at hf
      rcases (by omega : mc.crossed m = 0 ∨ mc.crossed m = 1) with h0 | h1
      · rw [h0] at ha ⊢
        simp only [Nat.mul_zero, Nat.add_zero, Nat.sub_zero] at ha ⊢
        apply ih _ _ (ht.inv_step m hi)
        rw [Nat.add_mul, Nat.one_mul]
        omega
      · rw [h1] at ha ⊢
        simp only [Nat.mul_one, Nat.add_sub_cancel] at ha ⊢
        apply ih _ _ (ht.inv_step m hi)
        omega

end ZxVerif.DrivingSys
