/-
Helper definitions and lemmas for Props/C16X.lean (the host loop `emulate_frames` as translated from the
source by tools/extract.py, table HostLoop → ZxVerif/Extracted/HostLoop.lean).

* `Fine`: the loop model's abstract machine (`Driving.Machine`: one `step` = `cpu.emulate` + error test +
  `take_events` + fast loading) resolved into the calls the source makes one after the other, so that their
  *order* is visible: `emulate`, "did it leave an error", "did it raise the fast-load trigger",
  `process_fast_load_event`, "did that fail". `Fine.toMachine` lumps them together again, in the order the
  model documents; every `Machine` is a `Fine` (`Fine.ofMachine`).
* `worldOf`: a `Fine` machine and the host's part of a call (`Driving.Call`: mode, limit, breakpoints) as
  the `World` the extracted interpreter runs on; `toResult` reads a `Driving.Result` off its result.
* one new fact about the model (`Driving.run`): in `FrameCount` mode the stopwatch is read exactly once,
  when the call returns an `EmulationInfo`, and never otherwise (`run_frameCount_measures`).
-/
import ZxVerif.Extracted.HostLoop
import ZxVerif.Lemmas.Driving
namespace ZxVerif.HostLoopL
open ZxVerif.Driving ZxVerif.Driving.Spec
open ZxVerif.Extracted
open ZxVerif.Extracted.HostLoop (World Ctx St Events Program Stmt Act Val Cmp Guarded Flow)

variable {M : Type}

/-- The abstract machine of the loop model, call by call. From the state `m` at the head of the `'cpu` loop:
`emulate m` = the state after `cpu.emulate(&mut controller)`; `emuErr m` = that left
`last_emulation_error` set; `trig m` = it raised `TAPE_FAST_LOAD_TRIGGER_DETECTED`; `fastLoad` /
`fastErr` = `process_fast_load_event` on the state it is given / it returned `Err`; `crossed m` = frame
ends passed during the iteration. -/
structure Fine (M : Type) where
  emulate : M → M
  emuErr : M → Bool
  trig : M → Bool
  fastLoad : M → M
  fastErr : M → Bool
  crossed : M → Nat

/-- One iteration as the loop model sees it (`Model/Driving.lean`, `Machine`): an error left by the CPU step
ends the iteration before the events are looked at; otherwise a raised trigger runs the fast loader. -/
def Fine.toMachine (f : Fine M) : Machine M where
  step m := if f.emuErr m then f.emulate m else if f.trig m then f.fastLoad (f.emulate m) else f.emulate m
  crossed := f.crossed
  err m := f.emuErr m || (f.trig m && f.fastErr (f.emulate m))

/-- every machine of the loop model, seen call by call (no trigger: fast loading is inside `step`) -/
def Fine.ofMachine (mc : Machine M) : Fine M where
  emulate := mc.step
  emuErr := mc.err
  trig _ := false
  fastLoad m := m
  fastErr _ := false
  crossed := mc.crossed

theorem Fine.ofMachine_toMachine (mc : Machine M) : (Fine.ofMachine mc).toMachine = mc := by
  cases mc with
  | mk step crossed err =>
    simp only [Fine.toMachine, Fine.ofMachine, Bool.false_eq_true, ite_self, Bool.false_and, Bool.or_false]

/-- emulator state of the interpreter: the machine, the machine before the last `cpu.emulate` (what the
error flag and the events of that step are functions of), the controller's `passed_frames`, the number of
`cpu.emulate` calls of this call (the host's debugger may count them) -/
structure WS (M : Type) where
  m : M
  prev : M
  passed : Nat
  steps : Nat

/-- the calls of the source on a `Fine` machine driven by the host `c` -/
def worldOf (f : Fine M) (c : Call M) : World (WS M) where
  emulate s := ⟨f.emulate s.m, s.m, s.passed + f.crossed s.m, s.steps + 1⟩
  takeError s := (f.emuErr s.prev, s)
  takeEvents s := (⟨f.trig s.prev, c.bp (s.steps - 1) (f.toMachine.step s.prev)⟩, s)
  fastLoad s := (f.fastErr s.m, { s with m := f.fastLoad s.m })
  framesCount s := s.passed
  resetFrameCounter s := { s with passed := 0 }

def ofMode : Mode → HostLoop.Mode
  | .frameCount n => .frameCount n
  | .max => .max

def ofStop : HostLoop.Stop → Stop
  | .completed => .completed
  | .timeout => .timeout
  | .breakpoint => .breakpoint
  | .error => .error
  | .outOfFuel => .outOfFuel
  | .malformed => .outOfFuel

/-- what `Driving.Result` records, read off the interpreter's result -/
def toResult (r : HostLoop.Result (WS M)) : Result M :=
  ⟨r.st.s.m, ofStop r.stop, r.st.s.passed, r.st.sw, r.duration, r.st.emulates, r.st.measures⟩

def ctxOf (c : Call M) (sw : List Nat) : Ctx := ⟨ofMode c.mode, c.limit, sw⟩

theorem readStopwatch_eq {S : Type} (st : St S) :
    HostLoop.readStopwatch st
      = ((Driving.measure st.sw).1, { st with sw := (Driving.measure st.sw).2, measures := st.measures + 1 }) := by
  cases st with | mk s ev sw ms em => cases sw <;> rfl

@[simp] theorem w_emulate (f : Fine M) (c : Call M) (s : WS M) :
    (worldOf f c).emulate s = ⟨f.emulate s.m, s.m, s.passed + f.crossed s.m, s.steps + 1⟩ := rfl
@[simp] theorem w_takeError (f : Fine M) (c : Call M) (s : WS M) :
    (worldOf f c).takeError s = (f.emuErr s.prev, s) := rfl
@[simp] theorem w_takeEvents (f : Fine M) (c : Call M) (s : WS M) :
    (worldOf f c).takeEvents s = (⟨f.trig s.prev, c.bp (s.steps - 1) (f.toMachine.step s.prev)⟩, s) := rfl
@[simp] theorem w_fastLoad (f : Fine M) (c : Call M) (s : WS M) :
    (worldOf f c).fastLoad s = (f.fastErr s.m, { s with m := f.fastLoad s.m }) := rfl
@[simp] theorem w_framesCount (f : Fine M) (c : Call M) (s : WS M) : (worldOf f c).framesCount s = s.passed := rfl
@[simp] theorem w_reset (f : Fine M) (c : Call M) (s : WS M) :
    (worldOf f c).resetFrameCounter s = { s with passed := 0 } := rfl
@[simp] theorem ctx_mode (c : Call M) (sw : List Nat) : (ctxOf c sw).mode = ofMode c.mode := rfl
@[simp] theorem ctx_limit (c : Call M) (sw : List Nat) : (ctxOf c sw).limit = c.limit := rfl
@[simp] theorem ctx_script (c : Call M) (sw : List Nat) : (ctxOf c sw).script = sw := rfl
@[simp] theorem prog_cpuBody : HostLoop.program.cpuBody = HostLoop.cpuBody := rfl
@[simp] theorem prog_frameTail : HostLoop.program.frameTail = HostLoop.frameTail := rfl
@[simp] theorem prog_frameHead : HostLoop.program.frameHead = HostLoop.frameHead := rfl
@[simp] theorem prog_prologue : HostLoop.program.prologue = HostLoop.prologue := rfl

/-- New fact about the loop model: in `FrameCount` mode the stopwatch is read once, by the return that
builds the `EmulationInfo` (`Completed` or `Breakpoint`), and not at all when the call ends in an error or
the model's fuel runs out; the unread readings and the reported duration follow. -/
theorem run_frameCount_measures (mc : Machine M) (c : Call M) (n : Nat) (hmode : c.mode = .frameCount n) :
    ∀ (fuel : Nat) (m : M) (passed : Nat) (sw : List Nat) (steps ms : Nat),
      ((run mc c fuel m passed sw steps ms).reason = .completed
          ∨ (run mc c fuel m passed sw steps ms).reason = .breakpoint →
        (run mc c fuel m passed sw steps ms).measures = ms + 1
          ∧ (run mc c fuel m passed sw steps ms).sw = (measure sw).2
          ∧ (run mc c fuel m passed sw steps ms).duration = (measure sw).1)
      ∧ ((run mc c fuel m passed sw steps ms).reason = .error
          ∨ (run mc c fuel m passed sw steps ms).reason = .outOfFuel →
        (run mc c fuel m passed sw steps ms).measures = ms
          ∧ (run mc c fuel m passed sw steps ms).sw = sw
          ∧ (run mc c fuel m passed sw steps ms).duration = 0)
      ∧ (run mc c fuel m passed sw steps ms).reason ≠ .timeout := by
  intro fuel
  induction fuel with
  | zero => intro m passed sw steps ms; simp [run]
  | succ fuel ih =>
    intro m passed sw steps ms
    rw [run]
    simp only [hmode]
    by_cases he : mc.err m = true
    · simp [he]
    · simp only [he, Bool.false_eq_true, ↓reduceIte]
      by_cases hb : c.bp steps (mc.step m) = true
      · simp [hb]
      · simp only [hb, Bool.false_eq_true, ↓reduceIte]
        by_cases hn : n ≤ passed + mc.crossed m
        · simp [hn]
        · simp only [hn, ↓reduceIte]
          exact ih _ _ _ _ _

end ZxVerif.HostLoopL
