/-
Helper lemmas for C17: the representation invariant between the three key arrays of the model
and the held-control sets of the spec, and its preservation by every event.
-/
import ZxVerif.Spec.Input
import ZxVerif.Lemmas.Bits
import Std.Tactic.BVDecide
set_option linter.constructorNameAsVariable false
namespace ZxVerif.Input
open ZxVerif.Bits

/-- bit index of a key inside its half-row -/
def ZXKey.bitIdx : ZXKey → Nat
  | .shift | .a | .q | .n1 | .n0 | .p | .enter | .space => 0
  | .z | .s | .w | .n2 | .n9 | .o | .l | .symShift => 1
  | .x | .d | .e | .n3 | .n8 | .i | .k | .m => 2
  | .c | .f | .r | .n4 | .n7 | .u | .j | .n => 3
  | .v | .g | .t | .n5 | .n6 | .y | .h | .b => 4

theorem ZXKey.mask_eq (k : ZXKey) : k.mask = 1#8 <<< k.bitIdx := by cases k <;> decide
theorem ZXKey.bitIdx_lt (k : ZXKey) : k.bitIdx < 8 := by cases k <;> decide
theorem ZXKey.rowId_lt (k : ZXKey) : k.rowId < 8 := by cases k <;> decide

theorem keyAt_self (k : ZXKey) : Spec.keyAt k.rowId k.bitIdx = some k := by cases k <;> rfl

theorem keyAt_inv {r b : Nat} {k : ZXKey} (h : Spec.keyAt r b = some k) :
    k.rowId = r ∧ k.bitIdx = b := by
  unfold Spec.keyAt at h
  split at h <;> first | (cases h; exact ⟨by decide, by decide⟩) | (exact absurd h (by simp))

def CompoundKey.idx : CompoundKey → Nat
  | .arrowLeft => 0 | .arrowRight => 1 | .arrowUp => 2 | .arrowDown => 3
  | .capsLock => 4 | .delete => 5 | .break_ => 6

theorem CompoundKey.modifierMask_eq (c : CompoundKey) : c.modifierMask = 1#32 <<< c.idx := by
  cases c <;> decide
theorem CompoundKey.idx_lt (c : CompoundKey) : c.idx < 32 := by cases c <;> decide
theorem CompoundKey.idx_inj {c c' : CompoundKey} (h : c.idx = c'.idx) : c = c' := by
  cases c <;> cases c' <;> first | rfl | (exact absurd h (by decide))
theorem CompoundKey.primary_inj {c c' : CompoundKey} (h : c.primaryKey = c'.primaryKey) : c = c' := by
  cases c <;> cases c' <;> first | rfl | (exact absurd h (by decide))
theorem CompoundKey.primary_ne_shift (c : CompoundKey) : c.primaryKey ≠ .shift := by
  cases c <;> decide
theorem CompoundKey.mem_all (c : CompoundKey) : c ∈ CompoundKey.all := by cases c <;> decide
theorem JoyNum.mem_all (c : JoyNum) : c ∈ JoyNum.all := by cases c <;> decide
theorem SinclairKey.mem_all (c : SinclairKey) : c ∈ SinclairKey.all := by cases c <;> decide
theorem KempstonKey.mem_all (c : KempstonKey) : c ∈ KempstonKey.all := by cases c <;> decide
theorem MouseButton.mem_all (c : MouseButton) : c ∈ MouseButton.all := by cases c <;> decide

theorem Spec.sinclairMap_inj {n n' : JoyNum} {k k' : SinclairKey}
    (h : Spec.sinclairMap n k = Spec.sinclairMap n' k') : n = n' ∧ k = k' := by
  cases n <;> cases n' <;> cases k <;> cases k' <;>
    first | exact ⟨rfl, rfl⟩ | (exact absurd h (by decide))

/-- An array of eight half-row bytes represents the set `P` of held matrix positions:
a bit reads 0 exactly when the key sitting there is in `P`; positions without a key read 1. -/
def RowsRep (arr : Nat → BitVec 8) (P : ZXKey → Prop) : Prop :=
  ∀ r b, b < 8 → ((arr r).getLsbD b = false ↔ ∃ k, Spec.keyAt r b = some k ∧ P k)

theorem getLsbD_ff (b : Nat) (hb : b < 8) : (0xFF : BitVec 8).getLsbD b = true := by
  have : b = 0 ∨ b = 1 ∨ b = 2 ∨ b = 3 ∨ b = 4 ∨ b = 5 ∨ b = 6 ∨ b = 7 := by omega
  rcases this with h | h | h | h | h | h | h | h <;> subst h <;> decide

theorem RowsRep.init : RowsRep (fun _ => 0xFF) (fun _ => False) := by
  intro r b hb
  have := getLsbD_ff b hb
  simp only [this, Bool.true_eq_false, and_false, exists_false]

/-- pressing `k` (clearing its bit) adds `k` to the represented set -/
theorem RowsRep.press {arr P} (h : RowsRep arr P) (k : ZXKey) :
    RowsRep (upd arr k.rowId (arr k.rowId &&& ~~~k.mask)) (fun k' => k' = k ∨ P k') := by
  intro r b hb
  unfold upd
  by_cases hr : r = k.rowId
  · subst hr
    simp only [if_true, ZXKey.mask_eq, getLsbD_clear]
    by_cases hbk : b = k.bitIdx
    · subst hbk
      simp only [decide_true, Bool.not_true, Bool.and_false, true_iff]
      exact ⟨k, keyAt_self k, Or.inl rfl⟩
    · simp only [hbk, decide_false, Bool.not_false, Bool.and_true]
      rw [h _ _ hb]
      constructor
      · rintro ⟨k', hk', hp⟩; exact ⟨k', hk', Or.inr hp⟩
      · rintro ⟨k', hk', hp⟩
        rcases hp with rfl | hp
        · exact absurd (keyAt_inv hk').2.symm hbk
        · exact ⟨k', hk', hp⟩
  · simp only [hr, if_false]
    rw [h _ _ hb]
    constructor
    · rintro ⟨k', hk', hp⟩; exact ⟨k', hk', Or.inr hp⟩
    · rintro ⟨k', hk', hp⟩
      rcases hp with rfl | hp
      · exact absurd (keyAt_inv hk').1.symm hr
      · exact ⟨k', hk', hp⟩

/-- releasing `k` (setting its bit) removes `k` from the represented set -/
theorem RowsRep.release {arr P} (h : RowsRep arr P) (k : ZXKey) :
    RowsRep (upd arr k.rowId (arr k.rowId ||| k.mask)) (fun k' => k' ≠ k ∧ P k') := by
  intro r b hb
  unfold upd
  by_cases hr : r = k.rowId
  · subst hr
    simp only [if_true, ZXKey.mask_eq, getLsbD_set _ _ _ k.bitIdx_lt]
    by_cases hbk : b = k.bitIdx
    · subst hbk
      simp only [decide_true, Bool.or_true, Bool.true_eq_false, false_iff]
      rintro ⟨k', hk', hne, _⟩
      rw [keyAt_self] at hk'
      exact hne (Option.some.inj hk').symm
    · simp only [hbk, decide_false, Bool.or_false]
      rw [h _ _ hb]
      constructor
      · rintro ⟨k', hk', hp⟩
        refine ⟨k', hk', ?_, hp⟩
        rintro rfl
        exact hbk (keyAt_inv hk').2.symm
      · rintro ⟨k', hk', _, hp⟩; exact ⟨k', hk', hp⟩
  · simp only [hr, if_false]
    rw [h _ _ hb]
    constructor
    · rintro ⟨k', hk', hp⟩
      refine ⟨k', hk', ?_, hp⟩
      rintro rfl
      exact hr (keyAt_inv hk').1.symm
    · rintro ⟨k', hk', _, hp⟩; exact ⟨k', hk', hp⟩

theorem RowsRep.congr {arr P Q} (h : RowsRep arr P) (hpq : ∀ k, P k ↔ Q k) : RowsRep arr Q := by
  intro r b hb
  rw [h r b hb]
  constructor
  · rintro ⟨k, hk, hp⟩; exact ⟨k, hk, (hpq k).1 hp⟩
  · rintro ⟨k, hk, hp⟩; exact ⟨k, hk, (hpq k).2 hp⟩

/-! ### The invariant between model state and held sets -/

def heldCompoundAt (h : Spec.Held) (k : ZXKey) : Prop :=
  (∃ c, h.compound c = true ∧ c.primaryKey = k) ∨ (k = .shift ∧ ∃ c, h.compound c = true)

def heldSinclairAt (h : Spec.Held) (k : ZXKey) : Prop :=
  ∃ n sk, h.sinclair n sk = true ∧ Spec.sinclairMap n sk = k

structure MouseRel (m : Mouse) (h : Spec.Held) : Prop where
  btn : ∀ b, b < 4 → (m.buttons.getLsbD b = false ↔ ∃ mb, h.buttons mb = true ∧ mb.bit.getLsbD b = true)
  wheel : m.buttons &&& (0xF0 : BitVec 8) = (BitVec.ofInt 8 (15 + h.wheel)) <<< 4
  x : m.x = BitVec.ofInt 8 (255 + h.dx)
  y : m.y = BitVec.ofInt 8 (255 - h.dy)

structure Rel (s : Kbd) (h : Spec.Held) : Prop where
  kb : RowsRep s.keyboard (fun k => h.keys k = true)
  sn : RowsRep s.sinclair (heldSinclairAt h)
  ex : RowsRep s.extended (heldCompoundAt h)
  caps : ∀ i, s.capsMask.getLsbD i = true ↔ ∃ c, c.idx = i ∧ h.compound c = true
  kemp : ∀ st, s.kempston = some st →
    ∀ b, (st.getLsbD b = true ↔ ∃ k, h.kempston k = true ∧ k.bit.getLsbD b = true)
  mouse : ∀ m, s.mouse = some m → MouseRel m h

theorem Rel.init (ke mo : Bool) : Rel (Kbd.init ke mo) {} := by
  refine ⟨?_, ?_, ?_, ?_, ?_, ?_⟩
  · exact RowsRep.init.congr (by simp)
  · exact RowsRep.init.congr (by simp [heldSinclairAt])
  · exact RowsRep.init.congr (by simp [heldCompoundAt])
  · intro i; simp [Kbd.init]
  · intro st hst b
    cases ke <;> simp [Kbd.init] at hst
    subst hst; simp
  · intro m hm
    cases mo <;> simp [Kbd.init] at hm
    subst hm
    refine ⟨?_, by decide, by decide, by decide⟩
    intro b hb
    have : b = 0 ∨ b = 1 ∨ b = 2 ∨ b = 3 := by omega
    rcases this with h | h | h | h <;> subst h <;> simp <;> decide

theorem capsMask_eq_zero_iff {s h} (hr : Rel s h) : s.capsMask = 0 ↔ ∀ c, h.compound c = false := by
  constructor
  · intro h0 c
    have := (hr.caps c.idx).2
    rw [h0] at this
    cases hc : h.compound c
    · rfl
    · exact absurd (this ⟨c, rfl, hc⟩) (by simp)
  · intro hall
    apply BitVec.eq_of_getLsbD_eq
    intro i _
    cases hb : s.capsMask.getLsbD i
    · simp
    · obtain ⟨c, _, hc⟩ := (hr.caps i).1 hb
      rw [hall c] at hc; cases hc

theorem Rel.key {s h} (hr : Rel s h) (k : ZXKey) (p : Bool) :
    Rel (sendKey s k p) (h.step (.key k p)) := by
  have hkb : RowsRep (sendKey s k p).keyboard (fun k' => (h.step (.key k p)).keys k' = true) := by
    cases p
    · simp only [sendKey, Spec.Held.step]
      refine (hr.kb.release k).congr ?_
      intro k'; by_cases hk : k' = k <;> simp [hk]
    · simp only [sendKey, Spec.Held.step]
      refine (hr.kb.press k).congr ?_
      intro k'; by_cases hk : k' = k <;> simp [hk]
  refine ⟨hkb, ?_, ?_, ?_, ?_, ?_⟩ <;> cases p
  all_goals first
    | exact hr.sn | exact hr.ex | exact hr.caps | exact hr.kemp
    | (intro m hm; exact ⟨(hr.mouse m hm).btn, (hr.mouse m hm).wheel, (hr.mouse m hm).x, (hr.mouse m hm).y⟩)

theorem Rel.sinclair {s h} (hr : Rel s h) (n : JoyNum) (sk : SinclairKey) (p : Bool) :
    Rel (sendSinclair Spec.sinclairMap s n sk p) (h.step (.sinclair n sk p)) := by
  have hsn : RowsRep (sendSinclair Spec.sinclairMap s n sk p).sinclair
      (heldSinclairAt (h.step (.sinclair n sk p))) := by
    cases p
    · simp only [sendSinclair, Spec.Held.step]
      refine (hr.sn.release _).congr ?_
      intro k'
      simp only [heldSinclairAt]
      constructor
      · rintro ⟨hne, n', sk', hh, hm⟩
        refine ⟨n', sk', ?_, hm⟩
        have : ¬ (n' = n ∧ sk' = sk) := by
          rintro ⟨rfl, rfl⟩; exact hne hm.symm
        simp [this, hh]
      · rintro ⟨n', sk', hh, hm⟩
        by_cases hc : n' = n ∧ sk' = sk
        · simp [hc] at hh
        · simp [hc] at hh
          refine ⟨?_, n', sk', hh, hm⟩
          rintro rfl
          exact hc (Spec.sinclairMap_inj hm)
    · simp only [sendSinclair, Spec.Held.step]
      refine (hr.sn.press _).congr ?_
      intro k'
      simp only [heldSinclairAt]
      constructor
      · rintro (rfl | ⟨n', sk', hh, hm⟩)
        · exact ⟨n, sk, by simp, rfl⟩
        · refine ⟨n', sk', ?_, hm⟩
          by_cases hc : n' = n ∧ sk' = sk <;> simp [hc, hh]
      · rintro ⟨n', sk', hh, hm⟩
        by_cases hc : n' = n ∧ sk' = sk
        · left; rw [← hm, hc.1, hc.2]
        · right; simp [hc] at hh; exact ⟨n', sk', hh, hm⟩
  refine ⟨?_, hsn, ?_, ?_, ?_, ?_⟩ <;> cases p
  all_goals first
    | exact hr.kb | exact hr.ex | exact hr.caps | exact hr.kemp
    | (intro m hm; exact ⟨(hr.mouse m hm).btn, (hr.mouse m hm).wheel, (hr.mouse m hm).x, (hr.mouse m hm).y⟩)

theorem caps_zero_iff {m : BitVec 32} {comp : CompoundKey → Bool}
    (hc : ∀ i, m.getLsbD i = true ↔ ∃ c, c.idx = i ∧ comp c = true) :
    m = 0 ↔ ∀ c, comp c = false := by
  constructor
  · intro h0 c
    have := (hc c.idx).2
    rw [h0] at this
    cases hcc : comp c
    · rfl
    · exact absurd (this ⟨c, rfl, hcc⟩) (by simp)
  · intro hall
    apply BitVec.eq_of_getLsbD_eq
    intro i _
    cases hb : m.getLsbD i
    · simp
    · obtain ⟨c, _, hcc⟩ := (hc i).1 hb
      rw [hall c] at hcc; cases hcc

theorem Rel.compound {s h} (hr : Rel s h) (c : CompoundKey) (p : Bool) :
    Rel (sendCompound s c p) (h.step (.compound c p)) := by
  -- the modifier-mask invariant first: the release branch needs it for the new state
  have hcaps : ∀ i, (sendCompound s c p).capsMask.getLsbD i = true ↔
      ∃ c', c'.idx = i ∧ (h.step (.compound c p)).compound c' = true := by
    intro i
    cases p
    · simp only [sendCompound, Spec.Held.step, CompoundKey.modifierMask_eq]
      simp only [Bool.false_eq_true, if_false]
      rw [getLsbD_clear32]
      simp only [Bool.and_eq_true, Bool.not_eq_true', decide_eq_false_iff_not]
      rw [hr.caps i]
      constructor
      · rintro ⟨⟨c', hi, hc'⟩, hne⟩
        refine ⟨c', hi, ?_⟩
        have : c' ≠ c := by rintro rfl; exact hne hi.symm
        simp [this, hc']
      · rintro ⟨c', hi, hc'⟩
        by_cases hcc : c' = c
        · simp [hcc] at hc'
        · simp [hcc] at hc'
          refine ⟨⟨c', hi, hc'⟩, ?_⟩
          rintro rfl
          exact hcc (CompoundKey.idx_inj hi)
    · simp only [sendCompound, Spec.Held.step, CompoundKey.modifierMask_eq]
      simp only [if_true]
      rw [getLsbD_set32 _ _ _ c.idx_lt]
      simp only [Bool.or_eq_true, decide_eq_true_eq]
      rw [hr.caps i]
      constructor
      · rintro (⟨c', hi, hc'⟩ | hi)
        · refine ⟨c', hi, ?_⟩
          by_cases hcc : c' = c <;> simp [hcc, hc']
        · exact ⟨c, hi.symm, by simp⟩
      · rintro ⟨c', hi, hc'⟩
        by_cases hcc : c' = c
        · right; rw [← hi, hcc]
        · left; simp [hcc] at hc'; exact ⟨c', hi, hc'⟩
  have hex : RowsRep (sendCompound s c p).extended (heldCompoundAt (h.step (.compound c p))) := by
    cases p
    · -- release
      have hz := caps_zero_iff hcaps
      simp only [sendCompound, Bool.false_eq_true, if_false] at hz ⊢
      by_cases hm : s.capsMask &&& ~~~c.modifierMask = 0
      · simp only [hm, if_true, CompoundKey.modifierKey]
        have hall := hz.1 hm
        refine ((hr.ex.release ZXKey.shift).release c.primaryKey).congr ?_
        intro k
        constructor
        · rintro ⟨hk1, hk2, hh⟩
          exfalso
          rcases hh with ⟨c', hc', hp⟩ | ⟨hs, _⟩
          · have hcc : c' = c := by
              by_cases hcc : c' = c
              · exact hcc
              · have := hall c'
                simp [Spec.Held.step, hcc, hc'] at this
            exact hk1 (by rw [← hp, hcc])
          · exact hk2 hs
        · intro hh
          exfalso
          rcases hh with ⟨c', hc', _⟩ | ⟨_, c', hc'⟩ <;> (rw [hall c'] at hc'; cases hc')
      · simp only [hm, if_false]
        have hsome : ∃ c'', (h.step (.compound c false)).compound c'' = true := by
          apply Classical.byContradiction
          intro hno
          apply hm
          apply hz.2
          intro c'
          cases hc' : (h.step (.compound c false)).compound c'
          · rfl
          · exact absurd ⟨c', hc'⟩ hno
        refine (hr.ex.release c.primaryKey).congr ?_
        intro k
        simp only [heldCompoundAt, Spec.Held.step] at hsome ⊢
        constructor
        · rintro ⟨hk1, hh⟩
          rcases hh with ⟨c', hc', hp⟩ | ⟨hs, _⟩
          · left
            refine ⟨c', ?_, hp⟩
            have : c' ≠ c := by rintro rfl; exact hk1 hp.symm
            simp [this, hc']
          · right; exact ⟨hs, hsome⟩
        · intro hh
          rcases hh with ⟨c', hc', hp⟩ | ⟨hs, c', hc'⟩
          · by_cases hcc : c' = c
            · simp [hcc] at hc'
            · simp [hcc] at hc'
              refine ⟨?_, Or.inl ⟨c', hc', hp⟩⟩
              rintro rfl
              exact hcc (CompoundKey.primary_inj hp)
          · by_cases hcc : c' = c
            · simp [hcc] at hc'
            · simp [hcc] at hc'
              refine ⟨?_, Or.inr ⟨hs, c', hc'⟩⟩
              rw [hs]; exact (CompoundKey.primary_ne_shift c).symm
    · -- press
      simp only [sendCompound, if_true, CompoundKey.modifierKey]
      refine ((hr.ex.press c.primaryKey).press ZXKey.shift).congr ?_
      intro k
      simp only [heldCompoundAt, Spec.Held.step]
      constructor
      · rintro (rfl | rfl | hh)
        · right; exact ⟨rfl, c, by simp⟩
        · left; exact ⟨c, by simp, rfl⟩
        · rcases hh with ⟨c', hc', hp⟩ | ⟨hs, c', hc'⟩
          · left; refine ⟨c', ?_, hp⟩; by_cases hcc : c' = c <;> simp [hcc, hc']
          · right; refine ⟨hs, c', ?_⟩; by_cases hcc : c' = c <;> simp [hcc, hc']
      · rintro (⟨c', hc', hp⟩ | ⟨hs, _⟩)
        · by_cases hcc : c' = c
          · right; left; rw [← hp, hcc]
          · simp [hcc] at hc'; right; right; left; exact ⟨c', hc', hp⟩
        · left; exact hs
  refine ⟨?_, ?_, hex, hcaps, ?_, ?_⟩ <;> cases p
  all_goals first
    | exact hr.kb | exact hr.sn | exact hr.kemp
    | (intro m hm; exact ⟨(hr.mouse m hm).btn, (hr.mouse m hm).wheel, (hr.mouse m hm).x, (hr.mouse m hm).y⟩)

def KempstonKey.idx : KempstonKey → Nat
  | .right => 0 | .left => 1 | .down => 2 | .up => 3 | .fire => 4 | .ext1 => 5 | .ext2 => 6 | .ext3 => 7

theorem KempstonKey.bit_eq (k : KempstonKey) : k.bit = 1#8 <<< k.idx := by cases k <;> decide
theorem KempstonKey.idx_lt (k : KempstonKey) : k.idx < 8 := by cases k <;> decide
theorem KempstonKey.idx_inj {k k' : KempstonKey} (h : k.idx = k'.idx) : k = k' := by
  cases k <;> cases k' <;> first | rfl | (exact absurd h (by decide))
theorem KempstonKey.bit_getLsbD (k : KempstonKey) (b : Nat) : k.bit.getLsbD b = decide (b = k.idx) := by
  rw [k.bit_eq, getLsbD_one_shl _ _ k.idx_lt]

def MouseButton.idx : MouseButton → Nat
  | .left => 0 | .right => 1 | .middle => 2 | .additional => 3

theorem MouseButton.bit_eq (k : MouseButton) : k.bit = 1#8 <<< k.idx := by cases k <;> decide
theorem MouseButton.idx_lt (k : MouseButton) : k.idx < 4 := by cases k <;> decide
theorem MouseButton.idx_inj {k k' : MouseButton} (h : k.idx = k'.idx) : k = k' := by
  cases k <;> cases k' <;> first | rfl | (exact absurd h (by decide))
theorem MouseButton.bit_getLsbD (k : MouseButton) (b : Nat) : k.bit.getLsbD b = decide (b = k.idx) := by
  rw [k.bit_eq, getLsbD_one_shl _ _ (by have := k.idx_lt; omega)]

theorem Rel.kempston {s h} (hr : Rel s h) (k : KempstonKey) (p : Bool) :
    Rel (sendKempston s k p) (h.step (.kempston k p)) := by
  have hk : ∀ st, (sendKempston s k p).kempston = some st → ∀ b,
      (st.getLsbD b = true ↔ ∃ k', (h.step (.kempston k p)).kempston k' = true ∧ k'.bit.getLsbD b = true) := by
    intro st hst b
    unfold sendKempston at hst
    cases hs : s.kempston with
    | none => simp [hs] at hst
    | some st0 =>
      simp only [hs] at hst
      have hst := (Option.some.inj hst).symm
      have h0 := hr.kemp st0 hs b
      simp only [KempstonKey.bit_getLsbD, decide_eq_true_eq] at h0 ⊢
      simp only [Spec.Held.step]
      cases p
      · simp only [Bool.false_eq_true, if_false] at hst
        rw [hst, k.bit_eq, getLsbD_clear]
        simp only [Bool.and_eq_true, Bool.not_eq_true', decide_eq_false_iff_not]
        rw [h0]
        constructor
        · rintro ⟨⟨k', hk', hb⟩, hne⟩
          refine ⟨k', ?_, hb⟩
          have : k' ≠ k := by rintro rfl; exact hne hb
          simp [this, hk']
        · rintro ⟨k', hk', hb⟩
          by_cases hkk : k' = k
          · simp [hkk] at hk'
          · simp [hkk] at hk'
            refine ⟨⟨k', hk', hb⟩, ?_⟩
            intro hbk
            exact hkk (KempstonKey.idx_inj (hb.symm.trans hbk))
      · simp only [if_true] at hst
        rw [hst, k.bit_eq, getLsbD_set _ _ _ k.idx_lt]
        simp only [Bool.or_eq_true, decide_eq_true_eq]
        rw [h0]
        constructor
        · rintro (⟨k', hk', hb⟩ | hb)
          · refine ⟨k', ?_, hb⟩
            by_cases hkk : k' = k <;> simp [hkk, hk']
          · exact ⟨k, by simp, hb⟩
        · rintro ⟨k', hk', hb⟩
          by_cases hkk : k' = k
          · right; rw [hb, hkk]
          · left; simp [hkk] at hk'; exact ⟨k', hk', hb⟩
  have hfields : (sendKempston s k p).keyboard = s.keyboard ∧ (sendKempston s k p).sinclair = s.sinclair
      ∧ (sendKempston s k p).extended = s.extended ∧ (sendKempston s k p).capsMask = s.capsMask
      ∧ (sendKempston s k p).mouse = s.mouse := by
    unfold sendKempston; cases s.kempston <;> simp
  obtain ⟨h1, h2, h3, h4, h5⟩ := hfields
  refine ⟨?_, ?_, ?_, ?_, hk, ?_⟩
  · rw [h1]; exact hr.kb
  · rw [h2]; exact hr.sn
  · rw [h3]; exact hr.ex
  · rw [h4]; exact hr.caps
  · rw [h5]; intro m hm
    exact ⟨(hr.mouse m hm).btn, (hr.mouse m hm).wheel, (hr.mouse m hm).x, (hr.mouse m hm).y⟩

/-! ### Mouse -/

theorem wheel_bv (b W d : BitVec 8) (h : b &&& (0xF0 : BitVec 8) = W <<< 4) :
    ((b &&& ~~~(0xF0 : BitVec 8)) ||| (((((b &&& (0xF0 : BitVec 8)) >>> 4) + d) <<< 4) &&& (0xF0 : BitVec 8))) &&& (0xF0 : BitVec 8)
      = (W + d) <<< 4 := by
  bv_decide

theorem wheel_low (b X : BitVec 8) :
    ((b &&& ~~~(0xF0 : BitVec 8)) ||| (X &&& (0xF0 : BitVec 8))) &&& (0x0F : BitVec 8) = b &&& (0x0F : BitVec 8) := by
  bv_decide

theorem low_nibble_bit (a b : BitVec 8) (h : a &&& (0x0F : BitVec 8) = b &&& (0x0F : BitVec 8)) (i : Nat) (hi : i < 4) :
    a.getLsbD i = b.getLsbD i := by
  have h2 : (a &&& (0x0F : BitVec 8)).getLsbD i = (b &&& (0x0F : BitVec 8)).getLsbD i := by rw [h]
  have : i = 0 ∨ i = 1 ∨ i = 2 ∨ i = 3 := by omega
  rcases this with h | h | h | h <;> subst h <;> simpa using h2

theorem high_nibble_keep (b m : BitVec 8) (hm : m &&& (0xF0 : BitVec 8) = 0) :
    ((b &&& ~~~m) &&& (0xF0 : BitVec 8) = b &&& (0xF0 : BitVec 8)) ∧ ((b ||| m) &&& (0xF0 : BitVec 8) = b &&& (0xF0 : BitVec 8)) := by
  constructor <;> bv_decide

theorem MouseButton.bit_high (k : MouseButton) : k.bit &&& (0xF0 : BitVec 8) = 0 := by cases k <;> decide

theorem move_x (x dx : BitVec 8) :
    ((x.zeroExtend 16) + (dx.signExtend 16)).truncate 8 = x + dx := by bv_decide
theorem move_y (y dy : BitVec 8) :
    ((y.zeroExtend 16) - (dy.signExtend 16)).truncate 8 = y - dy := by bv_decide

theorem ofInt_add_toInt (a : Int) (d : BitVec 8) :
    BitVec.ofInt 8 (a + d.toInt) = BitVec.ofInt 8 a + d := by
  rw [BitVec.ofInt_add, BitVec.ofInt_toInt]

theorem ofInt_sub_toInt (a : Int) (d : BitVec 8) :
    BitVec.ofInt 8 (a - d.toInt) = BitVec.ofInt 8 a - d := by
  rw [Int.sub_eq_add_neg, BitVec.ofInt_add, BitVec.ofInt_neg, BitVec.ofInt_toInt, BitVec.sub_eq_add_neg]

theorem MouseRel.onButton {m h} (hr : MouseRel m h) (k : MouseButton) (p : Bool) :
    MouseRel (m.sendButton k p) (h.step (.mouseButton k p)) := by
  refine ⟨?_, ?_, ?_, ?_⟩
  · intro b hb
    have h0 := hr.btn b hb
    simp only [MouseButton.bit_getLsbD, decide_eq_true_eq] at h0 ⊢
    simp only [Spec.Held.step, Mouse.sendButton]
    cases p
    · simp only [Bool.false_eq_true, if_false]
      rw [k.bit_eq, getLsbD_set _ _ _ (by have := k.idx_lt; omega)]
      simp only [Bool.or_eq_false_iff, decide_eq_false_iff_not]
      rw [h0]
      constructor
      · rintro ⟨⟨k', hk', hb'⟩, hne⟩
        refine ⟨k', ?_, hb'⟩
        have : k' ≠ k := by rintro rfl; exact hne hb'
        simp [this, hk']
      · rintro ⟨k', hk', hb'⟩
        by_cases hkk : k' = k
        · simp [hkk] at hk'
        · simp [hkk] at hk'
          refine ⟨⟨k', hk', hb'⟩, ?_⟩
          intro hbk
          exact hkk (MouseButton.idx_inj (hb'.symm.trans hbk))
    · simp only [if_true]
      rw [k.bit_eq, getLsbD_clear]
      simp only [Bool.and_eq_false_iff, Bool.not_eq_false', decide_eq_true_eq]
      rw [h0]
      constructor
      · rintro (⟨k', hk', hb'⟩ | hb')
        · refine ⟨k', ?_, hb'⟩
          by_cases hkk : k' = k <;> simp [hkk, hk']
        · exact ⟨k, by simp, hb'⟩
      · rintro ⟨k', hk', hb'⟩
        by_cases hkk : k' = k
        · right; rw [hb', hkk]
        · left; simp [hkk] at hk'; exact ⟨k', hk', hb'⟩
  · have hk := high_nibble_keep m.buttons k.bit k.bit_high
    cases p <;> simp only [Spec.Held.step, Mouse.sendButton, Bool.false_eq_true, if_false, if_true]
    · rw [hk.2]; exact hr.wheel
    · rw [hk.1]; exact hr.wheel
  · cases p <;> exact hr.x
  · cases p <;> exact hr.y

theorem MouseRel.onWheel {m h} (hr : MouseRel m h) (up : Bool) :
    MouseRel (m.sendWheel up) (h.step (.mouseWheel up)) := by
  refine ⟨?_, ?_, hr.x, hr.y⟩
  · intro b hb
    simp only [Spec.Held.step, Mouse.sendWheel]
    rw [low_nibble_bit _ _ (wheel_low m.buttons _) b hb]
    exact hr.btn b hb
  · simp only [Spec.Held.step, Mouse.sendWheel]
    rw [wheel_bv _ _ _ hr.wheel]
    congr 1
    cases up
    · simp only [Bool.false_eq_true, if_false]
      rw [← Int.add_assoc, BitVec.ofInt_add (15 + h.wheel) (-1)]; rfl
    · simp only [if_true]
      rw [← Int.add_assoc, BitVec.ofInt_add (15 + h.wheel) 1]; rfl

theorem MouseRel.onMove {m h} (hr : MouseRel m h) (dx dy : BitVec 8) :
    MouseRel (m.sendPosDiff dx dy) (h.step (.mouseMove dx dy)) := by
  refine ⟨hr.btn, hr.wheel, ?_, ?_⟩
  · simp only [Spec.Held.step, Mouse.sendPosDiff]
    rw [move_x, hr.x, ← Int.add_assoc, ofInt_add_toInt]
  · simp only [Spec.Held.step, Mouse.sendPosDiff]
    rw [move_y, hr.y, ← Int.sub_sub, ofInt_sub_toInt]

/-- a mouse event: the keyboard/joystick parts are untouched, the mouse part follows `f`/`ev` -/
theorem Rel.mouseEvent {s h} (hr : Rel s h) (ev : Event) (f : Mouse → Mouse)
    (hstep : step Spec.sinclairMap s ev =
      match s.mouse with | none => s | some m => { s with mouse := some (f m) })
    (hkeys : (h.step ev).keys = h.keys) (hcomp : (h.step ev).compound = h.compound)
    (hsinc : (h.step ev).sinclair = h.sinclair) (hkemp : (h.step ev).kempston = h.kempston)
    (hm : ∀ m, MouseRel m h → MouseRel (f m) (h.step ev)) :
    Rel (step Spec.sinclairMap s ev) (h.step ev) := by
  rw [hstep]
  have es : heldSinclairAt (h.step ev) = heldSinclairAt h := by unfold heldSinclairAt; rw [hsinc]
  have ec : heldCompoundAt (h.step ev) = heldCompoundAt h := by unfold heldCompoundAt; rw [hcomp]
  cases hmo : s.mouse with
  | none =>
    refine ⟨?_, ?_, ?_, ?_, ?_, ?_⟩
    · simpa [hkeys] using hr.kb
    · simpa [es] using hr.sn
    · simpa [ec] using hr.ex
    · simpa [hcomp] using hr.caps
    · simpa [hkemp] using hr.kemp
    · intro m hm'; simp [hmo] at hm'
  | some m0 =>
    refine ⟨?_, ?_, ?_, ?_, ?_, ?_⟩
    · simpa [hkeys] using hr.kb
    · simpa [es] using hr.sn
    · simpa [ec] using hr.ex
    · simpa [hcomp] using hr.caps
    · simpa [hkemp] using hr.kemp
    · intro m hm'
      simp only [Option.some.injEq] at hm'
      subst hm'
      exact hm m0 (hr.mouse m0 hmo)

theorem Rel.step {s h} (hr : Rel s h) (ev : Event) :
    Rel (step Spec.sinclairMap s ev) (h.step ev) := by
  cases ev with
  | key k p => exact hr.key k p
  | compound c p => exact hr.compound c p
  | sinclair n k p => exact hr.sinclair n k p
  | kempston k p => exact hr.kempston k p
  | mouseButton b p =>
    exact hr.mouseEvent _ (fun m => m.sendButton b p) rfl rfl rfl rfl rfl (fun m hm => hm.onButton b p)
  | mouseWheel up =>
    exact hr.mouseEvent _ (fun m => m.sendWheel up) rfl rfl rfl rfl rfl (fun m hm => hm.onWheel up)
  | mouseMove dx dy =>
    exact hr.mouseEvent _ (fun m => m.sendPosDiff dx dy) rfl rfl rfl rfl rfl (fun m hm => hm.onMove dx dy)

theorem Rel.run {s h} (hr : Rel s h) (evs : List Event) :
    Rel (run Spec.sinclairMap s evs) (h.run evs) := by
  induction evs generalizing s h with
  | nil => exact hr
  | cons e es ih => exact ih (hr.step e)

/-! ### Reading -/

theorem range8 : List.range 8 = [0, 1, 2, 3, 4, 5, 6, 7] := by decide

theorem positionHeld_iff (h : Spec.Held) (k : ZXKey) :
    Spec.positionHeld h k = true ↔
      (h.keys k = true ∨ heldCompoundAt h k ∨ heldSinclairAt h k) := by
  simp only [Spec.positionHeld, Spec.anyCompound, Bool.or_eq_true, Bool.and_eq_true,
    List.any_eq_true, decide_eq_true_eq, heldCompoundAt, heldSinclairAt]
  constructor
  · rintro (((hk | ⟨c, _, hc, hp⟩) | ⟨hs, c, _, hc⟩) | ⟨n, _, sk, _, hh, hm⟩)
    · exact Or.inl hk
    · exact Or.inr (Or.inl (Or.inl ⟨c, hc, hp⟩))
    · exact Or.inr (Or.inl (Or.inr ⟨hs, c, hc⟩))
    · exact Or.inr (Or.inr ⟨n, sk, hh, hm⟩)
  · rintro (hk | (⟨c, hc, hp⟩ | ⟨hs, c, hc⟩) | ⟨n, sk, hh, hm⟩)
    · exact Or.inl (Or.inl (Or.inl hk))
    · exact Or.inl (Or.inl (Or.inr ⟨c, CompoundKey.mem_all c, hc, hp⟩))
    · exact Or.inl (Or.inr ⟨hs, c, CompoundKey.mem_all c, hc⟩)
    · exact Or.inr ⟨n, JoyNum.mem_all n, sk, SinclairKey.mem_all sk, hh, hm⟩

/-- one half-row of the three arrays, AND-ed, read bitwise -/
theorem row_bit {s h} (hr : Rel s h) (r b : Nat) (hb : b < 8) :
    (s.keyboard r &&& s.extended r &&& s.sinclair r).getLsbD b =
      !Spec.cellHeld h r b := by
  unfold Spec.cellHeld
  have h1 := hr.kb r b hb
  have h2 := hr.ex r b hb
  have h3 := hr.sn r b hb
  simp only [BitVec.getLsbD_and]
  cases hk : Spec.keyAt r b with
  | none =>
    simp only [hk, reduceCtorEq, false_and, exists_false, iff_false, Bool.not_eq_false] at h1 h2 h3
    simp [h1, h2, h3]
  | some k =>
    simp only [hk, Option.some.injEq, exists_eq_left'] at h1 h2 h3
    have hp := positionHeld_iff h k
    cases hph : Spec.positionHeld h k
    · have hn : ¬ (h.keys k = true ∨ heldCompoundAt h k ∨ heldSinclairAt h k) := by
        rw [← hp, hph]; simp
      have e1 : (s.keyboard r).getLsbD b = true := by
        cases hx : (s.keyboard r).getLsbD b
        · exact absurd (Or.inl (h1.1 hx)) hn
        · rfl
      have e2 : (s.extended r).getLsbD b = true := by
        cases hx : (s.extended r).getLsbD b
        · exact absurd (Or.inr (Or.inl (h2.1 hx))) hn
        · rfl
      have e3 : (s.sinclair r).getLsbD b = true := by
        cases hx : (s.sinclair r).getLsbD b
        · exact absurd (Or.inr (Or.inr (h3.1 hx))) hn
        · rfl
      simp [e1, e2, e3, hph]
    · rcases hp.1 hph with hk1 | hk2 | hk3
      · simp [h1.2 hk1, hph]
      · simp [h2.2 hk2, hph]
      · simp [h3.2 hk3, hph]

theorem readRows_bit {s h} (hr : Rel s h) (sel : BitVec 8) (b : Nat) (hb : b < 8) :
    (readRows s sel).getLsbD b = !Spec.bitLow h sel b := by
  unfold readRows Spec.bitLow
  rw [getLsbD_foldl_and (List.range 8) (fun n => !sel.getLsbD n)
    (fun n => s.keyboard n &&& s.extended n &&& s.sinclair n)]
  rw [getLsbD_ff b hb, Bool.true_and, List.all_eq_not_any_not]
  congr 2
  funext r
  rw [row_bit hr r b hb]
  cases sel.getLsbD r <;> cases Spec.cellHeld h r b <;> rfl

end ZxVerif.Input
