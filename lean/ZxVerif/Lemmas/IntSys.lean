/-
Helper lemmas for Props/C02Sys.lean (C02 on the composed machine):

* the memory of the machine as the CPU sees it: a store aimed at ROM changes nothing, a read after a
  store returns the stored byte exactly if both addresses designate the same RAM cell *through the map*
  (two windows may show the same bank on the 128K), stores never move the map or the ROM contents;
* the derived bus operations of the Z80 model (`read`, `write`, `readWord`, `push16`, `pop16`) on the
  machine bus `Spectrum.ZX`: the value read is the byte behind the map at that moment, the bus state
  left behind has the same memory (reads, waits) or the memory with the byte stored (writes);
* `emulate` on the machine = the instruction body run on the state the interrupt check leaves;
* every state of a run from a state without pending prefix is `C02.Reach`able;
* the least index at which a decidable predicate holds.
-/
import ZxVerif.Lemmas.Z80TraceSys
import ZxVerif.Props.C02
set_option linter.constructorNameAsVariable false
set_option linter.unusedSimpArgs false
namespace ZxVerif.IntSys
open ZxVerif.Z80 ZxVerif.Machine ZxVerif.Spectrum

/-! ### memory behind the map -/

/-- does the address fall into a window that shows RAM (as paged at this moment)? -/
def inRam (m : Mem) (a : BitVec 16) : Bool :=
  match m.map (a.toNat / pageSize) with
  | .ram _ => true
  | .rom _ => false

/-- a window that shows a ROM page is not RAM -/
theorem inRam_of_rom (m : Mem) (a : BitVec 16) (p : Nat) (h : m.map (a.toNat / pageSize) = .rom p) :
    inRam m a = false := by
  unfold inRam; rw [h]

/-- a window that shows a RAM bank is RAM -/
theorem inRam_of_ram (m : Mem) (a : BitVec 16) (p : Nat) (h : m.map (a.toNat / pageSize) = .ram p) :
    inRam m a = true := by
  unfold inRam; rw [h]

/-- a store aimed at ROM changes nothing -/
theorem write_rom (m : Mem) (a : BitVec 16) (v : BitVec 8) (h : inRam m a = false) : m.write a v = m := by
  unfold inRam at h
  unfold Mem.write Mem.pagedAddress
  split at h
  · cases h
  · rename_i p hp; rw [hp]

/-- stores never move the map -/
theorem write_map (m : Mem) (a : BitVec 16) (v : BitVec 8) : (m.write a v).map = m.map := by
  unfold Mem.write
  split <;> rfl

/-- stores never change ROM contents -/
theorem write_romdata (m : Mem) (a : BitVec 16) (v : BitVec 8) : (m.write a v).rom = m.rom := by
  unfold Mem.write
  split <;> rfl

/-- stores never change where an address leads -/
theorem write_paged (m : Mem) (a b : BitVec 16) (v : BitVec 8) :
    (m.write a v).pagedAddress b = m.pagedAddress b := by
  unfold Mem.pagedAddress
  rw [write_map]

/-- stores never change which windows show RAM -/
theorem write_inRam (m : Mem) (a b : BitVec 16) (v : BitVec 8) : inRam (m.write a v) b = inRam m b := by
  unfold inRam; rw [write_map]

/-- **Read after store, through the map.** The byte read at `b` after a store of `v` at `a` is `v`
exactly if `a` lies in a RAM window and `a` and `b` designate the same cell of the same bank through the
map in force (the same address, or two windows showing the same bank); otherwise it is the byte that was
there before — in particular always the old byte if either address lies in the ROM window. -/
theorem read_write (m : Mem) (a b : BitVec 16) (v : BitVec 8) :
    (m.write a v).read b =
      if inRam m a = true ∧ m.pagedAddress a = m.pagedAddress b then v else m.read b := by
  unfold Mem.read
  rw [write_paged]
  unfold Mem.write inRam
  cases ha : m.pagedAddress a with
  | mk pa oa =>
    cases hb : m.pagedAddress b with
    | mk pb ob =>
      have ha1 : m.map (a.toNat / pageSize) = pa := by
        have := congrArg Prod.fst ha; simpa [Mem.pagedAddress] using this
      cases pa with
      | rom p => simp [ha1]
      | ram p =>
        cases pb with
        | rom q => simp [ha1]
        | ram q =>
          simp only [ha1, Page.ram.injEq, true_and, Prod.mk.injEq]
          by_cases h : q = p ∧ ob = oa
          · obtain ⟨h1, h2⟩ := h; subst h1; subst h2; simp
          · have h' : ¬ (p = q ∧ oa = ob) := fun ⟨x, y⟩ => h ⟨x.symm, y.symm⟩
            simp [h, h']

/-- the same address reads back what was stored, unless it lies in ROM -/
theorem read_write_same (m : Mem) (a : BitVec 16) (v : BitVec 8) :
    (m.write a v).read a = if inRam m a = true then v else m.read a := by
  rw [read_write]; simp

/-- a read from the ROM window is not affected by any store -/
theorem read_write_rom (m : Mem) (a b : BitVec 16) (v : BitVec 8) (h : inRam m b = false) :
    (m.write a v).read b = m.read b := by
  rw [read_write]
  split
  · rename_i hc
    obtain ⟨hq, he⟩ := hc
    have h1 := congrArg Prod.fst he
    simp only [Mem.pagedAddress] at h1
    unfold inRam at hq h
    rw [h1] at hq
    rw [hq] at h; cases h
  · rfl

/-- a read from the ROM window returns the byte of the ROM page paged in -/
theorem read_rom (m : Mem) (b : BitVec 16) (p : Nat) (h : m.map (b.toNat / pageSize) = .rom p) :
    m.read b = m.rom p (b.toNat % pageSize) := by
  unfold Mem.read Mem.pagedAddress
  rw [h]

/-! ### derived bus operations on the machine bus -/

/-- a timed read on the machine returns the byte behind the map (waits do not touch memory) -/
theorem read_val (a : BitVec 16) (k : Nat) (z : ZX) : (read a k z).1 = z.ctl.mem.read a := by
  show (z.ctl.waitMreq a k).mem.read a = _
  rw [ctl_waitMreq_mem]

/-- the bus state a timed read leaves is that of its wait -/
theorem read_bus (a : BitVec 16) (k : Nat) (z : ZX) : (read a k z).2 = Bus.waitMreq a k z := rfl

/-- a timed read leaves memory alone -/
theorem read_mem (a : BitVec 16) (k : Nat) (z : ZX) : (read a k z).2.ctl.mem = z.ctl.mem :=
  waitMreq_mem a k z

/-- a timed store on the machine stores through the map -/
theorem write_mem (a : BitVec 16) (v : BitVec 8) (k : Nat) (z : ZX) :
    (write a v k z).ctl.mem = z.ctl.mem.write a v := by
  show (z.ctl.waitMreq a k).mem.write a v = _
  rw [ctl_waitMreq_mem]

/-- a word read: low byte at `a`, high byte at `a + 1` (16-bit wrap), both behind the map -/
theorem readWord_val (a : BitVec 16) (k : Nat) (z : ZX) :
    (readWord a k z).1 = mk16 (z.ctl.mem.read (a + 1)) (z.ctl.mem.read a) := by
  simp only [readWord]
  rw [read_val, read_val, read_mem]

/-- a word read leaves memory alone -/
theorem readWord_mem (a : BitVec 16) (k : Nat) (z : ZX) : (readWord a k z).2.ctl.mem = z.ctl.mem := by
  simp only [readWord]
  rw [read_mem, read_mem]

/-- the popped word: low byte at SP, high byte at SP+1, both behind the map -/
theorem pop16_val (k : Nat) (s : Cpu) (z : ZX) :
    (pop16 k s z).1 = mk16 (z.ctl.mem.read (s.sp + 1)) (z.ctl.mem.read s.sp) := by
  simp only [pop16]
  rw [read_val, read_val, read_mem]

/-- a pop leaves memory alone -/
theorem pop16_mem (k : Nat) (s : Cpu) (z : ZX) : (pop16 k s z).2.2.ctl.mem = z.ctl.mem := by
  simp only [pop16]
  rw [read_mem, read_mem]

/-- a pop moves SP up by two and nothing else of the CPU -/
theorem pop16_cpu (k : Nat) (s : Cpu) (z : ZX) : (pop16 k s z).2.1 = { s with sp := s.sp + 2 } := rfl

/-- memory after the two stores of a push: high byte at SP-1 first, low byte at SP-2 second -/
def pushed (m : Mem) (sp w : BitVec 16) : Mem := (m.write (sp - 1) (hi w)).write (sp - 2) (lo w)

/-- memory after `push16` on the machine is `pushed` -/
theorem push16_mem (w : BitVec 16) (k : Nat) (s : Cpu) (z : ZX) :
    (push16 w k s z).2.ctl.mem = pushed z.ctl.mem s.sp w := by
  simp only [push16, pushed]
  rw [write_mem, write_mem]

/-- a push never moves the map -/
theorem pushed_map (m : Mem) (sp w : BitVec 16) : (pushed m sp w).map = m.map := by
  unfold pushed; rw [write_map, write_map]

/-- a push never changes ROM contents -/
theorem pushed_rom (m : Mem) (sp w : BitVec 16) : (pushed m sp w).rom = m.rom := by
  unfold pushed; rw [write_romdata, write_romdata]

/-! ### one `emulate` on the machine -/

/-- `pc_callback` does nothing on the machine model: one `emulate` is the interrupt check followed by the
instruction body -/
theorem emulate_zx (v : Variant) (s : Cpu) (z : ZX) :
    emulate v (s, z) = execOne v (checkInterrupt s z).1 (checkInterrupt s z).2 := rfl

/-- the decision on the machine: NMI never, INT exactly if not held off, IFF1 set and the line active -/
theorem decision_zx (s : Cpu) (z : ZX) :
    decision s z = if s.skipInt = false ∧ s.iff1 = true ∧ z.ctl.intActive = true then .int else .none := by
  unfold decision
  have hn : Bus.nmiActive z = false := rfl
  have hi : Bus.intActive z = z.ctl.intActive := rfl
  rw [hn, hi]
  cases s.skipInt <;> cases s.iff1 <;> cases z.ctl.intActive <;> simp

/-! ### runs -/

/-- every state of a run from a reachable state is reachable (`C02.Reach`, the bus left alone between steps) -/
theorem reach_run {β : Type} [Bus β] (v : Variant) (n : Nat) (sb : Cpu × β) (h : C02.Reach v sb) :
    C02.Reach v (run v n sb) := by
  induction n generalizing sb with
  | zero => exact h
  | succ n ih =>
    simp only [run]
    apply ih
    obtain ⟨s, b⟩ := sb
    exact C02.Reach.step s b b h

/-- `run (a + b)` is `run b` after `run a` -/
theorem run_add {β : Type} [Bus β] (v : Variant) (a b : Nat) (sb : Cpu × β) :
    run v (a + b) sb = run v b (run v a sb) := by
  induction a generalizing sb with
  | zero => simp [run]
  | succ a ih =>
    rw [Nat.succ_add]
    simp only [run]
    exact ih _

/-- one more step at the end of a run -/
theorem run_succ' {β : Type} [Bus β] (v : Variant) (n : Nat) (sb : Cpu × β) :
    run v (n + 1) sb = emulate v (run v n sb) := by
  rw [run_add]; rfl

/-- the least index at which a decidable predicate holds -/
theorem least (P : Nat → Prop) [DecidablePred P] (n : Nat) (h : P n) :
    ∃ m, m ≤ n ∧ P m ∧ ∀ k, k < m → ¬ P k := by
  induction n using Nat.strongRecOn with
  | _ n ih =>
    by_cases hex : ∃ k, k < n ∧ P k
    · obtain ⟨k, hk, hp⟩ := hex
      obtain ⟨m, hm, hpm, hmin⟩ := ih k hk hp
      exact ⟨m, by omega, hpm, hmin⟩
    · exact ⟨n, Nat.le_refl n, h, fun k hk hp => hex ⟨k, hk, hp⟩⟩

end ZxVerif.IntSys
