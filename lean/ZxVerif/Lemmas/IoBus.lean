/-
The machine together with a ghost log of its port traffic as a `Z80.Bus`: `IoZX` wraps the machine
bus `Spectrum.ZX` (Model/Spectrum.lean) and records, oldest first, every port access the CPU makes:

  `rd port value dev clock time latch sample`   an `IN`: the value the CPU received, the device
                                               `read_io` routed the port to, and when
  `wr port value dev clock time latch`          an `OUT`: the byte the CPU put on the bus and the device
                                               `write_io` routed the port to

  rustzx-core/src/zx/controller.rs   read_io / write_io (the device-selection chains)

`clock` = frame clock at the start of the port cycle, `time` = total T-states (frames × frame length +
clock) at that moment, `latch` = the paging latch in force, `sample` = the frame clock at which a read
samples the bus (after the two contention phases of the cycle; this is where `floating_bus_value`
looks at the beam position). Nothing reads the log back.

* `zx_hom`: the projection `IoZX.zx` is a bus homomorphism, so by Lemmas/Z80Hom.lean every program goes
  through the same CPU states on `IoZX` as on `ZX` and the `zx` component of a run *is* the run on `ZX`.
* `prefix_hom`: prepending an earlier history commutes with every primitive — the log of a run does not
  depend on what was logged before; `older_hom`: nor on the machine's own ghost histories (`tlog`, `wlog`).
* `toHist_hom`: forgetting everything but the AY port writes gives the ghost history of Lemmas/AyBus.lean,
  so the C18 system theorems speak about the same history.
* `grows_closed`: the invariant `Ext` (what every entry says about the access it records; the device
  latches of the machine are the fold of the log; AY reads saw the fold of the entries in front of them;
  under the representation invariant of C04 the paging
  latch is the fold of the accepted paging writes and every time stamp is the property's time) is closed
  under every primitive of the bus, hence (Lemmas/Z80Closed.lean) kept by every program.
-/
import ZxVerif.Model.Spectrum
import ZxVerif.Lemmas.AyBus
import ZxVerif.Lemmas.Z80Hom
import ZxVerif.Lemmas.Z80Closed
import ZxVerif.Props.C04Sys
import ZxVerif.Props.C05Sys
import ZxVerif.Props.C06Sys
import ZxVerif.Props.C17Sys
set_option linter.unusedSimpArgs false
set_option linter.unusedVariables false

namespace ZxVerif.Spectrum
open ZxVerif.Machine ZxVerif.Z80
open ZxVerif.Ay.Spec (PortOp)

/-! ## the log -/

/-- one port access as the CPU made it -/
inductive IoEntry
  | rd (port : BitVec 16) (value : BitVec 8) (dev : ReadDev) (clock time : Nat) (latch : BitVec 8) (sample : Nat)
  | wr (port : BitVec 16) (value : BitVec 8) (dev : WriteDev) (clock time : Nat) (latch : BitVec 8)
  deriving DecidableEq, Repr

structure IoZX where
  zx : ZX
  /-- ghost: every port access so far, oldest first -/
  log : List IoEntry := []

/-- a machine state `z` (any memory, clock, paging, keyboard …) with an empty log -/
def IoZX.start (z : ZX) : IoZX := { zx := z }

/-- what an `IN` from `p` in machine state `z` is recorded as -/
def readEntry (z : ZX) (p : BitVec 16) : IoEntry :=
  .rd p (ZX.readIo p z).1 (readDecode z.cfg p) z.ctl.frameClocks (C05.total z.ctl) z.ctl.port7ffd
    ((z.ctl.ioContentionFirst p).ioContentionLast p).frameClocks

/-- what an `OUT` of `v` to `p` in machine state `z` is recorded as -/
def writeEntry (z : ZX) (p : BitVec 16) (v : BitVec 8) : IoEntry :=
  .wr p v (writeDecode z.cfg p) z.ctl.frameClocks (C05.total z.ctl) z.ctl.port7ffd

instance : Bus IoZX where
  waitMreq a clk x := { x with zx := Bus.waitMreq a clk x.zx }
  waitNoMreq a clk x := { x with zx := Bus.waitNoMreq a clk x.zx }
  waitInternal clk x := { x with zx := Bus.waitInternal clk x.zx }
  readInternal a x := ((Bus.readInternal a x.zx).1, { x with zx := (Bus.readInternal a x.zx).2 })
  writeInternal a v x := { x with zx := Bus.writeInternal a v x.zx }
  readIo p x := ((Bus.readIo p x.zx).1, { zx := (Bus.readIo p x.zx).2, log := x.log ++ [readEntry x.zx p] })
  writeIo p v x := { zx := Bus.writeIo p v x.zx, log := x.log ++ [writeEntry x.zx p v] }
  readInterrupt x := ((Bus.readInterrupt x.zx).1, { x with zx := (Bus.readInterrupt x.zx).2 })
  reti x := { x with zx := Bus.reti x.zx }
  halt on x := { x with zx := Bus.halt on x.zx }
  intActive x := Bus.intActive x.zx
  nmiActive x := Bus.nmiActive x.zx
  pcCallback a x := { x with zx := Bus.pcCallback a x.zx }

/-! ## three homomorphisms -/

/-- every primitive of `IoZX` is the `ZX` primitive on the `zx` component -/
theorem io_zx_hom : BusHom IoZX.zx where
  waitMreq _ _ _ := rfl
  waitNoMreq _ _ _ := rfl
  waitInternal _ _ := rfl
  readInternal _ _ := rfl
  writeInternal _ _ _ := rfl
  readIo _ _ := rfl
  writeIo _ _ _ := rfl
  readInterrupt _ := rfl
  reti _ := rfl
  halt _ _ := rfl
  intActive _ := rfl
  nmiActive _ := rfl
  pcCallback _ _ := rfl

/-- **Adding the log changes nothing for the program**: on `IoZX` every program goes through the same
CPU states as on the machine bus `ZX`, and the `zx` component is the run on `ZX`. -/
theorem io_run_zx (v : Variant) (n : Nat) (s : Cpu) (x : IoZX) :
    (Z80.run v n (s, x)).1 = (Z80.run v n (s, x.zx)).1 ∧ (Z80.run v n (s, x)).2.zx = (Z80.run v n (s, x.zx)).2 := by
  have := io_zx_hom.run v n s x
  exact ⟨(congrArg Prod.fst this).symm, (congrArg Prod.snd this).symm⟩

/-- put an earlier history in front of the log -/
def IoZX.withPrefix (l0 : List IoEntry) (x : IoZX) : IoZX := { zx := x.zx, log := l0 ++ x.log }

/-- the log is only ever appended to, with entries that do not depend on it -/
theorem prefix_hom (l0 : List IoEntry) : BusHom (IoZX.withPrefix l0) where
  waitMreq _ _ _ := rfl
  waitNoMreq _ _ _ := rfl
  waitInternal _ _ := rfl
  readInternal _ _ := rfl
  writeInternal _ _ _ := rfl
  readIo p x := by
    show (_, IoZX.mk _ ((l0 ++ x.log) ++ [readEntry x.zx p])) = (_, IoZX.mk _ (l0 ++ (x.log ++ [readEntry x.zx p])))
    rw [List.append_assoc]; rfl
  writeIo p v x := by
    show IoZX.mk _ ((l0 ++ x.log) ++ [writeEntry x.zx p v]) = IoZX.mk _ (l0 ++ (x.log ++ [writeEntry x.zx p v]))
    rw [List.append_assoc]; rfl
  readInterrupt _ := rfl
  reti _ := rfl
  halt _ _ := rfl
  intActive _ := rfl
  nmiActive _ := rfl
  pcCallback _ _ := rfl

/-- put older entries behind the machine's own ghost histories (`tlog`, `wlog`: newest first) -/
def ZX.withOlder (T : List (BitVec 8 × TOp)) (W : List (Nat × Nat × BitVec 8)) (z : ZX) : ZX :=
  { z with tlog := z.tlog ++ T, wlog := z.wlog ++ W }

def IoZX.withOlder (T : List (BitVec 8 × TOp)) (W : List (Nat × Nat × BitVec 8)) (x : IoZX) : IoZX :=
  { x with zx := x.zx.withOlder T W }

theorem ZX.writeIo_withOlder (T : List (BitVec 8 × TOp)) (W : List (Nat × Nat × BitVec 8)) (p : BitVec 16)
    (v : BitVec 8) (z : ZX) : ZX.writeIo p v (z.withOlder T W) = (ZX.writeIo p v z).withOlder T W := by
  unfold ZX.writeIo
  have : (z.withOlder T W).cfg = z.cfg := rfl
  rw [this]
  cases writeDecode z.cfg p <;> rfl

theorem ZX.writeInternal_withOlder (T : List (BitVec 8 × TOp)) (W : List (Nat × Nat × BitVec 8)) (a : BitVec 16)
    (v : BitVec 8) (z : ZX) :
    Bus.writeInternal a v (z.withOlder T W) = (Bus.writeInternal a v z).withOlder T W := by
  have h : ∀ z' : ZX, Bus.writeInternal a v z' =
      { z' with ctl := z'.ctl.writeInternal a v,
                wlog := match z'.ctl.mem.pagedAddress a with
                  | (.ram p, off) => (p, off, v) :: z'.wlog
                  | (.rom _, _) => z'.wlog } := fun _ => rfl
  rw [h, h]
  unfold ZX.withOlder
  simp only []
  generalize z.ctl.mem.pagedAddress a = q
  obtain ⟨pg, off⟩ := q
  cases pg <;> rfl

/-- the machine's ghost histories are only ever prepended to and never read: what lies behind them has
no influence on anything else, in particular not on the port log -/
theorem older_hom (T : List (BitVec 8 × TOp)) (W : List (Nat × Nat × BitVec 8)) : BusHom (IoZX.withOlder T W) where
  waitMreq _ _ _ := rfl
  waitNoMreq _ _ _ := rfl
  waitInternal _ _ := rfl
  readInternal _ _ := rfl
  writeInternal a v x := by
    show IoZX.mk (Bus.writeInternal a v (x.zx.withOlder T W)) x.log = IoZX.mk ((Bus.writeInternal a v x.zx).withOlder T W) x.log
    rw [ZX.writeInternal_withOlder]
  readIo _ _ := rfl
  writeIo p v x := by
    show IoZX.mk (ZX.writeIo p v (x.zx.withOlder T W)) (x.log ++ [writeEntry (x.zx.withOlder T W) p v]) =
      IoZX.mk ((ZX.writeIo p v x.zx).withOlder T W) (x.log ++ [writeEntry x.zx p v])
    rw [ZX.writeIo_withOlder]; rfl
  readInterrupt _ := rfl
  reti _ := rfl
  halt _ _ := rfl
  intActive _ := rfl
  nmiActive _ := rfl
  pcCallback _ _ := rfl

/-- the AY port operation an entry stands for, if any -/
def ayOp : IoEntry → Option PortOp
  | .wr _ v .aySelect _ _ _ => some (.select v)
  | .wr _ v .ayData _ _ _ => some (.write v)
  | _ => none

/-- the AY port history inside a log -/
def ayOps (l : List IoEntry) : List PortOp := l.filterMap ayOp

/-- forget everything but the AY port writes: the ghost of Lemmas/AyBus.lean -/
def IoZX.toHist (x : IoZX) : HistZX := { zx := x.zx, hist := ayOps x.log }

theorem ayOps_snoc_write (z : ZX) (p : BitVec 16) (v : BitVec 8) (l : List IoEntry) :
    ayOps (l ++ [writeEntry z p v]) = histStep z.cfg p v (ayOps l) := by
  unfold ayOps histStep writeEntry
  rw [List.filterMap_append]
  cases writeDecode z.cfg p <;> simp [ayOp]

theorem ayOps_snoc_read (z : ZX) (p : BitVec 16) (l : List IoEntry) :
    ayOps (l ++ [readEntry z p]) = ayOps l := by
  unfold ayOps readEntry
  rw [List.filterMap_append]
  simp [ayOp]

theorem io_toHist_hom : BusHom IoZX.toHist where
  waitMreq _ _ _ := rfl
  waitNoMreq _ _ _ := rfl
  waitInternal _ _ := rfl
  readInternal _ _ := rfl
  writeInternal _ _ _ := rfl
  readIo p x := by
    show (_, HistZX.mk _ (ayOps x.log)) = (_, HistZX.mk _ (ayOps (x.log ++ [readEntry x.zx p])))
    rw [ayOps_snoc_read]; rfl
  writeIo p v x := by
    show HistZX.mk _ (histStep x.zx.cfg p v (ayOps x.log)) = HistZX.mk _ (ayOps (x.log ++ [writeEntry x.zx p v]))
    rw [ayOps_snoc_write]; rfl
  readInterrupt _ := rfl
  reti _ := rfl
  halt _ _ := rfl
  intActive _ := rfl
  nmiActive _ := rfl
  pcCallback _ _ := rfl

/-! ## what the log says about the machine -/

/-- the output latches the ports reach, other than the paging latch: ULA (border, EAR, MIC), AY -/
structure DevState where
  border : BitVec 8
  ear : Bool
  mic : Bool
  ayReg : Nat
  ayRegs : Nat → BitVec 8

def devState (z : ZX) : DevState := ⟨z.border, z.ear, z.mic, z.ayReg, z.ayRegs⟩

/-- **The device state machine.** An `OUT` routed to the ULA sets border (bits 0–2), MIC (bit 3) and EAR
(bit 4) and nothing else; one routed to the AY select port sets the register latch (low four bits) and
nothing else; one routed to the AY data port writes the selected register and nothing else; every
other access — an `OUT` routed to the paging latch, to nobody or to the extender, and every `IN` —
leaves all of these alone. -/
def DevState.step (d : DevState) : IoEntry → DevState
  | .wr _ v .ula _ _ _ => { d with border := v &&& 0x07, mic := v &&& 0x08 ≠ 0, ear := v &&& 0x10 ≠ 0 }
  | .wr _ v .aySelect _ _ _ => { d with ayReg := (v &&& 0x0F).toNat }
  | .wr _ v .ayData _ _ _ => { d with ayRegs := fun r => if r = d.ayReg then v else d.ayRegs r }
  | _ => d

/-- the paging latch: last accepted value and the lock -/
structure PagState where
  latch : BitVec 8
  locked : Bool
  deriving DecidableEq, Repr

def pagState (z : ZX) : PagState := ⟨z.ctl.port7ffd, !z.ctl.pagingEnabled⟩

/-- **The paging latch state machine** (`Spec.Mem128.out7ffd`): only an `OUT` routed to the paging latch
matters; it is accepted unless the lock is set, and bit 5 of an accepted value sets the lock. -/
def PagState.step (s : PagState) : IoEntry → PagState
  | .wr _ v .paging _ _ _ => if s.locked then s else ⟨v, v &&& 0x20 ≠ 0⟩
  | _ => s

/-- every `IN` routed to the AY returned the register that the earlier writes of the log had selected,
with the contents they had given it: `d` is the device state before the first entry -/
def ReadsSee : DevState → List IoEntry → Prop
  | _, [] => True
  | d, e :: t =>
    (match e with
     | .rd _ val .ay _ _ _ _ => val = d.ayRegs d.ayReg
     | _ => True) ∧ ReadsSee (d.step e) t

theorem readsSee_append (d : DevState) (l1 l2 : List IoEntry) :
    ReadsSee d (l1 ++ l2) ↔ ReadsSee d l1 ∧ ReadsSee (l1.foldl DevState.step d) l2 := by
  induction l1 generalizing d with
  | nil => simp [ReadsSee]
  | cons e t ih =>
    simp only [List.cons_append, ReadsSee, List.foldl_cons, ih]
    exact and_assoc.symm

/-- What an entry says by itself, on a machine of kind `k` whose input state is `kbd`, `earIn` (none of
which a program can change): the device is the one the decode chain selects for that port in that
configuration; a value that came from an input device is that device's; a value that came from the
floating bus is 0xFF whenever the ULA is not fetching at the sample T-state. -/
def Recorded (k : Kind) (kbd : Input.Kbd) (earIn : Bool) : IoEntry → Prop
  | .rd p val d _ _ _ sample =>
    d = readDecode ⟨k, kbd.kempston.isSome, kbd.mouse.isSome, false⟩ p ∧
    (d = .ula → val = Input.readUla kbd (p.extractLsb' 8 8) earIn) ∧
    (d = .kempston → val = kbd.kempston.getD 0xFF) ∧
    (d = .mouseButtons → val = (kbd.mouse.map (·.buttons)).getD 0xFF) ∧
    (d = .mouseX → val = (kbd.mouse.map (·.x)).getD 0xFF) ∧
    (d = .mouseY → val = (kbd.mouse.map (·.y)).getD 0xFF) ∧
    (d = .floating → floatingBusAddr k sample = none → val = 0xFF) ∧
    d ≠ .extender
  | .wr p _ d _ _ _ => d = writeDecode ⟨k, kbd.kempston.isSome, kbd.mouse.isSome, false⟩ p ∧ d ≠ .extender

/-- What the time stamps of an entry say (under the representation invariant of C04): the frame clock
is the total time modulo the frame length, and a read samples the bus one T-state before the end of
the port cycle the property prescribes (`Spec.opTime`: the four ULA port patterns with the delays of
the contention table). -/
def Stamped (k : Kind) : IoEntry → Prop
  | .rd p _ _ clock time latch sample =>
    clock < Spec.frameLen k ∧ clock = time % Spec.frameLen k ∧
    sample = (Spec.opTime k latch time (.io p) - 1) % Spec.frameLen k ∧
    time + 4 ≤ Spec.opTime k latch time (.io p)
  | .wr _ _ _ clock time _ => clock < Spec.frameLen k ∧ clock = time % Spec.frameLen k

/-! ### helper facts about the controller -/

theorem ioFirst_step (c : Ctl) (p : BitVec 16) (h : C04Sys.Good c) : ∃ t, C04Sys.Step c (c.ioContentionFirst p) t := by
  unfold Ctl.ioContentionFirst
  cases hc : c.addrIsContended p
  · exact ⟨_, (C04Sys.Step.start c h).n 1 (by omega)⟩
  · exact ⟨_, (C04Sys.Step.start c h).c0.n 1 (by omega)⟩

theorem ioLast_step {c x : Ctl} {t : Nat} (s : C04Sys.Step c x t) (p : BitVec 16) :
    ∃ t', C04Sys.Step c (x.ioContentionLast p) t' := by
  unfold Ctl.ioContentionLast
  by_cases h1 : portIsContended p = true
  · simp only [h1, if_true]; exact ⟨_, s.c 2 (by omega)⟩
  · by_cases h2 : x.addrIsContended p = true
    · simp only [h1, h2, if_true, if_false]
      exact ⟨_, ((s.c 1 (by omega)).c 1 (by omega)).c0⟩
    · simp only [h1, h2, if_false]
      exact ⟨_, s.n 2 (by omega)⟩

/-- the two paging fields after the controller part of a port read -/
theorem readIo_paging (c : Ctl) (p : BitVec 16) :
    (((c.ioContentionFirst p).ioContentionLast p).waitInternal 1).pagingEnabled = c.pagingEnabled ∧
    (((c.ioContentionFirst p).ioContentionLast p).waitInternal 1).port7ffd = c.port7ffd := by
  have h1 := C06Sys.ioFirst_paging c p
  have h2 := C06Sys.ioLast_paging (c.ioContentionFirst p) p
  have h3 := C06Sys.waitInternal_paging ((c.ioContentionFirst p).ioContentionLast p) 1
  exact ⟨h3.1.trans (h2.1.trans h1.1), h3.2.1.trans (h2.2.1.trans h1.2.1)⟩

/-- what a write that reaches the latch decoder does to latch and lock, on a controller whose map is
what the latch says (or a 48K, where paging is off) -/
theorem write7ffd_pag (c : Ctl) (h : C04Sys.MapOk c) (v : BitVec 8) :
    (PagState.mk (c.write7ffd v).port7ffd (!(c.write7ffd v).pagingEnabled)) =
      (if (!c.pagingEnabled) = true then PagState.mk c.port7ffd (!c.pagingEnabled)
       else ⟨v, v &&& 0x20 ≠ 0⟩) := by
  cases he : c.pagingEnabled
  · rw [C06.k48_ignores_paging c he v]; simp [he]
  · rcases h with ⟨_, _, e⟩ | hi
    · rw [he] at e; cases e
    · rw [C06.write7ffd_eq c hi v he]
      simp only [Bool.not_true, Bool.false_eq_true, if_false, he]
      by_cases hl : v &&& 0x20 = 0 <;> simp [hl]

theorem writeIo_pag (p : BitVec 16) (v : BitVec 8) (z : ZX) (g : C04Sys.Good z.ctl) :
    pagState (ZX.writeIo p v z) = PagState.step (pagState z) (writeEntry z p v) := by
  have h1 := C06Sys.ioFirst_paging z.ctl p
  obtain ⟨t, s1⟩ := ioFirst_step z.ctl p g
  have key : ∀ c1 : Ctl, PagState.mk ((c1.ioContentionLast p).waitInternal 1).port7ffd
      (!((c1.ioContentionLast p).waitInternal 1).pagingEnabled) = ⟨c1.port7ffd, !c1.pagingEnabled⟩ := by
    intro c1
    have a := C06Sys.ioLast_paging c1 p
    have b := C06Sys.waitInternal_paging (c1.ioContentionLast p) 1
    rw [b.1, b.2.1, a.1, a.2.1]
  unfold pagState
  rw [C04Sys.writeIo_ctl]
  by_cases hd : writeDecode z.cfg p = .paging
  · simp only [hd, if_true, writeEntry, PagState.step]
    rw [key, write7ffd_pag _ s1.good.map v, h1.1, h1.2.1]
  · simp only [hd, if_false, writeEntry]
    rw [key, h1.1, h1.2.1]
    cases hw : writeDecode z.cfg p <;> first | rfl | exact absurd hw hd

theorem writeIo_dev (p : BitVec 16) (v : BitVec 8) (z : ZX) :
    devState (ZX.writeIo p v z) = DevState.step (devState z) (writeEntry z p v) := by
  unfold ZX.writeIo writeEntry
  cases writeDecode z.cfg p <;> rfl

/-! ### the invariant -/

/-- `y` is `x` later: the log grew by `d`, and everything the log is meant to say about `d` holds -/
structure Ext (x y : IoZX) (d : List IoEntry) : Prop where
  log : y.log = x.log ++ d
  kbd : y.zx.kbd = x.zx.kbd
  earIn : y.zx.earIn = x.zx.earIn
  kind : y.zx.ctl.kind = x.zx.ctl.kind
  recd : ∀ e ∈ d, Recorded x.zx.ctl.kind x.zx.kbd x.zx.earIn e
  dev : devState y.zx = d.foldl DevState.step (devState x.zx)
  sees : ReadsSee (devState x.zx) d
  good : C04Sys.Good x.zx.ctl →
    C04Sys.Good y.zx.ctl ∧ pagState y.zx = d.foldl PagState.step (pagState x.zx) ∧
    ∀ e ∈ d, Stamped x.zx.ctl.kind e

def Grows (x y : IoZX) : Prop := ∃ d, Ext x y d

theorem Ext.refl (x : IoZX) : Ext x x [] where
  log := by simp
  kbd := rfl
  earIn := rfl
  kind := rfl
  recd := by intro e he; cases he
  dev := rfl
  sees := trivial
  good g := ⟨g, rfl, by intro e he; cases he⟩

theorem Ext.trans {a b c : IoZX} {d1 d2 : List IoEntry} (h1 : Ext a b d1) (h2 : Ext b c d2) :
    Ext a c (d1 ++ d2) where
  log := by rw [h2.log, h1.log, List.append_assoc]
  kbd := h2.kbd.trans h1.kbd
  earIn := h2.earIn.trans h1.earIn
  kind := h2.kind.trans h1.kind
  recd := by
    intro e he
    rcases List.mem_append.mp he with h | h
    · exact h1.recd e h
    · have := h2.recd e h
      rw [h1.kbd, h1.earIn, h1.kind] at this
      exact this
  dev := by rw [List.foldl_append, ← h1.dev, ← h2.dev]
  sees := (readsSee_append _ _ _).mpr ⟨h1.sees, by rw [← h1.dev]; exact h2.sees⟩
  good g := by
    obtain ⟨g1, p1, s1⟩ := h1.good g
    obtain ⟨g2, p2, s2⟩ := h2.good g1
    refine ⟨g2, by rw [List.foldl_append, ← p1, ← p2], ?_⟩
    intro e he
    rcases List.mem_append.mp he with h | h
    · exact s1 e h
    · have := s2 e h
      rw [h1.kind] at this
      exact this

/-- a primitive that logs nothing and leaves every device latch alone -/
theorem Ext.quiet {x y : IoZX} (hl : y.log = x.log) (hk : y.zx.kbd = x.zx.kbd) (he : y.zx.earIn = x.zx.earIn)
    (hd : devState y.zx = devState x.zx) (hf : C05Sys.TimeFwd x.zx y.zx) (ht : C04Sys.Timed x.zx y.zx)
    (hp : y.zx.ctl.pagingEnabled = x.zx.ctl.pagingEnabled ∧ y.zx.ctl.port7ffd = x.zx.ctl.port7ffd) :
    Ext x y [] where
  log := by simp [hl]
  kbd := hk
  earIn := he
  kind := hf.1
  recd := by intro e h; cases h
  dev := hd
  sees := trivial
  good g := by
    obtain ⟨_, _, h⟩ := ht
    refine ⟨(h g).1, ?_, by intro e h; cases h⟩
    show pagState y.zx = pagState x.zx
    unfold pagState
    rw [hp.1, hp.2]

theorem readEntry_recorded (z : ZX) (p : BitVec 16) :
    Recorded z.ctl.kind z.kbd z.earIn (readEntry z p) := by
  have hk : ((z.ctl.ioContentionFirst p).ioContentionLast p).kind = z.ctl.kind :=
    (C05Sys.ioLast_fwd _ p).1.trans (C05Sys.ioFirst_fwd z.ctl p).1
  have hv : ∀ d, readDecode z.cfg p = d → (ZX.readIo p z).1 =
      (match d with
        | .extender => 0
        | .ula => Input.readUla z.kbd (p.extractLsb' 8 8) z.earIn
        | .mouseButtons => (z.kbd.mouse.map (·.buttons)).getD 0xFF
        | .mouseX => (z.kbd.mouse.map (·.x)).getD 0xFF
        | .mouseY => (z.kbd.mouse.map (·.y)).getD 0xFF
        | .ay => z.ayRegs z.ayReg
        | .kempston => z.kbd.kempston.getD 0xFF
        | .floating => ((z.ctl.ioContentionFirst p).ioContentionLast p).floatingBusValue) := by
    intro d hd; subst hd; rfl
  refine ⟨rfl, ?_, ?_, ?_, ?_, ?_, ?_, ?_⟩
  · intro hd; exact hv _ hd
  · intro hd; exact hv _ hd
  · intro hd; exact hv _ hd
  · intro hd; exact hv _ hd
  · intro hd; exact hv _ hd
  · intro hd hn
    show (ZX.readIo p z).1 = 0xFF
    rw [hv _ hd]
    show Ctl.floatingBusValue _ = 0xFF
    unfold Ctl.floatingBusValue
    rw [hk, hn]
  · show readDecode z.cfg p ≠ .extender
    unfold readDecode ZX.cfg
    simp only [Bool.false_eq_true, if_false]
    repeat' split
    all_goals (intro h; cases h)

theorem writeEntry_recorded (z : ZX) (p : BitVec 16) (v : BitVec 8) :
    Recorded z.ctl.kind z.kbd z.earIn (writeEntry z p v) := by
  refine ⟨rfl, ?_⟩
  show writeDecode z.cfg p ≠ .extender
  unfold writeDecode ZX.cfg
  simp only [Bool.false_eq_true, if_false]
  repeat' split
  all_goals (intro h; cases h)

open C04Sys in
theorem readEntry_stamped (z : ZX) (p : BitVec 16) (g : C04Sys.Good z.ctl) : Stamped z.ctl.kind (readEntry z p) := by
  obtain ⟨t1, s1⟩ := ioFirst_step z.ctl p g
  obtain ⟨t2, s2⟩ := ioLast_step s1 p
  obtain ⟨tt, _, _⟩ := io_time z.ctl p id g (fun x gx kx cx => ⟨rfl, gx, kx, cx⟩)
  have tt' : C05.total ((z.ctl.ioContentionFirst p).ioContentionLast p) + 1 =
      Spec.opTime z.ctl.kind z.ctl.port7ffd (C05.total z.ctl) (.io p) := by
    rw [← C05.wait_conserves]; exact tt
  have hm := fc_eq_mod _ s2.good.inFrame
  rw [s2.kind] at hm
  refine ⟨?_, (fc_eq_mod _ g.inFrame).symm, ?_, io_ge _ _ _ _⟩
  · rw [frameLen_eq]; exact g.inFrame
  · show ((z.ctl.ioContentionFirst p).ioContentionLast p).frameClocks = _
    rw [← tt', Nat.add_sub_cancel, hm]

open C04Sys in
theorem writeEntry_stamped (z : ZX) (p : BitVec 16) (v : BitVec 8) (g : C04Sys.Good z.ctl) :
    Stamped z.ctl.kind (writeEntry z p v) :=
  ⟨by rw [frameLen_eq]; exact g.inFrame, (fc_eq_mod _ g.inFrame).symm⟩

theorem Ext.read (x : IoZX) (p : BitVec 16) : Ext x (Bus.readIo p x).2 [readEntry x.zx p] where
  log := rfl
  kbd := rfl
  earIn := rfl
  kind := (C05Sys.timeFwd_closed.readIo p x.zx).1
  recd := by
    intro e he
    rw [List.mem_singleton.mp he]
    exact readEntry_recorded x.zx p
  dev := rfl
  sees := by
    refine ⟨?_, trivial⟩
    show (match readEntry x.zx p with
      | .rd _ val .ay _ _ _ _ => val = (devState x.zx).ayRegs (devState x.zx).ayReg
      | _ => True)
    unfold readEntry
    cases hd : readDecode x.zx.cfg p <;> simp only []
    show (ZX.readIo p x.zx).1 = x.zx.ayRegs x.zx.ayReg
    simp only [ZX.readIo, hd]
  good g := by
    obtain ⟨_, _, h⟩ := C04Sys.timed_closed.readIo p x.zx
    refine ⟨(h g).1, ?_, ?_⟩
    · have hp := readIo_paging x.zx.ctl p
      show PagState.mk (((x.zx.ctl.ioContentionFirst p).ioContentionLast p).waitInternal 1).port7ffd
        (!(((x.zx.ctl.ioContentionFirst p).ioContentionLast p).waitInternal 1).pagingEnabled) = _
      rw [hp.1, hp.2]; rfl
    · intro e he
      rw [List.mem_singleton.mp he]
      exact readEntry_stamped x.zx p g

theorem Ext.write (x : IoZX) (p : BitVec 16) (v : BitVec 8) :
    Ext x (Bus.writeIo p v x) [writeEntry x.zx p v] where
  log := rfl
  kbd := (C17Sys.kbdSame_closed.writeIo p v x.zx).1
  earIn := (C17Sys.kbdSame_closed.writeIo p v x.zx).2
  kind := (C05Sys.timeFwd_closed.writeIo p v x.zx).1
  recd := by
    intro e he
    rw [List.mem_singleton.mp he]
    exact writeEntry_recorded x.zx p v
  dev := writeIo_dev p v x.zx
  sees := ⟨trivial, trivial⟩
  good g := by
    obtain ⟨_, _, h⟩ := C04Sys.timed_closed.writeIo p v x.zx
    refine ⟨(h g).1, writeIo_pag p v x.zx g, ?_⟩
    intro e he
    rw [List.mem_singleton.mp he]
    exact writeEntry_stamped x.zx p v g

/-- every primitive bus operation keeps the invariant (timed ones for at most 7 clocks per call, which
is all the CPU ever asks for) -/
theorem grows_closed : BusClosedB 7 Grows where
  big := Nat.le_refl 7
  refl x := ⟨[], Ext.refl x⟩
  trans := by
    rintro a b c ⟨d1, h1⟩ ⟨d2, h2⟩
    exact ⟨d1 ++ d2, h1.trans h2⟩
  waitMreq a k x hk := ⟨[], Ext.quiet rfl rfl rfl rfl (C05Sys.timeFwd_closed.waitMreq a k x.zx)
    (C04Sys.timed_closed.waitMreq a k x.zx hk)
    ⟨(C06Sys.waitMreq_paging x.zx.ctl a k).1, (C06Sys.waitMreq_paging x.zx.ctl a k).2.1⟩⟩
  waitNoMreq a k x hk := ⟨[], Ext.quiet rfl rfl rfl rfl (C05Sys.timeFwd_closed.waitNoMreq a k x.zx)
    (C04Sys.timed_closed.waitNoMreq a k x.zx hk)
    ⟨(C06Sys.waitMreq_paging x.zx.ctl a k).1, (C06Sys.waitMreq_paging x.zx.ctl a k).2.1⟩⟩
  waitInternal k x hk := ⟨[], Ext.quiet rfl rfl rfl rfl (C05Sys.timeFwd_closed.waitInternal k x.zx)
    (C04Sys.timed_closed.waitInternal k x.zx hk)
    ⟨(C06Sys.waitInternal_paging x.zx.ctl k).1, (C06Sys.waitInternal_paging x.zx.ctl k).2.1⟩⟩
  readInternal a x := ⟨[], Ext.quiet rfl rfl rfl rfl (C05Sys.timeFwd_closed.readInternal a x.zx)
    (C04Sys.timed_closed.readInternal a x.zx) ⟨rfl, rfl⟩⟩
  writeInternal a v x := ⟨[], Ext.quiet rfl rfl rfl rfl (C05Sys.timeFwd_closed.writeInternal a v x.zx)
    (C04Sys.timed_closed.writeInternal a v x.zx) ⟨rfl, rfl⟩⟩
  readIo p x := ⟨_, Ext.read x p⟩
  writeIo p v x := ⟨_, Ext.write x p v⟩
  readInterrupt x := ⟨[], Ext.quiet rfl rfl rfl rfl (C05Sys.timeFwd_closed.readInterrupt x.zx)
    (C04Sys.timed_closed.readInterrupt x.zx) ⟨rfl, rfl⟩⟩
  reti x := ⟨[], Ext.quiet rfl rfl rfl rfl (C05Sys.timeFwd_closed.reti x.zx)
    (C04Sys.timed_closed.reti x.zx) ⟨rfl, rfl⟩⟩
  halt on x := ⟨[], Ext.quiet rfl rfl rfl rfl (C05Sys.timeFwd_closed.halt on x.zx)
    (C04Sys.timed_closed.halt on x.zx) ⟨rfl, rfl⟩⟩
  pcCallback a x := ⟨[], Ext.quiet rfl rfl rfl rfl (C05Sys.timeFwd_closed.pcCallback a x.zx)
    (C04Sys.timed_closed.pcCallback a x.zx) ⟨rfl, rfl⟩⟩

/-- **Every program keeps the invariant**: whatever runs, for however long, the log of the run extends
the log at the start by entries for which everything in `Ext` holds. -/
theorem program_grows (v : Variant) (n : Nat) (s : Cpu) (x : IoZX) :
    ∃ d, Ext x (Z80.run v n (s, x)).2 d :=
  grows_closed.run v n (s, x)

end ZxVerif.Spectrum
