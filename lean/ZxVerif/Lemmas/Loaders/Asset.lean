/-
Helper lemmas for C15: what one `read`, one `seek` and `read_exact` do to an asset, for every
fault script. Everything later is derived from these facts by arithmetic.
-/
import ZxVerif.Spec.Loaders
namespace ZxVerif.Loaders

/-! ### one `read` -/

theorem read_len (a : Asset) (w : Nat) : (a.read w).2.len = a.len := by
  unfold Asset.read; simp only []; split
  · rfl
  · split <;> rfl

theorem read_byte (a : Asset) (w : Nat) : (a.read w).2.byte = a.byte := by
  unfold Asset.read; simp only []; split
  · rfl
  · split <;> rfl

theorem read_sc (a : Asset) (w : Nat) : (a.read w).2.sc = a.sc := by
  unfold Asset.read; simp only []; split
  · rfl
  · split <;> rfl

theorem read_seeks (a : Asset) (w : Nat) : (a.read w).2.seeks = a.seeks := by
  unfold Asset.read; simp only []; split
  · rfl
  · split <;> rfl

theorem read_reads (a : Asset) (w : Nat) : (a.read w).2.reads = a.reads + 1 := by
  unfold Asset.read; simp only []; split
  · rfl
  · split <;> rfl

/-- a read that reports `k` bytes has moved the cursor by exactly `k ≤ want`, and stays inside the data
unless nothing was delivered -/
theorem read_ok (a : Asset) (w k : Nat) (h : (a.read w).1 = .ok k) :
    (a.read w).2.pos = a.pos + k ∧ k ≤ w ∧ (0 < k → a.pos + k ≤ a.len) := by
  unfold Asset.read at h ⊢
  simp only [] at h ⊢
  split at h
  · cases h
  · split at h
    · split at h
      · have : k = 0 := by cases h; rfl
        subst this; simp_all
      · cases h
    · rename_i h1 h2
      have hk : k = (if a.sc.chunk a.reads = 0 then min w (a.len - a.pos)
                      else min (min w (a.len - a.pos)) (a.sc.chunk a.reads)) := by
        cases h; rfl
      simp only [h1, h2, if_false, Bool.false_eq_true]
      refine ⟨by rw [hk], ?_, ?_⟩
      · rw [hk]; split <;> omega
      · intro _; rw [hk]; split <;> omega

theorem read_err (a : Asset) (w : Nat) (e : IoErr) (h : (a.read w).1 = .error e) :
    (a.read w).2.pos = a.pos := by
  unfold Asset.read at h ⊢
  simp only [] at h ⊢
  split
  · rfl
  · split
    · rfl
    · rename_i h1 h2
      rw [if_neg h1, if_neg h2] at h
      simp at h

/-! ### one `seek` -/

theorem seek_len (a : Asset) (w : SeekFrom) : (a.seek w).2.len = a.len := by
  unfold Asset.seek; simp only []
  repeat' split
  all_goals rfl

theorem seek_byte (a : Asset) (w : SeekFrom) : (a.seek w).2.byte = a.byte := by
  unfold Asset.seek; simp only []
  repeat' split
  all_goals rfl

theorem seek_sc (a : Asset) (w : SeekFrom) : (a.seek w).2.sc = a.sc := by
  unfold Asset.seek; simp only []
  repeat' split
  all_goals rfl

theorem seek_reads (a : Asset) (w : SeekFrom) : (a.seek w).2.reads = a.reads := by
  unfold Asset.seek; simp only []
  repeat' split
  all_goals rfl

theorem seek_seeks (a : Asset) (w : SeekFrom) : (a.seek w).2.seeks = a.seeks + 1 := by
  unfold Asset.seek; simp only []
  repeat' split
  all_goals rfl

/-- `seek(Start(n))` either fails (cursor unchanged) or answers `n` and moves the cursor there -/
theorem seek_start (a : Asset) (n : Nat) :
    ((a.seek (.start n)).1 = .ok n ∧ (a.seek (.start n)).2.pos = n) ∨
    ((a.seek (.start n)).1 = .error .hostFailed ∧ (a.seek (.start n)).2.pos = a.pos) := by
  unfold Asset.seek; simp only []
  split
  · right; exact ⟨rfl, rfl⟩
  · left
    have : ¬ ((n : Int) < 0) := by omega
    simp [this]

/-- `seek(End(0))` either fails or answers the length -/
theorem seek_end (a : Asset) :
    ((a.seek (.fromEnd 0)).1 = .ok a.len ∧ (a.seek (.fromEnd 0)).2.pos = a.len) ∨
    ((a.seek (.fromEnd 0)).1 = .error .hostFailed ∧ (a.seek (.fromEnd 0)).2.pos = a.pos) := by
  unfold Asset.seek; simp only []
  split
  · right; exact ⟨rfl, rfl⟩
  · left
    have h1 : ¬ ((a.len : Int) + 0 < 0) := by omega
    have h2 : ¬ ((a.len : Int) < 0) := by omega
    simp [h1, h2]

/-- `seek(Current(0))` (`stream_position`) either fails or answers the position and stays -/
theorem seek_cur (a : Asset) :
    ((a.seek (.current 0)).1 = .ok a.pos ∧ (a.seek (.current 0)).2.pos = a.pos) ∨
    ((a.seek (.current 0)).1 = .error .hostFailed ∧ (a.seek (.current 0)).2.pos = a.pos) := by
  unfold Asset.seek; simp only []
  split
  · right; exact ⟨rfl, rfl⟩
  · left
    have h1 : ¬ ((a.pos : Int) + 0 < 0) := by omega
    have h2 : ¬ ((a.pos : Int) < 0) := by omega
    simp [h1, h2]

/-! ### `read_exact` -/

/-- everything `read_exact` guarantees, for every fault script:
the asset is the same byte string under the same script; no seek happened; the cursor only moved
forward, by at most `n`; every `read` call but the last delivered at least one byte; on success
exactly the window `[pos, pos+n)` was delivered and it lies inside the data. -/
structure ReadExactSpec (a : Asset) (n : Nat) (r : Except IoErr Unit) (a' : Asset) : Prop where
  len : a'.len = a.len
  byte : a'.byte = a.byte
  sc : a'.sc = a.sc
  seeks : a'.seeks = a.seeks
  pos_ge : a.pos ≤ a'.pos
  pos_le : a'.pos ≤ a.pos + n
  pos_in : a'.pos ≤ max a.pos a.len
  reads_ge : a.reads ≤ a'.reads
  reads_le : a'.reads ≤ a.reads + (a'.pos - a.pos) + 1
  ok : r = .ok () → a'.pos = a.pos + n ∧ (0 < n → a.pos + n ≤ a.len)

theorem readExactGo_spec (fuel : Nat) : ∀ (a : Asset) (rem : Nat), rem ≤ fuel →
    ReadExactSpec a rem (readExactGo a rem fuel).1 (readExactGo a rem fuel).2 := by
  induction fuel with
  | zero =>
    intro a rem h
    have : rem = 0 := by omega
    subst this
    simp only [readExactGo]
    exact ⟨rfl, rfl, rfl, rfl, Nat.le_refl _, by omega, by omega, Nat.le_refl _, by omega, by intro _; simp⟩
  | succ f ih =>
    intro a rem h
    unfold readExactGo
    by_cases h0 : rem = 0
    · subst h0
      simp only [if_true]
      exact ⟨rfl, rfl, rfl, rfl, Nat.le_refl _, by omega, by omega, Nat.le_refl _, by omega, by intro _; simp⟩
    · simp only [h0, if_false]
      have hl := read_len a rem
      have hb := read_byte a rem
      have hs := read_sc a rem
      have hk := read_seeks a rem
      have hr := read_reads a rem
      generalize hrd : a.read rem = rd at *
      obtain ⟨r1, a1⟩ := rd
      simp only at hl hb hs hk hr
      match r1, hrd with
      | .error e, hrd =>
        have hp := read_err a rem e (by rw [hrd])
        rw [hrd] at hp
        simp only at hp ⊢
        exact ⟨hl, hb, hs, hk, by omega, by omega, by omega, by omega, by omega, by intro h; cases h⟩
      | .ok 0, hrd =>
        have hp := (read_ok a rem 0 (by rw [hrd])).1
        rw [hrd] at hp
        simp only at hp ⊢
        exact ⟨hl, hb, hs, hk, by omega, by omega, by omega, by omega, by omega, by intro h; cases h⟩
      | .ok (k + 1), hrd =>
        have hp := read_ok a rem (k + 1) (by rw [hrd])
        rw [hrd] at hp
        simp only at hp ⊢
        obtain ⟨hp1, hp2, hp3⟩ := hp
        have hp3 := hp3 (by omega)
        have := ih a1 (rem - (k + 1)) (by omega)
        obtain ⟨l, b, s, sk, pg, pl, pi, rg, rl, ok⟩ := this
        refine ⟨by rw [l, hl], by rw [b, hb], by rw [s, hs], by rw [sk, hk], by omega, by omega, by omega, by omega, by omega, ?_⟩
        intro hok
        have := ok hok
        constructor
        · omega
        · intro _
          by_cases hz : 0 < rem - (k + 1)
          · have := this.2 hz; omega
          · omega

/-- **`read_exact_total`** — `read_exact` never loops or fails outside `Err`: for every fault
script the fuel `n` is enough, and the result satisfies `ReadExactSpec`. -/
theorem readExact_spec (a : Asset) (n : Nat) :
    ReadExactSpec a n (a.readExact n).1 (a.readExact n).2 :=
  readExactGo_spec n a n (Nat.le_refl n)

/-- without scripted failures a read inside the data delivers at least one byte, whatever the chunking -/
theorem read_progress (a : Asset) (w : Nat) (hf : a.sc.readFails = []) (hw : 0 < w) (hp : a.pos < a.len) :
    ∃ k, (a.read w).1 = .ok (k + 1) := by
  unfold Asset.read
  simp only [hf, List.contains_nil, Bool.false_eq_true, if_false]
  have : ¬ a.len ≤ a.pos := by omega
  simp only [this, if_false]
  by_cases hc : a.sc.chunk a.reads = 0
  · simp only [hc, if_true]
    exact ⟨min w (a.len - a.pos) - 1, by congr 1; omega⟩
  · simp only [hc, if_false]
    exact ⟨min (min w (a.len - a.pos)) (a.sc.chunk a.reads) - 1, by congr 1; omega⟩

/-- a failure-free asset with enough bytes left satisfies `read_exact`, for every chunking and
both end-of-file conventions -/
theorem readExactGo_ok (fuel : Nat) : ∀ (a : Asset) (rem : Nat), rem ≤ fuel → a.sc.readFails = [] →
    a.pos + rem ≤ a.len → (readExactGo a rem fuel).1 = .ok () := by
  induction fuel with
  | zero => intro a rem h _ _; have : rem = 0 := by omega
            subst this; rfl
  | succ f ih =>
    intro a rem h hf hp
    unfold readExactGo
    by_cases h0 : rem = 0
    · simp [h0]
    · simp only [h0, if_false]
      obtain ⟨k, hk⟩ := read_progress a rem hf (by omega) (by omega)
      have hok := read_ok a rem (k + 1) hk
      have hsc := read_sc a rem
      have hl := read_len a rem
      generalize a.read rem = rd at *
      obtain ⟨r1, a1⟩ := rd
      simp only at hk hok hsc hl
      subst hk
      simp only
      exact ih a1 (rem - (k + 1)) (by omega) (by rw [hsc]; exact hf) (by omega)

end ZxVerif.Loaders
