/-
Helper lemmas for C15: a small Hoare logic over the loader monad `M`. A triple says: from every
state satisfying `P`, the computation either returns a value in a state satisfying `Q`, or stops —
and then with an acceptable outcome (Ok/Err) in a state within the allocation and step bounds.
-/
import ZxVerif.Lemmas.Loaders.Asset
namespace ZxVerif.Loaders
open Spec

/-- the final bounds of the spec, on a state -/
structure Fin (a0 : Asset) (X : Nat) (s : St) : Prop where
  alloc : s.maxAlloc ≤ allocBound a0.len X
  steps : s.steps ≤ stepBound a0.len

def Triple (a0 : Asset) (X : Nat) (P : St → Prop) (m : M α) (Q : α → St → Prop) : Prop :=
  ∀ s, P s → match m s with
    | .val x s' => Q x s'
    | .stop o s' => acceptable o = true ∧ Fin a0 X s'

/-- tracking invariant: the asset is still the byte string `a0`, the cursor is at `p`, the
largest request is within the bound, at most `b` steps were taken -/
structure Tr (a0 : Asset) (X : Nat) (s : St) (p b : Nat) : Prop where
  len : s.a.len = a0.len
  byte : s.a.byte = a0.byte
  sc : s.a.sc = a0.sc
  pos : s.a.pos = p
  alloc : s.maxAlloc ≤ allocBound a0.len X
  steps : s.steps ≤ b

@[simp] theorem bind_run (m : M α) (f : α → M β) (s : St) :
    (m >>= f) s = match m s with
      | .val x s' => f x s'
      | .stop o s' => .stop o s' := rfl

@[simp] theorem pure_run (x : α) (s : St) : (pure x : M α) s = .val x s := rfl

theorem Triple.bind {a0 : Asset} {X : Nat} {P : St → Prop} {m : M α} {Q : α → St → Prop}
    {f : α → M β} {R : β → St → Prop}
    (h1 : Triple a0 X P m Q) (h2 : ∀ x, Triple a0 X (Q x) (f x) R) :
    Triple a0 X P (m >>= f) R := by
  intro s hs
  have := h1 s hs
  rw [bind_run]
  cases hm : m s with
  | val x s' => rw [hm] at this; exact h2 x s' this
  | stop o s' => rw [hm] at this; exact this

theorem Triple.pre {a0 : Asset} {X : Nat} {P P' : St → Prop} {m : M α} {Q : α → St → Prop}
    (h : Triple a0 X P m Q) (hp : ∀ s, P' s → P s) : Triple a0 X P' m Q :=
  fun s hs => h s (hp s hs)

theorem Triple.post {a0 : Asset} {X : Nat} {P : St → Prop} {m : M α} {Q Q' : α → St → Prop}
    (h : Triple a0 X P m Q) (hq : ∀ x s, Q x s → Q' x s) : Triple a0 X P m Q' := by
  intro s hs
  have := h s hs
  cases hm : m s with
  | val x s' => rw [hm] at this; exact hq x s' this
  | stop o s' => rw [hm] at this; exact this

theorem Triple.pure {a0 : Asset} {X : Nat} {P : St → Prop} (x : α) :
    Triple a0 X P (pure x : M α) (fun y s => y = x ∧ P s) :=
  fun _ hs => ⟨rfl, hs⟩

/-- a stop with an `Err` is fine whenever the state is within the final bounds -/
theorem Triple.fail {a0 : Asset} {X : Nat} {P : St → Prop} (k : ErrKind) (Q : α → St → Prop)
    (h : ∀ s, P s → Fin a0 X s) : Triple a0 X P (failM k : M α) Q :=
  fun s hs => ⟨rfl, h s hs⟩

theorem Tr.fin {a0 : Asset} {X : Nat} {s : St} {p b : Nat} (h : Tr a0 X s p b)
    (hb : b ≤ stepBound a0.len) : Fin a0 X s :=
  ⟨h.alloc, Nat.le_trans h.steps hb⟩

theorem u8_congr {a b : Asset} (h : a.byte = b.byte) (i : Nat) : a.u8 i = b.u8 i := by
  unfold Asset.u8; rw [h]

theorem le16_congr {a b : Asset} (h : a.byte = b.byte) (i : Nat) : a.le16 i = b.le16 i := by
  unfold Asset.le16; rw [u8_congr h, u8_congr h]

theorem le32_congr {a b : Asset} (h : a.byte = b.byte) (i : Nat) : a.le32 i = b.le32 i := by
  unfold Asset.le32; rw [u8_congr h, u8_congr h, u8_congr h, u8_congr h]

theorem window_congr {a b : Asset} (h : a.byte = b.byte) (i n : Nat) : a.window i n = b.window i n := by
  unfold Asset.window; simp only [u8_congr h]

theorem u8_lt (a : Asset) (i : Nat) : a.u8 i < 256 := (a.byte i).isLt

/-! ### primitives -/

theorem tick_triple {a0 : Asset} {X p b : Nat} (n : Nat) :
    Triple a0 X (fun s => Tr a0 X s p b) (tick n) (fun _ s => Tr a0 X s p (b + n)) := by
  intro s hs
  simp only [tick]
  exact ⟨hs.len, hs.byte, hs.sc, hs.pos, hs.alloc, by have := hs.steps; simp only [St.steps] at *; omega⟩

theorem alloc_triple {a0 : Asset} {X p b : Nat} (n : Nat) (hn : n ≤ allocBound a0.len X) :
    Triple a0 X (fun s => Tr a0 X s p b) (alloc n) (fun _ s => Tr a0 X s p b) := by
  intro s hs
  simp only [alloc]
  exact ⟨hs.len, hs.byte, hs.sc, hs.pos, by have := hs.alloc; simp only []; omega, hs.steps⟩

theorem getAsset_triple {a0 : Asset} {X p b : Nat} :
    Triple a0 X (fun s => Tr a0 X s p b) getAsset
      (fun a s => a.byte = a0.byte ∧ a.len = a0.len ∧ a.sc = a0.sc ∧ a.pos = p ∧ Tr a0 X s p b) := by
  intro s hs
  simp only [getAsset]
  exact ⟨hs.byte, hs.len, hs.sc, hs.pos, hs⟩

/-- `seek(Start(n))?` -/
theorem seekStart_triple {a0 : Asset} {X p b : Nat} (n : Nat) (hb : b + 1 ≤ stepBound a0.len) :
    Triple a0 X (fun s => Tr a0 X s p b) (seekM (.start n)) (fun r s => r = n ∧ Tr a0 X s n (b + 1)) := by
  intro s hs
  simp only [seekM]
  have hl := seek_len s.a (.start n)
  have hby := seek_byte s.a (.start n)
  have hsc := seek_sc s.a (.start n)
  have hr := seek_reads s.a (.start n)
  have hk := seek_seeks s.a (.start n)
  have hst := hs.steps
  simp only [St.steps] at hst
  rcases seek_start s.a n with ⟨h1, h2⟩ | ⟨h1, h2⟩
  all_goals
    generalize hsk : s.a.seek (.start n) = sk at *
    obtain ⟨r, a'⟩ := sk
    simp only at h1 h2 hl hby hsc hr hk
    subst h1
    simp only
  · exact ⟨by first | rfl | trivial, by rw [hl, hs.len], by rw [hby, hs.byte], by rw [hsc, hs.sc], h2, hs.alloc,
      by simp only [St.steps]; omega⟩
  · exact ⟨rfl, hs.alloc, by simp only [St.steps, stepBound] at *; omega⟩

/-- `seek(End(0))?` -/
theorem seekEnd_triple {a0 : Asset} {X p b : Nat} (hb : b + 1 ≤ stepBound a0.len) :
    Triple a0 X (fun s => Tr a0 X s p b) (seekM (.fromEnd 0))
      (fun r s => r = a0.len ∧ Tr a0 X s a0.len (b + 1)) := by
  intro s hs
  simp only [seekM]
  have hl := seek_len s.a (.fromEnd 0)
  have hby := seek_byte s.a (.fromEnd 0)
  have hsc := seek_sc s.a (.fromEnd 0)
  have hr := seek_reads s.a (.fromEnd 0)
  have hk := seek_seeks s.a (.fromEnd 0)
  have hst := hs.steps
  have hlen := hs.len
  simp only [St.steps] at hst
  rcases seek_end s.a with ⟨h1, h2⟩ | ⟨h1, h2⟩
  all_goals
    generalize hsk : s.a.seek (.fromEnd 0) = sk at *
    obtain ⟨r, a'⟩ := sk
    simp only at h1 h2 hl hby hsc hr hk
    subst h1
    simp only
  · exact ⟨hlen, by rw [hl, hs.len], by rw [hby, hs.byte], by rw [hsc, hs.sc], by rw [h2, hlen], hs.alloc,
      by simp only [St.steps]; omega⟩
  · exact ⟨rfl, hs.alloc, by simp only [St.steps, stepBound] at *; omega⟩

/-- `read_exact(n)` with the result inspected by the caller -/
theorem tryReadExact_triple {a0 : Asset} {X p b : Nat} (n : Nat) :
    Triple a0 X (fun s => Tr a0 X s p b) (tryReadExact n)
      (fun r s => match r with
        | .ok w => w = p ∧ (0 < n → p + n ≤ a0.len) ∧ Tr a0 X s (p + n) (b + n + 1)
        | .error _ => ∃ p', p ≤ p' ∧ p' ≤ max p a0.len ∧ p' ≤ p + n ∧ Tr a0 X s p' (b + (p' - p) + 1)) := by
  intro s hs
  simp only [tryReadExact]
  have sp := readExact_spec s.a n
  have hst := hs.steps
  simp only [St.steps] at hst
  generalize s.a.readExact n = re at *
  obtain ⟨r, a'⟩ := re
  simp only at sp
  match r, sp with
  | .ok (), sp =>
    have := sp.ok rfl
    simp only
    refine ⟨hs.pos, ?_, ⟨by rw [sp.len, hs.len], by rw [sp.byte, hs.byte], by rw [sp.sc, hs.sc], by rw [this.1, hs.pos], hs.alloc, ?_⟩⟩
    · intro hn; have := this.2 hn; rw [hs.pos, hs.len] at this; exact this
    · have h1 := sp.reads_le; have h2 := sp.seeks; have h3 := this.1
      simp only [St.steps]; omega
  | .error e, sp =>
    simp only
    refine ⟨a'.pos, ?_, ?_, ?_, ⟨by rw [sp.len, hs.len], by rw [sp.byte, hs.byte], by rw [sp.sc, hs.sc], rfl, hs.alloc, ?_⟩⟩
    · have := sp.pos_ge; rw [hs.pos] at this; exact this
    · have := sp.pos_in; rw [hs.pos, hs.len] at this; exact this
    · have := sp.pos_le; rw [hs.pos] at this; exact this
    · have h1 := sp.reads_le; have h2 := sp.seeks; have h3 := sp.pos_ge; have h4 := hs.pos
      simp only [St.steps]; omega

/-- `read_exact(n)?` — needs room in the step budget for the bytes that can still be delivered -/
theorem readExactM_triple {a0 : Asset} {X p b : Nat} (n : Nat)
    (hb : b + (min (p + n) (max p a0.len) - p) + 1 ≤ stepBound a0.len) :
    Triple a0 X (fun s => Tr a0 X s p b) (readExactM n)
      (fun w s => w = p ∧ (0 < n → p + n ≤ a0.len) ∧ Tr a0 X s (p + n) (b + n + 1)) := by
  intro s hs
  have := tryReadExact_triple (X := X) n s hs
  simp only [tryReadExact, readExactM] at this ⊢
  generalize s.a.readExact n = re at *
  obtain ⟨r, a'⟩ := re
  match r, this with
  | .ok (), this => exact this
  | .error e, this =>
    simp only at this ⊢
    obtain ⟨p', h1, h2, h3, tr⟩ := this
    exact ⟨rfl, tr.alloc, Nat.le_trans tr.steps (by omega)⟩

end ZxVerif.Loaders
