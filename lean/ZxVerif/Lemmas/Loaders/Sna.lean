/-
Helper lemmas for C15: control-flow combinators and the SNA / SCR / ROM loaders.
-/
import ZxVerif.Lemmas.Loaders.Hoare
namespace ZxVerif.Loaders
open Spec

theorem Triple.pure_pre {a0 : Asset} {X : Nat} {φ : Prop} {P : St → Prop} {m : M α} {Q : α → St → Prop}
    (h : φ → Triple a0 X P m Q) : Triple a0 X (fun s => φ ∧ P s) m Q :=
  fun s hs => h hs.1 s hs.2

theorem Triple.ite {a0 : Asset} {X : Nat} {P : St → Prop} {c : Prop} [Decidable c] {m1 m2 : M α}
    {Q : α → St → Prop} (h1 : c → Triple a0 X P m1 Q) (h2 : ¬c → Triple a0 X P m2 Q) :
    Triple a0 X P (if c then m1 else m2) Q := by
  by_cases hc : c
  · simp only [hc, if_true]; exact h1 hc
  · simp only [hc, if_false]; exact h2 hc

/-- `if bad { return Err }`: afterwards `bad` is false -/
theorem guardM_triple {a0 : Asset} {X : Nat} {P : St → Prop} (bad : Bool) (k : ErrKind)
    (h : ∀ s, P s → Fin a0 X s) :
    Triple a0 X P (guardM bad k) (fun _ s => bad = false ∧ P s) := by
  intro s hs
  cases bad with
  | true => exact ⟨rfl, h s hs⟩
  | false => exact ⟨rfl, hs⟩

/-- a validity check passes or answers `Err` — provided the site is repaired or the input is good -/
theorem check_triple {a0 : Asset} {X : Nat} {P : St → Prop} (fx : Fix) (p : Site) (bad : Bool) (k : ErrKind)
    (hg : fx p = true ∨ bad = false) (h : ∀ s, P s → Fin a0 X s) :
    Triple a0 X P (check fx p bad k) (fun _ s => bad = false ∧ P s) := by
  intro s hs
  cases bad with
  | false => exact ⟨rfl, hs⟩
  | true =>
    have : fx p = true := by cases hg with | inl h => exact h | inr h => cases h
    simp only [check, this, if_true]
    exact ⟨rfl, h s hs⟩

/-- receivers as the emulator can be: the bank at 0xC000 exists, only the 128K machine can be unlocked -/
structure Recv.WF (r : Recv) : Prop where
  bank : r.bank < r.ramPages
  unlocked : r.locked = false → r.m128 = true

theorem Recv.WF.write7ffd {r : Recv} (h : r.WF) (v : Nat) : (r.write7ffd v).WF := by
  unfold Recv.write7ffd
  by_cases hl : r.locked = true
  · simp only [hl, if_true]; exact h
  · have hm := h.unlocked (by simpa using hl)
    simp only [hl, Bool.false_eq_true, if_false]
    constructor
    · show v % 8 < (if r.m128 = true then 8 else 3)
      rw [hm]; simp only [if_true]; omega
    · intro _; exact hm

theorem write7ffd_m128 (r : Recv) (v : Nat) : (r.write7ffd v).m128 = r.m128 := by
  unfold Recv.write7ffd; split <;> rfl

theorem Triple.ret {a0 : Asset} {X : Nat} {P : St → Prop} {Q : α → St → Prop} (x : α)
    (h : ∀ s, P s → Q x s) : Triple a0 X P (Pure.pure x : M α) Q :=
  fun s hs => h s hs

theorem PAGE_eq : PAGE = 16384 := rfl

/-- `ram_page_data_mut(page)` + `read_exact(page)?` -/
theorem loadPage_triple {a0 : Asset} {X : Nat} (fx : Fix) (r : Recv) (site : Site) (k : ErrKind)
    (q p b : Nat) (hg : fx site = true ∨ q < r.ramPages) (hp : p ≤ a0.len)
    (hb : b + (a0.len - p) + 1 ≤ stepBound a0.len) :
    Triple a0 X (fun s => Tr a0 X s p b) (loadPage fx r site k q)
      (fun _ s => p + PAGE ≤ a0.len ∧ Tr a0 X s (p + PAGE) (b + PAGE + 1)) := by
  have hP := PAGE_eq
  have hbad : fx site = true ∨ decide (r.ramPages ≤ q) = false := by
    cases hg with
    | inl h => exact Or.inl h
    | inr h => right; simp; omega
  unfold loadPage
  apply Triple.bind (check_triple fx site _ k hbad (fun s hs => hs.fin (by omega)))
  intro _
  apply Triple.pure_pre; intro _
  apply Triple.bind (readExactM_triple PAGE (by omega))
  intro _
  apply Triple.ret
  intro s ⟨_, h2, h3⟩
  exact ⟨h2 (by omega), h3⟩

theorem Recv.WF.load7ffd {r : Recv} (h : r.WF) (fx : Fix) (v : Nat) : (r.load7ffd fx v).WF := by
  unfold Recv.load7ffd Recv.restore7ffd
  split
  · split
    · rename_i hm
      exact Recv.WF.write7ffd (r := { r with locked := false }) ⟨h.bank, fun _ => hm⟩ v
    · exact h.write7ffd v
  · exact h.write7ffd v

theorem load7ffd_m128 (fx : Fix) (r : Recv) (v : Nat) : (r.load7ffd fx v).m128 = r.m128 := by
  unfold Recv.load7ffd Recv.restore7ffd
  split
  · split <;> rw [write7ffd_m128]
  · rw [write7ffd_m128]

/-- a run of `ram_page_data_mut(page)` + `read_exact(page)`: all pages exist (or the site is repaired) -/
theorem loadPages_triple {a0 : Asset} {X : Nat} (fx : Fix) (r : Recv) (site : Site) (k : ErrKind) :
    ∀ (pages : List Nat) (p b : Nat), (fx site = true ∨ ∀ q ∈ pages, q < r.ramPages) →
      p ≤ a0.len → b + (a0.len - p) + pages.length + 1 ≤ stepBound a0.len →
      Triple a0 X (fun s => Tr a0 X s p b) (loadPages fx r site k pages)
        (fun _ s => p + PAGE * pages.length ≤ a0.len ∧ Tr a0 X s (p + PAGE * pages.length) (b + (PAGE + 1) * pages.length)) := by
  have hP := PAGE_eq
  intro pages
  induction pages with
  | nil =>
    intro p b _ hp _
    simp only [loadPages, List.length_nil, Nat.mul_zero, Nat.add_zero]
    intro s hs
    exact ⟨hp, hs⟩
  | cons q qs ih =>
    intro p b hg hp hb
    simp only [List.length_cons] at hb ⊢
    unfold loadPages
    have hq : fx site = true ∨ q < r.ramPages := by
      cases hg with
      | inl h => exact Or.inl h
      | inr h => exact Or.inr (h q List.mem_cons_self)
    apply Triple.bind (loadPage_triple fx r site k q p b hq hp (by omega))
    intro _
    apply Triple.pure_pre; intro hpp
    have := ih (p + PAGE) (b + PAGE + 1)
      (by cases hg with
          | inl h => exact Or.inl h
          | inr h => exact Or.inr (fun q' hq' => h q' (List.mem_cons_of_mem _ hq')))
      hpp (by omega)
    apply Triple.post this
    intro _ s ⟨h1, h2⟩
    have e1 : p + PAGE + PAGE * qs.length = p + PAGE * (qs.length + 1) := by
      rw [Nat.mul_add]; omega
    have e2 : b + PAGE + 1 + (PAGE + 1) * qs.length = b + (PAGE + 1) * (qs.length + 1) := by
      rw [Nat.mul_add]; omega
    rw [e1, e2] at h2
    exact ⟨by omega, h2⟩

theorem Triple.exists_pre {a0 : Asset} {X : Nat} {ι : Type} {P : ι → St → Prop} {m : M α} {Q : α → St → Prop}
    (h : ∀ i, Triple a0 X (P i) m Q) : Triple a0 X (fun s => ∃ i, P i s) m Q :=
  fun s ⟨i, hi⟩ => h i s hi

/-! ### SNA -/

/-- what the SNA loader needs from the file where the code is not repaired: IM byte not 3, and a
128K-sized file only on the 128K machine -/
def snaGuard (fx : Fix) (r : Recv) (a0 : Asset) : Prop :=
  (fx .snaIm = true ∨ a0.u8 25 % 4 ≠ 3) ∧
  (fx .snaPage = true ∨ r.m128 = true ∨ a0.len ≤ SNA_48K_SIZE)

/-- where a finished branch of the loader stands: somewhere, with at least one step to spare -/
def Done (a0 : Asset) (X : Nat) (s : St) : Prop :=
  ∃ p b, Tr a0 X s p b ∧ b + 1 ≤ stepBound a0.len

theorem sna48_triple {a0 : Asset} (fx : Fix) (r : Recv) (hr : r.WF) (hL : 27 ≤ a0.len) :
    Triple a0 0 (fun s => Tr a0 0 s 27 30) (sna48 fx r) (fun _ s => Done a0 0 s) := by
  have hP := PAGE_eq
  unfold sna48
  have hpages : fx .snaPage = true ∨ ∀ q ∈ [0, 1, 2], q < r.ramPages := by
    right; intro q hq
    have : 3 ≤ r.ramPages := by unfold Recv.ramPages; split <;> omega
    simp at hq; omega
  apply Triple.bind (loadPages_triple fx r .snaPage .machineNotSupported [0, 1, 2] 27 30 hpages hL
    (by simp only [stepBound, List.length]; omega))
  intro _
  apply Triple.pure_pre; intro h
  simp only [List.length] at h ⊢
  apply Triple.post (tick_triple 2)
  intro _ s hs
  exact ⟨_, _, hs, by simp only [stepBound]; omega⟩

theorem sna128_triple {a0 : Asset} (fx : Fix) (r : Recv) (hr : r.WF)
    (hg : fx .snaPage = true ∨ r.m128 = true) :
    Triple a0 0 (fun s => Tr a0 0 s 27 30) (sna128 fx r) (fun _ s => Done a0 0 s) := by
  have hP := PAGE_eq
  have hS : SNA_48K_SIZE = 49179 := rfl
  unfold sna128
  apply Triple.bind (seekStart_triple SNA_48K_SIZE (by simp only [stepBound]; omega))
  intro _; apply Triple.pure_pre; intro _
  apply Triple.bind (readExactM_triple 4 (by simp only [stepBound]; omega))
  intro t; apply Triple.pure_pre; intro _; apply Triple.pure_pre; intro hL
  have hL := hL (by omega)
  apply Triple.bind getAsset_triple
  intro a; apply Triple.pure_pre; intro _; apply Triple.pure_pre; intro _
  apply Triple.pure_pre; intro _; apply Triple.pure_pre; intro _
  apply Triple.bind (seekStart_triple 27 (by simp only [stepBound]; omega))
  intro _; apply Triple.pure_pre; intro _
  have hr' := hr.load7ffd fx (a.u8 (t + 2))
  have hm' := load7ffd_m128 fx r (a.u8 (t + 2))
  generalize r.load7ffd fx (a.u8 (t + 2)) = r' at hr' hm'
  have h8 : r.m128 = true → r'.ramPages = 8 := by
    intro h; unfold Recv.ramPages; rw [hm', h]; rfl
  have hhead : fx .snaPage = true ∨ ∀ q ∈ [5, 2, r'.bank], q < r'.ramPages := by
    cases hg with
    | inl h => exact Or.inl h
    | inr h =>
      right; intro q hq
      have := h8 h; have := hr'.bank
      simp at hq; omega
  apply Triple.bind (loadPages_triple fx r' .snaPage .machineNotSupported [5, 2, r'.bank] 27
    _ hhead (by omega) (by simp only [stepBound, List.length]; omega))
  intro _; apply Triple.pure_pre; intro h3
  simp only [List.length] at h3 ⊢
  apply Triple.bind (seekStart_triple 49183 (by simp only [stepBound]; omega))
  intro _; apply Triple.pure_pre; intro _
  have hlen : ([0, 1, 3, 4, 6, 7].filter (· ≠ r'.bank)).length ≤ 6 :=
    Nat.le_trans (List.length_filter_le _ _) (by simp)
  have htail : fx .snaPage = true ∨ ∀ q ∈ [0, 1, 3, 4, 6, 7].filter (· ≠ r'.bank), q < r'.ramPages := by
    cases hg with
    | inl h => exact Or.inl h
    | inr h =>
      right; intro q hq
      have := h8 h
      have hq := (List.mem_filter.1 hq).1
      simp at hq; omega
  apply Triple.post (loadPages_triple fx r' .snaPage .machineNotSupported _ 49183 _ htail (by omega)
    (by simp only [stepBound]; omega))
  intro _ s ⟨h1, h2⟩
  have e : (PAGE + 1) * ([0, 1, 3, 4, 6, 7].filter (· ≠ r'.bank)).length
      = PAGE * ([0, 1, 3, 4, 6, 7].filter (· ≠ r'.bank)).length
        + ([0, 1, 3, 4, 6, 7].filter (· ≠ r'.bank)).length := by
    rw [Nat.add_mul, Nat.one_mul]
  exact ⟨_, _, h2, by simp only [stepBound]; omega⟩

theorem snaLoad_triple {a0 : Asset} (fx : Fix) (r : Recv) (hr : r.WF) (hg : snaGuard fx r a0) (p0 : Nat) :
    Triple a0 0 (fun s => Tr a0 0 s p0 0) (snaLoad fx r) (fun _ s => Fin a0 0 s) := by
  have hS : SNA_48K_SIZE = 49179 := rfl
  unfold snaLoad
  apply Triple.bind (seekEnd_triple (by simp only [stepBound]; omega))
  intro size; apply Triple.pure_pre; intro hsize; subst hsize
  apply Triple.bind (seekStart_triple 0 (by simp only [stepBound]; omega))
  intro _; apply Triple.pure_pre; intro _
  apply Triple.bind (guardM_triple _ _ (fun s hs => hs.fin (by simp only [stepBound]; omega)))
  intro _; apply Triple.pure_pre; intro hlen
  have hL : SNA_48K_SIZE ≤ a0.len := by
    by_cases h : SNA_48K_SIZE < a0.len
    · omega
    · simp [h] at hlen; omega
  apply Triple.bind (guardM_triple _ _ (fun s hs => hs.fin (by simp only [stepBound]; omega)))
  intro _; apply Triple.pure_pre; intro _
  apply Triple.bind (readExactM_triple 27 (by simp only [stepBound]; omega))
  intro h; apply Triple.pure_pre; intro hh; subst hh; apply Triple.pure_pre; intro _
  apply Triple.bind getAsset_triple
  intro a; apply Triple.pure_pre; intro hbyte; apply Triple.pure_pre; intro _
  apply Triple.pure_pre; intro _; apply Triple.pure_pre; intro _
  have him : fx .snaIm = true ∨ decide (a.u8 (0 + 25) % 4 = 3) = false := by
    cases hg.1 with
    | inl h => exact Or.inl h
    | inr h => right; rw [u8_congr hbyte]; simpa using h
  apply Triple.bind (check_triple fx .snaIm _ _ him (fun s hs => hs.fin (by simp only [stepBound]; omega)))
  intro _; apply Triple.pure_pre; intro _
  apply Triple.bind (Q := fun _ s => Done a0 0 s)
  · apply Triple.ite
    · intro h128
      have h128 : SNA_48K_SIZE < a0.len := by simpa using h128
      apply sna128_triple fx r hr
      cases hg.2 with
      | inl h => exact Or.inl h
      | inr h => cases h with
        | inl h => exact Or.inr h
        | inr h => omega
    · intro _
      exact sna48_triple fx r hr (by omega)
  · intro _
    apply Triple.exists_pre; intro p
    apply Triple.exists_pre; intro b
    intro s ⟨hs, hb⟩
    have := tick_triple (X := 0) 1 s hs
    simp only [tick] at this ⊢
    exact this.fin hb

/-! ### from triples to the spec -/

/-- a fresh asset: cursor and counters at zero -/
structure Asset.Fresh (a : Asset) : Prop where
  reads : a.reads = 0
  seeks : a.seeks = 0

theorem Asset.ofList_fresh (l : List Byte) (sc : Script) : (Asset.ofList l sc).Fresh := ⟨rfl, rfl⟩

theorem Triple.meets {a0 : Asset} {X : Nat} {m : M Unit} (hf : a0.Fresh)
    (h : Triple a0 X (fun s => Tr a0 X s a0.pos 0) m (fun _ s => Fin a0 X s)) :
    Meets a0.len X (M.run m a0) := by
  have h0 : Tr a0 X { a := a0 } a0.pos 0 :=
    ⟨rfl, rfl, rfl, rfl, by simp, by simp [St.steps, hf.reads, hf.seeks]⟩
  have := h _ h0
  unfold M.run
  cases hm : m { a := a0 } with
  | val x s => rw [hm] at this; exact ⟨rfl, this.alloc, this.steps⟩
  | stop o s => rw [hm] at this; exact ⟨this.1, this.2.alloc, this.2.steps⟩

/-! ### SCR -/

theorem scrLoad_triple {a0 : Asset} (p0 : Nat) :
    Triple a0 0 (fun s => Tr a0 0 s p0 0) scrLoad (fun _ s => Fin a0 0 s) := by
  unfold scrLoad
  apply Triple.bind (seekEnd_triple (by simp only [stepBound]; omega))
  intro size; apply Triple.pure_pre; intro hsize; subst hsize
  apply Triple.bind (guardM_triple _ _ (fun s hs => hs.fin (by simp only [stepBound]; omega)))
  intro _; apply Triple.pure_pre; intro hlen
  have hL : a0.len = 6912 := by simpa using hlen
  apply Triple.bind (seekStart_triple 0 (by simp only [stepBound]; omega))
  intro _; apply Triple.pure_pre; intro _
  apply Triple.bind (tick_triple 3)
  intro _
  apply Triple.bind (readExactM_triple 6912 (by simp only [stepBound]; omega))
  intro _; apply Triple.pure_pre; intro _; apply Triple.pure_pre; intro _
  apply Triple.post (tick_triple 1)
  intro _ s hs
  exact hs.fin (by simp only [stepBound]; omega)

/-! ### ROM -/

theorem romPage_meets (a : Asset) (hf : a.Fresh) :
    let res := M.run (do let _ ← readExactM PAGE) a
    acceptable res.outcome = true ∧ res.maxAlloc = 0 ∧ res.steps ≤ a.len + 1 := by
  have hP := PAGE_eq
  have sp := readExact_spec a PAGE
  simp only [M.run, bind_run, readExactM, pure_run]
  generalize a.readExact PAGE = re at *
  obtain ⟨r, a'⟩ := re
  have h1 := sp.reads_le; have h2 := sp.seeks; have h3 := sp.pos_in; have h4 := sp.pos_ge
  have h5 := hf.reads; have h6 := hf.seeks
  simp only at h1 h2 h3 h4
  match r with
  | .ok () => simp only [St.steps]; exact ⟨by first | rfl | trivial, by first | rfl | trivial, by omega⟩
  | .error e => simp only [St.steps]; exact ⟨by first | rfl | trivial, by first | rfl | trivial, by omega⟩

def sumLen (as : List Asset) : Nat := (as.map (·.len)).foldr (· + ·) 0

theorem romGo_meets : ∀ (n : Nat) (as : List Asset) (steps : Nat), (∀ a ∈ as, a.Fresh) →
    let res := romLoad.go n as steps
    acceptable res.outcome = true ∧ res.maxAlloc = 0 ∧ res.steps ≤ steps + sumLen as + 2 * n := by
  intro n
  induction n with
  | zero => intro as steps _; simp [romLoad.go, acceptable]
  | succ n ih =>
    intro as steps hf
    cases as with
    | nil => simp [romLoad.go, acceptable]; omega
    | cons a rest =>
      have ha := romPage_meets a (hf a List.mem_cons_self)
      simp only [romLoad.go]
      simp only at ha
      generalize M.run (do let _ ← readExactM PAGE) a = res at ha
      obtain ⟨h1, h2, h3⟩ := ha
      have hs : sumLen (a :: rest) = a.len + sumLen rest := by simp [sumLen]
      cases ho : res.outcome with
      | ok =>
        simp only
        have := ih rest (steps + res.steps + 1) (fun x hx => hf x (List.mem_cons_of_mem _ hx))
        simp only at this
        refine ⟨this.1, this.2.1, ?_⟩
        have := this.2.2
        omega
      | err k => simp only; exact ⟨by first | rfl | trivial, by first | rfl | trivial, by omega⟩
      | panic p => rw [ho] at h1; cases h1
      | hang => rw [ho] at h1; cases h1

end ZxVerif.Loaders
