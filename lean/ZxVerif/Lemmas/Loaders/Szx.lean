/-
Helper lemmas for C15: the SZX chunk handlers and the chunk walker.
-/
import ZxVerif.Lemmas.Loaders.Sna
namespace ZxVerif.Loaders
open Spec

theorem Tr.mono {a0 : Asset} {X : Nat} {s : St} {p b b' : Nat} (h : Tr a0 X s p b) (hb : b ≤ b') :
    Tr a0 X s p b' :=
  ⟨h.len, h.byte, h.sc, h.pos, h.alloc, Nat.le_trans h.steps hb⟩

theorem or_dec {f : Bool} {c : Prop} [Decidable c] (h : f = true ∨ ¬c) : f = true ∨ decide c = false := by
  cases h with
  | inl h => exact Or.inl h
  | inr h => exact Or.inr (by simp [h])

theorem len_guard {f : Bool} {size k n : Nat} (g : f = true ∨ n ≤ size) (hk : k ≤ n) :
    f = true ∨ decide (size < k) = false := by
  cases g with
  | inl h => exact Or.inl h
  | inr h => right; simp; omega

/-- what each known chunk must satisfy where its handler is not repaired -/
def chunkOK (fx : Fix) (e : SzxEnv) (a0 : Asset) (ay : Bool) (b size : Nat) : ChunkId → Prop
  | .crtr => (fx .szxCrtrShort = true ∨ 37 ≤ size) ∧ (fx .szxCrtrUtf8 = true ∨ utf8Valid (a0.window b 33) = true)
  | .z80r => (fx .szxZ80rShort = true ∨ 37 ≤ size) ∧ (fx .szxZ80rIm = true ∨ a0.u8 (b + 28) < 3)
  | .spcr => (fx .szxSpcrShort = true ∨ 4 ≤ size) ∧ (fx .szxSpcrBorder = true ∨ a0.u8 b ≤ 7)
  | .ay => fx .szxAyShort = true ∨ (1 ≤ size ∧ (ayAfter e.mid ay (a0.u8 b) = true → 18 ≤ size))
  | .keyb => fx .szxKeybShort = true ∨ 5 ≤ size
  | .amxm => fx .szxAmxmShort = true ∨ 1 ≤ size
  | .ramp =>
      (fx .szxRampShort = true ∨ 3 ≤ size) ∧
      (fx .szxRampPage = true ∨ rampPage e.mid (a0.u8 (b + 2)) < e.r.ramPages) ∧
      (if a0.le16 b % 2 = 1 then
         fx .szxRampInflated = true ∨ ∀ n, e.inflate (b + 3) (size - 3) = some n → PAGE ≤ n
       else fx .szxRampData = true ∨ PAGE ≤ size - 3)
  | .other => True

/-- `ay_enabled` after the chunk -/
def ayNext (e : SzxEnv) (a0 : Asset) (ay : Bool) (b : Nat) : ChunkId → Bool
  | .ay => ayAfter e.mid ay (a0.u8 b)
  | _ => ay

section handlers
variable {a0 : Asset} {p b : Nat} (fx : Fix) (e : SzxEnv) (ay : Bool) (blk size : Nat)

theorem szxCrtr_triple (hb : b + 2 ≤ stepBound a0.len) (hg : chunkOK fx e a0 ay blk size .crtr) :
    Triple a0 0 (fun s => Tr a0 0 s p b) (szxCrtr fx blk size) (fun _ s => Tr a0 0 s p (b + 2)) := by
  have fin : ∀ s, Tr a0 0 s p b → Fin a0 0 s := fun s hs => hs.fin (by omega)
  obtain ⟨g1, g2⟩ := hg
  unfold szxCrtr
  apply Triple.bind (guardM_triple _ _ fin); intro _; apply Triple.pure_pre; intro _
  apply Triple.bind (check_triple fx .szxCrtrShort _ _ (len_guard g1 (by omega)) fin)
  intro _; apply Triple.pure_pre; intro _
  apply Triple.bind getAsset_triple
  intro a; apply Triple.pure_pre; intro hby; apply Triple.pure_pre; intro _
  apply Triple.pure_pre; intro _; apply Triple.pure_pre; intro _
  apply Triple.bind (check_triple fx .szxCrtrUtf8 _ _ (by
    cases g2 with
    | inl h => exact Or.inl h
    | inr h => right; rw [window_congr hby, h]; rfl) fin)
  intro _; apply Triple.pure_pre; intro _
  apply Triple.post (check_triple fx .szxCrtrShort _ _ (len_guard g1 (by omega)) fin)
  intro _ s hs; exact hs.2.mono (by omega)

theorem szxZ80r_triple (hb : b + 2 ≤ stepBound a0.len) (hg : chunkOK fx e a0 ay blk size .z80r) :
    Triple a0 0 (fun s => Tr a0 0 s p b) (szxZ80r fx blk size) (fun _ s => Tr a0 0 s p (b + 2)) := by
  have fin : ∀ s, Tr a0 0 s p b → Fin a0 0 s := fun s hs => hs.fin (by omega)
  obtain ⟨g1, g2⟩ := hg
  unfold szxZ80r
  apply Triple.bind (guardM_triple _ _ fin); intro _; apply Triple.pure_pre; intro _
  apply Triple.bind (check_triple fx .szxZ80rShort _ _ (len_guard g1 (by omega)) fin)
  intro _; apply Triple.pure_pre; intro _
  apply Triple.bind getAsset_triple
  intro a; apply Triple.pure_pre; intro hby; apply Triple.pure_pre; intro _
  apply Triple.pure_pre; intro _; apply Triple.pure_pre; intro _
  apply Triple.bind (check_triple fx .szxZ80rIm _ _ (by
    cases g2 with
    | inl h => exact Or.inl h
    | inr h => right; rw [u8_congr hby]; simp; omega) fin)
  intro _; apply Triple.pure_pre; intro _
  apply Triple.post (check_triple fx .szxZ80rShort _ _ (len_guard g1 (by omega)) fin)
  intro _ s hs; exact hs.2.mono (by omega)

theorem szxSpcr_triple (hb : b + 2 ≤ stepBound a0.len) (hg : chunkOK fx e a0 ay blk size .spcr) :
    Triple a0 0 (fun s => Tr a0 0 s p b) (szxSpcr fx blk size) (fun _ s => Tr a0 0 s p (b + 2)) := by
  have fin : ∀ s, Tr a0 0 s p b → Fin a0 0 s := fun s hs => hs.fin (by omega)
  obtain ⟨g1, g2⟩ := hg
  unfold szxSpcr
  apply Triple.bind (check_triple fx .szxSpcrShort _ _ (len_guard g1 (by omega)) fin)
  intro _; apply Triple.pure_pre; intro _
  apply Triple.bind getAsset_triple
  intro a; apply Triple.pure_pre; intro hby; apply Triple.pure_pre; intro _
  apply Triple.pure_pre; intro _; apply Triple.pure_pre; intro _
  apply Triple.post (check_triple fx .szxSpcrBorder _ _ (by
    cases g2 with
    | inl h => exact Or.inl h
    | inr h => right; rw [u8_congr hby]; simp; omega) fin)
  intro _ s hs; exact hs.2.mono (by omega)

theorem szxKeyb_triple (hb : b + 2 ≤ stepBound a0.len) (hg : chunkOK fx e a0 ay blk size .keyb) :
    Triple a0 0 (fun s => Tr a0 0 s p b) (szxKeyb fx size) (fun _ s => Tr a0 0 s p (b + 2)) := by
  have fin : ∀ s, Tr a0 0 s p b → Fin a0 0 s := fun s hs => hs.fin (by omega)
  unfold szxKeyb
  apply Triple.post (check_triple fx .szxKeybShort _ _ (len_guard hg (by omega)) fin)
  intro _ s hs; exact hs.2.mono (by omega)

theorem szxAmxm_triple (hb : b + 2 ≤ stepBound a0.len) (hg : chunkOK fx e a0 ay blk size .amxm) :
    Triple a0 0 (fun s => Tr a0 0 s p b) (szxAmxm fx size) (fun _ s => Tr a0 0 s p (b + 2)) := by
  have fin : ∀ s, Tr a0 0 s p b → Fin a0 0 s := fun s hs => hs.fin (by omega)
  unfold szxAmxm
  apply Triple.post (check_triple fx .szxAmxmShort _ _ (len_guard hg (by omega)) fin)
  intro _ s hs; exact hs.2.mono (by omega)

theorem szxAy_triple (hb : b + 2 ≤ stepBound a0.len) (hg : chunkOK fx e a0 ay blk size .ay) :
    Triple a0 0 (fun s => Tr a0 0 s p b) (szxAy fx e ay blk size)
      (fun r s => r = ayAfter e.mid ay (a0.u8 blk) ∧ Tr a0 0 s p (b + 2)) := by
  have fin : ∀ s, Tr a0 0 s p b → Fin a0 0 s := fun s hs => hs.fin (by omega)
  unfold szxAy
  apply Triple.bind (check_triple fx .szxAyShort _ _ (by
    cases hg with
    | inl h => exact Or.inl h
    | inr h => right; simp; omega) fin)
  intro _; apply Triple.pure_pre; intro _
  apply Triple.bind getAsset_triple
  intro a; apply Triple.pure_pre; intro hby; apply Triple.pure_pre; intro _
  apply Triple.pure_pre; intro _; apply Triple.pure_pre; intro _
  rw [u8_congr hby]
  apply Triple.bind (check_triple fx .szxAyShort _ _ (by
    cases hg with
    | inl h => exact Or.inl h
    | inr h =>
      right
      cases hay : ayAfter e.mid ay (a0.u8 blk) with
      | false => rfl
      | true => have := h.2 hay; simp; omega) fin)
  intro _; apply Triple.pure_pre; intro _
  apply Triple.ret
  intro s hs; exact ⟨rfl, hs.mono (by omega)⟩

theorem szxRamp_triple (hb : b + 2 ≤ stepBound a0.len) (hsz : size ≤ a0.len)
    (hg : chunkOK fx e a0 ay blk size .ramp) :
    Triple a0 0 (fun s => Tr a0 0 s p b) (szxRamp fx e blk size) (fun _ s => Tr a0 0 s p (b + 2)) := by
  have fin : ∀ s, Tr a0 0 s p b → Fin a0 0 s := fun s hs => hs.fin (by omega)
  have fin1 : ∀ s, Tr a0 0 s p (b + 1) → Fin a0 0 s := fun s hs => hs.fin (by omega)
  obtain ⟨g1, g2, g3⟩ := hg
  unfold szxRamp
  apply Triple.bind (check_triple fx .szxRampShort _ _ (len_guard g1 (by omega)) fin)
  intro _; apply Triple.pure_pre; intro _
  apply Triple.bind getAsset_triple
  intro a; apply Triple.pure_pre; intro hby; apply Triple.pure_pre; intro _
  apply Triple.pure_pre; intro _; apply Triple.pure_pre; intro _
  rw [u8_congr hby, le16_congr hby]
  apply Triple.bind (check_triple fx .szxRampPage _ _ (by
    cases g2 with
    | inl h => exact Or.inl h
    | inr h => right; simp; omega) fin)
  intro _; apply Triple.pure_pre; intro _
  apply Triple.bind (alloc_triple (size - 3) (by simp only [allocBound]; omega))
  intro _
  apply Triple.bind (tick_triple 1)
  intro _
  apply Triple.ite
  · intro hc
    rw [if_pos hc] at g3
    cases hinf : e.inflate (blk + 3) (size - 3) with
    | none => exact Triple.fail _ _ fin1
    | some n =>
      simp only
      apply Triple.bind (alloc_triple (min n 65535) (by simp only [allocBound]; omega))
      intro _
      apply Triple.bind (check_triple fx .szxRampInflated _ _ (by
        cases g3 with
        | inl h => exact Or.inl h
        | inr h => right; have := h n hinf; simp; omega) fin1)
      intro _; apply Triple.pure_pre; intro _
      exact tick_triple 1
  · intro hc
    rw [if_neg hc] at g3
    apply Triple.bind (check_triple fx .szxRampData _ _ (by
      cases g3 with
      | inl h => exact Or.inl h
      | inr h => right; simp; omega) fin1)
    intro _; apply Triple.pure_pre; intro _
    exact tick_triple 1

end handlers

theorem szxDispatch_triple {a0 : Asset} {p b : Nat} (fx : Fix) (e : SzxEnv) (ay : Bool) (blk size : Nat)
    (hb : b + 2 ≤ stepBound a0.len) (hsz : size ≤ a0.len) (id : ChunkId)
    (hg : chunkOK fx e a0 ay blk size id) :
    Triple a0 0 (fun s => Tr a0 0 s p b) (szxDispatch fx e ay blk size id)
      (fun r s => r = ayNext e a0 ay blk id ∧ Tr a0 0 s p (b + 2)) := by
  cases id <;> simp only [szxDispatch, ayNext]
  · apply Triple.bind (szxCrtr_triple fx e ay blk size hb hg)
    intro _; apply Triple.ret; intro s hs; exact ⟨rfl, hs⟩
  · apply Triple.bind (szxZ80r_triple fx e ay blk size hb hg)
    intro _; apply Triple.ret; intro s hs; exact ⟨rfl, hs⟩
  · apply Triple.bind (szxSpcr_triple fx e ay blk size hb hg)
    intro _; apply Triple.ret; intro s hs; exact ⟨rfl, hs⟩
  · exact szxAy_triple fx e ay blk size hb hg
  · apply Triple.bind (szxKeyb_triple fx e ay blk size hb hg)
    intro _; apply Triple.ret; intro s hs; exact ⟨rfl, hs⟩
  · apply Triple.bind (szxAmxm_triple fx e ay blk size hb hg)
    intro _; apply Triple.ret; intro s hs; exact ⟨rfl, hs⟩
  · apply Triple.bind (szxRamp_triple fx e ay blk size hb hsz hg)
    intro _; apply Triple.ret; intro s hs; exact ⟨rfl, hs⟩
  · apply Triple.ret; intro s hs; exact ⟨rfl, hs.mono (by omega)⟩

/-- Well-formedness of the chunk chain starting at `c`, as far as `fuel` chunks: wherever a chunk
header fits, its id is UTF-8 and its declared size fits into the rest of the file; wherever its
data fits too, the chunk is good for its handler and the chain continues behind it. Each clause
is waived where the corresponding site is repaired. -/
def szxOK (fx : Fix) (e : SzxEnv) (a0 : Asset) : Nat → Nat → Bool → Prop
  | 0, _, _ => True
  | fuel + 1, c, ay =>
    c + 8 ≤ a0.len →
      (fx .szxIdUtf8 = true ∨ utf8Valid (a0.window c 4) = true) ∧
      (fx .szxAlloc = true ∨ a0.le32 (c + 4) ≤ a0.len - (c + 8)) ∧
      (c + 8 + a0.le32 (c + 4) ≤ a0.len →
        chunkOK fx e a0 ay (c + 8) (a0.le32 (c + 4)) (chunkId (a0.window c 4)) ∧
        szxOK fx e a0 fuel (c + 8 + a0.le32 (c + 4)) (ayNext e a0 ay (c + 8) (chunkId (a0.window c 4))))

theorem szxWalk_triple {a0 : Asset} (fx : Fix) (e : SzxEnv) :
    ∀ (fuel c : Nat) (ay : Bool) (b : Nat), szxOK fx e a0 fuel c ay → c ≤ a0.len →
      a0.len + 9 ≤ fuel + c → b ≤ 2 * c + 32 →
      Triple a0 0 (fun s => Tr a0 0 s c b) (szxWalk fx e a0.len fuel c ay) (fun _ s => Done a0 0 s) := by
  intro fuel
  induction fuel with
  | zero => intro c ay b _ hc hf _; omega
  | succ fuel ih =>
    intro c ay b hok hc hf hb
    unfold szxWalk
    apply Triple.bind (tick_triple 1)
    intro _
    apply Triple.bind (tryReadExact_triple 8)
    intro r
    match r with
    | .error _ =>
      simp only
      apply Triple.exists_pre; intro p'
      apply Triple.pure_pre; intro h1; apply Triple.pure_pre; intro h2; apply Triple.pure_pre; intro h3
      apply Triple.ret
      intro s hs
      exact ⟨_, _, hs, by simp only [stepBound]; omega⟩
    | .ok h =>
      simp only
      apply Triple.pure_pre; intro hh; subst hh
      apply Triple.pure_pre; intro hfit
      have hfit := hfit (by omega)
      obtain ⟨gid, galloc, gdata⟩ := hok hfit
      apply Triple.bind getAsset_triple
      intro a; apply Triple.pure_pre; intro hby; apply Triple.pure_pre; intro _
      apply Triple.pure_pre; intro _; apply Triple.pure_pre; intro _
      rw [le32_congr hby, window_congr hby]
      generalize hsize : a0.le32 (h + 4) = size at *
      generalize hid : a0.window h 4 = id at *
      have fin : ∀ (q : Nat), q ≤ 2 * h + 60 → ∀ s, Tr a0 0 s (h + 8) q → Fin a0 0 s :=
        fun q hq s hs => hs.fin (by simp only [stepBound]; omega)
      apply Triple.bind (check_triple fx .szxIdUtf8 _ _ (by
        cases gid with
        | inl g => exact Or.inl g
        | inr g => right; rw [g]; rfl) (fin _ (by omega)))
      intro _; apply Triple.pure_pre; intro _
      apply Triple.bind (alloc_triple 4 (by simp only [allocBound]; omega))
      intro _
      apply Triple.bind (seekStart_triple (h + 8) (by simp only [stepBound]; omega))
      intro _; apply Triple.pure_pre; intro _
      apply Triple.bind (guardM_triple _ _ (fin _ (by omega)))
      intro _; apply Triple.pure_pre; intro hguard
      have hsz : size ≤ a0.len - (h + 8) := by
        cases galloc with
        | inr g => exact g
        | inl g => rw [g] at hguard; simpa using hguard
      apply Triple.bind (alloc_triple size (by simp only [allocBound]; omega))
      intro _
      apply Triple.bind (tryReadExact_triple size)
      intro r2
      match r2 with
      | .error _ =>
        simp only
        apply Triple.exists_pre; intro p'
        apply Triple.pure_pre; intro h1; apply Triple.pure_pre; intro h2; apply Triple.pure_pre; intro h3
        apply Triple.fail
        intro s hs
        exact hs.fin (by simp only [stepBound]; omega)
      | .ok blk =>
        simp only
        apply Triple.pure_pre; intro hblk; subst hblk
        apply Triple.pure_pre; intro _
        have hdata : h + 8 + size ≤ a0.len := by omega
        obtain ⟨gchunk, gnext⟩ := gdata hdata
        apply Triple.bind (szxDispatch_triple fx e ay (h + 8) size (by simp only [stepBound]; omega) (by omega) _ gchunk)
        intro ay'; apply Triple.pure_pre; intro hay; subst hay
        apply Triple.bind (seekStart_triple (h + 8 + size) (by simp only [stepBound]; omega))
        intro _; apply Triple.pure_pre; intro _
        exact ih (h + 8 + size) _ _ gnext hdata (by omega) (by omega)

/-- the guard of the whole file: the chunk chain behind the 8-byte header is well formed -/
def szxGuard (fx : Fix) (r : Recv) (inflate : Inflate) (a0 : Asset) : Prop :=
  szxOK fx { r := r, mid := a0.u8 6, inflate := inflate } a0 (a0.len + 1) 8 r.ay

theorem szxLoad_triple {a0 : Asset} (fx : Fix) (r : Recv) (inflate : Inflate)
    (hg : szxGuard fx r inflate a0) (p0 : Nat) :
    Triple a0 0 (fun s => Tr a0 0 s p0 0) (szxLoad fx r inflate) (fun _ s => Fin a0 0 s) := by
  unfold szxLoad
  apply Triple.bind (seekEnd_triple (by simp only [stepBound]; omega))
  intro size; apply Triple.pure_pre; intro hsize; subst hsize
  apply Triple.bind (seekStart_triple 0 (by simp only [stepBound]; omega))
  intro _; apply Triple.pure_pre; intro _
  apply Triple.bind (readExactM_triple 8 (by simp only [stepBound]; omega))
  intro h; apply Triple.pure_pre; intro hh; subst hh; apply Triple.pure_pre; intro hL
  have hL := hL (by omega)
  apply Triple.bind getAsset_triple
  intro a; apply Triple.pure_pre; intro hby; apply Triple.pure_pre; intro hlen
  apply Triple.pure_pre; intro _; apply Triple.pure_pre; intro _
  have fin : ∀ (q : Nat), q ≤ 20 → ∀ s, Tr a0 0 s (0 + 8) q → Fin a0 0 s :=
    fun q hq s hs => hs.fin (by simp only [stepBound]; omega)
  apply Triple.bind (guardM_triple _ _ (fin _ (by omega)))
  intro _; apply Triple.pure_pre; intro _
  apply Triple.bind (guardM_triple _ _ (fin _ (by omega)))
  intro _; apply Triple.pure_pre; intro _
  apply Triple.bind (guardM_triple _ _ (fin _ (by omega)))
  intro _; apply Triple.pure_pre; intro _
  apply Triple.bind (seekStart_triple 8 (by simp only [stepBound]; omega))
  intro _; apply Triple.pure_pre; intro _
  rw [u8_congr hby, hlen]
  apply Triple.bind (Q := fun _ s => Done a0 0 s)
  · have := szxWalk_triple (a0 := a0) fx { r := r, mid := a0.u8 (0 + 6), inflate := inflate }
      (a0.len + 1) 8 r.ay (0 + 1 + 1 + 8 + 1 + 1) (by simpa [szxGuard] using hg) (by omega) (by omega) (by omega)
    exact this
  · intro _
    apply Triple.exists_pre; intro p
    apply Triple.exists_pre; intro b
    intro s ⟨hs, hb⟩
    have := tick_triple (X := 0) 1 s hs
    simp only [tick] at this ⊢
    exact this.fin hb

theorem chunkOK_all (e : SzxEnv) (a0 : Asset) (ay : Bool) (b size : Nat) (id : ChunkId) :
    chunkOK Fix.all e a0 ay b size id := by
  cases id <;> simp only [chunkOK, Fix.all, true_or, and_self, ite_self]

theorem szxOK_all (e : SzxEnv) (a0 : Asset) : ∀ (fuel c : Nat) (ay : Bool), szxOK Fix.all e a0 fuel c ay := by
  intro fuel
  induction fuel with
  | zero => intro c ay; trivial
  | succ f ih =>
    intro c ay
    unfold szxOK
    intro _
    exact ⟨Or.inl rfl, Or.inl rfl, fun _ => ⟨chunkOK_all _ _ _ _ _ _, ih _ _⟩⟩

end ZxVerif.Loaders
