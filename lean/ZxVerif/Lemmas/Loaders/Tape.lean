/-
Helper lemmas for C15: the TAP tape. An invariant of the `Tap` struct that every operation
preserves (also when it fails half way), under which no checked subtraction underflows, no
index leaves the buffer, the pilot counter never reaches 0 before it is decremented and every
loop ends within its fuel.
-/
import ZxVerif.Lemmas.Loaders.Asset
namespace ZxVerif.Loaders
open Spec

macro "tv" : tactic => `(tactic| first | rfl | trivial | assumption | (simp_all; done))

def TState.WF : TState → Prop
  | .pilot n => 1 ≤ n
  | _ => True

structure Tap.Inv (t : Tap) : Prop where
  blk : ∀ bs, t.block = some bs → t.bufOff ≤ t.read ∧ t.read ≤ bs ∧ t.read ≤ t.bufOff + 128 ∧ bs ≤ 65535
  st : t.state.WF
  pv : t.prev.WF

def TR.fine : TR α → Prop
  | .ok _ => True
  | .stop o => acceptable o = true

theorem fromAsset_inv (a : Asset) : (Tap.fromAsset a).Inv :=
  ⟨fun _ h => by simp [Tap.fromAsset] at h, trivial, trivial⟩

/-- `readInto` touches only the asset and the buffer -/
theorem readInto_frame (t : Tap) (n : Nat) :
    let t' := (t.readInto n).2
    t'.state = t.state ∧ t'.prev = t.prev ∧ t'.bufOff = t.bufOff ∧ t'.read = t.read ∧
    t'.block = t.block ∧ t'.ended = t.ended ∧ t'.ticks = t.ticks := by
  unfold Tap.readInto
  cases t.a.readExact n with
  | mk r a' => simp

theorem readInto_inv (t : Tap) (n : Nat) (h : t.Inv) : (t.readInto n).2.Inv := by
  obtain ⟨h1, h2, h3, h4, h5, _, _⟩ := readInto_frame t n
  exact ⟨fun bs hb => by rw [h3, h4]; exact h.blk bs (by rw [← h5]; exact hb), by rw [h1]; exact h.st, by rw [h2]; exact h.pv⟩

/-- `next_block_byte`: never panics under the invariant, keeps it, and either delivers a byte
(advancing `block_bytes_read` by one inside the same block) or leaves the position alone -/
theorem nextBlockByte_spec (t : Tap) (h : t.Inv) :
    let r := t.nextBlockByte
    r.2.Inv ∧ r.1.fine ∧ r.2.ticks = t.ticks ∧ r.2.state = t.state ∧ r.2.prev = t.prev ∧
    r.2.block = t.block ∧ r.2.ended = t.ended ∧
    (match r.1 with
     | .ok (some v) => r.2.read = t.read + 1 ∧ v < 256 ∧ ∃ bs, t.block = some bs ∧ t.read < bs
     | _ => r.2.read = t.read) := by
  unfold Tap.nextBlockByte
  by_cases he : t.ended = true
  · simp only [he, if_true]; exact ⟨h, (by tv), (by tv), (by tv), (by tv), (by tv), (by tv), (by tv)⟩
  · simp only [he, Bool.false_eq_true, if_false]
    cases hb : t.block with
    | none => simp only; exact ⟨h, (by tv), (by tv), (by tv), (by tv), (by tv), (by tv), (by tv)⟩
    | some bs =>
      simp only
      obtain ⟨i1, i2, i3, i4⟩ := h.blk bs hb
      by_cases h1 : bs ≤ t.read
      · simp only [h1, if_true]; exact ⟨h, (by tv), (by tv), (by tv), (by tv), hb, (by tv), (by tv)⟩
      · have h2 : ¬ t.read < t.bufOff := by omega
        simp only [h1, h2, if_false]
        by_cases h3 : BUFFER_SIZE ≤ t.read - t.bufOff
        · have hB : BUFFER_SIZE = 128 := rfl
          have h4 : ¬ bs < t.bufOff + BUFFER_SIZE := by omega
          simp only [h3, h4, if_true, if_false]
          have fr := readInto_frame t (min (bs - t.bufOff - BUFFER_SIZE) BUFFER_SIZE)
          have iv := readInto_inv t (min (bs - t.bufOff - BUFFER_SIZE) BUFFER_SIZE) h
          generalize t.readInto (min (bs - t.bufOff - BUFFER_SIZE) BUFFER_SIZE) = ri at *
          obtain ⟨r, t'⟩ := ri
          obtain ⟨f1, f2, f3, f4, f5, f6, f7⟩ := fr
          simp only at f1 f2 f3 f4 f5 f6 f7 iv
          match r with
          | .error e =>
            simp only
            exact ⟨iv, (by tv), f7, f1, f2, by rw [f5, hb], (by tv), f4⟩
          | .ok () =>
            simp only
            refine ⟨⟨fun bs' hb' => ?_, by rw [f1]; exact h.st, by rw [f2]; exact h.pv⟩, (by tv), f7, f1, f2,
              by rw [f5, hb], (by tv), by rw [f4], (t'.buf 0).isLt, ⟨bs, (by tv), by omega⟩⟩
            simp only at hb'
            rw [f5, hb] at hb'
            cases hb'
            simp only [f3, f4]
            omega
        · have hB : BUFFER_SIZE = 128 := rfl
          simp only [h3, if_false]
          refine ⟨⟨fun bs' hb' => ?_, h.st, h.pv⟩, (by tv), (by tv), (by tv), (by tv), (by tv), (by tv), (by tv), (t.buf _).isLt, ⟨bs, (by tv), by omega⟩⟩
          simp only at hb'
          try rw [hb] at hb'
          cases hb'
          simp only
          omega

/-- what an operation leaves alone when it only moves inside the current block -/
structure Frame (t t' : Tap) : Prop where
  inv : t'.Inv
  ticks : t'.ticks = t.ticks
  state : t'.state = t.state
  prev : t'.prev = t.prev
  block : t'.block = t.block
  ended : t'.ended = t.ended

theorem nextBlockByte_cases (t : Tap) (h : t.Inv) :
    (∃ o t', t.nextBlockByte = (.stop o, t') ∧ acceptable o = true ∧ Frame t t' ∧ t'.read = t.read) ∨
    (∃ t', t.nextBlockByte = (.ok none, t') ∧ Frame t t' ∧ t'.read = t.read) ∨
    (∃ v t' bs, t.nextBlockByte = (.ok (some v), t') ∧ Frame t t' ∧ t'.read = t.read + 1 ∧ v < 256 ∧
      t.block = some bs ∧ t.read < bs) := by
  have sp := nextBlockByte_spec t h
  simp only at sp
  generalize t.nextBlockByte = r at *
  obtain ⟨r1, t'⟩ := r
  obtain ⟨iv, fine, tk, st, pv, bl, en, rest⟩ := sp
  simp only at iv fine tk st pv bl en rest
  match r1, fine, rest with
  | .stop o, fine, rest => exact Or.inl ⟨o, t', rfl, fine, ⟨iv, tk, st, pv, bl, en⟩, rest⟩
  | .ok none, _, rest => exact Or.inr (Or.inl ⟨t', rfl, ⟨iv, tk, st, pv, bl, en⟩, rest⟩)
  | .ok (some v), _, rest =>
    obtain ⟨r1, r2, bs, r3, r4⟩ := rest
    exact Or.inr (Or.inr ⟨v, t', bs, rfl, ⟨iv, tk, st, pv, bl, en⟩, r1, r2, r3, r4⟩)

/-- bytes left in the current block -/
def Tap.left (t : Tap) : Nat :=
  match t.block with
  | some bs => bs - t.read
  | none => 0

/-- `while self.next_block_byte()?.is_some() {}` ends within the fuel and within the block -/
theorem skipRest_spec : ∀ (fuel : Nat) (t : Tap), t.Inv → t.left < fuel →
    let r := Tap.skipRest fuel t
    r.2.Inv ∧ r.1.fine ∧ r.2.ticks ≤ t.ticks + t.left + 1 ∧ r.2.state = t.state ∧ r.2.prev = t.prev ∧
    r.2.ended = t.ended := by
  intro fuel
  induction fuel with
  | zero => intro t _ h; omega
  | succ fuel ih =>
    intro t hi hl
    unfold Tap.skipRest
    rcases nextBlockByte_cases t hi with ⟨o, t', e, acc, fr, _⟩ | ⟨t', e, fr, _⟩ | ⟨v, t', bs, e, fr, hr, _, hb, hlt⟩
    · rw [e]; simp only
      exact ⟨fr.inv, acc, by rw [fr.ticks]; omega, fr.state, fr.prev, fr.ended⟩
    · rw [e]; simp only
      exact ⟨⟨fr.inv.blk, fr.inv.st, fr.inv.pv⟩, trivial, by rw [fr.ticks]; omega, fr.state, fr.prev, fr.ended⟩
    · rw [e]; simp only
      have hl' : t.left = bs - t.read := by simp [Tap.left, hb]
      have hleft' : ({ t' with ticks := t'.ticks + 1 } : Tap).left = bs - (t.read + 1) := by
        simp [Tap.left, fr.block, hb, hr]
      have := ih { t' with ticks := t'.ticks + 1 } ⟨fr.inv.blk, fr.inv.st, fr.inv.pv⟩ (by rw [hleft']; omega)
      simp only at this
      obtain ⟨i1, i2, i3, i4, i5, i6⟩ := this
      refine ⟨i1, i2, ?_, by rw [i4, fr.state], by rw [i5, fr.prev], by rw [i6, fr.ended]⟩
      have h1 := fr.ticks
      rw [hleft'] at i3
      omega

theorem Tap.Inv.left_le {t : Tap} (h : t.Inv) : t.left ≤ 65535 := by
  unfold Tap.left
  cases hb : t.block with
  | none => simp
  | some bs => have := h.blk bs hb; simp only; omega

theorem le16_lt (a : Asset) (i : Nat) : a.le16 i < 65536 := by
  have h1 : a.u8 i < 256 := (a.byte i).isLt
  have h2 : a.u8 (i + 1) < 256 := (a.byte (i + 1)).isLt
  unfold Asset.le16; omega

/-- what every whole operation guarantees: invariant kept, Ok/Err, bounded extra work -/
structure OpOk (t : Tap) (r : TR α) (t' : Tap) (cost : Nat) : Prop where
  inv : t'.Inv
  fine : r.fine
  ticks : t'.ticks ≤ t.ticks + cost

theorem nextBlock_spec (t : Tap) (h : t.Inv) :
    OpOk t t.nextBlock.1 t.nextBlock.2 65537 ∧ t.nextBlock.2.state = t.state ∧ t.nextBlock.2.prev = t.prev := by
  unfold Tap.nextBlock
  by_cases he : t.ended = true
  · simp only [he, if_true]; exact ⟨⟨h, (by tv), by omega⟩, (by tv), (by tv)⟩
  · simp only [he, Bool.false_eq_true, if_false]
    have sk := skipRest_spec 65537 t h (by have := h.left_le; omega)
    have hl := h.left_le
    simp only at sk
    generalize Tap.skipRest 65537 t = r at *
    obtain ⟨r1, t1⟩ := r
    obtain ⟨i1, i2, i3, i4, i5, i6⟩ := sk
    simp only at i1 i2 i3 i4 i5 i6
    match r1, i2 with
    | .stop o, i2 => exact ⟨⟨i1, i2, by simp only; omega⟩, i4, i5⟩
    | .ok (), _ =>
      simp only
      cases hre : t1.a.readExact 2 with
      | mk re a' =>
        match re with
        | .error e =>
          simp only
          exact ⟨⟨⟨i1.blk, i1.st, i1.pv⟩, (by tv), by simp only; omega⟩, i4, i5⟩
        | .ok () =>
          simp only
          have iv2 : ({ t1 with a := a' } : Tap).Inv := ⟨i1.blk, i1.st, i1.pv⟩
          have fr := readInto_frame { t1 with a := a' } (min (a'.le16 t1.a.pos) BUFFER_SIZE)
          have iv := readInto_inv { t1 with a := a' } (min (a'.le16 t1.a.pos) BUFFER_SIZE) iv2
          generalize Tap.readInto { t1 with a := a' } (min (a'.le16 t1.a.pos) BUFFER_SIZE) = ri at *
          obtain ⟨r3, t3⟩ := ri
          obtain ⟨f1, f2, f3, f4, f5, f6, f7⟩ := fr
          simp only at f1 f2 f3 f4 f5 f6 f7 iv
          match r3 with
          | .error e =>
            simp only
            exact ⟨⟨iv, (by tv), by omega⟩, by rw [f1, i4], by rw [f2, i5]⟩
          | .ok () =>
            simp only
            refine ⟨⟨⟨fun bs hb => ?_, by simp only; rw [f1]; exact i1.st, by simp only; rw [f2]; exact i1.pv⟩,
              (by tv), by simp only; omega⟩, by rw [f1, i4], by rw [f2, i5]⟩
            simp only at hb
            cases hb
            have := le16_lt a' t1.a.pos
            simp only
            omega

theorem rewind_spec (t : Tap) (h : t.Inv) : OpOk t t.rewind.1 t.rewind.2 0 := by
  unfold Tap.rewind
  simp only
  cases t.a.seek (.start 0) with
  | mk r a' =>
    match r with
    | .error e =>
      simp only
      exact ⟨⟨fun _ hb => by simp at hb, h.st, h.pv⟩, (by tv), by simp⟩
    | .ok _ =>
      simp only
      refine ⟨⟨fun _ hb => by simp at hb, ?_, (by tv)⟩, (by tv), by simp⟩
      simp only
      split <;> trivial

/-- one pass of the state machine from a state that does not read the tape: it breaks out -/
theorem turn_terminal (t : Tap) (h : t.Inv) (h1 : t.state ≠ .play) (h2 : t.state ≠ .nextByte) :
    ∃ r t', t.turn = .done r t' ∧ OpOk t r t' 0 := by
  unfold Tap.turn
  cases hst : t.state with
  | play => exact absurd hst h1
  | nextByte => exact absurd hst h2
  | stop =>
    simp only
    have := rewind_spec t h
    generalize t.rewind = r at *
    obtain ⟨r1, t'⟩ := r
    obtain ⟨i1, i2, i3⟩ := this
    simp only at i1 i2 i3
    match r1, i2 with
    | .stop o, i2 => exact ⟨_, _, rfl, i1, i2, i3⟩
    | .ok (), _ => exact ⟨_, _, rfl, ⟨i1.blk, trivial, i1.pv⟩, trivial, i3⟩
  | pilot n =>
    have hn : 1 ≤ n := by have := h.st; rw [hst] at this; exact this
    have hn0 : ¬ n = 0 := by omega
    simp only [hn0, if_false]
    by_cases hn1 : n - 1 = 0
    · simp only [hn1, if_true]; exact ⟨_, _, rfl, ⟨h.blk, trivial, h.pv⟩, trivial, by simp⟩
    · simp only [hn1, if_false]; exact ⟨_, _, rfl, ⟨h.blk, by show 1 ≤ n - 1; omega, h.pv⟩, trivial, by simp⟩
  | sync => exact ⟨_, _, rfl, ⟨h.blk, trivial, h.pv⟩, trivial, by simp⟩
  | nextBit m => exact ⟨_, _, rfl, ⟨h.blk, trivial, h.pv⟩, trivial, by simp⟩
  | bitHalf d m =>
    refine ⟨_, _, rfl, ⟨h.blk, ?_, h.pv⟩, trivial, by simp⟩
    simp only
    split <;> trivial
  | pause => exact ⟨_, _, rfl, ⟨h.blk, trivial, h.pv⟩, trivial, by simp⟩

/-- one pass from any state: it breaks out, or goes round once more into a state that breaks out -/
theorem turn_spec (t : Tap) (h : t.Inv) :
    (∃ r t', t.turn = .done r t' ∧ OpOk t r t' 65538) ∨
    (∃ t', t.turn = .again t' ∧ t'.Inv ∧ t'.ticks ≤ t.ticks + 65538 ∧ t'.state ≠ .play ∧ t'.state ≠ .nextByte) := by
  by_cases h1 : t.state = .play
  · unfold Tap.turn
    simp only [h1]
    have nb := nextBlock_spec t h
    generalize t.nextBlock = r at *
    obtain ⟨r1, t1⟩ := r
    obtain ⟨⟨i1, i2, i3⟩, _, _⟩ := nb
    simp only at i1 i2 i3
    match r1, i2 with
    | .stop o, i2 => exact Or.inl ⟨_, _, rfl, i1, i2, by omega⟩
    | .ok false, _ =>
      exact Or.inr ⟨_, rfl, ⟨i1.blk, trivial, i1.pv⟩, by simp only; omega, by simp, by simp⟩
    | .ok true, _ =>
      simp only
      rcases nextBlockByte_cases t1 i1 with ⟨o, t', e, acc, fr, _⟩ | ⟨t', e, fr, _⟩ | ⟨v, t', bs, e, fr, _⟩
      · rw [e]; exact Or.inl ⟨_, _, rfl, fr.inv, acc, by rw [fr.ticks]; omega⟩
      · rw [e]; exact Or.inl ⟨_, _, rfl, fr.inv, rfl, by rw [fr.ticks]; omega⟩
      · rw [e]; simp only
        refine Or.inl ⟨_, _, rfl, ⟨fr.inv.blk, ?_, fr.inv.pv⟩, trivial, by simp only; rw [fr.ticks]; omega⟩
        simp only
        split <;> (show 1 ≤ _; omega)
  · by_cases h2 : t.state = .nextByte
    · unfold Tap.turn
      simp only [h2]
      rcases nextBlockByte_cases t h with ⟨o, t', e, acc, fr, _⟩ | ⟨t', e, fr, _⟩ | ⟨v, t', bs, e, fr, _⟩
      · rw [e]; exact Or.inl ⟨_, _, rfl, fr.inv, acc, by rw [fr.ticks]; omega⟩
      · rw [e]; exact Or.inr ⟨_, rfl, ⟨fr.inv.blk, trivial, fr.inv.pv⟩, by simp only; rw [fr.ticks]; omega, by simp, by simp⟩
      · rw [e]; exact Or.inr ⟨_, rfl, ⟨fr.inv.blk, trivial, fr.inv.pv⟩, by simp only; rw [fr.ticks]; omega, by simp, by simp⟩
    · obtain ⟨r, t', e, ok⟩ := turn_terminal t h h1 h2
      exact Or.inl ⟨r, t', e, ok.inv, ok.fine, by have := ok.ticks; omega⟩

/-- the state machine of `process_clocks` ends within two turns, from every state -/
theorem machine_spec (fuel : Nat) (t : Tap) (h : t.Inv) :
    OpOk t (Tap.machine (fuel + 2) t).1 (Tap.machine (fuel + 2) t).2 65540 := by
  unfold Tap.machine
  have iv : ({ t with ticks := t.ticks + 1 } : Tap).Inv := ⟨h.blk, h.st, h.pv⟩
  rcases turn_spec _ iv with ⟨r, t', e, ok⟩ | ⟨t', e, iv', tk, s1, s2⟩
  · rw [e]; exact ⟨ok.inv, ok.fine, by have := ok.ticks; simp only at this ⊢; omega⟩
  · rw [e]; simp only
    unfold Tap.machine
    have iv2 : ({ t' with ticks := t'.ticks + 1 } : Tap).Inv := ⟨iv'.blk, iv'.st, iv'.pv⟩
    obtain ⟨r, t'', e2, ok⟩ := turn_terminal _ iv2 s1 s2
    rw [e2]
    exact ⟨ok.inv, ok.fine, by have := ok.ticks; simp only at this tk ⊢; omega⟩

/-- `process_clocks` -/
theorem processClocks_spec (t : Tap) (n : Nat) (h : t.Inv) :
    OpOk t (t.processClocks n).1 (t.processClocks n).2 65540 := by
  unfold Tap.processClocks
  by_cases h1 : t.state = .stop
  · simp only [h1, if_true]; exact ⟨h, trivial, by omega⟩
  · simp only [h1, if_false]
    by_cases h2 : 0 < t.delay
    · simp only [h2, if_true]; exact ⟨⟨h.blk, h.st, h.pv⟩, trivial, by simp⟩
    · simp only [h2, if_false]; exact machine_spec 2 t h

theorem repeatClocks_spec : ∀ (k n : Nat) (t : Tap), t.Inv →
    OpOk t (Tap.repeatClocks k n t).1 (Tap.repeatClocks k n t).2 (k * 65540) := by
  intro k
  induction k with
  | zero => intro n t h; simp only [Tap.repeatClocks]; exact ⟨h, trivial, by omega⟩
  | succ k ih =>
    intro n t h
    unfold Tap.repeatClocks
    have pc := processClocks_spec t n h
    generalize t.processClocks n = r at *
    obtain ⟨r1, t1⟩ := r
    simp only at pc
    match r1, pc with
    | .stop o, pc => exact ⟨pc.inv, pc.fine, by have := pc.ticks; simp only; omega⟩
    | .ok (), pc =>
      simp only
      have := ih n t1 pc.inv
      exact ⟨this.inv, this.fine, by have h1 := this.ticks; have h2 := pc.ticks; rw [Nat.add_mul]; omega⟩

/-- the loop of `fast_load_tap` ends within the block -/
theorem flLoop_spec (mem : Nat → Nat) : ∀ (fuel : Nat) (t : Tap) (g : FlRegs) (parity : Nat),
    t.Inv → t.left < fuel →
    OpOk t (Tap.flLoop mem fuel t g parity).1 (Tap.flLoop mem fuel t g parity).2 (t.left + 1) := by
  intro fuel
  induction fuel with
  | zero => intro t g parity _ h; omega
  | succ fuel ih =>
    intro t g parity hi hl
    unfold Tap.flLoop
    simp only
    have iv : ({ t with ticks := t.ticks + 1 } : Tap).Inv := ⟨hi.blk, hi.st, hi.pv⟩
    have hleft : ({ t with ticks := t.ticks + 1 } : Tap).left = t.left := rfl
    rcases nextBlockByte_cases _ iv with ⟨o, t', e, acc, fr, _⟩ | ⟨t', e, fr, _⟩ | ⟨v, t', bs, e, fr, hr, _, hb, hlt⟩
    · rw [e]; exact ⟨fr.inv, acc, by rw [fr.ticks]; simp only; omega⟩
    · rw [e]; exact ⟨fr.inv, trivial, by rw [fr.ticks]; simp only; omega⟩
    · rw [e]; simp only
      simp only at hb hlt hr
      have hl0 : t.left = bs - t.read := by simp [Tap.left, hb]
      have hl' : t'.left = bs - (t.read + 1) := by
        have := fr.block; simp only at this
        simp [Tap.left, this, hb, hr]
      have htk := fr.ticks
      simp only at htk
      have recur : ∀ g' p', OpOk t (Tap.flLoop mem fuel t' g' p').1 (Tap.flLoop mem fuel t' g' p').2 (t.left + 1) := by
        intro g' p'
        have := ih t' g' p' fr.inv (by omega)
        exact ⟨this.inv, this.fine, by have := this.ticks; omega⟩
      have done : ∀ (x : FlRegs × Option Nat), OpOk t (TR.ok x) t' (t.left + 1) :=
        fun x => ⟨fr.inv, trivial, by omega⟩
      split
      · exact done _
      · split
        · split
          · exact done _
          · exact recur _ _
        · split
          · exact recur _ _
          · split
            · exact done _
            · exact recur _ _

theorem fastLoad_spec (mem : Nat → Nat) (t : Tap) (g : FlRegs) (h : t.Inv) :
    OpOk t (t.fastLoad mem g).1 (t.fastLoad mem g).2 (65537 + 65536) := by
  unfold Tap.fastLoad
  have nb := nextBlock_spec t h
  generalize t.nextBlock = r at *
  obtain ⟨r1, t1⟩ := r
  obtain ⟨⟨i1, i2, i3⟩, _, _⟩ := nb
  simp only at i1 i2 i3
  match r1, i2 with
  | .stop o, i2 => exact ⟨i1, i2, by simp only; omega⟩
  | .ok false, _ => exact ⟨i1, trivial, by simp only; omega⟩
  | .ok true, _ =>
    simp only
    have hl := i1.left_le
    have := flLoop_spec mem 65538 t1 g 0 i1 (by omega)
    exact ⟨this.inv, this.fine, by have := this.ticks; omega⟩

theorem stop_inv (t : Tap) (h : t.Inv) : t.stop.Inv := by
  unfold Tap.stop
  split
  · exact h
  · exact ⟨h.blk, trivial, h.st⟩

theorem play_inv (t : Tap) (h : t.Inv) : t.play.Inv := by
  unfold Tap.play
  split
  · split
    · exact ⟨h.blk, trivial, h.pv⟩
    · exact ⟨h.blk, h.pv, h.pv⟩
  · exact h

/-- work bound of one operation (loop iterations) -/
def TapOp.cost : TapOp → Nat
  | .repeatClocks k _ => k * 65540
  | _ => tapStepBound

/-- **every tape operation is total**: from a state satisfying the invariant it answers Ok or Err
(never panics, never exhausts a loop's fuel), keeps the invariant — also when it fails — and takes
a bounded number of loop iterations -/
theorem step_spec (mem : Nat → Nat) (t : Tap) (op : TapOp) (h : t.Inv) :
    (t.step mem op).2.Inv ∧ acceptable (t.step mem op).1 = true ∧
    (t.step mem op).2.ticks ≤ t.ticks + op.cost := by
  have hb : tapStepBound = 3 * 65536 + 64 := rfl
  cases op with
  | play => exact ⟨play_inv t h, rfl, by
      simp only [Tap.step, Tap.play]; split <;> (try split) <;> simp only [TapOp.cost] <;> omega⟩
  | stop => exact ⟨stop_inv t h, rfl, by
      simp only [Tap.step, Tap.stop]; split <;> simp only [TapOp.cost] <;> omega⟩
  | rewind =>
    simp only [Tap.step, TapOp.cost]
    have := rewind_spec t h
    generalize t.rewind = r at *
    obtain ⟨r1, t'⟩ := r
    match r1, this with
    | .ok _, this => exact ⟨this.inv, rfl, by have := this.ticks; simp only at this ⊢; omega⟩
    | .stop o, this => exact ⟨this.inv, this.fine, by have := this.ticks; simp only at this ⊢; omega⟩
  | clocks n =>
    simp only [Tap.step, TapOp.cost]
    have := processClocks_spec t n h
    generalize t.processClocks n = r at *
    obtain ⟨r1, t'⟩ := r
    match r1, this with
    | .ok _, this => exact ⟨this.inv, rfl, by have := this.ticks; simp only at this ⊢; omega⟩
    | .stop o, this => exact ⟨this.inv, this.fine, by have := this.ticks; simp only at this ⊢; omega⟩
  | repeatClocks k n =>
    simp only [Tap.step, TapOp.cost]
    have := repeatClocks_spec k n t h
    generalize Tap.repeatClocks k n t = r at *
    obtain ⟨r1, t'⟩ := r
    match r1, this with
    | .ok _, this => exact ⟨this.inv, rfl, by have := this.ticks; simp only at this ⊢; omega⟩
    | .stop o, this => exact ⟨this.inv, this.fine, by have := this.ticks; simp only at this ⊢; omega⟩
  | nextBlock =>
    simp only [Tap.step, TapOp.cost]
    have := (nextBlock_spec t h).1
    generalize t.nextBlock = r at *
    obtain ⟨r1, t'⟩ := r
    match r1, this with
    | .ok _, this => exact ⟨this.inv, rfl, by have := this.ticks; simp only at this ⊢; omega⟩
    | .stop o, this => exact ⟨this.inv, this.fine, by have := this.ticks; simp only at this ⊢; omega⟩
  | nextByte =>
    simp only [Tap.step, TapOp.cost]
    rcases nextBlockByte_cases t h with ⟨o, t', e, acc, fr, _⟩ | ⟨t', e, fr, _⟩ | ⟨v, t', bs, e, fr, _⟩
    · rw [e]; exact ⟨fr.inv, acc, by rw [fr.ticks]; omega⟩
    · rw [e]; exact ⟨fr.inv, rfl, by rw [fr.ticks]; omega⟩
    · rw [e]; exact ⟨fr.inv, rfl, by rw [fr.ticks]; omega⟩
  | fastLoad g =>
    simp only [Tap.step, TapOp.cost]
    split
    · have := fastLoad_spec mem t g h
      generalize t.fastLoad mem g = r at *
      obtain ⟨r1, t'⟩ := r
      match r1, this with
      | .ok _, this => exact ⟨this.inv, rfl, by have := this.ticks; simp only at this ⊢; omega⟩
      | .stop o, this => exact ⟨this.inv, this.fine, by have := this.ticks; simp only at this ⊢; omega⟩
    · exact ⟨h, rfl, by simp only; omega⟩

theorem runOps_spec (mem : Nat → Nat) : ∀ (ops : List TapOp) (t : Tap), t.Inv →
    ∀ o ∈ Tap.runOps mem t ops, acceptable o = true := by
  intro ops
  induction ops with
  | nil => intro t _ o ho; simp [Tap.runOps] at ho
  | cons op ops ih =>
    intro t h o ho
    have sp := step_spec mem t op h
    simp only [Tap.runOps] at ho
    generalize t.step mem op = r at *
    obtain ⟨o1, t'⟩ := r
    simp only [List.mem_cons] at ho
    cases ho with
    | inl e => rw [e]; exact sp.2.1
    | inr e => exact ih t' sp.1 o e

end ZxVerif.Loaders
