/-
Helper lemmas for C15: `Vtx::load` in its repaired form (zero-byte read = invalid header, NUL
search limited to the bytes read, assert replaced by an error).
-/
import ZxVerif.Lemmas.Loaders.Szx
namespace ZxVerif.Loaders
open Spec

theorem findZero_some {f : Nat → Nat} {s b i : Nat} (h : findZero f s b = some i) : s ≤ i ∧ i < b := by
  unfold findZero at h
  have := List.mem_of_find?_eq_some h
  rw [List.mem_range'_1] at this
  omega

/-- with the search limited to the bytes read, the scan position never passes them -/
theorem scanBuffer_le (buf : Nat → Nat) (n : Nat) : ∀ (fuel cur nulls : Nat), cur ≤ n →
    (scanBuffer buf n n fuel cur nulls).1 ≤ n := by
  intro fuel
  induction fuel with
  | zero => intro cur nulls h; simpa [scanBuffer] using h
  | succ fuel ih =>
    intro cur nulls h
    unfold scanBuffer
    split
    · split
      · rename_i i hi
        have := findZero_some hi
        simp only
        split
        · simp only; omega
        · exact ih _ _ (by omega)
      · simp
    · exact h

/-! ### reader primitives -/

theorem vtxReadExact_triple {a0 : Asset} {X p b : Nat} (n : Nat) (k : ErrKind)
    (hb : b + (min (p + n) (max p a0.len) - p) + 1 ≤ stepBound a0.len) :
    Triple a0 X (fun s => Tr a0 X s p b) (vtxReadExact n k)
      (fun w s => w = p ∧ (0 < n → p + n ≤ a0.len) ∧ Tr a0 X s (p + n) (b + n + 1)) := by
  intro s hs
  have := tryReadExact_triple (X := X) n s hs
  simp only [tryReadExact, vtxReadExact] at this ⊢
  generalize s.a.readExact n = re at *
  obtain ⟨r, a'⟩ := re
  match r, this with
  | .ok (), this => exact this
  | .error e, this =>
    simp only at this ⊢
    obtain ⟨p', h1, h2, h3, tr⟩ := this
    exact ⟨rfl, tr.alloc, Nat.le_trans tr.steps (by omega)⟩

theorem vtxSeekCur_triple {a0 : Asset} {X p b : Nat} (hb : b + 1 ≤ stepBound a0.len) :
    Triple a0 X (fun s => Tr a0 X s p b) (vtxSeek (.current 0)) (fun r s => r = p ∧ Tr a0 X s p (b + 1)) := by
  intro s hs
  simp only [vtxSeek]
  have hl := seek_len s.a (.current 0)
  have hby := seek_byte s.a (.current 0)
  have hsc := seek_sc s.a (.current 0)
  have hr := seek_reads s.a (.current 0)
  have hk := seek_seeks s.a (.current 0)
  have hst := hs.steps
  have hp := hs.pos
  simp only [St.steps] at hst
  rcases seek_cur s.a with ⟨h1, h2⟩ | ⟨h1, h2⟩
  all_goals
    generalize hsk : s.a.seek (.current 0) = sk at *
    obtain ⟨r, a'⟩ := sk
    simp only at h1 h2 hl hby hsc hr hk
    subst h1
    simp only
  · exact ⟨hp, by rw [hl, hs.len], by rw [hby, hs.byte], by rw [hsc, hs.sc], by rw [h2, hp], hs.alloc,
      by simp only [St.steps]; omega⟩
  · exact ⟨rfl, hs.alloc, by simp only [St.steps, stepBound] at *; omega⟩

theorem vtxSeekStart_triple {a0 : Asset} {X p b : Nat} (n : Nat) (hb : b + 1 ≤ stepBound a0.len) :
    Triple a0 X (fun s => Tr a0 X s p b) (vtxSeek (.start n)) (fun r s => r = n ∧ Tr a0 X s n (b + 1)) := by
  intro s hs
  have := seekStart_triple (X := X) n hb s hs
  simp only [seekM, vtxSeek] at this ⊢
  generalize s.a.seek (.start n) = sk at *
  obtain ⟨r, a'⟩ := sk
  match r, this with
  | .ok q, this => exact this
  | .error e, this => exact ⟨rfl, this.2⟩

/-- one `read(256)?` -/
theorem readM_triple {a0 : Asset} {X p b : Nat} (want : Nat) (hb : b + 1 ≤ stepBound a0.len) :
    Triple a0 X (fun s => Tr a0 X s p b) (readM want)
      (fun n s => n ≤ want ∧ (0 < n → p + n ≤ a0.len) ∧ Tr a0 X s (p + n) (b + 1)) := by
  intro s hs
  simp only [readM]
  have hl := read_len s.a want
  have hby := read_byte s.a want
  have hsc := read_sc s.a want
  have hr := read_reads s.a want
  have hk := read_seeks s.a want
  have hst := hs.steps
  simp only [St.steps] at hst
  have hok := read_ok s.a want
  have herr := read_err s.a want
  generalize s.a.read want = rd at *
  obtain ⟨r, a'⟩ := rd
  simp only at hl hby hsc hr hk hok herr
  match r with
  | .ok n =>
    obtain ⟨h1, h2, h3⟩ := hok n rfl
    simp only
    refine ⟨h2, ?_, ⟨by rw [hl, hs.len], by rw [hby, hs.byte], by rw [hsc, hs.sc], by rw [h1, hs.pos], hs.alloc,
      by simp only [St.steps]; omega⟩⟩
    intro hn; have := h3 hn; rw [hs.pos, hs.len] at this; exact this
  | .error e =>
    simp only
    exact ⟨rfl, hs.alloc, by simp only [St.steps]; omega⟩

theorem stopIf_triple {a0 : Asset} {X : Nat} {P : St → Prop} (c : Bool) (o : Outcome) (hc : c = false) :
    Triple a0 X P (stopIf c o) (fun _ s => P s) := by
  subst hc
  intro s hs
  exact hs

/-! ### the string scan, repaired -/

theorem scanStrings_triple {a0 : Asset} {X : Nat} (fx : Fix) (hspin : fx .vtxSpin = true) (hscan : fx .vtxScan = true) :
    ∀ (fuel size nulls p b : Nat), a0.len - p < fuel → p ≤ a0.len → size ≤ p →
      b + 2 * (a0.len - p) + 2 ≤ stepBound a0.len →
      Triple a0 X (fun s => Tr a0 X s p b) (scanStrings fx fuel size nulls)
        (fun size' s => ∃ p' b', size' ≤ p' ∧ p' ≤ a0.len ∧
          b' + 2 * (a0.len - p') ≤ b + 2 * (a0.len - p) ∧ Tr a0 X s p' b') := by
  intro fuel
  induction fuel with
  | zero => intro size nulls p b h; omega
  | succ fuel ih =>
    intro size nulls p b hf hp hsz hb
    unfold scanStrings
    apply Triple.ite
    · intro _
      apply Triple.ret
      intro s hs
      exact ⟨p, b, hsz, hp, Nat.le_refl _, hs⟩
    · intro _
      apply Triple.bind (tick_triple 1)
      intro _
      apply Triple.bind getAsset_triple
      intro a; apply Triple.pure_pre; intro _; apply Triple.pure_pre; intro _
      apply Triple.pure_pre; intro _; apply Triple.pure_pre; intro hpos
      apply Triple.bind (readM_triple READ_STRING_BUFFER_SIZE (by omega))
      intro n; apply Triple.pure_pre; intro hn; apply Triple.pure_pre; intro hfit
      apply Triple.ite
      · intro _
        simp only [hspin, if_true]
        exact Triple.fail _ _ (fun s hs => hs.fin (by omega))
      · intro hn0
        have hfit := hfit (by omega)
        simp only [hscan, if_true]
        have hcur := scanBuffer_le (fun i => if i < n then a.u8 (a.pos + i) else 0) n READ_STRING_BUFFER_SIZE 0 nulls (by omega)
        generalize scanBuffer (fun i => if i < n then a.u8 (a.pos + i) else 0) n n READ_STRING_BUFFER_SIZE 0 nulls = sb at *
        obtain ⟨cur, nulls'⟩ := sb
        simp only at hcur ⊢
        have := ih (size + cur) nulls' (p + n) (b + 1 + 1) (by omega) hfit (by omega) (by omega)
        apply Triple.post this
        intro size' s ⟨p', b', h2, h3, h4, h1⟩
        exact ⟨p', b', h2, h3, by omega, h1⟩

/-- What `Vtx::load` needs: the scan loop repaired (zero read = error, search inside the bytes
read, no assert), the decoder a function (it does not panic), and for the two header fields
either the repair or a harmless value. -/
structure VtxGuard (fx : Fix) (produced : Nat) (a0 : Asset) : Prop where
  spin : fx .vtxSpin = true
  scan : fx .vtxScan = true
  strings : fx .vtxStrings = true
  arith : fx .vtxArith = true
  alloc : fx .vtxAlloc = true ∨ a0.le32 12 ≤ allocBound a0.len (vtxExtra produced)
  freq : fx .vtxPlayerFreq = true ∨ a0.u8 9 ≠ 0

theorem vtxLoad_triple {a0 : Asset} (fx : Fix) (produced : Nat) (hg : VtxGuard fx produced a0) (hp0 : a0.pos = 0) :
    Triple a0 (vtxExtra produced) (fun s => Tr a0 (vtxExtra produced) s 0 0) (vtxLoad fx (some produced))
      (fun _ s => Fin a0 (vtxExtra produced) s) := by
  have hC : VTX_DECODE_CHUNK = 65536 := rfl
  unfold vtxLoad
  simp only [Option.getD_some]
  apply Triple.bind (vtxReadExact_triple 2 _ (by simp only [stepBound]; omega))
  intro m; apply Triple.pure_pre; intro hm; subst hm; apply Triple.pure_pre; intro _
  apply Triple.bind getAsset_triple
  intro a; apply Triple.pure_pre; intro hby; apply Triple.pure_pre; intro _
  apply Triple.pure_pre; intro _; apply Triple.pure_pre; intro _
  apply Triple.bind (guardM_triple _ _ (fun s hs => hs.fin (by simp only [stepBound]; omega)))
  intro _; apply Triple.pure_pre; intro _
  apply Triple.bind (vtxReadExact_triple 1 _ (by simp only [stepBound]; omega))
  intro st; apply Triple.pure_pre; intro _; apply Triple.pure_pre; intro _
  apply Triple.bind (guardM_triple _ _ (fun s hs => hs.fin (by simp only [stepBound]; omega)))
  intro _; apply Triple.pure_pre; intro _
  apply Triple.bind (vtxReadExact_triple 2 _ (by simp only [stepBound]; omega))
  intro _; apply Triple.pure_pre; intro _; apply Triple.pure_pre; intro _
  apply Triple.bind (vtxReadExact_triple 4 _ (by simp only [stepBound]; omega))
  intro _; apply Triple.pure_pre; intro _; apply Triple.pure_pre; intro _
  apply Triple.bind (vtxReadExact_triple 1 _ (by simp only [stepBound]; omega))
  intro pfo; apply Triple.pure_pre; intro hpf; subst hpf; apply Triple.pure_pre; intro _
  apply Triple.bind (vtxReadExact_triple 2 _ (by simp only [stepBound]; omega))
  intro _; apply Triple.pure_pre; intro _; apply Triple.pure_pre; intro _
  apply Triple.bind (vtxReadExact_triple 4 _ (by simp only [stepBound]; omega))
  intro d; apply Triple.pure_pre; intro hd; subst hd; apply Triple.pure_pre; intro hL
  have hL := hL (by omega)
  rw [le32_congr hby, u8_congr hby]
  apply Triple.bind (guardM_triple _ _ (fun s hs => hs.fin (by simp only [stepBound]; omega)))
  intro _; apply Triple.pure_pre; intro _
  apply Triple.bind (guardM_triple _ _ (fun s hs => hs.fin (by simp only [stepBound]; omega)))
  intro _; apply Triple.pure_pre; intro hfreq
  have hpf : decide (a0.u8 (0 + 2 + 1 + 2 + 4) = 0) = false := by
    cases hg.freq with
    | inl h => rw [h] at hfreq; simpa using hfreq
    | inr h => simpa using h
  apply Triple.bind (vtxSeekCur_triple (by simp only [stepBound]; omega))
  intro ss; apply Triple.pure_pre; intro hss; subst hss
  apply Triple.bind getAsset_triple
  intro a1; apply Triple.pure_pre; intro _; apply Triple.pure_pre; intro hlen1
  apply Triple.pure_pre; intro _; apply Triple.pure_pre; intro _
  rw [hlen1]
  generalize List.foldl max 0 a1.sc.readFails = mf
  apply Triple.bind (scanStrings_triple fx hg.spin hg.scan (a0.len + mf + 3) 0 0 _ _ (by omega) hL (by omega)
    (by simp only [stepBound]; omega))
  intro size
  apply Triple.exists_pre; intro p'
  apply Triple.exists_pre; intro b'
  apply Triple.pure_pre; intro hsz; apply Triple.pure_pre; intro hp'; apply Triple.pure_pre; intro hb'
  apply Triple.bind (vtxSeekStart_triple _ (by simp only [stepBound]; omega))
  intro _; apply Triple.pure_pre; intro _
  apply Triple.bind (check_triple fx .vtxArith _ _ (Or.inl hg.arith) (fun s hs => hs.fin (by simp only [stepBound]; omega)))
  intro _; apply Triple.pure_pre; intro _
  apply Triple.bind (alloc_triple (size - 1) (by simp only [allocBound]; omega))
  intro _
  apply Triple.bind (vtxReadExact_triple (size - 1) _ (by simp only [stepBound]; omega))
  intro bb; apply Triple.pure_pre; intro _; apply Triple.pure_pre; intro _
  apply Triple.bind (vtxReadExact_triple 1 _ (by simp only [stepBound]; omega))
  intro z; apply Triple.pure_pre; intro _; apply Triple.pure_pre; intro _
  apply Triple.bind (guardM_triple _ _ (fun s hs => hs.fin (by simp only [stepBound]; omega)))
  intro _; apply Triple.pure_pre; intro _
  apply Triple.bind (tick_triple 1)
  intro _
  apply Triple.bind (check_triple fx .vtxStrings _ _ (Or.inl hg.strings) (fun s hs => hs.fin (by simp only [stepBound]; omega)))
  intro _; apply Triple.pure_pre; intro _
  apply Triple.bind (alloc_triple _ (by
    cases hg.alloc with
    | inl h => simp only [h, if_true, allocBound, vtxExtra]; omega
    | inr h =>
      split
      · simp only [allocBound, vtxExtra]; omega
      · exact h))
  intro _
  apply Triple.bind (tick_triple 1)
  intro _
  apply Triple.bind (stopIf_triple _ _ (by simp))
  intro _
  apply Triple.bind (guardM_triple _ _ (fun s hs => hs.fin (by simp only [stepBound]; omega)))
  intro _; apply Triple.pure_pre; intro hclaim
  have hclaim : a0.le32 (0 + 2 + 1 + 2 + 4 + 1 + 2) ≤ produced := by simpa using hclaim
  apply Triple.bind (alloc_triple _ (by simp only [allocBound, vtxExtra]; omega))
  intro _
  apply Triple.bind (tick_triple 1)
  intro _
  apply Triple.post (stopIf_triple _ _ hpf)
  intro _ s hs
  exact hs.fin (by simp only [stepBound]; omega)

end ZxVerif.Loaders
