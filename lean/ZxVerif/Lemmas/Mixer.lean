/-
Helper lemmas for C19: properties of the sample-index function, the invariants of the always-drain
regime and of the arbitrary-drain regime, preservation by every event.
-/
import ZxVerif.Spec.Mixer
namespace ZxVerif.Mixer

/-- What the theorems need of `t ↦ sample_count_for_frame_fraction(frame_pos at frame clock t)`. -/
structure PosOk (spf L : Nat) (pos : Nat → Nat) : Prop where
  le : ∀ t, pos t ≤ spf
  full : ∀ t, L ≤ t → pos t = spf
  mono : ∀ a b, a ≤ b → pos a ≤ pos b
  zero : pos 0 = 0

/-- the exact rational index has these properties -/
theorem posQ_ok (spf L : Nat) (hL : 0 < L) : PosOk spf L (posQ spf L) := by
  refine ⟨?_, ?_, ?_, ?_⟩
  · intro t
    unfold posQ
    split
    · exact Nat.le_refl _
    · apply Nat.div_le_of_le_mul
      rw [Nat.mul_comm L spf]
      exact Nat.mul_le_mul_left _ (by omega)
  · intro t ht; unfold posQ; simp [ht]
  · intro a b hab
    unfold posQ
    by_cases hb : b ≥ L
    · simp only [hb, if_true]
      split
      · exact Nat.le_refl _
      · apply Nat.div_le_of_le_mul
        rw [Nat.mul_comm L spf]
        exact Nat.mul_le_mul_left _ (by omega)
    · have ha : ¬ a ≥ L := by omega
      simp only [ha, hb, if_false]
      exact Nat.div_le_div_right (Nat.mul_le_mul_left _ hab)
  · unfold posQ; split
    · omega
    · simp

/-- `posQ t` is the sample whose slot `[k/spf, (k+1)/spf)` contains frame time `t/L` -/
theorem posQ_bracket (spf L t : Nat) (hL : 0 < L) (ht : t < L) :
    posQ spf L t * L ≤ spf * t ∧ spf * t < (posQ spf L t + 1) * L := by
  unfold posQ
  have : ¬ t ≥ L := by omega
  simp only [this, if_false]
  constructor
  · exact Nat.div_mul_le_self _ _
  · rw [Nat.mul_comm _ L]; exact Nat.lt_mul_div_succ _ hL

/-- events seen by the sound path -/
inductive Ev
  | wait (clk : Nat)
  | out (data : BitVec 8)
  | pop (n : Nat)
  deriving Repr

def Ev.isPop : Ev → Bool
  | .pop _ => true
  | _ => false

def waitP (pos : Nat → Nat) (s : Machine) (clk : Nat) : Machine := s.wait clk (pos (s.fc + clk))

def stepP (pos : Nat → Nat) (s : Machine) : Ev → Machine
  | .wait clk => waitP pos s clk
  | .out d => s.out d
  | .pop n => { s with mixer := (s.mixer.popN n).1 }

def runP (pos : Nat → Nat) (s : Machine) (evs : List Ev) : Machine := evs.foldl (stepP pos) s

/-- the host that drains everything whenever a frame boundary has just been passed -/
def drainStep (pos : Nat → Nat) (acc : Machine × List (List Level)) (ev : Ev) : Machine × List (List Level) :=
  let s' := stepP pos acc.1 ev
  if s'.frames ≠ acc.1.frames then
    ({ s' with mixer := { s'.mixer with buf := [] } }, acc.2 ++ [s'.mixer.buf])
  else (s', acc.2)

def runDrain (pos : Nat → Nat) (s : Machine) (evs : List Ev) : Machine × List (List Level) :=
  evs.foldl (drainStep pos) (s, [])

/-- invariant of the always-drain regime: the queue holds exactly the samples generated in the
current frame -/
structure Synced (spf L : Nat) (s : Machine) : Prop where
  hspf : s.mixer.spf = spf
  hL : s.L = L
  len : s.mixer.buf.length = s.mixer.lastPos
  le : s.mixer.lastPos ≤ spf

theorem process_fields (m : Mixer) (cur : Nat) :
    (m.process cur).spf = m.spf ∧ (m.process cur).beeper = m.beeper ∧ (m.process cur).useBeeper = m.useBeeper := by
  unfold Mixer.process; split
  · exact ⟨rfl, rfl, rfl⟩
  · split <;> exact ⟨rfl, rfl, rfl⟩

/-- `process` in the synced regime: the queue grows to exactly `max lastPos cur` samples, the new
ones carrying the current level -/
theorem process_synced (m : Mixer) (cur : Nat) (hlen : m.buf.length = m.lastPos) (hle : m.lastPos ≤ m.spf)
    (hcur : cur ≤ m.spf) :
    (m.process cur).buf = m.buf ++ List.replicate (cur - m.lastPos) m.gen ∧
    (m.process cur).lastPos = max m.lastPos cur ∧
    (m.process cur).buf.length = (m.process cur).lastPos := by
  unfold Mixer.process
  by_cases h1 : m.buf.length ≥ m.spf
  · have h0 : cur - m.lastPos = 0 := by omega
    rw [if_pos h1, h0, List.replicate_zero, List.append_nil]
    exact ⟨rfl, by omega, hlen⟩
  · rw [if_neg h1]
    by_cases h2 : cur ≤ m.lastPos
    · have h0 : cur - m.lastPos = 0 := by omega
      rw [if_pos h2, h0, List.replicate_zero, List.append_nil]
      exact ⟨rfl, by omega, hlen⟩
    · rw [if_neg h2]
      refine ⟨rfl, ?_, ?_⟩
      · show cur = max m.lastPos cur; omega
      · show (m.buf ++ List.replicate (cur - m.lastPos) m.gen).length = cur
        rw [List.length_append, List.length_replicate]; omega

theorem waitP_noncross {spf L : Nat} {pos : Nat → Nat} (hp : PosOk spf L pos) {s : Machine}
    (hs : Synced spf L s) (clk : Nat) (h : s.fc + clk < L) :
    Synced spf L (waitP pos s clk) ∧ (waitP pos s clk).frames = s.frames ∧
    (waitP pos s clk).fc = s.fc + clk ∧
    (waitP pos s clk).mixer.buf = s.mixer.buf ++ List.replicate (pos (s.fc + clk) - s.mixer.lastPos) s.mixer.gen ∧
    (waitP pos s clk).mixer.lastPos = max s.mixer.lastPos (pos (s.fc + clk)) ∧
    (waitP pos s clk).mixer.beeper = s.mixer.beeper ∧ (waitP pos s clk).mixer.useBeeper = s.mixer.useBeeper := by
  have hcur : pos (s.fc + clk) ≤ s.mixer.spf := by rw [hs.hspf]; exact hp.le _
  have hpr := process_synced s.mixer (pos (s.fc + clk)) hs.len (by rw [hs.hspf]; exact hs.le) hcur
  have hf := process_fields s.mixer (pos (s.fc + clk))
  have hnc : ¬ s.fc + clk ≥ s.L := by rw [hs.hL]; omega
  have e : waitP pos s clk = { s with fc := s.fc + clk, mixer := s.mixer.process (pos (s.fc + clk)) } := by
    show (if s.fc + clk ≥ s.L then _ else _) = _
    rw [if_neg hnc]
  rw [e]
  refine ⟨⟨by rw [← hs.hspf]; exact hf.1, hs.hL, hpr.2.2, ?_⟩, rfl, rfl, hpr.1, hpr.2.1, hf.2.1, hf.2.2⟩
  show (s.mixer.process _).lastPos ≤ spf
  rw [hpr.2.1]
  have := hs.le
  have := hp.le (s.fc + clk)
  omega

theorem waitP_cross {spf L : Nat} {pos : Nat → Nat} (hp : PosOk spf L pos) {s : Machine}
    (hs : Synced spf L s) (clk : Nat) (h : L ≤ s.fc + clk) :
    (waitP pos s clk).frames = s.frames + 1 ∧ (waitP pos s clk).fc = s.fc + clk - L ∧
    (waitP pos s clk).mixer.buf = s.mixer.buf ++ List.replicate (spf - s.mixer.lastPos) s.mixer.gen ∧
    (waitP pos s clk).mixer.buf.length = spf ∧ (waitP pos s clk).mixer.lastPos = 0 ∧
    (waitP pos s clk).mixer.spf = spf ∧ (waitP pos s clk).L = L ∧
    (waitP pos s clk).mixer.beeper = s.mixer.beeper ∧ (waitP pos s clk).mixer.useBeeper = s.mixer.useBeeper := by
  have hfull : pos (s.fc + clk) = spf := hp.full _ h
  have hpr := process_synced s.mixer (pos (s.fc + clk)) hs.len (by rw [hs.hspf]; exact hs.le)
    (by rw [hfull, hs.hspf]; exact Nat.le_refl _)
  have hf := process_fields s.mixer (pos (s.fc + clk))
  have hc : s.fc + clk ≥ s.L := by rw [hs.hL]; exact h
  rw [hfull] at hpr hf
  have hlen : (s.mixer.process spf).buf.length = spf := by
    rw [hpr.2.2, hpr.2.1]; have := hs.le; omega
  have e : waitP pos s clk =
      { s with fc := s.fc + clk - s.L, mixer := (s.mixer.process spf).newFrame, frames := s.frames + 1 } := by
    show (if s.fc + clk ≥ s.L then _ else _) = _
    rw [if_pos hc, hfull]
  have hnp : ¬ (s.mixer.process spf).buf.length < (s.mixer.process spf).spf := by
    rw [hlen, hf.1, hs.hspf]; omega
  have hnf : (s.mixer.process spf).newFrame = { s.mixer.process spf with lastPos := 0 } := by
    unfold Mixer.newFrame; rw [if_neg hnp]
  rw [e, hnf]
  exact ⟨rfl, by rw [hs.hL], hpr.1, hlen, rfl, by show (s.mixer.process spf).spf = spf; rw [hf.1, hs.hspf], hs.hL, hf.2.1, hf.2.2⟩

/-- one event of the always-drain host keeps the queue synced and every batch it hands over has
exactly `spf` samples -/
theorem drainStep_synced {spf L : Nat} {pos : Nat → Nat} (hp : PosOk spf L pos)
    (acc : Machine × List (List Level)) (ev : Ev) (hev : ev.isPop = false) (hs : Synced spf L acc.1)
    (hb : ∀ b ∈ acc.2, b.length = spf) :
    Synced spf L (drainStep pos acc ev).1 ∧ ∀ b ∈ (drainStep pos acc ev).2, b.length = spf := by
  cases ev with
  | pop n => simp [Ev.isPop] at hev
  | out d =>
    have : (stepP pos acc.1 (.out d)).frames = acc.1.frames := rfl
    unfold drainStep
    simp only [this, ne_eq, not_true_eq_false, if_false]
    exact ⟨⟨hs.hspf, hs.hL, hs.len, hs.le⟩, hb⟩
  | wait clk =>
    by_cases hc : L ≤ acc.1.fc + clk
    · have h := waitP_cross hp hs clk hc
      have hne : (stepP pos acc.1 (.wait clk)).frames ≠ acc.1.frames := by
        show (waitP pos acc.1 clk).frames ≠ _; rw [h.1]; omega
      have e : drainStep pos acc (.wait clk) =
          ({ waitP pos acc.1 clk with mixer := { (waitP pos acc.1 clk).mixer with buf := [] } },
           acc.2 ++ [(waitP pos acc.1 clk).mixer.buf]) := by
        show (if _ then _ else _) = _
        rw [if_pos hne]; rfl
      rw [e]
      refine ⟨⟨h.2.2.2.2.2.1, h.2.2.2.2.2.2.1, ?_, ?_⟩, ?_⟩
      · show ([] : List Level).length = (waitP pos acc.1 clk).mixer.lastPos
        rw [h.2.2.2.2.1]; rfl
      · show (waitP pos acc.1 clk).mixer.lastPos ≤ spf
        rw [h.2.2.2.2.1]; exact Nat.zero_le _
      · intro b hbm
        rcases List.mem_append.1 hbm with hbm | hbm
        · exact hb b hbm
        · rw [List.mem_singleton.1 hbm]; exact h.2.2.2.1
    · have h := waitP_noncross hp hs clk (by omega)
      have hne : ¬ (stepP pos acc.1 (.wait clk)).frames ≠ acc.1.frames := by
        show ¬ (waitP pos acc.1 clk).frames ≠ _; rw [h.2.1]; simp
      have e : drainStep pos acc (.wait clk) = (waitP pos acc.1 clk, acc.2) := by
        show (if _ then _ else _) = _
        rw [if_neg hne]; rfl
      rw [e]
      exact ⟨h.1, hb⟩

/-! ### arbitrary draining: the queue bound -/

theorem process_bound (m : Mixer) (cur : Nat) (hcur : cur ≤ m.spf) (h : m.buf.length < 2 * m.spf) :
    (m.process cur).buf.length < 2 * m.spf := by
  unfold Mixer.process
  split
  · exact h
  · split
    · exact h
    · simp only [List.length_append, List.length_replicate]; omega

theorem newFrame_bound (m : Mixer) (h : m.buf.length < 2 * m.spf) :
    m.newFrame.buf.length < 2 * m.spf ∧ m.newFrame.spf = m.spf := by
  unfold Mixer.newFrame
  refine ⟨?_, rfl⟩
  simp only
  split
  · simp only [List.length_append, List.length_replicate]; omega
  · exact h

theorem stepP_bound {spf L : Nat} {pos : Nat → Nat} (hp : PosOk spf L pos) (s : Machine) (ev : Ev)
    (hspf : s.mixer.spf = spf) (h : s.mixer.buf.length < 2 * spf) :
    (stepP pos s ev).mixer.spf = spf ∧ (stepP pos s ev).mixer.buf.length < 2 * spf := by
  cases ev with
  | out d => exact ⟨hspf, h⟩
  | pop n =>
    refine ⟨hspf, ?_⟩
    show (s.mixer.buf.drop n).length < _
    rw [List.length_drop]; omega
  | wait clk =>
    have hcur : pos (s.fc + clk) ≤ s.mixer.spf := by rw [hspf]; exact hp.le _
    have hb := process_bound s.mixer _ hcur (by rw [hspf]; exact h)
    have hf := process_fields s.mixer (pos (s.fc + clk))
    by_cases hc : s.fc + clk ≥ s.L
    · have e : (stepP pos s (.wait clk)).mixer = (s.mixer.process (pos (s.fc + clk))).newFrame := by
        show (if s.fc + clk ≥ s.L then _ else _ : Machine).mixer = _
        rw [if_pos hc]
      have hn := newFrame_bound (s.mixer.process (pos (s.fc + clk))) (by rw [hf.1]; exact hb)
      rw [e]
      exact ⟨by rw [hn.2, hf.1, hspf], by rw [← hspf, ← hf.1]; exact hn.1⟩
    · have e : (stepP pos s (.wait clk)).mixer = s.mixer.process (pos (s.fc + clk)) := by
        show (if s.fc + clk ≥ s.L then _ else _ : Machine).mixer = _
        rw [if_neg hc]
      rw [e]
      exact ⟨by rw [hf.1, hspf], by rw [← hspf]; exact hb⟩

/-! ### a stretch of waits inside one frame -/

def waitsP (pos : Nat → Nat) (s : Machine) (ws : List Nat) : Machine := ws.foldl (waitP pos) s

theorem waitsP_noncross {spf L : Nat} {pos : Nat → Nat} (hp : PosOk spf L pos) (ws : List Nat) (s : Machine)
    (hs : Synced spf L s) (hrest : s.mixer.lastPos ≤ pos s.fc) (h : s.fc + ws.sum < L) :
    Synced spf L (waitsP pos s ws) ∧ (waitsP pos s ws).fc = s.fc + ws.sum ∧
    (waitsP pos s ws).frames = s.frames ∧
    (waitsP pos s ws).mixer.lastPos ≤ pos (waitsP pos s ws).fc ∧
    (ws ≠ [] → (waitsP pos s ws).mixer.lastPos = pos (waitsP pos s ws).fc) ∧
    (waitsP pos s ws).mixer.buf =
      s.mixer.buf ++ List.replicate ((waitsP pos s ws).mixer.lastPos - s.mixer.lastPos) s.mixer.gen ∧
    s.mixer.lastPos ≤ (waitsP pos s ws).mixer.lastPos ∧
    (waitsP pos s ws).mixer.gen = s.mixer.gen := by
  induction ws generalizing s with
  | nil => simp [waitsP]; exact ⟨hs, hrest⟩
  | cons w ws ih =>
    have hw : s.fc + w < L := by simp only [List.sum_cons] at h; omega
    have h1 := waitP_noncross hp hs w hw
    have hl1 : (waitP pos s w).mixer.lastPos = pos (waitP pos s w).fc := by
      rw [h1.2.2.2.2.1, h1.2.2.1]
      have := hp.mono s.fc (s.fc + w) (by omega)
      omega
    have hgen : (waitP pos s w).mixer.gen = s.mixer.gen := by
      unfold Mixer.gen; rw [h1.2.2.2.2.2.1, h1.2.2.2.2.2.2]
    have ih' := ih (waitP pos s w) h1.1 (Nat.le_of_eq hl1)
      (by rw [h1.2.2.1]; simp only [List.sum_cons] at h; omega)
    have e : waitsP pos s (w :: ws) = waitsP pos (waitP pos s w) ws := rfl
    rw [e]
    obtain ⟨i1, i2, i3, i4, i5, i6, i7, i8⟩ := ih'
    have hmono : s.mixer.lastPos ≤ (waitP pos s w).mixer.lastPos := by rw [h1.2.2.2.2.1]; omega
    refine ⟨i1, ?_, ?_, i4, ?_, ?_, by omega, by rw [i8, hgen]⟩
    · rw [i2, h1.2.2.1]; simp only [List.sum_cons]; omega
    · rw [i3, h1.2.1]
    · intro _
      cases ws with
      | nil => exact hl1
      | cons w' ws' => exact i5 (by simp)
    · rw [i6, h1.2.2.2.1, hgen, List.append_assoc, List.replicate_append_replicate]
      congr 2
      rw [h1.2.2.2.2.1] at hmono i7 ⊢
      have := hp.mono s.fc (s.fc + w) (by omega)
      omega

end ZxVerif.Mixer
