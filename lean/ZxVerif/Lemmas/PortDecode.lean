/-
C07 — the model's decode chains (`readDecode` / `writeDecode`, ZxVerif/Model/Machine.lean) written as
*priority decoders* over the property's per-device select predicates (ZxVerif/Spec/Machine.lean):
which device answers is decided by the first claim that holds in a fixed order. For every one of the
65536 ports and every configuration (`bv_decide`). Props/C07X.lean transfers these statements to
the chains extracted from the Rust source text.
-/
import ZxVerif.Props.C07
namespace ZxVerif.C07L
open ZxVerif.Machine

/-- Reads, in priority order: host extender, then the ULA (A0 = 0), then the Kempston mouse
(enabled, A0 = 1, A5 = 0), then the AY register port (A15 = A14 = 1, A1 = 0), then the Kempston
joystick (enabled, A7 = A6 = A5 = 0); the floating bus exactly when none of the five claims the port. -/
theorem read_priority (cfg : IoCfg) (p : BitVec 16) :
    (readDecode cfg p = .extender ↔ cfg.extender = true) ∧
    (readDecode cfg p = .ula ↔ (!cfg.extender && Spec.selUla p) = true) ∧
    ((readDecode cfg p = .mouseButtons ∨ readDecode cfg p = .mouseX ∨ readDecode cfg p = .mouseY) ↔
      (!cfg.extender && !Spec.selUla p && Spec.selMouse cfg p) = true) ∧
    (readDecode cfg p = .ay ↔
      (!cfg.extender && !Spec.selUla p && !Spec.selMouse cfg p && Spec.selAySelect p) = true) ∧
    (readDecode cfg p = .kempston ↔
      (!cfg.extender && !Spec.selUla p && !Spec.selMouse cfg p && !Spec.selAySelect p &&
        Spec.selKempston cfg p) = true) ∧
    (readDecode cfg p = .floating ↔ Spec.readNobody cfg p = true) := by
  unfold readDecode Spec.readNobody Spec.none5 Spec.selUla Spec.selMouse Spec.selAySelect Spec.selKempston
  bv_decide

/-- Which mouse register: buttons with A8 = 0, X with (A8, A10) = (1, 0), Y with (1, 1). -/
theorem read_mouse_register (cfg : IoCfg) (p : BitVec 16) :
    (readDecode cfg p = .mouseButtons → p &&& 0x0100 = 0) ∧
    (readDecode cfg p = .mouseX → p &&& 0x0500 = 0x0100) ∧
    (readDecode cfg p = .mouseY → p &&& 0x0500 = 0x0500) := by
  unfold readDecode
  bv_decide

/-- Writes, in priority order: host extender, then the AY register-select port (A15 = A14 = 1, A1 = 0)
and the AY data port (A15 = 1, A14 = 0, A1 = 0) — the two exclude one another —, then the ULA (A0 = 0),
then the 128K paging latch (128K only, A15 = A1 = 0); nothing exactly when none of the five claims the port. -/
theorem write_priority (cfg : IoCfg) (p : BitVec 16) :
    (writeDecode cfg p = .extender ↔ cfg.extender = true) ∧
    (writeDecode cfg p = .aySelect ↔ (!cfg.extender && Spec.selAySelect p) = true) ∧
    (writeDecode cfg p = .ayData ↔ (!cfg.extender && Spec.selAyData p) = true) ∧
    (writeDecode cfg p = .ula ↔
      (!cfg.extender && !Spec.selAySelect p && !Spec.selAyData p && Spec.selUla p) = true) ∧
    (writeDecode cfg p = .paging ↔
      (!cfg.extender && !Spec.selUla p && Spec.selPaging cfg.kind p) = true) ∧
    (writeDecode cfg p = .none ↔ Spec.writeNobody cfg p = true) := by
  unfold writeDecode Spec.writeNobody Spec.none5 Spec.selUla Spec.selAySelect Spec.selAyData Spec.selPaging
    Kind.is128
  bv_decide

end ZxVerif.C07L
