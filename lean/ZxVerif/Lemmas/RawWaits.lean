/-
The raw wait schedule of the machine: the arguments of the successive `wait_internal(clk)` calls of
`ZXController` (rustzx-core/src/zx/controller.rs). Every such call also runs
`tape.process_clocks(clk)` and `mixer.process(frame_pos)`, including the calls with `clk = 0` that
`do_contention` makes when the ULA delay is 0 — so this list, zero-length entries included, is the
step schedule that the tape (C11) and the mixer (C19) see.

Part 1: the raw schedule of one timed operation (`waitMreq a clk`, `waitInternal clk`, a port cycle)
as a function of the controller state, with
  (a) refinement: the controller after the operation = `Ctl.waitInternal` folded over the list
      (port writes: up to the device step between first and last contention, which takes no time),
  (b) every entry ≤ 13 when the CPU asks for at most 7 clocks (no invariant needed),
  (c) a memory-side operation has at most one zero entry and its entries sum to delay + clk ≥ clk.
Part 2: the schedule of whole programs: `Trace z z' evs` — the machine got from `z` to `z'` through
primitive bus operations that issued the events `evs` (raw waits and speaker writes) — is closed under
everything `Z80.emulate` does (`BusClosedB 7`), and whenever the contention rules apply to the start
state (`C04Sys.Good`) its waits are the replay `rawReplay` of the machine's log of timed operations,
all ≤ 13, and they add up to the elapsed time.
-/
import ZxVerif.Props.C04Sys
set_option linter.unusedSimpArgs false
namespace ZxVerif.RawWaits
open ZxVerif.Z80 ZxVerif.Machine ZxVerif.Spectrum ZxVerif.C05 ZxVerif.C04Sys

/-! ### The clock: frame offset and frame count -/

/-- the frame offset after `wait_internal(d)` -/
def adv (k : Kind) (fc d : Nat) : Nat :=
  if fc + d ≥ k.specs.clocksFrame then fc + d - k.specs.clocksFrame else fc + d

def advs (k : Kind) (fc : Nat) (ws : List Nat) : Nat := ws.foldl (adv k) fc

/-- (frame offset, frames passed) after `wait_internal(d)` -/
def tick (k : Kind) (cl : Nat × Nat) (d : Nat) : Nat × Nat :=
  if cl.1 + d ≥ k.specs.clocksFrame then (cl.1 + d - k.specs.clocksFrame, cl.2 + 1) else (cl.1 + d, cl.2)

def ticks (k : Kind) (cl : Nat × Nat) (ws : List Nat) : Nat × Nat := ws.foldl (tick k) cl

theorem tick_fst (k : Kind) (cl : Nat × Nat) (d : Nat) : (tick k cl d).1 = adv k cl.1 d := by
  unfold tick adv; split <;> rfl

theorem ticks_fst (k : Kind) (cl : Nat × Nat) (ws : List Nat) : (ticks k cl ws).1 = advs k cl.1 ws := by
  induction ws generalizing cl with
  | nil => rfl
  | cons w ws ih =>
    show (ticks k (tick k cl w) ws).1 = advs k (adv k cl.1 w) ws
    rw [ih, tick_fst]

theorem ticks_append (k : Kind) (cl : Nat × Nat) (xs ys : List Nat) :
    ticks k cl (xs ++ ys) = ticks k (ticks k cl xs) ys := by
  unfold ticks; rw [List.foldl_append]

theorem advs_append (k : Kind) (fc : Nat) (xs ys : List Nat) :
    advs k fc (xs ++ ys) = advs k (advs k fc xs) ys := by
  unfold advs; rw [List.foldl_append]

/-- total time of a clock pair -/
def totalOf (k : Kind) (cl : Nat × Nat) : Nat := cl.2 * k.specs.clocksFrame + cl.1

theorem tick_total (k : Kind) (cl : Nat × Nat) (d : Nat) : totalOf k (tick k cl d) = totalOf k cl + d := by
  unfold totalOf tick
  split
  · simp only [Nat.add_mul, Nat.one_mul]; omega
  · simp only; omega

theorem ticks_total (k : Kind) (cl : Nat × Nat) (ws : List Nat) :
    totalOf k (ticks k cl ws) = totalOf k cl + ws.sum := by
  induction ws generalizing cl with
  | nil => simp [ticks]
  | cons w ws ih =>
    show totalOf k (ticks k (tick k cl w) ws) = _
    rw [ih, tick_total, List.sum_cons]; omega

/-- frames only ever get counted up -/
theorem tick_snd_le (k : Kind) (cl : Nat × Nat) (d : Nat) : cl.2 ≤ (tick k cl d).2 := by
  unfold tick; split <;> simp

theorem ticks_snd_le (k : Kind) (cl : Nat × Nat) (ws : List Nat) : cl.2 ≤ (ticks k cl ws).2 := by
  induction ws generalizing cl with
  | nil => exact Nat.le_refl _
  | cons w ws ih => exact Nat.le_trans (tick_snd_le k cl w) (ih (tick k cl w))

end ZxVerif.RawWaits

namespace ZxVerif.Machine
open ZxVerif.RawWaits

/-- the clock of the controller -/
def Ctl.clock (c : Ctl) : Nat × Nat := (c.frameClocks, c.passedFrames)

/-- a list of successive `wait_internal` calls -/
def Ctl.waits (c : Ctl) (ws : List Nat) : Ctl := ws.foldl Ctl.waitInternal c

end ZxVerif.Machine

namespace ZxVerif.RawWaits
open ZxVerif.Z80 ZxVerif.Machine ZxVerif.Spectrum ZxVerif.C05 ZxVerif.C04Sys

theorem total_eq (c : Ctl) : total c = totalOf c.kind c.clock := rfl

theorem waitInternal_clock (c : Ctl) (d : Nat) : (c.waitInternal d).clock = tick c.kind c.clock d := by
  unfold Ctl.waitInternal tick Ctl.clock; split <;> rfl

theorem waitInternal_fc (c : Ctl) (d : Nat) : (c.waitInternal d).frameClocks = adv c.kind c.frameClocks d := by
  unfold Ctl.waitInternal adv; split <;> rfl

theorem waits_nil (c : Ctl) : c.waits [] = c := rfl
theorem waits_cons (c : Ctl) (w : Nat) (ws : List Nat) : c.waits (w :: ws) = (c.waitInternal w).waits ws := rfl
theorem waits_append (c : Ctl) (xs ys : List Nat) : c.waits (xs ++ ys) = (c.waits xs).waits ys := by
  unfold Ctl.waits; rw [List.foldl_append]

theorem waits_kind (c : Ctl) (ws : List Nat) : (c.waits ws).kind = c.kind := by
  induction ws generalizing c with
  | nil => rfl
  | cons w ws ih => rw [waits_cons, ih, waitInternal_kind]

theorem waits_mem (c : Ctl) (ws : List Nat) : (c.waits ws).mem = c.mem := by
  induction ws generalizing c with
  | nil => rfl
  | cons w ws ih => rw [waits_cons, ih, C06Sys.waitInternal_mem]

theorem waits_clock (c : Ctl) (ws : List Nat) : (c.waits ws).clock = ticks c.kind c.clock ws := by
  induction ws generalizing c with
  | nil => rfl
  | cons w ws ih =>
    rw [waits_cons, ih, waitInternal_kind, waitInternal_clock]; rfl

theorem waits_fc (c : Ctl) (ws : List Nat) : (c.waits ws).frameClocks = advs c.kind c.frameClocks ws := by
  have := congrArg Prod.fst (waits_clock c ws)
  rw [ticks_fst] at this; exact this

theorem contended_of_same {c d : Ctl} (hk : d.kind = c.kind) (hm : d.mem = c.mem) (p : BitVec 16) :
    d.addrIsContended p = c.addrIsContended p := by
  unfold Ctl.addrIsContended Mem.getPage; rw [hm, hk]

theorem waits_contended (c : Ctl) (ws : List Nat) (p : BitVec 16) :
    (c.waits ws).addrIsContended p = c.addrIsContended p :=
  contended_of_same (waits_kind c ws) (waits_mem c ws) p

/-- **Time is the sum of the raw waits.** -/
theorem waits_total (c : Ctl) (ws : List Nat) : total (c.waits ws) = total c + ws.sum := by
  rw [total_eq, total_eq, waits_clock, waits_kind, ticks_total]

/-! ### Part 1: the raw schedule of one timed operation

written over what it depends on: the machine, whether the address is in contended memory, whether the
port is an ULA (even) port, and the frame offset at which the operation starts -/

/-- memory-side cycle: `do_contention` (if the address is contended — a call of `wait_internal` even
when the delay is 0), then `wait_internal(clk)` -/
def memK (k : Kind) (con : Bool) (fc clk : Nat) : List Nat :=
  if con then [contentionClocks k fc, clk] else [clk]

/-- `io_contention_first` -/
def firstK (k : Kind) (con : Bool) (fc : Nat) : List Nat := memK k con fc 1

/-- `io_contention_last` -/
def lastK (k : Kind) (even con : Bool) (fc : Nat) : List Nat :=
  if even then [contentionClocks k fc + 2]
  else if con then
    [contentionClocks k fc + 1,
     contentionClocks k (adv k fc (contentionClocks k fc + 1)) + 1,
     contentionClocks k (adv k (adv k fc (contentionClocks k fc + 1))
       (contentionClocks k (adv k fc (contentionClocks k fc + 1)) + 1))]
  else [2]

/-- the part of a port cycle after the device has been reached: `io_contention_last`, then the
closing `wait_internal(1)` of `read_io`/`write_io` -/
def tailK (k : Kind) (even con : Bool) (fc : Nat) : List Nat := lastK k even con fc ++ [1]

/-- a whole port cycle -/
def ioK (k : Kind) (even con : Bool) (fc : Nat) : List Nat :=
  firstK k con fc ++ tailK k even con (advs k fc (firstK k con fc))

end ZxVerif.RawWaits

namespace ZxVerif.Machine
open ZxVerif.RawWaits

/-- raw schedule of `wait_mreq(a, clk)` / `wait_no_mreq(a, clk)` in controller state `c` -/
def Ctl.rawMem (c : Ctl) (a : BitVec 16) (clk : Nat) : List Nat :=
  memK c.kind (c.addrIsContended a) c.frameClocks clk

/-- raw schedule of a bare `wait_internal(clk)` -/
def Ctl.rawPlain (_ : Ctl) (clk : Nat) : List Nat := [clk]

def Ctl.rawFirst (c : Ctl) (p : BitVec 16) : List Nat := firstK c.kind (c.addrIsContended p) c.frameClocks

def Ctl.rawLast (c : Ctl) (p : BitVec 16) : List Nat :=
  lastK c.kind (portIsContended p) (c.addrIsContended p) c.frameClocks

/-- from the device step to the end of the port cycle -/
def Ctl.rawTail (c : Ctl) (p : BitVec 16) : List Nat :=
  tailK c.kind (portIsContended p) (c.addrIsContended p) c.frameClocks

/-- raw schedule of a whole port cycle started in controller state `c` -/
def Ctl.rawIo (c : Ctl) (p : BitVec 16) : List Nat :=
  ioK c.kind (portIsContended p) (c.addrIsContended p) c.frameClocks

end ZxVerif.Machine

namespace ZxVerif.RawWaits
open ZxVerif.Z80 ZxVerif.Machine ZxVerif.Spectrum ZxVerif.C05 ZxVerif.C04Sys

/-! #### (a) refinement -/

/-- **`wait_mreq` is its raw schedule.** -/
theorem mem_refines (c : Ctl) (a : BitVec 16) (clk : Nat) : c.waitMreq a clk = c.waits (c.rawMem a clk) := by
  unfold Ctl.waitMreq Ctl.rawMem memK Ctl.doContention
  cases c.addrIsContended a <;> rfl

theorem plain_refines (c : Ctl) (clk : Nat) : c.waitInternal clk = c.waits (c.rawPlain clk) := rfl

theorem first_refines (c : Ctl) (p : BitVec 16) : c.ioContentionFirst p = c.waits (c.rawFirst p) := by
  unfold Ctl.ioContentionFirst Ctl.rawFirst firstK memK Ctl.doContention
  cases c.addrIsContended p <;> rfl

theorem last_refines (c : Ctl) (p : BitVec 16) : c.ioContentionLast p = c.waits (c.rawLast p) := by
  unfold Ctl.ioContentionLast Ctl.rawLast lastK
  cases portIsContended p
  · cases hc : c.addrIsContended p
    · rfl
    · simp only [Bool.false_eq_true, if_false, if_true, Ctl.doContentionAndWait, Ctl.doContention]
      simp only [waits_cons, waits_nil, waitInternal_kind, waitInternal_fc]
  · rfl

theorem tail_refines (c : Ctl) (p : BitVec 16) :
    (c.ioContentionLast p).waitInternal 1 = c.waits (c.rawTail p) := by
  rw [last_refines]
  unfold Ctl.rawTail tailK Ctl.rawLast
  rw [waits_append]; rfl

theorem rawIo_eq (c : Ctl) (p : BitVec 16) : c.rawIo p = c.rawFirst p ++ (c.waits (c.rawFirst p)).rawTail p := by
  unfold Ctl.rawIo ioK Ctl.rawTail Ctl.rawFirst
  rw [waits_kind, waits_contended, waits_fc]

/-- **A port read cycle is its raw schedule.** -/
theorem io_refines (c : Ctl) (p : BitVec 16) : c.ioCycle p = c.waits (c.rawIo p) := by
  unfold Ctl.ioCycle
  rw [rawIo_eq, waits_append, tail_refines, first_refines]

/-- **A port cycle with a device step `d` in the middle** (where `write_io` reaches its device — the
paging latch, the ULA output latch, the AY): if the device step leaves the machine kind, the frame
offset and the contendedness of the port address alone, the controller afterwards is: the first part of
the raw schedule of the cycle, the device step, the rest of the raw schedule. -/
theorem io_refines_dev (c : Ctl) (p : BitVec 16) (d : Ctl → Ctl)
    (hk : (d (c.ioContentionFirst p)).kind = c.kind)
    (hf : (d (c.ioContentionFirst p)).frameClocks = (c.ioContentionFirst p).frameClocks)
    (hc : (d (c.ioContentionFirst p)).addrIsContended p = c.addrIsContended p) :
    ((d (c.ioContentionFirst p)).ioContentionLast p).waitInternal 1 =
      (d (c.waits (c.rawFirst p))).waits ((c.waits (c.rawFirst p)).rawTail p) ∧
    c.rawIo p = c.rawFirst p ++ (c.waits (c.rawFirst p)).rawTail p := by
  refine ⟨?_, rawIo_eq c p⟩
  rw [tail_refines, ← first_refines]
  congr 1
  unfold Ctl.rawTail
  rw [hk, hf, hc, first_refines, waits_kind, waits_contended]

/-! #### (b) every entry is at most 13 -/

theorem contention_le (k : Kind) (fc : Nat) : contentionClocks k fc ≤ 6 := by
  rw [C04.contention_eq_spec]; exact C04.specDelay_le k fc

theorem memK_le (k : Kind) (con : Bool) (fc clk : Nat) (hk : clk ≤ 7) : ∀ w ∈ memK k con fc clk, w ≤ 13 := by
  have := contention_le k fc
  unfold memK
  cases con <;> simp <;> omega

theorem tailK_le (k : Kind) (even con : Bool) (fc : Nat) : ∀ w ∈ tailK k even con fc, w ≤ 8 := by
  have h1 := contention_le k fc
  have h2 := contention_le k (adv k fc (contentionClocks k fc + 1))
  have h3 := contention_le k (adv k (adv k fc (contentionClocks k fc + 1))
       (contentionClocks k (adv k fc (contentionClocks k fc + 1)) + 1))
  unfold tailK lastK
  intro w hw
  cases even <;> cases con <;> simp at hw <;> omega

theorem ioK_le (k : Kind) (even con : Bool) (fc : Nat) : ∀ w ∈ ioK k even con fc, w ≤ 8 := by
  intro w hw
  unfold ioK at hw
  rcases List.mem_append.mp hw with h | h
  · have := memK_le k con fc 1 (by omega) w h
    have h6 := contention_le k fc
    unfold firstK memK at h
    cases con <;> simp at h <;> omega
  · exact tailK_le k even _ _ w h

/-- **(b)** a memory-side operation of at most 7 clocks issues raw waits of at most 6 + 7 = 13 -/
theorem rawMem_le (c : Ctl) (a : BitVec 16) (clk : Nat) (hk : clk ≤ 7) : ∀ w ∈ c.rawMem a clk, w ≤ 13 :=
  memK_le _ _ _ _ hk

/-- … a port cycle of at most 6 + 2 = 8 -/
theorem rawIo_le (c : Ctl) (p : BitVec 16) : ∀ w ∈ c.rawIo p, w ≤ 8 := ioK_le _ _ _ _

theorem rawFirst_le (c : Ctl) (p : BitVec 16) : ∀ w ∈ c.rawFirst p, w ≤ 8 := by
  intro w hw
  have h6 := contention_le c.kind c.frameClocks
  unfold Ctl.rawFirst firstK memK at hw
  revert hw
  cases c.addrIsContended p <;> intro hw <;> simp at hw <;> omega

theorem rawTail_le (c : Ctl) (p : BitVec 16) : ∀ w ∈ c.rawTail p, w ≤ 8 := tailK_le _ _ _ _

/-! #### (c) zero-length calls -/

/-- **(c)** a memory-side operation of at least one clock contains at most one zero-length call (the
`do_contention` that met no delay) and it is never the last call … -/
theorem rawMem_zeros (c : Ctl) (a : BitVec 16) (clk : Nat) (hk : 1 ≤ clk) :
    (c.rawMem a clk).count 0 ≤ 1 ∧ (c.rawMem a clk).getLast? = some clk := by
  unfold Ctl.rawMem memK
  cases c.addrIsContended a
  · have : clk ≠ 0 := by omega
    simp [List.count_cons, this]
  · have : clk ≠ 0 := by omega
    simp [List.count_cons, this]
    split <;> omega

/-- … and its calls add up to the ULA delay (if the address is contended) plus its clocks, so it is
never all-zero -/
theorem rawMem_sum (c : Ctl) (a : BitVec 16) (clk : Nat) :
    (c.rawMem a clk).sum =
      (if c.addrIsContended a then contentionClocks c.kind c.frameClocks else 0) + clk := by
  unfold Ctl.rawMem memK
  cases c.addrIsContended a <;> simp

theorem rawMem_sum_ge (c : Ctl) (a : BitVec 16) (clk : Nat) : clk ≤ (c.rawMem a clk).sum := by
  rw [rawMem_sum]; omega

/-- a port cycle never takes less than its 4 clocks and ends with a call of 1 clock -/
theorem rawIo_sum_ge (c : Ctl) (p : BitVec 16) : 4 ≤ (c.rawIo p).sum ∧ (c.rawIo p).getLast? = some 1 := by
  unfold Ctl.rawIo ioK tailK firstK memK lastK
  cases portIsContended p <;> cases c.addrIsContended p <;>
    simp [List.getLast?_append, List.sum_append] <;> omega


/-! ### Part 2: the schedule of a program

#### the replay of the machine's log of timed operations -/

/-- raw schedule of one logged operation started at frame offset `fc` with paging latch `latch` in
force, in the property's vocabulary (contended addresses by `Spec.addrContended`) -/
def rawOp (k : Kind) (latch : BitVec 8) (fc : Nat) : TOp → List Nat
  | .mem a clk => memK k (Spec.addrContended k latch a) fc clk
  | .plain clk => [clk]
  | .io p => ioK k (portIsContended p) (Spec.addrContended k latch p) fc

/-- **The raw wait schedule of a logged history** (oldest first) that starts at frame offset `fc`: a
function of the log alone (`ZX.tlog`: operations with the latch in force when each started). -/
def rawReplay (k : Kind) (fc : Nat) : List (BitVec 8 × TOp) → List Nat
  | [] => []
  | e :: es => rawOp k e.1 fc e.2 ++ rawReplay k (advs k fc (rawOp k e.1 fc e.2)) es

theorem rawReplay_append (k : Kind) (fc : Nat) (xs ys : List (BitVec 8 × TOp)) :
    rawReplay k fc (xs ++ ys) = rawReplay k fc xs ++ rawReplay k (advs k fc (rawReplay k fc xs)) ys := by
  induction xs generalizing fc with
  | nil => rfl
  | cons e xs ih =>
    simp only [List.cons_append, rawReplay, ih, List.append_assoc, advs_append]

/-- in the controller's own state, under the invariant, the raw schedule of an operation is the
replayed one -/
theorem rawMem_is_replay (c : Ctl) (h : Good c) (a : BitVec 16) (clk : Nat) :
    c.rawMem a clk = rawOp c.kind c.port7ffd c.frameClocks (.mem a clk) := by
  unfold Ctl.rawMem rawOp; rw [contended_is_spec c h.map a]

theorem rawIo_is_replay (c : Ctl) (h : Good c) (p : BitVec 16) :
    c.rawIo p = rawOp c.kind c.port7ffd c.frameClocks (.io p) := by
  unfold Ctl.rawIo rawOp; rw [contended_is_spec c h.map p]

/-! #### events: raw waits and speaker writes -/

/-- what the sound path and the tape see of the machine: every `wait_internal(clk)` call, and every
write that reaches the ULA output latch (between the first and the last contention of its port cycle) -/
inductive Ev
  | wait (clk : Nat)
  | out (v : BitVec 8)
  deriving Repr, DecidableEq

def waitsOf : List Ev → List Nat
  | [] => []
  | .wait k :: r => k :: waitsOf r
  | .out _ :: r => waitsOf r

/-- the (EAR, MIC) output bits after the events -/
def levelAfter (l : Bool × Bool) : List Ev → Bool × Bool
  | [] => l
  | .wait _ :: r => levelAfter l r
  | .out v :: r => levelAfter (decide (v &&& 0x10 ≠ 0), decide (v &&& 0x08 ≠ 0)) r

def Ev.isWait : Ev → Bool
  | .wait _ => true
  | .out _ => false

theorem waitsOf_append (xs ys : List Ev) : waitsOf (xs ++ ys) = waitsOf xs ++ waitsOf ys := by
  induction xs with
  | nil => rfl
  | cons e xs ih => cases e <;> simp [waitsOf, ih]

theorem levelAfter_append (l : Bool × Bool) (xs ys : List Ev) :
    levelAfter l (xs ++ ys) = levelAfter (levelAfter l xs) ys := by
  induction xs generalizing l with
  | nil => rfl
  | cons e xs ih => cases e <;> simp [levelAfter, ih]

theorem waitsOf_map (ws : List Nat) : waitsOf (ws.map .wait) = ws := by
  induction ws with
  | nil => rfl
  | cons w ws ih => simp [waitsOf, ih]

theorem levelAfter_map (l : Bool × Bool) (ws : List Nat) : levelAfter l (ws.map .wait) = l := by
  induction ws with
  | nil => rfl
  | cons w ws ih => simp [levelAfter, ih]

theorem isWait_map (ws : List Nat) : ∀ e ∈ ws.map Ev.wait, e.isWait = true := by
  intro e he
  obtain ⟨w, _, rfl⟩ := List.mem_map.mp he
  rfl

/-- the controller when `write_io` has reached its device: after the first contention and, on the
paging port, the latch write -/
def devCtl (z : ZX) (p : BitVec 16) (v : BitVec 8) : Ctl :=
  if writeDecode z.cfg p = .paging then (z.ctl.ioContentionFirst p).write7ffd v else z.ctl.ioContentionFirst p

/-- the events of a port write: first contention, the speaker write if the port decodes to the ULA,
last contention and the closing clock -/
def writeEvents (z : ZX) (p : BitVec 16) (v : BitVec 8) : List Ev :=
  (z.ctl.rawFirst p).map .wait ++ (if writeDecode z.cfg p = .ula then [.out v] else []) ++
    ((devCtl z p v).rawTail p).map .wait

/-- **`Trace z z' evs`**: the machine gets from `z` to `z'` through primitive bus operations (the timed
ones with at most 7 clocks per call) that issue, in this order, the events `evs`. -/
inductive Trace : ZX → ZX → List Ev → Prop
  | refl (z : ZX) : Trace z z []
  | trans {a b c : ZX} {e1 e2 : List Ev} : Trace a b e1 → Trace b c e2 → Trace a c (e1 ++ e2)
  | waitMreq (a : BitVec 16) (k : Nat) (z : ZX) : k ≤ 7 →
      Trace z (Bus.waitMreq a k z) ((z.ctl.rawMem a k).map .wait)
  | waitNoMreq (a : BitVec 16) (k : Nat) (z : ZX) : k ≤ 7 →
      Trace z (Bus.waitNoMreq a k z) ((z.ctl.rawMem a k).map .wait)
  | waitInternal (k : Nat) (z : ZX) : k ≤ 7 → Trace z (Bus.waitInternal k z) ((z.ctl.rawPlain k).map .wait)
  | readInternal (a : BitVec 16) (z : ZX) : Trace z (Bus.readInternal a z).2 []
  | writeInternal (a : BitVec 16) (v : BitVec 8) (z : ZX) : Trace z (Bus.writeInternal a v z) []
  | readIo (p : BitVec 16) (z : ZX) : Trace z (Bus.readIo p z).2 ((z.ctl.rawIo p).map .wait)
  | writeIo (p : BitVec 16) (v : BitVec 8) (z : ZX) : Trace z (Bus.writeIo p v z) (writeEvents z p v)
  | readInterrupt (z : ZX) : Trace z (Bus.readInterrupt z).2 []
  | reti (z : ZX) : Trace z (Bus.reti z) []
  | halt (on : Bool) (z : ZX) : Trace z (Bus.halt on z) []
  | pcCallback (a : BitVec 16) (z : ZX) : Trace z (Bus.pcCallback a z) []

/-- `z'` is `z` later, along some trace -/
def Sched (z z' : ZX) : Prop := ∃ evs, Trace z z' evs

/-- everything `Z80.emulate` does on the bus is a trace -/
theorem sched_closed : BusClosedB 7 Sched where
  big := Nat.le_refl 7
  refl z := ⟨[], .refl z⟩
  trans := by rintro a b c ⟨e1, h1⟩ ⟨e2, h2⟩; exact ⟨e1 ++ e2, .trans h1 h2⟩
  waitMreq a k z hk := ⟨_, .waitMreq a k z hk⟩
  waitNoMreq a k z hk := ⟨_, .waitNoMreq a k z hk⟩
  waitInternal k z hk := ⟨_, .waitInternal k z hk⟩
  readInternal a z := ⟨_, .readInternal a z⟩
  writeInternal a v z := ⟨_, .writeInternal a v z⟩
  readIo p z := ⟨_, .readIo p z⟩
  writeIo p v z := ⟨_, .writeIo p v z⟩
  readInterrupt z := ⟨_, .readInterrupt z⟩
  reti z := ⟨_, .reti z⟩
  halt on z := ⟨_, .halt on z⟩
  pcCallback a z := ⟨_, .pcCallback a z⟩

/-- a stretch of the log in which the CPU touches no ULA (even) port -/
def Quiet (d : List (BitVec 8 × TOp)) : Prop := ∀ e ∈ d, ∀ p, e.2 = .io p → portIsContended p = false

/-- what a trace says about its two ends -/
structure Follows (z z' : ZX) (evs : List Ev) : Prop where
  kind : z'.ctl.kind = z.ctl.kind
  /-- the clock of the controller is the clock folded over the raw waits -/
  clock : z'.ctl.clock = ticks z.ctl.kind z.ctl.clock (waitsOf evs)
  /-- the output bits of the ULA are those of the last speaker write -/
  level : (z'.ear, z'.mic) = levelAfter (z.ear, z.mic) evs
  bound : ∀ w ∈ waitsOf evs, w ≤ 13
  /-- the log grows; the speaker is written only in port cycles of even ports; and when the contention
  rules apply to `z` they apply to `z'` and the waits are the replay of the new part of the log -/
  log : ∃ d, z'.tlog = d ++ z.tlog ∧ (Quiet d → ∀ e ∈ evs, e.isWait = true) ∧
    (Good z.ctl → Good z'.ctl ∧ waitsOf evs = rawReplay z.ctl.kind z.ctl.frameClocks d.reverse)

theorem Follows.silent {z z' : ZX} (hk : z'.ctl.kind = z.ctl.kind) (hc : z'.ctl.clock = z.ctl.clock)
    (he : z'.ear = z.ear) (hm : z'.mic = z.mic) (hl : z'.tlog = z.tlog) (hg : Good z.ctl → Good z'.ctl) :
    Follows z z' [] where
  kind := hk
  clock := hc
  level := by rw [he, hm]; rfl
  bound := by simp [waitsOf]
  log := ⟨[], by simp [hl], fun _ e he => by simp at he, fun g => ⟨hg g, rfl⟩⟩

/-- one timed operation that is a list of waits -/
theorem Follows.op {z z' : ZX} (ws : List Nat) (op : TOp) (hc : z'.ctl = z.ctl.waits ws)
    (he : z'.ear = z.ear) (hm : z'.mic = z.mic) (hl : z'.tlog = (z.ctl.port7ffd, op) :: z.tlog)
    (hb : ∀ w ∈ ws, w ≤ 13)
    (hg : Good z.ctl → Good z'.ctl ∧ ws = rawOp z.ctl.kind z.ctl.port7ffd z.ctl.frameClocks op) :
    Follows z z' (ws.map .wait) where
  kind := by rw [hc, waits_kind]
  clock := by rw [hc, waits_clock, waitsOf_map]
  level := by rw [he, hm, levelAfter_map]
  bound := by rw [waitsOf_map]; exact hb
  log := ⟨[(z.ctl.port7ffd, op)], by simp [hl], fun _ => isWait_map ws, fun g => by
    obtain ⟨g', e⟩ := hg g
    refine ⟨g', ?_⟩
    rw [waitsOf_map]
    simp only [List.reverse_cons, List.reverse_nil, List.nil_append, rawReplay, List.append_nil]
    exact e⟩

theorem Follows.trans {a b c : ZX} {e1 e2 : List Ev} (h1 : Follows a b e1) (h2 : Follows b c e2) :
    Follows a c (e1 ++ e2) where
  kind := h2.kind.trans h1.kind
  clock := by rw [h2.clock, h1.clock, h1.kind, waitsOf_append, ticks_append]
  level := by rw [h2.level, h1.level, levelAfter_append]
  bound := by
    intro w hw
    rw [waitsOf_append] at hw
    rcases List.mem_append.mp hw with h | h
    · exact h1.bound w h
    · exact h2.bound w h
  log := by
    obtain ⟨d1, l1, q1, g1⟩ := h1.log
    obtain ⟨d2, l2, q2, g2⟩ := h2.log
    refine ⟨d2 ++ d1, by rw [l2, l1, List.append_assoc], ?_, ?_⟩
    · intro hq e he
      rcases List.mem_append.mp he with h | h
      · exact q1 (fun x hx => hq x (List.mem_append_right _ hx)) e h
      · exact q2 (fun x hx => hq x (List.mem_append_left _ hx)) e h
    · intro g
      obtain ⟨gb, r1⟩ := g1 g
      obtain ⟨gc, r2⟩ := g2 gb
      refine ⟨gc, ?_⟩
      have hfc : b.ctl.frameClocks = advs a.ctl.kind a.ctl.frameClocks (waitsOf e1) := by
        have := congrArg Prod.fst h1.clock
        rw [ticks_fst] at this; exact this
      rw [waitsOf_append, List.reverse_append, rawReplay_append, r1, r2, h1.kind, hfc, r1]

/-! the port write -/

theorem writeIo_ctl' (p : BitVec 16) (v : BitVec 8) (z : ZX) :
    (ZX.writeIo p v z).ctl = (devCtl z p v).waits ((devCtl z p v).rawTail p) := by
  rw [writeIo_ctl, tail_refines]; rfl

theorem writeIo_level (p : BitVec 16) (v : BitVec 8) (z : ZX) :
    ((ZX.writeIo p v z).ear, (ZX.writeIo p v z).mic) =
      if writeDecode z.cfg p = .ula then (decide (v &&& 0x10 ≠ 0), decide (v &&& 0x08 ≠ 0)) else (z.ear, z.mic) := by
  unfold ZX.writeIo
  cases h : writeDecode z.cfg p <;> simp

theorem ula_decode (cfg : IoCfg) (p : BitVec 16) (h : writeDecode cfg p = .ula) : portIsContended p = true := by
  unfold writeDecode at h
  split at h; · cases h
  split at h; · cases h
  split at h; · cases h
  split at h
  · rename_i hh; simp [portIsContended]; exact hh
  · split at h <;> cases h

theorem devCtl_clock (z : ZX) (p : BitVec 16) (v : BitVec 8) :
    (devCtl z p v).kind = z.ctl.kind ∧ (devCtl z p v).clock = (z.ctl.waits (z.ctl.rawFirst p)).clock := by
  unfold devCtl
  rw [first_refines]
  split
  · obtain ⟨a, b, c⟩ := C04Sys.write7ffd_clock (z.ctl.waits (z.ctl.rawFirst p)) v
    exact ⟨a.trans (waits_kind _ _), by unfold Ctl.clock; rw [b, c]⟩
  · exact ⟨waits_kind _ _, rfl⟩

/-- under the invariant the device step does not change the rest of the raw schedule -/
theorem devCtl_tail (z : ZX) (p : BitVec 16) (v : BitVec 8) (g : Good z.ctl) :
    Good (devCtl z p v) ∧ (devCtl z p v).rawTail p = (z.ctl.waits (z.ctl.rawFirst p)).rawTail p := by
  have g1 : Good (z.ctl.ioContentionFirst p) := by
    rw [first_refines]
    have hb := rawFirst_le z.ctl p
    generalize z.ctl.rawFirst p = ws at hb
    have : ∀ (ws : List Nat) (c : Ctl), Good c → (∀ w ∈ ws, w ≤ 8) → Good (c.waits ws) := by
      intro ws
      induction ws with
      | nil => intro c gc _; exact gc
      | cons w ws ih =>
        intro c gc hb
        have hL := frameLen_big c.kind
        have hw := hb w List.mem_cons_self
        exact ih _ (waitInternal_good c w (by omega) gc) (fun x hx => hb x (List.mem_cons_of_mem _ hx))
    exact this ws z.ctl g hb
  unfold devCtl
  split
  · rename_i hdec
    have hlow := paging_port_low p (paging_decode _ _ hdec)
    refine ⟨write7ffd_good _ v g1, ?_⟩
    obtain ⟨a, b, _⟩ := C04Sys.write7ffd_clock (z.ctl.ioContentionFirst p) v
    unfold Ctl.rawTail
    rw [a, b, write7ffd_contended_low _ v g1.map p hlow, first_refines]
  · exact ⟨g1, by rw [first_refines]⟩

theorem Follows.writeIo (p : BitVec 16) (v : BitVec 8) (z : ZX) :
    Follows z (ZX.writeIo p v z) (writeEvents z p v) where
  kind := by rw [writeIo_ctl', waits_kind]; exact (devCtl_clock z p v).1
  clock := by
    obtain ⟨hk, hc⟩ := devCtl_clock z p v
    rw [writeIo_ctl', waits_clock, hk, hc, waits_clock, ← ticks_append]
    congr 1
    unfold writeEvents
    rw [waitsOf_append, waitsOf_append, waitsOf_map, waitsOf_map]
    split <;> simp [waitsOf]
  level := by
    rw [writeIo_level]
    unfold writeEvents
    rw [levelAfter_append, levelAfter_append, levelAfter_map, levelAfter_map]
    split <;> rfl
  bound := by
    intro w hw
    unfold writeEvents at hw
    rw [waitsOf_append, waitsOf_append, waitsOf_map, waitsOf_map] at hw
    have h0 : waitsOf (if writeDecode z.cfg p = .ula then [Ev.out v] else []) = [] := by split <;> rfl
    rw [h0, List.append_nil] at hw
    rcases List.mem_append.mp hw with h | h
    · have := rawFirst_le _ _ w h; omega
    · have := rawTail_le _ _ w h; omega
  log := by
    refine ⟨[(z.ctl.port7ffd, .io p)], by simp [writeIo_tlog], ?_, ?_⟩
    · intro hq e he
      have hp := hq (z.ctl.port7ffd, .io p) (by simp) p rfl
      have hnu : writeDecode z.cfg p ≠ .ula := fun h => by rw [ula_decode _ _ h] at hp; cases hp
      unfold writeEvents at he
      rw [if_neg hnu, List.append_nil] at he
      rcases List.mem_append.mp he with h | h
      · exact isWait_map _ e h
      · exact isWait_map _ e h
    · intro g
      obtain ⟨gd, ht⟩ := devCtl_tail z p v g
      refine ⟨?_, ?_⟩
      · rw [writeIo_ctl']
        have hb := rawTail_le (devCtl z p v) p
        generalize (devCtl z p v).rawTail p = ws at hb
        generalize devCtl z p v = c at gd
        induction ws generalizing c with
        | nil => exact gd
        | cons w ws ih =>
          have hL := frameLen_big c.kind
          have hw := hb w List.mem_cons_self
          exact ih (fun x hx => hb x (List.mem_cons_of_mem _ hx)) _ (waitInternal_good c w (by omega) gd)
      · unfold writeEvents
        rw [waitsOf_append, waitsOf_append, waitsOf_map, waitsOf_map, ht]
        have h0 : waitsOf (if writeDecode z.cfg p = .ula then [Ev.out v] else []) = [] := by split <;> rfl
        rw [h0, List.append_nil, ← rawIo_eq, rawIo_is_replay _ g]
        simp [rawReplay]

/-- **What a trace says**: the clock of the controller is the clock folded over the raw waits of the
trace (no invariant needed: this is the refinement of Part 1 along the whole trace), every raw wait is
at most 13, the ULA output bits follow the speaker writes, and — when the contention rules apply to the
start state — the raw waits are the replay of the machine's log. -/
theorem Trace.follows {z z' : ZX} {evs : List Ev} (h : Trace z z' evs) : Follows z z' evs := by
  induction h with
  | refl z => exact .silent rfl rfl rfl rfl rfl id
  | trans _ _ ih1 ih2 => exact ih1.trans ih2
  | waitMreq a k z hk =>
    refine .op _ (.mem a k) (mem_refines z.ctl a k) rfl rfl rfl (rawMem_le _ _ _ hk) fun g => ?_
    exact ⟨(mem_time z.ctl a k g hk).2.1, rawMem_is_replay _ g a k⟩
  | waitNoMreq a k z hk =>
    refine .op _ (.mem a k) (mem_refines z.ctl a k) rfl rfl rfl (rawMem_le _ _ _ hk) fun g => ?_
    exact ⟨(mem_time z.ctl a k g hk).2.1, rawMem_is_replay _ g a k⟩
  | waitInternal k z hk =>
    refine .op _ (.plain k) (plain_refines z.ctl k) rfl rfl rfl (by intro w hw; simp [Ctl.rawPlain] at hw; omega)
      fun g => ?_
    exact ⟨(nstep z.ctl k g hk).2.1, rfl⟩
  | readInternal a z => exact .silent rfl rfl rfl rfl rfl id
  | writeInternal a v z =>
    exact .silent rfl rfl rfl rfl rfl fun g => (writeInternal_good z.ctl a v g).1
  | readIo p z =>
    refine .op _ (.io p) (io_refines z.ctl p) rfl rfl rfl
      (fun w hw => by have := rawIo_le _ _ w hw; omega) fun g => ?_
    exact ⟨(io_time z.ctl p id g (fun x gx kx cx => ⟨rfl, gx, kx, cx⟩)).2.1, rawIo_is_replay _ g p⟩
  | writeIo p v z => exact Follows.writeIo p v z
  | readInterrupt z => exact .silent rfl rfl rfl rfl rfl id
  | reti z => exact .silent rfl rfl rfl rfl rfl id
  | halt on z => exact .silent rfl rfl rfl rfl rfl id
  | pcCallback a z => exact .silent rfl rfl rfl rfl rfl id

/-! #### whole programs -/

/-- **The machine's raw wait schedule, for every program.** Start the machine in any state in which
the contention rules apply (`Good`: after reset, or after any program) with an empty log and run any
program for any number of instructions. The raw wait schedule of everything the CPU did — the replay
of the log of timed operations, zero-length calls included — consists of steps of at most 13 T-states,
the clock of the controller (frame offset, frame count) is the start clock folded over it, and it adds
up to the elapsed time. -/
theorem program_schedule (n : Nat) (s : Cpu) (z : ZX) (hg : Good z.ctl) (h0 : z.tlog = []) :
    (∀ w ∈ rawReplay z.ctl.kind z.ctl.frameClocks (Z80.run .hw n (s, z)).2.tlog.reverse, w ≤ 13) ∧
    (Z80.run .hw n (s, z)).2.ctl.clock =
      ticks z.ctl.kind z.ctl.clock (rawReplay z.ctl.kind z.ctl.frameClocks (Z80.run .hw n (s, z)).2.tlog.reverse) ∧
    total (Z80.run .hw n (s, z)).2.ctl =
      total z.ctl + (rawReplay z.ctl.kind z.ctl.frameClocks (Z80.run .hw n (s, z)).2.tlog.reverse).sum ∧
    Good (Z80.run .hw n (s, z)).2.ctl := by
  obtain ⟨evs, ht⟩ := sched_closed.run .hw n (s, z)
  have f := ht.follows
  obtain ⟨d, hl, _, hgd⟩ := f.log
  obtain ⟨g', hr⟩ := hgd hg
  simp only at hl
  rw [h0, List.append_nil] at hl
  rw [hl, ← hr]
  refine ⟨f.bound, f.clock, ?_, g'⟩
  rw [total_eq, total_eq, f.clock, f.kind, ticks_total]

/-- the same with the events: there is a trace of the run whose raw waits are the replay of the log -/
theorem program_trace (n : Nat) (s : Cpu) (z : ZX) :
    ∃ evs, Trace z (Z80.run .hw n (s, z)).2 evs := sched_closed.run .hw n (s, z)

/-- the raw schedule adds up to the property's time for the log (`C04Sys.program_time_is_spec_time`) -/
theorem schedule_sum_is_spec_time (n : Nat) (s : Cpu) (z : ZX) (hg : Good z.ctl) (h0 : z.tlog = []) :
    total z.ctl + (rawReplay z.ctl.kind z.ctl.frameClocks (Z80.run .hw n (s, z)).2.tlog.reverse).sum =
      specReplay z.ctl.kind (total z.ctl) (Z80.run .hw n (s, z)).2.tlog.reverse := by
  rw [← (program_schedule n s z hg h0).2.2.1, (program_time_is_spec_time n s z hg h0).1]

/-! a decidable sufficient condition for `Quiet` -/

def isIo : TOp → Bool
  | .io _ => true
  | _ => false

theorem quiet_of_no_io (d : List (BitVec 8 × TOp)) (h : d.all (fun e => !isIo e.2) = true) : Quiet d := by
  intro e he p hp
  have := List.all_eq_true.mp h e he
  rw [hp] at this
  cases this

/-! ### Non-vacuity -/

/-- a 48K controller at frame offset `fc` -/
def exampleCtl (fc : Nat) : Ctl := { Ctl.new .k48 with frameClocks := fc }

/-- raw schedules at the first contended T-state (14335, delay 6) and six T-states later (delay 0):
a contended read is `[6, 3]` resp. `[0, 3]` — a zero-length call —, an uncontended one `[3]`; a port cycle
of an even port with a contended high byte is C:1, C:3 = `[6, 1, 0 + 2, 1]`; of an odd one C:1 ×4 =
`[6, 1, 0 + 1, 6 + 1, 0, 1]` (two zero-length calls); of port 0xFE N:1, C:3 = `[1, 5 + 2, 1]`; the wait that
ends the frame -/
example :
    (exampleCtl 14335).rawMem 0x4000 3 = [6, 3] ∧ (exampleCtl 14341).rawMem 0x4000 3 = [0, 3] ∧
    (exampleCtl 14335).rawMem 0x8000 3 = [3] ∧
    (exampleCtl 14335).rawIo 0x40FE = [6, 1, 2, 1] ∧ (exampleCtl 14335).rawIo 0x40FF = [6, 1, 1, 7, 0, 1] ∧
    (exampleCtl 14335).rawIo 0x00FE = [1, 7, 1] ∧ (exampleCtl 14335).rawIo 0x00FF = [1, 2, 1] ∧
    ((exampleCtl 69886).waits ((exampleCtl 69886).rawMem 0x8000 4)).clock = (2, 1) := by decide

/-- the refinement on these states: the model's operations are the folded raw schedules -/
example : (exampleCtl 14335).ioCycle 0x40FF = (exampleCtl 14335).waits [6, 1, 1, 7, 0, 1] := by
  rw [io_refines]; rfl

/-- replaying a log: a fetch from uncontended RAM, a contended read, an `IN` from port 0xFE, started at
offset 14331 on a 48K machine -/
example : rawReplay .k48 14331 [(0, .mem 0x8000 4), (0, .mem 0x4001 3), (0, .io 0x00FE)] =
    [4, 6, 3, 1, 4 + 2, 1] := by decide

end ZxVerif.RawWaits
