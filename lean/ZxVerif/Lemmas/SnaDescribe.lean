/-
Helper lemmas for C14: `snaLoad` against `Spec.describeSna` for arbitrary well-formed SNA files.
-/
import ZxVerif.Lemmas.Szx
namespace ZxVerif.Snap

theorem getD_take (f : Bytes) (n k : Nat) (h : k < n) : (f.take n).getD k 0 = f.getD k 0 := by
  simp [List.getD_eq_getElem?_getD, List.getElem?_take, h]

theorem getD_take_drop (f : Bytes) (off n k : Nat) (h : k < n) :
    ((f.drop off).take n).getD k 0 = f.getD (off + k) 0 := by
  simp [List.getD_eq_getElem?_getD, List.getElem?_take, h, List.getElem?_drop]

theorem pageno_lt (mid p : Nat) (m : Machine) (hk : m.kind = Spec.kindOfMid mid)
    (hp : if mid < 2 then p ∈ [5, 2, 0] else p < 8) : szxPageNo mid p < m.ramPages := by
  unfold Machine.ramPages szxPageNo
  rw [hk]
  unfold Spec.kindOfMid
  by_cases hm : mid < 2
  · simp only [hm, if_true] at hp ⊢
    simp only [List.mem_cons, List.not_mem_nil, or_false] at hp
    rcases hp with h | h | h <;> subst h <;> simp
  · simp only [hm, if_false] at hp ⊢
    omega

/-- The bank reader against the spec's `pagesFrom`, page numbers translated by `szxPageNo`. -/
theorem readBanks_pages (f : Bytes) (mid : Nat) : ∀ (ps : List Nat) (k base : Nat) (m : Machine),
    m.kind = Spec.kindOfMid mid → (∀ p ∈ ps, if mid < 2 then p ∈ [5, 2, 0] else p < 8) →
    base + (k + ps.length) * 16384 ≤ f.length →
    ∃ m', readBanks f (base + 16384 * k) (ps.map (szxPageNo mid)) m = .ok m' ∧
      (∃ ram', m' = { m with ram := ram' }) ∧
      Spec.abs m' = Spec.pagesFrom f base ps k (Spec.abs m) := by
  intro ps
  induction ps with
  | nil =>
    intro k base m _ _ _
    exact ⟨m, by simp [readBanks], ⟨m.ram, rfl⟩, rfl⟩
  | cons p ps ih =>
    intro k base m hk hps hlen
    have hp := hps p (by simp)
    have hlt : ¬ m.ramPages ≤ szxPageNo mid p := by have := pageno_lt mid p m hk hp; omega
    have hl0 : base + 16384 * k + 16384 ≤ f.length := by
      have e : (k + (p :: ps).length) * 16384 = 16384 * k + 16384 + ps.length * 16384 := by
        simp only [List.length_cons]
        rw [Nat.add_mul, Nat.add_mul, Nat.one_mul, Nat.mul_comm k]; omega
      rw [e] at hlen; omega
    have hl : base + 16384 * k + pageSize ≤ f.length := hl0
    have hs : slice f (base + 16384 * k) pageSize = some (Spec.chunk16 f k base) := by
      simp only [slice, Spec.chunk16, hl, if_true]
      rfl
    simp only [List.map_cons]
    rw [readBanks, if_neg hlt, hs]
    simp only
    have hoff : base + 16384 * k + pageSize = base + 16384 * (k + 1) := by simp [pageSize]; omega
    rw [hoff]
    obtain ⟨m', e1, ⟨ram', e2⟩, e3⟩ := ih (k + 1) base
      { m with ram := setBank m.ram (szxPageNo mid p) (Spec.chunk16 f k base) } hk
      (fun q hq => hps q (by simp [hq]))
      (by
        have e : k + 1 + ps.length = k + (p :: ps).length := by simp only [List.length_cons]; omega
        rw [e]; exact hlen)
    refine ⟨m', e1, ⟨ram', by rw [e2]⟩, ?_⟩
    rw [e3, abs_setBank mid p m hk hp]
    rfl

theorem map_pageNo_128 (ps : List Nat) : ps.map (szxPageNo 2) = ps := by
  induction ps with
  | nil => rfl
  | cons p ps ih => simp [szxPageNo, ih]

theorem snaTail_length (n : Nat) (hn : n < 8) :
    (Spec.snaTail n).length = if n = 2 ∨ n = 5 then 6 else 5 := by
  have : n = 0 ∨ n = 1 ∨ n = 2 ∨ n = 3 ∨ n = 4 ∨ n = 5 ∨ n = 6 ∨ n = 7 := by omega
  rcases this with h | h | h | h | h | h | h | h <;> subst h <;> decide

theorem snaTail_lt (n p : Nat) (hp : p ∈ Spec.snaTail n) : p < 8 := by
  unfold Spec.snaTail at hp
  simp only [List.mem_filter, List.mem_cons, List.not_mem_nil, or_false] at hp
  omega

theorem abs_refresh (m : Machine) : Spec.abs m.refresh = Spec.abs m := by
  obtain ⟨f1, f2, f3, f4, f5, f6, _, _, _, f10⟩ := refresh_same m
  have hay : m.refresh.ayRegs = m.ayRegs ∧ m.refresh.aySel = m.aySel ∧ m.refresh.ayChip = m.ayChip ∧
      m.refresh.ayEnabled = m.ayEnabled ∧ m.refresh.mouse = m.mouse ∧ m.refresh.ayEnvAtStart = m.ayEnvAtStart := by
    unfold Machine.refresh; split <;> exact ⟨rfl, rfl, rfl, rfl, rfl, rfl⟩
  simp only [Spec.abs, f1, f2, f3, f4, f5, f6, f10, hay.1, hay.2.1, hay.2.2.1, hay.2.2.2.1, hay.2.2.2.2.1,
    hay.2.2.2.2.2]

/-- the header part of `snaLoad` spelled out: the receiver with the 27 header bytes applied -/
def hdrApplied (f : Bytes) (r : Machine) : Machine :=
  let g (k : Nat) : Byte := f.getD k 0
  let iff := g 19 &&& 4 != 0
  let c := r.cpu
  { r with cpu := { c with i := g 0, l' := g 1, h' := g 2, e' := g 3, d' := g 4, c' := g 5, b' := g 6,
                           f' := g 7, a' := g 8, l := g 9, h := g 10, e := g 11, d := g 12, c := g 13,
                           b := g 14, iy := word (g 15) (g 16), ix := word (g 17) (g 18),
                           iff1 := iff, iff2 := iff, r := g 20, f := g 21, a := g 22,
                           sp := word (g 23) (g 24), im := (g 25 &&& 3).toNat },
           border := g 26 &&& 7, borderDev := g 26 &&& 7 }

theorem snaLoadHeader_take (f : Bytes) (r : Machine) (him : (f.getD 25 0 &&& 3).toNat ≠ 3) :
    snaLoadHeader (f.take snaHeaderSize) r = some (hdrApplied f r) := by
  have hg : ∀ k, k < 27 → (f.take snaHeaderSize).getD k 0 = f.getD k 0 := fun k hk => getD_take f 27 k hk
  unfold snaLoadHeader hdrApplied
  simp only [hg 0 (by decide), hg 1 (by decide), hg 2 (by decide), hg 3 (by decide), hg 4 (by decide),
    hg 5 (by decide), hg 6 (by decide), hg 7 (by decide), hg 8 (by decide), hg 9 (by decide), hg 10 (by decide),
    hg 11 (by decide), hg 12 (by decide), hg 13 (by decide), hg 14 (by decide), hg 15 (by decide),
    hg 16 (by decide), hg 17 (by decide), hg 18 (by decide), hg 19 (by decide), hg 20 (by decide),
    hg 21 (by decide), hg 22 (by decide), hg 23 (by decide), hg 24 (by decide), hg 25 (by decide),
    hg 26 (by decide), him, if_false]
  rfl

theorem abs_resetExec_all (r : Machine) :
    Spec.abs ({ r with cpu := r.cpu.resetExec Fixes.all } : Machine) = (Spec.abs r).atBoundary := by
  simp [Spec.abs, Spec.AState.atBoundary, Cpu.resetExec, Fixes.all, Spec.absRegs]

theorem absRegs_hdr (f : Bytes) (r : Machine) (pc : BitVec 16) :
    Spec.absRegs ({ (hdrApplied f r).cpu with pc := pc } : Cpu) = Spec.snaRegs f pc := by
  simp only [Spec.absRegs, Spec.snaRegs, hdrApplied]
  rfl

theorem abs_after_header_128 (f : Bytes) (r : Machine) (hk : r.kind = .k128) (pc : BitVec 16) (latch : Byte) :
    Spec.abs (({ (hdrApplied f r) with cpu := { (hdrApplied f r).cpu with pc := pc } } : Machine).restore7ffd
        Fixes.all latch)
      = { Spec.abs r with regs := Spec.snaRegs f pc, latch := latch, locked := latch &&& 0x20 != 0,
                          border := f.getD 26 0 &&& 7, borderShown := f.getD 26 0 &&& 7 } := by
  generalize hm0 : ({ (hdrApplied f r) with cpu := { (hdrApplied f r).cpu with pc := pc } } : Machine) = m0
  have hk0 : m0.kind = .k128 := by subst hm0; exact hk
  obtain ⟨c1, c2, c3, c4, _, _⟩ := restore7ffd_same Fixes.all m0 latch
  obtain ⟨q1, q2, q3, q4, q5, q6⟩ := restore7ffd_rest Fixes.all m0 latch
  obtain ⟨p1, _, _, _, p5⟩ := restore7ffd_paging Fixes.all m0 latch hk0 (Or.inl rfl)
  have hkind := restore7ffd_kind Fixes.all m0 latch
  have hregs : Spec.absRegs m0.cpu = Spec.snaRegs f pc := by subst hm0; exact absRegs_hdr f r pc
  have hrest : m0.cpu.halted = r.cpu.halted ∧ m0.cpu.skipInt = r.cpu.skipInt ∧ m0.cpu.pfx = r.cpu.pfx ∧
      m0.border = f.getD 26 0 &&& 7 ∧ m0.borderDev = f.getD 26 0 &&& 7 ∧ m0.ram = r.ram ∧
      m0.ayEnabled = r.ayEnabled ∧ m0.ayRegs = r.ayRegs ∧ m0.aySel = r.aySel ∧ m0.ayChip = r.ayChip ∧
      m0.mouse = r.mouse ∧ m0.ayEnvAtStart = r.ayEnvAtStart := by
    subst hm0; exact ⟨rfl, rfl, rfl, rfl, rfl, rfl, rfl, rfl, rfl, rfl, rfl, rfl⟩
  obtain ⟨r1, r2, r3, r4, r5, r6, r7, r8, r9, r10, r11, r12⟩ := hrest
  simp only [Spec.abs, c1, c2, c3, c4, q1, q2, q3, q4, q5, q6, p1, p5, hkind, hk0, hk, hregs, r1, r2, r3, r4, r5, r6, r7,
    r8, r9, r10, r11, r12]
  simp
  by_cases h : latch &&& 32#8 = 0#8 <;> simp [h]

/-- **snaLoad = describeSna, 128K files** (repaired code) -/
theorem sna_describe_128 (f : Bytes) (r : Machine) (a : Spec.AState) (hk : r.kind = .k128)
    (hm : Spec.snaModel f = some .k128) (hd : Spec.describeSna f (Spec.abs r) = some a) :
    ∃ m, snaLoad Fixes.all f r = .ok m ∧ Spec.abs m = a ∧ m.scr 5 = m.ram 5 ∧ m.scr 7 = m.ram 7 ∧
      m.kind = .k128 := by
  -- the length
  have hlen : f.length = 131103 ∨ f.length = 147487 := by
    unfold Spec.snaModel at hm
    split at hm
    · cases hm
    · split at hm
      · assumption
      · cases hm
  unfold Spec.describeSna at hd
  rw [hm] at hd
  split at hd
  · cases hd
  next him =>
  simp only at hd
  split at hd
  · cases hd
  next hcond =>
  simp only [Option.some.injEq] at hd
  generalize hlatch : f.getD 49181 0 = latch at hd hcond
  have hn8 : (latch &&& 7).toNat < 8 := latch_bank_lt latch
  -- model side
  let r0 : Machine := { r with cpu := r.cpu.resetExec Fixes.all }
  let m0 : Machine := { (hdrApplied f r0) with cpu := { (hdrApplied f r0).cpu with pc := word (f.getD 49179 0) (f.getD 49180 0) } }
  let m2 := m0.restore7ffd Fixes.all latch
  have hk2 : m2.kind = Spec.kindOfMid 2 := by
    show (m0.restore7ffd Fixes.all latch).kind = _
    rw [restore7ffd_kind]; exact hk
  have hpb : m2.pagedBank = (latch &&& 7).toNat := by
    have h3 := (restore7ffd_paging Fixes.all m0 latch hk (Or.inl rfl)).2.1
    have hk2' : m2.kind = .k128 := hk2
    simp [Machine.pagedBank, Machine.page, hk2', m2, h3]
  -- the length fits the latch
  have hAB : ((latch &&& 7).toNat = 2 ∨ (latch &&& 7).toNat = 5) = (f.length = 147487) :=
    Classical.not_not.mp hcond
  have htl := snaTail_length (latch &&& 7).toNat hn8
  have htail_len : 49183 + (0 + (Spec.snaTail (latch &&& 7).toNat).length) * 16384 ≤ f.length := by
    rw [htl]
    by_cases hc : (latch &&& 7).toNat = 2 ∨ (latch &&& 7).toNat = 5
    · have : f.length = 147487 := Eq.mp hAB hc
      rw [if_pos hc, this]; decide
    · have : f.length = 131103 := by
        rcases hlen with h | h
        · exact h
        · exact absurd (Eq.mpr hAB h) hc
      rw [if_neg hc, this]; decide
  have hlt8 : ∀ p, p < 8 → (if 2 < 2 then p ∈ [5, 2, 0] else p < 8) := by
    intro p hp; rw [if_neg (by decide)]; exact hp
  -- head banks
  obtain ⟨m3, e1, ⟨ram3, e1r⟩, e1a⟩ := readBanks_pages f 2 [5, 2, (latch &&& 7).toNat] 0 27 m2 hk2
    (by
      intro p hp
      simp only [List.mem_cons, List.not_mem_nil, or_false] at hp
      apply hlt8
      rcases hp with h | h | h <;> subst h <;> first | decide | exact hn8)
    (by rcases hlen with h | h <;> simp [h])
  have hk3 : m3.kind = Spec.kindOfMid 2 := by rw [e1r]; exact hk2
  obtain ⟨m4, e2, _, e2a⟩ := readBanks_pages f 2 (Spec.snaTail (latch &&& 7).toNat) 0 49183 m3 hk3
    (by intro p hp; exact hlt8 p (snaTail_lt _ _ hp)) htail_len
  have hk4 : m4.kind = .k128 := by
    have := readBanks_kind f _ _ m3 m4 e2
    rw [this]; exact hk3
  rw [map_pageNo_128] at e1 e2
  simp only [Nat.mul_zero, Nat.add_zero] at e1 e2
  refine ⟨m4.refresh, ?_, ?_, ?_, ?_, by rw [(refresh_same m4).2.2.2.2.2.2.2.2.2]; exact hk4⟩
  · unfold snaLoad
    have h1 : ¬ f.length < sna48Size := by rcases hlen with h | h <;> simp [h, sna48Size]
    have h2 : sna48Size < f.length := by rcases hlen with h | h <;> simp [h, sna48Size]
    have hb : (r.kind == Kind.k128) = true := by simp [hk]
    rw [if_neg h1]
    simp only [h2, decide_true, hb, bne_self_eq_false, Bool.and_false, Bool.false_eq_true, if_false]
    rw [snaLoadHeader_take f r0 him]
    simp only [if_true]
    unfold snaLoad128
    have hs : slice f sna48Size 4 = some ((f.drop sna48Size).take 4) := by
      unfold slice; rw [if_pos (by rcases hlen with h | h <;> simp [h, sna48Size])]
    rw [hs]
    simp only [getD_take_drop f sna48Size 4 0 (by decide), getD_take_drop f sna48Size 4 1 (by decide),
      getD_take_drop f sna48Size 4 2 (by decide)]
    have ha0 : sna48Size + 0 = 49179 := rfl
    have ha1 : sna48Size + 1 = 49180 := rfl
    have ha2 : sna48Size + 2 = 49181 := rfl
    rw [ha0, ha1, ha2, hlatch]
    show (readBanks f snaHeaderSize [5, 2, m2.pagedBank] m2).bind (fun m =>
      (readBanks f snaTailOffset (tailBanks m2.pagedBank) m).bind fun m => .ok m.refresh) = _
    rw [hpb]
    have e1' : readBanks f snaHeaderSize [5, 2, (latch &&& 7).toNat] m2 = .ok m3 := e1
    rw [e1']
    show (readBanks f snaTailOffset (tailBanks (latch &&& 7).toNat) m3).bind (fun m => Except.ok m.refresh) = _
    have e2' : readBanks f snaTailOffset (tailBanks (latch &&& 7).toNat) m3 = .ok m4 := e2
    rw [e2']
    rfl
  · rw [abs_refresh, e2a, e1a]
    have habs2 : Spec.abs m2 = _ := abs_after_header_128 f r0 hk (word (f.getD 49179 0) (f.getD 49180 0)) latch
    rw [habs2, abs_resetExec_all, ← hd]
    simp only [Spec.abs, Spec.AState.atBoundary, hk]
    rfl
  · rw [(refresh_scr128 m4 hk4).1]; rw [(refresh_same m4).2.2.2.1]
  · rw [(refresh_scr128 m4 hk4).2]; rw [(refresh_same m4).2.2.2.1]

/-! ### 48K files -/

theorem pagesFrom_regs (f : Bytes) (base : Nat) : ∀ (ps : List Nat) (k : Nat) (a : Spec.AState) (g : Spec.Regs),
    Spec.pagesFrom f base ps k { a with regs := g } = { Spec.pagesFrom f base ps k a with regs := g } := by
  intro ps
  induction ps with
  | nil => intro k a g; rfl
  | cons p ps ih =>
    intro k a g
    simp only [Spec.pagesFrom]
    rw [← ih]
    rfl

theorem pagesFrom_model (f : Bytes) (base : Nat) : ∀ (ps : List Nat) (k : Nat) (a : Spec.AState),
    (Spec.pagesFrom f base ps k a).model = a.model := by
  intro ps
  induction ps with
  | nil => intro k a; rfl
  | cons p ps ih => intro k a; simp only [Spec.pagesFrom]; rw [ih]; rfl

/-- on the 48K map the CPU reads what the abstract state says is at that address -/
theorem read_eq_peek48 (m : Machine) (hk : m.kind = .k48) (addr : BitVec 16) (h : 16384 ≤ addr.toNat) :
    m.read addr = (Spec.abs m).peek addr.toNat := by
  have hps : pageSize = 16384 := rfl
  have hlt := addr.isLt
  have hb1 : 1 ≤ addr.toNat / 16384 := by omega
  have hb3 : addr.toNat / 16384 ≤ 3 := by omega
  unfold Machine.read Spec.AState.peek Spec.AState.pageAt
  rw [hps, page48 m hk _ hb1 hb3]
  have : addr.toNat / 16384 = 1 ∨ addr.toNat / 16384 = 2 ∨ addr.toNat / 16384 = 3 := by omega
  rcases this with h1 | h1 | h1 <;> simp [h1, Spec.abs, Spec.absPage, hk]

theorem peek_regs (a : Spec.AState) (g : Spec.Regs) (n : Nat) :
    ({ a with regs := g } : Spec.AState).peek n = a.peek n := rfl

/-- the state a 48K file starts from in `describeSna` -/
def base48 (f : Bytes) (prev : Spec.AState) : Spec.AState :=
  { prev.atBoundary with model := .k48, border := f.getD 26 0 &&& 7, borderShown := f.getD 26 0 &&& 7 }

/-- **snaLoad = describeSna, 48K files** (repaired code) -/
theorem sna_describe_48 (f : Bytes) (r : Machine) (a : Spec.AState) (hk : r.kind = .k48)
    (hm : Spec.snaModel f = some .k48) (hd : Spec.describeSna f (Spec.abs r) = some a) :
    ∃ m, snaLoad Fixes.all f r = .ok m ∧ Spec.abs m = a ∧ m.scr 0 = m.ram 0 ∧ m.kind = .k48 := by
  have hlen : f.length = 49179 := by
    unfold Spec.snaModel at hm
    split at hm
    · assumption
    · split at hm <;> cases hm
  unfold Spec.describeSna at hd
  rw [hm] at hd
  split at hd
  · cases hd
  next him =>
  simp only at hd
  split at hd
  · cases hd
  next hstack =>
  simp only [Option.some.injEq] at hd
  have hsp1 : 16384 ≤ (Spec.snaRegs f 0).sp.toNat := by
    apply Classical.byContradiction; intro h; exact hstack (Or.inl (by omega))
  have hsp2 : 16384 ≤ ((Spec.snaRegs f 0).sp + 1).toNat := by
    apply Classical.byContradiction; intro h; exact hstack (Or.inr (by omega))
  let r0 : Machine := { r with cpu := r.cpu.resetExec Fixes.all }
  have hkh : (hdrApplied f r0).kind = Spec.kindOfMid 1 := hk
  obtain ⟨m3, e1, ⟨ram3, e1r⟩, e1a⟩ := readBanks_pages f 1 [5, 2, 0] 0 27 (hdrApplied f r0) hkh
    (by intro p hp; rw [if_pos (by decide)]; exact hp)
    (by simp [hlen])
  have hmap : [5, 2, 0].map (szxPageNo 1) = [0, 1, 2] := by decide
  rw [hmap] at e1
  simp only [Nat.mul_zero, Nat.add_zero] at e1
  have hk3 : m3.kind = .k48 := by rw [e1r]; exact hk
  have hcpu3 : m3.cpu = (hdrApplied f r0).cpu := by rw [e1r]
  have hsp3 : m3.cpu.sp = (Spec.snaRegs f 0).sp := by rw [hcpu3]; rfl
  refine ⟨m3.popPc.refresh, ?_, ?_, ?_, by rw [(refresh_same _).2.2.2.2.2.2.2.2.2]; exact hk3⟩
  · unfold snaLoad
    have h1 : ¬ f.length < sna48Size := by simp [hlen, sna48Size]
    have h2 : ¬ sna48Size < f.length := by simp [hlen, sna48Size]
    have hb : (r.kind == Kind.k128) = false := by simp [hk]
    rw [if_neg h1]
    simp only [h2, decide_false, hb, bne_self_eq_false, Bool.and_false, Bool.false_eq_true, if_false]
    rw [snaLoadHeader_take f r0 him]
    show snaLoad48 f (hdrApplied f r0) = _
    unfold snaLoad48
    have e1' : readBanks f snaHeaderSize [0, 1, 2] (hdrApplied f r0) = .ok m3 := e1
    rw [e1']
    rfl
  · rw [abs_refresh, ← hd]
    -- abstract state before the pop
    have habs3 : Spec.abs m3 = Spec.pagesFrom f 27 [5, 2, 0] 0 (Spec.abs (hdrApplied f r0)) := e1a
    have habsh : Spec.abs (hdrApplied f r0) =
        { base48 f (Spec.abs r) with regs := Spec.absRegs (hdrApplied f r0).cpu } := by
      simp only [base48, Spec.abs, Spec.AState.atBoundary, hdrApplied, r0, Cpu.resetExec, Fixes.all, if_true, hk]
      simp [Spec.absRegs]
    rw [habsh, pagesFrom_regs] at habs3
    -- the two stack reads
    have hr1 : m3.read m3.cpu.sp = (Spec.abs m3).peek (Spec.snaRegs f 0).sp.toNat := by
      rw [hsp3]; exact read_eq_peek48 m3 hk3 _ hsp1
    have hr2 : m3.read (m3.cpu.sp + 1) = (Spec.abs m3).peek ((Spec.snaRegs f 0).sp + 1).toNat := by
      rw [hsp3]; exact read_eq_peek48 m3 hk3 _ hsp2
    have hpeek : ∀ n, (Spec.abs m3).peek n =
        (Spec.pagesFrom f 27 [5, 2, 0] 0 (base48 f (Spec.abs r))).peek n := by
      intro n; rw [habs3, peek_regs]
    have hpop : Spec.abs m3.popPc = { Spec.abs m3 with regs := Spec.absRegs m3.popPc.cpu } := rfl
    rw [hpop, habs3]
    unfold Machine.popPc
    simp only
    rw [hr1, hr2, hpeek, hpeek, hcpu3]
    simp only [Spec.absRegs, Spec.snaRegs, hdrApplied, base48]
    rfl
  · rw [refresh_scr48 _ (by show m3.kind = _; exact hk3), (refresh_same _).2.2.2.1]

/-! ### a CPU write on the 48K, abstractly -/

theorem abs_write48 (m : Machine) (hk : m.kind = .k48) (addr : BitVec 16) (v : Byte) :
    (Spec.abs (m.write addr v)).page = ((Spec.abs m).poke addr.toNat v).page := by
  have hps : pageSize = 16384 := rfl
  have hlt := addr.isLt
  unfold Spec.AState.poke
  by_cases hrom : addr.toNat < 16384
  · rw [if_pos hrom]
    have hz : addr.toNat / pageSize = 0 := by rw [hps]; omega
    unfold Machine.write
    rw [hz, page48_zero m hk]
  · rw [if_neg hrom]
    have hb1 : 1 ≤ addr.toNat / 16384 := by omega
    have hb3 : addr.toNat / 16384 ≤ 3 := by omega
    unfold Machine.write
    rw [hps, page48 m hk _ hb1 hb3]
    simp only
    -- the page number the spec uses, and the bank the model uses
    have hkm : m.kind = Spec.kindOfMid 1 := hk
    have hpa : (Spec.abs m).pageAt (addr.toNat / 16384) ∈ [5, 2, 0] ∧
        szxPageNo 1 ((Spec.abs m).pageAt (addr.toNat / 16384)) = addr.toNat / 16384 - 1 := by
      have : addr.toNat / 16384 = 1 ∨ addr.toNat / 16384 = 2 ∨ addr.toNat / 16384 = 3 := by omega
      rcases this with h | h | h <;> rw [h] <;> simp [Spec.AState.pageAt, Spec.abs, hk, szxPageNo]
    have hset := abs_setBank 1 ((Spec.abs m).pageAt (addr.toNat / 16384)) m hkm
      (by rw [if_pos (by decide)]; exact hpa.1)
      ((m.ram (addr.toNat / 16384 - 1)).set (addr.toNat % 16384) v)
    rw [hpa.2] at hset
    have hpage : (Spec.abs m).page ((Spec.abs m).pageAt (addr.toNat / 16384)) = m.ram (addr.toNat / 16384 - 1) := by
      have : addr.toNat / 16384 = 1 ∨ addr.toNat / 16384 = 2 ∨ addr.toNat / 16384 = 3 := by omega
      rcases this with h | h | h <;> rw [h] <;> simp [Spec.AState.pageAt, Spec.abs, hk, Spec.absPage]
    rw [hpage, ← hset]
    rfl

theorem poke_page_congr (a a' : Spec.AState) (hp : a.page = a'.page) (hm : a.model = .k48) (hm' : a'.model = .k48)
    (x : Nat) (v : Byte) : (a.poke x v).page = (a'.poke x v).page := by
  unfold Spec.AState.poke
  split
  · exact hp
  · have hpa : a.pageAt (x / 16384) = a'.pageAt (x / 16384) := by
      unfold Spec.AState.pageAt; rw [hm, hm']
    simp only [Spec.AState.withPage, hpa, hp]

theorem poke_model (a : Spec.AState) (x : Nat) (v : Byte) : (a.poke x v).model = a.model := by
  unfold Spec.AState.poke; split <;> rfl

/-- the pages of a 48K machine with PC pushed are the pages the spec's `pushed48` describes -/
theorem abs_pushPc_pages (s : Machine) (hk : s.kind = .k48) :
    (Spec.abs s.pushPc).page = (Spec.pushed48 (Spec.abs s)).page := by
  have h1 := abs_write48 s hk (s.cpu.sp - 1) (hi s.cpu.pc)
  have hk1 : (s.write (s.cpu.sp - 1) (hi s.cpu.pc)).kind = .k48 := by rw [write_kind]; exact hk
  have h2 := abs_write48 (s.write (s.cpu.sp - 1) (hi s.cpu.pc)) hk1 (s.cpu.sp - 2) (lo s.cpu.pc)
  show (Spec.abs ((s.write (s.cpu.sp - 1) (hi s.cpu.pc)).write (s.cpu.sp - 2) (lo s.cpu.pc))).page = _
  rw [h2]
  unfold Spec.pushed48
  exact poke_page_congr _ _ h1 hk1 (by rw [poke_model]; exact hk) _ _

/-! ### after a refresh every screen cache equals RAM -/

theorem refresh_display (m : Machine) (b : Nat) (hb : m.refresh.displayable b = true) :
    m.refresh.scr b = m.refresh.ram b := by
  have hk : m.refresh.kind = m.kind := (refresh_same m).2.2.2.2.2.2.2.2.2
  rw [(refresh_same m).2.2.2.1]
  unfold Machine.displayable at hb
  rw [hk] at hb
  cases hkk : m.kind with
  | k48 =>
    rw [hkk] at hb
    have : b = 0 := by simpa using hb
    subst this; exact refresh_scr48 m hkk
  | k128 =>
    rw [hkk] at hb
    simp only [Bool.or_eq_true, beq_iff_eq] at hb
    rcases hb with h | h <;> subst h
    · exact (refresh_scr128 m hkk).1
    · exact (refresh_scr128 m hkk).2

/-- every successful `snaLoad` ends with a refresh -/
theorem snaLoad_is_refresh (fx : Fixes) (f : Bytes) (r m : Machine) (h : snaLoad fx f r = .ok m) :
    ∃ m0 : Machine, m = m0.refresh := by
  unfold snaLoad at h
  simp only at h
  split at h
  · cases h
  split at h
  · cases h
  split at h
  · cases h
  split at h
  · unfold snaLoad128 at h
    split at h
    · cases h
    · obtain ⟨m3, _, h⟩ := bind_ok _ _ _ h
      obtain ⟨m4, _, h⟩ := bind_ok _ _ _ h
      cases h; exact ⟨m4, rfl⟩
  · unfold snaLoad48 at h
    obtain ⟨m3, _, h⟩ := bind_ok _ _ _ h
    cases h; exact ⟨m3.popPc, rfl⟩

/-- every successful `szxLoad` ends with a refresh -/
theorem szxLoad_is_refresh (fx : Fixes) (inflate : Bytes → Option Bytes) (f : Bytes) (r m : Machine)
    (h : szxLoad fx inflate f r = .ok m) : ∃ m0 : Machine, m = m0.refresh := by
  unfold szxLoad at h
  split at h
  · cases h
  split at h
  · cases h
  simp only at h
  split at h
  · cases h
  split at h
  · cases h
  split at h
  · cases h
  · next m1 _ => cases h; exact ⟨m1, rfl⟩

end ZxVerif.Snap
