/-
Helper lemmas for C13/C14: byte-string slicing, the bank reader, the SNA header, memory
read-after-write on the 48K map.
-/
import ZxVerif.Spec.Snapshot
import Std.Tactic.BVDecide
namespace ZxVerif.Snap

/-! ### slices of appended byte strings -/

theorem slice_head (a b : Bytes) : slice (a ++ b) 0 a.length = some a := by
  simp [slice]

theorem slice_skip (a b : Bytes) (off len : Nat) :
    slice (a ++ b) (a.length + off) len = slice b off len := by
  unfold slice
  simp only [List.length_append, List.drop_append]
  have h1 : a.length + off + len ≤ a.length + b.length ↔ off + len ≤ b.length := by omega
  have h2 : List.drop (a.length + off) a = [] := List.drop_eq_nil_of_le (by omega)
  simp [h1, Nat.add_sub_cancel_left, h2]

theorem slice_at (pre x post : Bytes) (off : Nat) (h : pre.length = off) :
    slice (pre ++ (x ++ post)) off x.length = some x := by
  subst h
  have := slice_skip pre (x ++ post) 0 x.length
  simp only [Nat.add_zero] at this
  rw [this, slice_head]

/-! ### the bank reader -/

@[simp] theorem ramPages_setRam (m : Machine) (f : Nat → Bytes) : ({ m with ram := f }).ramPages = m.ramPages := rfl

/-- Reading the banks `bs` from a file that holds `src b` for each of them, consecutively from
offset `pre.length`, gives `src` on those banks and leaves the others alone. -/
theorem readBanks_flat (src : Nat → Bytes) :
    ∀ (bs : List Nat) (pre post : Bytes) (m : Machine), (∀ b ∈ bs, (src b).length = pageSize) →
      (∀ b ∈ bs, b < m.ramPages) →
      readBanks (pre ++ (bs.flatMap src ++ post)) pre.length bs m
        = .ok { m with ram := fun k => if k ∈ bs then src k else m.ram k } := by
  intro bs
  induction bs with
  | nil => intro pre post m _ _; simp [readBanks]
  | cons b bs ih =>
    intro pre post m hsrc' hb
    have hsrc : (src b).length = pageSize := hsrc' b (by simp)
    have hb0 : b < m.ramPages := hb b (by simp)
    have hlt : ¬ m.ramPages ≤ b := by omega
    have hs : slice (pre ++ ((b :: bs).flatMap src ++ post)) pre.length pageSize = some (src b) := by
      rw [List.flatMap_cons, List.append_assoc, ← hsrc]
      exact slice_at pre (src b) _ _ rfl
    rw [readBanks, if_neg hlt, hs]
    simp only
    have hpre : pre.length + pageSize = (pre ++ src b).length := by simp [hsrc]
    have hfile : pre ++ ((b :: bs).flatMap src ++ post) = (pre ++ src b) ++ (bs.flatMap src ++ post) := by
      simp [List.flatMap_cons, List.append_assoc]
    rw [hpre, hfile, ih (pre ++ src b) post _ (by intro x hx; exact hsrc' x (by simp [hx]))
      (by intro x hx; exact hb x (by simp [hx]))]
    congr 1
    simp only [Machine.mk.injEq, true_and, and_true]
    funext k
    by_cases hk : k = b
    · subst hk; simp [setBank]
    · simp [setBank, hk]

/-! ### the SNA header -/

theorem word_lo_hi (w : BitVec 16) : word (lo w) (hi w) = w := by
  unfold word lo hi; bv_decide

theorem lo_word (l h : Byte) : lo (word l h) = l := by
  unfold word lo; bv_decide

theorem hi_word (l h : Byte) : hi (word l h) = h := by
  unfold word hi; bv_decide

theorem iff_bit (b : Bool) : ((if b then (4 : Byte) else 0) &&& 4 != 0) = b := by
  cases b <;> decide

theorem and7_of_lt (b : Byte) (h : b < 8) : b &&& 7 = b := by bv_decide

theorem im_roundtrip (im : Nat) (h : im < 3) : (BitVec.ofNat 8 im &&& 3).toNat = im := by
  match im, h with
  | 0, _ => decide
  | 1, _ => decide
  | 2, _ => decide

/-- what `snaLoadHeader` makes of the receiver `r` when given the header of `s` -/
def hdrLoaded (fx : Fixes) (s r : Machine) : Machine :=
  let c := s.cpu
  { r with
    cpu := { r.cpu with i := c.i, l' := saveLAlt fx c, h' := saveHAlt fx c, e' := c.e', d' := c.d',
                        c' := c.c', b' := c.b', f' := c.f', a' := c.a', l := c.l, h := c.h, e := c.e,
                        d := c.d, c := c.c, b := c.b, iy := c.iy, ix := c.ix, iff1 := c.iff2,
                        iff2 := c.iff2, r := c.r, f := c.f, a := c.a, sp := c.sp, im := c.im },
    border := s.border, borderDev := s.border }

theorem im_nat (im : Nat) (h : im < 3) : im % 256 &&& 3 = im := by
  match im, h with
  | 0, _ => decide
  | 1, _ => decide
  | 2, _ => decide

theorem iff_bit' (b : Bool) : ((if b = true then (4#8 : Byte) else 0#8) &&& 4#8 != 0#8) = b := by
  cases b <;> decide

theorem snaLoadHeader_header (fx : Fixes) (s r : Machine) (him : s.cpu.im < 3) (hb : s.border < 8) :
    snaLoadHeader (snaHeader fx s) r = some (hdrLoaded fx s r) := by
  unfold snaLoadHeader snaHeader hdrLoaded
  simp [Machine.setBorder, List.getD, word_lo_hi, iff_bit', im_nat _ him]
  exact ⟨by omega, and7_of_lt _ hb⟩

/-! ### 128K: load after save -/

/-- A 128K machine in a reachable paging state with 16 KiB banks. -/
structure WF128 (m : Machine) : Prop where
  kind : m.kind = .k128
  map3 : m.map3 = (m.latch &&& 7).toNat
  map0 : m.map0 = ((m.latch >>> 4) &&& 1).toNat
  screen : m.screenBank = if m.latch &&& 8 = 0 then 5 else 7
  lock : m.pagingEnabled = decide (m.latch &&& 0x20 = 0)
  im : m.cpu.im < 3
  border : m.border < 8
  banks : ∀ k, k < 8 → (m.ram k).length = pageSize

theorem latch_bank_lt (v : Byte) : (v &&& 7).toNat < 8 := by
  have : v &&& 7 < 8 := by bv_decide
  simpa [BitVec.lt_def] using this

theorem WF128.paged {m : Machine} (h : WF128 m) : m.pagedBank = (m.latch &&& 7).toNat := by
  simp [Machine.pagedBank, Machine.page, h.kind, h.map3]

theorem covers (p k : Nat) (hp : p < 8) : (k ∈ [5, 2, p] ∨ k ∈ tailBanks p) ↔ k < 8 := by
  simp only [tailBanks, snaTailBanks, List.mem_filter, List.mem_cons, List.not_mem_nil, or_false, bne_iff_ne]
  omega

theorem restore7ffd_kind (fx : Fixes) (m : Machine) (v : Byte) : (m.restore7ffd fx v).kind = m.kind := by
  unfold Machine.restore7ffd Machine.write7ffd
  split <;> split <;> rfl

theorem restore7ffd_same (fx : Fixes) (m : Machine) (v : Byte) :
    (m.restore7ffd fx v).cpu = m.cpu ∧ (m.restore7ffd fx v).border = m.border ∧
    (m.restore7ffd fx v).borderDev = m.borderDev ∧ (m.restore7ffd fx v).ram = m.ram ∧
    (m.restore7ffd fx v).scr = m.scr ∧ (m.restore7ffd fx v).rom = m.rom := by
  unfold Machine.restore7ffd Machine.write7ffd
  split <;> split <;> simp

/-- a latch restore that is not blocked puts the machine into the paging state of the value -/
theorem restore7ffd_paging (fx : Fixes) (m : Machine) (v : Byte) (hk : m.kind = .k128)
    (h : fx.unlockOnLoad = true ∨ m.pagingEnabled = true) :
    (m.restore7ffd fx v).latch = v ∧ (m.restore7ffd fx v).map3 = (v &&& 7).toNat ∧
    (m.restore7ffd fx v).map0 = ((v >>> 4) &&& 1).toNat ∧
    (m.restore7ffd fx v).screenBank = (if v &&& 8 = 0 then 5 else 7) ∧
    (m.restore7ffd fx v).pagingEnabled = decide (v &&& 0x20 = 0) := by
  unfold Machine.restore7ffd Machine.write7ffd
  rcases h with h | h <;> simp [h, hk]

/-- a blocked latch restore changes nothing -/
theorem restore7ffd_blocked (m : Machine) (v : Byte) (h : m.pagingEnabled = false) :
    m.restore7ffd Fixes.none v = m := by
  simp [Machine.restore7ffd, Machine.write7ffd, Fixes.none, h]

theorem refresh_same (m : Machine) :
    m.refresh.cpu = m.cpu ∧ m.refresh.border = m.border ∧ m.refresh.borderDev = m.borderDev ∧
    m.refresh.ram = m.ram ∧ m.refresh.latch = m.latch ∧ m.refresh.pagingEnabled = m.pagingEnabled ∧
    m.refresh.map3 = m.map3 ∧ m.refresh.map0 = m.map0 ∧ m.refresh.screenBank = m.screenBank ∧
    m.refresh.kind = m.kind := by
  unfold Machine.refresh
  split <;> simp

theorem refresh_scr128 (m : Machine) (hk : m.kind = .k128) :
    m.refresh.scr 5 = m.ram 5 ∧ m.refresh.scr 7 = m.ram 7 := by
  simp [Machine.refresh, hk, setBank]

theorem refresh_scr48 (m : Machine) (hk : m.kind = .k48) : m.refresh.scr 0 = m.ram 0 := by
  simp [Machine.refresh, hk, setBank]

theorem restore7ffd_map3 (fx : Fixes) (m : Machine) (v : Byte) (hk : m.kind = .k128)
    (h : fx.unlockOnLoad = true ∨ m.pagingEnabled = true) :
    (m.restore7ffd fx v).map3 = (v &&& 7).toNat := by
  unfold Machine.restore7ffd Machine.write7ffd
  rcases h with h | h <;> simp [h, hk]

theorem readBanks_kind (f : Bytes) : ∀ (bs : List Nat) (off : Nat) (m m' : Machine),
    readBanks f off bs m = .ok m' → m'.kind = m.kind := by
  intro bs
  induction bs with
  | nil => intro off m m' h; simp [readBanks] at h; rw [← h]
  | cons b bs ih =>
    intro off m m' h
    rw [readBanks] at h
    split at h
    · cases h
    · split at h
      · cases h
      · have := ih _ _ _ h
        exact this

/-- result of the 128K branch on the file written for `s`, from the machine `m` (header applied) -/
def fin128 (fx : Fixes) (s m : Machine) : Machine :=
  let m2 := ({ m with cpu := { m.cpu with pc := s.cpu.pc } }).restore7ffd fx s.latch
  ({ m2 with ram := fun k => if k < 8 then s.ram k else m2.ram k }).refresh

theorem length_snaSave128 (fx : Fixes) (s : Machine) (hs : WF128 s) :
    49183 ≤ (snaSave128 fx s).length := by
  have hp8 : s.pagedBank < 8 := by rw [hs.paged]; exact latch_bank_lt _
  have l5 := hs.banks 5 (by decide)
  have l2 := hs.banks 2 (by decide)
  have lp := hs.banks s.pagedBank hp8
  have lh : (snaHeader fx s).length = 27 := rfl
  simp only [snaSave128, List.length_append, lh, l5, l2, lp, pageSize, List.length_cons, List.length_nil]
  omega

theorem snaLoad128_save (fx : Fixes) (s m : Machine) (hs : WF128 s) (hm : m.kind = .k128)
    (hu : fx.unlockOnLoad = true ∨ m.pagingEnabled = true) :
    snaLoad128 fx (snaSave128 fx s) m = .ok (fin128 fx s m) := by
  have hp : s.pagedBank = (s.latch &&& 7).toNat := hs.paged
  have hp8 : s.pagedBank < 8 := by rw [hp]; exact latch_bank_lt _
  have l5 := hs.banks 5 (by decide)
  have l2 := hs.banks 2 (by decide)
  have lp := hs.banks s.pagedBank hp8
  have lh : (snaHeader fx s).length = 27 := rfl
  let m1' : Machine := { m with cpu := { m.cpu with pc := s.cpu.pc } }
  let m2 := m1'.restore7ffd fx s.latch
  have hk2 : m2.kind = .k128 := by
    show (m1'.restore7ffd fx s.latch).kind = _
    rw [restore7ffd_kind]; exact hm
  have hm3 : m2.map3 = (s.latch &&& 7).toNat := restore7ffd_map3 fx m1' s.latch hm hu
  have hpb : m2.pagedBank = s.pagedBank := by
    rw [hp]; simp [Machine.pagedBank, Machine.page, hk2, hm3]
  have hpages : m2.ramPages = 8 := by simp [Machine.ramPages, hk2]
  have hsec : slice (snaSave128 fx s) sna48Size 4 = some [lo s.cpu.pc, hi s.cpu.pc, s.latch, 0] := by
    have hf : snaSave128 fx s = (snaHeader fx s ++ s.ram 5 ++ s.ram 2 ++ s.ram s.pagedBank) ++
        ([lo s.cpu.pc, hi s.cpu.pc, s.latch, 0] ++ (tailBanks s.pagedBank).flatMap s.ram) := by
      simp [snaSave128, List.append_assoc]
    rw [hf]
    exact slice_at _ [lo s.cpu.pc, hi s.cpu.pc, s.latch, 0] _ _ (by
      simp only [List.length_append, lh, l5, l2, lp, pageSize, sna48Size])
  unfold snaLoad128
  rw [hsec]
  simp only [List.getD_cons_zero, List.getD_cons_succ, word_lo_hi]
  show (readBanks (snaSave128 fx s) snaHeaderSize [5, 2, m2.pagedBank] m2).bind (fun m =>
      (readBanks (snaSave128 fx s) snaTailOffset (tailBanks m2.pagedBank) m).bind fun m => .ok m.refresh) = _
  rw [hpb]
  have hhead : readBanks (snaSave128 fx s) snaHeaderSize [5, 2, s.pagedBank] m2
      = .ok { m2 with ram := fun k => if k ∈ [5, 2, s.pagedBank] then s.ram k else m2.ram k } := by
    have hf : snaSave128 fx s = snaHeader fx s ++ ([5, 2, s.pagedBank].flatMap s.ram ++
        ([lo s.cpu.pc, hi s.cpu.pc, s.latch, 0] ++ (tailBanks s.pagedBank).flatMap s.ram)) := by
      simp [snaSave128, List.flatMap_cons, List.append_assoc]
    rw [hf]
    exact readBanks_flat s.ram _ (snaHeader fx s) _ m2
      (by intro b hb; simp at hb; rcases hb with h | h | h <;> subst h <;> assumption)
      (by intro b hb; rw [hpages]; simp at hb; rcases hb with h | h | h <;> subst h <;> first | decide | exact hp8)
  rw [hhead]
  have htl : ∀ b ∈ tailBanks s.pagedBank, b < 8 := by
    intro b hb
    exact (covers s.pagedBank b hp8).mp (Or.inr hb)
  let m3 : Machine := { m2 with ram := fun k => if k ∈ [5, 2, s.pagedBank] then s.ram k else m2.ram k }
  have htail : readBanks (snaSave128 fx s) snaTailOffset (tailBanks s.pagedBank) m3
      = .ok { m3 with ram := fun k => if k ∈ tailBanks s.pagedBank then s.ram k else m3.ram k } := by
    have hf : snaSave128 fx s = (snaHeader fx s ++ s.ram 5 ++ s.ram 2 ++ s.ram s.pagedBank ++
        [lo s.cpu.pc, hi s.cpu.pc, s.latch, 0]) ++ ((tailBanks s.pagedBank).flatMap s.ram ++ []) := by
      simp [snaSave128, List.append_assoc]
    have hoff : snaTailOffset = (snaHeader fx s ++ s.ram 5 ++ s.ram 2 ++ s.ram s.pagedBank ++
        [lo s.cpu.pc, hi s.cpu.pc, s.latch, 0]).length := by
      simp only [List.length_append, lh, l5, l2, lp, pageSize, snaTailOffset, List.length_cons, List.length_nil]
    rw [hf, hoff]
    exact readBanks_flat s.ram _ _ [] m3
      (by intro b hb; exact hs.banks b (htl b hb))
      (by intro b hb; show b < m2.ramPages; rw [hpages]; exact htl b hb)
  show (readBanks (snaSave128 fx s) snaTailOffset (tailBanks s.pagedBank) m3).bind
      (fun m => Except.ok m.refresh) = _
  rw [htail]
  have hram : (fun k => if k ∈ tailBanks s.pagedBank then s.ram k else m3.ram k)
      = (fun k => if k < 8 then s.ram k else m2.ram k) := by
    funext k
    have hc := covers s.pagedBank k hp8
    by_cases hk : k < 8
    · rcases hc.mpr hk with h | h
      · by_cases ht : k ∈ tailBanks s.pagedBank <;> simp [hk, h, ht, m3]
      · simp [hk, h]
    · have hn1 : ¬ k ∈ [5, 2, s.pagedBank] := fun h => hk (hc.mp (Or.inl h))
      have hn2 : ¬ k ∈ tailBanks s.pagedBank := fun h => hk (hc.mp (Or.inr h))
      simp only [hk, hn1, hn2, if_false, m3]
  rw [hram]
  rfl

/-- the machine `snaLoad` produces from the file `snaSave128` wrote for `s`, loading into `r` -/
def loaded128 (fx : Fixes) (s r : Machine) : Machine :=
  fin128 fx s (hdrLoaded fx s { r with cpu := r.cpu.resetExec fx })

/-- **Load after save, 128K, exact.** For every repair setting, every reachable 128K state `s` and
every 128K receiver `r` that is unlocked (or any receiver once the loader unlocks), loading the
file written for `s` succeeds and produces exactly `loaded128 fx s r`. -/
theorem snaLoad_save128 (fx : Fixes) (s r : Machine) (hs : WF128 s) (hr : r.kind = .k128)
    (hu : fx.unlockOnLoad = true ∨ r.pagingEnabled = true) :
    snaLoad fx (snaSave128 fx s) r = .ok (loaded128 fx s r) := by
  have hlen := length_snaSave128 fx s hs
  have h1 : ¬ (snaSave128 fx s).length < sna48Size := by simp [sna48Size]; omega
  have h2 : sna48Size < (snaSave128 fx s).length := by simp [sna48Size]; omega
  have htake : (snaSave128 fx s).take snaHeaderSize = snaHeader fx s := by
    unfold snaSave128
    exact List.take_left' rfl
  unfold snaLoad
  rw [if_neg h1, htake, snaLoadHeader_header fx s _ hs.im hs.border]
  have hb : (r.kind == Kind.k128) = true := by simp [hr]
  simp only [h2, decide_true, hb, bne_self_eq_false, Bool.and_false, Bool.false_eq_true, if_false, if_true]
  exact snaLoad128_save fx s _ hs hr hu

/-! ### what loads never touch -/

theorem readBanks_only_ram (f : Bytes) : ∀ (bs : List Nat) (off : Nat) (m m' : Machine),
    readBanks f off bs m = .ok m' → ∃ ram', m' = { m with ram := ram' } := by
  intro bs
  induction bs with
  | nil => intro off m m' h; simp [readBanks] at h; exact ⟨m.ram, by rw [← h]⟩
  | cons b bs ih =>
    intro off m m' h
    rw [readBanks] at h
    split at h
    · cases h
    · split at h
      · cases h
      · obtain ⟨ram', h'⟩ := ih _ _ _ h
        exact ⟨ram', h'⟩

/-- the execution state (halted, EI-pending, pending prefix) of a CPU -/
def execState (c : Cpu) : Bool × Bool × Pfx := (c.halted, c.skipInt, c.pfx)

theorem snaLoadHeader_exec (hd : Bytes) (m m' : Machine) (h : snaLoadHeader hd m = some m') :
    execState m'.cpu = execState m.cpu ∧ m'.latch = m.latch ∧ m'.pagingEnabled = m.pagingEnabled ∧
    m'.kind = m.kind ∧ m'.map3 = m.map3 := by
  unfold snaLoadHeader at h
  simp only at h
  split at h
  · cases h
  · cases h; simp [execState, Machine.setBorder]

/-! ### memory of the 48K machine: read after write -/

/-- A 48K machine with 16 KiB pages. -/
structure WF48 (m : Machine) : Prop where
  kind : m.kind = .k48
  im : m.cpu.im < 3
  border : m.border < 8
  banks : ∀ k, k < 3 → (m.ram k).length = pageSize

theorem page48 (m : Machine) (hk : m.kind = .k48) (blk : Nat) (h1 : 1 ≤ blk) (h3 : blk ≤ 3) :
    m.page blk = .ram (blk - 1) := by
  have : blk = 1 ∨ blk = 2 ∨ blk = 3 := by omega
  rcases this with h | h | h <;> subst h <;> simp [Machine.page, hk]

theorem page48_zero (m : Machine) (hk : m.kind = .k48) : m.page 0 = .rom 0 := by
  simp [Machine.page, hk]

theorem getD_set (l : Bytes) (i j : Nat) (v : Byte) :
    (l.set i v).getD j 0 = if i = j ∧ i < l.length then v else l.getD j 0 := by
  simp only [List.getD_eq_getElem?_getD, List.getElem?_set]
  by_cases h : i = j
  · subst h
    by_cases hl : i < l.length
    · simp [hl]
    · simp [hl]
  · simp [h]

/-- On the 48K map a write to RAM is read back at the same address and nowhere else. -/
theorem read_write48 (m : Machine) (hk : m.kind = .k48)
    (hlen : ∀ k, k < 3 → (m.ram k).length = pageSize) (a a' : BitVec 16) (v : Byte)
    (ha : 16384 ≤ a.toNat) :
    (m.write a v).read a' = if a' = a then v else m.read a' := by
  have hps : pageSize = 16384 := rfl
  rw [hps] at hlen
  have hlt := a.isLt
  have hlt' := a'.isLt
  have hb1 : 1 ≤ a.toNat / 16384 := by omega
  have hb3 : a.toNat / 16384 ≤ 3 := by omega
  have hmod : a.toNat % 16384 < 16384 := Nat.mod_lt _ (by decide)
  have hbank : a.toNat / 16384 - 1 < 3 := by omega
  have hwk : (m.write a v).kind = .k48 := by
    unfold Machine.write; rw [hps, page48 m hk _ hb1 hb3]; exact hk
  unfold Machine.read
  rw [hps]
  by_cases hz : a'.toNat / 16384 = 0
  · -- ROM read
    have hne : a' ≠ a := by
      intro h; subst h; omega
    rw [hz, page48_zero _ hwk, page48_zero _ hk]
    simp only [hne, if_false]
    unfold Machine.write
    rw [hps, page48 m hk _ hb1 hb3]
  · have hb1' : 1 ≤ a'.toNat / 16384 := by omega
    have hb3' : a'.toNat / 16384 ≤ 3 := by omega
    rw [page48 _ hwk _ hb1' hb3', page48 m hk _ hb1' hb3']
    simp only
    unfold Machine.write
    rw [hps, page48 m hk _ hb1 hb3]
    simp only [setBank]
    by_cases hbk : a'.toNat / 16384 - 1 = a.toNat / 16384 - 1
    · rw [if_pos hbk, hbk, getD_set]
      have hl := hlen _ hbank
      by_cases haa : a' = a
      · subst haa; simp [hl, hmod]
      · have : ¬ (a.toNat % 16384 = a'.toNat % 16384) := by
          intro hm
          apply haa
          apply BitVec.eq_of_toNat_eq
          omega
        simp [haa, this]
    · have haa : a' ≠ a := by
        intro h; subst h; exact hbk rfl
      simp [hbk, haa]

theorem write48_len (m : Machine) (a : BitVec 16) (v : Byte) (k : Nat) :
    ((m.write a v).ram k).length = (m.ram k).length := by
  unfold Machine.write
  split
  · simp only [setBank]
    split
    · next h => subst h; simp
    · rfl
  · rfl

theorem write_kind (m : Machine) (a : BitVec 16) (v : Byte) : (m.write a v).kind = m.kind := by
  unfold Machine.write; split <;> rfl

theorem write_border (m : Machine) (a : BitVec 16) (v : Byte) : (m.write a v).border = m.border := by
  unfold Machine.write; split <;> rfl

theorem write_cpu (m : Machine) (a : BitVec 16) (v : Byte) : (m.write a v).cpu = m.cpu := by
  unfold Machine.write; split <;> rfl

/-! ### 48K: PC on the stack -/

/-- "the two bytes below SP are RAM" -/
def stackInRam (s : Machine) : Prop :=
  16384 ≤ (s.cpu.sp - 1).toNat ∧ 16384 ≤ (s.cpu.sp - 2).toNat

theorem read_setCpu (m : Machine) (c : Cpu) (a : BitVec 16) : ({ m with cpu := c }).read a = m.read a := rfl

theorem WF48.pushPc {s : Machine} (hs : WF48 s) : WF48 s.pushPc := by
  refine ⟨?_, ?_, ?_, ?_⟩
  · show ((s.write _ _).write _ _).kind = _
    rw [write_kind, write_kind]; exact hs.kind
  · show ((s.write _ _).write _ _).cpu.im < 3
    rw [write_cpu, write_cpu]; exact hs.im
  · show ((s.write _ _).write _ _).border < 8
    rw [write_border, write_border]; exact hs.border
  · intro k hk
    show (((s.write _ _).write _ _).ram k).length = _
    rw [write48_len, write48_len]; exact hs.banks k hk

theorem pushPc_read (s : Machine) (hs : WF48 s) (hst : stackInRam s) :
    s.pushPc.read (s.cpu.sp - 2) = lo s.cpu.pc ∧ s.pushPc.read (s.cpu.sp - 1) = hi s.cpu.pc ∧
    ∀ a, a ≠ s.cpu.sp - 1 → a ≠ s.cpu.sp - 2 → s.pushPc.read a = s.read a := by
  let m1 := s.write (s.cpu.sp - 1) (hi s.cpu.pc)
  have hk1 : m1.kind = .k48 := by show (s.write _ _).kind = _; rw [write_kind]; exact hs.kind
  have hl1 : ∀ k, k < 3 → (m1.ram k).length = pageSize := by
    intro k hk; show ((s.write _ _).ram k).length = _; rw [write48_len]; exact hs.banks k hk
  have hne : s.cpu.sp - 1 ≠ s.cpu.sp - 2 := by bv_decide
  have hr : ∀ a, s.pushPc.read a =
      if a = s.cpu.sp - 2 then lo s.cpu.pc else if a = s.cpu.sp - 1 then hi s.cpu.pc else s.read a := by
    intro a
    show (m1.write (s.cpu.sp - 2) (lo s.cpu.pc)).read a = _
    rw [read_write48 m1 hk1 hl1 _ _ _ hst.2]
    show (if a = s.cpu.sp - 2 then lo s.cpu.pc else (s.write (s.cpu.sp - 1) (hi s.cpu.pc)).read a) = _
    rw [read_write48 s hs.kind hs.banks _ _ _ hst.1]
  refine ⟨by rw [hr, if_pos rfl], by rw [hr, if_neg hne, if_pos rfl], ?_⟩
  intro a h1 h2
  rw [hr, if_neg h2, if_neg h1]

/-- the machine `snaLoad` produces from the file `snaSave48` wrote for `s`, loading into `r` -/
def loaded48 (fx : Fixes) (s r : Machine) : Machine :=
  let e := s.pushPc
  let m := hdrLoaded fx e { r with cpu := r.cpu.resetExec fx }
  ({ m with ram := fun k => if k ∈ [0, 1, 2] then e.ram k else m.ram k }).popPc.refresh

/-- **Load after save, 48K, exact.** -/
theorem snaLoad_save48 (fx : Fixes) (s r : Machine) (hs : WF48 s) (hr : r.kind = .k48) :
    snaLoad fx (snaSave48 fx s) r = .ok (loaded48 fx s r) := by
  have he := hs.pushPc
  have l0 := he.banks 0 (by decide)
  have l1 := he.banks 1 (by decide)
  have l2 := he.banks 2 (by decide)
  have lh : (snaHeader fx s.pushPc).length = 27 := rfl
  have hlen : (snaSave48 fx s).length = 49179 := by
    simp only [snaSave48, Machine.entered48, List.length_append, lh, l0, l1, l2, pageSize]
  have htake : (snaSave48 fx s).take snaHeaderSize = snaHeader fx s.pushPc := by
    unfold snaSave48 Machine.entered48
    exact List.take_left' rfl
  have hb : (r.kind == Kind.k128) = false := by simp [hr]
  unfold snaLoad
  rw [hlen, htake, snaLoadHeader_header fx s.pushPc _ he.im he.border]
  simp only [sna48Size, Nat.lt_irrefl, if_false, decide_false, hb, bne_self_eq_false, Bool.and_false,
    Bool.false_eq_true]
  unfold snaLoad48
  have hf : snaSave48 fx s = snaHeader fx s.pushPc ++ ([0, 1, 2].flatMap s.pushPc.ram ++ []) := by
    simp [snaSave48, Machine.entered48, List.flatMap_cons]
  have hrb := readBanks_flat s.pushPc.ram [0, 1, 2] (snaHeader fx s.pushPc) []
    (hdrLoaded fx s.pushPc { r with cpu := r.cpu.resetExec fx })
    (by intro b hb; simp at hb; rcases hb with h | h | h <;> subst h <;> assumption)
    (by
      intro b hb
      have : (hdrLoaded fx s.pushPc { r with cpu := r.cpu.resetExec fx }).ramPages = 3 := by
        simp [Machine.ramPages, hdrLoaded, hr]
      rw [this]; simp at hb; omega)
  rw [← hf] at hrb
  have : snaHeaderSize = (snaHeader fx s.pushPc).length := rfl
  rw [this, hrb]
  rfl

theorem read_congr48 (m m' : Machine) (hk : m.kind = .k48) (hk' : m'.kind = .k48)
    (hram : ∀ k, k < 3 → m.ram k = m'.ram k) (a : BitVec 16) (ha : 16384 ≤ a.toNat) :
    m.read a = m'.read a := by
  have hps : pageSize = 16384 := rfl
  have hlt := a.isLt
  have hb1 : 1 ≤ a.toNat / 16384 := by omega
  have hb3 : a.toNat / 16384 ≤ 3 := by omega
  unfold Machine.read
  rw [hps, page48 m hk _ hb1 hb3, page48 m' hk' _ hb1 hb3]
  simp only
  rw [hram _ (by omega)]

theorem sp_arith (sp : BitVec 16) : sp - 2 + 2 = sp ∧ sp - 2 + 1 = sp - 1 := by
  constructor <;> bv_decide

theorem bind_ok {α β ε : Type} (x : Except ε α) (f : α → Except ε β) (b : β) (h : x.bind f = .ok b) :
    ∃ a, x = .ok a ∧ f a = .ok b := by
  cases x with
  | error e => cases h
  | ok a => exact ⟨a, rfl, h⟩

/-- what survives of the receiver in any successful load by the unrepaired code: the execution
state always, latch and lock whenever the receiver was locked -/
theorem snaLoad_none_keeps (f : Bytes) (r s' : Machine) (h : snaLoad Fixes.none f r = .ok s') :
    execState s'.cpu = execState r.cpu ∧
    (r.pagingEnabled = false → s'.latch = r.latch ∧ s'.pagingEnabled = false) := by
  unfold snaLoad at h
  simp only at h
  split at h
  · cases h
  split at h
  · cases h
  split at h
  · cases h
  next m hm =>
  obtain ⟨e0, l0, p0, _, _⟩ := snaLoadHeader_exec _ _ _ hm
  have e0' : execState m.cpu = execState r.cpu := by
    rw [e0]; simp [Cpu.resetExec, Fixes.none]
  split at h
  · -- 128K branch
    unfold snaLoad128 at h
    split at h
    · cases h
    next t _ =>
    obtain ⟨m3, h3, h⟩ := bind_ok _ _ _ h
    obtain ⟨m4, h4, h⟩ := bind_ok _ _ _ h
    obtain ⟨ram3, e3⟩ := readBanks_only_ram _ _ _ _ _ h3
    obtain ⟨ram4, e4⟩ := readBanks_only_ram _ _ _ _ _ h4
    cases h
    obtain ⟨f1, _, _, _, f5, f6, _⟩ := refresh_same m4
    obtain ⟨c1, _⟩ := restore7ffd_same Fixes.none
      ({ m with cpu := { m.cpu with pc := word (t.getD 0 0) (t.getD 1 0) } }) (t.getD 2 0)
    refine ⟨?_, ?_⟩
    · rw [f1, e4, e3]
      show execState (Machine.restore7ffd Fixes.none _ _).cpu = _
      rw [c1]
      exact e0'
    · intro hlock
      have hb := restore7ffd_blocked
        ({ m with cpu := { m.cpu with pc := word (t.getD 0 0) (t.getD 1 0) } }) (t.getD 2 0)
        (by show m.pagingEnabled = false; rw [p0]; exact hlock)
      rw [f5, f6, e4, e3]
      show (Machine.restore7ffd Fixes.none _ _).latch = _ ∧ (Machine.restore7ffd Fixes.none _ _).pagingEnabled = _
      rw [hb]
      exact ⟨l0, by show m.pagingEnabled = false; rw [p0]; exact hlock⟩
  · -- 48K branch
    unfold snaLoad48 at h
    obtain ⟨m3, h3, h⟩ := bind_ok _ _ _ h
    obtain ⟨ram3, e3⟩ := readBanks_only_ram _ _ _ _ _ h3
    cases h
    obtain ⟨f1, _, _, _, f5, f6, _⟩ := refresh_same m3.popPc
    refine ⟨?_, ?_⟩
    · rw [f1, e3]; exact e0'
    · intro hlock
      rw [f5, f6, e3]
      exact ⟨l0, by show m.pagingEnabled = false; rw [p0]; exact hlock⟩

theorem snaLoadHeader_isSome (hd : Bytes) (r : Machine) (him : (hd.getD 25 0 &&& 3).toNat ≠ 3) :
    ∃ m, snaLoadHeader hd r = some m := by
  unfold snaLoadHeader
  simp only [him, if_false]
  exact ⟨_, rfl⟩

/-- the 128K branch on a 48K machine asks for RAM page 5 -/
theorem snaLoad128_panics_48k (fx : Fixes) (f : Bytes) (m : Machine) (hk : m.kind = .k48)
    (hlen : sna48Size + 4 ≤ f.length) : snaLoad128 fx f m = .error .panic := by
  unfold snaLoad128
  have hs : slice f sna48Size 4 = some ((f.drop sna48Size).take 4) := by
    unfold slice; rw [if_pos hlen]
  rw [hs]
  simp only
  have hp : ∀ (m : Machine) (v : Byte), m.kind = .k48 → (m.restore7ffd fx v).ramPages = 3 := by
    intro m v hm
    have : (m.restore7ffd fx v).kind = .k48 := by rw [restore7ffd_kind]; exact hm
    simp [Machine.ramPages, this]
  rw [readBanks, if_pos (by rw [hp _ _ (by exact hk)]; decide)]
  rfl

/-- on any file that is long enough the bank reader succeeds and touches only the listed banks -/
theorem readBanks_ok (f : Bytes) : ∀ (bs : List Nat) (off : Nat) (m : Machine),
    (∀ b ∈ bs, b < m.ramPages) → off + bs.length * pageSize ≤ f.length →
    ∃ m', readBanks f off bs m = .ok m' ∧ (∀ k, k ∉ bs → m'.ram k = m.ram k) ∧
      ∃ ram', m' = { m with ram := ram' } := by
  intro bs
  induction bs with
  | nil => intro off m _ _; exact ⟨m, by simp [readBanks], fun _ _ => rfl, m.ram, rfl⟩
  | cons b bs ih =>
    intro off m hb hlen
    have hb0 : ¬ m.ramPages ≤ b := by have := hb b (by simp); omega
    have hl : off + pageSize ≤ f.length := by
      simp only [List.length_cons, Nat.add_mul, Nat.one_mul] at hlen; omega
    have hs : slice f off pageSize = some ((f.drop off).take pageSize) := by
      unfold slice; rw [if_pos hl]
    obtain ⟨m', h1, h2, ram', h3⟩ := ih (off + pageSize)
      { m with ram := setBank m.ram b ((f.drop off).take pageSize) }
      (by intro x hx; exact hb x (by simp [hx]))
      (by simp only [List.length_cons, Nat.add_mul, Nat.one_mul] at hlen; omega)
    refine ⟨m', ?_, ?_, ram', h3⟩
    · rw [readBanks, if_neg hb0, hs]; exact h1
    · intro k hk
      have hkb : k ≠ b := by intro h; subst h; exact hk (by simp)
      have hks : k ∉ bs := by intro h; exact hk (by simp [h])
      rw [h2 k hks]
      simp [setBank, hkb]

end ZxVerif.Snap
