/-
Helper lemmas for C19Sys: the machine's bus events (Lemmas/RawWaits.lean) as events of the sound path
(Lemmas/Mixer.lean); the part of the sound machine that is shared with the machine (frame offset, frame
count, speaker bits) evolves with the raw waits and speaker writes alone, whatever the queue does and
whatever the host pops (`alongside_run`); one batch per frame boundary (`batches_count`); the first batch
after a level change (`first_batch`).
-/
import Std.Tactic.BVDecide
import ZxVerif.Lemmas.RawWaits
import ZxVerif.Lemmas.Mixer
set_option linter.unusedSimpArgs false
namespace ZxVerif.SoundSched
open ZxVerif.Mixer ZxVerif.Z80 ZxVerif.Machine ZxVerif.Spectrum ZxVerif.RawWaits

/-! ### The machine's events as events of the sound path -/

def toMix : RawWaits.Ev → Mixer.Ev
  | .wait k => .wait k
  | .out v => .out v

/-- the machine's part of a host/machine interleaving: everything but the host's pops -/
def machinePart : List Mixer.Ev → List RawWaits.Ev
  | [] => []
  | .wait k :: r => .wait k :: machinePart r
  | .out v :: r => .out v :: machinePart r
  | .pop _ :: r => machinePart r

theorem machinePart_map (evs : List RawWaits.Ev) : machinePart (evs.map toMix) = evs := by
  induction evs with
  | nil => rfl
  | cons e evs ih => cases e <;> simp [toMix, machinePart, ih]

theorem no_pops (evs : List RawWaits.Ev) : ∀ ev ∈ evs.map toMix, ev.isPop = false := by
  intro ev he
  obtain ⟨e, _, rfl⟩ := List.mem_map.mp he
  cases e <;> rfl

/-- a stretch of waits only -/
theorem map_of_waits : ∀ (evs : List RawWaits.Ev), (∀ e ∈ evs, e.isWait = true) →
    evs.map toMix = (waitsOf evs).map Mixer.Ev.wait := by
  intro evs
  induction evs with
  | nil => intro _; rfl
  | cons e evs ih =>
    intro h
    have := ih (fun x hx => h x (List.mem_cons_of_mem _ hx))
    cases e with
    | wait k => simp [toMix, waitsOf, this]
    | out v => have := h (.out v) List.mem_cons_self; cases this

/-! ### Alongside: clock, frame count and speaker bits agree -/

/-- what the sound machine shares with the machine: (frame offset, frames), (EAR, MIC) -/
def core (sm : Mixer.Machine) : (Nat × Nat) × (Bool × Bool) :=
  ((sm.fc, sm.frames), (sm.mixer.beeper.ear, sm.mixer.beeper.mic))

def coreStep (k : Kind) (c : (Nat × Nat) × (Bool × Bool)) : RawWaits.Ev → (Nat × Nat) × (Bool × Bool)
  | .wait d => (tick k c.1 d, c.2)
  | .out v => (c.1, (decide (v &&& 0x10 ≠ 0), decide (v &&& 0x08 ≠ 0)))

theorem coreFold (k : Kind) (c : (Nat × Nat) × (Bool × Bool)) (evs : List RawWaits.Ev) :
    evs.foldl (coreStep k) c = (ticks k c.1 (waitsOf evs), levelAfter c.2 evs) := by
  induction evs generalizing c with
  | nil => rfl
  | cons e evs ih =>
    rw [List.foldl_cons, ih]
    cases e <;> rfl

theorem bit4 (v : BitVec 8) : v.getLsbD 4 = decide (v &&& 0x10 ≠ 0) := by
  have h : v.getLsbD 4 = true ↔ v &&& 0x10#8 ≠ 0#8 := by
    constructor
    · intro h; bv_decide
    · intro h; bv_decide
  cases hb : v.getLsbD 4 <;> simp_all

theorem bit3 (v : BitVec 8) : v.getLsbD 3 = decide (v &&& 0x08 ≠ 0) := by
  have h : v.getLsbD 3 = true ↔ v &&& 0x08#8 ≠ 0#8 := by
    constructor
    · intro h; bv_decide
    · intro h; bv_decide
  cases hb : v.getLsbD 3 <;> simp_all

theorem process_beeper (m : Mixer) (cur : Nat) : (m.process cur).beeper = m.beeper :=
  (process_fields m cur).2.1

theorem waitP_core (pos : Nat → Nat) (k : Kind) (sm : Mixer.Machine) (hL : sm.L = k.specs.clocksFrame) (d : Nat) :
    core (waitP pos sm d) = (tick k (core sm).1 d, (core sm).2) ∧ (waitP pos sm d).L = sm.L := by
  unfold waitP Mixer.Machine.wait tick core
  simp only [hL]
  split
  · refine ⟨?_, rfl⟩
    simp only [Mixer.newFrame, process_beeper]
  · refine ⟨?_, rfl⟩
    simp only [process_beeper]

theorem stepP_core (pos : Nat → Nat) (k : Kind) (sm : Mixer.Machine) (hL : sm.L = k.specs.clocksFrame)
    (ev : Mixer.Ev) :
    core (stepP pos sm ev) = (machinePart [ev]).foldl (coreStep k) (core sm) ∧ (stepP pos sm ev).L = sm.L := by
  cases ev with
  | wait d => exact waitP_core pos k sm hL d
  | out v =>
    refine ⟨?_, rfl⟩
    show ((sm.fc, sm.frames), (v.getLsbD 4, v.getLsbD 3)) = _
    rw [bit4, bit3]; rfl
  | pop n => exact ⟨rfl, rfl⟩

theorem machinePart_cons (ev : Mixer.Ev) (es : List Mixer.Ev) :
    machinePart (ev :: es) = machinePart [ev] ++ machinePart es := by
  cases ev <;> rfl

theorem runP_core (pos : Nat → Nat) (k : Kind) : ∀ (es : List Mixer.Ev) (sm : Mixer.Machine),
    sm.L = k.specs.clocksFrame →
    core (runP pos sm es) = (machinePart es).foldl (coreStep k) (core sm) ∧ (runP pos sm es).L = sm.L := by
  intro es
  induction es with
  | nil => intro sm _; exact ⟨rfl, rfl⟩
  | cons ev es ih =>
    intro sm hL
    obtain ⟨h1, h2⟩ := stepP_core pos k sm hL ev
    obtain ⟨h3, h4⟩ := ih (stepP pos sm ev) (h2.trans hL)
    show core (runP pos (stepP pos sm ev) es) = _ ∧ (runP pos (stepP pos sm ev) es).L = _
    rw [machinePart_cons, List.foldl_append, h3, h1, h4, h2]
    exact ⟨rfl, rfl⟩

/-- the always-draining host only empties the queue: clock, frames and speaker bits are those of the
plain run -/
theorem drainStep_core (pos : Nat → Nat) (acc : Mixer.Machine × List (List Level)) (ev : Mixer.Ev) :
    core (drainStep pos acc ev).1 = core (stepP pos acc.1 ev) ∧ (drainStep pos acc ev).1.L = (stepP pos acc.1 ev).L := by
  unfold drainStep
  simp only
  split <;> exact ⟨rfl, rfl⟩

theorem runDrain_core (pos : Nat → Nat) (k : Kind) : ∀ (es : List Mixer.Ev) (acc : Mixer.Machine × List (List Level)),
    acc.1.L = k.specs.clocksFrame →
    core (es.foldl (drainStep pos) acc).1 = (machinePart es).foldl (coreStep k) (core acc.1) ∧
    (es.foldl (drainStep pos) acc).1.L = acc.1.L := by
  intro es
  induction es with
  | nil => intro acc _; exact ⟨rfl, rfl⟩
  | cons ev es ih =>
    intro acc hL
    obtain ⟨d1, d2⟩ := drainStep_core pos acc ev
    obtain ⟨h1, h2⟩ := stepP_core pos k acc.1 hL ev
    obtain ⟨h3, h4⟩ := ih (drainStep pos acc ev) ((d2.trans h2).trans hL)
    rw [List.foldl_cons, machinePart_cons, List.foldl_append, h3, d1, h1, h4, d2, h2]
    exact ⟨rfl, rfl⟩

/-- **`Alongside sm z`**: the sound machine `sm` (mixer + frame clock) is at the machine's frame
offset and frame count, has the machine's frame length and the machine's speaker bits. -/
structure Alongside (sm : Mixer.Machine) (z : ZX) : Prop where
  fc : sm.fc = z.ctl.frameClocks
  frames : sm.frames = z.ctl.passedFrames
  L : sm.L = z.ctl.kind.specs.clocksFrame
  beeper : sm.mixer.beeper = ⟨z.ear, z.mic⟩

theorem alongside_iff (sm : Mixer.Machine) (z : ZX) :
    Alongside sm z ↔ core sm = (z.ctl.clock, (z.ear, z.mic)) ∧ sm.L = z.ctl.kind.specs.clocksFrame := by
  constructor
  · intro h
    refine ⟨?_, h.L⟩
    unfold core Ctl.clock
    rw [h.fc, h.frames, h.beeper]
  · rintro ⟨h, hL⟩
    unfold core Ctl.clock at h
    simp only [Prod.mk.injEq] at h
    obtain ⟨⟨a, b⟩, c, d⟩ := h
    refine ⟨a, b, hL, ?_⟩
    cases hb : sm.mixer.beeper
    rw [hb] at c d
    simp only at c d
    rw [c, d]

/-- a freshly built sound machine is alongside the machine after reset -/
theorem alongside_reset (rate : Nat) (useBeeper : Bool) (k : Kind) (ke mo : Bool) :
    Alongside { mixer := { spf := spfOf rate, useBeeper := useBeeper }, L := k.specs.clocksFrame }
      (ZX.new k ke mo) := by
  cases k <;> exact ⟨rfl, rfl, rfl, rfl⟩

/-- **The sound machine stays alongside along every trace**, whatever the host pops in between: run it
on any interleaving `es` of host pops with the machine's events `evs`. -/
theorem alongside_run {z z' : ZX} {evs : List RawWaits.Ev} (ht : Trace z z' evs) (pos : Nat → Nat)
    (sm : Mixer.Machine) (ha : Alongside sm z) (es : List Mixer.Ev) (hes : machinePart es = evs) :
    Alongside (runP pos sm es) z' ∧ Alongside (runDrain pos sm es).1 z' := by
  have f := ht.follows
  obtain ⟨hc, hL⟩ := (alongside_iff sm z).mp ha
  have hcore : (machinePart es).foldl (coreStep z.ctl.kind) (core sm) = (z'.ctl.clock, (z'.ear, z'.mic)) := by
    rw [hes, coreFold, hc, f.clock, f.level]
  constructor
  · obtain ⟨h1, h2⟩ := runP_core pos z.ctl.kind es sm hL
    exact (alongside_iff _ z').mpr ⟨h1.trans hcore, by rw [h2, hL, f.kind]⟩
  · obtain ⟨h1, h2⟩ := runDrain_core pos z.ctl.kind es (sm, []) hL
    exact (alongside_iff _ z').mpr ⟨h1.trans hcore, by rw [runDrain, h2, hL, f.kind]⟩

/-! ### One batch per frame -/

theorem stepP_frames (pos : Nat → Nat) (s : Mixer.Machine) (ev : Mixer.Ev) :
    (stepP pos s ev).frames = s.frames ∨ (stepP pos s ev).frames = s.frames + 1 := by
  cases ev with
  | wait d =>
    by_cases hc : s.fc + d ≥ s.L
    · right
      show (if s.fc + d ≥ s.L then _ else _ : Mixer.Machine).frames = _
      rw [if_pos hc]
    · left
      show (if s.fc + d ≥ s.L then _ else _ : Mixer.Machine).frames = _
      rw [if_neg hc]
  | out v => exact Or.inl rfl
  | pop n => exact Or.inl rfl

/-- the always-draining host hands over exactly one batch per frame boundary passed -/
theorem batches_count (pos : Nat → Nat) : ∀ (es : List Mixer.Ev) (acc : Mixer.Machine × List (List Level)),
    (es.foldl (drainStep pos) acc).2.length + acc.1.frames =
      acc.2.length + (es.foldl (drainStep pos) acc).1.frames := by
  intro es
  induction es with
  | nil => intro acc; rfl
  | cons ev es ih =>
    intro acc
    rw [List.foldl_cons]
    have h := ih (drainStep pos acc ev)
    have hf := stepP_frames pos acc.1 ev
    have : (drainStep pos acc ev).2.length + acc.1.frames = acc.2.length + (drainStep pos acc ev).1.frames := by
      unfold drainStep
      simp only
      split
      · rename_i hne
        simp only [List.length_append, List.length_cons, List.length_nil]
        rcases hf with hf | hf
        · exact absurd hf hne
        · rw [hf]; omega
      · rename_i he
        simp only [ne_eq, Decidable.not_not] at he
        simp only [he]
    omega

/-! ### The first batch after a level change -/

theorem drain_acc (pos : Nat → Nat) : ∀ (es : List Mixer.Ev) (s : Mixer.Machine) (acc : List (List Level)),
    (es.foldl (drainStep pos) (s, acc)).2 = acc ++ (es.foldl (drainStep pos) (s, [])).2 := by
  intro es
  induction es with
  | nil => intro s acc; simp
  | cons ev es ih =>
    intro s acc
    have e : drainStep pos (s, acc) ev =
        ((drainStep pos (s, []) ev).1, acc ++ (drainStep pos (s, []) ev).2) := by
      unfold drainStep
      simp only
      split <;> simp
    simp only [List.foldl_cons]
    rw [e, ih _ (acc ++ _), ih _ (drainStep pos (s, []) ev).2, List.append_assoc]

/-- **The first batch after a level change.** In the always-drain regime, from a synced state inside
the frame with no further write: whatever the waits (zero-length ones included), as soon as they reach
the frame end the batch handed over is the queue as it was, followed by the current level for all the
remaining samples. -/
theorem first_batch {spf L : Nat} {pos : Nat → Nat} (hp : PosOk spf L pos) : ∀ (ws : List Nat) (sm : Mixer.Machine),
    Synced spf L sm → sm.fc < L → L ≤ sm.fc + ws.sum →
    (runDrain pos sm (ws.map Mixer.Ev.wait)).2.head? =
      some (sm.mixer.buf ++ List.replicate (spf - sm.mixer.lastPos) sm.mixer.gen) := by
  intro ws
  induction ws with
  | nil => intro sm _ h1 h2; simp at h2; omega
  | cons w ws ih =>
    intro sm hs hin hsum
    simp only [List.sum_cons] at hsum
    simp only [runDrain, List.map_cons, List.foldl_cons]
    by_cases hc : L ≤ sm.fc + w
    · have h := waitP_cross hp hs w hc
      have hne : (stepP pos sm (.wait w)).frames ≠ sm.frames := by
        show (waitP pos sm w).frames ≠ _; rw [h.1]; omega
      have e : drainStep pos (sm, []) (.wait w) =
          ({ waitP pos sm w with mixer := { (waitP pos sm w).mixer with buf := [] } },
           [] ++ [(waitP pos sm w).mixer.buf]) := by
        show (if _ then _ else _) = _
        rw [if_pos hne]; rfl
      rw [e, drain_acc, h.2.2.1]
      simp
    · have h := waitP_noncross hp hs w (by omega)
      have hne : ¬ (stepP pos sm (.wait w)).frames ≠ sm.frames := by
        show ¬ (waitP pos sm w).frames ≠ _; rw [h.2.1]; simp
      have e : drainStep pos (sm, []) (.wait w) = (waitP pos sm w, []) := by
        show (if _ then _ else _) = _
        rw [if_neg hne]; rfl
      rw [e]
      have hgen : (waitP pos sm w).mixer.gen = sm.mixer.gen := by
        unfold Mixer.gen; rw [h.2.2.2.2.2.1, h.2.2.2.2.2.2]
      have := ih (waitP pos sm w) h.1 (by rw [h.2.2.1]; omega) (by rw [h.2.2.1]; omega)
      rw [runDrain] at this
      rw [this, h.2.2.2.1, hgen, List.append_assoc, List.replicate_append_replicate]
      congr 3
      have h1 := h.1.le
      rw [h.2.2.2.2.1] at h1 ⊢
      omega

/-- a list of waits that makes the frame count go up reaches the frame end -/
theorem ticks_cross (k : Kind) : ∀ (ws : List Nat) (cl : Nat × Nat),
    cl.2 < (ticks k cl ws).2 → k.specs.clocksFrame ≤ cl.1 + ws.sum := by
  intro ws
  induction ws with
  | nil => intro cl h; simp [ticks] at h
  | cons w ws ih =>
    intro cl h
    simp only [List.sum_cons]
    by_cases hc : cl.1 + w ≥ k.specs.clocksFrame
    · omega
    · have e : tick k cl w = (cl.1 + w, cl.2) := by unfold tick; rw [if_neg hc]
      have h' : cl.2 < (ticks k (tick k cl w) ws).2 := h
      rw [e] at h'
      have := ih (cl.1 + w, cl.2) h'
      simp only at this
      omega

end ZxVerif.SoundSched
