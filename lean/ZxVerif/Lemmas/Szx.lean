/-
Helper lemmas for C14: the AY register programming loop, and the chunk-by-chunk simulation
between `szxWalk` (model) and `parseChunks` + `applyChunk` (spec).
-/
import ZxVerif.Lemmas.Snapshot
namespace ZxVerif.Snap

/-! ### programming the sound chip -/

theorem foldl_set_range (g : Nat → Byte) : ∀ (n : Nat) (chip : Bytes), n ≤ chip.length →
    (List.range n).foldl (fun ch k => ch.set k (g k)) chip = (List.range n).map g ++ chip.drop n := by
  intro n
  induction n with
  | zero => intro chip _; simp
  | succ n ih =>
    intro chip h
    rw [List.range_succ, List.foldl_append, ih chip (by omega)]
    simp only [List.foldl_cons, List.foldl_nil, List.map_append, List.map_cons, List.map_nil]
    have hl : ((List.range n).map g).length = n := by simp
    have hd : chip.drop n = chip[n] :: chip.drop (n + 1) := by
      rw [List.drop_eq_getElem_cons (by omega)]
    rw [List.set_append_right _ _ (by omega), hl, Nat.sub_self]
    simp only [List.append_assoc, List.singleton_append]
    rw [hd]
    rfl

theorem foldl_chipWrite (g : Nat → Byte) : ∀ (l : List Nat) (chip : Bytes), (∀ k ∈ l, k < 14) →
    l.foldl (fun ch k => chipWrite ch k (g k)) chip = l.foldl (fun ch k => ch.set k (g k)) chip := by
  intro l
  induction l with
  | nil => intro chip _; rfl
  | cons a l ih =>
    intro chip h
    simp only [List.foldl_cons]
    have ha : a < 14 := h a (by simp)
    rw [show chipWrite chip a (g a) = chip.set a (g a) by simp [chipWrite, ha]]
    exact ih _ (fun k hk => h k (by simp [hk]))

/-- Programming registers 0..13 in order leaves the chip with exactly the first 14 bytes given,
whatever it held before. -/
theorem chipProgram_eq (chip regs : Bytes) (hc : chip.length = 14) (hr : 14 ≤ regs.length) :
    chipProgram chip regs = regs.take 14 := by
  unfold chipProgram
  rw [foldl_chipWrite (fun k => regs.getD k 0) _ chip (by intro k hk; simpa using hk),
    foldl_set_range _ 14 chip (by omega)]
  have : chip.drop 14 = [] := List.drop_eq_nil_of_le (by omega)
  rw [this, List.append_nil]
  apply List.ext_getElem
  · simp; omega
  · intro i h1 h2
    simp at h1
    simp [List.getD_eq_getElem?_getD]
    rw [List.getElem?_eq_getElem (by omega)]
    rfl

theorem envProgram_true (env : Bool) : envProgram env = true := by
  cases env <;> decide

theorem sel_small : ∀ k, k < 14 → ((BitVec.ofNat 8 k) &&& (0x0F : Byte)).toNat = k := by decide

theorem viaPorts_chip (regs : Bytes) : ∀ (l : List Nat) (m : Machine), (∀ k ∈ l, k < 14) →
    (l.foldl (fun m k => (m.aySelect (BitVec.ofNat 8 k)).ayWrite (regs.getD k 0)) m).ayChip
      = l.foldl (fun ch k => chipWrite ch k (regs.getD k 0)) m.ayChip := by
  intro l
  induction l with
  | nil => intro m _; rfl
  | cons a l ih =>
    intro m h
    simp only [List.foldl_cons]
    rw [ih _ (fun k hk => h k (by simp [hk]))]
    have ha := sel_small a (h a (by simp))
    simp only [Machine.ayWrite, Machine.aySelect, ha]

theorem viaPorts_env (regs : Bytes) : ∀ (l : List Nat) (m : Machine), (∀ k ∈ l, k < 14) →
    (l.foldl (fun m k => (m.aySelect (BitVec.ofNat 8 k)).ayWrite (regs.getD k 0)) m).ayEnvAtStart
      = l.foldl envWrite m.ayEnvAtStart := by
  intro l
  induction l with
  | nil => intro m _; rfl
  | cons a l ih =>
    intro m h
    simp only [List.foldl_cons]
    rw [ih _ (fun k hk => h k (by simp [hk]))]
    have ha := sel_small a (h a (by simp))
    simp only [Machine.ayWrite, Machine.aySelect, ha]

/-- Programming through the ports ends with the write of register 13: the envelope generator is at
the start of its shape afterwards, whatever it was doing. -/
theorem ayViaPorts_env (m : Machine) (regs : Bytes) : (m.ayViaPorts regs).ayEnvAtStart = true := by
  unfold Machine.ayViaPorts
  rw [viaPorts_env regs _ m (by intro k hk; simpa using hk)]
  exact envProgram_true _

/-- Programming through the ports leaves the chip with the first 14 bytes given. -/
theorem ayViaPorts_chip (m : Machine) (regs : Bytes) (hc : m.ayChip.length = 14) (hr : 14 ≤ regs.length) :
    (m.ayViaPorts regs).ayChip = regs.take 14 := by
  unfold Machine.ayViaPorts
  rw [viaPorts_chip regs _ m (by intro k hk; simpa using hk)]
  exact chipProgram_eq _ _ hc hr

/-! ### chunk-by-chunk simulation (repaired code, `HALTED` read as "PC at the HALT opcode") -/

/-- what the refinement needs of a receiving machine while the chunks are applied -/
structure Inv (m : Machine) : Prop where
  chip : m.ayChip.length = 14
  k48 : m.kind = .k48 → m.pagingEnabled = false
  pfx : m.cpu.pfx = .none

theorem upper_ids : Spec.kZ80R.map upperByte = idZ80R ∧ Spec.kSPCR.map upperByte = idSPCR ∧
    Spec.kAY.map upperByte = idAY ∧ Spec.kKEYB.map upperByte = idKEYB ∧ Spec.kAMXM.map upperByte = idAMXM ∧
    Spec.kRAMP.map upperByte = idRAMP ∧ Spec.kCRTR.map upperByte = idCRTR := by decide

theorem nonzero_iff (b : Byte) : decide (b.toNat > 0) = decide (b ≠ 0) := by
  have : b.toNat > 0 ↔ b ≠ 0 := by
    constructor
    · intro h hb; subst hb; simp at h
    · intro h
      have : b.toNat ≠ 0 := fun h0 => h (BitVec.eq_of_toNat_eq (by simpa using h0))
      omega
  simp [this]

theorem sim_z80r (d : Bytes) (m : Machine) (hI : Inv m) (hl : d.length = 37) (him : (d.getD 28 0).toNat < 3) :
    ∃ m', szxZ80R Fixes.all d m = some m' ∧ Inv m' ∧ m'.kind = m.kind ∧
      Spec.abs m' = Spec.applyZ80R .pcAtHalt d (Spec.abs m) := by
  unfold szxZ80R
  have h1 : ¬ d.length < 37 := by omega
  have h2 : ¬ 3 ≤ (d.getD 28 0).toNat := by omega
  rw [if_neg h1]
  simp only [h2, if_false]
  refine ⟨_, rfl, ⟨hI.chip, hI.k48, hI.pfx⟩, rfl, ?_⟩
  simp [Spec.abs, Spec.applyZ80R, Spec.absRegs, Fixes.all, hI.pfx, nonzero_iff]
  exact ⟨rfl, rfl, rfl, rfl⟩

theorem restore7ffd_rest (fx : Fixes) (m : Machine) (v : Byte) :
    (m.restore7ffd fx v).ayRegs = m.ayRegs ∧ (m.restore7ffd fx v).aySel = m.aySel ∧
    (m.restore7ffd fx v).ayChip = m.ayChip ∧ (m.restore7ffd fx v).ayEnabled = m.ayEnabled ∧
    (m.restore7ffd fx v).mouse = m.mouse ∧ (m.restore7ffd fx v).ayEnvAtStart = m.ayEnvAtStart := by
  unfold Machine.restore7ffd Machine.write7ffd
  split <;> split <;> exact ⟨rfl, rfl, rfl, rfl, rfl, rfl⟩

/-- SPCR on explicit field values (border `b0`, latch `v`, last OUT to FE `fe`) -/
theorem sim_spcr_core (mid : Nat) (b0 v fe : Byte) (m : Machine) (hI : Inv m) (hk : m.kind = Spec.kindOfMid mid) :
    let m1 := m.restore7ffd Fixes.all (if mid < 2 then 0 else v)
    let m2 : Machine := { m1.setBorder (fe &&& 7) with mic := fe &&& 8 != 0, ear := fe &&& 0x10 != 0 }
    let m3 := m2.setBorder b0
    Inv m3 ∧ m3.kind = m.kind ∧
      Spec.abs m3 = (let a := { Spec.abs m with border := b0, borderShown := b0 }
                     if mid < 2 then a else { a with latch := v, locked := v &&& 0x20 != 0 }) := by
  intro m1 m2 m3
  obtain ⟨c1, _, _, c4, _, _⟩ := restore7ffd_same Fixes.all m (if mid < 2 then 0 else v)
  obtain ⟨q1, q2, q3, q4, q5, q6⟩ := restore7ffd_rest Fixes.all m (if mid < 2 then 0 else v)
  have hkind := restore7ffd_kind Fixes.all m (if mid < 2 then 0 else v)
  have hI3 : Inv m3 := by
    refine ⟨?_, ?_, ?_⟩
    · show m1.ayChip.length = 14
      rw [q3]; exact hI.chip
    · intro h
      have h48 : m.kind = .k48 := by rw [← hkind]; exact h
      have hm : mid < 2 := by
        rw [hk] at h48
        unfold Spec.kindOfMid at h48
        split at h48
        · assumption
        · cases h48
      show m1.pagingEnabled = false
      have : m1 = m := by
        show m.restore7ffd Fixes.all (if mid < 2 then 0 else v) = m
        simp [Machine.restore7ffd, Machine.write7ffd, h48, hI.k48 h48]
      rw [this]; exact hI.k48 h48
    · show m1.cpu.pfx = _
      rw [c1]; exact hI.pfx
  refine ⟨hI3, hkind, ?_⟩
  by_cases hm : mid < 2
  · have hk48 : m.kind = .k48 := by rw [hk]; simp [Spec.kindOfMid, hm]
    have hsame : m1 = m := by
      show m.restore7ffd Fixes.all (if mid < 2 then 0 else v) = m
      simp [Machine.restore7ffd, Machine.write7ffd, hk48, hI.k48 hk48]
    simp only [hm, if_true]
    show Spec.abs (({ m1.setBorder (fe &&& 7) with mic := fe &&& 8 != 0, ear := fe &&& 0x10 != 0 } : Machine).setBorder b0) = _
    rw [hsame]
    rfl
  · have hk128 : m.kind = .k128 := by rw [hk]; simp [Spec.kindOfMid, hm]
    obtain ⟨p1, _, _, _, p5⟩ := restore7ffd_paging Fixes.all m (if mid < 2 then 0 else v) hk128 (Or.inl rfl)
    have hv : (if mid < 2 then (0 : Byte) else v) = v := if_neg hm
    simp only [hm, if_false, hv] at c1 c4 hkind p1 p5 q1 q2 q3 q4 q5 q6 ⊢
    simp only [m3, m2, m1, hv, Spec.abs, Machine.setBorder, c1, c4, hkind, hk128, p1, p5, q1, q2, q3, q4, q5, q6]
    simp
    by_cases h : v &&& 32#8 = 0#8 <;> simp [h]

theorem sim_spcr (mid : Nat) (d : Bytes) (m : Machine) (hI : Inv m) (hk : m.kind = Spec.kindOfMid mid)
    (hl : d.length = 8) (hb : (d.getD 0 0).toNat < 8) :
    ∃ m', szxSPCR Fixes.all mid d m = some m' ∧ Inv m' ∧ m'.kind = m.kind ∧
      Spec.abs m' = Spec.applySPCR mid d (Spec.abs m) := by
  unfold szxSPCR
  have h1 : ¬ d.length < 4 := by omega
  have h2 : ¬ 7 < (d.getD 0 0).toNat := by omega
  rw [if_neg h1]
  simp only [h2, if_false]
  have hsz : Fixes.all.szxBorderDevice = true := rfl
  rw [hsz]
  simp only [if_true]
  obtain ⟨i1, i2, i3⟩ := sim_spcr_core mid (d.getD 0 0) (d.getD 1 0) (d.getD 3 0) m hI hk
  refine ⟨_, rfl, i1, i2, ?_⟩
  rw [i3]
  unfold Spec.applySPCR
  rfl

theorem sim_ay (mid : Nat) (d : Bytes) (m : Machine) (hI : Inv m) (hl : d.length = 18) :
    ∃ m', szxAY Fixes.all mid d m = some m' ∧ Inv m' ∧ m'.kind = m.kind ∧
      Spec.abs m' = Spec.applyAY mid d (Spec.abs m) := by
  unfold szxAY
  have h1 : ¬ d.length < 1 := by omega
  have h2 : ¬ d.length < 18 := by omega
  rw [if_neg h1]
  simp only [h2, if_false]
  have hregs : 14 ≤ (d.drop 2).length := by simp [hl]
  have hwt : Fixes.all.ayWriteThrough = true := rfl
  -- the machine after the enable/disable step
  generalize hm1 : (if mid < 2 then ({ m with ayEnabled := d.getD 0 0 &&& 2 != 0 } : Machine) else m) = m1
  have hchip1 : m1.ayChip = m.ayChip := by subst hm1; split <;> rfl
  have hk1 : m1.kind = m.kind := by subst hm1; split <;> rfl
  have hpg1 : m1.pagingEnabled = m.pagingEnabled := by subst hm1; split <;> rfl
  have hcpu1 : m1.cpu = m.cpu := by subst hm1; split <;> rfl
  have habs1 : Spec.abs m1 = (if mid < 2 then { Spec.abs m with ayPresent := d.getD 0 0 &&& 2 != 0 } else Spec.abs m) := by
    subst hm1; split <;> rfl
  have hI1 : Inv m1 := ⟨by rw [hchip1]; exact hI.chip, by rw [hk1, hpg1]; exact hI.k48, by rw [hcpu1]; exact hI.pfx⟩
  unfold Spec.applyAY
  rw [← habs1]
  by_cases hen : m1.ayEnabled = true
  · simp only [hen, Bool.not_true, Bool.false_eq_true, if_false]
    have hpres : (Spec.abs m1).ayPresent = true := hen
    simp only [hpres, Bool.not_true, Bool.false_eq_true, if_false]
    refine ⟨_, rfl, ⟨?_, ?_, ?_⟩, hk1, ?_⟩
    · simp only [Machine.aySetRegs, Machine.aySelect, hwt, if_true]
      rw [chipProgram_eq _ _ (by rw [hchip1]; exact hI.chip) hregs]
      simp [hl]
    · exact hI1.k48
    · exact hI1.pfx
    · simp only [Spec.abs, Machine.aySetRegs, Machine.aySelect, hwt, if_true, envProgram_true]
      rw [chipProgram_eq _ _ (by rw [hchip1]; exact hI.chip) hregs]
      simp only [hen]
  · have hen' : m1.ayEnabled = false := by simpa using hen
    simp only [hen', Bool.not_false, if_true]
    have hpres : (Spec.abs m1).ayPresent = false := hen'
    simp only [hpres, Bool.not_false, if_true]
    exact ⟨m1, rfl, hI1, hk1, rfl⟩

theorem mouse_byte (b : Byte) (h : b.toNat < 3) : (b &&& 2#8 != 0#8) = decide (b = 2#8) := by
  have h3 : b < 3#8 := by simpa [BitVec.lt_def] using h
  by_cases hb : b = 2#8
  · subst hb; decide
  · have e : b &&& 2#8 = 0#8 := by bv_decide
    simp [hb, e]

theorem sim_amxm (d : Bytes) (m : Machine) (hI : Inv m) (hl : d.length = 7) (ht : (d.getD 0 0).toNat < 3) :
    ∃ m', szxAMXM d m = some m' ∧ Inv m' ∧ m'.kind = m.kind ∧ Spec.abs m' = Spec.applyMouse d (Spec.abs m) := by
  unfold szxAMXM
  have h1 : ¬ d.length < 1 := by omega
  rw [if_neg h1]
  refine ⟨_, rfl, ⟨hI.chip, hI.k48, hI.pfx⟩, rfl, ?_⟩
  simp only [Spec.abs, Spec.applyMouse]
  congr 1
  exact mouse_byte _ ht

theorem sim_keyb (d : Bytes) (m : Machine) (hI : Inv m) (hl : d.length = 5) :
    ∃ m', szxKEYB d m = some m' ∧ Inv m' ∧ m'.kind = m.kind ∧ Spec.abs m' = Spec.abs m := by
  unfold szxKEYB
  have h1 : ¬ d.length < 5 := by omega
  rw [if_neg h1]
  exact ⟨_, rfl, ⟨hI.chip, hI.k48, hI.pfx⟩, rfl, rfl⟩

theorem sim_crtr (d : Bytes) (m : Machine) (hl : 37 ≤ d.length) : szxCRTR d m = some m := by
  unfold szxCRTR
  have h1 : ¬ d.length < 37 := by omega
  rw [if_neg h1]

/-- the page renumbering of 48K files agrees with the hardware numbering of the spec -/
theorem page_index (mid n k : Nat) (hn : if mid < 2 then n ∈ [5, 2, 0] else n < 8) :
    (Spec.absPage (Spec.kindOfMid mid) k = szxPageNo mid n) ↔ k = n := by
  unfold Spec.absPage Spec.kindOfMid szxPageNo
  by_cases hm : mid < 2
  · simp only [hm, if_true] at hn ⊢
    simp at hn
    by_cases k5 : k = 5 <;> by_cases k2 : k = 2 <;> by_cases k0 : k = 0 <;>
      rcases hn with h | h | h <;> subst h <;> simp_all
  · simp only [hm, if_false]

/-- the abstract effect of storing `x` in the RAM bank a RAMP chunk for page `n` selects -/
theorem abs_setBank (mid n : Nat) (m : Machine) (hk : m.kind = Spec.kindOfMid mid)
    (hn : if mid < 2 then n ∈ [5, 2, 0] else n < 8) (x : Bytes) :
    Spec.abs ({ m with ram := setBank m.ram (szxPageNo mid n) x } : Machine) = (Spec.abs m).withPage n x := by
  simp only [Spec.abs, Spec.AState.withPage, Spec.setPage, setBank]
  congr 1
  funext k
  rw [hk]
  have := page_index mid n k hn
  by_cases hkn : k = n
  · subst hkn; simp [Spec.setPage, this.mpr rfl]
  · have : ¬ Spec.absPage (Spec.kindOfMid mid) k = szxPageNo mid n := fun h => hkn (this.mp h)
    simp [Spec.setPage, hkn, this]

theorem sim_ramp (inflate : Bytes → Option Bytes) (mid : Nat) (d : Bytes) (m : Machine) (hI : Inv m)
    (hk : m.kind = Spec.kindOfMid mid) (hl : 3 ≤ d.length)
    (hn : if mid < 2 then (d.getD 2 0).toNat ∈ [5, 2, 0] else (d.getD 2 0).toNat < 8)
    (hdata : if d.getD 0 0 &&& 1 != 0 then (∃ x, inflate (d.drop 3) = some x ∧ x.length = 16384)
             else d.length = 3 + 16384) :
    ∃ m', szxRAMP inflate mid d m = .ok m' ∧ Inv m' ∧ m'.kind = m.kind ∧
      Spec.abs m' = Spec.applyRAMP inflate d (Spec.abs m) := by
  unfold szxRAMP
  have h1 : ¬ d.length < 3 := by omega
  rw [if_neg h1]
  simp only
  have hpages : ¬ m.ramPages ≤ szxPageNo mid (d.getD 2 0).toNat := by
    unfold Machine.ramPages szxPageNo
    rw [hk]
    unfold Spec.kindOfMid
    by_cases hm : mid < 2
    · simp only [hm, if_true] at hn ⊢
      simp only [List.mem_cons, List.not_mem_nil, or_false] at hn
      rcases hn with h | h | h <;> rw [h] <;> simp
    · simp only [hm, if_false] at hn ⊢
      omega
  rw [if_neg hpages]
  have habs := abs_setBank mid (d.getD 2 0).toNat m hk hn
  unfold Spec.applyRAMP
  by_cases hc : (d.getD 0 0 &&& 1 != 0) = true
  · simp only [hc, if_true] at hdata ⊢
    obtain ⟨x, hx, hxl⟩ := hdata
    rw [hx]
    have : ¬ x.length < pageSize := by simp [pageSize, hxl]
    simp only [this, if_false]
    refine ⟨_, rfl, ⟨hI.chip, hI.k48, hI.pfx⟩, rfl, ?_⟩
    rw [habs]; rfl
  · have hc' : (d.getD 0 0 &&& 1 != 0) = false := by simpa using hc
    simp only [hc', Bool.false_eq_true, if_false] at hdata ⊢
    have : ¬ (d.drop 3).length < pageSize := by simp [pageSize, hdata]
    simp only [this, if_false]
    refine ⟨_, rfl, ⟨hI.chip, hI.k48, hI.pfx⟩, rfl, ?_⟩
    rw [habs]; rfl

/-! ### dispatch, walker, whole file -/

theorem chunk_sim (inflate : Bytes → Option Bytes) (mid : Nat) (c : Spec.Chunk) (m : Machine) (hI : Inv m)
    (hk : m.kind = Spec.kindOfMid mid) (hok : Spec.chunkOk inflate mid c = true) :
    ∃ m', szxChunk Fixes.all inflate mid c.id c.data m = .ok m' ∧ Inv m' ∧ m'.kind = m.kind ∧
      Spec.abs m' = Spec.applyChunk .pcAtHalt inflate mid (Spec.abs m) c := by
  obtain ⟨u1, u2, u3, u4, u5, u6, u7⟩ := upper_ids
  unfold Spec.chunkOk at hok
  unfold szxChunk Spec.applyChunk
  by_cases hz : c.id = Spec.kZ80R
  · simp only [hz, if_true] at hok ⊢
    simp only [Bool.and_eq_true, beq_iff_eq, decide_eq_true_eq] at hok
    obtain ⟨m', h1, h2, h3, h4⟩ := sim_z80r c.data m hI hok.1 hok.2
    simp (decide := true) only [u1, if_false, if_true, h1]
    exact ⟨m', rfl, h2, h3, h4⟩
  by_cases hs : c.id = Spec.kSPCR
  · simp only [hs, if_true] at hok ⊢
    simp (decide := true) only [if_false, if_true] at hok
    simp only [Bool.and_eq_true, beq_iff_eq, decide_eq_true_eq] at hok
    obtain ⟨m', h1, h2, h3, h4⟩ := sim_spcr mid c.data m hI hk hok.1 hok.2
    simp (decide := true) only [u2, if_false, if_true, h1]
    exact ⟨m', rfl, h2, h3, h4⟩
  by_cases ha : c.id = Spec.kAY
  · simp only [ha, if_true] at hok ⊢
    simp (decide := true) only [if_false, if_true] at hok
    simp only [beq_iff_eq] at hok
    obtain ⟨m', h1, h2, h3, h4⟩ := sim_ay mid c.data m hI hok
    simp (decide := true) only [u3, if_false, if_true, h1]
    exact ⟨m', rfl, h2, h3, h4⟩
  by_cases hx : c.id = Spec.kAMXM
  · simp only [hx, if_true] at hok ⊢
    simp (decide := true) only [if_false, if_true] at hok
    simp only [Bool.and_eq_true, beq_iff_eq, decide_eq_true_eq] at hok
    obtain ⟨m', h1, h2, h3, h4⟩ := sim_amxm c.data m hI hok.1 hok.2
    simp (decide := true) only [u5, if_false, if_true, h1]
    exact ⟨m', rfl, h2, h3, h4⟩
  by_cases hkb : c.id = Spec.kKEYB
  · simp only [hkb, if_true] at hok ⊢
    simp (decide := true) only [if_false, if_true] at hok
    simp only [beq_iff_eq] at hok
    obtain ⟨m', h1, h2, h3, h4⟩ := sim_keyb c.data m hI hok
    simp (decide := true) only [u4, if_false, if_true, h1]
    exact ⟨m', rfl, h2, h3, h4⟩
  by_cases hc : c.id = Spec.kCRTR
  · simp only [hc, if_true] at hok ⊢
    simp (decide := true) only [if_false, if_true] at hok
    simp only [decide_eq_true_eq] at hok
    simp (decide := true) only [u7, if_false, if_true, sim_crtr c.data m hok]
    exact ⟨m, rfl, hI, rfl, rfl⟩
  by_cases hr : c.id = Spec.kRAMP
  · simp only [hr, if_true] at hok ⊢
    simp (decide := true) only [if_false, if_true] at hok
    simp only [Bool.and_eq_true, decide_eq_true_eq] at hok
    obtain ⟨⟨hl, hn⟩, hdata⟩ := hok
    have hn' : if mid < 2 then (c.data.getD 2 0).toNat ∈ [5, 2, 0] else (c.data.getD 2 0).toNat < 8 := by
      split <;> simp_all
    have hdata' : if c.data.getD 0 0 &&& 1 != 0 then (∃ x, inflate (c.data.drop 3) = some x ∧ x.length = 16384)
        else c.data.length = 3 + 16384 := by
      split
      · next h =>
        rw [if_pos h] at hdata
        split at hdata
        · next x hx => exact ⟨x, hx, by simpa using hdata⟩
        · cases hdata
      · next h =>
        rw [if_neg h] at hdata
        simpa using hdata
    obtain ⟨m', h1, h2, h3, h4⟩ := sim_ramp inflate mid c.data m hI hk hl hn' hdata'
    simp (decide := true) only [u6, if_false, if_true, h1]
    exact ⟨m', rfl, h2, h3, h4⟩
  · -- unknown chunk: skipped by both
    rw [if_neg hz, if_neg hs, if_neg ha, if_neg hx, if_neg hkb, if_neg hc, if_neg hr] at hok
    simp only [decide_eq_true_eq] at hok
    have hnot : ∀ k ∈ Spec.knownIds, c.id.map upperByte ≠ k := fun k hk h => hok (h ▸ hk)
    rw [if_neg (hnot idCRTR (by decide)), if_neg (hnot idZ80R (by decide)), if_neg (hnot idSPCR (by decide)),
      if_neg (hnot idAY (by decide)), if_neg (hnot idKEYB (by decide)), if_neg (hnot idAMXM (by decide)),
      if_neg (hnot idRAMP (by decide)), if_neg hz, if_neg hs, if_neg ha, if_neg hx, if_neg hr]
    exact ⟨m, rfl, hI, rfl, rfl⟩

theorem walk_sim (inflate : Bytes → Option Bytes) (mid : Nat) :
    ∀ (fuel : Nat) (f : Bytes) (m : Machine) (cs : List Spec.Chunk), Inv m → m.kind = Spec.kindOfMid mid →
      Spec.parseChunks fuel f = some cs → cs.all (Spec.chunkOk inflate mid) = true →
      ∃ m', szxWalk Fixes.all inflate mid fuel f m = .ok m' ∧ Inv m' ∧ m'.kind = m.kind ∧
        Spec.abs m' = cs.foldl (Spec.applyChunk .pcAtHalt inflate mid) (Spec.abs m) := by
  intro fuel
  induction fuel with
  | zero =>
    intro f m cs hI hk hp _
    simp only [Spec.parseChunks, Option.some.injEq] at hp
    subst hp
    exact ⟨m, rfl, hI, rfl, rfl⟩
  | succ fuel ih =>
    intro f m cs hI hk hp hall
    unfold Spec.parseChunks at hp
    unfold szxWalk
    by_cases h8 : f.length < 8
    · rw [if_pos h8] at hp
      simp only [Option.some.injEq] at hp
      subst hp
      rw [if_pos h8]
      exact ⟨m, rfl, hI, rfl, rfl⟩
    · rw [if_neg h8] at hp
      rw [if_neg h8]
      have hsz : le32 (f.getD 4 0) (f.getD 5 0) (f.getD 6 0) (f.getD 7 0) = Spec.u32 f 4 := rfl
      simp only [hsz] at hp ⊢
      generalize Spec.u32 f 4 = size at hp ⊢
      by_cases hov : f.length < 8 + size
      · rw [if_pos hov] at hp; cases hp
      · rw [if_neg hov] at hp
        have hrest : ¬ (f.drop 8).length < size := by simp; omega
        rw [if_neg hrest]
        cases hrec : Spec.parseChunks fuel (f.drop (8 + size)) with
        | none => rw [hrec] at hp; cases hp
        | some cs' =>
          rw [hrec] at hp
          simp only [Option.some.injEq] at hp
          subst hp
          simp only [List.all_cons, Bool.and_eq_true] at hall
          obtain ⟨m1, c1, c2, c3, c4⟩ := chunk_sim inflate mid
            { id := f.take 4, data := (f.drop 8).take size } m hI hk hall.1
          simp only at c1
          rw [c1]
          simp only
          have hdd : (f.drop 8).drop size = f.drop (8 + size) := by rw [List.drop_drop]
          rw [hdd]
          obtain ⟨m2, d1, d2, d3, d4⟩ := ih (f.drop (8 + size)) m1 cs' c2 (by rw [c3]; exact hk) hrec hall.2
          refine ⟨m2, d1, d2, by rw [d3, c3], ?_⟩
          rw [d4, c4]
          rfl

theorem applyChunk_model (conv : Spec.HaltConv) (inflate : Bytes → Option Bytes) (mid : Nat)
    (a : Spec.AState) (c : Spec.Chunk) : (Spec.applyChunk conv inflate mid a c).model = a.model := by
  have hay : (Spec.applyAY mid c.data a).model = a.model := by
    unfold Spec.applyAY
    by_cases h : mid < 2 <;> simp only [h, if_true, if_false] <;> split <;> rfl
  have hsp : (Spec.applySPCR mid c.data a).model = a.model := by
    unfold Spec.applySPCR
    by_cases h : mid < 2 <;> simp only [h, if_true, if_false]
  unfold Spec.applyChunk
  by_cases h1 : c.id = Spec.kZ80R
  · rw [if_pos h1]; rfl
  rw [if_neg h1]
  by_cases h2 : c.id = Spec.kSPCR
  · rw [if_pos h2]; exact hsp
  rw [if_neg h2]
  by_cases h3 : c.id = Spec.kAY
  · rw [if_pos h3]; exact hay
  rw [if_neg h3]
  by_cases h4 : c.id = Spec.kAMXM
  · rw [if_pos h4]; rfl
  rw [if_neg h4]
  by_cases h5 : c.id = Spec.kRAMP
  · rw [if_pos h5]; rfl
  rw [if_neg h5]

theorem foldl_applyChunk_model (conv : Spec.HaltConv) (inflate : Bytes → Option Bytes) (mid : Nat) :
    ∀ (cs : List Spec.Chunk) (a0 : Spec.AState),
      (cs.foldl (Spec.applyChunk conv inflate mid) a0).model = a0.model := by
  intro cs
  induction cs with
  | nil => intro a0; rfl
  | cons c cs ih => intro a0; rw [List.foldl_cons, ih, applyChunk_model]

theorem describeSzx_model (conv : Spec.HaltConv) (inflate : Bytes → Option Bytes) (f : Bytes)
    (prev a : Spec.AState) (hd : Spec.describeSzx conv inflate f prev = some a) :
    ∃ mid, Spec.szxMachine f = some mid ∧ a.model = Spec.kindOfMid mid := by
  unfold Spec.describeSzx at hd
  cases hmid : Spec.szxMachine f with
  | none => rw [hmid] at hd; cases hd
  | some mid =>
    rw [hmid] at hd
    simp only at hd
    cases hcs : Spec.parseChunks f.length (f.drop 8) with
    | none => rw [hcs] at hd; cases hd
    | some cs =>
      rw [hcs] at hd
      simp only at hd
      split at hd
      · simp only [Option.some.injEq] at hd
        exact ⟨mid, rfl, by rw [← hd, foldl_applyChunk_model]⟩
      · cases hd

/-! ### the pending prefix survives every chunk (any repair setting) -/

theorem optE_ok (o : Option Machine) (m' : Machine) (h : optE o = .ok m') : o = some m' := by
  cases o with
  | none => cases h
  | some x => cases h; rfl

theorem szxAY_cpu (fx : Fixes) (mid : Nat) (d : Bytes) (m m' : Machine)
    (h : szxAY fx mid d m = some m') : m'.cpu = m.cpu := by
  unfold szxAY at h
  by_cases h1 : d.length < 1
  · rw [if_pos h1] at h; cases h
  · rw [if_neg h1] at h
    simp only at h
    generalize hm1 : (if mid < 2 then ({ m with ayEnabled := d.getD 0 0 &&& 2 != 0 } : Machine) else m) = m1 at h
    have hc : m1.cpu = m.cpu := by subst hm1; split <;> rfl
    by_cases hen : m1.ayEnabled = true
    · simp only [hen, Bool.not_true, Bool.false_eq_true, if_false] at h
      by_cases h18 : d.length < 18
      · rw [if_pos h18] at h; cases h
      · rw [if_neg h18] at h
        simp only [Option.some.injEq] at h
        rw [← h, ← hc]; rfl
    · have hf : m1.ayEnabled = false := by simpa using hen
      simp only [hf, Bool.not_false, if_true, Option.some.injEq] at h
      rw [← h]; exact hc

theorem szxChunk_pfx (fx : Fixes) (inflate : Bytes → Option Bytes) (mid : Nat) (id d : Bytes) (m m' : Machine)
    (h : szxChunk fx inflate mid id d m = .ok m') : m'.cpu.pfx = m.cpu.pfx := by
  unfold szxChunk at h
  simp only at h
  split at h
  · have := optE_ok _ _ h
    unfold szxCRTR at this; split at this <;> cases this; rfl
  split at h
  · have := optE_ok _ _ h
    unfold szxZ80R at this
    split at this
    · cases this
    · simp only at this
      split at this
      · cases this
      · cases this; rfl
  split at h
  · have := optE_ok _ _ h
    unfold szxSPCR at this
    split at this
    · cases this
    · simp only at this
      split at this
      · cases this
      · simp only [Option.some.injEq] at this
        subst this
        have c1 := (restore7ffd_same fx m (if mid < 2 then 0 else d.getD 1 0)).1
        split
        · show (Machine.restore7ffd fx m _).cpu.pfx = _; rw [c1]
        · show (Machine.restore7ffd fx m _).cpu.pfx = _; rw [c1]
  split at h
  · have := optE_ok _ _ h
    rw [szxAY_cpu fx mid d m m' this]
  split at h
  · have := optE_ok _ _ h
    unfold szxKEYB at this; split at this <;> cases this; rfl
  split at h
  · have := optE_ok _ _ h
    unfold szxAMXM at this; split at this <;> cases this; rfl
  split at h
  · unfold szxRAMP at h
    split at h
    · cases h
    · simp only at h
      split at h
      · cases h
      · split at h
        · split at h
          · cases h
          · split at h <;> cases h; rfl
        · split at h <;> cases h; rfl
  · cases h; rfl

theorem szxWalk_pfx (fx : Fixes) (inflate : Bytes → Option Bytes) (mid : Nat) :
    ∀ (fuel : Nat) (f : Bytes) (m m' : Machine), szxWalk fx inflate mid fuel f m = .ok m' →
      m'.cpu.pfx = m.cpu.pfx := by
  intro fuel
  induction fuel with
  | zero => intro f m m' h; simp only [szxWalk] at h; cases h; rfl
  | succ fuel ih =>
    intro f m m' h
    unfold szxWalk at h
    split at h
    · cases h; rfl
    · simp only at h
      split at h
      · cases h
      · split at h
        · cases h
        · next m1 hc =>
          rw [ih _ _ _ h, szxChunk_pfx _ _ _ _ _ _ _ hc]

end ZxVerif.Snap
