/-
Helper lemmas for the tape properties C10–C12: the buffer-machine invariant of `Reader`
(the streaming half of `Tap`) and what `nextBlock` / `nextBlockByte` do on a well-formed image.
-/
import ZxVerif.Spec.Tape
import Std.Tactic.BVDecide
set_option linter.constructorNameAsVariable false
set_option maxRecDepth 4000
namespace ZxVerif.Tape

/-- The reader is inside a block with payload `bs`, the image continues with `post` after it.
`blockBytesRead` bytes have been handed out; the buffer holds the 128-byte window starting at
`bufferOffset`; the asset cursor is behind that window (or behind the block). -/
structure Inv (r : Reader) (bs post : List Byte) : Prop where
  size : r.currentBlockSize = some bs.length
  live : r.tapeEnded = false
  lo : r.bufferOffset ≤ r.blockBytesRead
  hi : r.blockBytesRead ≤ r.bufferOffset + 128
  le : r.blockBytesRead ≤ bs.length
  buf : ∀ i, i < 128 → r.bufferOffset + i < bs.length → r.buffer[i]? = bs[r.bufferOffset + i]?
  rest : r.asset.rest = bs.drop (r.bufferOffset + 128) ++ post

theorem getD_eq (l : List Byte) (i : Nat) : l.getD i 0 = (l[i]?).getD 0 := by
  exact List.getD_eq_getElem?_getD ..

/-- inside the block a byte is delivered and the invariant is kept -/
theorem nextBlockByte_some {r : Reader} {bs post : List Byte} (h : Inv r bs post)
    (hk : r.blockBytesRead < bs.length) :
    ∃ r', nextBlockByte r = (.ok (some (bs.getD r.blockBytesRead 0)), r') ∧ Inv r' bs post
      ∧ r'.blockBytesRead = r.blockBytesRead + 1 := by
  obtain ⟨hsize, hlive, hlo, hhi, hle, hbuf, hrest⟩ := h
  unfold nextBlockByte
  simp only [hlive, hsize, Bool.false_eq_true, if_false, ge_iff_le, Nat.not_le.2 hk, BUFFER_SIZE]
  by_cases hp : 128 ≤ r.blockBytesRead - r.bufferOffset
  · -- refill
    have hk' : r.blockBytesRead = r.bufferOffset + 128 := by omega
    simp only [hp, if_true]
    have hn : min (bs.length - r.bufferOffset - 128) 128 ≤ r.asset.rest.length := by
      rw [hrest]; simp; omega
    simp only [Asset.readExact, hn, if_true, Bool.not_true, Bool.false_eq_true, if_false]
    have hval : (blit (List.take (min (bs.length - r.bufferOffset - 128) 128) r.asset.rest) r.buffer).getD 0 0
        = bs.getD r.blockBytesRead 0 := by
      simp only [blit, getD_eq]
      have hlen : 0 < (List.take (min (bs.length - r.bufferOffset - 128) 128) r.asset.rest).length := by
        simp; rw [hrest]; simp; omega
      rw [List.getElem?_append_left hlen, List.getElem?_take_of_lt (by omega), hrest,
        List.getElem?_append_left (by simp; omega), hk']
      simp
    rw [hval]
    refine ⟨_, rfl, ?_, rfl⟩
    · refine ⟨rfl, rfl, by simp; omega, by simp; omega, by simp; omega, ?_, ?_⟩
      · intro i hi1 hi2
        simp only [blit] at hi2 ⊢
        have hin : i < min (bs.length - r.bufferOffset - 128) 128 := by omega
        have hlen : i < (List.take (min (bs.length - r.bufferOffset - 128) 128) r.asset.rest).length := by
          simp; rw [hrest]; simp; omega
        rw [List.getElem?_append_left hlen, List.getElem?_take_of_lt hin, hrest,
          List.getElem?_append_left (by simp; omega)]
        simp
      · simp only [hrest]
        by_cases hfull : 128 ≤ bs.length - r.bufferOffset - 128
        · rw [Nat.min_eq_right hfull, List.drop_append_of_le_length (by simp; omega)]
          simp
        · have hm : min (bs.length - r.bufferOffset - 128) 128 = (List.drop (r.bufferOffset + 128) bs).length := by
            simp; omega
          rw [hm, List.drop_left]
          have : List.drop (r.bufferOffset + 128 + 128) bs = [] := by
            apply List.drop_eq_nil_of_le; omega
          rw [this]; rfl
  · simp only [hp, if_false]
    have hval : r.buffer.getD (r.blockBytesRead - r.bufferOffset) 0 = bs.getD r.blockBytesRead 0 := by
      rw [getD_eq, getD_eq, hbuf _ (by omega) (by omega)]
      congr 2; omega
    rw [hval]
    exact ⟨_, rfl, ⟨rfl, rfl, by simp; omega, by simp; omega, by simp; omega, hbuf, hrest⟩, rfl⟩

/-- at the end of the block nothing more is delivered and nothing changes -/
theorem nextBlockByte_none {r : Reader} {bs post : List Byte} (h : Inv r bs post)
    (hk : r.blockBytesRead = bs.length) : nextBlockByte r = (.ok none, r) := by
  unfold nextBlockByte
  simp [h.live, h.size, hk]

/-- `Yields r bs r'`: repeated `next_block_byte` from `r` delivers exactly `bs`, then `None`
(leaving the reader `r'`, on which `None` repeats). -/
inductive Yields : Reader → List Byte → Reader → Prop
  | done {r : Reader} : nextBlockByte r = (.ok none, r) → Yields r [] r
  | byte {r r' r'' : Reader} {b : Byte} {bs : List Byte} :
      nextBlockByte r = (.ok (some b), r') → Yields r' bs r'' → Yields r (b :: bs) r''

theorem yields_of_inv {bs post : List Byte} : ∀ (n : Nat) (r : Reader), Inv r bs post →
    bs.length - r.blockBytesRead = n →
    ∃ r', Yields r (bs.drop r.blockBytesRead) r' ∧ Inv r' bs post ∧ r'.blockBytesRead = bs.length := by
  intro n
  induction n with
  | zero =>
    intro r h hn
    have hk : r.blockBytesRead = bs.length := by have := h.le; omega
    refine ⟨r, ?_, h, hk⟩
    rw [hk, List.drop_length]
    exact .done (nextBlockByte_none h hk)
  | succ n ih =>
    intro r h hn
    have hk : r.blockBytesRead < bs.length := by omega
    obtain ⟨r1, h1, hinv1, hr1⟩ := nextBlockByte_some h hk
    obtain ⟨r2, hy, hinv2, hr2⟩ := ih r1 hinv1 (by omega)
    refine ⟨r2, ?_, hinv2, hr2⟩
    rw [List.drop_eq_getElem_cons hk]
    have : bs.getD r.blockBytesRead 0 = bs[r.blockBytesRead] := by
      rw [getD_eq]; simp [hk]
    rw [this] at h1
    rw [hr1] at hy
    exact .byte h1 hy

/-- Between blocks: nothing of a current block is pending and the image continues with `post`. -/
structure Idle (r : Reader) (post : List Byte) : Prop where
  live : r.tapeEnded = false
  rest : r.asset.rest = post
  drained : r.currentBlockSize = none ∨ ∃ n, r.currentBlockSize = some n ∧ n ≤ r.blockBytesRead

theorem Idle.none {r : Reader} {post : List Byte} (h : Idle r post) : nextBlockByte r = (.ok none, r) := by
  unfold nextBlockByte
  rcases h.drained with hd | ⟨n, hd, hn⟩
  · simp [h.live, hd]
  · simp [h.live, hd, hn]

theorem Inv.idle {r : Reader} {bs post : List Byte} (h : Inv r bs post) (hk : r.blockBytesRead = bs.length) :
    Idle r post := by
  refine ⟨h.live, ?_, .inr ⟨_, h.size, by omega⟩⟩
  rw [h.rest, List.drop_eq_nil_of_le (by have := h.hi; omega)]; rfl

theorem Idle.fresh (data : List Byte) : Idle (Reader.new data) data :=
  ⟨rfl, rfl, .inl rfl⟩

theorem skip_of_yields : ∀ {bs : List Byte} {r r' : Reader} (fuel : Nat), Yields r bs r' → bs.length < fuel →
    skipLeftovers fuel r = (none, r') := by
  intro bs
  induction bs with
  | nil =>
    intro r r' fuel hy hf
    cases hy with
    | done h =>
      cases fuel with
      | zero => omega
      | succ n => simp [skipLeftovers, h]
  | cons b bs ih =>
    intro r r' fuel hy hf
    cases hy with
    | byte h hy' =>
      cases fuel with
      | zero => omega
      | succ n =>
        simp only [skipLeftovers, h]
        exact ih n hy' (by simpa using hf)

theorem le16_encode (n : Nat) (hn : n < 65536) :
    le16 (BitVec.ofNat 8 (n % 256)) (BitVec.ofNat 8 (n / 256)) = n := by
  simp only [le16, BitVec.toNat_ofNat]
  omega

/-- reading the header of a complete block opens it -/
theorem readHeader_block {r : Reader} {bs post : List Byte} (h : Idle r (Spec.encodeBlock bs ++ post))
    (hlen : bs.length < 65536) :
    ∃ r1, readHeader r = (.ok true, r1) ∧ Inv r1 bs post ∧ r1.blockBytesRead = 0 := by
  obtain ⟨hlive, hrest, _⟩ := h
  unfold readHeader
  have h2 : 2 ≤ r.asset.rest.length := by rw [hrest]; simp [Spec.encodeBlock]
  simp only [Asset.readExact, h2, if_true, Bool.not_true, Bool.false_eq_true, if_false]
  have hsz : le16 ((List.take 2 r.asset.rest).getD 0 0) ((List.take 2 r.asset.rest).getD 1 0) = bs.length := by
    rw [hrest]; simp only [Spec.encodeBlock, List.cons_append, List.take_succ_cons, List.take_zero]
    simp only [List.getD_cons_zero, List.getD_cons_succ]
    exact le16_encode _ hlen
  rw [hsz]
  have hdrop : List.drop 2 r.asset.rest = bs ++ post := by rw [hrest]; simp [Spec.encodeBlock]
  simp only [hdrop, BUFFER_SIZE]
  have hm : min bs.length 128 ≤ (bs ++ post).length := by simp; omega
  simp only [hm, if_true, Bool.not_true, Bool.false_eq_true, if_false]
  refine ⟨_, rfl, ⟨rfl, hlive, Nat.le_refl _, by simp, by simp, ?_, ?_⟩, rfl⟩
  · intro i hi1 hi2
    simp only [blit, Nat.zero_add] at hi2 ⊢
    have hin : i < min bs.length 128 := by omega
    have hlen' : i < (List.take (min bs.length 128) (bs ++ post)).length := by simp; omega
    rw [List.getElem?_append_left hlen', List.getElem?_take_of_lt hin, List.getElem?_append_left hi2]
  · simp only [Nat.zero_add]
    by_cases hfull : 128 ≤ bs.length
    · rw [Nat.min_eq_right hfull, List.drop_append_of_le_length hfull]
    · have hm' : min bs.length 128 = bs.length := by omega
      rw [hm', List.drop_left, List.drop_eq_nil_of_le (by omega)]; rfl

/-- with fewer than two bytes left the tape has ended -/
theorem readHeader_end {r : Reader} {post : List Byte} (h : Idle r post) (hp : post.length < 2) :
    ∃ r1, readHeader r = (.ok false, r1) ∧ r1.tapeEnded = true := by
  unfold readHeader
  have h2 : ¬ 2 ≤ r.asset.rest.length := by rw [h.rest]; omega
  simp [Asset.readExact, h2]

theorem nextBlock_idle {r : Reader} {post : List Byte} (h : Idle r post) : nextBlock r = readHeader r := by
  unfold nextBlock
  have : skipLeftovers 65536 r = (none, r) := by
    show skipLeftovers (65535 + 1) r = (none, r)
    simp [skipLeftovers, h.none]
  simp [h.live, this]

/-- `next_block` in the middle of a block first drains it -/
theorem nextBlock_inv {r : Reader} {bs post : List Byte} (h : Inv r bs post) (hlen : bs.length < 65536) :
    ∃ r', Idle r' post ∧ nextBlock r = readHeader r' := by
  obtain ⟨r', hy, hinv, hk⟩ := yields_of_inv _ r h rfl
  refine ⟨r', hinv.idle hk, ?_⟩
  unfold nextBlock
  have : skipLeftovers 65536 r = (none, r') := skip_of_yields 65536 hy (by simp; omega)
  simp [h.live, this]

/-! ### the loader loop against LD-BYTES -/

/-- the flag byte has been dealt with (Z of the saved flags) -/
def LoadSt.checked (s : LoadSt) : Bool := s.f &&& FLAG_ZERO != 0
/-- LOAD rather than VERIFY (carry of the saved flags) -/
def LoadSt.isLoad (s : LoadSt) : Bool := s.f &&& FLAG_CARRY != 0

theorem xor_ne_zero (a b : BitVec 8) : (a ^^^ b ≠ 0) ↔ a ≠ b := by
  constructor
  · intro h hab; subst hab; simp at h
  · intro h hx; apply h; bv_decide

theorem or_zero_checked (f : BitVec 8) : (f ||| FLAG_ZERO) &&& FLAG_ZERO ≠ 0 := by
  simp only [FLAG_ZERO]; bv_decide

theorem or_zero_load (f : BitVec 8) : ((f ||| FLAG_ZERO) &&& FLAG_CARRY != 0) = (f &&& FLAG_CARRY != 0) := by
  simp only [FLAG_ZERO, FLAG_CARRY]; bv_decide

theorem checked_true {s : LoadSt} (hz : ¬ s.f &&& FLAG_ZERO = 0) : s.checked = true := by
  simp only [LoadSt.checked, bne_iff_ne]; exact hz

theorem checked_false {s : LoadSt} (hz : s.f &&& FLAG_ZERO = 0) : s.checked = false := by
  simp [LoadSt.checked, hz]

/-- The `'loader` loop run inside a block equals the LD-BYTES byte loop on the rest of the block:
same memory, IX (`dest`), DE (`len`), carry; the reader stays inside the same block. -/
theorem loadLoop_refines {bs post : List Byte} (a : Byte) (load : Bool) :
    ∀ (n : Nat) (r : Reader) (s : LoadSt) (m : Mem) (fuel : Nat), Inv r bs post →
      bs.length - r.blockBytesRead = n → n < fuel →
      (s.checked = false → s.acc = a) → s.isLoad = load →
      ∃ s' fl r', loadLoop fuel s m r = (.ok (s', fl),
          (Spec.ldLoop a load s.checked s.parity s.dest s.len m (bs.drop r.blockBytesRead)).mem, r')
        ∧ Inv r' bs post
        ∧ s'.dest = (Spec.ldLoop a load s.checked s.parity s.dest s.len m (bs.drop r.blockBytesRead)).ix
        ∧ s'.len = (Spec.ldLoop a load s.checked s.parity s.dest s.len m (bs.drop r.blockBytesRead)).de
        ∧ (fl &&& FLAG_CARRY != 0) =
            (Spec.ldLoop a load s.checked s.parity s.dest s.len m (bs.drop r.blockBytesRead)).carry := by
  intro n
  induction n with
  | zero =>
    intro r s m fuel h hn hf _ _
    have hk : r.blockBytesRead = bs.length := by have := h.le; omega
    cases fuel with
    | zero => omega
    | succ fuel =>
      rw [hk, List.drop_length]
      refine ⟨s, FLAG_ZERO, r, ?_, h, rfl, rfl, ?_⟩
      · simp [loadLoop, nextBlockByte_none h hk, Spec.ldLoop]
      · simp [Spec.ldLoop, FLAG_ZERO, FLAG_CARRY]
  | succ n ih =>
    intro r s m fuel h hn hf hacc hload
    have hk : r.blockBytesRead < bs.length := by omega
    obtain ⟨r1, h1, hinv1, hr1⟩ := nextBlockByte_some h hk
    have hb : bs.getD r.blockBytesRead 0 = bs[r.blockBytesRead] := by rw [getD_eq]; simp [hk]
    rw [hb] at h1
    cases fuel with
    | zero => omega
    | succ fuel =>
      rw [List.drop_eq_getElem_cons hk]
      generalize bs[r.blockBytesRead] = b at h1
      have hdrop : bs.drop (r.blockBytesRead + 1) = bs.drop r1.blockBytesRead := by rw [hr1]
      rw [hdrop]
      simp only [loadLoop, h1, Spec.ldLoop]
      by_cases hde : s.len = 0
      · -- DE = 0: final parity check
        simp only [hde, if_true]
        refine ⟨_, _, r1, rfl, hinv1, rfl, rfl, ?_⟩
        by_cases hp : s.parity = b <;> simp [hp, FLAG_CARRY]
      · simp only [hde, if_false]
        by_cases hz : s.f &&& FLAG_ZERO = 0
        · -- flag byte
          have hch : s.checked = false := checked_false hz
          have ha := hacc hch
          simp only [hz, if_true, hch, Bool.not_false]
          by_cases hx : s.acc ^^^ b = 0
          · have hab : a = b := by
              rw [← ha]; exact Classical.not_not.1 (fun hne => (xor_ne_zero _ _).2 hne hx)
            simp only [hx, ne_eq, not_true_eq_false, if_false, hab]
            obtain ⟨s', fl, r', he, hi', hd, hl, hc⟩ := ih r1
              { acc := 0, f := s.f ||| FLAG_ZERO, dest := s.dest, len := s.len, parity := s.parity ^^^ b, cur := b } m fuel hinv1 (by omega) (by omega)
              (by intro hc; simp only [LoadSt.checked, bne_eq_false_iff_eq] at hc; exact absurd hc (or_zero_checked _))
              (by simp only [LoadSt.isLoad, or_zero_load]; exact hload)
            have hck : LoadSt.checked { acc := 0, f := s.f ||| FLAG_ZERO, dest := s.dest, len := s.len, parity := s.parity ^^^ b, cur := b } = true := by
              simp only [LoadSt.checked, bne_iff_ne]; exact or_zero_checked _
            rw [hck] at he hd hl hc
            subst hab
            exact ⟨s', fl, r', by simpa using he, hi', by simpa using hd, by simpa using hl, by simpa using hc⟩
          · have hab : a ≠ b := by rw [← ha]; exact (xor_ne_zero _ _).1 hx
            simp only [hx, ne_eq, not_false_eq_true, if_true, hab]
            exact ⟨_, _, r1, rfl, hinv1, rfl, rfl, by simp [FLAG_CARRY]⟩
        · have hch : s.checked = true := checked_true hz
          simp only [hz, if_false, hch, Bool.not_true]
          by_cases hc : s.f &&& FLAG_CARRY = 0
          · -- VERIFY
            have hl : load = false := by rw [← hload]; simp [LoadSt.isLoad, hc]
            subst hl
            simp only [hc, ne_eq, not_true_eq_false, if_false, Bool.false_eq_true]
            by_cases hx : m.read s.dest ^^^ b = 0
            · have hm : m.read s.dest = b := Classical.not_not.1 (fun hne => (xor_ne_zero _ _).2 hne hx)
              simp only [hx, not_true_eq_false, if_false, hm]
              obtain ⟨s', fl, r', he, hi', hd, hl', hc'⟩ := ih r1
                { acc := 0, f := s.f, dest := s.dest + 1, len := s.len - 1, parity := s.parity ^^^ b, cur := b } m fuel hinv1 (by omega) (by omega)
                (fun hc2 => Bool.noConfusion (hc2.symm.trans (checked_true hz)))
                hload
              have hck : LoadSt.checked { acc := 0, f := s.f, dest := s.dest + 1, len := s.len - 1, parity := s.parity ^^^ b, cur := b } = true := checked_true hz
              rw [hck] at he hd hl' hc'
              exact ⟨s', fl, r', by simpa using he, hi', by simpa using hd, by simpa using hl', by simpa using hc'⟩
            · have hm : m.read s.dest ≠ b := (xor_ne_zero _ _).1 hx
              simp only [hx, not_false_eq_true, if_true, hm]
              exact ⟨_, _, r1, rfl, hinv1, rfl, rfl, by simp [FLAG_CARRY]⟩
          · -- LOAD
            have hl : load = true := by rw [← hload]; simp only [LoadSt.isLoad, bne_iff_ne]; exact hc
            subst hl
            simp only [hc, ne_eq, not_false_eq_true, if_true]
            obtain ⟨s', fl, r', he, hi', hd, hl', hc'⟩ := ih r1
              { acc := s.acc, f := s.f, dest := s.dest + 1, len := s.len - 1, parity := s.parity ^^^ b, cur := b } (m.write s.dest b) fuel hinv1 (by omega) (by omega)
              (fun hc2 => Bool.noConfusion (hc2.symm.trans (checked_true hz)))
              hload
            have hck : LoadSt.checked { acc := s.acc, f := s.f, dest := s.dest + 1, len := s.len - 1, parity := s.parity ^^^ b, cur := b } = true := checked_true hz
            rw [hck] at he hd hl' hc'
            exact ⟨s', fl, r', by simpa using he, hi', by simpa using hd, by simpa using hl', by simpa using hc'⟩

/-! ### positions between requests -/

/-- The image continues with `post` once whatever is left of the current block has been skipped. -/
inductive Ahead (r : Reader) (post : List Byte) : Prop
  | idle : Idle r post → Ahead r post
  | mid {bs : List Byte} : bs.length < 65536 → Inv r bs post → Ahead r post

theorem Ahead.fresh (data : List Byte) : Ahead (Reader.new data) data := .idle (Idle.fresh data)

theorem Ahead.toIdle {r : Reader} {post : List Byte} (h : Ahead r post) :
    ∃ r', Idle r' post ∧ nextBlock r = readHeader r' := by
  cases h with
  | idle hi => exact ⟨r, hi, nextBlock_idle hi⟩
  | mid hl hi => exact nextBlock_inv hi hl

theorem nextBlock_block {r : Reader} {bs post : List Byte} (h : Ahead r (Spec.encodeBlock bs ++ post))
    (hlen : bs.length < 65536) :
    ∃ r1, nextBlock r = (.ok true, r1) ∧ Inv r1 bs post ∧ r1.blockBytesRead = 0 := by
  obtain ⟨r', hi, he⟩ := h.toIdle
  rw [he]; exact readHeader_block hi hlen

theorem nextBlock_end {r : Reader} {post : List Byte} (h : Ahead r post) (hp : post.length < 2) :
    ∃ r1, nextBlock r = (.ok false, r1) ∧ r1.tapeEnded = true := by
  obtain ⟨r', hi, he⟩ := h.toIdle
  rw [he]; exact readHeader_end hi hp

theorem nextBlock_ended {r : Reader} (h : r.tapeEnded = true) : nextBlock r = (.ok false, r) := by
  simp [nextBlock, h]

/-- request as `fast_load_tap` sees it in the CPU at the trap -/
def Cpu.request (c : Cpu) : Request :=
  { a := c.a', load := c.f' &&& FLAG_CARRY != 0, ix := c.ix, de := c.de }

/-- the saved flags are those of the ROM prologue's `INC D` -/
def Cpu.prologOk (c : Cpu) : Prop := (c.f' &&& FLAG_ZERO != 0) = decide (c.de.toNat / 256 = 255)

/-- what the caller observes of a CPU/memory pair -/
def observe (c : Cpu) (m : Mem) : Spec.LdResult := ⟨m, c.ix, c.de, c.f &&& FLAG_CARRY != 0⟩

/-- The body of `fast_load_tap` on a freshly opened block. -/
theorem fastLoadBody_refines {bs post : List Byte} (c : Cpu) (m : Mem) (t : Tap) (rd : Reader)
    (h : Inv rd bs post) (h0 : rd.blockBytesRead = 0) (hlen : bs.length < 65536)
    (hp : (c.f &&& FLAG_ZERO != 0) = decide (c.de.toNat / 256 = 255)) :
    ∃ c' rd', fastLoadBody c m t rd =
        (none, c', (Spec.ldBytes ⟨c.a, c.f &&& FLAG_CARRY != 0, c.ix, c.de⟩ m bs).mem, { t with rd := rd' })
      ∧ Inv rd' bs post
      ∧ c'.ix = (Spec.ldBytes ⟨c.a, c.f &&& FLAG_CARRY != 0, c.ix, c.de⟩ m bs).ix
      ∧ c'.de = (Spec.ldBytes ⟨c.a, c.f &&& FLAG_CARRY != 0, c.ix, c.de⟩ m bs).de
      ∧ (c'.f &&& FLAG_CARRY != 0) = (Spec.ldBytes ⟨c.a, c.f &&& FLAG_CARRY != 0, c.ix, c.de⟩ m bs).carry
      ∧ c'.a' = c.a' ∧ c'.f' = c.f' := by
  obtain ⟨s', fl, r', he, hi', hd, hl, hc⟩ := loadLoop_refines c.a (c.f &&& FLAG_CARRY != 0)
    (bs.length - rd.blockBytesRead) rd { acc := c.a, f := c.f, dest := c.ix, len := c.de } m 65537 h rfl
    (by omega) (fun _ => rfl) rfl
  have hck : LoadSt.checked { acc := c.a, f := c.f, dest := c.ix, len := c.de } = decide (c.de.toNat / 256 = 255) := hp
  rw [hck, h0, List.drop_zero] at he hd hl hc
  simp only [] at he hd hl hc
  refine ⟨c.finish s' fl (Spec.ldLoop c.a (c.f &&& FLAG_CARRY != 0) (decide (c.de.toNat / 256 = 255)) 0 c.ix c.de m bs).mem,
    r', ?_, hi', ?_, ?_, ?_, ?_, ?_⟩
  · simp only [fastLoadBody, he, Spec.ldBytes]
  · simpa [Cpu.finish, Cpu.popPc, Spec.ldBytes] using hd
  · simpa [Cpu.finish, Cpu.popPc, Spec.ldBytes] using hl
  · simpa [Cpu.finish, Cpu.popPc, Spec.ldBytes] using hc
  · simp [Cpu.finish, Cpu.popPc]
  · simp [Cpu.finish, Cpu.popPc]

/-! ### sequences of requests -/

/-- what the caller sees of one request: `none` = the trap did not return (no RET was performed) -/
abbrev ReqObs := Option (BitVec 16 × BitVec 16 × Bool)

/-- A sequence of traps (CPU states at the trap, one per request) against the model. -/
def modelSeq (fixed : Bool) : List Cpu → Mem → Tap → List ReqObs × Mem
  | [], m, _ => ([], m)
  | c :: cs, m, t =>
    let r := fastLoadTap fixed c m t
    let o : ReqObs := if r.2.1.sp = c.sp then none else some (r.2.1.ix, r.2.1.de, r.2.1.f &&& FLAG_CARRY != 0)
    let rest := modelSeq fixed cs r.2.2.1 r.2.2.2
    (o :: rest.1, rest.2)

/-- The same requests against LD-BYTES reading the blocks of the tape one after the other. -/
def specSeq : List Cpu → Mem → List (List Byte) → List ReqObs × Mem
  | [], m, _ => ([], m)
  | _ :: cs, m, [] => let rest := specSeq cs m []; (none :: rest.1, rest.2)
  | c :: cs, m, b :: bs =>
    let r := Spec.ldBytes c.request m b
    let rest := specSeq cs r.mem bs
    (some (r.ix, r.de, r.carry) :: rest.1, rest.2)

theorem add_two_ne (x : BitVec 16) : x + 2 ≠ x := by bv_decide

theorem encode_cons (b : List Byte) (bs : List (List Byte)) :
    Spec.encode (b :: bs) = Spec.encodeBlock b ++ Spec.encode bs := by
  simp [Spec.encode]

end ZxVerif.Tape
