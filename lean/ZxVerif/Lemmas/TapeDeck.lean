/-
Helper lemmas for C12: the simulation relation between the tape model and the cassette-deck spec.
-/
import ZxVerif.Lemmas.TapePulse
set_option linter.constructorNameAsVariable false
set_option maxRecDepth 4000
namespace ZxVerif.Tape

/-- a command history applied to the tape; stops at the first error -/
def runCmds (fixed : Bool) : List DeckCmd → Tap → Option Err × Tap
  | [], t => (none, t)
  | c :: cs, t =>
    match Tap.cmd fixed t c with
    | (some e, t') => (some e, t')
    | (none, t') => runCmds fixed cs t'

/-! ### small facts about `play`, `fire` and the asset -/

theorem play_running (t : Tap) : t.play.state ≠ .stop := by
  unfold Tap.play
  by_cases h : t.state = .stop
  · by_cases hp : t.prevState = .stop
    · simp [h, hp]
    · simp [h, hp]
  · simp [h]

theorem play_of_running {t : Tap} (h : t.state ≠ .stop) : t.play = t := by simp [Tap.play, h]

theorem play_play (t : Tap) : t.play.play = t.play := play_of_running (play_running t)

theorem play_currBit (t : Tap) : t.play.currBit = t.currBit := by
  unfold Tap.play; split <;> (try split) <;> rfl

theorem nextBlockByte_data (r : Reader) : (nextBlockByte r).2.asset.data = r.asset.data := by
  unfold nextBlockByte
  by_cases h1 : r.tapeEnded = true
  · simp [h1]
  · cases h2 : r.currentBlockSize with
    | none => simp [h1]
    | some n =>
      by_cases h3 : r.blockBytesRead ≥ n
      · simp [h1, h3]
      · by_cases h4 : r.blockBytesRead - r.bufferOffset ≥ BUFFER_SIZE
        · simp only [h1, h3, h4, Bool.false_eq_true, if_false, if_true, Asset.readExact]
          split <;> simp
        · simp [h1, h3, h4]

theorem skipLeftovers_data : ∀ (n : Nat) (r : Reader), (skipLeftovers n r).2.asset.data = r.asset.data := by
  intro n
  induction n with
  | zero => intro r; rfl
  | succ n ih =>
    intro r
    unfold skipLeftovers
    have h := nextBlockByte_data r
    rcases hn : nextBlockByte r with ⟨_ | ob, r'⟩
    · simpa [hn] using h
    · cases ob
      · simpa [hn] using h
      · simp only [hn] at h ⊢
        rw [ih r', h]

theorem readHeader_data (r : Reader) : (readHeader r).2.asset.data = r.asset.data := by
  unfold readHeader
  simp only [Asset.readExact]
  split <;> (try rfl)
  simp only [Bool.not_true, Bool.false_eq_true, if_false]
  split <;> rfl

theorem nextBlock_data (r : Reader) : (nextBlock r).2.asset.data = r.asset.data := by
  unfold nextBlock
  split
  · rfl
  · have h := skipLeftovers_data 65536 r
    rcases hs : skipLeftovers 65536 r with ⟨_ | e, r'⟩
    · simp only [hs] at h ⊢
      rw [readHeader_data, h]
    · simpa [hs] using h

theorem fire_data (fixed : Bool) (t : Tap) : (fire fixed t).2.rd.asset.data = t.rd.asset.data := by
  obtain ⟨rd, state, prev, bit, byte, delay⟩ := t
  cases state with
  | play =>
    simp only [fire]
    have h1 := nextBlock_data rd
    rcases hnb : nextBlock rd with ⟨_ | b, rd1⟩
    · simpa [hnb] using h1
    · simp only [hnb] at h1
      cases b
      · cases fixed <;> simpa [smStop, Tap.rewind, Reader.rewind, Asset.rewind] using h1
      · have h2 := nextBlockByte_data rd1
        rcases hnbb : nextBlockByte rd1 with ⟨_ | ob, rd2⟩
        · simp only [hnbb] at h2 ⊢; simp [h2, h1]
        · cases ob <;> (simp only [hnbb] at h2 ⊢; simp [h2, h1])
  | nextByte =>
    simp only [fire]
    have h2 := nextBlockByte_data rd
    rcases hnbb : nextBlockByte rd with ⟨_ | ob, rd2⟩
    · simpa [hnbb] using h2
    · cases ob <;> (simp only [hnbb] at h2 ⊢; simp [smPause, smNextBit, h2])
  | stop => cases fixed <;> simp [fire, smStop, Tap.rewind, Reader.rewind, Asset.rewind]
  | pilot n => simp only [fire]; split <;> rfl
  | sync => rfl
  | nextBit m => rfl
  | bitHalf hd m => rfl
  | pause => rfl

/-- a firing that does not end in `Stop` does not look at `prev_state` and keeps it -/
theorem fire_prev (fixed : Bool) (t t' : Tap) (p : TapeState) (h : fire fixed t = (none, t'))
    (hs : t'.state ≠ .stop) : fire fixed { t with prevState := p } = (none, { t' with prevState := p }) := by
  obtain ⟨rd, state, prev, bit, byte, delay⟩ := t
  cases state with
  | play =>
    simp only [fire] at h ⊢
    rcases hnb : nextBlock rd with ⟨_ | b, rd1⟩
    · simp [hnb] at h
    · cases b
      · simp only [hnb, Prod.mk.injEq, true_and] at h
        subst h
        exact absurd (by cases fixed <;> simp [smStop, Tap.rewind]) hs
      · rcases hnbb : nextBlockByte rd1 with ⟨_ | ob, rd2⟩
        · simp [hnb, hnbb] at h
        · cases ob
          · simp [hnb, hnbb] at h
          · simp only [hnb, hnbb, Prod.mk.injEq, true_and] at h ⊢
            subst h; rfl
  | nextByte =>
    simp only [fire] at h ⊢
    rcases hnbb : nextBlockByte rd with ⟨_ | ob, rd2⟩
    · simp [hnbb] at h
    · cases ob <;> (simp only [hnbb, Prod.mk.injEq, true_and] at h ⊢; subst h; rfl)
  | stop =>
    simp only [fire, Prod.mk.injEq, true_and] at h
    subst h
    exact absurd (by cases fixed <;> simp [smStop, Tap.rewind]) hs
  | pilot n =>
    simp only [fire] at h ⊢
    split at h <;> (simp only [Prod.mk.injEq, true_and] at h; subst h; simp_all)
  | sync => simp only [fire, Prod.mk.injEq, true_and] at h ⊢; subst h; rfl
  | nextBit m => simp only [fire, Prod.mk.injEq, true_and] at h ⊢; subst h; rfl
  | bitHalf hd m => simp only [fire, Prod.mk.injEq, true_and] at h ⊢; subst h; rfl
  | pause => simp only [fire, Prod.mk.injEq, true_and] at h ⊢; subst h; rfl

/-- a firing that does not end in `Stop` is the same in the code as found and in the repaired code -/
theorem fire_variant (t t' : Tap) (h : fire true t = (none, t')) (hs : t'.state ≠ .stop) :
    fire false t = (none, t') := by
  obtain ⟨rd, state, prev, bit, byte, delay⟩ := t
  cases state with
  | play =>
    simp only [fire] at h ⊢
    rcases hnb : nextBlock rd with ⟨_ | b, rd1⟩
    · simp [hnb] at h
    · cases b
      · simp only [hnb, Prod.mk.injEq, true_and] at h
        subst h
        exact absurd (by simp [smStop, Tap.rewind]) hs
      · simpa [hnb] using h
  | stop =>
    simp only [fire, Prod.mk.injEq, true_and] at h
    subst h
    exact absurd (by simp [smStop, Tap.rewind]) hs
  | nextByte => exact h
  | pilot n => exact h
  | sync => exact h
  | nextBit m => exact h
  | bitHalf hd m => exact h
  | pause => exact h

/-- a chain that does not end in `Stop` never looks at `prev_state` -/
theorem Fires.withPrev {fixed : Bool} {t t' : Tap} {ds : List Nat} (p : TapeState)
    (h : Fires fixed t ds t') (hE : t'.state ≠ .stop) :
    Fires fixed { t with prevState := p } ds { t' with prevState := p } := by
  induction h with
  | nil => exact .nil
  | @cons t t1 t'' ds hs hf hb hrest ih =>
    have h1 : t1.state ≠ .stop := by
      cases hrest with
      | nil => exact hE
      | cons hs' _ _ _ => exact hs'
    exact Fires.cons (t' := { t1 with prevState := p }) hs (fire_prev fixed t t1 p hf h1) hb (ih hE)

/-- the pending delay of the first tape of a chain is irrelevant -/
theorem Fires.withDelay {fixed : Bool} {t t' : Tap} {d : Nat} {ds : List Nat} (x : Nat)
    (h : Fires fixed t (d :: ds) t') : Fires fixed { t with delay := x } (d :: ds) t' := by
  cases h with
  | cons hs hf hb hrest => exact .cons hs (fire_delay_irrelevant fixed _ _ x hf) hb hrest

/-! ### the simulation relation -/

/-- `SimR R d`: the *running* tape `R` stands where the deck `d` stands: same level, same remaining
delay, and from here the state machine fires exactly the pulses the deck still has ahead, ending in
front of the tail of the image. -/
structure SimR (fixed : Bool) (blocks : List (List Byte)) (tail : List Byte) (R : Tap) (d : Spec.Deck) : Prop where
  tape : d.tape = Spec.nominal blocks
  lvl : R.currBit = d.level
  par : d.level = (d.started % 2 == 1)
  rem : R.delay = d.remaining
  run : R.state ≠ .stop
  data : R.rd.asset.data = Spec.encode blocks ++ tail
  fut : ∃ tE, Fires fixed R d.ahead tE ∧ tE.state = .play ∧ Ahead tE.rd tail

/-- `Sim t d`: the tape `t` — resumed by `play` if it is stopped — stands where the deck stands, and
it is running exactly when the deck's motor is on. -/
def Sim (fixed : Bool) (blocks : List (List Byte)) (tail : List Byte) (t : Tap) (d : Spec.Deck) : Prop :=
  SimR fixed blocks tail t.play d ∧ d.playing = (t.state != .stop)

theorem Sim.level {fixed : Bool} {blocks : List (List Byte)} {tail : List Byte} {t : Tap} {d : Spec.Deck}
    (h : Sim fixed blocks tail t d) : t.currBit = d.level := by rw [← h.1.lvl, play_currBit]

/-- a tape at its start: state `Play`, level low, rewound reader -/
theorem simR_start (fixed : Bool) (blocks : List (List Byte)) (tail : List Byte) (hwf : WellFormed blocks)
    (R : Tap) (d : Spec.Deck) (hs : R.state = .play) (hb : R.currBit = false) (hd : R.delay = 0)
    (hdata : R.rd.asset.data = Spec.encode blocks ++ tail) (hidle : Idle R.rd (Spec.encode blocks ++ tail))
    (h1 : d.tape = Spec.nominal blocks) (h2 : d.ahead = Spec.nominal blocks) (h3 : d.started = 0)
    (h4 : d.remaining = 0) (h5 : d.level = false) : SimR fixed blocks tail R d := by
  refine ⟨h1, by rw [hb, h5], by rw [h5, h3]; rfl, by rw [hd, h4], by simp [hs], hdata, ?_⟩
  obtain ⟨tE, hf, hsE, _, haE, _⟩ := fires_tape fixed blocks tail R hwf hs hb (.idle hidle)
  exact ⟨tE, by rw [h2]; exact hf, hsE, haE⟩

theorem sim_init (fixed : Bool) (blocks : List (List Byte)) (tail : List Byte) (hwf : WellFormed blocks) :
    Sim fixed blocks tail (Tap.new (Spec.encode blocks ++ tail)) (Spec.Deck.init blocks) := by
  refine ⟨?_, rfl⟩
  exact simR_start fixed blocks tail hwf _ _ rfl rfl rfl rfl (Idle.fresh _) rfl rfl rfl rfl rfl

section cmds
variable {blocks : List (List Byte)} {tail : List Byte}

theorem sim_play {fixed : Bool} {t : Tap} {d : Spec.Deck} (h : Sim fixed blocks tail t d) :
    Sim fixed blocks tail t.play (d.cmd .play) := by
  obtain ⟨hr, _⟩ := h
  refine ⟨?_, ?_⟩
  · rw [play_play]
    exact ⟨hr.tape, hr.lvl, hr.par, hr.rem, hr.run, hr.data, hr.fut⟩
  · simp [Spec.Deck.cmd, play_running t]

theorem sim_stop {t : Tap} {d : Spec.Deck} (h : Sim true blocks tail t d) :
    Sim true blocks tail (t.stop true) (d.cmd .stop) := by
  obtain ⟨hr, hp⟩ := h
  by_cases hs : t.state = .stop
  · have : t.stop true = t := by simp [Tap.stop, hs]
    rw [this]
    refine ⟨⟨hr.tape, hr.lvl, hr.par, hr.rem, hr.run, hr.data, hr.fut⟩, ?_⟩
    simp [Spec.Deck.cmd, hs]
  · have hplay : t.play = t := play_of_running hs
    rw [hplay] at hr
    have hstop : t.stop true = { t with prevState := t.state, state := .stop } := by simp [Tap.stop, hs]
    have hres : (t.stop true).play = { t with prevState := t.state } := by
      rw [hstop]; simp [Tap.play, hs]
    refine ⟨?_, by simp [Spec.Deck.cmd, hstop]⟩
    rw [hres]
    obtain ⟨tE, hf, hsE, haE⟩ := hr.fut
    exact ⟨hr.tape, hr.lvl, hr.par, hr.rem, hr.run, hr.data,
      ⟨{ tE with prevState := t.state }, hf.withPrev t.state (by simp [hsE]), hsE, haE⟩⟩

/-- running form of a rewound tape (repaired code) -/
def rewoundPlay (t : Tap) : Tap :=
  { t with currBit := false, currByte := 0, delay := 0, rd := t.rd.rewind,
           prevState := .stop, state := .play }

theorem sim_rewind (hwf : WellFormed blocks) {t : Tap} {d : Spec.Deck} (h : Sim true blocks tail t d) :
    Sim true blocks tail (t.rewind true) (d.cmd .rewind) := by
  obtain ⟨hr, hp⟩ := h
  have hdata : t.rd.asset.data = Spec.encode blocks ++ tail := by
    have := hr.data
    unfold Tap.play at this
    split at this <;> (try split at this) <;> exact this
  have hres : (t.rewind true).play = rewoundPlay t := by
    by_cases hs : t.state = .stop <;> simp [Tap.rewind, Tap.play, rewoundPlay, hs]
  refine ⟨?_, ?_⟩
  · rw [hres]
    refine simR_start true blocks tail hwf _ _ rfl rfl rfl ?_ ?_ hr.tape ?_ rfl rfl rfl
    · simpa [rewoundPlay, Reader.rewind, Asset.rewind] using hdata
    · exact ⟨rfl, by simpa [rewoundPlay, Reader.rewind, Asset.rewind] using hdata, .inl rfl⟩
    · simp [Spec.Deck.cmd, Spec.Deck.rewind, hr.tape]
  · by_cases hs : t.state = .stop
    · simp [Spec.Deck.cmd, Spec.Deck.rewind, Tap.rewind, hs, hp]
    · have : (t.state != .stop) = true := by simp [hs]
      simp [Spec.Deck.cmd, Spec.Deck.rewind, Tap.rewind, hs, hp, this]

theorem sim_advance (hwf : WellFormed blocks) (ht : tail.length < 2) {t : Tap} {d : Spec.Deck} (n : Nat)
    (h : Sim true blocks tail t d) :
    ∃ t', processClocks true t n = (none, t') ∧ Sim true blocks tail t' (d.cmd (.advance n)) := by
  obtain ⟨hr, hp⟩ := h
  by_cases hs : t.state = .stop
  · -- stopped: frozen
    have hpf : d.playing = false := by simp [hp, hs]
    have hdc : d.cmd (.advance n) = d := by simp [Spec.Deck.cmd, Spec.Deck.advance, hpf]
    rw [hdc]
    exact ⟨t, by simp [processClocks, hs], hr, hp⟩
  · have hplay : t.play = t := play_of_running hs
    rw [hplay] at hr
    have hpl : d.playing = true := by simp [hp, hs]
    by_cases hd : t.delay > 0
    · -- a pulse is running down
      have hrem : d.remaining > 0 := by rw [← hr.rem]; exact hd
      refine ⟨{ t with delay := if n > t.delay then 0 else t.delay - n }, by simp [processClocks, hs, hd], ?_, ?_⟩
      · rw [play_of_running (by simpa using hs)]
        simp only [Spec.Deck.cmd, Spec.Deck.advance, hpl, Bool.not_true, Bool.false_eq_true, if_false, hrem, if_true]
        obtain ⟨tE, hf, hsE, haE⟩ := hr.fut
        refine ⟨hr.tape, hr.lvl, hr.par, by simp [hr.rem], hr.run, hr.data, ?_⟩
        cases hah : d.ahead with
        | nil =>
          rw [hah] at hf
          cases hf
          exact ⟨{ t with delay := if n > t.delay then 0 else t.delay - n }, .nil, hsE, haE⟩
        | cons x xs =>
          rw [hah] at hf
          exact ⟨tE, hf.withDelay (if n > t.delay then 0 else t.delay - n), hsE, haE⟩
      · simp [Spec.Deck.cmd, Spec.Deck.advance, hpl, hrem, hs]
    · -- the state machine fires
      have hd0 : t.delay = 0 := by omega
      have hrem : ¬ d.remaining > 0 := by rw [← hr.rem]; omega
      have hpc : processClocks true t n = fire true t := by simp [processClocks, hs, hd0]
      obtain ⟨tE, hf, hsE, haE⟩ := hr.fut
      cases hah : d.ahead with
      | nil =>
        -- end of the tape
        rw [hah] at hf
        cases hf
        obtain ⟨tS, he, hS1, hS2, hS3, hS4, hS5⟩ := fire_end true t tail ht hsE haE
        have hdataS : tS.rd.asset.data = Spec.encode blocks ++ tail := by
          have := fire_data true t; rw [he] at this; rw [this]; exact hr.data
        refine ⟨tS, by rw [hpc, he], ?_, ?_⟩
        · have hres : tS.play = { tS with state := .play } := by simp [Tap.play, hS1, hS5 rfl]
          rw [hres]
          simp only [Spec.Deck.cmd, Spec.Deck.advance, hpl, Bool.not_true, Bool.false_eq_true, if_false, hrem, hah]
          refine simR_start true blocks tail hwf _ _ rfl hS2 hS3 hdataS ?_ hr.tape ?_ rfl rfl rfl
          · rw [← hdataS]; exact hS4
          · simp [Spec.Deck.rewind, hr.tape]
        · simp [Spec.Deck.cmd, Spec.Deck.advance, hpl, hrem, hah, Spec.Deck.rewind, hS1]
      | cons len rest =>
        rw [hah] at hf
        cases hf with
        | @cons _ t1 _ _ hs1 hf1 hb1 hrest =>
          have h1 : t1.state ≠ .stop := by
            cases hrest with
            | nil => simp [hsE]
            | cons hs' _ _ _ => exact hs'
          have hdata1 : t1.rd.asset.data = Spec.encode blocks ++ tail := by
            have := fire_data true t; rw [hf1] at this; rw [this]; exact hr.data
          refine ⟨t1, by rw [hpc, hf1], ?_, ?_⟩
          · rw [play_of_running h1]
            simp only [Spec.Deck.cmd, Spec.Deck.advance, hpl, Bool.not_true, Bool.false_eq_true, if_false, hrem, hah]
            refine ⟨hr.tape, ?_, ?_, rfl, h1, hdata1, ⟨tE, hrest, hsE, haE⟩⟩
            · rw [hb1, hr.lvl, hr.par, Spec.levelOf]
              rcases Nat.mod_two_eq_zero_or_one d.started with hm | hm <;> simp [hm]
            · simp only [Spec.levelOf]
              rcases Nat.mod_two_eq_zero_or_one d.started with hm | hm
              · have : (d.started + 1) % 2 = 1 := by omega
                simp [hm, this]
              · have : (d.started + 1) % 2 = 0 := by omega
                simp [hm, this]
          · simp [Spec.Deck.cmd, Spec.Deck.advance, hpl, hrem, hah, h1]

end cmds

/-! ### histories -/

theorem sim_cmd {blocks : List (List Byte)} {tail : List Byte} (hwf : WellFormed blocks) (ht : tail.length < 2)
    {t : Tap} {d : Spec.Deck} (c : DeckCmd) (h : Sim true blocks tail t d) :
    ∃ t', Tap.cmd true t c = (none, t') ∧ Sim true blocks tail t' (d.cmd c) := by
  cases c with
  | play => exact ⟨t.play, rfl, sim_play h⟩
  | stop => exact ⟨t.stop true, rfl, sim_stop h⟩
  | rewind => exact ⟨t.rewind true, rfl, sim_rewind hwf h⟩
  | advance n => exact sim_advance hwf ht n h

theorem sim_run {blocks : List (List Byte)} {tail : List Byte} (hwf : WellFormed blocks) (ht : tail.length < 2) :
    ∀ (cmds : List DeckCmd) (t : Tap) (d : Spec.Deck), Sim true blocks tail t d →
      (runCmds true cmds t).1 = none ∧ Sim true blocks tail (runCmds true cmds t).2 (cmds.foldl Spec.Deck.cmd d) := by
  intro cmds
  induction cmds with
  | nil => intro t d h; exact ⟨rfl, h⟩
  | cons c cs ih =>
    intro t d h
    obtain ⟨t', he, hs⟩ := sim_cmd hwf ht c h
    simp only [runCmds, he, List.foldl_cons]
    exact ih t' _ hs

/-- histories that keep away from the three stale-state paths of the code as found: no `stop` while
the deck is stopped, no `rewind`, no `advance` when the deck has run out of tape -/
def cleanFrom : Spec.Deck → List DeckCmd → Prop
  | _, [] => True
  | d, c :: cs =>
    (match c with
      | .play => True
      | .stop => d.playing = true
      | .rewind => False
      | .advance _ => ¬ (d.playing = true ∧ d.remaining = 0 ∧ d.ahead = [])) ∧ cleanFrom (d.cmd c) cs

theorem cmd_variant {blocks : List (List Byte)} {tail : List Byte} {t : Tap} {d : Spec.Deck} (c : DeckCmd)
    (h : Sim true blocks tail t d) (hc : cleanFrom d [c]) : Tap.cmd false t c = Tap.cmd true t c := by
  obtain ⟨hr, hp⟩ := h
  cases c with
  | play => rfl
  | rewind => exact absurd hc.1 id
  | stop =>
    have hs : t.state ≠ .stop := by
      have := hc.1; simp only at this; rw [hp] at this; simpa using this
    simp [Tap.cmd, Tap.stop, hs]
  | advance n =>
    simp only [Tap.cmd, processClocks]
    by_cases hs : t.state = .stop
    · simp [hs]
    · by_cases hd : t.delay > 0
      · simp [hs, hd]
      · simp only [hs, hd, if_false]
        have hplay : t.play = t := play_of_running hs
        rw [hplay] at hr
        have hpl : d.playing = true := by simp [hp, hs]
        have hrem : d.remaining = 0 := by rw [← hr.rem]; omega
        obtain ⟨tE, hf, hsE, _⟩ := hr.fut
        cases hah : d.ahead with
        | nil => exact absurd ⟨hpl, hrem, hah⟩ hc.1
        | cons len rest =>
          rw [hah] at hf
          cases hf with
          | @cons _ t1 _ _ hs1 hf1 hb1 hrest =>
            have h1 : t1.state ≠ .stop := by
              cases hrest with
              | nil => simp [hsE]
              | cons hs' _ _ _ => exact hs'
            rw [hf1, fire_variant t t1 hf1 h1]

theorem run_variant {blocks : List (List Byte)} {tail : List Byte} (hwf : WellFormed blocks) (ht : tail.length < 2) :
    ∀ (cmds : List DeckCmd) (t : Tap) (d : Spec.Deck), Sim true blocks tail t d → cleanFrom d cmds →
      runCmds false cmds t = runCmds true cmds t := by
  intro cmds
  induction cmds with
  | nil => intros; rfl
  | cons c cs ih =>
    intro t d h hc
    obtain ⟨t', he, hs⟩ := sim_cmd hwf ht c h
    have hv := cmd_variant c h ⟨hc.1, trivial⟩
    simp only [runCmds, hv, he]
    exact ih t' _ hs hc.2

/-- the deck's cursor only ever moves one pulse forward or back to the start -/
theorem deck_cursor : ∀ (cmds : List DeckCmd) (d : Spec.Deck), d.ahead = d.tape.drop d.started →
    (cmds.foldl Spec.Deck.cmd d).ahead = (cmds.foldl Spec.Deck.cmd d).tape.drop (cmds.foldl Spec.Deck.cmd d).started
    ∧ (cmds.foldl Spec.Deck.cmd d).tape = d.tape := by
  intro cmds
  induction cmds with
  | nil => intro d h; exact ⟨h, rfl⟩
  | cons c cs ih =>
    intro d h
    have hstep : (d.cmd c).ahead = (d.cmd c).tape.drop (d.cmd c).started ∧ (d.cmd c).tape = d.tape := by
      cases c with
      | play => exact ⟨h, rfl⟩
      | stop => exact ⟨h, rfl⟩
      | rewind => simp [Spec.Deck.cmd, Spec.Deck.rewind]
      | advance n =>
        simp only [Spec.Deck.cmd, Spec.Deck.advance]
        split
        · exact ⟨h, rfl⟩
        · split
          · exact ⟨h, rfl⟩
          · split
            · rename_i len rest hah
              refine ⟨?_, rfl⟩
              simp only
              rw [hah] at h
              have : d.tape.drop (d.started + 1) = (d.tape.drop d.started).drop 1 := by simp [Nat.add_comm]
              rw [this, ← h]; rfl
            · simp [Spec.Deck.rewind]
    simp only [List.foldl_cons]
    obtain ⟨h1, h2⟩ := ih (d.cmd c) hstep.1
    exact ⟨h1, h2.trans hstep.2⟩

end ZxVerif.Tape
