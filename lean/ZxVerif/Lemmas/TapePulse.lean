/-
Helper lemmas for C11/C12: the chain of firings of the pulse state machine on a well-formed tape
(`Fires`), phase by phase (pilot, sync, bits, bytes, pause), and the timer arithmetic of
`process_clocks` (`untilFire`).
-/
import ZxVerif.Lemmas.Tape
set_option linter.constructorNameAsVariable false
set_option maxRecDepth 4000
namespace ZxVerif.Tape

/-- `Fires fixed t ds t'`: starting from the running tape `t`, the state machine fires
`ds.length` times without error, never being in `Stop`, every firing toggles the EAR level and
sets the delays `ds` in this order; `t'` is the tape after the last firing. -/
inductive Fires (fixed : Bool) : Tap → List Nat → Tap → Prop
  | nil {t : Tap} : Fires fixed t [] t
  | cons {t t' t'' : Tap} {ds : List Nat} :
      t.state ≠ .stop → fire fixed t = (none, t') → t'.currBit = !t.currBit →
      Fires fixed t' ds t'' → Fires fixed t (t'.delay :: ds) t''

theorem Fires.one {fixed : Bool} {t t' : Tap} {d : Nat} (hs : t.state ≠ .stop)
    (h : fire fixed t = (none, t')) (hb : t'.currBit = !t.currBit) (hd : t'.delay = d) :
    Fires fixed t [d] t' := by
  subst hd; exact .cons hs h hb .nil

theorem Fires.append {fixed : Bool} {t t' t'' : Tap} {ds es : List Nat} (h1 : Fires fixed t ds t')
    (h2 : Fires fixed t' es t'') : Fires fixed t (ds ++ es) t'' := by
  induction h1 with
  | nil => exact h2
  | cons hs hf hb _ ih => exact .cons hs hf hb (ih h2)

/-- the level after a chain of firings -/
theorem Fires.level {fixed : Bool} {t t' : Tap} {ds : List Nat} (h : Fires fixed t ds t') :
    t'.currBit = (t.currBit != (ds.length % 2 == 1)) := by
  induction h with
  | nil => simp
  | @cons t t' t'' ds _ _ hb _ ih =>
    rw [ih, hb]
    simp only [List.length_cons]
    rcases Nat.mod_two_eq_zero_or_one ds.length with h | h
    · have h' : (ds.length + 1) % 2 = 1 := by omega
      simp [h, h']
    · have h' : (ds.length + 1) % 2 = 0 := by omega
      simp [h, h']

/-! ### phases -/

/-- pilot: `n` pulses left -/
theorem fires_pilot (fixed : Bool) : ∀ (n : Nat) (t : Tap), t.state = .pilot (n + 1) →
    ∃ t', Fires fixed t (List.replicate n PILOT_LENGTH ++ [SYNC1_LENGTH]) t' ∧ t'.state = .sync
      ∧ t'.rd = t.rd ∧ t'.currByte = t.currByte ∧ t'.prevState = t.prevState := by
  intro n
  induction n with
  | zero =>
    intro t hs
    refine ⟨{ t with currBit := !t.currBit, delay := SYNC1_LENGTH, state := .sync }, ?_, rfl, rfl, rfl, rfl⟩
    exact Fires.one (by simp [hs]) (by simp [fire, hs]) rfl rfl
  | succ n ih =>
    intro t hs
    obtain ⟨t', hf, h1, h2, h3, h4⟩ := ih { t with currBit := !t.currBit, delay := PILOT_LENGTH, state := .pilot (n + 1) } rfl
    refine ⟨t', ?_, h1, h2, h3, h4⟩
    rw [List.replicate_succ, List.cons_append]
    exact Fires.cons (t' := { t with currBit := !t.currBit, delay := PILOT_LENGTH, state := .pilot (n + 1) })
      (by simp [hs]) (by simp [fire, hs]) rfl hf

/-- pulse length of the bit of `b` selected by `mask` -/
def bitLen (b mask : Byte) : Nat := if b &&& mask = 0 then BIT_ZERO_LENGTH else BIT_ONE_LENGTH

/-- second half of a bit -/
theorem fires_half (fixed : Bool) (t : Tap) (h : Nat) (m : Byte) (hs : t.state = .bitHalf h m) :
    ∃ t', Fires fixed t [h] t' ∧ t'.state = (if m >>> 1 = 0 then .nextByte else .nextBit (m >>> 1))
      ∧ t'.rd = t.rd ∧ t'.currByte = t.currByte ∧ t'.prevState = t.prevState :=
  ⟨{ t with currBit := !t.currBit, delay := h, state := if m >>> 1 = 0 then .nextByte else .nextBit (m >>> 1) },
    Fires.one (by simp [hs]) (by simp [fire, hs]) rfl rfl, rfl, rfl, rfl, rfl⟩

/-- one bit: two equal pulses -/
theorem fires_bit (fixed : Bool) (t : Tap) (m : Byte) (hs : t.state = .nextBit m) :
    ∃ t', Fires fixed t [bitLen t.currByte m, bitLen t.currByte m] t'
      ∧ t'.state = (if m >>> 1 = 0 then .nextByte else .nextBit (m >>> 1))
      ∧ t'.rd = t.rd ∧ t'.currByte = t.currByte ∧ t'.prevState = t.prevState := by
  obtain ⟨t', hf, h1, h2, h3, h4⟩ := fires_half fixed (smNextBit t m) (bitLen t.currByte m) m
    (by simp [smNextBit, bitLen])
  refine ⟨t', ?_, h1, h2, h3, h4⟩
  exact Fires.cons (t' := smNextBit t m) (by simp [hs]) (by simp [fire, hs]) rfl hf

/-- the eight masks, most significant first -/
def masks : List Byte := [0x80, 0x40, 0x20, 0x10, 0x08, 0x04, 0x02, 0x01]

def modelBytePulses (b : Byte) : List Nat := masks.flatMap fun m => [bitLen b m, bitLen b m]

theorem bit_mask (b : BitVec 8) :
    (b &&& 0x80 = 0 ↔ b.getLsbD 7 = false) ∧ (b &&& 0x40 = 0 ↔ b.getLsbD 6 = false) ∧
    (b &&& 0x20 = 0 ↔ b.getLsbD 5 = false) ∧ (b &&& 0x10 = 0 ↔ b.getLsbD 4 = false) ∧
    (b &&& 0x08 = 0 ↔ b.getLsbD 3 = false) ∧ (b &&& 0x04 = 0 ↔ b.getLsbD 2 = false) ∧
    (b &&& 0x02 = 0 ↔ b.getLsbD 1 = false) ∧ (b &&& 0x01 = 0 ↔ b.getLsbD 0 = false) := by
  refine ⟨?_, ?_, ?_, ?_, ?_, ?_, ?_, ?_⟩ <;> bv_decide

theorem len_eq (b m : Byte) (k : Nat) (hm : b &&& m = 0 ↔ b.getLsbD k = false) :
    (if b.getLsbD k = true then 1710 else 855) = (if b &&& m = 0 then 855 else 1710) := by
  cases hk : b.getLsbD k
  · simp [hm.2 hk]
  · have : ¬ b &&& m = 0 := fun h => by rw [hm.1 h] at hk; cases hk
    rw [if_neg this]; simp

theorem bytePulses_eq (b : Byte) : Spec.bytePulses b = modelBytePulses b := by
  obtain ⟨h7, h6, h5, h4, h3, h2, h1, h0⟩ := bit_mask b
  simp only [Spec.bytePulses, modelBytePulses, masks, bitLen, BIT_ZERO_LENGTH, BIT_ONE_LENGTH,
    List.range, List.range.loop, List.flatMap_cons, List.flatMap_nil, List.append_nil]
  simp only [show (7 - 0 = 7 ∧ 7 - 1 = 6 ∧ 7 - 2 = 5 ∧ 7 - 3 = 4 ∧ 7 - 4 = 3 ∧ 7 - 5 = 2 ∧ 7 - 6 = 1 ∧ 7 - 7 = 0)
    from by decide]
  rw [len_eq b _ 7 h7, len_eq b _ 6 h6, len_eq b _ 5 h5, len_eq b _ 4 h4, len_eq b _ 3 h3,
    len_eq b _ 2 h2, len_eq b _ 1 h1, len_eq b _ 0 h0]

/-- a whole byte, starting at its first bit -/
theorem fires_byte (fixed : Bool) (t : Tap) (hs : t.state = .nextBit 0x80) :
    ∃ t', Fires fixed t (modelBytePulses t.currByte) t' ∧ t'.state = .nextByte
      ∧ t'.rd = t.rd ∧ t'.currByte = t.currByte ∧ t'.prevState = t.prevState := by
  obtain ⟨t1, hf1, hs1, hr1, hb1, hp1⟩ := fires_bit fixed t 0x80 hs
  replace hs1 : t1.state = .nextBit 0x40 := by rw [hs1]; decide
  obtain ⟨t2, hf2, hs2, hr2, hb2, hp2⟩ := fires_bit fixed t1 0x40 hs1
  replace hs2 : t2.state = .nextBit 0x20 := by rw [hs2]; decide
  rw [hb1] at hf2
  replace hb2 : t2.currByte = t.currByte := hb2.trans hb1
  replace hr2 : t2.rd = t.rd := hr2.trans hr1
  replace hp2 : t2.prevState = t.prevState := hp2.trans hp1
  obtain ⟨t3, hf3, hs3, hr3, hb3, hp3⟩ := fires_bit fixed t2 0x20 hs2
  replace hs3 : t3.state = .nextBit 0x10 := by rw [hs3]; decide
  rw [hb2] at hf3
  replace hb3 : t3.currByte = t.currByte := hb3.trans hb2
  replace hr3 : t3.rd = t.rd := hr3.trans hr2
  replace hp3 : t3.prevState = t.prevState := hp3.trans hp2
  obtain ⟨t4, hf4, hs4, hr4, hb4, hp4⟩ := fires_bit fixed t3 0x10 hs3
  replace hs4 : t4.state = .nextBit 0x08 := by rw [hs4]; decide
  rw [hb3] at hf4
  replace hb4 : t4.currByte = t.currByte := hb4.trans hb3
  replace hr4 : t4.rd = t.rd := hr4.trans hr3
  replace hp4 : t4.prevState = t.prevState := hp4.trans hp3
  obtain ⟨t5, hf5, hs5, hr5, hb5, hp5⟩ := fires_bit fixed t4 0x08 hs4
  replace hs5 : t5.state = .nextBit 0x04 := by rw [hs5]; decide
  rw [hb4] at hf5
  replace hb5 : t5.currByte = t.currByte := hb5.trans hb4
  replace hr5 : t5.rd = t.rd := hr5.trans hr4
  replace hp5 : t5.prevState = t.prevState := hp5.trans hp4
  obtain ⟨t6, hf6, hs6, hr6, hb6, hp6⟩ := fires_bit fixed t5 0x04 hs5
  replace hs6 : t6.state = .nextBit 0x02 := by rw [hs6]; decide
  rw [hb5] at hf6
  replace hb6 : t6.currByte = t.currByte := hb6.trans hb5
  replace hr6 : t6.rd = t.rd := hr6.trans hr5
  replace hp6 : t6.prevState = t.prevState := hp6.trans hp5
  obtain ⟨t7, hf7, hs7, hr7, hb7, hp7⟩ := fires_bit fixed t6 0x02 hs6
  replace hs7 : t7.state = .nextBit 0x01 := by rw [hs7]; decide
  rw [hb6] at hf7
  replace hb7 : t7.currByte = t.currByte := hb7.trans hb6
  replace hr7 : t7.rd = t.rd := hr7.trans hr6
  replace hp7 : t7.prevState = t.prevState := hp7.trans hp6
  obtain ⟨t8, hf8, hs8, hr8, hb8, hp8⟩ := fires_bit fixed t7 0x01 hs7
  replace hs8 : t8.state = .nextByte := by rw [hs8]; decide
  rw [hb7] at hf8
  replace hb8 : t8.currByte = t.currByte := hb8.trans hb7
  replace hr8 : t8.rd = t.rd := hr8.trans hr7
  replace hp8 : t8.prevState = t.prevState := hp8.trans hp7
  refine ⟨t8, ?_, hs8, hr8, hb8, hp8⟩
  have := hf1.append (hf2.append (hf3.append (hf4.append (hf5.append (hf6.append (hf7.append hf8))))))
  simpa [modelBytePulses, masks] using this

theorem Fires.of_same_fire {fixed : Bool} {t t0 t' : Tap} {ds : List Nat} (hne : ds ≠ [])
    (hf : fire fixed t = fire fixed t0) (hb : t.currBit = t0.currBit) (hs : t.state ≠ .stop)
    (h : Fires fixed t0 ds t') : Fires fixed t ds t' := by
  cases h with
  | nil => exact absurd rfl hne
  | cons _ hf0 hb0 hrest => exact .cons hs (hf.trans hf0) (by rw [hb0, hb]) hrest

theorem modelBytePulses_ne_nil (b : Byte) : modelBytePulses b ≠ [] := by
  simp [modelBytePulses, masks]

/-- `NextByte` with a byte available: the byte is fetched and its 16 pulses follow -/
theorem fires_nextByte_some (fixed : Bool) (t : Tap) (b : Byte) (rd' : Reader) (hs : t.state = .nextByte)
    (hn : nextBlockByte t.rd = (.ok (some b), rd')) :
    ∃ t', Fires fixed t (modelBytePulses b) t' ∧ t'.state = .nextByte ∧ t'.rd = rd'
      ∧ t'.prevState = t.prevState := by
  obtain ⟨t', hf, h1, h2, _, h4⟩ :=
    fires_byte fixed { t with rd := rd', currByte := b, state := .nextBit 0x80 } rfl
  refine ⟨t', ?_, h1, h2, h4⟩
  refine Fires.of_same_fire (t0 := { t with rd := rd', currByte := b, state := .nextBit 0x80 })
    (modelBytePulses_ne_nil b) ?_ rfl (by simp [hs]) hf
  simp [fire, hs, hn]

/-- `NextByte` at the end of the block: the closing edge and the pause -/
theorem fires_pause (fixed : Bool) (t : Tap) (rd' : Reader) (hs : t.state = .nextByte)
    (hn : nextBlockByte t.rd = (.ok none, rd')) :
    ∃ t', Fires fixed t [PAUSE_LENGTH] t' ∧ t'.state = .play ∧ t'.rd = rd'
      ∧ t'.prevState = t.prevState :=
  ⟨smPause { t with rd := rd', state := .pause },
    Fires.one (by simp [hs]) (by simp [fire, hs, hn]) rfl rfl, rfl, rfl, rfl⟩

/-- all remaining bytes of the block, then the pause -/
theorem fires_bytes (fixed : Bool) {bs post : List Byte} : ∀ (n : Nat) (t : Tap), t.state = .nextByte →
    Inv t.rd bs post → bs.length - t.rd.blockBytesRead = n →
    ∃ t', Fires fixed t ((bs.drop t.rd.blockBytesRead).flatMap modelBytePulses ++ [PAUSE_LENGTH]) t'
      ∧ t'.state = .play ∧ Idle t'.rd post ∧ t'.prevState = t.prevState := by
  intro n
  induction n with
  | zero =>
    intro t hs hinv hn
    have hk : t.rd.blockBytesRead = bs.length := by have := hinv.le; omega
    obtain ⟨t', hf, h1, h2, h3⟩ := fires_pause fixed t t.rd hs (nextBlockByte_none hinv hk)
    refine ⟨t', ?_, h1, by rw [h2]; exact hinv.idle hk, h3⟩
    rw [hk, List.drop_length]; simpa using hf
  | succ n ih =>
    intro t hs hinv hn
    have hk : t.rd.blockBytesRead < bs.length := by omega
    obtain ⟨r1, h1, hinv1, hr1⟩ := nextBlockByte_some hinv hk
    obtain ⟨t1, hf1, hs1, hrd1, hp1⟩ := fires_nextByte_some fixed t _ r1 hs h1
    obtain ⟨t', hf, h1', h2', h3'⟩ := ih t1 hs1 (by rw [hrd1]; exact hinv1) (by rw [hrd1]; omega)
    refine ⟨t', ?_, h1', h2', h3'.trans hp1⟩
    rw [List.drop_eq_getElem_cons hk, List.flatMap_cons, List.append_assoc]
    have hb : bs.getD t.rd.blockBytesRead 0 = bs[t.rd.blockBytesRead] := by rw [getD_eq]; simp [hk]
    rw [hb] at hf1
    rw [hrd1, hr1] at hf
    exact hf1.append hf

/-- `Sync`: the second sync pulse -/
theorem fires_sync (fixed : Bool) (t : Tap) (hs : t.state = .sync) :
    ∃ t', Fires fixed t [SYNC2_LENGTH] t' ∧ t'.state = .nextBit 0x80 ∧ t'.rd = t.rd
      ∧ t'.currByte = t.currByte ∧ t'.prevState = t.prevState :=
  ⟨{ t with currBit := !t.currBit, delay := SYNC2_LENGTH, state := .nextBit 0x80 },
    Fires.one (by simp [hs]) (by simp [fire, hs]) rfl rfl, rfl, rfl, rfl, rfl⟩

/-- `Play` with a block ahead: the block is opened, its flag byte fetched, the pilot starts high -/
theorem fires_play (fixed : Bool) (t : Tap) (flag : Byte) (rest post : List Byte)
    (hlen : (flag :: rest).length < 65536) (hs : t.state = .play) (hb : t.currBit = false)
    (ha : Ahead t.rd (Spec.encodeBlock (flag :: rest) ++ post)) :
    ∃ t', Fires fixed t [PILOT_LENGTH] t' ∧ t'.state = .pilot (Spec.pilotCount flag)
      ∧ Inv t'.rd (flag :: rest) post ∧ t'.rd.blockBytesRead = 1 ∧ t'.currByte = flag
      ∧ t'.prevState = t.prevState := by
  obtain ⟨r1, he, hinv, h0⟩ := nextBlock_block ha hlen
  obtain ⟨r2, h2, hinv2, hr2⟩ := nextBlockByte_some hinv (by rw [h0]; simp)
  rw [h0] at h2 hr2
  simp only [List.getD_cons_zero] at h2
  refine ⟨{ t with rd := r2, currByte := flag, currBit := true, delay := PILOT_LENGTH,
                   state := .pilot (Spec.pilotCount flag) }, ?_, rfl, hinv2, hr2, rfl, rfl⟩
  refine Fires.one (by simp [hs]) ?_ (by simp [hb]) rfl
  simp only [fire, hs, he, h2, Spec.pilotCount, PILOT_PULSES_HEADER, PILOT_PULSES_DATA]

theorem flatMap_bytePulses_length (bs : List Byte) : (bs.flatMap Spec.bytePulses).length = 16 * bs.length := by
  induction bs with
  | nil => rfl
  | cons b bs ih =>
    rw [List.flatMap_cons, List.length_append, ih, bytePulses_eq]
    simp [modelBytePulses, masks]; omega

theorem blockPulses_even (flag : Byte) (rest : List Byte) :
    (Spec.blockPulses (flag :: rest)).length % 2 = 0 := by
  simp only [Spec.blockPulses, List.length_append, List.length_replicate, flatMap_bytePulses_length,
    List.length_cons, List.length_nil, Spec.pilotCount]
  split <;> omega

theorem pilotCount_pos (flag : Byte) : ∃ n, Spec.pilotCount flag = n + 1 := by
  unfold Spec.pilotCount; split
  · exact ⟨8062, rfl⟩
  · exact ⟨3222, rfl⟩

/-- one whole block: pilot, sync, every byte, pause — exactly `blockPulses` -/
theorem fires_block (fixed : Bool) (t : Tap) (flag : Byte) (rest post : List Byte)
    (hlen : (flag :: rest).length < 65536) (hs : t.state = .play) (hb : t.currBit = false)
    (ha : Ahead t.rd (Spec.encodeBlock (flag :: rest) ++ post)) :
    ∃ t', Fires fixed t (Spec.blockPulses (flag :: rest)) t' ∧ t'.state = .play ∧ t'.currBit = false
      ∧ Idle t'.rd post ∧ t'.prevState = t.prevState := by
  obtain ⟨t1, hf1, hs1, hinv1, hr1, hcb1, hp1⟩ := fires_play fixed t flag rest post hlen hs hb ha
  obtain ⟨n, hn⟩ := pilotCount_pos flag
  rw [hn] at hs1
  obtain ⟨t2, hf2, hs2, hrd2, hcb2, hp2⟩ := fires_pilot fixed n t1 hs1
  obtain ⟨t3, hf3, hs3, hrd3, hcb3, hp3⟩ := fires_sync fixed t2 hs2
  obtain ⟨t4, hf4, hs4, hrd4, _, hp4⟩ := fires_byte fixed t3 hs3
  have hrd : t4.rd = t1.rd := by rw [hrd4, hrd3, hrd2]
  obtain ⟨t5, hf5, hs5, hidle5, hp5⟩ := fires_bytes fixed (bs := flag :: rest) (post := post) _ t4 hs4
    (by rw [hrd]; exact hinv1) rfl
  have hcb : t3.currByte = flag := by rw [hcb3, hcb2, hcb1]
  rw [hcb] at hf4
  rw [hrd, hr1] at hf5
  have hall := hf1.append (hf2.append (hf3.append (hf4.append hf5)))
  have heq : [PILOT_LENGTH] ++ (List.replicate n PILOT_LENGTH ++ [SYNC1_LENGTH] ++ ([SYNC2_LENGTH] ++
      (modelBytePulses flag ++ ((List.drop 1 (flag :: rest)).flatMap modelBytePulses ++ [PAUSE_LENGTH]))))
      = Spec.blockPulses (flag :: rest) := by
    have hfun : Spec.bytePulses = modelBytePulses := funext bytePulses_eq
    simp only [Spec.blockPulses, hn, hfun, List.replicate_succ, List.flatMap_cons, List.drop_succ_cons,
      List.drop_zero, PILOT_LENGTH, SYNC1_LENGTH, SYNC2_LENGTH, PAUSE_LENGTH]
    simp [List.append_assoc]
  rw [heq] at hall
  refine ⟨t5, hall, hs5, ?_, hidle5, ?_⟩
  · rw [hall.level, hb, blockPulses_even]; rfl
  · rw [hp5, hp4, hp3, hp2, hp1]

/-- a block list: every block non-empty and shorter than 65536 bytes -/
def WellFormed (blocks : List (List Byte)) : Prop := ∀ b ∈ blocks, b ≠ [] ∧ b.length < 65536

/-- the whole tape: exactly `nominal blocks`, ending in `Play` in front of the tail -/
theorem fires_tape (fixed : Bool) : ∀ (blocks : List (List Byte)) (tail : List Byte) (t : Tap),
    WellFormed blocks → t.state = .play → t.currBit = false → Ahead t.rd (Spec.encode blocks ++ tail) →
    ∃ t', Fires fixed t (Spec.nominal blocks) t' ∧ t'.state = .play ∧ t'.currBit = false
      ∧ Ahead t'.rd tail ∧ t'.prevState = t.prevState := by
  intro blocks
  induction blocks with
  | nil =>
    intro tail t _ hs hb ha
    exact ⟨t, .nil, hs, hb, by simpa [Spec.encode] using ha, rfl⟩
  | cons b bs ih =>
    intro tail t hwf hs hb ha
    obtain ⟨hne, hlen⟩ := hwf b List.mem_cons_self
    cases b with
    | nil => exact absurd rfl hne
    | cons flag rest =>
      have ha' : Ahead t.rd (Spec.encodeBlock (flag :: rest) ++ (Spec.encode bs ++ tail)) := by
        simpa [encode_cons, List.append_assoc] using ha
      obtain ⟨t1, hf1, hs1, hb1, hidle1, hp1⟩ := fires_block fixed t flag rest _ hlen hs hb ha'
      obtain ⟨t2, hf2, hs2, hb2, ha2, hp2⟩ := ih tail t1 (fun b' h' => hwf b' (List.mem_cons_of_mem _ h'))
        hs1 hb1 (.idle hidle1)
      refine ⟨t2, ?_, hs2, hb2, ha2, hp2.trans hp1⟩
      simp only [Spec.nominal, List.flatMap_cons]
      exact hf1.append hf2

/-- `Play` at the end of the tape: the deck stops, rewound, level low -/
theorem fire_end (fixed : Bool) (t : Tap) (tail : List Byte) (ht : tail.length < 2) (hs : t.state = .play)
    (ha : Ahead t.rd tail) :
    ∃ t', fire fixed t = (none, t') ∧ t'.state = .stop ∧ t'.currBit = false ∧ t'.delay = 0
      ∧ Idle t'.rd t'.rd.asset.data ∧ (fixed = true → t'.prevState = .stop) := by
  obtain ⟨r1, he, _⟩ := nextBlock_end ha ht
  refine ⟨smStop fixed { t with rd := r1, state := .stop }, by simp [fire, hs, he], ?_, ?_, ?_, ?_, ?_⟩
  · cases fixed <;> simp [smStop, Tap.rewind]
  · cases fixed <;> simp [smStop, Tap.rewind]
  · cases fixed <;> simp [smStop, Tap.rewind]
  · cases fixed <;> exact ⟨rfl, rfl, .inl rfl⟩
  · intro hf; subst hf; simp [smStop, Tap.rewind]

/-! ### the timer of `process_clocks` -/

/-- The countdown of `process_clocks` as a function of the schedule and the pending delay: T-states
until and including the call that fires, and the rest of the schedule (`none`: the schedule ends
first). -/
def untilFire : List Nat → Nat → Option (Nat × List Nat)
  | [], _ => none
  | c :: cs, d =>
    if d > 0 then (untilFire cs (if c > d then 0 else d - c)).map (fun r => (r.1 + c, r.2))
    else some (c, cs)

def ValidSched (cs : List Nat) : Prop := ∀ c ∈ cs, 1 ≤ c ∧ c ≤ 16

/-- `gapOk d g`: `g` T-states is a legal time for a delay `d` to fire -/
def gapOk (d g : Nat) : Prop := (d = 0 → 1 ≤ g ∧ g ≤ 16) ∧ (0 < d → d + 1 ≤ g ∧ g ≤ d + 31)

theorem timer_bounds : ∀ (cs : List Nat) (d e : Nat) (r : List Nat), ValidSched cs →
    untilFire cs d = some (e, r) → gapOk d e ∧ ValidSched r := by
  intro cs
  induction cs with
  | nil => intro d e r _ h; simp [untilFire] at h
  | cons c cs ih =>
    intro d e r hv h
    have hc := hv c List.mem_cons_self
    have hv' : ValidSched cs := fun x hx => hv x (List.mem_cons_of_mem _ hx)
    unfold untilFire at h
    by_cases hd : d > 0
    · simp only [hd, if_true, Option.map_eq_some_iff] at h
      obtain ⟨⟨e', r'⟩, h', heq⟩ := h
      simp only [Prod.mk.injEq] at heq
      obtain ⟨he, hr⟩ := heq
      subst hr
      obtain ⟨hg, hvr⟩ := ih _ e' r' hv' h'
      refine ⟨⟨by omega, fun _ => ?_⟩, hvr⟩
      by_cases hcd : c > d
      · simp only [hcd, if_true] at hg
        have := hg.1 rfl; omega
      · simp only [hcd, if_false] at hg
        by_cases hz : d - c = 0
        · have := hg.1 hz; omega
        · have := hg.2 (by omega); omega
    · simp only [hd, if_false, Option.some.injEq, Prod.mk.injEq] at h
      obtain ⟨he, hr⟩ := h
      subst he; subst hr
      exact ⟨⟨fun _ => hc, by omega⟩, hv'⟩

theorem runLog_stopped (fixed : Bool) : ∀ (cs : List Nat) (t : Tap) (now : Nat), t.state = .stop →
    runLog fixed cs t now = (none, t, []) := by
  intro cs
  induction cs with
  | nil => intros; rfl
  | cons c cs ih =>
    intro t now hs
    simp [runLog, processClocks, hs, ih t (now + c) hs]

/-- a firing that succeeds does not look at the pending delay -/
theorem fire_delay_irrelevant (fixed : Bool) (t t' : Tap) (d : Nat) (h : fire fixed t = (none, t')) :
    fire fixed { t with delay := d } = (none, t') := by
  obtain ⟨rd, state, prev, bit, byte, delay⟩ := t
  cases state with
  | play =>
    simp only [fire] at h ⊢
    rcases hnb : nextBlock rd with ⟨_ | b, rd1⟩
    · simp [hnb] at h
    · cases b
      · simpa [hnb, smStop, Tap.rewind] using h
      · rcases hnbb : nextBlockByte rd1 with ⟨_ | ob, rd2⟩
        · simp [hnb, hnbb] at h
        · cases ob
          · simp [hnb, hnbb] at h
          · simpa [hnb, hnbb] using h
  | nextByte =>
    simp only [fire] at h ⊢
    rcases hnbb : nextBlockByte rd with ⟨_ | ob, rd2⟩
    · simp [hnbb] at h
    · cases ob
      · simpa [hnbb, smPause] using h
      · simpa [hnbb, smNextBit] using h
  | stop => simpa [fire, smStop, Tap.rewind] using h
  | pilot n =>
    simp only [fire] at h ⊢
    split <;> simp_all
  | sync => simpa [fire] using h
  | nextBit m => simpa [fire, smNextBit] using h
  | bitHalf hd m => simpa [fire] using h
  | pause => simpa [fire, smPause] using h

/-- the schedule runs out before the pending delay does: nothing is logged -/
theorem runLog_none (fixed : Bool) : ∀ (cs : List Nat) (t : Tap) (now : Nat), t.state ≠ .stop →
    untilFire cs t.delay = none → (runLog fixed cs t now).1 = none ∧ (runLog fixed cs t now).2.2 = [] := by
  intro cs
  induction cs with
  | nil => intros; exact ⟨rfl, rfl⟩
  | cons c cs ih =>
    intro t now hs hu
    unfold untilFire at hu
    by_cases hd : t.delay > 0
    · simp only [hd, if_true, Option.map_eq_none_iff] at hu
      have hne : ¬ (t.delay == 0) = true := by simp; omega
      have := ih { t with delay := if c > t.delay then 0 else t.delay - c } (now + c) hs hu
      simp only [runLog, processClocks, hs, hd, if_true, if_false, hne, Bool.and_false]
      exact this
    · simp [hd] at hu

/-- the schedule reaches the firing call: one entry, then the run continues from the fired tape -/
theorem runLog_some (fixed : Bool) : ∀ (cs : List Nat) (t t' : Tap) (now e : Nat) (r : List Nat),
    t.state ≠ .stop → untilFire cs t.delay = some (e, r) → fire fixed t = (none, t') →
    runLog fixed cs t now = ((runLog fixed r t' (now + e)).1, (runLog fixed r t' (now + e)).2.1,
      ⟨now + e, t'.currBit, t'.delay⟩ :: (runLog fixed r t' (now + e)).2.2) := by
  intro cs
  induction cs with
  | nil => intro t t' now e r _ hu; simp [untilFire] at hu
  | cons c cs ih =>
    intro t t' now e r hs hu hf
    unfold untilFire at hu
    by_cases hd : t.delay > 0
    · simp only [hd, if_true, Option.map_eq_some_iff] at hu
      obtain ⟨⟨e', r'⟩, hu', heq⟩ := hu
      simp only [Prod.mk.injEq] at heq
      obtain ⟨he, hr⟩ := heq
      subst hr; subst he
      have hne : ¬ (t.delay == 0) = true := by simp; omega
      have hf' := fire_delay_irrelevant fixed t t' (if c > t.delay then 0 else t.delay - c) hf
      have := ih { t with delay := if c > t.delay then 0 else t.delay - c } t' (now + c) e' r' hs hu' hf'
      simp only [runLog, processClocks, hs, hd, if_true, if_false, hne, Bool.and_false]
      rw [this]
      simp [Nat.add_assoc, Nat.add_comm c e']
    · simp only [hd, if_false, Option.some.injEq, Prod.mk.injEq] at hu
      obtain ⟨he, hr⟩ := hu
      subst he; subst hr
      have hd0 : t.delay = 0 := by omega
      have hfired : (t.state != .stop && t.delay == 0) = true := by simp [hs, hd0]
      simp only [runLog, processClocks, hs, hd, if_false, hf, hfired, if_true]

/-- the level the `k`-th firing leaves when every firing toggles, starting from `lvl` -/
def annotate (lvl : Bool) : List Nat → List (Nat × Bool)
  | [] => []
  | d :: ds => (d, !lvl) :: annotate (!lvl) ds

/-- chain of firings with the (delay, level) each leaves; no toggling requirement -/
inductive FiresL (fixed : Bool) : Tap → List (Nat × Bool) → Tap → Prop
  | nil {t : Tap} : FiresL fixed t [] t
  | cons {t t' t'' : Tap} {l : List (Nat × Bool)} :
      t.state ≠ .stop → fire fixed t = (none, t') → FiresL fixed t' l t'' →
      FiresL fixed t ((t'.delay, t'.currBit) :: l) t''

theorem Fires.toL {fixed : Bool} {t t' : Tap} {ds : List Nat} (h : Fires fixed t ds t') :
    FiresL fixed t (annotate t.currBit ds) t' := by
  induction h with
  | nil => exact .nil
  | cons hs hf hb _ ih =>
    rw [annotate, ← hb]
    exact .cons hs hf ih

theorem FiresL.append {fixed : Bool} {t t' t'' : Tap} {l l' : List (Nat × Bool)} (h1 : FiresL fixed t l t')
    (h2 : FiresL fixed t' l' t'') : FiresL fixed t (l ++ l') t'' := by
  induction h1 with
  | nil => exact h2
  | cons hs hf _ ih => exact .cons hs hf (ih h2)

/-- `Spaced prev d l log`: the logged firings `log` follow the chain `l` (delay and level of every
firing), each one a legal time after its predecessor (`prev`, which left the delay `d`). -/
def Spaced : Nat → Nat → List (Nat × Bool) → List Fire → Prop
  | _, _, _, [] => True
  | _, _, [], _ :: _ => False
  | prev, d, x :: l, f :: fs =>
    f.delay = x.1 ∧ f.level = x.2 ∧ prev ≤ f.time ∧ gapOk d (f.time - prev) ∧ Spaced f.time x.1 l fs

/-- **Run = chain + timer.** If the firings from `t` form the chain `l` and end in `Stop`, then under
every valid schedule `process_clocks` never fails and what it logs follows the chain, every firing
between `L+1` and `L+31` T-states after the one that set the delay `L`. -/
theorem runLog_chain (fixed : Bool) {t t' : Tap} {l : List (Nat × Bool)} (h : FiresL fixed t l t')
    (hstop : t'.state = .stop) : ∀ (cs : List Nat) (now : Nat), ValidSched cs →
    (runLog fixed cs t now).1 = none ∧ Spaced now t.delay l (runLog fixed cs t now).2.2 := by
  induction h with
  | nil =>
    intro cs now _
    rw [runLog_stopped fixed cs _ now hstop]
    exact ⟨rfl, trivial⟩
  | @cons t t1 t'' l hs hf _ ih =>
    intro cs now hv
    cases hu : untilFire cs t.delay with
    | none =>
      obtain ⟨h1, h2⟩ := runLog_none fixed cs t now hs hu
      rw [h1, h2]; exact ⟨rfl, trivial⟩
    | some p =>
      obtain ⟨e, r⟩ := p
      obtain ⟨hg, hvr⟩ := timer_bounds cs t.delay e r hv hu
      rw [runLog_some fixed cs t t1 now e r hs hu hf]
      obtain ⟨h1, h2⟩ := ih hstop r (now + e) hvr
      refine ⟨h1, rfl, rfl, by simp, ?_, h2⟩
      simpa using hg

/-! ### from the spaced log to pulse lengths -/

/-- T-states between consecutive firings = lengths of the pulses in between -/
def gaps : List Fire → List Nat
  | f :: g :: rest => (g.time - f.time) :: gaps (g :: rest)
  | _ => []

theorem gapOk_pulseOk {d g : Nat} (h : gapOk d g) : Spec.pulseOk d g = true := by
  unfold Spec.pulseOk
  rcases Nat.eq_zero_or_pos d with hd | hd
  · have := h.1 hd; simp; omega
  · have := h.2 hd; simp; omega

theorem spaced_tolerance : ∀ (log : List Fire) (l : List (Nat × Bool)) (prev d : Nat) (f : Fire) (x : Nat × Bool),
    Spaced prev d (x :: l) (f :: log) → Spec.withinTolerance (x.1 :: l.map (·.1)) (gaps (f :: log)) = true := by
  intro log
  induction log with
  | nil => intros; simp [gaps, Spec.withinTolerance]
  | cons g log ih =>
    intro l prev d f x h
    obtain ⟨_, _, _, _, hrest⟩ := h
    cases l with
    | nil => exact absurd hrest (by simp [Spaced])
    | cons y l =>
      have hrest' := hrest
      obtain ⟨_, _, _, hg, _⟩ := hrest
      simp only [gaps, Spec.withinTolerance, List.map_cons, Bool.and_eq_true]
      exact ⟨gapOk_pulseOk hg, ih l f.time x.1 g y hrest'⟩

theorem spaced_length : ∀ (log : List Fire) (l : List (Nat × Bool)) (prev d : Nat),
    Spaced prev d l log → log.length ≤ l.length := by
  intro log
  induction log with
  | nil => intros; simp
  | cons f log ih =>
    intro l prev d h
    cases l with
    | nil => exact absurd h (by simp [Spaced])
    | cons x l => simp only [List.length_cons]; have := ih l f.time x.1 h.2.2.2.2; omega

theorem gaps_length (log : List Fire) : (gaps log).length = log.length - 1 := by
  induction log with
  | nil => rfl
  | cons f log ih =>
    cases log with
    | nil => rfl
    | cons g log => simp only [gaps, List.length_cons] at ih ⊢; omega

theorem withinTolerance_prefix : ∀ (ns extra actual : List Nat), actual.length ≤ ns.length →
    Spec.withinTolerance (ns ++ extra) actual = Spec.withinTolerance ns actual := by
  intro ns
  induction ns with
  | nil => intro extra actual h; cases actual <;> simp_all [Spec.withinTolerance]
  | cons n ns ih =>
    intro extra actual h
    cases actual with
    | nil => simp [Spec.withinTolerance]
    | cons a as => simp only [List.cons_append, Spec.withinTolerance]; rw [ih]; simpa using h

theorem annotate_map_fst (lvl : Bool) (ds : List Nat) : (annotate lvl ds).map (·.1) = ds := by
  induction ds generalizing lvl with
  | nil => rfl
  | cons d ds ih => simp [annotate, ih]

theorem annotate_level : ∀ (ds : List Nat) (lvl : Bool) (k : Nat) (x : Nat × Bool),
    (annotate lvl ds)[k]? = some x → x.2 = (lvl != (k % 2 == 0)) := by
  intro ds
  induction ds with
  | nil => intro lvl k x h; simp [annotate] at h
  | cons d ds ih =>
    intro lvl k x h
    cases k with
    | zero => simp [annotate] at h; rw [← h]; simp
    | succ k =>
      simp only [annotate, List.getElem?_cons_succ] at h
      rw [ih (!lvl) k x h]
      rcases Nat.mod_two_eq_zero_or_one k with hk | hk
      · have : (k + 1) % 2 = 1 := by omega
        cases lvl <;> simp [hk, this]
      · have : (k + 1) % 2 = 0 := by omega
        cases lvl <;> simp [hk, this]

theorem spaced_get : ∀ (log : List Fire) (l : List (Nat × Bool)) (prev d k : Nat) (f : Fire),
    Spaced prev d l log → log[k]? = some f → l[k]? = some (f.delay, f.level) := by
  intro log
  induction log with
  | nil => intro l prev d k f _ h; simp at h
  | cons g log ih =>
    intro l prev d k f h hk
    cases l with
    | nil => exact absurd h (by simp [Spaced])
    | cons x l =>
      obtain ⟨h1, h2, _, _, hrest⟩ := h
      cases k with
      | zero => simp at hk; subst hk; simp only [List.getElem?_cons_zero, Option.some.injEq]; rw [h1, h2]
      | succ k => simp only [List.getElem?_cons_succ] at hk ⊢; exact ih l g.time x.1 k f hrest hk

/-! ### a threshold decoder reads the bytes back -/

def bitPulse (bit : Bool) : Nat := if bit then 1710 else 855

/-- bits of a byte, most significant first -/
def bitsOf (b : Byte) : List Bool :=
  [b.getLsbD 7, b.getLsbD 6, b.getLsbD 5, b.getLsbD 4, b.getLsbD 3, b.getLsbD 2, b.getLsbD 1, b.getLsbD 0]

theorem bytePulses_bits (b : Byte) :
    Spec.bytePulses b = (bitsOf b).flatMap fun bit => [bitPulse bit, bitPulse bit] := by
  simp [Spec.bytePulses, bitsOf, bitPulse, List.range, List.range.loop]

theorem bitsToByte_bitsOf (b : BitVec 8) : Spec.bitsToByte (bitsOf b) = b := by
  simp only [Spec.bitsToByte, bitsOf, List.foldl_cons, List.foldl_nil]
  bv_decide

theorem decodeBits_tolerant (th : Nat) (hlo : 887 ≤ th) (hhi : th < 1710) : ∀ (bits : List Bool) (m : List Nat),
    m.length = 2 * bits.length →
    Spec.withinTolerance (bits.flatMap fun bit => [bitPulse bit, bitPulse bit]) m = true →
    Spec.decodeBits th m = bits := by
  intro bits
  induction bits with
  | nil => intro m hl _; cases m <;> simp_all [Spec.decodeBits]
  | cons bit bits ih =>
    intro m hl ht
    match m, hl with
    | a :: a' :: rest, hl =>
      simp only [List.flatMap_cons, List.cons_append, List.nil_append, Spec.withinTolerance,
        Bool.and_eq_true, Spec.pulseOk, decide_eq_true_eq] at ht
      obtain ⟨⟨h1, h2⟩, _, hrest⟩ := ht
      simp only [Spec.decodeBits]
      rw [ih rest (by simp at hl; omega) hrest]
      congr 1
      cases bit <;> simp [bitPulse] at h1 h2 ⊢ <;> omega

theorem withinTolerance_split : ∀ (xs ys m : List Nat), xs.length ≤ m.length →
    Spec.withinTolerance (xs ++ ys) m = true →
    Spec.withinTolerance xs (m.take xs.length) = true ∧ Spec.withinTolerance ys (m.drop xs.length) = true := by
  intro xs
  induction xs with
  | nil => intro ys m _ h; simpa [Spec.withinTolerance] using h
  | cons x xs ih =>
    intro ys m hl h
    cases m with
    | nil => simp at hl
    | cons a as =>
      simp only [List.cons_append, Spec.withinTolerance, Bool.and_eq_true] at h
      obtain ⟨h1, h2⟩ := h
      obtain ⟨h3, h4⟩ := ih ys as (by simpa using hl) h2
      simp only [List.length_cons, List.take_succ_cons, List.drop_succ_cons, Spec.withinTolerance,
        Bool.and_eq_true]
      exact ⟨⟨h1, h3⟩, h4⟩

theorem decodeBytes_tolerant (th : Nat) (hlo : 887 ≤ th) (hhi : th < 1710) : ∀ (bs : List Byte) (m : List Nat),
    m.length = 16 * bs.length → Spec.withinTolerance (bs.flatMap Spec.bytePulses) m = true →
    Spec.decodeBytes th bs.length m = bs := by
  intro bs
  induction bs with
  | nil => intros; rfl
  | cons b bs ih =>
    intro m hl ht
    have hbl : (Spec.bytePulses b).length = 16 := by rw [bytePulses_bits]; simp [bitsOf]
    simp only [List.flatMap_cons] at ht
    simp only [List.length_cons] at hl
    obtain ⟨h1, h2⟩ := withinTolerance_split _ _ m (by omega) ht
    rw [hbl] at h1 h2
    have hnot : ¬ m.length < 16 := by omega
    simp only [List.length_cons, Spec.decodeBytes, hnot, if_false]
    rw [bytePulses_bits] at h1
    rw [decodeBits_tolerant th hlo hhi (bitsOf b) (m.take 16) (by simp [bitsOf]; omega) h1,
      bitsToByte_bitsOf, ih (m.drop 16) (by simp; omega) h2]

end ZxVerif.Tape
