/-
The timer arithmetic of `process_clocks` and the run-follows-chain lemmas of Lemmas/TapePulse.lean for
step schedules that may contain zero-length calls (steps `0 … M`), as the machine really issues them
(`do_contention` calls `wait_internal(0)` when the ULA delay is 0; Lemmas/RawWaits.lean).

What a zero-length call does (tap.rs `process_clocks(0)`, Model/Tape.lean `processClocks`): with a
delay pending it changes nothing (`delay -= 0`); with `delay = 0` it runs the state machine like any
other call. So a delay `L > 0` still needs calls that add up to at least `L` before it is 0, and the
call after that fires: the elapsed time is in `[L, L + 2M − 1]` (for steps in `1 … M` the lower bound
is `L + 1`; M = 16: `[L, L + 31]`). The existing lemmas for steps `1 … 16` are untouched.
-/
import ZxVerif.Lemmas.TapePulse
set_option linter.constructorNameAsVariable false
namespace ZxVerif.Tape

/-- every step of the schedule is at most `M` (zero-length steps allowed) -/
def SchedLe (M : Nat) (cs : List Nat) : Prop := ∀ c ∈ cs, c ≤ M

theorem SchedLe.mono {M N : Nat} {cs : List Nat} (h : SchedLe M cs) (hMN : M ≤ N) : SchedLe N cs :=
  fun c hc => Nat.le_trans (h c hc) hMN

theorem SchedLe.of_valid {cs : List Nat} (h : ValidSched cs) : SchedLe 16 cs := fun c hc => (h c hc).2

/-- `gapOkM M d g`: `g` T-states is a legal time for a delay `d` to fire under steps `0 … M` -/
def gapOkM (M d g : Nat) : Prop := (d = 0 → g ≤ M) ∧ (0 < d → d ≤ g ∧ g + 1 ≤ d + 2 * M)

/-- **Timer lemma for steps `0 … M`**: the firing call comes `d … d + 2M − 1` T-states after the delay
`d > 0` was set (counted up to and including the firing call); a zero delay fires on the next call. -/
theorem timer_boundsM (M : Nat) : ∀ (cs : List Nat) (d e : Nat) (r : List Nat), SchedLe M cs →
    untilFire cs d = some (e, r) → gapOkM M d e ∧ SchedLe M r := by
  intro cs
  induction cs with
  | nil => intro d e r _ h; simp [untilFire] at h
  | cons c cs ih =>
    intro d e r hv h
    have hc := hv c List.mem_cons_self
    have hv' : SchedLe M cs := fun x hx => hv x (List.mem_cons_of_mem _ hx)
    unfold untilFire at h
    by_cases hd : d > 0
    · simp only [hd, if_true, Option.map_eq_some_iff] at h
      obtain ⟨⟨e', r'⟩, h', heq⟩ := h
      simp only [Prod.mk.injEq] at heq
      obtain ⟨he, hr⟩ := heq
      subst hr
      obtain ⟨hg, hvr⟩ := ih _ e' r' hv' h'
      refine ⟨⟨by omega, fun _ => ?_⟩, hvr⟩
      by_cases hcd : c > d
      · simp only [hcd, if_true] at hg
        have := hg.1 rfl; omega
      · simp only [hcd, if_false] at hg
        by_cases hz : d - c = 0
        · have := hg.1 hz; omega
        · have := hg.2 (by omega); omega
    · simp only [hd, if_false, Option.some.injEq, Prod.mk.injEq] at h
      obtain ⟨he, hr⟩ := h
      subst he; subst hr
      exact ⟨⟨fun _ => hc, by omega⟩, hv'⟩

/-- the lower bound is attained with a zero-length firing call, the upper bound as before -/
theorem timer_boundsM_tight :
    untilFire [16, 0] 16 = some (16, []) ∧ untilFire [16, 16, 16] 17 = some (48, []) ∧
    untilFire [0, 0, 5, 0, 0] 5 = some (5, [0]) := by decide

/-- **Zero-length calls cannot hold a pulse back**: if the schedule ends before the pending delay has
fired, less than `d + M` T-states have passed (a schedule that adds up to `d + M` or more always
reaches the firing call, however many of its calls are zero-length). -/
theorem untilFire_none_sum (M : Nat) (hM : 1 ≤ M) : ∀ (cs : List Nat) (d : Nat), SchedLe M cs →
    untilFire cs d = none → (d = 0 → cs = []) ∧ cs.sum < d + M := by
  intro cs
  induction cs with
  | nil => intro d _ _; exact ⟨fun _ => rfl, by simp; omega⟩
  | cons c cs ih =>
    intro d hv h
    have hc := hv c List.mem_cons_self
    have hv' : SchedLe M cs := fun x hx => hv x (List.mem_cons_of_mem _ hx)
    unfold untilFire at h
    by_cases hd : d > 0
    · simp only [hd, if_true, Option.map_eq_none_iff] at h
      obtain ⟨h0, hs⟩ := ih _ hv' h
      refine ⟨by omega, ?_⟩
      simp only [List.sum_cons]
      by_cases hcd : c > d
      · have hnil : cs = [] := h0 (by simp [hcd])
        rw [hnil]; simp; omega
      · simp only [hcd, if_false] at hs
        by_cases hz : d - c = 0
        · have hnil : cs = [] := h0 (by simp [hcd, hz])
          rw [hnil]; simp; omega
        · omega
    · simp [hd] at h

/-- the timing relation of a logged run with the per-gap condition as a parameter -/
def SpacedG (ok : Nat → Nat → Prop) : Nat → Nat → List (Nat × Bool) → List Fire → Prop
  | _, _, _, [] => True
  | _, _, [], _ :: _ => False
  | prev, d, x :: l, f :: fs =>
    f.delay = x.1 ∧ f.level = x.2 ∧ prev ≤ f.time ∧ ok d (f.time - prev) ∧ SpacedG ok f.time x.1 l fs

/-- **Run = chain + timer, steps `0 … M`.** -/
theorem runLog_chainM (fixed : Bool) (M : Nat) {t t' : Tap} {l : List (Nat × Bool)} (h : FiresL fixed t l t')
    (hstop : t'.state = .stop) : ∀ (cs : List Nat) (now : Nat), SchedLe M cs →
    (runLog fixed cs t now).1 = none ∧ SpacedG (gapOkM M) now t.delay l (runLog fixed cs t now).2.2 := by
  induction h with
  | nil =>
    intro cs now _
    rw [runLog_stopped fixed cs _ now hstop]
    exact ⟨rfl, trivial⟩
  | @cons t t1 t'' l hs hf _ ih =>
    intro cs now hv
    cases hu : untilFire cs t.delay with
    | none =>
      obtain ⟨h1, h2⟩ := runLog_none fixed cs t now hs hu
      rw [h1, h2]; exact ⟨rfl, trivial⟩
    | some p =>
      obtain ⟨e, r⟩ := p
      obtain ⟨hg, hvr⟩ := timer_boundsM M cs t.delay e r hv hu
      rw [runLog_some fixed cs t t1 now e r hs hu hf]
      obtain ⟨h1, h2⟩ := ih hstop r (now + e) hvr
      refine ⟨h1, rfl, rfl, by simp, ?_, h2⟩
      simpa using hg

theorem gapOkM_pulseOk {M d g : Nat} (hM : M ≤ 16) (h : gapOkM M d g) : Spec.pulseOk d g = true := by
  unfold Spec.pulseOk
  rcases Nat.eq_zero_or_pos d with hd | hd
  · have := h.1 hd; simp; omega
  · have := h.2 hd; simp; omega

theorem spacedG_tolerance {ok : Nat → Nat → Prop} (hok : ∀ d g, ok d g → Spec.pulseOk d g = true) :
    ∀ (log : List Fire) (l : List (Nat × Bool)) (prev d : Nat) (f : Fire) (x : Nat × Bool),
    SpacedG ok prev d (x :: l) (f :: log) →
      Spec.withinTolerance (x.1 :: l.map (·.1)) (gaps (f :: log)) = true := by
  intro log
  induction log with
  | nil => intros; simp [gaps, Spec.withinTolerance]
  | cons g log ih =>
    intro l prev d f x h
    obtain ⟨_, _, _, _, hrest⟩ := h
    cases l with
    | nil => exact absurd hrest (by simp [SpacedG])
    | cons y l =>
      have hrest' := hrest
      obtain ⟨_, _, _, hg, _⟩ := hrest
      simp only [gaps, Spec.withinTolerance, List.map_cons, Bool.and_eq_true]
      exact ⟨hok _ _ hg, ih l f.time x.1 g y hrest'⟩

theorem spacedG_length {ok : Nat → Nat → Prop} : ∀ (log : List Fire) (l : List (Nat × Bool)) (prev d : Nat),
    SpacedG ok prev d l log → log.length ≤ l.length := by
  intro log
  induction log with
  | nil => intros; simp
  | cons f log ih =>
    intro l prev d h
    cases l with
    | nil => exact absurd h (by simp [SpacedG])
    | cons x l => simp only [List.length_cons]; have := ih l f.time x.1 h.2.2.2.2; omega

theorem spacedG_get {ok : Nat → Nat → Prop} :
    ∀ (log : List Fire) (l : List (Nat × Bool)) (prev d k : Nat) (f : Fire),
    SpacedG ok prev d l log → log[k]? = some f → l[k]? = some (f.delay, f.level) := by
  intro log
  induction log with
  | nil => intro l prev d k f _ h; simp at h
  | cons g log ih =>
    intro l prev d k f h hk
    cases l with
    | nil => exact absurd h (by simp [SpacedG])
    | cons x l =>
      obtain ⟨h1, h2, _, _, hrest⟩ := h
      cases k with
      | zero => simp at hk; subst hk; simp only [List.getElem?_cons_zero, Option.some.injEq]; rw [h1, h2]
      | succ k => simp only [List.getElem?_cons_succ] at hk ⊢; exact ih l g.time x.1 k f hrest hk

/-- firing times never run ahead of the schedule: every logged firing lies within the time the
schedule covers -/
theorem runLog_times (fixed : Bool) : ∀ (cs : List Nat) (t : Tap) (now : Nat),
    ∀ f ∈ (runLog fixed cs t now).2.2, now ≤ f.time ∧ f.time ≤ now + cs.sum := by
  intro cs
  induction cs with
  | nil => intro t now f hf; simp [runLog] at hf
  | cons c cs ih =>
    intro t now f hf
    simp only [runLog] at hf
    cases hp : processClocks fixed t c with
    | mk oe t' =>
      cases oe with
      | some e => simp [hp] at hf
      | none =>
        simp only [hp] at hf
        simp only [List.sum_cons]
        split at hf
        · rcases List.mem_cons.mp hf with h | h
          · subst h; simp only; omega
          · have := ih t' (now + c) f h; omega
        · have := ih t' (now + c) f hf; omega

/-- from a spaced log to the tolerance statement and the order of levels and delays (the last step of
`C11.waveform`, for any per-gap condition that implies the tolerance) -/
theorem spacedG_waveform {ok : Nat → Nat → Prop} (hok : ∀ d g, ok d g → Spec.pulseOk d g = true)
    (nominal : List Nat) (log : List Fire)
    (hsp : SpacedG ok 0 0 (annotate false nominal ++ [(0, false)]) log) :
    Spec.withinTolerance nominal (gaps log) = true
    ∧ ∀ (k : Nat) (f : Fire), log[k]? = some f → k < nominal.length →
        f.level = Spec.levelOf k ∧ some f.delay = nominal[k]? := by
  constructor
  · have hlen := spacedG_length log _ 0 0 hsp
    cases log with
    | nil => simp [gaps, Spec.withinTolerance]
    | cons f log =>
      cases hn : annotate false nominal ++ [(0, false)] with
      | nil => simp at hn
      | cons x l =>
        rw [hn] at hsp hlen
        have h := spacedG_tolerance hok log l 0 0 f x hsp
        have hmap : x.1 :: l.map (·.1) = nominal ++ [0] := by
          have := congrArg (List.map (·.1)) hn
          simp only [List.map_append, annotate_map_fst, List.map_cons, List.map_nil] at this
          exact this.symm
        rw [hmap] at h
        rw [← withinTolerance_prefix nominal [0]]
        · exact h
        · rw [gaps_length]
          have : (x :: l).length = nominal.length + 1 := by
            rw [← hn]; simp [List.length_append]
            have := congrArg List.length (annotate_map_fst false nominal)
            simpa using this
          simp only [List.length_cons] at hlen this ⊢
          omega
  · intro k f hk hlt
    have hget := spacedG_get log _ 0 0 k f hsp hk
    have hlen : (annotate false nominal).length = nominal.length := by
      have := congrArg List.length (annotate_map_fst false nominal)
      simpa using this
    rw [List.getElem?_append_left (by omega)] at hget
    have hlvl := annotate_level _ _ _ _ hget
    have hdel : ((annotate false nominal).map (·.1))[k]? = some f.delay := by
      rw [List.getElem?_map, hget]; rfl
    rw [annotate_map_fst] at hdel
    refine ⟨?_, hdel.symm⟩
    simp only at hlvl
    rw [hlvl, Spec.levelOf]
    rcases Nat.mod_two_eq_zero_or_one k with h | h <;> simp [h]

/-! ### progress: the pulses do come -/

theorem untilFire_sum : ∀ (cs : List Nat) (d e : Nat) (r : List Nat),
    untilFire cs d = some (e, r) → cs.sum = e + r.sum := by
  intro cs
  induction cs with
  | nil => intro d e r h; simp [untilFire] at h
  | cons c cs ih =>
    intro d e r h
    unfold untilFire at h
    by_cases hd : d > 0
    · simp only [hd, if_true, Option.map_eq_some_iff] at h
      obtain ⟨⟨e', r'⟩, h', heq⟩ := h
      simp only [Prod.mk.injEq] at heq
      obtain ⟨he, hr⟩ := heq
      subst hr; subst he
      have := ih _ e' r' h'
      simp only [List.sum_cons]; omega
    · simp only [hd, if_false, Option.some.injEq, Prod.mk.injEq] at h
      obtain ⟨he, hr⟩ := h
      subst he; subst hr
      simp

/-- T-states after which the first `k` firings of a chain are certain to have happened under steps
`0 … M`: `d + 2M` for the firing that ends a delay `d` -/
def budget (M : Nat) : Nat → List (Nat × Bool) → Nat → Nat
  | _, _, 0 => 0
  | d, [], _ + 1 => d + 2 * M
  | d, x :: l, k + 1 => d + 2 * M + budget M x.1 l k

/-- **Progress.** A schedule of steps `0 … M` that covers `budget` T-states logs at least `k` firings:
zero-length calls cannot starve the tape. -/
theorem runLog_progress (fixed : Bool) (M : Nat) (hM : 1 ≤ M) {t t' : Tap} {l : List (Nat × Bool)}
    (h : FiresL fixed t l t') : ∀ (cs : List Nat) (now k : Nat), SchedLe M cs → k ≤ l.length →
    budget M t.delay l k ≤ cs.sum → k ≤ (runLog fixed cs t now).2.2.length := by
  induction h with
  | nil => intro cs now k _ hk _; simp at hk; omega
  | @cons t t1 t'' l hs hf _ ih =>
    intro cs now k hv hk hb
    cases k with
    | zero => omega
    | succ k =>
      simp only [budget] at hb
      cases hu : untilFire cs t.delay with
      | none =>
        have := (untilFire_none_sum M hM cs t.delay hv hu).2
        omega
      | some p =>
        obtain ⟨e, r⟩ := p
        obtain ⟨hg, hvr⟩ := timer_boundsM M cs t.delay e r hv hu
        have hsum := untilFire_sum cs t.delay e r hu
        rw [runLog_some fixed cs t t1 now e r hs hu hf]
        simp only [List.length_cons] at hk ⊢
        have he : e ≤ t.delay + 2 * M := by
          rcases Nat.eq_zero_or_pos t.delay with h0 | h0
          · have := hg.1 h0; omega
          · have := hg.2 h0; omega
        have := ih r (now + e) k hvr (by omega) (by omega)
        omega

theorem budget_eq (M : Nat) : ∀ (l : List (Nat × Bool)) (d k : Nat), k + 1 ≤ l.length + 1 →
    budget M d l (k + 1) = d + 2 * M * (k + 1) + ((l.take k).map (·.1)).sum := by
  intro l
  induction l with
  | nil => intro d k hk; simp at hk; subst hk; simp [budget]
  | cons x l ih =>
    intro d k hk
    cases k with
    | zero => simp [budget]
    | succ k =>
      simp only [budget, List.take_succ_cons, List.map_cons, List.sum_cons]
      rw [ih x.1 k (by simpa using hk)]
      simp only [Nat.mul_add, Nat.mul_one]
      omega

end ZxVerif.Tape
