/-
Helper lemmas for C08/C09 (model: ZxVerif/Model/Video.lean, spec: ZxVerif/Spec/Video.lean).
-/
import ZxVerif.Spec.Video
namespace ZxVerif.Video

/-! ## arrays -/

theorem getD_set {α} (a : Array α) (i j : Nat) (v d : α) :
    (a.setIfInBounds i v).getD j d = if i = j ∧ i < a.size then v else a.getD j d := by
  simp only [Array.getD_eq_getD_getElem?, Array.getElem?_setIfInBounds]
  by_cases h : i = j
  · subst h
    by_cases h2 : i < a.size <;> simp [h2]
  · simp [h]

theorem getD_replicate {α} (n i : Nat) (v d : α) :
    (Array.replicate n v).getD i d = if i < n then v else d := by
  simp only [Array.getD_eq_getD_getElem?, Array.getElem?_replicate]
  split <;> simp

/-! ## address tables (finite: the whole table is checked by kernel evaluation) -/

theorem decode_encode_fin : ∀ y : Fin 192, ∀ c : Fin 32,
    bitmapLineRel (BitVec.ofNat 16 (Spec.bitmapOffset (8 * c.val) y.val)) = y.val ∧
    bitmapColRel (BitVec.ofNat 16 (Spec.bitmapOffset (8 * c.val) y.val)) = c.val ∧
    Spec.bitmapOffset (8 * c.val) y.val < 0x1800 ∧
    (bitmapLineAddr y.val).toNat + c.val = 0x4000 + Spec.bitmapOffset (8 * c.val) y.val := by
  decide +kernel

theorem encode_decode_fin : ∀ h : Fin 24, ∀ l : Fin 256,
    Spec.bitmapOffset (8 * bitmapColRel (BitVec.ofNat 16 (h.val * 256 + l.val)))
        (bitmapLineRel (BitVec.ofNat 16 (h.val * 256 + l.val))) = h.val * 256 + l.val
    ∧ bitmapLineRel (BitVec.ofNat 16 (h.val * 256 + l.val)) < 192
    ∧ bitmapColRel (BitVec.ofNat 16 (h.val * 256 + l.val)) < 32 := by
  decide +kernel

theorem encode_decode (a : Nat) (ha : a < 0x1800) :
    Spec.bitmapOffset (8 * bitmapColRel (BitVec.ofNat 16 a)) (bitmapLineRel (BitVec.ofNat 16 a)) = a
    ∧ bitmapLineRel (BitVec.ofNat 16 a) < 192 ∧ bitmapColRel (BitVec.ofNat 16 a) < 32 := by
  have := encode_decode_fin ⟨a / 256, by omega⟩ ⟨a % 256, by omega⟩
  simp only at this
  rwa [show a / 256 * 256 + a % 256 = a by omega] at this

theorem decode_encode (y col : Nat) (hy : y < 192) (hc : col < 32) :
    bitmapLineRel (BitVec.ofNat 16 (Spec.bitmapOffset (8 * col) y)) = y ∧
    bitmapColRel (BitVec.ofNat 16 (Spec.bitmapOffset (8 * col) y)) = col ∧
    Spec.bitmapOffset (8 * col) y < 0x1800 ∧
    (bitmapLineAddr y).toNat + col = 0x4000 + Spec.bitmapOffset (8 * col) y :=
  decode_encode_fin ⟨y, hy⟩ ⟨col, hc⟩

/-- the display-byte offset depends on `x` only through its character column -/
theorem bitmapOffset_col (col px y : Nat) (hpx : px < 8) :
    Spec.bitmapOffset (col * 8 + px) y = Spec.bitmapOffset (8 * col) y := by
  unfold Spec.bitmapOffset
  congr 1
  simp only [Nat.shiftRight_eq_div_pow]
  omega

theorem attrOffset_col (col px y : Nat) (hpx : px < 8) :
    Spec.attrOffset (col * 8 + px) y = 0x1800 + (y / 8) * 32 + col := by
  unfold Spec.attrOffset
  simp only [Nat.shiftRight_eq_div_pow]
  omega

/-- two different display-file offsets land in different shadow cells -/
theorem shadowIdx_inj (a b : Nat) (ha : a < 0x1800) (hb : b < 0x1800)
    (h : bitmapLineRel (BitVec.ofNat 16 a) * 32 + bitmapColRel (BitVec.ofNat 16 a)
       = bitmapLineRel (BitVec.ofNat 16 b) * 32 + bitmapColRel (BitVec.ofNat 16 b)) : a = b := by
  obtain ⟨ea, _, ca⟩ := encode_decode a ha
  obtain ⟨eb, _, cb⟩ := encode_decode b hb
  have h1 : bitmapLineRel (BitVec.ofNat 16 a) = bitmapLineRel (BitVec.ofNat 16 b) := by omega
  have h2 : bitmapColRel (BitVec.ofNat 16 a) = bitmapColRel (BitVec.ofNat 16 b) := by omega
  rw [← ea, ← eb, h1, h2]

/-! ## colours -/

/-- `ZXAttribute` back to its byte -/
def Attr.toByte (a : Attr) : BitVec 8 :=
  a.ink.setWidth 8 ||| (a.paper.setWidth 8 <<< 3) ||| (if a.bright then 0x40#8 else 0#8) |||
    (if a.flash then 0x80#8 else 0#8)

theorem Attr.toByte_fromByte : ∀ d : BitVec 8, (Attr.fromByte d).toByte = d := by decide

theorem Attr.fromByte_toByte (a : Attr) : Attr.fromByte a.toByte = a := by
  obtain ⟨i, p, b, f⟩ := a
  revert i p b f
  decide

theorem pixel_bit : ∀ (b : BitVec 8) (px : Fin 8),
    (((b <<< px.val) &&& 0x80#8) != 0#8) = b.getLsbD (7 - px.val) := by decide

theorem attr_decode : ∀ (a : BitVec 8) (on phase : Bool),
    pxCode ((Attr.fromByte a).activeColor on phase) (Attr.fromByte a).bright =
      pxCode (if on ^^ (a.getLsbD 7 && phase) then (a &&& 7).setWidth 3 else ((a >>> 3) &&& 7).setWidth 3)
        (a.getLsbD 6) := by decide

theorem pxCode_inj : ∀ (c c' : BitVec 3) (b b' : Bool), pxCode c b = pxCode c' b' → c = c' ∧ b = b' := by
  decide

end ZxVerif.Video
