/-
C09 helper lemmas: beam position arithmetic of ZXBorder, closed form of `fill_to`, the frame
invariant of `set_border`.
-/
import ZxVerif.Lemmas.Video
namespace ZxVerif.Video

/-! ## beam position -/

/-- `next_border_pixel` with the machine constants as parameters, flattened -/
def nbpLit (o L t : Nat) : Nat × Nat × Bool :=
  if t < o then (0, 0, false)
  else if (t - o) % L + 1 ≥ 161 then (if (t - o) / L + 1 ≥ 240 then (0, 0, true) else ((t - o) / L + 1, 0, false))
  else (if (t - o) / L ≥ 240 then (0, 0, true) else ((t - o) / L, ((t - o) % L + 1) * 2, false))

/-- the spec's `beamPos`, flattened the same way -/
def bpLit (o L t : Nat) : Option Nat :=
  if t < o then some 0
  else if (t - o) % L + 1 ≥ 161 then (if (t - o) / L + 1 ≥ 240 then none else some (((t - o) / L + 1) * 320))
  else (if (t - o) / L ≥ 240 then none else some ((t - o) / L * 320 + ((t - o) % L + 1) * 2))

theorem borderOrigin_eq (m : Machine) : m.borderOrigin = Spec.borderOrigin m := by
  cases m <;> rfl

theorem nextBorderPixel_lit (m : Machine) (t : Nat) :
    nextBorderPixel m t = nbpLit m.borderOrigin m.clocksLine t := by
  unfold nextBorderPixel nbpLit
  simp only [pixelsPerClock, screenWidth, screenHeight, ge_iff_le]
  split
  · rfl
  · by_cases h : 320 ≤ ((t - m.borderOrigin) % m.clocksLine + 1) * 2 - 2
    · have h' : 161 ≤ (t - m.borderOrigin) % m.clocksLine + 1 := by omega
      simp only [h, h', if_true]
    · have h' : ¬ 161 ≤ (t - m.borderOrigin) % m.clocksLine + 1 := by omega
      simp only [h, h', if_false]

theorem beamPos_lit (m : Machine) (t : Nat) : Spec.beamPos m t = bpLit m.borderOrigin m.clocksLine t := by
  unfold Spec.beamPos bpLit
  rw [← borderOrigin_eq]
  simp only [ge_iff_le]
  split
  · rfl
  · by_cases h : 320 ≤ ((t - m.borderOrigin) % m.clocksLine + 1) * 2 - 2
    · have h' : 161 ≤ (t - m.borderOrigin) % m.clocksLine + 1 := by omega
      simp only [h, h', if_true, Nat.add_zero]
    · have h' : ¬ 161 ≤ (t - m.borderOrigin) % m.clocksLine + 1 := by omega
      simp only [h, h', if_false]

/-! the code's beam position is the spec's -/

theorem nbp_none (o L t : Nat) : bpLit o L t = none ↔ (nbpLit o L t).2.2 = true := by
  unfold bpLit nbpLit
  repeat' split
  all_goals simp

theorem nbp_some (o L t P : Nat) (h : bpLit o L t = some P) :
    (nbpLit o L t).2.2 = false ∧ P = (nbpLit o L t).1 * 320 + (nbpLit o L t).2.1 ∧
      (nbpLit o L t).1 < 240 ∧ (nbpLit o L t).2.1 ≤ 320 := by
  unfold bpLit at h
  unfold nbpLit
  by_cases h1 : t < o
  · rw [if_pos h1] at h ⊢
    injection h with h; subst h
    exact ⟨rfl, rfl, by decide, by decide⟩
  · rw [if_neg h1] at h ⊢
    by_cases h2 : (t - o) % L + 1 ≥ 161
    · rw [if_pos h2] at h ⊢
      by_cases h3 : (t - o) / L + 1 ≥ 240
      · rw [if_pos h3] at h; cases h
      · rw [if_neg h3] at h ⊢
        injection h with h; subst h
        exact ⟨rfl, by dsimp only <;> omega, by dsimp only <;> omega, by dsimp only <;> omega⟩
    · rw [if_neg h2] at h ⊢
      by_cases h3 : (t - o) / L ≥ 240
      · rw [if_pos h3] at h; cases h
      · rw [if_neg h3] at h ⊢
        injection h with h; subst h
        exact ⟨rfl, by dsimp only <;> omega, by dsimp only <;> omega, by dsimp only <;> omega⟩

theorem nbp_end (o L t : Nat) (h : (nbpLit o L t).2.2 = true) : (nbpLit o L t).1 = 0 ∧ (nbpLit o L t).2.1 = 0 := by
  unfold nbpLit at *
  by_cases h1 : t < o
  · rw [if_pos h1] at h; cases h
  · rw [if_neg h1] at h ⊢
    by_cases h2 : (t - o) % L + 1 ≥ 161
    · rw [if_pos h2] at h ⊢
      by_cases h3 : (t - o) / L + 1 ≥ 240
      · rw [if_pos h3]; exact ⟨rfl, rfl⟩
      · rw [if_neg h3] at h; cases h
    · rw [if_neg h2] at h ⊢
      by_cases h3 : (t - o) / L ≥ 240
      · rw [if_pos h3]; exact ⟨rfl, rfl⟩
      · rw [if_neg h3] at h; cases h

/-- the beam never moves back: positions are monotone in the frame clock, and once the beam has
left the last visible line it stays away -/
theorem bpLit_mono (m : Machine) (t t' : Nat) (h : t ≤ t') :
    (bpLit m.borderOrigin m.clocksLine t = none → bpLit m.borderOrigin m.clocksLine t' = none) ∧
    (∀ P P', bpLit m.borderOrigin m.clocksLine t = some P → bpLit m.borderOrigin m.clocksLine t' = some P' → P ≤ P') := by
  cases m <;> simp only [Machine.borderOrigin, Machine.clocksLine] <;> unfold bpLit <;> (repeat' split)
  all_goals refine ⟨fun h0 => ?_, fun P P' h1 h2 => ?_⟩
  all_goals first
    | rfl
    | (cases h0; done)
    | (cases h1; done)
    | (cases h2; done)
    | (injection h1 with h1; injection h2 with h2; subst h1; subst h2; omega)
    | (exfalso; omega)

/-! ## fill_to -/

theorem fillRange_size (col : BitVec 3) : ∀ (n p : Nat) (buf : Array Px), (fillRange buf col p n).size = buf.size := by
  intro n
  induction n with
  | zero => intro _ _; rfl
  | succ n ih => intro p buf; simp [fillRange, ih]

theorem fillRange_getD (col : BitVec 3) (d : Px) : ∀ (n p : Nat) (buf : Array Px) (q : Nat), p + n ≤ buf.size →
    (fillRange buf col p n).getD q d = if p ≤ q ∧ q < p + n then pxCode col false else buf.getD q d := by
  intro n
  induction n with
  | zero => intro p buf q _; simp [fillRange]; omega
  | succ n ih =>
    intro p buf q hsz
    simp only [fillRange]
    rw [ih _ _ _ (by simp; omega)]
    have hidx : p / screenWidth * screenWidth + p % screenWidth = p := by unfold screenWidth; omega
    simp only [getD_set, hidx]
    by_cases h1 : p + 1 ≤ q ∧ q < p + 1 + n
    · rw [if_pos h1, if_pos (by omega)]
    · rw [if_neg h1]
      by_cases h2 : p = q
      · rw [if_pos ⟨h2, by omega⟩, if_pos (by omega)]
      · rw [if_neg (by omega), if_neg (by omega)]

/-- linear position of `beam_last` -/
def Border.pos (b : Border) : Nat := b.beamLast.line * screenWidth + b.beamLast.pixel

/-- **`fill_to`**: the pixels from `beam_last` up to (not including) the target get `beam_last`'s
colour; nothing else changes — in particular no pixel before `beam_last`. -/
theorem fillTo_spec (b : Border) (line pixel : Nat) (hsz : b.buf.size = 76800)
    (hhi : line * screenWidth + pixel ≤ 76800) :
    (b.fillTo line pixel).buf.size = 76800 ∧
    (b.fillTo line pixel).beamLast = b.beamLast ∧ (b.fillTo line pixel).block = b.block ∧
    (b.fillTo line pixel).changed = b.changed ∧ (b.fillTo line pixel).machine = b.machine ∧
    ∀ q d, (b.fillTo line pixel).buf.getD q d =
      if b.pos ≤ q ∧ q < line * screenWidth + pixel then pxCode b.beamLast.color false else b.buf.getD q d := by
  unfold Border.fillTo
  refine ⟨by show (fillRange _ _ _ _).size = _; rw [fillRange_size]; exact hsz, rfl, rfl, rfl, rfl, ?_⟩
  intro q d
  show (fillRange _ _ _ _).getD q d = _
  unfold Border.pos
  generalize b.beamLast.line * screenWidth + b.beamLast.pixel = lo
  generalize line * screenWidth + pixel = hi at hhi
  by_cases hle : lo ≤ hi
  · rw [fillRange_getD _ _ _ _ _ _ (by rw [hsz]; omega)]
    by_cases h : lo ≤ q ∧ q < hi
    · rw [if_pos (by omega), if_pos h]
    · rw [if_neg (by omega), if_neg h]
  · have : hi - lo = 0 := by omega
    rw [this]
    simp only [fillRange]
    rw [if_neg (by omega)]

/-! ## what the border shows, as a total function -/

/-- colour of the last write of `ws` (time order) whose beam position is ≤ `q`, `c0` if none -/
def colAt (m : Machine) (c0 : BitVec 3) (ws : List (Nat × BitVec 3)) (q : Nat) : BitVec 3 :=
  ws.foldl (fun c w => match Spec.beamPos m w.1 with
    | some p => if p ≤ q then w.2 else c
    | none => c) c0

/-- colour of the last write, `c0` if there is none -/
def lastCol (c0 : BitVec 3) (ws : List (Nat × BitVec 3)) : BitVec 3 := ws.foldl (fun _ w => w.2) c0

theorem colourAt_some (m : Machine) (ws : List (Nat × BitVec 3)) (q : Nat) : ∀ c0,
    Spec.colourAt m (some c0) ws q = some (colAt m c0 ws q) := by
  unfold Spec.colourAt Spec.positions Spec.colourAtPos colAt
  induction ws with
  | nil => intro c0; rfl
  | cons w ws ih =>
    intro c0
    simp only [List.map_cons, List.foldl_cons]
    cases hp : Spec.beamPos m w.1 with
    | none => exact ih c0
    | some p =>
      simp only
      split
      · exact ih w.2
      · exact ih c0

theorem colAt_append (m : Machine) (c0 : BitVec 3) (ws : List (Nat × BitVec 3)) (w : Nat × BitVec 3) (q : Nat) :
    colAt m c0 (ws ++ [w]) q = match Spec.beamPos m w.1 with
      | some p => if p ≤ q then w.2 else colAt m c0 ws q
      | none => colAt m c0 ws q := by
  unfold colAt
  rw [List.foldl_append]
  rfl

theorem lastCol_append (c0 : BitVec 3) (ws : List (Nat × BitVec 3)) (w : Nat × BitVec 3) :
    lastCol c0 (ws ++ [w]) = w.2 := by
  unfold lastCol
  rw [List.foldl_append]
  rfl

/-- behind the position of every write so far the colour is that of the last write -/
theorem colAt_ge (m : Machine) (q : Nat) : ∀ (ws : List (Nat × BitVec 3)) (c0 : BitVec 3),
    (∀ w, w ∈ ws → ∃ P, Spec.beamPos m w.1 = some P ∧ P ≤ q) → colAt m c0 ws q = lastCol c0 ws := by
  intro ws
  induction ws with
  | nil => intro _ _; rfl
  | cons w ws ih =>
    intro c0 h
    obtain ⟨P, hP, hle⟩ := h w List.mem_cons_self
    have := ih w.2 (fun w' hw' => h w' (List.mem_cons_of_mem _ hw'))
    unfold colAt lastCol at *
    simp only [List.foldl_cons, hP, if_pos hle]
    exact this

/-! ## the frame invariant of `set_border` -/

/-- frame start: nothing painted yet in this frame, the beam at (0, 0) carrying colour `c0` -/
structure FrameStart (m : Machine) (b : Border) (c0 : BitVec 3) : Prop where
  size : b.buf.size = 76800
  mach : b.machine = m
  block : b.block = false
  line : b.beamLast.line = 0
  pixel : b.beamLast.pixel = 0
  color : b.beamLast.color = c0

/-- `done` = the writes of this frame so far (time order) -/
structure BInv (m : Machine) (c0 : BitVec 3) (done : List (Nat × BitVec 3)) (b : Border) : Prop where
  size : b.buf.size = 76800
  mach : b.machine = m
  cur : b.beamLast.color = lastCol c0 done
  changed : done ≠ [] → b.changed = true
  pixelLe : b.beamLast.pixel ≤ 320
  posLe : b.pos ≤ 76800
  /-- beam not yet past the last line: everything before `beam_last` is final -/
  open_ : b.block = false →
    (∀ q d, q < b.pos → b.buf.getD q d = pxCode (colAt m c0 done q) false) ∧
    (∀ w, w ∈ done → ∃ P, Spec.beamPos m w.1 = some P ∧ P ≤ b.pos) ∧
    (b.pos = 0 ∨ ∃ w, w ∈ done ∧ Spec.beamPos m w.1 = some b.pos)
  /-- beam past the last line: the whole buffer is final -/
  closed : b.block = true →
    (∀ q d, q < 76800 → b.buf.getD q d = pxCode (colAt m c0 done q) false) ∧ b.pos = 0 ∧
    (∃ w, w ∈ done ∧ Spec.beamPos m w.1 = none)

theorem FrameStart.inv {m : Machine} {b : Border} {c0 : BitVec 3} (h : FrameStart m b c0) : BInv m c0 [] b := by
  have hpos : b.pos = 0 := by unfold Border.pos; rw [h.line, h.pixel]; rfl
  refine ⟨h.size, h.mach, h.color, fun hh => absurd rfl hh, by rw [h.pixel]; omega, by omega, fun _ => ?_, fun hb => ?_⟩
  · exact ⟨fun q d hq => by omega, fun w hw => (nomatch hw), Or.inl hpos⟩
  · rw [h.block] at hb; cases hb

theorem setBorder_open_some (b : Border) (t : Nat) (col : BitVec 3) (l p : Nat) (hb : b.block = false)
    (hn : nextBorderPixel b.machine t = (l, p, false)) :
    b.setBorder t col = { ({ b with changed := true } : Border).fillTo l p with beamLast := ⟨l, p, col⟩ } := by
  unfold Border.setBorder
  simp only [hn, hb, Bool.not_false, if_true, Bool.false_eq_true, if_false]

theorem setBorder_open_end (b : Border) (t : Nat) (col : BitVec 3) (hb : b.block = false)
    (hn : nextBorderPixel b.machine t = (0, 0, true)) :
    b.setBorder t col =
      { ({ ({ b with changed := true } : Border).fillTo (screenHeight - 1) screenWidth with block := true } : Border).fillTo 0 0
        with beamLast := ⟨0, 0, col⟩ } := by
  unfold Border.setBorder
  simp only [hn, hb, Bool.not_false, if_true]

theorem setBorder_closed (b : Border) (t : Nat) (col : BitVec 3) (l p : Nat) (e : Bool) (hb : b.block = true)
    (hn : nextBorderPixel b.machine t = (l, p, e)) :
    b.setBorder t col = { b with changed := true, beamLast := ⟨l, p, col⟩ } := by
  unfold Border.setBorder
  simp only [hn, hb, Bool.not_true, Bool.false_eq_true, if_false]

theorem prod3_eta (x : Nat × Nat × Bool) : x = (x.1, x.2.1, x.2.2) := rfl

/-- **One port write keeps the frame invariant** (clocks non-decreasing within the frame). -/
theorem setBorder_inv (m : Machine) (c0 : BitVec 3) (done : List (Nat × BitVec 3)) (b : Border)
    (inv : BInv m c0 done b) (t : Nat) (col : BitVec 3) (hsorted : ∀ w, w ∈ done → w.1 ≤ t) :
    BInv m c0 (done ++ [(t, col)]) (b.setBorder t col) := by
  have hN : nextBorderPixel b.machine t = nbpLit m.borderOrigin m.clocksLine t := by
    rw [inv.mach, nextBorderPixel_lit]
  have hB : ∀ t', Spec.beamPos m t' = bpLit m.borderOrigin m.clocksLine t' := beamPos_lit m
  have hw : screenWidth = 320 := rfl
  have hcolAppend : ∀ q, colAt m c0 (done ++ [(t, col)]) q =
      match bpLit m.borderOrigin m.clocksLine t with
      | some p => if p ≤ q then col else colAt m c0 done q
      | none => colAt m c0 done q := by
    intro q
    rw [colAt_append]
    simp only [hB]
  cases hblock : b.block with
  | false =>
    obtain ⟨o1, o2, o3⟩ := inv.open_ hblock
    cases hp : Spec.beamPos m t with
    | some P' =>
      rw [hB] at hp
      obtain ⟨n1, n2, n3, n4⟩ := nbp_some _ _ _ _ hp
      generalize hNv : nbpLit m.borderOrigin m.clocksLine t = N at *
      have hN' : nextBorderPixel b.machine t = (N.1, N.2.1, false) := by rw [hN, prod3_eta N, n1]
      rw [setBorder_open_some b t col N.1 N.2.1 hblock hN']
      have hhi : N.1 * screenWidth + N.2.1 ≤ 76800 := by rw [hw]; omega
      obtain ⟨f1, f2, f3, f4, f5, f6⟩ := fillTo_spec ({ b with changed := true } : Border) N.1 N.2.1 inv.size hhi
      have hposle : b.pos ≤ P' := by
        rcases o3 with h0 | ⟨w0, hw0, hw0p⟩
        · omega
        · rw [hB] at hw0p
          exact (bpLit_mono m w0.1 t (hsorted w0 hw0)).2 _ _ hw0p hp
      have hpos' : P' = N.1 * screenWidth + N.2.1 := by rw [hw]; exact n2
      refine ⟨f1, f5.trans inv.mach, by rw [lastCol_append], fun _ => f4, n4, by show N.1 * screenWidth + N.2.1 ≤ _; exact hhi,
        fun _ => ⟨?_, ?_, ?_⟩, fun hb => ?_⟩
      · intro q d hq
        have hq' : q < P' := by rw [hpos']; exact hq
        have hr : colAt m c0 (done ++ [(t, col)]) q = colAt m c0 done q := by
          rw [hcolAppend q, hp]
          dsimp only
          rw [if_neg (by omega)]
        show (({ b with changed := true } : Border).fillTo N.1 N.2.1).buf.getD q d = _
        rw [f6, hr]
        by_cases hlo : b.pos ≤ q
        · rw [if_pos ⟨hlo, by rw [← hpos']; exact hq'⟩]
          show pxCode b.beamLast.color false = _
          rw [inv.cur, colAt_ge m q done c0 (fun w hw' => by
            obtain ⟨P, hP, hle⟩ := o2 w hw'
            exact ⟨P, hP, by omega⟩)]
        · rw [if_neg (fun h => hlo h.1)]
          exact o1 q d (by omega)
      · intro w hw'
        rcases List.mem_append.1 hw' with h1 | h1
        · obtain ⟨P, hP, hle⟩ := o2 w h1
          exact ⟨P, hP, by show P ≤ N.1 * screenWidth + N.2.1; rw [← hpos']; omega⟩
        · simp only [List.mem_singleton] at h1
          subst h1
          exact ⟨P', by rw [hB]; exact hp, by show P' ≤ N.1 * screenWidth + N.2.1; rw [← hpos']; exact Nat.le_refl _⟩
      · refine Or.inr ⟨(t, col), by simp, ?_⟩
        show Spec.beamPos m t = some (N.1 * screenWidth + N.2.1)
        rw [hB, ← hpos']; exact hp
      · have : ((({ b with changed := true } : Border).fillTo N.1 N.2.1)).block = false := f3.trans hblock
        rw [this] at hb; cases hb
    | none =>
      rw [hB] at hp
      have n1 := (nbp_none _ _ _).1 hp
      obtain ⟨n2, n3⟩ := nbp_end _ _ _ n1
      generalize hNv : nbpLit m.borderOrigin m.clocksLine t = N at *
      have hN' : nextBorderPixel b.machine t = (0, 0, true) := by rw [hN, prod3_eta N, n1, n2, n3]
      rw [setBorder_open_end b t col hblock hN']
      obtain ⟨f1, f2, f3, f4, f5, f6⟩ := fillTo_spec ({ b with changed := true } : Border) (screenHeight - 1) screenWidth
        inv.size (by rw [hw]; decide)
      generalize hb2 : ({ b with changed := true } : Border).fillTo (screenHeight - 1) screenWidth = b2 at *
      obtain ⟨g1, g2, g3, g4, g5, g6⟩ := fillTo_spec ({ b2 with block := true } : Border) 0 0 f1 (by rw [hw]; omega)
      refine ⟨g1, (g5.trans f5).trans inv.mach, by rw [lastCol_append], fun _ => g4.trans f4, Nat.zero_le _,
        by show 0 * screenWidth + 0 ≤ 76800; rw [hw]; omega,
        fun hb => ?_, fun _ => ⟨?_, by show 0 * screenWidth + 0 = 0; omega, ⟨(t, col), by simp, by rw [hB]; exact hp⟩⟩⟩
      · have : (({ b2 with block := true } : Border).fillTo 0 0).block = true := g3
        rw [this] at hb; cases hb
      · intro q d hq
        show (({ b2 with block := true } : Border).fillTo 0 0).buf.getD q d = _
        rw [g6, if_neg (by rw [hw]; omega)]
        show b2.buf.getD q d = _
        have hr : colAt m c0 (done ++ [(t, col)]) q = colAt m c0 done q := by
          rw [hcolAppend q, hp]
        rw [f6, hr]
        have hend : (screenHeight - 1) * screenWidth + screenWidth = 76800 := by rw [hw]; rfl
        rw [hend]
        by_cases hlo : b.pos ≤ q
        · rw [if_pos ⟨hlo, hq⟩]
          show pxCode b.beamLast.color false = _
          rw [inv.cur, colAt_ge m q done c0 (fun w hw' => by
            obtain ⟨P, hP, hle⟩ := o2 w hw'
            exact ⟨P, hP, by omega⟩)]
        · rw [if_neg (fun h => hlo h.1)]
          exact o1 q d (by omega)
  | true =>
    obtain ⟨c1, c2, ⟨w0, hw0, hw0p⟩⟩ := inv.closed hblock
    have hp : bpLit m.borderOrigin m.clocksLine t = none := by
      rw [hB] at hw0p
      exact (bpLit_mono m w0.1 t (hsorted w0 hw0)).1 hw0p
    have n1 := (nbp_none _ _ _).1 hp
    obtain ⟨n2, n3⟩ := nbp_end _ _ _ n1
    generalize hNv : nbpLit m.borderOrigin m.clocksLine t = N at *
    have hN' : nextBorderPixel b.machine t = (0, 0, true) := by rw [hN, prod3_eta N, n1, n2, n3]
    rw [setBorder_closed b t col 0 0 true hblock hN']
    refine ⟨inv.size, inv.mach, by rw [lastCol_append], fun _ => rfl, Nat.zero_le _,
      by show 0 * screenWidth + 0 ≤ 76800; rw [hw]; omega, fun hb => ?_,
      fun _ => ⟨?_, by show 0 * screenWidth + 0 = 0; omega, ⟨(t, col), by simp, by rw [hB]; exact hp⟩⟩⟩
    · have : b.block = false := hb
      rw [hblock] at this; cases this
    · intro q d hq
      show b.buf.getD q d = _
      have hr : colAt m c0 (done ++ [(t, col)]) q = colAt m c0 done q := by
        rw [hcolAppend q, hp]
      rw [hr]
      exact c1 q d hq

/-- clocks of a write list do not decrease -/
def Sorted : List (Nat × BitVec 3) → Prop
  | [] => True
  | w :: r => (∀ w', w' ∈ r → w.1 ≤ w'.1) ∧ Sorted r

/-- all writes of a frame, in order -/
theorem setBorders_inv (m : Machine) (c0 : BitVec 3) : ∀ (rest done : List (Nat × BitVec 3)) (b : Border),
    BInv m c0 done b → (∀ w, w ∈ done → ∀ w', w' ∈ rest → w.1 ≤ w'.1) → Sorted rest →
    BInv m c0 (done ++ rest) (rest.foldl (fun b w => b.setBorder w.1 w.2) b) := by
  intro rest
  induction rest with
  | nil => intro done b inv _ _; simpa using inv
  | cons w r ih =>
    intro done b inv hcross hs
    have step := setBorder_inv m c0 done b inv w.1 w.2 (fun w0 hw0 => hcross w0 hw0 w List.mem_cons_self)
    have := ih (done ++ [w]) (b.setBorder w.1 w.2) step (by
      intro w0 hw0 w' hw'
      rcases List.mem_append.1 hw0 with h | h
      · exact hcross w0 h w' (List.mem_cons_of_mem _ hw')
      · simp only [List.mem_singleton] at h
        subst h
        exact hs.1 w' hw') hs.2
    simpa [List.append_assoc] using this

/-- first statement of `new_frame` -/
def Border.newFrame1 (b : Border) : Border :=
  if !b.changed then { b with beamLast := { b.beamLast with line := 0, pixel := 0 } } else b

/-- the rest of `new_frame` -/
def Border.newFrame2 (b : Border) : Border :=
  let b := if !b.block then b.fillTo (screenHeight - 1) screenWidth else b
  { b with beamLast := { b.beamLast with line := 0, pixel := 0 }, changed := false, block := false }

theorem newFrame_split (b : Border) : b.newFrame = b.newFrame1.newFrame2 := rfl

/-- `new_frame` completes the frame: every pixel final, and the next frame starts clean -/
theorem newFrame_inv (m : Machine) (c0 : BitVec 3) (ws : List (Nat × BitVec 3)) (b : Border) (inv : BInv m c0 ws b) :
    (∀ q d, q < 76800 → b.newFrame.buf.getD q d = pxCode (colAt m c0 ws q) false) ∧
    FrameStart m b.newFrame (lastCol c0 ws) := by
  have hw : screenWidth = 320 := rfl
  have hend : (screenHeight - 1) * screenWidth + screenWidth = 76800 := by rw [hw]; rfl
  rw [newFrame_split]
  -- the first statement changes nothing observable: without a write the beam is at (0,0) anyway
  have p1 : b.newFrame1.buf = b.buf ∧ b.newFrame1.pos = b.pos ∧ b.newFrame1.beamLast.color = b.beamLast.color ∧
      b.newFrame1.block = b.block ∧ b.newFrame1.machine = b.machine := by
    unfold Border.newFrame1
    cases hc : b.changed with
    | true => exact ⟨rfl, rfl, rfl, rfl, rfl⟩
    | false =>
      rw [if_pos (by simp)]
      refine ⟨rfl, ?_, rfl, rfl, rfl⟩
      cases hblock : b.block with
      | true =>
        obtain ⟨_, _, ⟨w, hw', _⟩⟩ := inv.closed hblock
        have := inv.changed (by intro h; rw [h] at hw'; cases hw')
        rw [hc] at this; cases this
      | false =>
        obtain ⟨_, _, o3⟩ := inv.open_ hblock
        have hnil : ws = [] := by
          cases ws with
          | nil => rfl
          | cons w r => have := inv.changed (by simp); rw [hc] at this; cases this
        subst hnil
        rcases o3 with h0 | ⟨w, hw', _⟩
        · rw [h0]
          show 0 * screenWidth + 0 = 0
          omega
        · cases hw'
  obtain ⟨q1, q2, q3, q4, q5⟩ := p1
  generalize b.newFrame1 = b1 at *
  unfold Border.newFrame2
  cases hblock : b.block with
  | true =>
    obtain ⟨c1, _, _⟩ := inv.closed hblock
    have hb1 : b1.block = true := q4.trans hblock
    simp only [hb1, Bool.not_true, Bool.false_eq_true, if_false]
    refine ⟨fun q d hq => ?_, ⟨by rw [q1]; exact inv.size, q5.trans inv.mach, rfl, rfl, rfl, q3.trans inv.cur⟩⟩
    show b1.buf.getD q d = _
    rw [q1]
    exact c1 q d hq
  | false =>
    obtain ⟨o1, o2, o3⟩ := inv.open_ hblock
    have hb1 : b1.block = false := q4.trans hblock
    simp only [hb1, Bool.not_false, if_true]
    obtain ⟨f1, f2, _, _, f5, f6⟩ := fillTo_spec b1 (screenHeight - 1) screenWidth (by rw [q1]; exact inv.size)
      (by rw [hend]; exact Nat.le_refl _)
    refine ⟨?_, ⟨f1, (f5.trans q5).trans inv.mach, rfl, rfl, rfl, ?_⟩⟩
    · intro q d hq
      show (b1.fillTo (screenHeight - 1) screenWidth).buf.getD q d = _
      rw [f6, hend, q2, q1, q3]
      by_cases hlo : b.pos ≤ q
      · rw [if_pos ⟨hlo, hq⟩, inv.cur, colAt_ge m q ws c0 (fun w hw' => by
          obtain ⟨P, hP, hle⟩ := o2 w hw'
          exact ⟨P, hP, by omega⟩)]
      · rw [if_neg (fun h => hlo h.1)]
        exact o1 q d (by omega)
    · show (b1.fillTo (screenHeight - 1) screenWidth).beamLast.color = _
      rw [f2, q3]
      exact inv.cur

/-- `n` frames without any port write -/
def Border.idleFrames : Nat → Border → Border
  | 0, b => b
  | n + 1, b => Border.idleFrames n b.newFrame

end ZxVerif.Video
