/-
The video side of the controller as a `Z80.Bus`: running `Z80.emulate` on `VBus` drives exactly the
`Video.Ctl` operations the C08/C09 theorems quantify over (Model/Video.lean), so the closure
theorem (Lemmas/Z80Closed.lean) turns their invariants into statements about *every program*.

  rustzx-core/src/zx/controller.rs   impl Z80Bus for ZXController (video-relevant part)

`VBus` = the controller model `ctl : Video.Ctl` plus
  * an input oracle: the n-th `read_io` of the run returns `portIn n` (keyboard, joystick, tape
    EAR, AY register, floating bus … — *any* sequence of values; the theorems hold for all of them,
    so no behaviour of the real input devices is excluded); `read_interrupt` returns 0xFF and
    `nmi_active` is false as in the machine; `int_active` is the machine's 32-clock window at the
    start of the frame; `read_internal` reads the model's memory;
  * ghost fields that only *record* what happened (nothing reads them back into `ctl`):
    the state after the last event that changed the displayed screen bytes in this frame
    (`anchor`), the ULA port writes of this frame with the frame clock at which `set_border` was
    called, and the same for the frame completed last.
Every primitive's effect on `ctl` is the corresponding `Video.Ctl` operation (`ctl_*` lemmas below,
all by unfolding).
-/
import ZxVerif.Model.Z80.Exec
import ZxVerif.Lemmas.VideoFrame
import ZxVerif.Lemmas.VideoReport
namespace ZxVerif.Video

/-- `int_active`: `frame_clocks % clocks_frame < interrupt_length` (32 on both machines) -/
def Ctl.intActive (c : Ctl) : Bool := c.frameClocks % c.machine.clocksFrame < 32

/-- the CPU store at `a` goes to one of the 6912 bytes of the bank being displayed -/
def Ctl.hitsDisplayed (c : Ctl) (a : BitVec 16) : Bool :=
  match c.mem.getPage a with
  | .ram bank => localBank c.machine bank == some c.screen.active && decide (a.toNat % pageSize < 0x1B00)
  | .rom _ => false

/-- the device part of `write_io` (between the two contention phases) -/
def Ctl.ioDevice (c : Ctl) (port : BitVec 16) (data : BitVec 8) : Ctl :=
  if port &&& 0xC002 = 0xC000 then c
  else if port &&& 0xC002 = 0x8000 then c
  else if port &&& 0x0001 = 0 then c.setBorderColor c.frameClocks ((data &&& 0x07).setWidth 3)
  else if port &&& 0x8002 = 0 ∧ c.machine = .k128 then c.write7ffd data
  else c

theorem Ctl.writeIo_eq (c : Ctl) (p : BitVec 16) (v : BitVec 8) :
    c.writeIo p v = (((c.ioContentionFirst p).ioDevice p v).ioContentionLast p).waitInternal 1 := rfl

structure VBus where
  ctl : Ctl
  /-- input oracle: value of the n-th port read -/
  portIn : Nat → BitVec 8 := fun _ => 0xFF
  /-- number of port reads so far -/
  reads : Nat := 0
  /-- ghost: the controller right after the last *touching* event of the frame in progress (a CPU
  store into the displayed 6912 bytes, a port write that switched the displayed bank), or right
  after the `wait_internal` that started the frame if there was none -/
  anchor : Ctl
  /-- ghost: number of touching events in the frame in progress -/
  touches : Nat := 0
  /-- ghost: `anchor` / `touches` of the frame completed last, as they were when it ended -/
  doneAnchor : Ctl
  doneTouches : Nat := 0
  /-- ghost: the controller right after the `wait_internal` that started the frame in progress -/
  frameStart : Ctl
  /-- ghost: colour the beam carried when the frame in progress started -/
  frameCol : BitVec 3 := 7
  /-- ghost: the ULA port writes of the frame in progress, in time order, as
  (frame clock passed to `set_border`, colour) -/
  ulaWrites : List (Nat × BitVec 3) := []
  /-- ghost: `frameCol` / `ulaWrites` of the frame completed last -/
  doneCol : BitVec 3 := 7
  doneWrites : List (Nat × BitVec 3) := []
  /-- ghost: every data byte written to a port routed to the ULA, in time order -/
  ulaHist : List (BitVec 8) := []

/-- power-on -/
def VBus.new (m : Machine) (inp : Nat → BitVec 8) : VBus :=
  { ctl := Ctl.new m, portIn := inp, anchor := Ctl.new m, doneAnchor := Ctl.new m, frameStart := Ctl.new m }

/-- the controller has moved to `c'` by letting time pass; if that ended a frame the ghost records
are rotated -/
def VBus.pass (z : VBus) (c' : Ctl) : VBus :=
  if c'.passedFrames = z.ctl.passedFrames then { z with ctl := c' }
  else
    { z with
      ctl := c', anchor := c', touches := 0, doneAnchor := z.anchor, doneTouches := z.touches
      frameStart := c', frameCol := lastCol z.frameCol z.ulaWrites, ulaWrites := []
      doneCol := z.frameCol, doneWrites := z.ulaWrites }

/-- a touching event has just happened -/
def VBus.touch (z : VBus) : VBus := { z with anchor := z.ctl, touches := z.touches + 1 }

/-- `wait_internal` -/
def VBus.wait (z : VBus) (clk : Nat) : VBus := z.pass (z.ctl.waitInternal clk)

/-- `do_contention` -/
def VBus.doContention (z : VBus) : VBus := z.wait (z.ctl.machine.contentionClocks z.ctl.frameClocks)

/-- `do_contention_and_wait` -/
def VBus.doContentionAndWait (z : VBus) (w : Nat) : VBus :=
  z.wait (z.ctl.machine.contentionClocks z.ctl.frameClocks + w)

/-- `wait_mreq` -/
def VBus.waitMreq (z : VBus) (a : BitVec 16) (clk : Nat) : VBus :=
  (if z.ctl.addrIsContended a then z.doContention else z).wait clk

/-- `io_contention_first` -/
def VBus.ioFirst (z : VBus) (p : BitVec 16) : VBus :=
  (if z.ctl.addrIsContended p then z.doContention else z).wait 1

/-- `io_contention_last` -/
def VBus.ioLast (z : VBus) (p : BitVec 16) : VBus :=
  if p &&& 1 = 0 then z.doContentionAndWait 2
  else if z.ctl.addrIsContended p then ((z.doContentionAndWait 1).doContentionAndWait 1).doContention
  else z.wait 2

/-- `write_internal`: the same cache update path as every CPU write of the C08 model -/
def VBus.store (z : VBus) (a : BitVec 16) (v : BitVec 8) : VBus :=
  let z' := { z with ctl := z.ctl.writeInternal a v }
  if z.ctl.hitsDisplayed a then z'.touch else z'

/-- the device part of `write_io`; ghost: a ULA write is logged with the frame clock `set_border`
is called with; a latch write that changes the displayed bank is a touching event -/
def VBus.device (z : VBus) (p : BitVec 16) (v : BitVec 8) : VBus :=
  let z1 : VBus :=
    if ulaRouted p then
      { z with ulaWrites := z.ulaWrites ++ [(z.ctl.frameClocks, (v &&& 0x07).setWidth 3)], ulaHist := z.ulaHist ++ [v] }
    else z
  let z2 := { z1 with ctl := z.ctl.ioDevice p v }
  if (z.ctl.ioDevice p v).screen.active = z.ctl.screen.active then z2 else z2.touch

/-- `write_io` -/
def VBus.writeIo (z : VBus) (p : BitVec 16) (v : BitVec 8) : VBus :=
  (((z.ioFirst p).device p v).ioLast p).wait 1

/-- `read_io`: the same clocks as `write_io`; the value comes from the oracle -/
def VBus.readIo (z : VBus) (p : BitVec 16) : BitVec 8 × VBus :=
  (z.portIn z.reads, { ((z.ioFirst p).ioLast p).wait 1 with reads := z.reads + 1 })

instance : Z80.Bus VBus where
  waitMreq a clk z := z.waitMreq a clk
  waitNoMreq a clk z := z.waitMreq a clk
  waitInternal clk z := z.wait clk
  readInternal a z := (z.ctl.mem.read a, z)
  writeInternal a v z := z.store a v
  readIo p z := z.readIo p
  writeIo p v z := z.writeIo p v
  readInterrupt z := (0xFF, z)
  reti z := z
  halt _ z := z
  intActive z := z.ctl.intActive
  nmiActive _ := false
  pcCallback _ z := z

/-! ## the controller component of every primitive is the `Video.Ctl` operation -/

theorem VBus.ctl_pass (z : VBus) (c' : Ctl) : (z.pass c').ctl = c' := by
  unfold VBus.pass; split <;> rfl

theorem VBus.ctl_touch (z : VBus) : z.touch.ctl = z.ctl := rfl

theorem VBus.ctl_wait (z : VBus) (clk : Nat) : (z.wait clk).ctl = z.ctl.waitInternal clk := ctl_pass _ _

theorem VBus.ctl_doContention (z : VBus) : z.doContention.ctl = z.ctl.doContention := ctl_pass _ _

theorem VBus.ctl_doContentionAndWait (z : VBus) (w : Nat) :
    (z.doContentionAndWait w).ctl = z.ctl.doContentionAndWait w := ctl_pass _ _

theorem VBus.ctl_waitMreq (z : VBus) (a : BitVec 16) (clk : Nat) : (z.waitMreq a clk).ctl = z.ctl.waitMreq a clk := by
  unfold VBus.waitMreq Ctl.waitMreq
  rw [ctl_wait]
  split <;> simp only [ctl_doContention]

theorem VBus.ctl_ioFirst (z : VBus) (p : BitVec 16) : (z.ioFirst p).ctl = z.ctl.ioContentionFirst p := by
  unfold VBus.ioFirst Ctl.ioContentionFirst
  rw [ctl_wait]
  split <;> simp only [ctl_doContention]

theorem VBus.ctl_ioLast (z : VBus) (p : BitVec 16) : (z.ioLast p).ctl = z.ctl.ioContentionLast p := by
  unfold VBus.ioLast Ctl.ioContentionLast
  split
  · exact ctl_doContentionAndWait _ _
  · split
    · rw [ctl_doContention, ctl_doContentionAndWait, ctl_doContentionAndWait]
    · exact ctl_wait _ _

theorem VBus.ctl_store (z : VBus) (a : BitVec 16) (v : BitVec 8) : (z.store a v).ctl = z.ctl.writeInternal a v := by
  unfold VBus.store; simp only; split <;> rfl

theorem VBus.ctl_device (z : VBus) (p : BitVec 16) (v : BitVec 8) : (z.device p v).ctl = z.ctl.ioDevice p v := by
  unfold VBus.device; simp only; split <;> rfl

/-- `Bus.writeIo` on `VBus` is `Video.Ctl.writeIo` -/
theorem VBus.ctl_writeIo (z : VBus) (p : BitVec 16) (v : BitVec 8) : (z.writeIo p v).ctl = z.ctl.writeIo p v := by
  unfold VBus.writeIo
  rw [ctl_wait, ctl_ioLast, ctl_device, ctl_ioFirst, Ctl.writeIo_eq]

theorem VBus.ctl_readIo (z : VBus) (p : BitVec 16) :
    (z.readIo p).2.ctl = ((z.ctl.ioContentionFirst p).ioContentionLast p).waitInternal 1 := by
  unfold VBus.readIo
  show (((z.ioFirst p).ioLast p).wait 1).ctl = _
  rw [ctl_wait, ctl_ioLast, ctl_ioFirst]

/-- the memory write cycle of the CPU (`Z80Bus::write`) on `VBus` is `Video.Ctl.write`, the
`cpuWrite` operation of the C08 operation lists -/
theorem VBus.ctl_write (z : VBus) (a : BitVec 16) (v : BitVec 8) (clk : Nat) :
    (Z80.write a v clk z).ctl = z.ctl.write a v clk := by
  show ((z.waitMreq a clk).store a v).ctl = _
  rw [ctl_store, ctl_waitMreq]
  rfl

/-! ## what the ghost fields record (by definition) -/

/-- a store that hits the displayed bytes becomes the anchor, any other store leaves it alone -/
theorem VBus.anchor_store (z : VBus) (a : BitVec 16) (v : BitVec 8) :
    (z.store a v).anchor = (if z.ctl.hitsDisplayed a then z.ctl.writeInternal a v else z.anchor) ∧
    (z.store a v).touches = (if z.ctl.hitsDisplayed a then z.touches + 1 else z.touches) := by
  unfold VBus.store; simp only; split <;> exact ⟨rfl, rfl⟩

/-- a write to a ULA-routed port is logged with the clock and colour `set_border` receives -/
theorem VBus.device_log (z : VBus) (p : BitVec 16) (v : BitVec 8) :
    (z.device p v).ulaWrites =
      (if ulaRouted p then z.ulaWrites ++ [(z.ctl.frameClocks, (v &&& 0x07).setWidth 3)] else z.ulaWrites) ∧
    (z.device p v).ulaHist = (if ulaRouted p then z.ulaHist ++ [v] else z.ulaHist) ∧
    (ulaRouted p → (z.device p v).ctl.border = z.ctl.border.setBorder z.ctl.frameClocks ((v &&& 0x07).setWidth 3)) := by
  unfold VBus.device
  simp only
  refine ⟨?_, ?_, ?_⟩
  · split <;> split <;> rfl
  · split <;> split <;> rfl
  · intro h
    have : (z.ctl.ioDevice p v).border = z.ctl.border.setBorder z.ctl.frameClocks ((v &&& 0x07).setWidth 3) := by
      unfold Ctl.ioDevice
      rw [if_neg h.1, if_neg h.2.1, if_pos h.2.2]
      rfl
    split <;> exact this

/-! ## bounds -/

theorem contentionClocks_le (m : Machine) (t : Nat) : m.contentionClocks t ≤ 6 := by
  unfold Machine.contentionClocks
  split
  · omega
  · simp only
    split
    · omega
    · unfold contentionPattern
      split <;> omega

end ZxVerif.Video
