/-
C09 on the bus: the border invariants of the controller model are kept by every primitive bus
operation of `VBus` (Lemmas/VideoBus.lean) — the input of the closure theorem in Props/C09Sys.lean.
-/
import ZxVerif.Lemmas.VideoBusScreen
namespace ZxVerif.Video

theorem sorted_append (ws : List (Nat × BitVec 3)) (w : Nat × BitVec 3) (hs : Sorted ws)
    (hle : ∀ w', w' ∈ ws → w'.1 ≤ w.1) : Sorted (ws ++ [w]) := by
  induction ws with
  | nil => exact ⟨fun _ h => (nomatch h), trivial⟩
  | cons a r ih =>
    refine ⟨?_, ih hs.2 (fun w' hw' => hle w' (List.mem_cons_of_mem _ hw'))⟩
    intro w' hw'
    rcases List.mem_append.1 hw' with h | h
    · exact hs.1 w' h
    · simp only [List.mem_singleton] at h
      subst h
      exact hle a List.mem_cons_self

theorem reported_append (h : List (BitVec 8)) (v : BitVec 8) :
    Spec.reportedColour (h ++ [v]) = some ((v &&& 7).setWidth 3) := by
  unfold Spec.reportedColour
  simp

/-- what the frame completed last left behind, seen at the start of the frame in progress -/
structure DoneBorder (m : Machine) (z : VBus) : Prop where
  /-- the buffer handed to the host: every pixel shows the last write of that frame whose beam
  position is at or before it -/
  pixels : ∀ q d, q < 76800 → z.frameStart.border.buf.getD q d = pxCode (colAt m z.doneCol z.doneWrites q) false
  /-- … and the frame in progress started clean, carrying the last colour -/
  start : FrameStart m z.frameStart.border z.frameCol
  sorted : Sorted z.doneWrites
  carry : z.frameCol = lastCol z.doneCol z.doneWrites

/-- the C09 invariants of a bus state -/
structure BGood (m : Machine) (z : VBus) : Prop where
  /-- the frame invariant of `set_border` for the ULA writes of the frame in progress -/
  inv : BInv m z.frameCol z.ulaWrites z.ctl.border
  /-- none of them lies in the future of the frame clock … -/
  le : ∀ w, w ∈ z.ulaWrites → w.1 ≤ z.ctl.frameClocks
  /-- … and their clocks never decrease -/
  sorted : Sorted z.ulaWrites
  colour : z.ctl.borderColor = (Spec.reportedColour z.ulaHist).getD 0
  done : 1 ≤ z.ctl.passedFrames → DoneBorder m z

theorem BGood.new (m : Machine) (inp : Nat → BitVec 8) : BGood m (VBus.new m inp) := by
  have fs : FrameStart m (Border.new m) 7 := ⟨by simp [Border.new], rfl, rfl, rfl, rfl, rfl⟩
  exact ⟨fs.inv, fun _ h => (nomatch h), trivial, rfl, fun h => absurd h (Nat.not_succ_le_zero 0)⟩

/-- the operations that leave border, reported colour and the frame clock alone -/
theorem writeInternal_border (c : Ctl) (a : BitVec 16) (v : BitVec 8) :
    (c.writeInternal a v).border = c.border ∧ (c.writeInternal a v).frameClocks = c.frameClocks := by
  unfold Ctl.writeInternal; simp only; split <;> exact ⟨rfl, rfl⟩

theorem write7ffd_border (c : Ctl) (v : BitVec 8) :
    (c.write7ffd v).border = c.border ∧ (c.write7ffd v).frameClocks = c.frameClocks := by
  unfold Ctl.write7ffd; split <;> exact ⟨rfl, rfl⟩

theorem ioDevice_border (c : Ctl) (p : BitVec 16) (v : BitVec 8) :
    (c.ioDevice p v).frameClocks = c.frameClocks ∧
    (ulaRouted p → (c.ioDevice p v).border = c.border.setBorder c.frameClocks ((v &&& 0x07).setWidth 3) ∧
      (c.ioDevice p v).borderColor = (v &&& 0x07).setWidth 3) ∧
    (¬ ulaRouted p → (c.ioDevice p v).border = c.border ∧ (c.ioDevice p v).borderColor = c.borderColor) := by
  unfold Ctl.ioDevice
  split
  · rename_i h1
    exact ⟨rfl, fun h => absurd h1 h.1, fun _ => ⟨rfl, rfl⟩⟩
  · split
    · rename_i h1 h2
      exact ⟨rfl, fun h => absurd h2 h.2.1, fun _ => ⟨rfl, rfl⟩⟩
    · split
      · rename_i h1 h2 h3
        exact ⟨rfl, fun _ => ⟨rfl, rfl⟩, fun h => absurd ⟨h1, h2, h3⟩ h⟩
      · rename_i h1 h2 h3
        split
        · exact ⟨(write7ffd_border c v).2, fun h => absurd h.2.2 h3,
            fun _ => ⟨(write7ffd_border c v).1, write7ffd_bc c v⟩⟩
        · exact ⟨rfl, fun h => absurd h.2.2 h3, fun _ => ⟨rfl, rfl⟩⟩

/-- **time passing** -/
theorem BGood.wait {m : Machine} {z : VBus} (h : BGood m z) (clk : Nat) : BGood m (z.wait clk) := by
  unfold VBus.wait
  by_cases hin : z.ctl.frameClocks + clk < z.ctl.machine.clocksFrame
  · have he := waitInternal_in z.ctl clk hin
    have hpf : (z.ctl.waitInternal clk).passedFrames = z.ctl.passedFrames := by rw [he]
    rw [VBus.pass_same _ _ hpf]
    refine ⟨?_, ?_, h.sorted, ?_, ?_⟩
    · show BInv m z.frameCol z.ulaWrites (z.ctl.waitInternal clk).border
      rw [he]; exact h.inv
    · intro w hw
      show w.1 ≤ (z.ctl.waitInternal clk).frameClocks
      rw [he]
      exact Nat.le_trans (h.le w hw) (Nat.le_add_right _ _)
    · show (z.ctl.waitInternal clk).borderColor = _
      rw [waitInternal_bc]; exact h.colour
    · intro h1
      have d := h.done (by rw [← hpf]; exact h1)
      exact ⟨d.pixels, d.start, d.sorted, d.carry⟩
  · have hend : z.ctl.machine.clocksFrame ≤ z.ctl.frameClocks + clk := by omega
    have he := waitInternal_end z.ctl clk hend
    have hpf : (z.ctl.waitInternal clk).passedFrames = z.ctl.passedFrames + 1 := by rw [he]
    have hb : (z.ctl.waitInternal clk).border = z.ctl.border.newFrame := by rw [he]
    obtain ⟨px, fs⟩ := newFrame_inv m z.frameCol z.ulaWrites z.ctl.border h.inv
    rw [VBus.pass_rot _ _ (by omega)]
    refine ⟨?_, fun _ hw => (nomatch hw), trivial, ?_, fun _ => ⟨?_, ?_, h.sorted, rfl⟩⟩
    · show BInv m (lastCol z.frameCol z.ulaWrites) [] (z.ctl.waitInternal clk).border
      rw [hb]; exact fs.inv
    · show (z.ctl.waitInternal clk).borderColor = _
      rw [waitInternal_bc]; exact h.colour
    · intro q d hq
      show (z.ctl.waitInternal clk).border.buf.getD q d = _
      rw [hb]; exact px q d hq
    · show FrameStart m (z.ctl.waitInternal clk).border (lastCol z.frameCol z.ulaWrites)
      rw [hb]; exact fs

theorem BGood.waitMreq {m : Machine} {z : VBus} (h : BGood m z) (a : BitVec 16) (clk : Nat) :
    BGood m (z.waitMreq a clk) := by
  unfold VBus.waitMreq VBus.doContention
  split
  · exact (h.wait _).wait clk
  · exact h.wait clk

theorem BGood.ioFirst {m : Machine} {z : VBus} (h : BGood m z) (p : BitVec 16) : BGood m (z.ioFirst p) := by
  unfold VBus.ioFirst VBus.doContention
  split
  · exact (h.wait _).wait 1
  · exact h.wait 1

theorem BGood.ioLast {m : Machine} {z : VBus} (h : BGood m z) (p : BitVec 16) : BGood m (z.ioLast p) := by
  unfold VBus.ioLast VBus.doContentionAndWait VBus.doContention
  split
  · exact h.wait _
  · split
    · exact (((h.wait _).wait _).wait _)
    · exact h.wait 2

/-- **`write_internal`** -/
theorem BGood.store {m : Machine} {z : VBus} (h : BGood m z) (a : BitVec 16) (v : BitVec 8) : BGood m (z.store a v) := by
  obtain ⟨e1, e2⟩ := writeInternal_border z.ctl a v
  have e3 := writeInternal_bc z.ctl a v
  have e4 := writeInternal_pf z.ctl a v
  have key : BGood m { z with ctl := z.ctl.writeInternal a v } :=
    ⟨by show BInv m z.frameCol z.ulaWrites (z.ctl.writeInternal a v).border; rw [e1]; exact h.inv,
     fun w hw => by show w.1 ≤ (z.ctl.writeInternal a v).frameClocks; rw [e2]; exact h.le w hw,
     h.sorted,
     by show (z.ctl.writeInternal a v).borderColor = _; rw [e3]; exact h.colour,
     fun h1 => let d := h.done (by rw [← e4]; exact h1); ⟨d.pixels, d.start, d.sorted, d.carry⟩⟩
  unfold VBus.store
  simp only
  split
  · exact ⟨key.inv, key.le, key.sorted, key.colour,
      fun h1 => let d := key.done h1; ⟨d.pixels, d.start, d.sorted, d.carry⟩⟩
  · exact key

/-- **the device part of a port write**: a ULA write reaches `set_border` with a clock no earlier
than any write of this frame before it, so the frame invariant of `set_border` carries on -/
theorem BGood.device {m : Machine} {z : VBus} (h : BGood m z) (p : BitVec 16) (v : BitVec 8) : BGood m (z.device p v) := by
  obtain ⟨e1, e2, e3⟩ := ioDevice_border z.ctl p v
  have e4 := ioDevice_pf z.ctl p v
  have key : BGood m { (if ulaRouted p then
      { z with ulaWrites := z.ulaWrites ++ [(z.ctl.frameClocks, (v &&& 0x07).setWidth 3)], ulaHist := z.ulaHist ++ [v] }
    else z : VBus) with ctl := z.ctl.ioDevice p v } := by
    by_cases hr : ulaRouted p
    · obtain ⟨b1, b2⟩ := e2 hr
      rw [if_pos hr]
      refine ⟨?_, ?_, sorted_append _ _ h.sorted (fun w hw => h.le w hw), ?_, ?_⟩
      · show BInv m z.frameCol (z.ulaWrites ++ [(z.ctl.frameClocks, (v &&& 0x07).setWidth 3)]) (z.ctl.ioDevice p v).border
        rw [b1]
        exact setBorder_inv m z.frameCol z.ulaWrites z.ctl.border h.inv _ _ (fun w hw => h.le w hw)
      · intro w hw
        show w.1 ≤ (z.ctl.ioDevice p v).frameClocks
        rw [e1]
        rcases List.mem_append.1 hw with h1 | h1
        · exact h.le w h1
        · simp only [List.mem_singleton] at h1
          subst h1
          exact Nat.le_refl _
      · show (z.ctl.ioDevice p v).borderColor = (Spec.reportedColour (z.ulaHist ++ [v])).getD 0
        rw [b2, reported_append]
        rfl
      · intro h1
        have d := h.done (by rw [← e4]; exact h1)
        exact ⟨d.pixels, d.start, d.sorted, d.carry⟩
    · obtain ⟨b1, b2⟩ := e3 hr
      rw [if_neg hr]
      exact ⟨by show BInv m z.frameCol z.ulaWrites (z.ctl.ioDevice p v).border; rw [b1]; exact h.inv,
        fun w hw => by show w.1 ≤ (z.ctl.ioDevice p v).frameClocks; rw [e1]; exact h.le w hw,
        h.sorted,
        by show (z.ctl.ioDevice p v).borderColor = _; rw [b2]; exact h.colour,
        fun h1 => let d := h.done (by rw [← e4]; exact h1); ⟨d.pixels, d.start, d.sorted, d.carry⟩⟩
  unfold VBus.device
  simp only
  split
  · exact key
  · exact ⟨key.inv, key.le, key.sorted, key.colour,
      fun h1 => let d := key.done h1; ⟨d.pixels, d.start, d.sorted, d.carry⟩⟩

theorem BGood.writeIo {m : Machine} {z : VBus} (h : BGood m z) (p : BitVec 16) (v : BitVec 8) : BGood m (z.writeIo p v) := by
  unfold VBus.writeIo
  exact (((h.ioFirst p).device p v).ioLast p).wait 1

theorem BGood.readIo {m : Machine} {z : VBus} (h : BGood m z) (p : BitVec 16) : BGood m (z.readIo p).2 := by
  have g := ((h.ioFirst p).ioLast p).wait 1
  unfold VBus.readIo
  exact ⟨g.inv, g.le, g.sorted, g.colour, fun h1 => let d := g.done h1; ⟨d.pixels, d.start, d.sorted, d.carry⟩⟩

end ZxVerif.Video
