/-
A concrete program on the video bus, for the non-vacuity statements of Props/C08Sys.lean: the
power-on machine of the model has all-zero memory, i.e. the CPU executes NOPs for ever (with
interrupts disabled nothing else happens). Each NOP is one 4-T opcode fetch; so frames do get
completed, and no frame is ever touched.
-/
import ZxVerif.Lemmas.VideoBusScreen
import ZxVerif.Lemmas.Z80
namespace ZxVerif.Video
open ZxVerif.Z80

section
variable {β : Type} [Bus β]

/-- executing `00`: one 4-T opcode fetch, PC+1, R+1, the Q latch steps; nothing else -/
theorem nop_exec (v : Variant) (s : Cpu) (b b1 : β) (hap : s.activePrefix = .none)
    (h1 : read s.pc 4 b = (0x00, b1)) :
    execOne v s b = ({ s with pc := s.pc + 1, r := incR s.r, lastQ := s.q, q := 0 }, b1) := by
  have hd : decode 0#8 = .nop := by decide
  simp only [BitVec.ofNat_eq_ofNat] at h1
  simp [execOne, hap, fetchByte, h1, hd, exec, stepQ]

end

/-- T-states since power-on -/
def Ctl.total (c : Ctl) : Nat := c.passedFrames * c.machine.clocksFrame + c.frameClocks

/-- `wait_internal` conserves time and leaves memory alone -/
theorem total_wait (c : Ctl) (k : Nat) :
    (c.waitInternal k).total = c.total + k ∧ (c.waitInternal k).machine = c.machine ∧
    (c.waitInternal k).mem = c.mem := by
  rw [waitInternal_eq]
  split
  · rename_i h
    refine ⟨?_, rfl, rfl⟩
    show (c.passedFrames + 1) * c.machine.clocksFrame + (c.frameClocks + k - c.machine.clocksFrame) =
      c.passedFrames * c.machine.clocksFrame + c.frameClocks + k
    rw [Nat.succ_mul]
    omega
  · exact ⟨by show c.passedFrames * c.machine.clocksFrame + (c.frameClocks + k) = _; unfold Ctl.total; omega, rfl, rfl⟩

theorem total_waitMreq (c : Ctl) (a : BitVec 16) (k : Nat) :
    c.total + k ≤ (c.waitMreq a k).total ∧ (c.waitMreq a k).mem = c.mem := by
  unfold Ctl.waitMreq Ctl.doContention
  split
  · obtain ⟨a1, _, a3⟩ := total_wait c (c.machine.contentionClocks c.frameClocks)
    obtain ⟨b1, _, b3⟩ := total_wait (c.waitInternal (c.machine.contentionClocks c.frameClocks)) k
    exact ⟨by rw [b1, a1]; omega, b3.trans a3⟩
  · obtain ⟨a1, _, a3⟩ := total_wait c k
    exact ⟨by rw [a1]; omega, a3⟩

/-- the power-on memory of the model reads 0 everywhere -/
theorem new_mem_read (m : Machine) (a : BitVec 16) : (Mem.new m).read a = 0 := by
  have h : a.toNat / pageSize < 4 := by unfold pageSize; omega
  unfold Mem.read Mem.getPage
  generalize a.toNat / pageSize = i at h
  cases m <;> (rcases i with _ | _ | _ | _ | i) <;>
    first
    | (exfalso; omega)
    | (simp [Mem.new, Array.getElem?_replicate]; try (split <;> rfl))

theorem new_ramByte (m : Machine) (rb off : Nat) : (Mem.new m).ramByte rb off = 0 := by
  cases m <;> simp only [Mem.new, Mem.ramByte, getD_replicate] <;> split <;> rfl

/-- a CPU with interrupts disabled at an instruction boundary, on a machine whose memory is still
the all-zero power-on memory and whose frames have not been touched -/
structure Idle (m : Machine) (s : Cpu) (z : VBus) : Prop where
  iff1 : s.iff1 = false
  noSkip : s.skipInt = false
  noPrefix : s.activePrefix = .none
  mem : z.ctl.mem = Mem.new m
  amem : z.anchor.mem = Mem.new m
  dmem : z.doneAnchor.mem = Mem.new m
  touches : z.touches = 0
  dtouches : z.doneTouches = 0
  noUla : z.ulaWrites = []
  dnoUla : z.doneWrites = []
  col : z.frameCol = 7
  dcol : z.doneCol = 7
  hist : z.ulaHist = []

theorem Idle.pass {m : Machine} {s : Cpu} {z : VBus} (h : Idle m s z) (c' : Ctl) (hm : c'.mem = z.ctl.mem) :
    Idle m s (z.pass c') := by
  unfold VBus.pass
  split
  · exact ⟨h.iff1, h.noSkip, h.noPrefix, hm.trans h.mem, h.amem, h.dmem, h.touches, h.dtouches, h.noUla, h.dnoUla,
      h.col, h.dcol, h.hist⟩
  · exact ⟨h.iff1, h.noSkip, h.noPrefix, hm.trans h.mem, hm.trans h.mem, h.amem, rfl, h.touches, rfl, h.noUla,
      by show lastCol z.frameCol z.ulaWrites = 7; rw [h.noUla, h.col]; rfl, h.col, h.hist⟩

theorem Idle.waitMreq {m : Machine} {s : Cpu} {z : VBus} (h : Idle m s z) (a : BitVec 16) (k : Nat) :
    Idle m s (z.waitMreq a k) := by
  unfold VBus.waitMreq VBus.doContention VBus.wait
  split
  · have h1 := h.pass _ (total_wait z.ctl (z.ctl.machine.contentionClocks z.ctl.frameClocks)).2.2
    exact h1.pass _ (total_wait _ k).2.2
  · exact h.pass _ (total_wait z.ctl k).2.2

/-- one `emulate` of the idle machine is one NOP: a 4-T opcode fetch at PC and nothing else -/
theorem idle_step (m : Machine) (v : Variant) (s : Cpu) (z : VBus) (h : Idle m s z) :
    (emulate v (s, z)).2 = z.waitMreq s.pc 4 ∧ Idle m (emulate v (s, z)).1 (emulate v (s, z)).2 := by
  have hd : decision s z = .none := by
    have hn : Bus.nmiActive z = false := rfl
    unfold decision
    simp [h.noSkip, hn, h.iff1]
  have e : emulate v (s, z) =
      ((execOne v { s with skipInt := false } z).1,
        Bus.pcCallback (execOne v { s with skipInt := false } z).1.pc
          (execOne v { s with skipInt := false } z).2) := by
    simp [emulate, checkInterrupt_eq_decision, hd]
  have hrd : read s.pc 4 z = (0x00, z.waitMreq s.pc 4) := by
    show ((z.waitMreq s.pc 4).ctl.mem.read s.pc, z.waitMreq s.pc 4) = _
    rw [VBus.ctl_waitMreq, (total_waitMreq z.ctl s.pc 4).2, h.mem, new_mem_read]
  have hx := nop_exec v { s with skipInt := false } z (z.waitMreq s.pc 4) h.noPrefix hrd
  rw [e, hx]
  have hi := h.waitMreq s.pc 4
  exact ⟨rfl, ⟨h.iff1, rfl, h.noPrefix, hi.mem, hi.amem, hi.dmem, hi.touches, hi.dtouches, hi.noUla, hi.dnoUla,
    hi.col, hi.dcol, hi.hist⟩⟩

/-- `n` instructions of the idle machine: still idle, at least `4 n` T-states later -/
theorem idle_run (m : Machine) (v : Variant) : ∀ (n : Nat) (s : Cpu) (z : VBus), Idle m s z →
    Idle m (Z80.run v n (s, z)).1 (Z80.run v n (s, z)).2 ∧
    z.ctl.total + 4 * n ≤ (Z80.run v n (s, z)).2.ctl.total := by
  intro n
  induction n with
  | zero => intro s z h; exact ⟨h, Nat.le_refl _⟩
  | succ n ih =>
    intro s z h
    obtain ⟨e, hi⟩ := idle_step m v s z h
    have key := ih _ _ hi
    have heta : ((emulate v (s, z)).1, (emulate v (s, z)).2) = emulate v (s, z) := rfl
    rw [heta] at key
    obtain ⟨i2, t2⟩ := key
    have t1 : z.ctl.total + 4 ≤ (emulate v (s, z)).2.ctl.total := by
      rw [e, VBus.ctl_waitMreq]; exact (total_waitMreq z.ctl s.pc 4).1
    exact ⟨i2, by show _ ≤ (Z80.run v n (emulate v (s, z))).2.ctl.total; omega⟩

theorem Idle.new (m : Machine) (inp : Nat → BitVec 8) (s : Cpu) (h1 : s.iff1 = false) (h2 : s.skipInt = false)
    (h3 : s.activePrefix = .none) : Idle m s (VBus.new m inp) :=
  ⟨h1, h2, h3, rfl, rfl, rfl, rfl, rfl, rfl, rfl, rfl, rfl, rfl⟩

end ZxVerif.Video
