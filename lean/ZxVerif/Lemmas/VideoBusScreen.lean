/-
C08 on the bus: the screen invariants of the controller model are kept by every primitive bus
operation of `VBus` (Lemmas/VideoBus.lean) — the input of the closure theorem in Props/C08Sys.lean.
-/
import ZxVerif.Lemmas.VideoBus
namespace ZxVerif.Video

/-! ## the render cursor is level with the clock -/

/-- the clock is inside the frame and the renderer has drawn exactly the blocks the beam has passed -/
structure Ctl.Level (c : Ctl) : Prop where
  inFrame : c.frameClocks < c.machine.clocksFrame
  beam : c.screen.last.le (Blocks.fromClocks c.machine c.frameClocks)
  sync : c.screen.last.idx = (Blocks.fromClocks c.machine c.frameClocks).idx

theorem Ctl.new_level (m : Machine) : (Ctl.new m).Level := by
  have h0 : Blocks.fromClocks (Ctl.new m).machine (Ctl.new m).frameClocks = ⟨0, 0⟩ :=
    fromClocks_early _ _ (by cases m <;> decide)
  refine ⟨by cases m <;> decide, ?_, ?_⟩
  · rw [h0]; exact Blocks.le_refl _
  · rw [h0]; rfl

theorem clocksFrame_pos (m : Machine) : 14400 < m.clocksFrame ∧ 14300 < m.ulaReadOrigin := by
  cases m <;> decide

/-- the two shapes of `wait_internal` -/
theorem waitInternal_in (c : Ctl) (clk : Nat) (h : c.frameClocks + clk < c.machine.clocksFrame) :
    c.waitInternal clk =
      { c with frameClocks := c.frameClocks + clk, screen := c.screen.processClocks (c.frameClocks + clk) } := by
  rw [waitInternal_eq, if_neg (by omega)]

theorem waitInternal_end (c : Ctl) (clk : Nat) (h : c.machine.clocksFrame ≤ c.frameClocks + clk) :
    c.waitInternal clk =
      { c with
        frameClocks := c.frameClocks + clk - c.machine.clocksFrame
        screen := (c.screen.processClocks (c.frameClocks + clk)).newFrame
        border := c.border.newFrame
        passedFrames := c.passedFrames + 1 } := by
  rw [waitInternal_eq, if_pos (by omega)]

/-- a bounded wait keeps the renderer level with the clock — across the frame end too -/
theorem Ctl.Level.wait {c : Ctl} (hwf : c.WF) (hl : c.Level) (clk : Nat) (hk : clk ≤ 64) :
    (c.waitInternal clk).Level := by
  have hle : c.screen.last.le (Blocks.fromClocks c.screen.machine (c.frameClocks + clk)) := by
    rw [hwf.mach]
    exact Blocks.le_trans hl.beam (fromClocks_mono _ _ _ (by omega))
  obtain ⟨p1, p2, _⟩ := processClocks_spec c.screen hwf.screen (c.frameClocks + clk) hle
  by_cases hin : c.frameClocks + clk < c.machine.clocksFrame
  · rw [waitInternal_in c clk hin]
    refine ⟨hin, ?_, ?_⟩
    · show (c.screen.processClocks _).last.le (Blocks.fromClocks c.machine (c.frameClocks + clk))
      rw [← hwf.mach]; exact p2
    · show (c.screen.processClocks _).last.idx = (Blocks.fromClocks c.machine (c.frameClocks + clk)).idx
      rw [p1, hwf.mach]
  · rw [waitInternal_end c clk (by omega)]
    have hb := clocksFrame_pos c.machine
    have hf := hl.inFrame
    have h0 : Blocks.fromClocks c.machine (c.frameClocks + clk - c.machine.clocksFrame) = ⟨0, 0⟩ :=
      fromClocks_early _ _ (by omega)
    refine ⟨?_, ?_, ?_⟩
    · show c.frameClocks + clk - c.machine.clocksFrame < c.machine.clocksFrame
      omega
    · show (⟨0, 0⟩ : Blocks).le (Blocks.fromClocks c.machine (c.frameClocks + clk - c.machine.clocksFrame))
      rw [h0]; exact Blocks.le_refl _
    · show (⟨0, 0⟩ : Blocks).idx = (Blocks.fromClocks c.machine (c.frameClocks + clk - c.machine.clocksFrame)).idx
      rw [h0]

/-! ## a frame in progress, seen from the last touching event -/

/-- `c0` = the state right after the last event that changed what the ULA displays (or the start of
the frame); since then the displayed bytes, the displayed bank and the flash phase are the same, the
pixels drawn before `c0` are untouched and the pixels drawn since are the standard decode of the
displayed RAM of `c0`. (`FrameInv` of Lemmas/VideoFrame.lean with "nothing but time has passed"
weakened to "nothing displayed has changed": other memory, the other 128K screen, the border,
ports may all have been written.) -/
structure FrameInvP (c0 c : Ctl) : Prop where
  active : c.screen.active = c0.screen.active
  flash : c.screen.flash = c0.screen.flash
  front : c.screen.front = c0.screen.front
  vis : ∀ off, off < 0x1B00 →
    (c.screen.bank c.screen.active).mem off = (c0.screen.bank c0.screen.active).mem off
  lo : c0.screen.last.idx ≤ c.screen.last.idx
  old : ∀ p d, p < c0.screen.last.idx * 8 → c.screen.back.getD p d = c0.screen.back.getD p d
  new : ∀ p d, c0.screen.last.idx * 8 ≤ p → p < c.screen.last.idx * 8 →
    c.screen.back.getD p d = Spec.stdPx c0.visibleMem c0.screen.flash (p % 256) (p / 256)
  passed : c.passedFrames = c0.passedFrames

theorem FrameInvP.init (c : Ctl) : FrameInvP c c :=
  ⟨rfl, rfl, rfl, fun _ _ => rfl, Nat.le_refl _, fun _ _ _ => rfl, fun p d h1 h2 => by omega, rfl⟩

theorem FrameInvP.render {c0 c : Ctl} (hw0 : c0.WF) (hc0 : c0.Coherent) (inv : FrameInvP c0 c) (p : Nat)
    (hp : p < 49152) :
    renderPixel (c.screen.bank c.screen.active) c.screen.flash (p / 8) (p % 8) =
      Spec.stdPx c0.visibleMem c0.screen.flash (p % 256) (p / 256) := by
  rw [renderPixel_std_lin _ _ _ hp, inv.flash]
  exact stdPx_congr _ _ _ _ _ (by omega) (by omega)
    (fun off hoff => (inv.vis off hoff).trans (active_mem c0 hw0 hc0 off hoff))

/-- a wait that stays inside the frame -/
theorem FrameInvP.wait {c0 c : Ctl} (hw0 : c0.WF) (hc0 : c0.Coherent) (hwf : c.WF)
    (hbeam : c.screen.last.le (Blocks.fromClocks c.machine c.frameClocks)) (inv : FrameInvP c0 c) (clk : Nat)
    (hin : c.frameClocks + clk < c.machine.clocksFrame) : FrameInvP c0 (c.waitInternal clk) := by
  have hle : c.screen.last.le (Blocks.fromClocks c.screen.machine (c.frameClocks + clk)) := by
    rw [hwf.mach]
    exact Blocks.le_trans hbeam (fromClocks_mono _ _ _ (by omega))
  obtain ⟨p1, _, _, p4, p5, p6, p7, p8, _, _, p11⟩ := processClocks_spec c.screen hwf.screen (c.frameClocks + clk) hle
  have hnorm := fromClocks_norm c.screen.machine (c.frameClocks + clk)
  have htot := Blocks.idx_le_total hnorm
  have hidx := Blocks.idx_le_of_le hwf.screen.lastNorm.c hle
  have hbank : (c.screen.processClocks (c.frameClocks + clk)).bank (c.screen.processClocks (c.frameClocks + clk)).active
      = c.screen.bank c.screen.active := by
    rw [p7]; exact processClocks_bank c.screen hwf.screen _ _
  rw [waitInternal_in c clk hin]
  refine ⟨p7.trans inv.active, p8.trans inv.flash, p4.trans inv.front, ?_, ?_, ?_, ?_, inv.passed⟩
  · intro off hoff
    show ((c.screen.processClocks _).bank (c.screen.processClocks _).active).mem off = _
    rw [hbank]; exact inv.vis off hoff
  · show _ ≤ (c.screen.processClocks _).last.idx
    rw [p1]; exact Nat.le_trans inv.lo hidx
  · intro p d hp
    show (c.screen.processClocks _).back.getD p d = _
    have := inv.lo
    rw [p11, if_neg (by omega), inv.old p d hp]
  · intro p d h1 h2
    show (c.screen.processClocks _).back.getD p d = _
    have h2' : p < (Blocks.fromClocks c.screen.machine (c.frameClocks + clk)).idx * 8 := by rw [← p1]; exact h2
    rw [p11]
    by_cases hnew : c.screen.last.idx * 8 ≤ p
    · rw [if_pos ⟨hnew, h2'⟩]
      exact inv.render hw0 hc0 p (by omega)
    · rw [if_neg (by omega)]
      exact inv.new p d h1 (by omega)

/-- the wait that ends the frame: the canvas handed to the host -/
theorem FrameInvP.finish {c0 c : Ctl} (hw0 : c0.WF) (hc0 : c0.Coherent) (hwf : c.WF)
    (hbeam : c.screen.last.le (Blocks.fromClocks c.machine c.frameClocks)) (inv : FrameInvP c0 c) (w : Nat)
    (hend : c.machine.clocksFrame ≤ c.frameClocks + w) :
    ∀ p d, p < 49152 → (c.waitInternal w).screen.front.getD p d =
      if p < c0.screen.last.idx * 8 then c0.screen.back.getD p d
      else Spec.stdPx c0.visibleMem c0.screen.flash (p % 256) (p / 256) := by
  have hle : c.screen.last.le (Blocks.fromClocks c.screen.machine (c.frameClocks + w)) := by
    rw [hwf.mach]
    exact Blocks.le_trans hbeam (fromClocks_mono _ _ _ (by omega))
  obtain ⟨_, _, _, _, _, _, _, _, _, _, p11⟩ := processClocks_spec c.screen hwf.screen (c.frameClocks + w) hle
  have hall : Blocks.fromClocks c.screen.machine (c.frameClocks + w) = ⟨192, 0⟩ := by
    rw [hwf.mach]; exact fromClocks_frame_end _ _ hend
  rw [hall] at p11
  have hidx : (⟨192, 0⟩ : Blocks).idx * 8 = 49152 := by decide
  rw [hidx] at p11
  rw [waitInternal_end c w hend]
  intro p d hp
  show (c.screen.processClocks (c.frameClocks + w)).back.getD p d = _
  rw [p11]
  have := inv.lo
  by_cases h1 : p < c0.screen.last.idx * 8
  · rw [if_pos h1, if_neg (by omega), inv.old p d h1]
  · rw [if_neg h1]
    by_cases h2 : c.screen.last.idx * 8 ≤ p
    · rw [if_pos ⟨h2, hp⟩]
      exact inv.render hw0 hc0 p hp
    · rw [if_neg (by omega)]
      exact inv.new p d (by omega) (by omega)

/-! ## what the non-wait operations leave alone -/

/-- `write_internal`: clock, renderer state and both pixel buffers stay; unless the store hits the
displayed bytes, so does everything the ULA displays -/
theorem writeInternal_screen (c : Ctl) (hwf : c.WF) (a : BitVec 16) (v : BitVec 8) :
    (c.writeInternal a v).frameClocks = c.frameClocks ∧ (c.writeInternal a v).machine = c.machine ∧
    (c.writeInternal a v).passedFrames = c.passedFrames ∧
    (c.writeInternal a v).screen.last = c.screen.last ∧ (c.writeInternal a v).screen.back = c.screen.back ∧
    (c.writeInternal a v).screen.front = c.screen.front ∧ (c.writeInternal a v).screen.active = c.screen.active ∧
    (c.writeInternal a v).screen.flash = c.screen.flash ∧
    (c.hitsDisplayed a = false → ∀ off, off < 0x1B00 →
      ((c.writeInternal a v).screen.bank c.screen.active).mem off = (c.screen.bank c.screen.active).mem off) := by
  obtain ⟨hm, _⟩ := Mem.write_fields c.mem a v
  unfold Ctl.writeInternal Ctl.hitsDisplayed
  simp only [Mem.getPage_of_map _ _ hm]
  cases hp : c.mem.getPage a with
  | rom p => exact ⟨by trivial, by trivial, by trivial, rfl, rfl, rfl, rfl, rfl, fun _ _ _ => rfl⟩
  | ram bank =>
    simp only
    cases hl : localBank c.machine bank with
    | none =>
      rw [update_none _ _ _ _ (by rw [hwf.mach]; exact hl)]
      exact ⟨by trivial, by trivial, by trivial, rfl, rfl, rfl, rfl, rfl, fun _ _ _ => rfl⟩
    | some lb =>
      obtain ⟨_, u1, u2, u4, u5, u6, u7, u8, _, _⟩ :=
        update_spec c.screen hwf.screen (a.toNat % pageSize) bank lb v (by unfold pageSize; omega)
          (by rw [hwf.mach]; exact hl)
      refine ⟨by trivial, by trivial, by trivial, u6, u5, u4, u7, u8, ?_⟩
      intro hnot off hoff
      show ((c.screen.update _ bank v).bank c.screen.active).mem off = _
      by_cases hlb : lb = c.screen.active
      · subst hlb
        rw [u1 off, if_neg]
        rintro ⟨rfl, _⟩
        simp at hnot
        omega
      · have hb : c.screen.active = !lb := by cases lb <;> cases h : c.screen.active <;> simp_all
        rw [hb, u2]

theorem writeInternal_port (c : Ctl) (a : BitVec 16) (v : BitVec 8) : (c.writeInternal a v).port7ffd = c.port7ffd := by
  unfold Ctl.writeInternal; simp only; split <;> rfl

theorem switchBank_all (s : Screen) (bank : Nat) :
    (s.switchBank bank).last = s.last ∧ (s.switchBank bank).back = s.back ∧ (s.switchBank bank).front = s.front ∧
    (s.switchBank bank).flash = s.flash ∧ (s.switchBank bank).bank0 = s.bank0 ∧ (s.switchBank bank).bank1 = s.bank1 := by
  unfold Screen.switchBank
  split <;> exact ⟨rfl, rfl, rfl, rfl, rfl, rfl⟩

/-- the device part of `write_io` (border latch, paging latch): clock, renderer state, pixel
buffers and both shadow banks stay; only the displayed bank may be switched -/
theorem ioDevice_screen (c : Ctl) (hwf : c.WF) (hcoh : c.Coherent) (p : BitVec 16) (v : BitVec 8) :
    (c.ioDevice p v).WF ∧ (c.ioDevice p v).Coherent ∧
    (c.ioDevice p v).frameClocks = c.frameClocks ∧ (c.ioDevice p v).machine = c.machine ∧
    (c.ioDevice p v).passedFrames = c.passedFrames ∧
    (c.ioDevice p v).screen.last = c.screen.last ∧ (c.ioDevice p v).screen.back = c.screen.back ∧
    (c.ioDevice p v).screen.front = c.screen.front ∧ (c.ioDevice p v).screen.flash = c.screen.flash ∧
    (c.ioDevice p v).screen.bank0 = c.screen.bank0 ∧ (c.ioDevice p v).screen.bank1 = c.screen.bank1 := by
  have keep : c.WF ∧ c.Coherent ∧ c.frameClocks = c.frameClocks ∧ c.machine = c.machine ∧
      c.passedFrames = c.passedFrames ∧ c.screen.last = c.screen.last ∧ c.screen.back = c.screen.back ∧
      c.screen.front = c.screen.front ∧ c.screen.flash = c.screen.flash ∧
      c.screen.bank0 = c.screen.bank0 ∧ c.screen.bank1 = c.screen.bank1 :=
    ⟨hwf, hcoh, rfl, rfl, rfl, rfl, rfl, rfl, rfl, rfl, rfl⟩
  unfold Ctl.ioDevice
  split
  · exact keep
  · split
    · exact keep
    · split
      · have s := setBorderColor_same c hwf c.frameClocks ((v &&& 0x07).setWidth 3)
        exact ⟨s.wf, s.coherent hcoh, rfl, rfl, rfl, rfl, rfl, rfl, rfl, rfl, rfl⟩
      · split
        · obtain ⟨w, k⟩ := write7ffd_good c hwf hcoh v
          refine ⟨w, k, ?_⟩
          unfold Ctl.write7ffd
          split
          · exact ⟨rfl, rfl, rfl, rfl, rfl, rfl, rfl, rfl, rfl⟩
          · obtain ⟨s1, s2, s3, s4, s5, s6⟩ := switchBank_all c.screen (if v &&& 0x08 = 0 then 5 else 7)
            exact ⟨rfl, rfl, rfl, s1, s2, s3, s4, s5, s6⟩
        · exact keep

/-! ## the invariant of the bus state -/

/-- what is known about the frame completed last: the canvas handed to the host, in terms of the
state `doneAnchor` right after the last touching event of that frame -/
structure DoneFrame (m : Machine) (z : VBus) : Prop where
  pixels : ∀ p d, p < 49152 → z.ctl.screen.front.getD p d =
    if p < z.doneAnchor.screen.last.idx * 8 then z.doneAnchor.screen.back.getD p d
    else Spec.stdPx z.doneAnchor.visibleMem z.doneAnchor.screen.flash (p % 256) (p / 256)
  fresh : z.doneTouches = 0 → z.doneAnchor.screen.last.idx = 0
  frame : z.doneAnchor.passedFrames + 1 = z.ctl.passedFrames
  mach : z.doneAnchor.machine = m
  wf : z.doneAnchor.WF
  coh : z.doneAnchor.Coherent
  level : z.doneAnchor.Level
  /-- the frame in progress started with the displayed bytes that frame ended with -/
  carry : ∀ off, off < 0x1B00 → (z.frameStart.screen.bank z.frameStart.screen.active).mem off =
    (z.doneAnchor.screen.bank z.doneAnchor.screen.active).mem off

/-- the C08 invariants of a bus state -/
structure SGood (m : Machine) (z : VBus) : Prop where
  mach : z.ctl.machine = m
  wf : z.ctl.WF
  coh : z.ctl.Coherent
  level : z.ctl.Level
  amach : z.anchor.machine = m
  awf : z.anchor.WF
  acoh : z.anchor.Coherent
  alevel : z.anchor.Level
  inv : FrameInvP z.anchor z.ctl
  fresh : z.touches = 0 → z.anchor.screen.last.idx = 0
  done : 1 ≤ z.ctl.passedFrames → DoneFrame m z
  /-- while the frame in progress is untouched the anchor is its start -/
  start0 : z.touches = 0 → z.anchor = z.frameStart

theorem Ctl.Same.active {c c' : Ctl} (h : c.Same c') (hw : c.WF) : c'.screen.active = c.screen.active := by
  rw [h.wf.active, hw.active, h.machine, h.port]

theorem SGood.new (m : Machine) (inp : Nat → BitVec 8) : SGood m (VBus.new m inp) :=
  ⟨rfl, Ctl.new_wf m, Ctl.new_coherent m, Ctl.new_level m, rfl, Ctl.new_wf m, Ctl.new_coherent m, Ctl.new_level m,
    FrameInvP.init _, fun _ => rfl, fun h => absurd h (Nat.not_succ_le_zero 0), fun _ => rfl⟩

theorem VBus.pass_same (z : VBus) (c' : Ctl) (h : c'.passedFrames = z.ctl.passedFrames) :
    z.pass c' = { z with ctl := c' } := by
  unfold VBus.pass; rw [if_pos h]

theorem VBus.pass_rot (z : VBus) (c' : Ctl) (h : c'.passedFrames ≠ z.ctl.passedFrames) :
    z.pass c' =
      { z with
        ctl := c', anchor := c', touches := 0, doneAnchor := z.anchor, doneTouches := z.touches
        frameStart := c', frameCol := lastCol z.frameCol z.ulaWrites, ulaWrites := []
        doneCol := z.frameCol, doneWrites := z.ulaWrites } := by
  unfold VBus.pass; rw [if_neg h]

/-- **time passing** (at most 64 clocks at once; the bus never asks for more than 13) -/
theorem SGood.wait {m : Machine} {z : VBus} (h : SGood m z) (clk : Nat) (hk : clk ≤ 64) : SGood m (z.wait clk) := by
  have hs := waitInternal_same z.ctl h.wf clk
  have hlev := h.level.wait h.wf clk hk
  unfold VBus.wait
  by_cases hin : z.ctl.frameClocks + clk < z.ctl.machine.clocksFrame
  · have hpf : (z.ctl.waitInternal clk).passedFrames = z.ctl.passedFrames := by
      rw [waitInternal_in _ _ hin]
    have hfront : (z.ctl.waitInternal clk).screen.front = z.ctl.screen.front := by
      rw [waitInternal_in _ _ hin]
      exact (processClocks_frame z.ctl.screen h.wf.screen _).2.1
    rw [VBus.pass_same _ _ hpf]
    refine ⟨hs.machine.trans h.mach, hs.wf, hs.coherent h.coh, hlev, h.amach, h.awf, h.acoh, h.alevel,
      h.inv.wait h.awf h.acoh h.wf h.level.beam clk hin, h.fresh, ?_, h.start0⟩
    intro h1
    have d := h.done (by rw [← hpf]; exact h1)
    exact ⟨fun p dd hp => by
        show (z.ctl.waitInternal clk).screen.front.getD p dd = _
        rw [hfront]; exact d.pixels p dd hp,
      d.fresh, by show z.doneAnchor.passedFrames + 1 = (z.ctl.waitInternal clk).passedFrames; rw [hpf]; exact d.frame,
      d.mach, d.wf, d.coh, d.level, d.carry⟩
  · have hend : z.ctl.machine.clocksFrame ≤ z.ctl.frameClocks + clk := by omega
    have hpf : (z.ctl.waitInternal clk).passedFrames = z.ctl.passedFrames + 1 := by
      rw [waitInternal_end _ _ hend]
    have hlast : (z.ctl.waitInternal clk).screen.last = ⟨0, 0⟩ := by
      rw [waitInternal_end _ _ hend]; rfl
    rw [VBus.pass_rot _ _ (by omega)]
    refine ⟨hs.machine.trans h.mach, hs.wf, hs.coherent h.coh, hlev, hs.machine.trans h.mach, hs.wf,
      hs.coherent h.coh, hlev, FrameInvP.init _, fun _ => ?_, fun _ => ?_, fun _ => rfl⟩
    · show (z.ctl.waitInternal clk).screen.last.idx = 0
      rw [hlast]; rfl
    · refine ⟨h.inv.finish h.awf h.acoh h.wf h.level.beam clk hend, h.fresh,
        by show z.anchor.passedFrames + 1 = (z.ctl.waitInternal clk).passedFrames; rw [hpf, h.inv.passed],
        h.amach, h.awf, h.acoh, h.alevel, ?_⟩
      intro off hoff
      show ((z.ctl.waitInternal clk).screen.bank (z.ctl.waitInternal clk).screen.active).mem off = _
      rw [hs.active h.wf, hs.bank]
      exact h.inv.vis off hoff

theorem SGood.doContention {m : Machine} {z : VBus} (h : SGood m z) : SGood m z.doContention :=
  h.wait _ (by have := contentionClocks_le z.ctl.machine z.ctl.frameClocks; omega)

theorem SGood.doContentionAndWait {m : Machine} {z : VBus} (h : SGood m z) (w : Nat) (hw : w ≤ 50) :
    SGood m (z.doContentionAndWait w) :=
  h.wait _ (by have := contentionClocks_le z.ctl.machine z.ctl.frameClocks; omega)

theorem SGood.waitMreq {m : Machine} {z : VBus} (h : SGood m z) (a : BitVec 16) (clk : Nat) (hk : clk ≤ 64) :
    SGood m (z.waitMreq a clk) := by
  unfold VBus.waitMreq
  split
  · exact h.doContention.wait clk hk
  · exact h.wait clk hk

theorem SGood.ioFirst {m : Machine} {z : VBus} (h : SGood m z) (p : BitVec 16) : SGood m (z.ioFirst p) := by
  unfold VBus.ioFirst
  split
  · exact h.doContention.wait 1 (by omega)
  · exact h.wait 1 (by omega)

theorem SGood.ioLast {m : Machine} {z : VBus} (h : SGood m z) (p : BitVec 16) : SGood m (z.ioLast p) := by
  unfold VBus.ioLast
  split
  · exact h.doContentionAndWait 2 (by omega)
  · split
    · exact ((h.doContentionAndWait 1 (by omega)).doContentionAndWait 1 (by omega)).doContention
    · exact h.wait 2 (by omega)

/-- the anchor has just been moved to the present state -/
theorem SGood.touch {m : Machine} {z : VBus} (mach : z.ctl.machine = m) (wf : z.ctl.WF) (coh : z.ctl.Coherent)
    (level : z.ctl.Level) (done : 1 ≤ z.ctl.passedFrames → DoneFrame m z) : SGood m z.touch :=
  ⟨mach, wf, coh, level, mach, wf, coh, level, FrameInvP.init _, fun h => absurd h (Nat.succ_ne_zero _),
    fun h1 => let d := done h1; ⟨d.pixels, d.fresh, d.frame, d.mach, d.wf, d.coh, d.level, d.carry⟩,
    fun h => absurd h (Nat.succ_ne_zero _)⟩

/-- **`write_internal`** -/
theorem SGood.store {m : Machine} {z : VBus} (h : SGood m z) (a : BitVec 16) (v : BitVec 8) : SGood m (z.store a v) := by
  obtain ⟨w, k⟩ := writeInternal_good z.ctl h.wf h.coh a v
  obtain ⟨e1, e2, e3, e4, e5, e6, e7, e8, e9⟩ := writeInternal_screen z.ctl h.wf a v
  have hlev : (z.ctl.writeInternal a v).Level :=
    ⟨by rw [e1, e2]; exact h.level.inFrame, by rw [e1, e2, e4]; exact h.level.beam, by rw [e1, e2, e4]; exact h.level.sync⟩
  have hdone : 1 ≤ (z.ctl.writeInternal a v).passedFrames →
      DoneFrame m { z with ctl := z.ctl.writeInternal a v } := by
    intro h1
    have d := h.done (by rw [← e3]; exact h1)
    exact ⟨fun p dd hp => by
        show (z.ctl.writeInternal a v).screen.front.getD p dd = _
        rw [e6]; exact d.pixels p dd hp,
      d.fresh, by show z.doneAnchor.passedFrames + 1 = (z.ctl.writeInternal a v).passedFrames; rw [e3]; exact d.frame,
      d.mach, d.wf, d.coh, d.level, d.carry⟩
  unfold VBus.store
  simp only
  cases hh : z.ctl.hitsDisplayed a with
  | true =>
    simp only [if_true]
    exact SGood.touch (z := { z with ctl := z.ctl.writeInternal a v }) (e2.trans h.mach) w k hlev hdone
  | false =>
    simp only [Bool.false_eq_true, if_false]
    refine ⟨e2.trans h.mach, w, k, hlev, h.amach, h.awf, h.acoh, h.alevel, ?_, h.fresh, hdone, h.start0⟩
    refine ⟨e7.trans h.inv.active, e8.trans h.inv.flash, e6.trans h.inv.front, ?_, ?_, ?_, ?_, e3.trans h.inv.passed⟩
    · intro off hoff
      show ((z.ctl.writeInternal a v).screen.bank (z.ctl.writeInternal a v).screen.active).mem off = _
      rw [e7, e9 hh off hoff]
      exact h.inv.vis off hoff
    · show _ ≤ (z.ctl.writeInternal a v).screen.last.idx
      rw [e4]; exact h.inv.lo
    · intro p d hp
      show (z.ctl.writeInternal a v).screen.back.getD p d = _
      rw [e5]; exact h.inv.old p d hp
    · intro p d h1 h2
      show (z.ctl.writeInternal a v).screen.back.getD p d = _
      rw [e5]
      exact h.inv.new p d h1 (by rw [← e4]; exact h2)

/-- **the device part of a port write** -/
theorem SGood.device {m : Machine} {z : VBus} (h : SGood m z) (p : BitVec 16) (v : BitVec 8) : SGood m (z.device p v) := by
  obtain ⟨w, k, e1, e2, e3, e4, e5, e6, e8, b0, b1⟩ := ioDevice_screen z.ctl h.wf h.coh p v
  have hlev : (z.ctl.ioDevice p v).Level :=
    ⟨by rw [e1, e2]; exact h.level.inFrame, by rw [e1, e2, e4]; exact h.level.beam, by rw [e1, e2, e4]; exact h.level.sync⟩
  -- the ghost border log does not matter here
  generalize hz1 : (if ulaRouted p then
      { z with ulaWrites := z.ulaWrites ++ [(z.ctl.frameClocks, (v &&& 0x07).setWidth 3)], ulaHist := z.ulaHist ++ [v] }
    else z : VBus) = z1
  have f1 : z1.anchor = z.anchor ∧ z1.touches = z.touches ∧ z1.doneAnchor = z.doneAnchor ∧ z1.doneTouches = z.doneTouches ∧
      z1.frameStart = z.frameStart := by
    rw [← hz1]; split <;> exact ⟨rfl, rfl, rfl, rfl, rfl⟩
  obtain ⟨g1, g2, g3, g4, g5⟩ := f1
  have hdone : 1 ≤ (z.ctl.ioDevice p v).passedFrames → DoneFrame m { z1 with ctl := z.ctl.ioDevice p v } := by
    intro h1
    have d := h.done (by rw [← e3]; exact h1)
    exact ⟨fun q dd hq => by
        show (z.ctl.ioDevice p v).screen.front.getD q dd = _
        rw [e6]
        show _ = if q < z1.doneAnchor.screen.last.idx * 8 then z1.doneAnchor.screen.back.getD q dd
          else Spec.stdPx z1.doneAnchor.visibleMem z1.doneAnchor.screen.flash (q % 256) (q / 256)
        rw [g3]; exact d.pixels q dd hq,
      by show z1.doneTouches = 0 → z1.doneAnchor.screen.last.idx = 0; rw [g3, g4]; exact d.fresh,
      by show z1.doneAnchor.passedFrames + 1 = (z.ctl.ioDevice p v).passedFrames; rw [g3, e3]; exact d.frame,
      by show z1.doneAnchor.machine = m; rw [g3]; exact d.mach,
      by show z1.doneAnchor.WF; rw [g3]; exact d.wf,
      by show z1.doneAnchor.Coherent; rw [g3]; exact d.coh,
      by show z1.doneAnchor.Level; rw [g3]; exact d.level,
      by
        intro off hoff
        show (z1.frameStart.screen.bank z1.frameStart.screen.active).mem off =
          (z1.doneAnchor.screen.bank z1.doneAnchor.screen.active).mem off
        rw [g5, g3]; exact d.carry off hoff⟩
  unfold VBus.device
  simp only [hz1]
  by_cases hact : (z.ctl.ioDevice p v).screen.active = z.ctl.screen.active
  · rw [if_pos hact]
    have hbank : ∀ i, (z.ctl.ioDevice p v).screen.bank i = z.ctl.screen.bank i := by
      intro i; cases i <;> simp [Screen.bank, b0, b1]
    refine ⟨e2.trans h.mach, w, k, hlev, ?_, ?_, ?_, ?_, ?_, ?_, hdone, ?_⟩
    · show z1.anchor.machine = m; rw [g1]; exact h.amach
    · show z1.anchor.WF; rw [g1]; exact h.awf
    · show z1.anchor.Coherent; rw [g1]; exact h.acoh
    · show z1.anchor.Level; rw [g1]; exact h.alevel
    · show FrameInvP z1.anchor (z.ctl.ioDevice p v)
      rw [g1]
      refine ⟨hact.trans h.inv.active, e8.trans h.inv.flash, e6.trans h.inv.front, ?_, ?_, ?_, ?_, e3.trans h.inv.passed⟩
      · intro off hoff
        rw [hact, hbank]; exact h.inv.vis off hoff
      · rw [e4]; exact h.inv.lo
      · intro q d hq
        rw [e5]; exact h.inv.old q d hq
      · intro q d h1 h2
        rw [e5]
        exact h.inv.new q d h1 (by rw [← e4]; exact h2)
    · show z1.touches = 0 → z1.anchor.screen.last.idx = 0
      rw [g1, g2]; exact h.fresh
    · show z1.touches = 0 → z1.anchor = z1.frameStart
      rw [g1, g2, g5]; exact h.start0
  · rw [if_neg hact]
    exact SGood.touch (z := { z1 with ctl := z.ctl.ioDevice p v }) (e2.trans h.mach) w k hlev hdone

theorem SGood.writeIo {m : Machine} {z : VBus} (h : SGood m z) (p : BitVec 16) (v : BitVec 8) : SGood m (z.writeIo p v) := by
  unfold VBus.writeIo
  exact (((h.ioFirst p).device p v).ioLast p).wait 1 (by omega)

theorem SGood.readIo {m : Machine} {z : VBus} (h : SGood m z) (p : BitVec 16) : SGood m (z.readIo p).2 := by
  have g := ((h.ioFirst p).ioLast p).wait 1 (by omega)
  unfold VBus.readIo
  exact ⟨g.mach, g.wf, g.coh, g.level, g.amach, g.awf, g.acoh, g.alevel, g.inv, g.fresh,
    fun h1 => let d := g.done h1; ⟨d.pixels, d.fresh, d.frame, d.mach, d.wf, d.coh, d.level, d.carry⟩, g.start0⟩

/-! ## following the ghost records (no hypothesis on the state at all) -/

theorem waitInternal_pf (c : Ctl) (clk : Nat) :
    (c.waitInternal clk).passedFrames = c.passedFrames ∨ (c.waitInternal clk).passedFrames = c.passedFrames + 1 := by
  rw [waitInternal_eq]
  split
  · exact Or.inr rfl
  · exact Or.inl rfl

theorem writeInternal_pf (c : Ctl) (a : BitVec 16) (v : BitVec 8) : (c.writeInternal a v).passedFrames = c.passedFrames := by
  unfold Ctl.writeInternal; simp only; split <;> rfl

theorem ioDevice_pf (c : Ctl) (p : BitVec 16) (v : BitVec 8) : (c.ioDevice p v).passedFrames = c.passedFrames := by
  unfold Ctl.ioDevice Ctl.write7ffd
  repeat' split
  all_goals rfl

/-- how the ghost records of `z'` continue those of an earlier `z`: frames are only ever completed;
within the same frame touching events only accumulate, and while there was none the anchor is the
same; when exactly one frame has been completed since, its final record is the continuation of
`z`'s record of the frame then in progress -/
structure Track (z z' : VBus) : Prop where
  mono : z.ctl.passedFrames ≤ z'.ctl.passedFrames
  same : z'.ctl.passedFrames = z.ctl.passedFrames →
    z.touches ≤ z'.touches ∧ (z'.touches = z.touches → z'.anchor = z.anchor) ∧
    z'.doneAnchor = z.doneAnchor ∧ z'.doneTouches = z.doneTouches
  next : z'.ctl.passedFrames = z.ctl.passedFrames + 1 →
    z.touches ≤ z'.doneTouches ∧ (z'.doneTouches = z.touches → z'.doneAnchor = z.anchor)

theorem Track.refl (z : VBus) : Track z z :=
  ⟨Nat.le_refl _, fun _ => ⟨Nat.le_refl _, fun _ => rfl, rfl, rfl⟩, fun h => absurd h (by omega)⟩

theorem Track.trans {a b c : VBus} (h1 : Track a b) (h2 : Track b c) : Track a c := by
  have m1 := h1.mono
  have m2 := h2.mono
  refine ⟨Nat.le_trans m1 m2, fun hc => ?_, fun hc => ?_⟩
  · obtain ⟨a1, a2, a3, a4⟩ := h1.same (by omega)
    obtain ⟨b1, b2, b3, b4⟩ := h2.same (by omega)
    exact ⟨Nat.le_trans a1 b1, fun ht => (b2 (by omega)).trans (a2 (by omega)), b3.trans a3, b4.trans a4⟩
  · by_cases hb : b.ctl.passedFrames = a.ctl.passedFrames
    · obtain ⟨a1, a2, _, _⟩ := h1.same hb
      obtain ⟨b1, b2⟩ := h2.next (by omega)
      exact ⟨Nat.le_trans a1 b1, fun ht => (b2 (by omega)).trans (a2 (by omega))⟩
    · obtain ⟨a1, a2⟩ := h1.next (by omega)
      obtain ⟨_, _, b3, b4⟩ := h2.same (by omega)
      exact ⟨by rw [b4]; exact a1, fun ht => by rw [b3]; exact a2 (by rw [← b4]; exact ht)⟩

theorem Track.pass (z : VBus) (c' : Ctl)
    (h : c'.passedFrames = z.ctl.passedFrames ∨ c'.passedFrames = z.ctl.passedFrames + 1) : Track z (z.pass c') := by
  rcases h with h | h
  · rw [VBus.pass_same _ _ h]
    exact ⟨Nat.le_of_eq h.symm, fun _ => ⟨Nat.le_refl _, fun _ => rfl, rfl, rfl⟩, fun h' => absurd (h.symm.trans h') (by omega)⟩
  · rw [VBus.pass_rot _ _ (by omega)]
    exact ⟨by show z.ctl.passedFrames ≤ c'.passedFrames; omega, fun h' => absurd (h.symm.trans h') (by omega),
      fun _ => ⟨Nat.le_refl _, fun _ => rfl⟩⟩

theorem Track.wait (z : VBus) (clk : Nat) : Track z (z.wait clk) := Track.pass z _ (waitInternal_pf _ _)

theorem Track.waitMreq (z : VBus) (a : BitVec 16) (clk : Nat) : Track z (z.waitMreq a clk) := by
  unfold VBus.waitMreq VBus.doContention
  split
  · exact (Track.wait _ _).trans (Track.wait _ _)
  · exact Track.wait _ _

theorem Track.ioFirst (z : VBus) (p : BitVec 16) : Track z (z.ioFirst p) := by
  unfold VBus.ioFirst VBus.doContention
  split
  · exact (Track.wait _ _).trans (Track.wait _ _)
  · exact Track.wait _ _

theorem Track.ioLast (z : VBus) (p : BitVec 16) : Track z (z.ioLast p) := by
  unfold VBus.ioLast VBus.doContentionAndWait VBus.doContention
  split
  · exact Track.wait _ _
  · split
    · exact ((Track.wait _ _).trans (Track.wait _ _)).trans (Track.wait _ _)
    · exact Track.wait _ _

theorem Track.store (z : VBus) (a : BitVec 16) (v : BitVec 8) : Track z (z.store a v) := by
  have e := writeInternal_pf z.ctl a v
  unfold VBus.store
  simp only
  split
  · exact ⟨Nat.le_of_eq e.symm, fun _ => ⟨Nat.le_succ _, fun h => absurd h (Nat.succ_ne_self _), rfl, rfl⟩,
      fun h' => absurd (e.symm.trans h') (by omega)⟩
  · exact ⟨Nat.le_of_eq e.symm, fun _ => ⟨Nat.le_refl _, fun _ => rfl, rfl, rfl⟩, fun h' => absurd (e.symm.trans h') (by omega)⟩

theorem Track.device (z : VBus) (p : BitVec 16) (v : BitVec 8) : Track z (z.device p v) := by
  have e := ioDevice_pf z.ctl p v
  unfold VBus.device
  simp only
  split <;> split
  all_goals first
    | exact ⟨Nat.le_of_eq e.symm, fun _ => ⟨Nat.le_refl _, fun _ => rfl, rfl, rfl⟩, fun h' => absurd (e.symm.trans h') (by omega)⟩
    | exact ⟨Nat.le_of_eq e.symm, fun _ => ⟨Nat.le_succ _, fun h => absurd h (Nat.succ_ne_self _), rfl, rfl⟩,
        fun h' => absurd (e.symm.trans h') (by omega)⟩

theorem Track.writeIo (z : VBus) (p : BitVec 16) (v : BitVec 8) : Track z (z.writeIo p v) := by
  unfold VBus.writeIo
  exact (((Track.ioFirst _ _).trans (Track.device _ _ _)).trans (Track.ioLast _ _)).trans (Track.wait _ _)

theorem Track.readIo (z : VBus) (p : BitVec 16) : Track z (z.readIo p).2 := by
  have g := ((Track.ioFirst z p).trans (Track.ioLast _ p)).trans (Track.wait _ 1)
  unfold VBus.readIo
  exact ⟨g.mono, g.same, g.next⟩

end ZxVerif.Video
