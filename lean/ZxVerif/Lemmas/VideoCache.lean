/-
C08 helper lemmas: the screen cache (shadow banks) against RAM — `update`, `write_internal`,
`refresh_memory_dependent_devices`, paging, pokes; well-formedness of the controller model.
-/
import ZxVerif.Lemmas.VideoScreen
namespace ZxVerif.Video

/-! ## modifyBank / update -/

theorem modifyBank_bank (s : Screen) (i j : Bool) (f : Bank → Bank) :
    (s.modifyBank i f).bank j = if i = j then f (s.bank j) else s.bank j := by
  cases i <;> cases j <;> simp [Screen.modifyBank, Screen.bank]

theorem modifyBank_fields (s : Screen) (i : Bool) (f : Bank → Bank) :
    (s.modifyBank i f).front = s.front ∧ (s.modifyBank i f).back = s.back ∧
    (s.modifyBank i f).last = s.last ∧ (s.modifyBank i f).active = s.active ∧
    (s.modifyBank i f).flash = s.flash ∧ (s.modifyBank i f).frameCounter = s.frameCounter ∧
    (s.modifyBank i f).machine = s.machine := by
  cases i <;> simp [Screen.modifyBank]

theorem modifyBank_wf (s : Screen) (hwf : s.WF) (i : Bool) (f : Bank → Bank) (hf : (f (s.bank i)).WF) :
    (s.modifyBank i f).WF := by
  cases i
  · exact ⟨hwf.front, hwf.back, by simpa [Screen.modifyBank, Screen.bank] using hf, hwf.bank1, hwf.lastNorm⟩
  · exact ⟨hwf.front, hwf.back, hwf.bank0, by simpa [Screen.modifyBank, Screen.bank] using hf, hwf.lastNorm⟩

theorem ofNat16_toNat (off : Nat) (h : off < 65536) : (BitVec.ofNat 16 off).toNat = off := by
  simp only [BitVec.toNat_ofNat]
  omega

theorem setBitmap_mem (bk : Bank) (hwf : bk.WF) (off o : Nat) (ho : off < 0x1800) (v : BitVec 8) :
    (bk.setBitmap (bitmapLineRel (BitVec.ofNat 16 off) * 32 + bitmapColRel (BitVec.ofNat 16 off)) v).mem o
      = if o = off then v else bk.mem o := by
  obtain ⟨_, hl, hc⟩ := encode_decode off ho
  by_cases h1 : o < 0x1800
  · rw [Bank.mem_lo _ _ h1]
    by_cases h2 : o = off
    · subst h2
      simp only [Bank.setBitmap, getD_set, if_true, true_and]
      rw [if_pos (by rw [hwf.bitmap]; omega)]
    · rw [if_neg h2, Bank.mem_lo _ _ h1]
      simp only [Bank.setBitmap, getD_set]
      rw [if_neg]
      intro hh
      exact h2 (shadowIdx_inj o off h1 ho hh.1.symm)
  · have h2 : o ≠ off := by omega
    rw [if_neg h2]
    unfold Bank.mem
    rw [if_neg h1, if_neg h1]
    rfl

theorem setAttr_mem (bk : Bank) (hwf : bk.WF) (i o : Nat) (hi : i < 768) (v : BitVec 8) :
    (bk.setAttr i (Attr.fromByte v)).mem o = if o = 0x1800 + i then v else bk.mem o := by
  by_cases h1 : o < 0x1800
  · have h2 : o ≠ 0x1800 + i := by omega
    rw [if_neg h2, Bank.mem_lo _ _ h1, Bank.mem_lo _ _ h1]
    rfl
  · obtain ⟨k, rfl⟩ : ∃ k, o = 0x1800 + k := ⟨o - 0x1800, by omega⟩
    rw [Bank.mem_attr, Bank.mem_attr]
    simp only [Bank.setAttr, getD_set]
    by_cases h2 : i = k
    · subst h2
      rw [if_pos ⟨rfl, by rw [hwf.attrs]; exact hi⟩, if_pos rfl, Attr.toByte_fromByte]
    · rw [if_neg (by omega), if_neg (by omega)]

theorem setBitmap_wf (bk : Bank) (hwf : bk.WF) (i : Nat) (v : BitVec 8) : (bk.setBitmap i v).WF :=
  ⟨by simp [Bank.setBitmap, hwf.bitmap], by simp [Bank.setBitmap, hwf.attrs]⟩

theorem setAttr_wf (bk : Bank) (hwf : bk.WF) (i : Nat) (a : Attr) : (bk.setAttr i a).WF :=
  ⟨by simp [Bank.setAttr, hwf.bitmap], by simp [Bank.setAttr, hwf.attrs]⟩

/-- `update` on a RAM bank that is not a screen bank does nothing -/
theorem update_none (s : Screen) (rel : BitVec 16) (bank : Nat) (d : BitVec 8)
    (h : localBank s.machine bank = none) : s.update rel bank d = s := by
  unfold Screen.update
  rw [h]

/-- **Specification of `update`**: exactly the byte at `off` of the addressed shadow bank changes
(if `off` lies in the 6912 screen bytes); nothing else does. -/
theorem update_spec (s : Screen) (hwf : s.WF) (off bank : Nat) (lb : Bool) (d : BitVec 8) (hoff : off < 65536)
    (h : localBank s.machine bank = some lb) :
    (s.update (BitVec.ofNat 16 off) bank d).WF ∧
    (∀ o, ((s.update (BitVec.ofNat 16 off) bank d).bank lb).mem o =
      if o = off ∧ off < 0x1B00 then d else (s.bank lb).mem o) ∧
    (s.update (BitVec.ofNat 16 off) bank d).bank (!lb) = s.bank (!lb) ∧
    (s.update (BitVec.ofNat 16 off) bank d).front = s.front ∧
    (s.update (BitVec.ofNat 16 off) bank d).back = s.back ∧
    (s.update (BitVec.ofNat 16 off) bank d).last = s.last ∧
    (s.update (BitVec.ofNat 16 off) bank d).active = s.active ∧
    (s.update (BitVec.ofNat 16 off) bank d).flash = s.flash ∧
    (s.update (BitVec.ofNat 16 off) bank d).frameCounter = s.frameCounter ∧
    (s.update (BitVec.ofNat 16 off) bank d).machine = s.machine := by
  unfold Screen.update
  rw [h]
  simp only [ofNat16_toNat off hoff, attrCols]
  by_cases h1 : off ≤ 0x17FF
  · rw [if_pos h1]
    obtain ⟨f1, f2, f3, f4, f5, f6, f7⟩ := modifyBank_fields s lb
      (·.setBitmap (bitmapLineRel (BitVec.ofNat 16 off) * 32 + bitmapColRel (BitVec.ofNat 16 off)) d)
    refine ⟨modifyBank_wf _ hwf _ _ (setBitmap_wf _ (hwf.bank lb) _ _), ?_, ?_, f1, f2, f3, f4, f5, f6, f7⟩
    · intro o
      rw [modifyBank_bank, if_pos rfl, setBitmap_mem _ (hwf.bank lb) _ _ (by omega)]
      by_cases h2 : o = off
      · rw [if_pos h2, if_pos ⟨h2, by omega⟩]
      · rw [if_neg h2, if_neg (by omega)]
    · rw [modifyBank_bank, if_neg (by cases lb <;> simp)]
  · rw [if_neg h1]
    by_cases h2 : off ≤ 0x1AFF
    · rw [if_pos h2]
      have hidx : attrRowRel (BitVec.ofNat 16 off) * 32 + attrColRel (BitVec.ofNat 16 off) = off - 0x1800 := by
        unfold attrRowRel attrColRel
        rw [ofNat16_toNat off hoff]
        omega
      rw [hidx]
      obtain ⟨f1, f2, f3, f4, f5, f6, f7⟩ := modifyBank_fields s lb (·.setAttr (off - 0x1800) (Attr.fromByte d))
      refine ⟨modifyBank_wf _ hwf _ _ (setAttr_wf _ (hwf.bank lb) _ _), ?_, ?_, f1, f2, f3, f4, f5, f6, f7⟩
      · intro o
        rw [modifyBank_bank, if_pos rfl, setAttr_mem _ (hwf.bank lb) _ _ (by omega)]
        by_cases h3 : o = off
        · rw [if_pos (by omega), if_pos ⟨h3, by omega⟩]
        · rw [if_neg (by omega), if_neg (by omega)]
      · rw [modifyBank_bank, if_neg (by cases lb <;> simp)]
    · rw [if_neg h2]
      refine ⟨hwf, ?_, rfl, rfl, rfl, rfl, rfl, rfl, rfl, rfl⟩
      intro o
      rw [if_neg (by omega)]

/-! ## process_clocks / new_frame leave the cache alone (no beam hypothesis needed) -/

theorem processClocks_frame (s : Screen) (hwf : s.WF) (c : Nat) :
    (s.processClocks c).WF ∧ (s.processClocks c).front = s.front ∧ (s.processClocks c).bank0 = s.bank0 ∧
    (s.processClocks c).bank1 = s.bank1 ∧ (s.processClocks c).active = s.active ∧
    (s.processClocks c).flash = s.flash ∧ (s.processClocks c).frameCounter = s.frameCounter ∧
    (s.processClocks c).machine = s.machine := by
  by_cases hcount : (Blocks.fromClocks s.machine c).passedFrom s.last > 0
  · rw [processClocks_pos s c hcount]
    refine ⟨⟨hwf.front, ?_, hwf.bank0, hwf.bank1, fromClocks_norm _ _⟩, rfl, rfl, rfl, rfl, rfl, rfl, rfl⟩
    show (drawBlocks _ _ _ _ _).size = _
    rw [drawBlocks_size, hwf.back]
  · rw [processClocks_zero s c hcount]
    exact ⟨hwf, rfl, rfl, rfl, rfl, rfl, rfl, rfl⟩

theorem processClocks_bank (s : Screen) (hwf : s.WF) (c : Nat) (i : Bool) :
    (s.processClocks c).bank i = s.bank i := by
  obtain ⟨_, _, h0, h1, _⟩ := processClocks_frame s hwf c
  cases i <;> simp [Screen.bank, h0, h1]

theorem newFrame_wf (s : Screen) (hwf : s.WF) : s.newFrame.WF :=
  ⟨hwf.back, hwf.front, hwf.bank0, hwf.bank1, ⟨by simp [Screen.newFrame], by simp [Screen.newFrame], by simp [Screen.newFrame]⟩⟩

/-! ## the controller -/

def ramPages : Machine → Nat
  | .k48 => 3
  | .k128 => 8

theorem phase_step (n : Nat) :
    (if n % 16 = 0 then !Spec.phaseAt Spec.codePhaseOrigin n else Spec.phaseAt Spec.codePhaseOrigin n)
      = Spec.phaseAt Spec.codePhaseOrigin (n + 1) := by
  unfold Spec.phaseAt Spec.codePhaseOrigin
  by_cases h : n % 16 = 0
  · rw [if_pos h]
    by_cases h2 : (n + 15) / 16 % 2 = 1
    · have : ¬ ((n + 1 + 15) / 16 % 2 = 1) := by omega
      simp [h2, this]
    · have : (n + 1 + 15) / 16 % 2 = 1 := by omega
      simp [h2, this]
  · rw [if_neg h]
    have : ((n + 1 + 15) / 16 % 2 = 1) ↔ ((n + 15) / 16 % 2 = 1) := by omega
    simp [this]

structure Ctl.WF (c : Ctl) : Prop where
  screen : c.screen.WF
  mach : c.screen.machine = c.machine
  ramSize : c.mem.ram.size = ramPages c.machine * 16384
  mapSize : c.mem.map.size = 4
  mapOk : ∀ i p, c.mem.map.getD i (.rom 0) = .ram p → p < ramPages c.machine
  active : c.screen.active = (match c.machine with | .k48 => false | .k128 => c.port7ffd.getLsbD 3)
  counter : c.screen.frameCounter = c.passedFrames
  paging48 : c.machine = .k48 → c.pagingEnabled = false
  map0 : ∃ r, c.mem.map.getD 0 (.rom 0) = .rom r
  map2 : c.mem.map.getD 2 (.rom 0) = .ram (match c.machine with | .k48 => 1 | .k128 => 2)
  /-- the flash phase is a function of the number of frames: toggled at the first frame end, then every 16 -/
  flashInv : c.screen.flash = Spec.phaseAt Spec.codePhaseOrigin c.screen.frameCounter

/-- the screen cache agrees with RAM: every shadow bank stands for the first 6912 bytes of its RAM bank -/
def Ctl.Coherent (c : Ctl) : Prop :=
  ∀ rb lb, localBank c.machine rb = some lb → ∀ off, off < 0x1B00 → (c.screen.bank lb).mem off = c.mem.ramByte rb off

theorem localBank_lt (m : Machine) (rb : Nat) (lb : Bool) (h : localBank m rb = some lb) : rb < ramPages m := by
  cases m <;> simp only [localBank, ramPages] at * <;> split at h <;> simp_all <;> omega

theorem localBank_inj (m : Machine) (rb rb' : Nat) (lb : Bool) (h : localBank m rb = some lb)
    (h' : localBank m rb' = some lb) : rb = rb' := by
  cases m <;> simp only [localBank] at * <;> (repeat' split at h) <;> (repeat' split at h') <;> simp_all

theorem Ctl.new_wf (m : Machine) : (Ctl.new m).WF := by
  refine ⟨Screen.new_wf m, rfl, ?_, ?_, ?_, ?_, rfl, ?_, ?_, ?_, by cases m <;> decide⟩
  rotate_right 2
  · cases m <;> exact ⟨0, rfl⟩
  · cases m <;> rfl
  · cases m <;> simp [Ctl.new, Mem.new, ramPages]
  · cases m <;> simp [Ctl.new, Mem.new]
  · intro i p
    cases m <;> simp only [Ctl.new, Mem.new, ramPages] <;>
      (rcases i with _ | _ | _ | _ | i <;> simp [Array.getD] <;>
        first | (intros; omega) | (intro h; split at h <;> first | omega | cases h))
  · cases m <;> simp [Ctl.new, Screen.new]
  · intro h; subst h; rfl

theorem Ctl.new_coherent (m : Machine) : (Ctl.new m).Coherent := by
  intro rb lb _ off hoff
  have hb : ((Ctl.new m).screen.bank lb) = Bank.empty := by cases lb <;> rfl
  rw [hb]
  have hr : (Ctl.new m).mem.ramByte rb off = 0 := by
    cases m <;> simp only [Ctl.new, Mem.new, Mem.ramByte, getD_replicate] <;> split <;> rfl
  rw [hr]
  unfold Bank.mem Bank.empty
  split
  · simp only [getD_replicate]
    split <;> rfl
  · simp only [getD_replicate]
    split <;> decide

/-! ### RAM writes -/

theorem Mem.ramByte_write (m : Mem) (a : BitVec 16) (v : BitVec 8) (p rb off : Nat) (hp : m.getPage a = .ram p)
    (hin : (p + 1) * 16384 ≤ m.ram.size) (hoff : off < 16384) :
    (m.write a v).ramByte rb off = if rb = p ∧ off = a.toNat % 16384 then v else m.ramByte rb off := by
  unfold Mem.write Mem.ramByte
  rw [hp]
  simp only [getD_set, pageSize]
  by_cases h : rb = p ∧ off = a.toNat % 16384
  · rw [if_pos h, if_pos ⟨by omega, by omega⟩]
  · rw [if_neg h, if_neg (by omega)]

theorem Mem.ramByte_forceWrite_ram (m : Mem) (a : BitVec 16) (v : BitVec 8) (p rb off : Nat)
    (hp : m.getPage a = .ram p) (hin : (p + 1) * 16384 ≤ m.ram.size) (hoff : off < 16384) :
    (m.forceWrite a v).ramByte rb off = if rb = p ∧ off = a.toNat % 16384 then v else m.ramByte rb off := by
  unfold Mem.forceWrite Mem.ramByte
  rw [hp]
  simp only [getD_set, pageSize]
  by_cases h : rb = p ∧ off = a.toNat % 16384
  · rw [if_pos h, if_pos ⟨by omega, by omega⟩]
  · rw [if_neg h, if_neg (by omega)]

theorem Mem.write_fields (m : Mem) (a : BitVec 16) (v : BitVec 8) :
    (m.write a v).map = m.map ∧ (m.write a v).ram.size = m.ram.size := by
  unfold Mem.write
  split <;> simp

theorem Mem.forceWrite_fields (m : Mem) (a : BitVec 16) (v : BitVec 8) :
    (m.forceWrite a v).map = m.map ∧ (m.forceWrite a v).ram.size = m.ram.size := by
  unfold Mem.forceWrite
  split <;> simp

theorem Mem.getPage_of_map (m m' : Mem) (h : m'.map = m.map) (a : BitVec 16) : m'.getPage a = m.getPage a := by
  unfold Mem.getPage; rw [h]

/-! ### time passing: `wait_internal` and everything built from it -/

theorem waitInternal_eq (c : Ctl) (clk : Nat) : c.waitInternal clk =
    if c.frameClocks + clk ≥ c.machine.clocksFrame then
      { c with
        frameClocks := c.frameClocks + clk - c.machine.clocksFrame
        screen := (c.screen.processClocks (c.frameClocks + clk)).newFrame
        border := c.border.newFrame
        passedFrames := c.passedFrames + 1 }
    else { c with frameClocks := c.frameClocks + clk, screen := c.screen.processClocks (c.frameClocks + clk) } := by
  unfold Ctl.waitInternal Ctl.newFrame
  simp only

/-- `c'` has the same memory, paging state and screen cache as `c` (and is well-formed) -/
structure Ctl.Same (c c' : Ctl) : Prop where
  wf : c'.WF
  mem : c'.mem = c.mem
  bank0 : c'.screen.bank0 = c.screen.bank0
  bank1 : c'.screen.bank1 = c.screen.bank1
  machine : c'.machine = c.machine
  port : c'.port7ffd = c.port7ffd
  paging : c'.pagingEnabled = c.pagingEnabled
  sbank : c'.screenBank = c.screenBank

theorem Ctl.Same.refl {c : Ctl} (h : c.WF) : c.Same c := ⟨h, rfl, rfl, rfl, rfl, rfl, rfl, rfl⟩

theorem Ctl.Same.trans {a b c : Ctl} (h1 : a.Same b) (h2 : b.Same c) : a.Same c :=
  ⟨h2.wf, h2.mem.trans h1.mem, h2.bank0.trans h1.bank0, h2.bank1.trans h1.bank1, h2.machine.trans h1.machine,
   h2.port.trans h1.port, h2.paging.trans h1.paging, h2.sbank.trans h1.sbank⟩

theorem Ctl.Same.bank {c c' : Ctl} (h : c.Same c') (i : Bool) : c'.screen.bank i = c.screen.bank i := by
  cases i <;> simp [Screen.bank, h.bank0, h.bank1]

theorem Ctl.Same.coherent {c c' : Ctl} (h : c.Same c') (hc : c.Coherent) : c'.Coherent := by
  intro rb lb hl off hoff
  rw [h.machine] at hl
  rw [h.bank, h.mem]
  exact hc rb lb hl off hoff

theorem waitInternal_same (c : Ctl) (h : c.WF) (clk : Nat) : c.Same (c.waitInternal clk) := by
  obtain ⟨w, f1, f2, f3, f4, f5, f6, f7⟩ := processClocks_frame c.screen h.screen (c.frameClocks + clk)
  rw [waitInternal_eq]
  split
  · refine ⟨⟨newFrame_wf _ w, ?_, h.ramSize, h.mapSize, h.mapOk, ?_, ?_, h.paging48, h.map0, h.map2, ?_⟩, rfl, ?_, ?_, rfl, rfl, rfl, rfl⟩
    · show (c.screen.processClocks _).newFrame.machine = c.machine
      simp only [Screen.newFrame, f7, h.mach]
    · show (c.screen.processClocks _).newFrame.active = _
      simp only [Screen.newFrame, f4]
      exact h.active
    · show (c.screen.processClocks _).newFrame.frameCounter = c.passedFrames + 1
      simp only [Screen.newFrame, f6, h.counter]
    · show (c.screen.processClocks _).newFrame.flash = Spec.phaseAt _ (c.screen.processClocks _).newFrame.frameCounter
      simp only [Screen.newFrame, f5, f6, h.flashInv]
      exact phase_step _
    · show (c.screen.processClocks _).newFrame.bank0 = _
      simp only [Screen.newFrame, f2]
    · show (c.screen.processClocks _).newFrame.bank1 = _
      simp only [Screen.newFrame, f3]
  · exact ⟨⟨w, f7.trans h.mach, h.ramSize, h.mapSize, h.mapOk, f4.trans h.active, f6.trans h.counter, h.paging48, h.map0, h.map2,
        by rw [f5, f6]; exact h.flashInv⟩,
      rfl, f2, f3, rfl, rfl, rfl, rfl⟩

theorem doContention_same (c : Ctl) (h : c.WF) : c.Same c.doContention := waitInternal_same c h _

theorem doContentionAndWait_same (c : Ctl) (h : c.WF) (w : Nat) : c.Same (c.doContentionAndWait w) :=
  waitInternal_same c h _

theorem waitMreq_same (c : Ctl) (h : c.WF) (a : BitVec 16) (clk : Nat) : c.Same (c.waitMreq a clk) := by
  unfold Ctl.waitMreq
  split
  · exact (doContention_same c h).trans (waitInternal_same _ (doContention_same c h).wf _)
  · exact waitInternal_same c h _

theorem ioContentionFirst_same (c : Ctl) (h : c.WF) (p : BitVec 16) : c.Same (c.ioContentionFirst p) := by
  unfold Ctl.ioContentionFirst
  split
  · exact (doContention_same c h).trans (waitInternal_same _ (doContention_same c h).wf _)
  · exact waitInternal_same c h _

theorem ioContentionLast_same (c : Ctl) (h : c.WF) (p : BitVec 16) : c.Same (c.ioContentionLast p) := by
  unfold Ctl.ioContentionLast
  split
  · exact doContentionAndWait_same c h _
  · split
    · have h1 := doContentionAndWait_same c h 1
      have h2 := doContentionAndWait_same _ h1.wf 1
      exact (h1.trans h2).trans (doContention_same _ h2.wf)
    · exact waitInternal_same c h _

/-! ### `write_internal`, pokes -/

theorem writeInternal_good (c : Ctl) (h : c.WF) (hc : c.Coherent) (a : BitVec 16) (v : BitVec 8) :
    (c.writeInternal a v).WF ∧ (c.writeInternal a v).Coherent := by
  obtain ⟨hm, hs⟩ := Mem.write_fields c.mem a v
  unfold Ctl.writeInternal
  simp only [Mem.getPage_of_map _ _ hm]
  cases hp : c.mem.getPage a with
  | rom p =>
    simp only
    have hw : c.mem.write a v = c.mem := by unfold Mem.write; rw [hp]
    rw [hw]
    exact ⟨h, hc⟩
  | ram p =>
    simp only
    have hplt : p < ramPages c.machine := h.mapOk _ _ hp
    have hin : (p + 1) * 16384 ≤ c.mem.ram.size := by rw [h.ramSize]; omega
    have hoff : a.toNat % pageSize < 16384 := by unfold pageSize; omega
    cases hl : localBank c.machine p with
    | none =>
      rw [update_none _ _ _ _ (by rw [h.mach]; exact hl)]
      refine ⟨⟨h.screen, h.mach, by rw [hs]; exact h.ramSize, by rw [hm]; exact h.mapSize,
        by rw [hm]; exact h.mapOk, h.active, h.counter, h.paging48, by rw [hm]; exact h.map0, by rw [hm]; exact h.map2,
        h.flashInv⟩, ?_⟩
      intro rb lb hrl off hoff'
      show (c.screen.bank lb).mem off = (c.mem.write a v).ramByte rb off
      rw [Mem.ramByte_write _ _ _ _ _ _ hp hin (by omega), if_neg]
      · exact hc rb lb hrl off hoff'
      · rintro ⟨rfl, _⟩
        rw [hl] at hrl
        cases hrl
    | some lb =>
      obtain ⟨w, u1, u2, _, _, _, u7, u8, u9, u10⟩ :=
        update_spec c.screen h.screen (a.toNat % pageSize) p lb v (by omega) (by rw [h.mach]; exact hl)
      refine ⟨⟨w, u10.trans h.mach, by rw [hs]; exact h.ramSize, by rw [hm]; exact h.mapSize,
        by rw [hm]; exact h.mapOk, u7.trans h.active, u9.trans h.counter, h.paging48, by rw [hm]; exact h.map0, by rw [hm]; exact h.map2,
        by rw [u8, u9]; exact h.flashInv⟩, ?_⟩
      intro rb lb' hrl off hoff'
      show ((c.screen.update _ p v).bank lb').mem off = (c.mem.write a v).ramByte rb off
      rw [Mem.ramByte_write _ _ _ _ _ _ hp hin (by omega)]
      by_cases hlb : lb' = lb
      · subst hlb
        have : rb = p := localBank_inj _ _ _ _ hrl hl
        subst this
        rw [u1 off]
        unfold pageSize
        by_cases ho : off = a.toNat % 16384
        · rw [if_pos ⟨ho, by omega⟩, if_pos ⟨rfl, ho⟩]
        · rw [if_neg (by omega), if_neg (by omega)]
          exact hc _ _ hrl off hoff'
      · have hne : rb ≠ p := by
          rintro rfl
          rw [hl] at hrl
          exact hlb (Option.some.inj hrl).symm
        have hb : lb' = !lb := by cases lb <;> cases lb' <;> simp_all
        rw [hb, u2, if_neg (by omega), ← hb]
        exact hc _ _ hrl off hoff'

theorem write_good (c : Ctl) (h : c.WF) (hc : c.Coherent) (a : BitVec 16) (v : BitVec 8) (clk : Nat) :
    (c.write a v clk).WF ∧ (c.write a v clk).Coherent := by
  have hs := waitMreq_same c h a clk
  exact writeInternal_good _ hs.wf (hs.coherent hc) a v

/-! ### paging latch, border -/

theorem latch_bit3 : ∀ v : BitVec 8, (if v &&& 0x08 = 0 then (5 : Nat) else 7) = if v.getLsbD 3 then 7 else 5 := by
  decide

theorem latch_lt : ∀ v : BitVec 8, (v &&& 0x07).toNat < 8 := by decide

theorem switchBank_k128 (s : Screen) (hm : s.machine = .k128) (b : Bool) :
    s.switchBank (if b then 7 else 5) = { s with active := b } := by
  unfold Screen.switchBank
  have : localBank s.machine (if b then 7 else 5) = some b := by rw [hm]; cases b <;> rfl
  rw [this]

theorem write7ffd_good (c : Ctl) (h : c.WF) (hc : c.Coherent) (v : BitVec 8) :
    (c.write7ffd v).WF ∧ (c.write7ffd v).Coherent := by
  unfold Ctl.write7ffd
  cases hp : c.pagingEnabled with
  | false => exact ⟨h, hc⟩
  | true =>
    have hm : c.machine = .k128 := by
      cases hmm : c.machine with
      | k48 => rw [h.paging48 hmm] at hp; cases hp
      | k128 => rfl
    simp only [Bool.not_true, Bool.false_eq_true, if_false]
    rw [latch_bit3]
    rw [switchBank_k128 _ (h.mach.trans hm)]
    refine ⟨⟨⟨h.screen.front, h.screen.back, h.screen.bank0, h.screen.bank1, h.screen.lastNorm⟩, h.mach, ?_, ?_, ?_, ?_,
      h.counter, ?_, ?_, ?_, h.flashInv⟩, ?_⟩
    · simpa [Mem.remap] using h.ramSize
    · simpa [Mem.remap] using h.mapSize
    · intro i p
      simp only [Mem.remap, getD_set, Array.size_setIfInBounds]
      rw [hm]
      split
      · intro hh; cases hh
      · split
        · intro hh
          have := latch_lt v
          cases hh
          simpa [ramPages] using this
        · intro hh
          have := h.mapOk i p hh
          rwa [hm] at this
    · show v.getLsbD 3 = _
      rw [hm]
    · intro hh; rw [hm] at hh; cases hh
    · refine ⟨((v >>> 4) &&& 0x01).toNat, ?_⟩
      simp [Mem.remap, getD_set, h.mapSize]
    · simp only [Mem.remap, getD_set, Array.size_setIfInBounds]
      rw [if_neg (by omega), if_neg (by omega)]
      exact h.map2
    · intro rb lb hl off hoff
      exact hc rb lb hl off hoff

theorem setBorderColor_same (c : Ctl) (h : c.WF) (clk : Nat) (col : BitVec 3) : c.Same (c.setBorderColor clk col) :=
  ⟨⟨h.screen, h.mach, h.ramSize, h.mapSize, h.mapOk, h.active, h.counter, h.paging48, h.map0, h.map2, h.flashInv⟩,
    rfl, rfl, rfl, rfl, rfl, rfl, rfl⟩

theorem writeIo_good (c : Ctl) (h : c.WF) (hc : c.Coherent) (p : BitVec 16) (v : BitVec 8) :
    (c.writeIo p v).WF ∧ (c.writeIo p v).Coherent := by
  unfold Ctl.writeIo
  have s1 := ioContentionFirst_same c h p
  have hc1 := s1.coherent hc
  generalize c.ioContentionFirst p = c1 at s1 hc1
  have key : ∀ c2 : Ctl, c2.WF → c2.Coherent →
      ((c2.ioContentionLast p).waitInternal 1).WF ∧ ((c2.ioContentionLast p).waitInternal 1).Coherent := by
    intro c2 w2 k2
    have s2 := ioContentionLast_same c2 w2 p
    have s3 := waitInternal_same _ s2.wf 1
    exact ⟨s3.wf, (s2.trans s3).coherent k2⟩
  simp only
  split
  · exact key _ s1.wf hc1
  · split
    · exact key _ s1.wf hc1
    · split
      · have s := setBorderColor_same c1 s1.wf c1.frameClocks ((v &&& 0x07).setWidth 3)
        exact key _ s.wf (s.coherent hc1)
      · split
        · obtain ⟨w, k⟩ := write7ffd_good c1 s1.wf hc1 v
          exact key _ w k
        · exact key _ s1.wf hc1

/-! ### `refresh_memory_dependent_devices` establishes coherence from any well-formed state -/

theorem refreshBank_spec (s : Screen) (hwf : s.WF) (mem : Mem) (bank : Nat) (lb : Bool)
    (hl : localBank s.machine bank = some lb) :
    ∀ n, n ≤ 16384 →
      (refreshBank s mem bank n).WF ∧
      (∀ o, o < 0x1B00 → ((refreshBank s mem bank n).bank lb).mem o =
        if o < n then mem.ramByte bank o else (s.bank lb).mem o) ∧
      (refreshBank s mem bank n).bank (!lb) = s.bank (!lb) ∧
      (refreshBank s mem bank n).active = s.active ∧
      (refreshBank s mem bank n).frameCounter = s.frameCounter ∧
      (refreshBank s mem bank n).machine = s.machine ∧
      (refreshBank s mem bank n).flash = s.flash := by
  intro n
  induction n with
  | zero =>
    intro _
    refine ⟨hwf, ?_, rfl, rfl, rfl, rfl, rfl⟩
    intro o _
    rw [if_neg (by omega)]
    rfl
  | succ n ih =>
    intro hn
    obtain ⟨w, i1, i2, i3, i4, i5, i6⟩ := ih (by omega)
    simp only [refreshBank]
    obtain ⟨w', u1, u2, _, _, _, u7, u8, u9, u10⟩ :=
      update_spec (refreshBank s mem bank n) w n bank lb (mem.ramByte bank n) (by omega) (by rw [i5]; exact hl)
    refine ⟨w', ?_, u2.trans i2, u7.trans i3, u9.trans i4, u10.trans i5, u8.trans i6⟩
    intro o ho
    rw [u1 o]
    by_cases h1 : o = n
    · subst h1
      rw [if_pos ⟨rfl, ho⟩, if_pos (by omega)]
    · rw [if_neg (by omega), i1 o ho]
      by_cases h2 : o < n
      · rw [if_pos h2, if_pos (by omega)]
      · rw [if_neg h2, if_neg (by omega)]

/-- after `refresh` the cache is coherent whatever it was before (only well-formedness is needed) -/
theorem refresh_k48 (c : Ctl) (hm : c.machine = .k48) :
    c.refresh = { c with screen := refreshBank c.screen c.mem 0 pageSize } := by
  unfold Ctl.refresh
  rw [hm]

theorem refresh_k128 (c : Ctl) (hm : c.machine = .k128) :
    c.refresh = { c with screen := refreshBank (refreshBank c.screen c.mem 5 pageSize) c.mem 7 pageSize } := by
  unfold Ctl.refresh
  rw [hm]

theorem refresh_good (c : Ctl) (h : c.WF) : c.refresh.WF ∧ c.refresh.Coherent := by
  cases hm : c.machine with
  | k48 =>
    rw [refresh_k48 c hm]
    obtain ⟨w, r1, _, r3, r4, r5, r6⟩ := refreshBank_spec c.screen h.screen c.mem 0 false
      (by rw [h.mach, hm]; rfl) pageSize (Nat.le_refl _)
    generalize refreshBank c.screen c.mem 0 pageSize = s1 at *
    refine ⟨⟨w, r5.trans h.mach, h.ramSize, h.mapSize, h.mapOk, r3.trans h.active, r4.trans h.counter,
      h.paging48, h.map0, h.map2, by rw [r6, r4]; exact h.flashInv⟩, ?_⟩
    intro rb lb hl off hoff
    have hl' : localBank .k48 rb = some lb := by rw [← hm]; exact hl
    have : rb = 0 ∧ lb = false := by
      simp only [localBank] at hl'
      split at hl' <;> simp_all
    obtain ⟨rfl, rfl⟩ := this
    show (s1.bank false).mem off = _
    rw [r1 off hoff, if_pos (by unfold pageSize; omega)]
  | k128 =>
    rw [refresh_k128 c hm]
    obtain ⟨w, r1, r2, r3, r4, r5, r6⟩ := refreshBank_spec c.screen h.screen c.mem 5 false
      (by rw [h.mach, hm]; rfl) pageSize (Nat.le_refl _)
    generalize refreshBank c.screen c.mem 5 pageSize = s1 at *
    obtain ⟨w', q1, q2, q3, q4, q5, q6⟩ := refreshBank_spec s1 w c.mem 7 true
      (by rw [r5, h.mach, hm]; rfl) pageSize (Nat.le_refl _)
    generalize refreshBank s1 c.mem 7 pageSize = s2 at *
    refine ⟨⟨w', (q5.trans r5).trans h.mach, h.ramSize, h.mapSize, h.mapOk, (q3.trans r3).trans h.active,
      (q4.trans r4).trans h.counter, h.paging48, h.map0, h.map2, by rw [q6, q4, r6, r4]; exact h.flashInv⟩, ?_⟩
    intro rb lb hl' off hoff
    have hl : localBank .k128 rb = some lb := by rw [← hm]; exact hl'
    simp only [localBank] at hl
    split at hl
    · cases hl
      subst rb
      show (s2.bank false).mem off = _
      have := q2
      simp only [Bool.not_true] at this
      rw [this, r1 off hoff, if_pos (by unfold pageSize; omega)]
    · split at hl
      · cases hl
        subst rb
        show (s2.bank true).mem off = _
        rw [q1 off hoff, if_pos (by unfold pageSize; omega)]
      · cases hl

theorem copyBytes_size (bs : List (BitVec 8)) : ∀ (ram : Array (BitVec 8)) (pos : Nat),
    (copyBytes ram pos bs).size = ram.size := by
  induction bs with
  | nil => intro _ _; rfl
  | cons b bs ih => intro ram pos; simp [copyBytes, ih]

theorem withMem_wf (c : Ctl) (h : c.WF) (mem : Mem) (hmap : mem.map = c.mem.map) (hsz : mem.ram.size = c.mem.ram.size) :
    ({ c with mem := mem } : Ctl).WF :=
  ⟨h.screen, h.mach, hsz.trans h.ramSize, by rw [hmap]; exact h.mapSize, by rw [hmap]; exact h.mapOk, h.active,
    h.counter, h.paging48, by rw [hmap]; exact h.map0, by rw [hmap]; exact h.map2, h.flashInv⟩

theorem loadPage_fields (m : Mem) (bank : Nat) (bs : List (BitVec 8)) :
    (m.loadPage bank bs).map = m.map ∧ (m.loadPage bank bs).ram.size = m.ram.size :=
  ⟨rfl, copyBytes_size _ _ _⟩

theorem loadScr_good (c : Ctl) (h : c.WF) (hc : c.Coherent) (bs : List (BitVec 8)) :
    (c.loadScr bs).WF ∧ (c.loadScr bs).Coherent := by
  unfold Ctl.loadScr
  split
  · exact ⟨h, hc⟩
  · obtain ⟨w1, k1⟩ := write_good c h hc 0x8000 0xC3 0
    obtain ⟨w2, k2⟩ := write_good _ w1 k1 0x8001 0x00 0
    obtain ⟨w3, _⟩ := write_good _ w2 k2 0x8002 0x80 0
    obtain ⟨e1, e2⟩ := loadPage_fields ((((c.write 0x8000 0xC3 0).write 0x8001 0x00 0).write 0x8002 0x80 0).mem) ‹Nat› (bs.take 6912)
    exact refresh_good _ (withMem_wf _ w3 _ e1 e2)

theorem loadPages_good (c : Ctl) (h : c.WF) (ps : List (Nat × List (BitVec 8))) :
    (c.loadPages ps).WF ∧ (c.loadPages ps).Coherent := by
  unfold Ctl.loadPages
  have : ∀ (ps : List (Nat × List (BitVec 8))) (m : Mem), m.map = c.mem.map → m.ram.size = c.mem.ram.size →
      (ps.foldl (fun m (p : Nat × List (BitVec 8)) => m.loadPage p.1 (p.2.take pageSize)) m).map = c.mem.map ∧
      (ps.foldl (fun m (p : Nat × List (BitVec 8)) => m.loadPage p.1 (p.2.take pageSize)) m).ram.size = c.mem.ram.size := by
    intro ps
    induction ps with
    | nil => intro m h1 h2; exact ⟨h1, h2⟩
    | cons p ps ih =>
      intro m h1 h2
      obtain ⟨e1, e2⟩ := loadPage_fields m p.1 (p.2.take pageSize)
      exact ih _ (e1.trans h1) (e2.trans h2)
  obtain ⟨e1, e2⟩ := this ps c.mem rfl rfl
  exact refresh_good _ (withMem_wf _ h _ e1 e2)

/-! ### pokes -/

theorem forceWrite_ram (m : Mem) (a : BitVec 16) (v : BitVec 8) (p : Nat) (hp : m.getPage a = .ram p) :
    m.forceWrite a v = m.write a v := by
  unfold Mem.forceWrite Mem.write
  rw [hp]

theorem forceWrite_rom_ram (m : Mem) (a : BitVec 16) (v : BitVec 8) (p : Nat) (hp : m.getPage a = .rom p) :
    (m.forceWrite a v).ram = m.ram := by
  unfold Mem.forceWrite
  rw [hp]

/-- the repaired poke of a RAM address is exactly `write_internal` (no clock passes, nothing is rendered) -/
theorem poke_fixed_ram (c : Ctl) (a : BitVec 16) (v : BitVec 8) (p : Nat) (hp : c.mem.getPage a = .ram p) :
    c.poke true a v = c.writeInternal a v := by
  unfold Ctl.poke Ctl.writeInternal
  simp only [if_true, forceWrite_ram _ _ _ _ hp]

/-- the repaired poke keeps the cache coherent -/
theorem poke_fixed_good (c : Ctl) (h : c.WF) (hc : c.Coherent) (a : BitVec 16) (v : BitVec 8) :
    (c.poke true a v).WF ∧ (c.poke true a v).Coherent := by
  obtain ⟨hm, hs⟩ := Mem.forceWrite_fields c.mem a v
  cases hp : c.mem.getPage a with
  | ram p =>
    have : c.poke true a v = c.writeInternal a v := by
      unfold Ctl.poke Ctl.writeInternal
      simp only [if_true, forceWrite_ram _ _ _ _ hp]
    rw [this]
    exact writeInternal_good c h hc a v
  | rom p =>
    have : c.poke true a v = { c with mem := c.mem.forceWrite a v } := by
      unfold Ctl.poke
      simp only [if_true, Mem.getPage_of_map _ _ hm, hp]
    rw [this]
    refine ⟨withMem_wf c h _ hm hs, ?_⟩
    intro rb lb hl off hoff
    show (c.screen.bank lb).mem off = (c.mem.forceWrite a v).ramByte rb off
    unfold Mem.ramByte
    rw [forceWrite_rom_ram _ _ _ _ hp]
    exact hc rb lb hl off hoff

/-- addresses through which a screen byte can be reached at all: the first 6912 bytes of the
0x4000 and 0xC000 windows -/
def inScreenWindow (a : BitVec 16) : Prop :=
  (a.toNat / 16384 = 1 ∨ a.toNat / 16384 = 3) ∧ a.toNat % 16384 < 0x1B00

instance (a : BitVec 16) : Decidable (inScreenWindow a) := by unfold inScreenWindow; infer_instance

/-- the poke *as the code has it* keeps the cache coherent when it does not hit screen memory -/
theorem poke_unfixed_good (c : Ctl) (h : c.WF) (hc : c.Coherent) (a : BitVec 16) (v : BitVec 8)
    (hout : ¬ inScreenWindow a) : (c.poke false a v).WF ∧ (c.poke false a v).Coherent := by
  obtain ⟨hm, hs⟩ := Mem.forceWrite_fields c.mem a v
  have : c.poke false a v = { c with mem := c.mem.forceWrite a v } := by
    unfold Ctl.poke
    simp only [Bool.false_eq_true, if_false]
  rw [this]
  refine ⟨withMem_wf c h _ hm hs, ?_⟩
  intro rb lb hl off hoff
  show (c.screen.bank lb).mem off = (c.mem.forceWrite a v).ramByte rb off
  cases hp : c.mem.getPage a with
  | rom p =>
    unfold Mem.ramByte
    rw [forceWrite_rom_ram _ _ _ _ hp]
    exact hc rb lb hl off hoff
  | ram p =>
    have hplt : p < ramPages c.machine := h.mapOk _ _ hp
    rw [Mem.ramByte_forceWrite_ram _ _ _ _ _ _ hp (by rw [h.ramSize]; omega) (by omega), if_neg]
    · exact hc rb lb hl off hoff
    · rintro ⟨rfl, ho⟩
      have ha : a.toNat < 65536 := a.isLt
      unfold Mem.getPage pageSize at hp
      unfold inScreenWindow at hout
      have hcases : a.toNat / 16384 = 0 ∨ a.toNat / 16384 = 1 ∨ a.toNat / 16384 = 2 ∨ a.toNat / 16384 = 3 := by omega
      rcases hcases with h0 | h1 | h2 | h3
      · obtain ⟨r, hr⟩ := h.map0
        rw [h0, hr] at hp
        cases hp
      · omega
      · rw [h2, h.map2] at hp
        cases hp
        cases hmm : c.machine <;> rw [hmm] at hl <;> simp [localBank] at hl
      · omega

end ZxVerif.Video
