/-
C08 helper lemmas: schedules of screen events within a frame (render invariant), and whole
frames of the controller (what `frame_buffer()` delivers at the frame end).
-/
import ZxVerif.Lemmas.VideoCache
namespace ZxVerif.Video

/-! ## pixels of the standard decode only look at the 6912 screen bytes -/

theorem bitmapOffset_lt (x y : Nat) (hx : x < 256) (hy : y < 192) : Spec.bitmapOffset x y < 0x1800 := by
  have h := bitmapOffset_col (x / 8) (x % 8) y (by omega)
  rw [show x / 8 * 8 + x % 8 = x by omega] at h
  rw [h]
  exact (decode_encode y (x / 8) hy (by omega)).2.2.1

theorem attrOffset_lt (x y : Nat) (hx : x < 256) (hy : y < 192) :
    0x1800 ≤ Spec.attrOffset x y ∧ Spec.attrOffset x y < 0x1B00 := by
  have h := attrOffset_col (x / 8) (x % 8) y (by omega)
  rw [show x / 8 * 8 + x % 8 = x by omega] at h
  rw [h]
  omega

theorem stdPx_congr (m1 m2 : Nat → BitVec 8) (ph : Bool) (x y : Nat) (hx : x < 256) (hy : y < 192)
    (h : ∀ off, off < 0x1B00 → m1 off = m2 off) : Spec.stdPx m1 ph x y = Spec.stdPx m2 ph x y := by
  unfold Spec.stdPx Spec.stdDecode
  have h1 := bitmapOffset_lt x y hx hy
  have h2 := (attrOffset_lt x y hx hy).2
  rw [h _ (by omega), h _ h2]

/-- pixel `p` (linear index) of block `p / 8`, as coordinates -/
theorem renderPixel_std_lin (bk : Bank) (flash : Bool) (p : Nat) (hp : p < 49152) :
    renderPixel bk flash (p / 8) (p % 8) = Spec.stdPx bk.mem flash (p % 256) (p / 256) := by
  rw [renderPixel_eq_std bk flash (p / 8) (p % 8) (by omega) (by omega)]
  have e1 : p / 8 % 32 * 8 + p % 8 = p % 256 := by omega
  have e2 : p / 8 / 32 = p / 256 := by omega
  rw [e1, e2]

/-! ## schedules of screen events -/

/-- what can happen to `ZXScreen` within a frame -/
inductive SEv
  | clock (c : Nat)                                      -- `process_clocks(c)`
  | update (rel : BitVec 16) (bank : Nat) (d : BitVec 8)  -- `update`
  | switch (bank : Nat)                                   -- `switch_bank`

def Screen.sstep (s : Screen) : SEv → Screen
  | .clock c => s.processClocks c
  | .update r b d => s.update r b d
  | .switch b => s.switchBank b

def Screen.srun (s : Screen) (evs : List SEv) : Screen := evs.foldl Screen.sstep s

/-- the clock never runs backwards (from `lo` on) -/
def Monotone (lo : Nat) : List SEv → Prop
  | [] => True
  | .clock c :: r => lo ≤ c ∧ Monotone c r
  | _ :: r => Monotone lo r

def SEv.nextLo (lo : Nat) : SEv → Nat
  | .clock c => c
  | _ => lo

theorem Monotone.tail {lo : Nat} {e : SEv} {r : List SEv} (h : Monotone lo (e :: r)) : Monotone (e.nextLo lo) r := by
  cases e <;> simp only [Monotone, SEv.nextLo] at * <;> first | exact h.2 | exact h

theorem update_wf_any (s : Screen) (hwf : s.WF) (rel : BitVec 16) (bank : Nat) (d : BitVec 8) :
    (s.update rel bank d).WF ∧ (s.update rel bank d).last = s.last ∧ (s.update rel bank d).back = s.back ∧
    (s.update rel bank d).machine = s.machine := by
  cases hl : localBank s.machine bank with
  | none => rw [update_none _ _ _ _ hl]; exact ⟨hwf, rfl, rfl, rfl⟩
  | some lb =>
    have hrel : rel = BitVec.ofNat 16 rel.toNat := by simp
    rw [hrel]
    obtain ⟨w, _, _, _, u5, u6, _, _, _, u10⟩ := update_spec s hwf rel.toNat bank lb d rel.isLt hl
    exact ⟨w, u6, u5, u10⟩

theorem switchBank_fields (s : Screen) (hwf : s.WF) (bank : Nat) :
    (s.switchBank bank).WF ∧ (s.switchBank bank).last = s.last ∧ (s.switchBank bank).back = s.back ∧
    (s.switchBank bank).machine = s.machine := by
  unfold Screen.switchBank
  split
  · exact ⟨⟨hwf.front, hwf.back, hwf.bank0, hwf.bank1, hwf.lastNorm⟩, rfl, rfl, rfl⟩
  · exact ⟨hwf, rfl, rfl, rfl⟩

/-- One event: well-formedness and "the render cursor is not ahead of the clock" are kept, the
cursor does not move back, already drawn pixels are not touched. -/
theorem sstep_inv (s : Screen) (hwf : s.WF) (lo : Nat) (hb : s.last.le (Blocks.fromClocks s.machine lo))
    (e : SEv) (hm : Monotone lo [e]) :
    (s.sstep e).WF ∧ (s.sstep e).machine = s.machine ∧
    (s.sstep e).last.le (Blocks.fromClocks s.machine (e.nextLo lo)) ∧
    s.last.idx ≤ (s.sstep e).last.idx ∧
    ∀ p d, p < s.last.idx * 8 → (s.sstep e).back.getD p d = s.back.getD p d := by
  cases e with
  | clock c =>
    have hle : s.last.le (Blocks.fromClocks s.machine c) :=
      Blocks.le_trans hb (fromClocks_mono _ _ _ hm.1)
    obtain ⟨p1, p2, p3, _, _, _, _, _, _, p10, p11⟩ := processClocks_spec s hwf c hle
    refine ⟨p3, p10, p2, ?_, ?_⟩
    · show s.last.idx ≤ (s.processClocks c).last.idx
      rw [p1]
      exact Blocks.idx_le_of_le hwf.lastNorm.c hle
    · intro p d hp
      show (s.processClocks c).back.getD p d = _
      rw [p11, if_neg (by omega)]
  | update r b d =>
    obtain ⟨w, u1, u2, u3⟩ := update_wf_any s hwf r b d
    refine ⟨w, u3, ?_, ?_, ?_⟩
    · show (s.update r b d).last.le _
      rw [u1]; exact hb
    · show _ ≤ (s.update r b d).last.idx
      rw [u1]; exact Nat.le_refl _
    · intro p d' _
      show (s.update r b d).back.getD p d' = _
      rw [u2]
  | switch b =>
    obtain ⟨w, u1, u2, u3⟩ := switchBank_fields s hwf b
    refine ⟨w, u3, ?_, ?_, ?_⟩
    · show (s.switchBank b).last.le _
      rw [u1]; exact hb
    · show _ ≤ (s.switchBank b).last.idx
      rw [u1]; exact Nat.le_refl _
    · intro p d' _
      show (s.switchBank b).back.getD p d' = _
      rw [u2]

theorem Monotone.head {lo : Nat} {e : SEv} {r : List SEv} (h : Monotone lo (e :: r)) : Monotone lo [e] := by
  cases e <;> simp only [Monotone] at * <;> first | exact ⟨h.1, trivial⟩ | trivial

/-- over a whole schedule -/
theorem srun_inv : ∀ (evs : List SEv) (s : Screen) (lo : Nat), s.WF → s.last.le (Blocks.fromClocks s.machine lo) →
    Monotone lo evs →
    (s.srun evs).WF ∧ s.last.idx ≤ (s.srun evs).last.idx ∧
    ∀ p d, p < s.last.idx * 8 → (s.srun evs).back.getD p d = s.back.getD p d := by
  intro evs
  induction evs with
  | nil => intro s lo hwf _ _; exact ⟨hwf, Nat.le_refl _, fun _ _ _ => rfl⟩
  | cons e r ih =>
    intro s lo hwf hb hm
    obtain ⟨w, m1, b1, l1, k1⟩ := sstep_inv s hwf lo hb e hm.head
    obtain ⟨w2, l2, k2⟩ := ih (s.sstep e) (e.nextLo lo) w (by rw [m1]; exact b1) hm.tail
    refine ⟨w2, Nat.le_trans l1 l2, ?_⟩
    intro p d hp
    show ((s.sstep e).srun r).back.getD p d = _
    rw [k2 p d (by omega), k1 p d hp]

/-! ## whole frames of the controller -/

/-- the 16K RAM bank the ULA displays, as the property defines it -/
def Ctl.visibleMem (c : Ctl) : Nat → BitVec 8 :=
  fun off => c.mem.ramByte (Spec.visibleBank c.machine c.port7ffd) off

theorem localBank_visible (c : Ctl) (h : c.WF) :
    localBank c.machine (Spec.visibleBank c.machine c.port7ffd) = some c.screen.active := by
  have ha := h.active
  cases hm : c.machine with
  | k48 =>
    simp only [hm] at ha
    rw [ha]
    rfl
  | k128 =>
    simp only [hm] at ha
    rw [ha]
    show localBank .k128 (if c.port7ffd.getLsbD 3 then 7 else 5) = _
    cases c.port7ffd.getLsbD 3 <;> rfl

theorem active_mem (c : Ctl) (h : c.WF) (hc : c.Coherent) (off : Nat) (hoff : off < 0x1B00) :
    (c.screen.bank c.screen.active).mem off = c.visibleMem off :=
  hc _ _ (localBank_visible c h) off hoff

/-- state of a frame in progress, `c0` being the state the stretch of waiting started from:
nothing but time has passed; the pixels drawn since then are the standard decode of the visible RAM -/
structure FrameInv (c0 c : Ctl) : Prop where
  wf0 : c0.WF
  same : c0.Same c
  active : c.screen.active = c0.screen.active
  flash : c.screen.flash = c0.screen.flash
  front : c.screen.front = c0.screen.front
  beam : c.screen.last.le (Blocks.fromClocks c.machine c.frameClocks)
  lo : c0.screen.last.idx ≤ c.screen.last.idx
  old : ∀ p d, p < c0.screen.last.idx * 8 → c.screen.back.getD p d = c0.screen.back.getD p d
  new : ∀ p d, c0.screen.last.idx * 8 ≤ p → p < c.screen.last.idx * 8 →
    c.screen.back.getD p d = Spec.stdPx c0.visibleMem c0.screen.flash (p % 256) (p / 256)
  passed : c.passedFrames = c0.passedFrames

theorem FrameInv.init (c : Ctl) (h : c.WF) (hb : c.screen.last.le (Blocks.fromClocks c.machine c.frameClocks)) :
    FrameInv c c :=
  ⟨h, Ctl.Same.refl h, rfl, rfl, rfl, hb, Nat.le_refl _, fun _ _ _ => rfl, fun p d h1 h2 => by omega, rfl⟩

/-- render of the blocks a wait passes, in terms of the visible RAM of `c0` -/
theorem FrameInv.render {c0 c : Ctl} (hc0 : c0.Coherent) (inv : FrameInv c0 c) (p : Nat) (hp : p < 49152) :
    renderPixel (c.screen.bank c.screen.active) c.screen.flash (p / 8) (p % 8) =
      Spec.stdPx c0.visibleMem c0.screen.flash (p % 256) (p / 256) := by
  rw [renderPixel_std_lin _ _ _ hp, inv.flash, inv.active, inv.same.bank]
  exact stdPx_congr _ _ _ _ _ (by omega) (by omega) (fun off hoff => active_mem c0 inv.wf0 hc0 off hoff)

/-- a wait that stays inside the frame -/
theorem FrameInv.wait {c0 c : Ctl} (hc0 : c0.Coherent) (inv : FrameInv c0 c) (clk : Nat)
    (hin : c.frameClocks + clk < c.machine.clocksFrame) : FrameInv c0 (c.waitInternal clk) ∧
      (c.waitInternal clk).frameClocks = c.frameClocks + clk := by
  have hwf := inv.same.wf
  have hs := waitInternal_same c hwf clk
  have hle : c.screen.last.le (Blocks.fromClocks c.screen.machine (c.frameClocks + clk)) := by
    rw [hwf.mach]
    exact Blocks.le_trans inv.beam (fromClocks_mono _ _ _ (by omega))
  obtain ⟨p1, p2, p3, p4, _, _, p7, p8, _, p10, p11⟩ := processClocks_spec c.screen hwf.screen (c.frameClocks + clk) hle
  have hnorm := fromClocks_norm c.screen.machine (c.frameClocks + clk)
  have htot := Blocks.idx_le_total hnorm
  have hidx := Blocks.idx_le_of_le hwf.screen.lastNorm.c hle
  have heq : c.waitInternal clk =
      { c with frameClocks := c.frameClocks + clk, screen := c.screen.processClocks (c.frameClocks + clk) } := by
    rw [waitInternal_eq, if_neg (by omega)]
  constructor
  · refine ⟨inv.wf0, inv.same.trans hs, ?_, ?_, ?_, ?_, ?_, ?_, ?_, ?_⟩
    all_goals rw [heq]
    · exact p7.trans inv.active
    · exact p8.trans inv.flash
    · exact p4.trans inv.front
    · show (c.screen.processClocks _).last.le (Blocks.fromClocks c.machine (c.frameClocks + clk))
      rw [← hwf.mach]; exact p2
    · show _ ≤ (c.screen.processClocks _).last.idx
      rw [p1]; exact Nat.le_trans inv.lo hidx
    · intro p d hp
      show (c.screen.processClocks _).back.getD p d = _
      have := inv.lo
      rw [p11, if_neg (by omega), inv.old p d hp]
    · intro p d h1 h2
      show (c.screen.processClocks _).back.getD p d = _
      have h2' : p < (Blocks.fromClocks c.screen.machine (c.frameClocks + clk)).idx * 8 := by rw [← p1]; exact h2
      rw [p11]
      by_cases hnew : c.screen.last.idx * 8 ≤ p
      · rw [if_pos ⟨hnew, h2'⟩]
        exact inv.render hc0 p (by omega)
      · rw [if_neg (by omega)]
        exact inv.new p d h1 (by omega)
    · exact inv.passed
  · rw [heq]

/-- a list of waits that stays inside the frame -/
theorem FrameInv.waits {c0 : Ctl} (hc0 : c0.Coherent) : ∀ (ws : List Nat) (c : Ctl), FrameInv c0 c →
    c.frameClocks + ws.sum < c.machine.clocksFrame →
    FrameInv c0 (ws.foldl Ctl.waitInternal c) ∧ (ws.foldl Ctl.waitInternal c).frameClocks = c.frameClocks + ws.sum := by
  intro ws
  induction ws with
  | nil => intro c inv _; exact ⟨inv, rfl⟩
  | cons w ws ih =>
    intro c inv hin
    simp only [List.sum_cons] at hin
    obtain ⟨i1, f1⟩ := inv.wait hc0 w (by omega)
    have hm : (c.waitInternal w).machine = c.machine := (waitInternal_same c inv.same.wf w).machine
    obtain ⟨i2, f2⟩ := ih (c.waitInternal w) i1 (by rw [f1, hm]; omega)
    refine ⟨i2, ?_⟩
    show (ws.foldl Ctl.waitInternal (c.waitInternal w)).frameClocks = _
    rw [f2, f1, List.sum_cons]
    omega

/-- the wait that ends the frame: the canvas handed to the host -/
theorem FrameInv.finish {c0 c : Ctl} (hc0 : c0.Coherent) (inv : FrameInv c0 c) (w : Nat)
    (hend : c.machine.clocksFrame ≤ c.frameClocks + w) :
    (c.waitInternal w).passedFrames = c0.passedFrames + 1 ∧
    ∀ p d, p < 49152 → (c.waitInternal w).screen.front.getD p d =
      if p < c0.screen.last.idx * 8 then c0.screen.back.getD p d
      else Spec.stdPx c0.visibleMem c0.screen.flash (p % 256) (p / 256) := by
  have hwf := inv.same.wf
  have hle : c.screen.last.le (Blocks.fromClocks c.screen.machine (c.frameClocks + w)) := by
    rw [hwf.mach]
    exact Blocks.le_trans inv.beam (fromClocks_mono _ _ _ (by omega))
  obtain ⟨_, _, _, _, _, _, _, _, _, _, p11⟩ := processClocks_spec c.screen hwf.screen (c.frameClocks + w) hle
  have hall : Blocks.fromClocks c.screen.machine (c.frameClocks + w) = ⟨192, 0⟩ := by
    rw [hwf.mach]; exact fromClocks_frame_end _ _ hend
  rw [hall] at p11
  have hidx : (⟨192, 0⟩ : Blocks).idx * 8 = 49152 := by decide
  rw [hidx] at p11
  have heq : c.waitInternal w =
      { c with
        frameClocks := c.frameClocks + w - c.machine.clocksFrame
        screen := (c.screen.processClocks (c.frameClocks + w)).newFrame
        border := c.border.newFrame
        passedFrames := c.passedFrames + 1 } := by
    rw [waitInternal_eq, if_pos (by omega)]
  rw [heq]
  refine ⟨by show c.passedFrames + 1 = _; rw [inv.passed], ?_⟩
  intro p d hp
  show (c.screen.processClocks (c.frameClocks + w)).newFrame.front.getD p d = _
  show (c.screen.processClocks (c.frameClocks + w)).back.getD p d = _
  rw [p11]
  have := inv.lo
  by_cases h1 : p < c0.screen.last.idx * 8
  · rw [if_pos h1, if_neg (by omega), inv.old p d h1]
  · rw [if_neg h1]
    by_cases h2 : c.screen.last.idx * 8 ≤ p
    · rw [if_pos ⟨h2, hp⟩]
      exact inv.render hc0 p hp
    · rw [if_neg (by omega)]
      exact inv.new p d (by omega) (by omega)

/-- **Rest of a frame.** From any state of a frame in progress (render cursor not ahead of the
clock), letting only time pass until the frame ends delivers: the pixels already drawn as they
are, every other pixel as the standard decode of the visible RAM with the frame's flash phase. -/
theorem frame_rest (c : Ctl) (hwf : c.WF) (hcoh : c.Coherent)
    (hbeam : c.screen.last.le (Blocks.fromClocks c.machine c.frameClocks))
    (ws : List Nat) (w : Nat) (hin : c.frameClocks + ws.sum < c.machine.clocksFrame)
    (hend : c.machine.clocksFrame ≤ c.frameClocks + ws.sum + w) :
    ((ws.foldl Ctl.waitInternal c).waitInternal w).passedFrames = c.passedFrames + 1 ∧
    ∀ p d, p < 49152 → ((ws.foldl Ctl.waitInternal c).waitInternal w).screen.front.getD p d =
      if p < c.screen.last.idx * 8 then c.screen.back.getD p d
      else Spec.stdPx c.visibleMem c.screen.flash (p % 256) (p / 256) := by
  obtain ⟨inv, hf⟩ := FrameInv.waits hcoh ws c (FrameInv.init c hwf hbeam) hin
  have hm : (ws.foldl Ctl.waitInternal c).machine = c.machine := inv.same.machine
  exact inv.finish hcoh w (by rw [hm, hf]; exact hend)

/-! ## where the beam is -/

/-- before the fetch of (line `y`, column `col`) that block has not been passed -/
theorem fromClocks_before (m : Machine) (t y col : Nat) (hy : y < 192) (hc : col < 32)
    (h : t < m.ulaReadOrigin + y * m.clocksLine + 4 * col) : (Blocks.fromClocks m t).idx ≤ y * 32 + col := by
  rw [fromClocks_lit]
  cases m <;> simp only [Machine.ulaReadOrigin, Machine.clocksLine] at * <;>
    unfold fcLit Blocks.idx attrCols <;> (repeat' split) <;> dsimp only <;> omega

/-- from the fetch of (line `y`, column `col`) on that block has been passed -/
theorem fromClocks_after (m : Machine) (t y col : Nat) (hy : y < 192) (hc : col < 32)
    (h : m.ulaReadOrigin + y * m.clocksLine + 4 * col ≤ t) : y * 32 + col < (Blocks.fromClocks m t).idx := by
  rw [fromClocks_lit]
  cases m <;> simp only [Machine.ulaReadOrigin, Machine.clocksLine] at * <;>
    unfold fcLit Blocks.idx attrCols <;> (repeat' split) <;> dsimp only <;> omega


/-! ### runs of the controller model -/

/-- no poke of the list hits the first 6912 bytes of the 0x4000 / 0xC000 windows -/
def NoScreenPoke (ops : List Op) : Prop := ∀ a v, Op.poke a v ∈ ops → ¬ inScreenWindow a

theorem step_good (fixed : Bool) (c : Ctl) (h : c.WF) (hc : c.Coherent) (op : Op)
    (hop : fixed = true ∨ ∀ a v, op = .poke a v → ¬ inScreenWindow a) :
    (c.step fixed op).WF ∧ (c.step fixed op).Coherent := by
  cases op with
  | wait clk => exact ⟨(waitInternal_same c h clk).wf, (waitInternal_same c h clk).coherent hc⟩
  | cpuWrite a v clk => exact write_good c h hc a v clk
  | tapeWrite a v => exact writeInternal_good c h hc a v
  | set7ffd v => exact write7ffd_good c h hc v
  | out p v => exact writeIo_good c h hc p v
  | loadScr bs => exact loadScr_good c h hc bs
  | loadPages ps => exact loadPages_good c h ps
  | setBorder col => exact ⟨(setBorderColor_same c h 0 col).wf, (setBorderColor_same c h 0 col).coherent hc⟩
  | poke a v =>
    rcases hop with rfl | hno
    · exact poke_fixed_good c h hc a v
    · cases fixed
      · exact poke_unfixed_good c h hc a v (hno a v rfl)
      · exact poke_fixed_good c h hc a v

theorem run_good (fixed : Bool) : ∀ (ops : List Op) (c : Ctl), c.WF → c.Coherent →
    (fixed = true ∨ NoScreenPoke ops) → (c.run fixed ops).WF ∧ (c.run fixed ops).Coherent := by
  intro ops
  induction ops with
  | nil => intro c h hc _; exact ⟨h, hc⟩
  | cons op ops ih =>
    intro c h hc hop
    obtain ⟨w, k⟩ := step_good fixed c h hc op (by
      rcases hop with hf | hn
      · exact Or.inl hf
      · exact Or.inr (fun a v he => hn a v (by rw [he]; exact List.mem_cons_self)))
    exact ih _ w k (by
      rcases hop with hf | hn
      · exact Or.inl hf
      · exact Or.inr (fun a v hm => hn a v (List.mem_cons_of_mem _ hm)))

end ZxVerif.Video
