/-
C09 helper lemmas: which controller operations change `border_color` (the colour reported to the host).
-/
import ZxVerif.Lemmas.VideoCache
import ZxVerif.Lemmas.VideoBorder
namespace ZxVerif.Video

theorem waitInternal_bc (c : Ctl) (clk : Nat) : (c.waitInternal clk).borderColor = c.borderColor := by
  rw [waitInternal_eq]; split <;> rfl

theorem writeInternal_bc (c : Ctl) (a : BitVec 16) (v : BitVec 8) : (c.writeInternal a v).borderColor = c.borderColor := by
  unfold Ctl.writeInternal; simp only; split <;> rfl

theorem waitMreq_bc (c : Ctl) (a : BitVec 16) (clk : Nat) : (c.waitMreq a clk).borderColor = c.borderColor := by
  unfold Ctl.waitMreq Ctl.doContention
  split <;> simp only [waitInternal_bc]

theorem write_bc (c : Ctl) (a : BitVec 16) (v : BitVec 8) (clk : Nat) : (c.write a v clk).borderColor = c.borderColor := by
  unfold Ctl.write; rw [writeInternal_bc, waitMreq_bc]

theorem write7ffd_bc (c : Ctl) (v : BitVec 8) : (c.write7ffd v).borderColor = c.borderColor := by
  unfold Ctl.write7ffd; split <;> rfl

theorem refresh_bc (c : Ctl) : c.refresh.borderColor = c.borderColor := by
  unfold Ctl.refresh; split <;> rfl

theorem ioFirst_bc (c : Ctl) (p : BitVec 16) : (c.ioContentionFirst p).borderColor = c.borderColor := by
  unfold Ctl.ioContentionFirst Ctl.doContention
  split <;> simp only [waitInternal_bc]

theorem ioLast_bc (c : Ctl) (p : BitVec 16) : (c.ioContentionLast p).borderColor = c.borderColor := by
  unfold Ctl.ioContentionLast Ctl.doContentionAndWait Ctl.doContention
  split
  · simp only [waitInternal_bc]
  · split <;> simp only [waitInternal_bc]

/-- the port reaches the ULA branch of `write_io` (even, and not one of the AY addresses) -/
def ulaRouted (p : BitVec 16) : Prop := ¬ (p &&& 0xC002 = 0xC000) ∧ ¬ (p &&& 0xC002 = 0x8000) ∧ p &&& 0x0001 = 0

instance (p : BitVec 16) : Decidable (ulaRouted p) := by unfold ulaRouted; infer_instance

theorem writeIo_bc (c : Ctl) (p : BitVec 16) (v : BitVec 8) :
    (c.writeIo p v).borderColor = if ulaRouted p then (v &&& 0x07).setWidth 3 else c.borderColor := by
  unfold Ctl.writeIo
  simp only [waitInternal_bc, ioLast_bc]
  split
  · rename_i h1
    rw [ioFirst_bc, if_neg (fun (h : ulaRouted p) => h.1 h1)]
  · split
    · rename_i h1 h2
      rw [ioFirst_bc, if_neg (fun (h : ulaRouted p) => h.2.1 h2)]
    · split
      · rename_i h1 h2 h3
        rw [if_pos (show ulaRouted p from ⟨h1, h2, h3⟩)]
        rfl
      · rename_i h1 h2 h3
        rw [if_neg (fun (h : ulaRouted p) => h3 h.2.2)]
        split
        · rw [write7ffd_bc, ioFirst_bc]
        · rw [ioFirst_bc]

theorem loadScr_bc (c : Ctl) (bs : List (BitVec 8)) : (c.loadScr bs).borderColor = c.borderColor := by
  unfold Ctl.loadScr
  split
  · rfl
  · rw [refresh_bc]
    simp only [write_bc]

theorem loadPages_bc (c : Ctl) (ps : List (Nat × List (BitVec 8))) : (c.loadPages ps).borderColor = c.borderColor := by
  unfold Ctl.loadPages
  rw [refresh_bc]

theorem poke_bc (fixed : Bool) (c : Ctl) (a : BitVec 16) (v : BitVec 8) : (c.poke fixed a v).borderColor = c.borderColor := by
  unfold Ctl.poke
  simp only
  split
  · split <;> rfl
  · rfl

/-- the colour an operation makes the emulator report, if it changes it -/
def Op.borderWrite : Op → Option (BitVec 3)
  | .out p v => if ulaRouted p then some ((v &&& 0x07).setWidth 3) else none
  | .setBorder c => some c
  | _ => none

theorem step_bc (fixed : Bool) (c : Ctl) (op : Op) :
    (c.step fixed op).borderColor = (op.borderWrite).getD c.borderColor := by
  cases op with
  | wait clk => exact waitInternal_bc c clk
  | cpuWrite a v clk => exact write_bc c a v clk
  | tapeWrite a v => exact writeInternal_bc c a v
  | set7ffd v => exact write7ffd_bc c v
  | out p v =>
    show (c.writeIo p v).borderColor = _
    rw [writeIo_bc]
    show _ = (if ulaRouted p then some ((v &&& 0x07).setWidth 3) else none).getD c.borderColor
    split <;> rfl
  | loadScr bs => exact loadScr_bc c bs
  | loadPages ps => exact loadPages_bc c ps
  | setBorder col => rfl
  | poke a v => exact poke_bc fixed c a v

end ZxVerif.Video
