/-
C08 helper lemmas about ZXScreen: closed forms of the drawing loops, beam arithmetic,
`process_clocks` specification.
(Proof style note: `congr`/`rw` near literals such as 0x1800 can send the unifier into unary
arithmetic; equalities are therefore established by `omega` first and rewritten explicitly.)
-/
import ZxVerif.Lemmas.Video
namespace ZxVerif.Video

/-- the 6912 bytes a shadow bank stands for (display file by address, then attributes) -/
def Bank.mem (bk : Bank) (off : Nat) : BitVec 8 :=
  if off < 0x1800 then
    bk.bitmap.getD (bitmapLineRel (BitVec.ofNat 16 off) * 32 + bitmapColRel (BitVec.ofNat 16 off)) 0
  else (bk.attrs.getD (off - 0x1800) default).toByte

theorem Bank.mem_lo (bk : Bank) (off : Nat) (h : off < 0x1800) : bk.mem off =
    bk.bitmap.getD (bitmapLineRel (BitVec.ofNat 16 off) * 32 + bitmapColRel (BitVec.ofNat 16 off)) 0 := by
  unfold Bank.mem; rw [if_pos h]

theorem Bank.mem_hi (bk : Bank) (off : Nat) (h : 0x1800 ≤ off) :
    bk.mem off = (bk.attrs.getD (off - 0x1800) default).toByte := by
  unfold Bank.mem; rw [if_neg (by omega)]

theorem Bank.mem_attr (bk : Bank) (i : Nat) :
    bk.mem (0x1800 + i) = (bk.attrs.getD i default).toByte := by
  unfold Bank.mem
  split
  · rename_i h
    exact absurd h (by omega)
  · have : 0x1800 + i - 0x1800 = i := by omega
    rw [this]

theorem Bank.mem_bitmap (bk : Bank) (y col : Nat) (hy : y < 192) (hc : col < 32) :
    bk.mem (Spec.bitmapOffset (8 * col) y) = bk.bitmap.getD (y * 32 + col) 0 := by
  obtain ⟨d1, d2, d3, _⟩ := decode_encode y col hy hc
  generalize Spec.bitmapOffset (8 * col) y = off at d1 d2 d3 ⊢
  rw [Bank.mem_lo _ _ d3, d1, d2]

/-- What `process_clocks` paints for a block is the standard decode of the shadow bank. -/
theorem renderPixel_eq_std (bk : Bank) (flash : Bool) (block px : Nat) (hb : block < 6144) (hpx : px < 8) :
    renderPixel bk flash block px = Spec.stdPx bk.mem flash (block % 32 * 8 + px) (block / 32) := by
  have hbm := Bank.mem_bitmap bk (block / 32) (block % 32) (by omega) (by omega)
  have hat := Bank.mem_attr bk (block / 32 / 8 * 32 + block % 32)
  have e1 : block / 32 * 32 + block % 32 = block := by omega
  have e2 : block / 32 / 8 * 32 + block % 32 = block / (32 * 8) * 32 + block % 32 := by omega
  rw [e1] at hbm
  rw [e2] at hat
  unfold renderPixel Spec.stdPx Spec.stdDecode
  simp only [attrCols]
  rw [bitmapOffset_col _ _ _ hpx, attrOffset_col _ _ _ hpx]
  have e3 : 0x1800 + block / 32 / 8 * 32 + block % 32 = 0x1800 + (block / (32 * 8) * 32 + block % 32) := by omega
  rw [e3, hbm, hat]
  generalize bk.bitmap.getD block 0 = b
  generalize bk.attrs.getD (block / (32 * 8) * 32 + block % 32) default = a
  have hbit := pixel_bit b ⟨px, hpx⟩
  simp only at hbit
  have hx : (block % 32 * 8 + px) % 8 = px := by omega
  rw [hx, hbit]
  have := attr_decode a.toByte (b.getLsbD (7 - px)) flash
  rw [Attr.fromByte_toByte] at this
  exact this

theorem blockIdx_eq (block pixel : Nat) :
    block / attrCols * canvasWidth + block % attrCols * 8 + pixel = block * 8 + pixel := by
  simp only [attrCols, canvasWidth]; omega

theorem drawPixels_size (bk : Bank) (flash : Bool) (block : Nat) :
    ∀ (n pixel : Nat) (c : Array Px), (drawPixels bk flash block n pixel c).size = c.size := by
  intro n
  induction n with
  | zero => intro _ _; rfl
  | succ n ih => intro pixel c; simp [drawPixels, ih]

theorem drawPixels_getD (bk : Bank) (flash : Bool) (block : Nat) (d : Px) :
    ∀ (n pixel : Nat) (c : Array Px) (p : Nat), block * 8 + pixel + n ≤ c.size →
      (drawPixels bk flash block n pixel c).getD p d =
        if block * 8 + pixel ≤ p ∧ p < block * 8 + pixel + n then renderPixel bk flash block (p - block * 8)
        else c.getD p d := by
  intro n
  induction n with
  | zero => intro pixel c p _; simp [drawPixels]; omega
  | succ n ih =>
    intro pixel c p hsz
    simp only [drawPixels]
    rw [ih _ _ _ (by simp; omega)]
    simp only [getD_set, blockIdx_eq]
    by_cases h1 : block * 8 + (pixel + 1) ≤ p ∧ p < block * 8 + (pixel + 1) + n
    · rw [if_pos h1, if_pos (by omega)]
    · rw [if_neg h1]
      by_cases h2 : block * 8 + pixel = p
      · rw [if_pos ⟨h2, by omega⟩, if_pos (by omega)]
        congr 1
        omega
      · rw [if_neg (by omega), if_neg (by omega)]

theorem drawBlocks_size (bk : Bank) (flash : Bool) :
    ∀ (n block : Nat) (c : Array Px), (drawBlocks bk flash n block c).size = c.size := by
  intro n
  induction n with
  | zero => intro _ _; rfl
  | succ n ih => intro block c; simp [drawBlocks, ih, drawPixels_size]

/-- The loop `for block in prev..curr` paints exactly the pixels of those blocks, each with the
render of its block; everything else is left alone. -/
theorem drawBlocks_getD (bk : Bank) (flash : Bool) (d : Px) :
    ∀ (n block : Nat) (c : Array Px) (p : Nat), (block + n) * 8 ≤ c.size →
      (drawBlocks bk flash n block c).getD p d =
        if block * 8 ≤ p ∧ p < (block + n) * 8 then renderPixel bk flash (p / 8) (p % 8) else c.getD p d := by
  intro n
  induction n with
  | zero => intro block c p _; simp [drawBlocks]; omega
  | succ n ih =>
    intro block c p hsz
    simp only [drawBlocks]
    rw [ih _ _ _ (by rw [drawPixels_size]; omega), drawPixels_getD _ _ _ _ _ _ _ _ (by omega)]
    by_cases h1 : (block + 1) * 8 ≤ p ∧ p < (block + 1 + n) * 8
    · rw [if_pos h1, if_pos (by omega)]
    · rw [if_neg h1]
      by_cases h2 : block * 8 + 0 ≤ p ∧ p < block * 8 + 0 + 8
      · rw [if_pos h2, if_pos (by omega)]
        have : p / 8 = block := by omega
        rw [this]
        congr 1
        omega
      · rw [if_neg h2, if_neg (by omega)]

/-! ## beam arithmetic -/

/-- position order of `BlocksCount` values (lines first, then columns) -/
def Blocks.le (a b : Blocks) : Prop := a.lines < b.lines ∨ (a.lines = b.lines ∧ a.cols ≤ b.cols)

/-- shape every `from_clocks` result has -/
structure Blocks.Norm (b : Blocks) : Prop where
  c : b.cols ≤ 32
  l : b.lines ≤ 192
  e : b.lines = 192 → b.cols = 0

theorem Blocks.le_refl (a : Blocks) : a.le a := Or.inr ⟨rfl, Nat.le_refl _⟩

theorem Blocks.le_trans {a b c : Blocks} (h1 : a.le b) (h2 : b.le c) : a.le c := by
  unfold Blocks.le at *
  omega

/-- `from_clocks` with the machine constants as parameters, the nested `if`s flattened -/
def fcLit (o L c : Nat) : Blocks :=
  if c < o then ⟨0, 0⟩
  else if 32 < (c - o) % L / 4 + 1 then (if 192 ≤ (c - o) / L + 1 then ⟨192, 0⟩ else ⟨(c - o) / L + 1, 0⟩)
  else (if 192 ≤ (c - o) / L then ⟨192, 0⟩ else ⟨(c - o) / L, (c - o) % L / 4 + 1⟩)

theorem fromClocks_lit (m : Machine) (c : Nat) :
    Blocks.fromClocks m c = fcLit m.ulaReadOrigin m.clocksLine c := by
  unfold Blocks.fromClocks fcLit
  simp only [attrCols, canvasHeight, clocksPerCol, gt_iff_lt, ge_iff_le]
  split
  · rfl
  · split <;> simp_all

theorem fromClocks_norm (m : Machine) (c : Nat) : (Blocks.fromClocks m c).Norm := by
  rw [fromClocks_lit]
  unfold fcLit
  repeat' split
  all_goals (constructor <;> dsimp only <;> omega)

theorem fromClocks_mono (m : Machine) (c c' : Nat) (h : c ≤ c') :
    (Blocks.fromClocks m c).le (Blocks.fromClocks m c') := by
  rw [fromClocks_lit, fromClocks_lit]
  cases m <;> simp only [Machine.ulaReadOrigin, Machine.clocksLine] <;>
    unfold fcLit Blocks.le <;> (repeat' split) <;> dsimp only <;> omega

theorem Blocks.idx_le_of_le {a b : Blocks} (ha : a.cols ≤ 32) (h : a.le b) : a.idx ≤ b.idx := by
  unfold Blocks.le at h
  unfold Blocks.idx attrCols
  omega

theorem Blocks.idx_le_total {b : Blocks} (h : b.Norm) : b.idx ≤ 6144 := by
  have := h.c
  have := h.l
  have := h.e
  unfold Blocks.idx attrCols
  omega

/-- while the beam moves forward `passed_from` is the difference of the linear positions -/
theorem passedFrom_eq {a b : Blocks} (ha : a.cols ≤ 32) (h : a.le b) : b.passedFrom a = b.idx - a.idx := by
  unfold Blocks.le at h
  unfold Blocks.passedFrom Blocks.idx attrCols
  rcases h with h | ⟨h1, h2⟩
  · rw [if_neg (by omega), if_neg (by omega)]
    have : b.lines - a.lines - 1 + 1 + a.lines = b.lines := by omega
    generalize b.lines - a.lines - 1 = k at *
    omega
  · rw [if_neg (by omega), if_pos h1.symm, h1]
    omega

/-- after the end of the frame's picture area every block has been passed -/
theorem fromClocks_frame_end (m : Machine) (c : Nat) (h : m.clocksFrame ≤ c) :
    Blocks.fromClocks m c = ⟨192, 0⟩ := by
  rw [fromClocks_lit]
  cases m <;> simp only [Machine.ulaReadOrigin, Machine.clocksLine, Machine.clocksFrame] at * <;>
    unfold fcLit <;> (repeat' split) <;> first | rfl | (exfalso; omega)

/-- nothing is fetched before the first picture line -/
theorem fromClocks_early (m : Machine) (c : Nat) (h : c < m.ulaReadOrigin) :
    Blocks.fromClocks m c = ⟨0, 0⟩ := by
  unfold Blocks.fromClocks
  rw [if_pos h]

/-! ## ZXScreen invariants -/

structure Bank.WF (bk : Bank) : Prop where
  bitmap : bk.bitmap.size = 6144
  attrs : bk.attrs.size = 768

structure Screen.WF (s : Screen) : Prop where
  front : s.front.size = 49152
  back : s.back.size = 49152
  bank0 : s.bank0.WF
  bank1 : s.bank1.WF
  lastNorm : s.last.Norm

theorem Screen.WF.bank {s : Screen} (h : s.WF) (i : Bool) : (s.bank i).WF := by
  cases i
  · exact h.bank0
  · exact h.bank1

theorem Screen.new_wf (m : Machine) : (Screen.new m).WF :=
  ⟨by simp [Screen.new], by simp [Screen.new], ⟨by simp [Screen.new, Bank.empty], by simp [Screen.new, Bank.empty]⟩,
   ⟨by simp [Screen.new, Bank.empty], by simp [Screen.new, Bank.empty]⟩, ⟨by simp [Screen.new], by simp [Screen.new], by simp [Screen.new]⟩⟩

theorem processClocks_pos (s : Screen) (c : Nat) (h : (Blocks.fromClocks s.machine c).passedFrom s.last > 0) :
    s.processClocks c =
      { s with
        back := drawBlocks (s.bank s.active) s.flash ((Blocks.fromClocks s.machine c).idx - s.last.idx) s.last.idx s.back
        last := Blocks.fromClocks s.machine c } := by
  unfold Screen.processClocks
  simp only [h, if_true]

theorem processClocks_zero (s : Screen) (c : Nat) (h : ¬ (Blocks.fromClocks s.machine c).passedFrom s.last > 0) :
    s.processClocks c = s := by
  unfold Screen.processClocks
  simp only [h, if_false]

/-- **Specification of `process_clocks`** while the beam moves forward: the blocks between the old
and the new beam position are painted with the render of the active shadow bank (as it is now);
no other pixel, no other field changes. -/
theorem processClocks_spec (s : Screen) (hwf : s.WF) (c : Nat)
    (hle : s.last.le (Blocks.fromClocks s.machine c)) :
    (s.processClocks c).last.idx = (Blocks.fromClocks s.machine c).idx ∧
    (s.processClocks c).last.le (Blocks.fromClocks s.machine c) ∧ (s.processClocks c).WF ∧
    (s.processClocks c).front = s.front ∧ (s.processClocks c).bank0 = s.bank0 ∧
    (s.processClocks c).bank1 = s.bank1 ∧ (s.processClocks c).active = s.active ∧
    (s.processClocks c).flash = s.flash ∧ (s.processClocks c).frameCounter = s.frameCounter ∧
    (s.processClocks c).machine = s.machine ∧
    ∀ p d, (s.processClocks c).back.getD p d =
      if s.last.idx * 8 ≤ p ∧ p < (Blocks.fromClocks s.machine c).idx * 8
      then renderPixel (s.bank s.active) s.flash (p / 8) (p % 8) else s.back.getD p d := by
  have hn := fromClocks_norm s.machine c
  have hcols : s.last.cols ≤ 32 := hwf.lastNorm.c
  have hpf := passedFrom_eq hcols hle
  have hidx := Blocks.idx_le_of_le hcols hle
  have htot := Blocks.idx_le_total hn
  by_cases hcount : (Blocks.fromClocks s.machine c).passedFrom s.last > 0
  · rw [processClocks_pos s c hcount]
    refine ⟨rfl, Blocks.le_refl _, ⟨hwf.front, ?_, hwf.bank0, hwf.bank1, hn⟩, rfl, rfl, rfl, rfl, rfl, rfl, rfl, ?_⟩
    · show (drawBlocks _ _ _ _ _).size = _
      rw [drawBlocks_size, hwf.back]
    · intro p d
      show (drawBlocks _ _ _ _ _).getD p d = _
      rw [drawBlocks_getD _ _ _ _ _ _ _ (by rw [hwf.back]; omega)]
      have : s.last.idx + ((Blocks.fromClocks s.machine c).idx - s.last.idx) = (Blocks.fromClocks s.machine c).idx := by
        omega
      rw [this]
  · rw [processClocks_zero s c hcount]
    have heq : (Blocks.fromClocks s.machine c).idx = s.last.idx := by omega
    refine ⟨heq.symm, hle, hwf, rfl, rfl, rfl, rfl, rfl, rfl, rfl, ?_⟩
    intro p d
    rw [if_neg (by omega)]

end ZxVerif.Video
