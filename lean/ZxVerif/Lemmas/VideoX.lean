/-
Glue between the video model (Model/Video.lean) and the constants/expressions translated from the Rust
sources on every run (Extracted/VideoConsts.lean): which extracted machine record belongs to which
model machine. Used by Props/C08X.lean and Props/C09X.lean.
-/
import ZxVerif.Extracted.VideoConsts
import ZxVerif.Lemmas.Video
namespace ZxVerif.Video

/-- the `ZXSpecsBuilder` arguments (as extracted) of the machine the model calls `m` -/
def geomOf : Machine → Extracted.Video.Geom
  | .k48 => Extracted.Video.geom48
  | .k128 => Extracted.Video.geom128

end ZxVerif.Video
