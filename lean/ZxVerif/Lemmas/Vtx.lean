/-
Helper lemmas for C20: composition of `run`, the playback-cursor invariant
(`frame·spf + frameSample` = samples produced so far) and list arithmetic for the transposition.
-/
import ZxVerif.Spec.Vtx
namespace ZxVerif.Vtx

variable {σ α : Type}

/-! ### replaying call lists -/

theorem applyCalls_append (B : Backend σ α) (s : σ) (a b : List Call) :
    applyCalls B s (a ++ b) =
      ((applyCalls B (applyCalls B s a).1 b).1,
       (applyCalls B s a).2 ++ (applyCalls B (applyCalls B s a).1 b).2) := by
  induction a generalizing s with
  | nil => simp [applyCalls]
  | cons c cs ih =>
    cases c with
    | write x v => simp only [List.cons_append, applyCalls]; exact ih _
    | sample => simp only [List.cons_append, applyCalls, ih]

/-- the recording backend records: log grows by exactly the calls, samples are numbered on -/
theorem applyCalls_recorder (s : RecState) (cs : List Call) :
    (applyCalls recorder s cs).1.log = s.log ++ cs ∧
    (applyCalls recorder s cs).1.samples = s.samples + (cs.filter (· = Call.sample)).length ∧
    (applyCalls recorder s cs).2 = List.range' s.samples (cs.filter (· = Call.sample)).length := by
  induction cs generalizing s with
  | nil => simp [applyCalls]
  | cons c cs ih =>
    cases c with
    | write x v =>
      simp only [applyCalls]
      have := ih (recorder.write s x v)
      simp only [recorder, RecState.log, List.reverse_cons, List.append_assoc, List.singleton_append] at this ⊢
      simpa using this
    | sample =>
      simp only [applyCalls]
      have := ih (recorder.next s).1
      simp only [recorder, RecState.log, List.reverse_cons, List.append_assoc, List.singleton_append] at this ⊢
      obtain ⟨h1, h2, h3⟩ := this
      refine ⟨by simpa using h1, ?_, ?_⟩
      · simp [h2]; omega
      · simp [h3, List.range'_succ]

/-! ### `run` composes -/

theorem run_none (B : Backend σ α) {p : Player σ} (h : step B p = none) (n : Nat) :
    run B n p = (p, []) := by
  cases n <;> simp [run, h]

theorem run_add (B : Backend σ α) (a b : Nat) (p : Player σ) :
    run B (a + b) p =
      ((run B b (run B a p).1).1, (run B a p).2 ++ (run B b (run B a p).1).2) := by
  induction a generalizing p with
  | zero => simp [run]
  | succ a ih =>
    rw [Nat.succ_add]
    simp only [run]
    cases h : step B p with
    | none => simp [run_none B h]
    | some r => obtain ⟨p', s⟩ := r; simp [ih]

theorem step_fields (B : Backend σ α) {p p' : Player σ} {s : α} (h : step B p = some (p', s)) :
    p'.stereo = p.stereo ∧ p'.spf = p.spf ∧ p'.frameData = p.frameData := by
  unfold step at h
  split at h
  · cases h
  · rename_i p1 hp1
    have h1 : p1.stereo = p.stereo ∧ p1.spf = p.spf ∧ p1.frameData = p.frameData := by
      split at hp1
      · unfold updateAy at hp1
        split at hp1
        · cases hp1; exact ⟨rfl, rfl, rfl⟩
        · cases hp1
      · cases hp1; exact ⟨rfl, rfl, rfl⟩
    dsimp only at h
    split at h <;> (cases h; exact h1)

theorem run_fields (B : Backend σ α) (n : Nat) (p : Player σ) :
    (run B n p).1.stereo = p.stereo ∧ (run B n p).1.spf = p.spf ∧
      (run B n p).1.frameData = p.frameData := by
  induction n generalizing p with
  | zero => simp [run]
  | succ n ih =>
    simp only [run]
    cases h : step B p with
    | none => simp
    | some r =>
      obtain ⟨p', s⟩ := r
      have := step_fields B h
      have := ih p'
      simp_all

theorem playMany_eq_run (B : Backend σ α) (p : Player σ) (lens : List Nat) :
    playMany B p lens = run B (lens.map (units p.stereo)).sum p := by
  induction lens generalizing p with
  | nil => simp [playMany, run]
  | cons n ns ih =>
    simp only [playMany, play, List.map_cons, List.sum_cons, run_add]
    rw [ih, (run_fields B _ p).1]

/-! ### the frame slice -/

theorem range14 : List.range 14 = [0, 1, 2, 3, 4, 5, 6, 7, 8, 9, 10, 11, 12, 13] := by decide

theorem frameRegisters_eq (data : List (BitVec 8)) (k : Nat) (hk : k < Spec.frames data) :
    frameRegisters data k = some ((List.range 14).map fun r => Spec.reg data k r) := by
  unfold Spec.frames at hk
  have hlen : k * 14 + 14 ≤ data.length := by omega
  unfold frameRegisters regCount
  simp only [show ¬ (k * 14 + 14 > data.length) by omega, if_false, Option.some.injEq]
  apply List.ext_getElem
  · simp; omega
  · intro i h1 h2
    simp only [List.length_map, List.length_range] at h2
    simp [Spec.reg, List.getD_eq_getElem?_getD, List.getElem?_eq_getElem (show k * 14 + i < data.length by omega)]

theorem frameRegisters_none (data : List (BitVec 8)) (k : Nat) (hk : Spec.frames data ≤ k) :
    frameRegisters data k = none := by
  unfold Spec.frames at hk
  unfold frameRegisters regCount
  have : k * 14 + 14 > data.length := by omega
  simp [this]

/-- `update_ay`'s loop is the spec's list of writes for that frame -/
theorem writeRegs_eq_frameWrites (B : Backend σ α) (ay : σ) (data : List (BitVec 8)) (k : Nat) :
    applyCalls B ay (Spec.frameWrites data k) =
      (writeRegs B ay ((List.range 14).map fun r => Spec.reg data k r), []) := by
  unfold Spec.frameWrites writeRegs
  rw [range14]
  by_cases h : Spec.reg data k 13 = 255#8
  · simp [h, List.zipIdx, List.filterMap, applyCalls, writeOne]
  · simp [h, List.zipIdx, List.filterMap, applyCalls, writeOne]

/-! ### the cursor invariant -/

theorem schedule_succ (data : List (BitVec 8)) (spf j n : Nat) :
    Spec.schedule data spf j (n + 1) = Spec.callsAt data spf j ++ Spec.schedule data spf (j + 1) n := by
  simp [Spec.schedule, List.range'_succ]

theorem schedule_past_end (data : List (BitVec 8)) (spf j n : Nat)
    (h : Spec.totalSamples data spf ≤ j) : Spec.schedule data spf j n = [] := by
  induction n generalizing j with
  | zero => simp [Spec.schedule]
  | succ n ih =>
    rw [schedule_succ, ih (j + 1) (by omega)]
    simp [Spec.callsAt, show ¬ j < Spec.totalSamples data spf by omega]

/-- Position of the playback cursor in output samples. -/
def Player.pos (p : Player σ) : Nat := p.frame * p.spf + p.frameSample

/-- **Cursor invariant.** From any state whose cursor `frame·spf + frameSample` has not passed
the end, `n` loop iterations perform exactly the spec's calls for output samples
`pos .. pos+n-1`, deliver exactly the spec's number of samples, and leave a well-formed cursor. -/
theorem run_schedule (B : Backend σ α) (n : Nat) (p : Player σ) (hspf : 0 < p.spf)
    (hfs : p.frameSample < p.spf) (hend : p.pos ≤ Spec.totalSamples p.frameData p.spf) :
    ((run B n p).1.ay, (run B n p).2) = applyCalls B p.ay (Spec.schedule p.frameData p.spf p.pos n) ∧
    (run B n p).2.length = Spec.delivered p.frameData p.spf p.pos n ∧
    (run B n p).1.pos = min (p.pos + n) (Spec.totalSamples p.frameData p.spf) ∧
    (run B n p).1.frameSample < p.spf := by
  induction n generalizing p with
  | zero =>
    simp [run, Spec.schedule, applyCalls, Spec.delivered]
    exact ⟨by omega, hfs⟩
  | succ n ih =>
    have hT : Spec.totalSamples p.frameData p.spf = Spec.frames p.frameData * p.spf := rfl
    by_cases hlt : p.pos < Spec.totalSamples p.frameData p.spf
    · -- inside the log
      have hframe : p.frame < Spec.frames p.frameData := by
        unfold Player.pos at hlt
        rw [hT] at hlt
        by_cases hc : p.frame < Spec.frames p.frameData
        · exact hc
        · exfalso
          have : Spec.frames p.frameData * p.spf ≤ p.frame * p.spf :=
            Nat.mul_le_mul_right _ (by omega)
          omega
      have hmod : p.pos % p.spf = p.frameSample := by
        unfold Player.pos
        rw [Nat.mul_comm, Nat.mul_add_mod, Nat.mod_eq_of_lt hfs]
      have hdiv : p.pos / p.spf = p.frame := by
        unfold Player.pos
        rw [Nat.mul_comm, Nat.mul_add_div hspf, Nat.div_eq_of_lt hfs]; simp
      -- the state after the optional register update
      let ay1 : σ := if p.frameSample = 0
        then writeRegs B p.ay ((List.range 14).map fun r => Spec.reg p.frameData p.frame r) else p.ay
      have hstep : step B p =
          some (if p.frameSample + 1 = p.spf
            then { p with ay := (B.next ay1).1, frameSample := 0, frame := p.frame + 1 }
            else { p with ay := (B.next ay1).1, frameSample := p.frameSample + 1 }, (B.next ay1).2) := by
        unfold step
        by_cases h0 : p.frameSample = 0
        · simp only [h0, if_true, updateAy, frameRegisters_eq _ _ hframe, ay1]
          split <;> simp_all
        · simp only [h0, if_false, ay1]
          split <;> simp_all
      have hcalls : applyCalls B p.ay (Spec.callsAt p.frameData p.spf p.pos) = ((B.next ay1).1, [(B.next ay1).2]) := by
        unfold Spec.callsAt
        simp only [hlt, if_true, hmod, hdiv]
        rw [applyCalls_append]
        by_cases h0 : p.frameSample = 0
        · simp [h0, writeRegs_eq_frameWrites, applyCalls, ay1]
        · simp [h0, applyCalls, ay1]
      simp only [run, hstep]
      by_cases hwrap : p.frameSample + 1 = p.spf
      · simp only [hwrap, if_true]
        let p' : Player σ := { p with ay := (B.next ay1).1, frameSample := 0, frame := p.frame + 1 }
        have hpos' : p'.pos = p.pos + 1 := by
          show (p.frame + 1) * p.spf + 0 = p.frame * p.spf + p.frameSample + 1
          rw [Nat.add_mul]; omega
        have := ih p' hspf hspf (by rw [hpos']; exact hlt)
        obtain ⟨i1, i2, i3, i4⟩ := this
        refine ⟨?_, ?_, ?_, i4⟩
        · rw [schedule_succ, applyCalls_append, hcalls]
          show ((run B n p').1.ay, (B.next ay1).2 :: (run B n p').2) = _
          rw [hpos'] at i1
          have e1 := congrArg Prod.fst i1
          have e2 := congrArg Prod.snd i1
          simp only at e1 e2
          exact Prod.ext e1 (congrArg (List.cons _) e2)
        · show ((B.next ay1).2 :: (run B n p').2).length = _
          rw [List.length_cons, i2, hpos']
          show Spec.delivered p.frameData p.spf (p.pos + 1) n + 1 = _
          unfold Spec.delivered; omega
        · show (run B n p').1.pos = _
          rw [i3, hpos']
          show min (p.pos + 1 + n) (Spec.totalSamples p.frameData p.spf) = _
          congr 1; omega
      · simp only [hwrap, if_false]
        let p' : Player σ := { p with ay := (B.next ay1).1, frameSample := p.frameSample + 1 }
        have hpos' : p'.pos = p.pos + 1 := by
          show p.frame * p.spf + (p.frameSample + 1) = p.frame * p.spf + p.frameSample + 1
          omega
        have := ih p' hspf (show p.frameSample + 1 < p.spf by omega) (by rw [hpos']; exact hlt)
        obtain ⟨i1, i2, i3, i4⟩ := this
        refine ⟨?_, ?_, ?_, i4⟩
        · rw [schedule_succ, applyCalls_append, hcalls]
          show ((run B n p').1.ay, (B.next ay1).2 :: (run B n p').2) = _
          rw [hpos'] at i1
          have e1 := congrArg Prod.fst i1
          have e2 := congrArg Prod.snd i1
          simp only at e1 e2
          exact Prod.ext e1 (congrArg (List.cons _) e2)
        · show ((B.next ay1).2 :: (run B n p').2).length = _
          rw [List.length_cons, i2, hpos']
          show Spec.delivered p.frameData p.spf (p.pos + 1) n + 1 = _
          unfold Spec.delivered; omega
        · show (run B n p').1.pos = _
          rw [i3, hpos']
          show min (p.pos + 1 + n) (Spec.totalSamples p.frameData p.spf) = _
          congr 1; omega
    · -- at the end of the log: `update_ay` returns false
      have heq : p.pos = Spec.totalSamples p.frameData p.spf := by omega
      have hframe : p.frame = Spec.frames p.frameData ∧ p.frameSample = 0 := by
        unfold Player.pos at heq
        rw [hT] at heq
        have h1 : ¬ p.frame < Spec.frames p.frameData := by
          intro hc
          have : (p.frame + 1) * p.spf ≤ Spec.frames p.frameData * p.spf :=
            Nat.mul_le_mul_right _ (by omega)
          rw [Nat.add_mul] at this; omega
        have h2 : ¬ Spec.frames p.frameData < p.frame := by
          intro hc
          have : (Spec.frames p.frameData + 1) * p.spf ≤ p.frame * p.spf :=
            Nat.mul_le_mul_right _ (by omega)
          rw [Nat.add_mul] at this; omega
        have h3 : p.frame = Spec.frames p.frameData := by omega
        rw [h3] at heq
        exact ⟨h3, by omega⟩
      have hstep : step B p = none := by
        unfold step
        simp [hframe.2, updateAy, frameRegisters_none _ _ (Nat.le_of_eq hframe.1.symm)]
      rw [run_none B hstep, schedule_past_end _ _ _ _ (by omega)]
      simp [applyCalls, Spec.delivered]
      exact ⟨by omega, by omega, hfs⟩

/-- the state `Player::new` builds -/
def Player.start (data : List (BitVec 8)) (spf : Nat) (stereo : Bool) (ay0 : σ) : Player σ :=
  { frameData := data, frame := 0, frameSample := 0, stereo := stereo, spf := spf, ay := ay0 }

theorem new_eq_start {data : List (BitVec 8)} {pf rate : Nat} {stereo : Bool} {ay0 : σ} {p0 : Player σ}
    (h : Player.new data pf rate stereo ay0 = some p0) : p0 = Player.start data (rate / pf) stereo ay0 := by
  unfold Player.new at h
  split at h
  · cases h
  · cases h; rfl

/-- the cursor invariant, from the start of the log -/
theorem run_from_start (B : Backend σ α) (data : List (BitVec 8)) (spf : Nat) (stereo : Bool) (ay0 : σ)
    (hspf : 0 < spf) (n : Nat) :
    ((run B n (Player.start data spf stereo ay0)).1.ay, (run B n (Player.start data spf stereo ay0)).2)
      = applyCalls B ay0 (Spec.schedule data spf 0 n) ∧
    (run B n (Player.start data spf stereo ay0)).2.length = min n (Spec.totalSamples data spf) ∧
    (run B n (Player.start data spf stereo ay0)).1.pos = min n (Spec.totalSamples data spf) ∧
    (run B n (Player.start data spf stereo ay0)).1.frameSample < spf := by
  have h := run_schedule B n (Player.start data spf stereo ay0) hspf hspf
    (by simp [Player.pos, Player.start])
  have hp : (Player.start data spf stereo ay0).pos = 0 := by simp [Player.pos, Player.start]
  rw [hp] at h
  obtain ⟨h1, h2, h3, h4⟩ := h
  refine ⟨h1, ?_, ?_, h4⟩
  · rw [h2]; show Spec.delivered data spf 0 n = _; unfold Spec.delivered; omega
  · rw [h3]; show min (0 + n) (Spec.totalSamples data spf) = _; rw [Nat.zero_add]

/-! ### transposition arithmetic -/

theorem transpose_length (t : List (BitVec 8)) : (transpose t).length = t.length := by
  simp [transpose]

/-- inverse direction: frame-major back to register-major -/
def untranspose (d : List (BitVec 8)) : List (BitVec 8) :=
  let n := d.length / 14
  (List.range d.length).map fun j => d.getD ((j % n) * 14 + j / n) 0

theorem getD_map_range (f : Nat → BitVec 8) (len j : Nat) (hj : j < len) :
    ((List.range len).map f).getD j 0 = f j := by
  simp [List.getD_eq_getElem?_getD, List.getElem?_map, List.getElem?_range hj]

theorem transpose_index (n : Nat) (t : List (BitVec 8)) (h : t.length = 14 * n) (i r : Nat)
    (hi : i < n) (hr : r < 14) : (transpose t).getD (i * 14 + r) 0 = t.getD (r * n + i) 0 := by
  unfold transpose regCount
  rw [getD_map_range _ _ _ (by omega)]
  have h1 : (i * 14 + r) % 14 = r := by omega
  have h2 : (i * 14 + r) / 14 = i := by omega
  have h3 : t.length / 14 = n := by omega
  rw [h1, h2, h3]

theorem flatMap_range_rows (g : Nat → Nat → BitVec 8) (n : Nat) :
    ((List.range n).flatMap fun i => (List.range 14).map (g i)) =
      (List.range (n * 14)).map fun j => g (j / 14) (j % 14) := by
  induction n with
  | zero => simp
  | succ n ih =>
    rw [show List.range (n + 1) = List.range n ++ [n] from List.range_succ, List.flatMap_append, ih]
    have : List.range ((n + 1) * 14) = List.range (n * 14) ++ (List.range 14).map (n * 14 + ·) := by
      rw [Nat.add_mul, Nat.one_mul, List.range_add]
    rw [this, List.map_append, List.map_map]
    congr 1
    simp only [List.flatMap_singleton]
    apply List.map_congr_left
    intro r hr
    have hr : r < 14 := by simpa using hr
    have h1 : (n * 14 + r) / 14 = n := by omega
    have h2 : (n * 14 + r) % 14 = r := by omega
    simp [h1, h2]

theorem transpose_eq_spec (n : Nat) (t : List (BitVec 8)) (h : t.length = 14 * n) :
    transpose t = Spec.transposed n t := by
  unfold Spec.transposed
  rw [flatMap_range_rows (fun i r => t.getD (r * n + i) 0)]
  unfold transpose regCount
  have h3 : t.length / 14 = n := by omega
  rw [h3, h, Nat.mul_comm 14 n]

theorem untranspose_transpose (n : Nat) (t : List (BitVec 8)) (h : t.length = 14 * n) :
    untranspose (transpose t) = t := by
  apply List.ext_getElem
  · simp [untranspose, transpose_length]
  · intro j h1 h2
    have hj : j < 14 * n := by rw [← h]; exact h2
    have hn : 0 < n := by omega
    have hlen : (transpose t).length / 14 = n := by rw [transpose_length]; omega
    simp only [untranspose, List.getElem_map, List.getElem_range, hlen]
    rw [transpose_index n t h (j % n) (j / n) (Nat.mod_lt _ hn)
      (Nat.div_lt_of_lt_mul (by rw [Nat.mul_comm]; exact hj))]
    rw [Nat.div_add_mod' j n]
    simp [List.getD_eq_getElem?_getD, List.getElem?_eq_getElem h2]

end ZxVerif.Vtx
