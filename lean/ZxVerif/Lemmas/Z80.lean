/-
Helper lemmas about the Z80 reference model (generic bus): prefix neutrality at the `exec` level,
classification of the instructions that latch Q, decoding facts.
-/
import ZxVerif.Model.Z80.RecBus
import Std.Tactic.BVDecide
set_option linter.constructorNameAsVariable false
set_option linter.unusedSimpArgs false
namespace ZxVerif.Z80
variable {β : Type} [Bus β]

/-- A DD/FD prefix does not change what an instruction without HL/H/L/(HL) placeholder does. -/
theorem exec_prefix_neutral (v : Variant) (p : Pfx) (i : Instr) (s : Cpu) (b : β)
    (h : i.mentionsHL = false) : exec v p i s b = exec v .none i s b := by
  cases i with
  | ldRpNN rp => cases rp <;> simp_all [exec, Instr.mentionsHL, setRP]
  | incRp rp => cases rp <;> simp_all [exec, Instr.mentionsHL, setRP, getRP]
  | decRp rp => cases rp <;> simp_all [exec, Instr.mentionsHL, setRP, getRP]
  | inc r => cases r <;> simp_all [exec, Instr.mentionsHL, R8.isHL, getR8, setR8]
  | dec r => cases r <;> simp_all [exec, Instr.mentionsHL, R8.isHL, getR8, setR8]
  | ldRN r => cases r <;> simp_all [exec, Instr.mentionsHL, R8.isHL, getR8, setR8]
  | alu op r => cases r <;> simp_all [exec, Instr.mentionsHL, R8.isHL, getR8, setR8]
  | ld d r => cases d <;> cases r <;> simp_all [exec, Instr.mentionsHL, R8.isHL, getR8, setR8]
  | pop rp => cases rp <;> simp_all [exec, Instr.mentionsHL, setRP2]
  | push rp => cases rp <;> simp_all [exec, Instr.mentionsHL, getRP2]
  | _ => simp_all [exec, Instr.mentionsHL]

/-- no interrupt is accepted at this boundary and no EI/DI/prefix delay is pending -/
def Quiescent (s : Cpu) (b : β) : Prop :=
  s.skipInt = false ∧ Bus.nmiActive b = false ∧ (Bus.intActive b && s.iff1) = false

theorem checkInterrupt_quiescent (s : Cpu) (b : β) (h : Quiescent s b) : checkInterrupt s b = (s, b) := by
  obtain ⟨h1, h2, h3⟩ := h
  simp [checkInterrupt, handleInterrupt, h1, h2, h3]

/-- the interrupt check of `emulate` is the decision followed by the corresponding entry sequence -/
theorem checkInterrupt_eq_decision (s : Cpu) (b : β) :
    checkInterrupt s b =
      match decision s b with
      | .nmi => acceptNmi s b
      | .int => acceptInt s b
      | .none => ({ s with skipInt := false }, b) := by
  unfold checkInterrupt decision handleInterrupt
  by_cases h1 : s.skipInt = true
  · simp [h1]
  · have h1' : s.skipInt = false := by simpa using h1
    by_cases h2 : Bus.nmiActive b = true
    · simp [h1', h2]
    · by_cases h3 : (Bus.intActive b && s.iff1) = true
      · simp [h1', h2, h3]
      · have : s = { s with skipInt := false } := by cases s; simp_all
        simp [h1', h2, h3]
        exact this

/-- Main-page instructions whose flags come out of the ALU and therefore latch Q := F.
(`POP AF` and `EX AF,AF'` load F without latching.) -/
def Instr.latchesQ : Instr → Bool
  | .addHL _ | .inc _ | .dec _ | .rotA _ | .daa | .cpl | .scf | .ccf | .alu _ _ | .aluN _ => true
  | _ => false

/-- ED-page instructions that latch Q := F -/
def EdInstr.latchesQ : EdInstr → Bool
  | .inC _ | .sbcHL _ | .adcHL _ | .neg | .ldAI | .ldAR | .rrd | .rld
  | .ldBlock _ _ | .cpBlock _ _ | .inBlock _ _ | .outBlock _ _ => true
  | _ => false

/-- CB-page instructions that latch Q := F (RES/SET leave the flags alone) -/
def CbInstr.latchesQ : CbInstr → Bool
  | .rot _ _ | .bit _ _ => true
  | _ => false

theorem operandAddr_q (p : Pfx) (s : Cpu) (b : β) : (operandAddr p s b).2.1.q = s.q := by
  cases p <;> simp [operandAddr]

theorem operandAddr_f (p : Pfx) (s : Cpu) (b : β) : (operandAddr p s b).2.1.f = s.f := by
  cases p <;> simp [operandAddr]

theorem setR8_q (p : Pfx) (r : R8) (x : BitVec 8) (s : Cpu) : (setR8 p r x s).q = s.q := by
  cases r <;> cases p <;> simp [setR8]

theorem setR8_f (p : Pfx) (r : R8) (x : BitVec 8) (s : Cpu) : (setR8 p r x s).f = s.f := by
  cases r <;> cases p <;> simp [setR8]

theorem setIdx_q (p : Pfx) (w : BitVec 16) (s : Cpu) : (s.setIdx p w).q = s.q := by
  cases p <;> simp [Cpu.setIdx, Cpu.setHL, Cpu.setIX, Cpu.setIY]

theorem setIdx_f (p : Pfx) (w : BitVec 16) (s : Cpu) : (s.setIdx p w).f = s.f := by
  cases p <;> simp [Cpu.setIdx, Cpu.setHL, Cpu.setIX, Cpu.setIY]

theorem setRP_q (p : Pfx) (rp : RP) (w : BitVec 16) (s : Cpu) : (setRP p rp w s).q = s.q := by
  cases rp <;> simp [setRP, Cpu.setBC, Cpu.setDE, setIdx_q]

theorem setRP2_q (p : Pfx) (rp : RP2) (w : BitVec 16) (s : Cpu) : (setRP2 p rp w s).q = s.q := by
  cases rp <;> simp [setRP2, Cpu.setBC, Cpu.setDE, Cpu.setAF, setIdx_q]

theorem push16_q (w : BitVec 16) (c : Nat) (s : Cpu) (b : β) : (push16 w c s b).1.q = s.q := by
  simp [push16]

/-- Q after an instruction of the unprefixed/DD/FD page, entered (as `emulate` does) with Q = 0. -/
theorem exec_q (v : Variant) (p : Pfx) (i : Instr) (s : Cpu) (b : β) (hq : s.q = 0) :
    (exec v p i s b).1.q = if i.latchesQ then (exec v p i s b).1.f else 0 := by
  cases i with
  | inc r => cases r <;> simp [exec, Instr.latchesQ, Cpu.setF, setR8_q, setR8_f]
  | dec r => cases r <;> simp [exec, Instr.latchesQ, Cpu.setF, setR8_q, setR8_f]
  | alu op r => cases r <;> simp [exec, Instr.latchesQ, execAlu]
  | ld d r => cases d <;> cases r <;> simp [exec, Instr.latchesQ, setR8_q, operandAddr_q, hq]
  | ldRN r => cases r <;> cases p <;> simp [exec, Instr.latchesQ, setR8, fetchByte, hq]
  | djnz => simp only [exec, Instr.latchesQ]; split <;> simp [hq]
  | jrcc c => simp only [exec, Instr.latchesQ]; split <;> simp [hq]
  | retcc c => simp only [exec, Instr.latchesQ]; split <;> simp [hq, pop16]
  | callcc c => simp only [exec, Instr.latchesQ, execCall]; split <;> simp [hq, push16, fetchByte]
  | call => simp [exec, Instr.latchesQ, execCall, hq, push16, fetchByte]
  | ldNNA => cases v <;> simp [exec, Instr.latchesQ, fetchWord, hq]
  | outNA => cases v <;> simp [exec, Instr.latchesQ, fetchByte, hq]
  | _ => simp [exec, Instr.latchesQ, Cpu.setF, setRP_q, setRP2_q, setIdx_q, setIdx_f, push16_q, hq, fetchWord,
      fetchByte, pop16, execAlu, push16]


theorem setR8_lastQ (p : Pfx) (r : R8) (x : BitVec 8) (s : Cpu) : (setR8 p r x s).lastQ = s.lastQ := by
  cases r <;> cases p <;> simp [setR8]

theorem operandAddr_lastQ (p : Pfx) (s : Cpu) (b : β) : (operandAddr p s b).2.1.lastQ = s.lastQ := by
  cases p <;> simp [operandAddr]

theorem setIdx_lastQ (p : Pfx) (w : BitVec 16) (s : Cpu) : (s.setIdx p w).lastQ = s.lastQ := by
  cases p <;> simp [Cpu.setIdx, Cpu.setHL, Cpu.setIX, Cpu.setIY]

theorem setRP_lastQ (p : Pfx) (rp : RP) (w : BitVec 16) (s : Cpu) : (setRP p rp w s).lastQ = s.lastQ := by
  cases rp <;> simp [setRP, Cpu.setBC, Cpu.setDE, setIdx_lastQ]

theorem setRP2_lastQ (p : Pfx) (rp : RP2) (w : BitVec 16) (s : Cpu) : (setRP2 p rp w s).lastQ = s.lastQ := by
  cases rp <;> simp [setRP2, Cpu.setBC, Cpu.setDE, Cpu.setAF, setIdx_lastQ]

/-- no instruction touches `lastQ` (only `step_q` at the start of the next one does) -/
theorem exec_lastQ (v : Variant) (p : Pfx) (i : Instr) (s : Cpu) (b : β) :
    (exec v p i s b).1.lastQ = s.lastQ := by
  cases i with
  | inc r => cases r <;> simp [exec, Cpu.setF, setR8_lastQ, operandAddr_lastQ]
  | dec r => cases r <;> simp [exec, Cpu.setF, setR8_lastQ, operandAddr_lastQ]
  | alu op r => cases r <;> simp [exec, execAlu, operandAddr_lastQ]
  | ld d r => cases d <;> cases r <;> simp [exec, setR8_lastQ, operandAddr_lastQ]
  | ldRN r => cases r <;> cases p <;> simp [exec, setR8, fetchByte]
  | djnz => simp only [exec]; split <;> simp
  | jrcc c => simp only [exec]; split <;> simp
  | retcc c => simp only [exec]; split <;> simp [pop16]
  | callcc c => simp only [exec, execCall]; split <;> simp [push16, fetchByte]
  | call => simp [exec, execCall, push16, fetchByte]
  | ldNNA => cases v <;> simp [exec, fetchWord]
  | outNA => cases v <;> simp [exec, fetchByte]
  | _ => simp [exec, Cpu.setF, setRP_lastQ, setRP2_lastQ, setIdx_lastQ, fetchWord,
      fetchByte, pop16, execAlu, push16]

theorem setRP_f (p : Pfx) (rp : RP) (w : BitVec 16) (s : Cpu) : (setRP p rp w s).f = s.f := by
  cases rp <;> simp [setRP, Cpu.setBC, Cpu.setDE, setIdx_f]

/-- Q after an ED-page instruction other than the block moves/compares, entered with Q = 0 -/
theorem execED_q (i : EdInstr) (s : Cpu) (b : β) (hq : s.q = 0)
    (hb : ∀ d r, i ≠ .ldBlock d r ∧ i ≠ .cpBlock d r) :
    (execED i s b).1.q = if i.latchesQ then (execED i s b).1.f else 0 := by
  cases i with
  | ldBlock d r => exact absurd rfl (hb d r).1
  | cpBlock d r => exact absurd rfl (hb d r).2
  | inBlock d r => simp only [execED, EdInstr.latchesQ]; split <;> simp [Cpu.setF]
  | outBlock d r => simp only [execED, EdInstr.latchesQ]; split <;> simp [Cpu.setF]
  | inC r => cases r <;> simp [execED, EdInstr.latchesQ, Cpu.setF, setR8]
  | _ => simp [execED, EdInstr.latchesQ, Cpu.setF, Cpu.setHL, setRP_q, hq, fetchWord, pop16]

theorem memRepeat_keeps (f pch : BitVec 8) : Spec.memRepeatFlags f pch &&& 0xD7 = f &&& 0xD7 := by
  unfold Spec.memRepeatFlags; bv_decide

/-- LDI/LDD/LDIR/LDDR/CPI/CPD/CPIR/CPDR: Q = F, except that the repeat cycle re-derives F bits 5/3
from PC without refreshing Q (modelled as the code behaves) -/
theorem execED_q_block (i : EdInstr) (s : Cpu) (b : β)
    (hb : ∃ d r, i = .ldBlock d r ∨ i = .cpBlock d r) :
    (execED i s b).1.q &&& 0xD7 = (execED i s b).1.f &&& 0xD7 := by
  obtain ⟨d, r, h | h⟩ := hb <;> subst h <;> simp only [execED] <;> split <;>
    (simp [Cpu.setF, Cpu.setBC, Cpu.setHL, Cpu.setDE]; try exact (memRepeat_keeps _ _).symm)

/-- a non-repeating block move/compare latches Q = F exactly -/
theorem execED_q_block_once (d : Bool) (s : Cpu) (b : β) :
    (execED (.ldBlock d false) s b).1.q = (execED (.ldBlock d false) s b).1.f ∧
    (execED (.cpBlock d false) s b).1.q = (execED (.cpBlock d false) s b).1.f := by
  simp [execED, Cpu.setF]

theorem applyF_q (s : Cpu) (o : Option (BitVec 8)) :
    (applyF s o).q = match o with | some f => f | none => s.q := by
  cases o <;> simp [applyF, Cpu.setF]

theorem applyF_f (s : Cpu) (o : Option (BitVec 8)) :
    (applyF s o).f = match o with | some f => f | none => s.f := by
  cases o <;> simp [applyF, Cpu.setF]

/-- Q after the memory form of a CB-page operation -/
theorem cbMem_q (i : CbInstr) (a : BitVec 16) (c : Option R8) (s : Cpu) (b : β) (hq : s.q = 0) :
    (cbMem i a c s b).1.q = if i.latchesQ then (cbMem i a c s b).1.f else 0 := by
  cases i <;> cases c <;> simp [cbMem, cbOp, applyF, Cpu.setF, CbInstr.latchesQ, setR8_q, setR8_f, hq]

/-! ### the pending prefix is only ever set by the prefix-parking branch -/

/-- the control fields an instruction of the main page may touch: only EI/DI (skipInt, iff) and HALT -/
theorem setR8_ctl (p : Pfx) (r : R8) (x : BitVec 8) (s : Cpu) :
    (setR8 p r x s).activePrefix = s.activePrefix := by
  cases r <;> cases p <;> simp [setR8]

theorem operandAddr_ap (p : Pfx) (s : Cpu) (b : β) : (operandAddr p s b).2.1.activePrefix = s.activePrefix := by
  cases p <;> simp [operandAddr]

theorem setIdx_ap (p : Pfx) (w : BitVec 16) (s : Cpu) : (s.setIdx p w).activePrefix = s.activePrefix := by
  cases p <;> simp [Cpu.setIdx, Cpu.setHL, Cpu.setIX, Cpu.setIY]

theorem setRP_ap (p : Pfx) (rp : RP) (w : BitVec 16) (s : Cpu) : (setRP p rp w s).activePrefix = s.activePrefix := by
  cases rp <;> simp [setRP, Cpu.setBC, Cpu.setDE, setIdx_ap]

theorem setRP2_ap (p : Pfx) (rp : RP2) (w : BitVec 16) (s : Cpu) : (setRP2 p rp w s).activePrefix = s.activePrefix := by
  cases rp <;> simp [setRP2, Cpu.setBC, Cpu.setDE, Cpu.setAF, setIdx_ap]

theorem exec_ap (v : Variant) (p : Pfx) (i : Instr) (s : Cpu) (b : β) :
    (exec v p i s b).1.activePrefix = s.activePrefix := by
  cases i with
  | inc r => cases r <;> simp [exec, Cpu.setF, setR8_ctl, operandAddr_ap]
  | dec r => cases r <;> simp [exec, Cpu.setF, setR8_ctl, operandAddr_ap]
  | alu op r => cases r <;> simp [exec, execAlu, operandAddr_ap]
  | ld d r => cases d <;> cases r <;> simp [exec, setR8_ctl, operandAddr_ap]
  | ldRN r => cases r <;> cases p <;> simp [exec, setR8, fetchByte]
  | djnz => simp only [exec]; split <;> simp
  | jrcc c => simp only [exec]; split <;> simp
  | retcc c => simp only [exec]; split <;> simp [pop16]
  | callcc c => simp only [exec, execCall]; split <;> simp [push16, fetchByte]
  | call => simp [exec, execCall, push16, fetchByte]
  | ldNNA => cases v <;> simp [exec, fetchWord]
  | outNA => cases v <;> simp [exec, fetchByte]
  | _ => simp [exec, Cpu.setF, setRP_ap, setRP2_ap, setIdx_ap, fetchWord,
      fetchByte, pop16, execAlu, push16]

theorem execED_ap (i : EdInstr) (s : Cpu) (b : β) : (execED i s b).1.activePrefix = s.activePrefix := by
  cases i with
  | ldBlock d r => simp only [execED]; split <;> simp [Cpu.setF, Cpu.setBC, Cpu.setHL, Cpu.setDE]
  | cpBlock d r => simp only [execED]; split <;> simp [Cpu.setF, Cpu.setBC, Cpu.setHL, Cpu.setDE]
  | inBlock d r => simp only [execED]; split <;> simp [Cpu.setF, Cpu.setHL]
  | outBlock d r => simp only [execED]; split <;> simp [Cpu.setF, Cpu.setHL]
  | inC r => cases r <;> simp [execED, Cpu.setF, setR8]
  | _ => simp [execED, Cpu.setF, Cpu.setHL, setRP_ap, fetchWord, pop16]

theorem cbMem_ap (i : CbInstr) (a : BitVec 16) (c : Option R8) (s : Cpu) (b : β) :
    (cbMem i a c s b).1.activePrefix = s.activePrefix := by
  cases i <;> cases c <;> simp [cbMem, cbOp, applyF, Cpu.setF, setR8_ctl]

theorem execIdxCB_ap (p : Pfx) (s : Cpu) (b : β) : (execIdxCB p s b).1.activePrefix = s.activePrefix := by
  simp [execIdxCB, cbMem_ap, fetchByte]

theorem execCB_ap (s : Cpu) (b : β) : (execCB s b).1.activePrefix = s.activePrefix := by
  simp only [execCB]
  split
  · simp [cbMem_ap, fetchByte]
  · generalize decodeCB _ = i
    cases i <;> simp [cbOp, applyF, Cpu.setF, setR8_ctl, fetchByte]


theorem afterIndexPrefix_inv (v : Variant) (p : Pfx) (s : Cpu) (b : β) (hs : s.activePrefix = .none) :
    (afterIndexPrefix v p s b).1.activePrefix ≠ .none → (afterIndexPrefix v p s b).1.skipInt = true := by
  simp only [afterIndexPrefix]
  generalize decode (fetchByte 4 s b).1 = i
  cases i <;> simp [exec_ap, execIdxCB_ap, stepQ, fetchByte, hs]

theorem afterEDPrefix_ap (s : Cpu) (b : β) (hs : s.activePrefix = .none) :
    (afterEDPrefix s b).1.activePrefix = .none := by
  simp [afterEDPrefix, execED_ap, stepQ, fetchByte, hs]

theorem fetchByte_ap (c : Nat) (s : Cpu) (b : β) : (fetchByte c s b).2.1.activePrefix = s.activePrefix := rfl

theorem exec_stepQ_ap (v : Variant) (p : Pfx) (i : Instr) (s : Cpu) (b : β) (hs : s.activePrefix = .none) :
    (exec v p i (stepQ s) b).1.activePrefix = .none := by
  rw [exec_ap]; simpa [stepQ] using hs

theorem execCB_stepQ_ap (s : Cpu) (b : β) (hs : s.activePrefix = .none) :
    (execCB (stepQ s) b).1.activePrefix = .none := by
  rw [execCB_ap]; simpa [stepQ] using hs

/-- After the instruction part of any `emulate`, from any state whatsoever: a prefix is pending only
if interrupts are held off for the next boundary. -/
theorem execOne_inv (v : Variant) (s : Cpu) (b : β) :
    (execOne v s b).1.activePrefix ≠ .none → (execOne v s b).1.skipInt = true := by
  simp only [execOne]
  split
  · exact afterIndexPrefix_inv v .dd _ b rfl
  · exact afterIndexPrefix_inv v .fd _ b rfl
  · intro h; exact absurd (afterEDPrefix_ap _ b rfl) h
  · intro h; exact absurd (execCB_stepQ_ap _ b rfl) h
  · rename_i hap
    have hf : (fetchByte 4 { s with r := incR s.r } b).2.1.activePrefix = .none := by
      rw [fetchByte_ap]; exact hap
    generalize decode (fetchByte 4 { s with r := incR s.r } b).1 = i
    cases i
    case pfxDD => exact afterIndexPrefix_inv v _ _ _ hf
    case pfxFD => exact afterIndexPrefix_inv v _ _ _ hf
    case pfxED => intro h; exact absurd (afterEDPrefix_ap _ _ hf) h
    case pfxCB => intro h; exact absurd (execCB_stepQ_ap _ _ hf) h
    all_goals (intro h; exact absurd (exec_stepQ_ap v _ _ _ _ hf) h)

end ZxVerif.Z80
