/-
The bit-vector carry/borrow/overflow definitions of the Z80 reference flags (Model/Z80/Flags.lean) say what
the programmer's manual says in ordinary integer arithmetic: carry = the unsigned sum does not fit,
overflow = the signed sum does not fit, half carry = the low nibbles (12 bits for the 16-bit forms) carry.
Also: packed BCD values, for the DAA law.
-/
import ZxVerif.Lemmas.Z80Laws
set_option linter.unusedSimpArgs false
namespace ZxVerif.Z80

theorem forall_bv8 {P : BitVec 8 → Prop} (h : ∀ n : Fin 256, P (BitVec.ofFin n)) (i : BitVec 8) : P i :=
  h i.toFin

theorem toInt8_bounds (a : BitVec 8) : -128 ≤ a.toInt ∧ a.toInt ≤ 127 := by
  have := a.isLt
  rw [BitVec.toInt_eq_toNat_cond]; split <;> omega

theorem toInt16_bounds (a : BitVec 16) : -32768 ≤ a.toInt ∧ a.toInt ≤ 32767 := by
  have := a.isLt
  rw [BitVec.toInt_eq_toNat_cond]; split <;> omega

private theorem and15 (n : Nat) : n &&& 15 = n % 16 := Nat.and_two_pow_sub_one_eq_mod n 4
private theorem and4095 (n : Nat) : n &&& 4095 = n % 4096 := Nat.and_two_pow_sub_one_eq_mod n 12

/-! ### 8-bit -/

theorem add8_toNat (a b : BitVec 8) (c : Bool) :
    (a + b + Spec.cin8 c).toNat = (a.toNat + b.toNat + c.toNat) % 256 := by
  cases c <;> simp [Spec.cin8, BitVec.toNat_add]

theorem sub8_toNat (a b : BitVec 8) (c : Bool) :
    (a - b - Spec.cin8 c).toNat = (a.toNat + 512 - b.toNat - c.toNat) % 256 := by
  have := a.isLt; have := b.isLt
  cases c <;> simp [Spec.cin8, BitVec.toNat_sub] <;> omega

theorem carryAdd8_nat (a b : BitVec 8) (c : Bool) :
    Spec.carryAdd8 a b c = decide (a.toNat + b.toNat + c.toNat ≥ 256) := by
  have := a.isLt; have := b.isLt
  cases c <;> simp [Spec.carryAdd8, BitVec.getLsbD, BitVec.toNat_add, Nat.testBit_eq_decide_div_mod_eq] <;> omega

theorem halfAdd8_nat (a b : BitVec 8) (c : Bool) :
    Spec.halfAdd8 a b c = decide (a.toNat % 16 + b.toNat % 16 + c.toNat ≥ 16) := by
  have := a.isLt; have := b.isLt
  cases c <;> simp [Spec.halfAdd8, Spec.cin8, BitVec.getLsbD, BitVec.toNat_add, Nat.testBit_eq_decide_div_mod_eq,
    BitVec.toNat_and, and15] <;> omega

theorem ovfAdd8_int (a b : BitVec 8) (c : Bool) :
    Spec.ovfAdd8 a b c = decide (a.toInt + b.toInt + c.toNat < -128 ∨ 127 < a.toInt + b.toInt + c.toNat) := by
  have ha := toInt8_bounds a; have hb := toInt8_bounds b
  rw [Bool.eq_iff_iff]
  cases c <;> simp [Spec.ovfAdd8, BitVec.slt, BitVec.toInt_add, BitVec.toInt_signExtend_of_le, Int.bmod] <;> omega

theorem carrySub8_nat (a b : BitVec 8) (c : Bool) :
    Spec.carrySub8 a b c = decide (a.toNat < b.toNat + c.toNat) := by
  have := a.isLt; have := b.isLt
  cases c <;> simp [Spec.carrySub8, BitVec.getLsbD, BitVec.toNat_sub, Nat.testBit_eq_decide_div_mod_eq] <;> omega

theorem halfSub8_nat (a b : BitVec 8) (c : Bool) :
    Spec.halfSub8 a b c = decide (a.toNat % 16 < b.toNat % 16 + c.toNat) := by
  have := a.isLt; have := b.isLt
  cases c <;> simp [Spec.halfSub8, Spec.cin8, BitVec.getLsbD, BitVec.toNat_sub, Nat.testBit_eq_decide_div_mod_eq,
    BitVec.toNat_and, and15] <;> omega

theorem ovfSub8_int (a b : BitVec 8) (c : Bool) :
    Spec.ovfSub8 a b c = decide (a.toInt - b.toInt - c.toNat < -128 ∨ 127 < a.toInt - b.toInt - c.toNat) := by
  have ha := toInt8_bounds a; have hb := toInt8_bounds b
  rw [Bool.eq_iff_iff]
  cases c <;> simp [Spec.ovfSub8, BitVec.slt, BitVec.toInt_sub, BitVec.toInt_signExtend_of_le, Int.bmod] <;> omega

/-! ### 16-bit -/

theorem add16_toNat (a b : BitVec 16) (c : Bool) :
    (a + b + (BitVec.ofBool c).setWidth 16).toNat = (a.toNat + b.toNat + c.toNat) % 65536 := by
  cases c <;> simp [BitVec.toNat_add]

theorem sub16_toNat (a b : BitVec 16) (c : Bool) :
    (a - b - (BitVec.ofBool c).setWidth 16).toNat = (a.toNat + 131072 - b.toNat - c.toNat) % 65536 := by
  have := a.isLt; have := b.isLt
  cases c <;> simp [BitVec.toNat_sub] <;> omega

theorem carryAdd16_nat (a b : BitVec 16) (c : Bool) :
    (a.setWidth 17 + b.setWidth 17 + (BitVec.ofBool c).setWidth 17).getLsbD 16 =
      decide (a.toNat + b.toNat + c.toNat ≥ 65536) := by
  have := a.isLt; have := b.isLt
  cases c <;> simp [BitVec.getLsbD, BitVec.toNat_add, Nat.testBit_eq_decide_div_mod_eq] <;> omega

theorem halfAdd16_nat (a b : BitVec 16) (c : Bool) :
    ((a &&& 0x0FFF) + (b &&& 0x0FFF) + (BitVec.ofBool c).setWidth 16).getLsbD 12 =
      decide (a.toNat % 4096 + b.toNat % 4096 + c.toNat ≥ 4096) := by
  have := a.isLt; have := b.isLt
  cases c <;> simp [BitVec.getLsbD, BitVec.toNat_add, Nat.testBit_eq_decide_div_mod_eq,
    BitVec.toNat_and, and4095] <;> omega

theorem ovfAdd16_int (a b : BitVec 16) (c : Bool) :
    Spec.ovfAdd16 a b c =
      decide (a.toInt + b.toInt + c.toNat < -32768 ∨ 32767 < a.toInt + b.toInt + c.toNat) := by
  have ha := toInt16_bounds a; have hb := toInt16_bounds b
  rw [Bool.eq_iff_iff]
  cases c <;> simp [Spec.ovfAdd16, BitVec.slt, BitVec.toInt_add, BitVec.toInt_signExtend_of_le, Int.bmod] <;> omega

theorem carrySub16_nat (a b : BitVec 16) (c : Bool) :
    (a.setWidth 17 - b.setWidth 17 - (BitVec.ofBool c).setWidth 17).getLsbD 16 =
      decide (a.toNat < b.toNat + c.toNat) := by
  have := a.isLt; have := b.isLt
  cases c <;> simp [BitVec.getLsbD, BitVec.toNat_sub, Nat.testBit_eq_decide_div_mod_eq] <;> omega

theorem halfSub16_nat (a b : BitVec 16) (c : Bool) :
    ((a &&& 0x0FFF) - (b &&& 0x0FFF) - (BitVec.ofBool c).setWidth 16).getLsbD 12 =
      decide (a.toNat % 4096 < b.toNat % 4096 + c.toNat) := by
  have := a.isLt; have := b.isLt
  cases c <;> simp [BitVec.getLsbD, BitVec.toNat_sub, Nat.testBit_eq_decide_div_mod_eq,
    BitVec.toNat_and, and4095] <;> omega

theorem ovfSub16_int (a b : BitVec 16) (c : Bool) :
    Spec.ovfSub16 a b c =
      decide (a.toInt - b.toInt - c.toNat < -32768 ∨ 32767 < a.toInt - b.toInt - c.toNat) := by
  have ha := toInt16_bounds a; have hb := toInt16_bounds b
  rw [Bool.eq_iff_iff]
  cases c <;> simp [Spec.ovfSub16, BitVec.slt, BitVec.toInt_sub, BitVec.toInt_signExtend_of_le, Int.bmod] <;> omega

/-! ### reading flag bytes -/

/-- reading the individual bits of a flag byte built the way `addFlags`/`subFlags` build it -/
theorem flags_decompose (r : BitVec 8) (h o c n : Bool) :
    let f := Spec.sz53 r ||| flag h FH ||| flag o FPV ||| flag c FC ||| flag n FN
    tst f FC = c ∧ tst f FH = h ∧ tst f FPV = o ∧ tst f FN = n ∧ tst f FZ = (r == 0) ∧
    tst f FS = r.msb ∧ f &&& 0x28 = r &&& 0x28 := by
  simp only [Spec.sz53, flag, tst, FC, FH, FPV, FN, FZ, FS]
  refine ⟨?_, ?_, ?_, ?_, ?_, ?_, ?_⟩ <;> bv_decide


theorem addFlags_bits (a b : BitVec 8) (c : Bool) :
    tst (Spec.addFlags a b c) FC = Spec.carryAdd8 a b c ∧ tst (Spec.addFlags a b c) FH = Spec.halfAdd8 a b c ∧
    tst (Spec.addFlags a b c) FPV = Spec.ovfAdd8 a b c ∧ tst (Spec.addFlags a b c) FN = false ∧
    tst (Spec.addFlags a b c) FZ = (a + b + Spec.cin8 c == 0) ∧
    tst (Spec.addFlags a b c) FS = (a + b + Spec.cin8 c).msb ∧
    Spec.addFlags a b c &&& 0x28 = (a + b + Spec.cin8 c) &&& 0x28 := by
  have h := flags_decompose (a + b + Spec.cin8 c) (Spec.halfAdd8 a b c) (Spec.ovfAdd8 a b c)
    (Spec.carryAdd8 a b c) false
  have e : flag false FN = 0 := rfl
  have z : ∀ y : BitVec 8, y ||| (0 : BitVec 8) = y := by intro y; simp
  simp only [e, z] at h
  exact h

theorem subFlags_bits (a b : BitVec 8) (c : Bool) :
    tst (Spec.subFlags a b c) FC = Spec.carrySub8 a b c ∧ tst (Spec.subFlags a b c) FH = Spec.halfSub8 a b c ∧
    tst (Spec.subFlags a b c) FPV = Spec.ovfSub8 a b c ∧ tst (Spec.subFlags a b c) FN = true ∧
    tst (Spec.subFlags a b c) FZ = (a - b - Spec.cin8 c == 0) ∧
    tst (Spec.subFlags a b c) FS = (a - b - Spec.cin8 c).msb ∧
    Spec.subFlags a b c &&& 0x28 = (a - b - Spec.cin8 c) &&& 0x28 := by
  have h := flags_decompose (a - b - Spec.cin8 c) (Spec.halfSub8 a b c) (Spec.ovfSub8 a b c)
    (Spec.carrySub8 a b c) true
  have e : flag true FN = FN := rfl
  simp only [e] at h
  exact h

theorem eq_of_sub_eq_zero8 (a x : BitVec 8) (e : a - x = 0#8) : a = x := by bv_decide

theorem beq_zero_eq_decide {n : Nat} (r : BitVec n) : (r == 0) = decide (r = 0) := by
  by_cases h : r = 0
  · subst h; simp
  · have : (r == 0) = false := by simpa using h
    rw [this]; exact (decide_eq_false h).symm


theorem carryAdd16_nat0 (a b : BitVec 16) :
    (a.setWidth 17 + b.setWidth 17).getLsbD 16 = decide (a.toNat + b.toNat ≥ 65536) := by
  have := carryAdd16_nat a b false; simpa using this

theorem halfAdd16_nat0 (a b : BitVec 16) :
    ((a &&& 0x0FFF) + (b &&& 0x0FFF)).getLsbD 12 = decide (a.toNat % 4096 + b.toNat % 4096 ≥ 4096) := by
  have := halfAdd16_nat a b false; simpa using this

/-- reading the bits of a flag byte built the way `adc16`/`sbc16` build it -/
theorem flags16_decompose (r : BitVec 16) (h o c n : Bool) :
    let f := (hi r &&& 0xA8) ||| flag (r == 0) FZ ||| flag h FH ||| flag o FPV ||| flag c FC ||| flag n FN
    tst f FC = c ∧ tst f FH = h ∧ tst f FPV = o ∧ tst f FN = n ∧ tst f FZ = (r == 0) ∧
    tst f FS = r.msb ∧ f &&& 0x28 = hi r &&& 0x28 := by
  simp only [hi, flag, tst, FC, FH, FPV, FN, FZ, FS]
  refine ⟨?_, ?_, ?_, ?_, ?_, ?_, ?_⟩ <;> bv_decide

/-- reading the bits of the flag byte of ADD HL,rr -/
theorem add16_bits (f0 : BitVec 8) (r : BitVec 16) (h c : Bool) :
    let f := (f0 &&& 0xC4) ||| flag h FH ||| flag c FC ||| (hi r &&& 0x28)
    tst f FC = c ∧ tst f FH = h ∧ tst f FN = false ∧ f &&& 0xC4 = f0 &&& 0xC4 ∧ f &&& 0x28 = hi r &&& 0x28 := by
  simp only [hi, flag, tst, FC, FH, FN]
  refine ⟨?_, ?_, ?_, ?_, ?_⟩ <;> bv_decide

/-! ### packed BCD -/

/-- both nibbles are decimal digits -/
def isBcd (x : BitVec 8) : Bool := (x &&& 0x0F).ule 9 && (x >>> 4).ule 9
/-- the number 0..99 a packed BCD byte stands for -/
def bcdVal (x : BitVec 8) : Nat := 10 * (x >>> 4).toNat + (x &&& 0x0F).toNat
/-- the same as a 16-bit vector (for `bv_decide`) -/
def bcdBv (x : BitVec 8) : BitVec 16 := 10 * zext (x >>> 4) + zext (x &&& 0x0F)

theorem bcdBv_toNat (x : BitVec 8) : (bcdBv x).toNat = bcdVal x := by
  revert x; apply forall_bv8; decide +kernel

theorem bcdVal_le (x : BitVec 8) : bcdVal x ≤ 165 := by
  revert x; apply forall_bv8; decide +kernel

theorem bcdVal_lt_of_isBcd (x : BitVec 8) (h : isBcd x = true) : bcdVal x < 100 := by
  revert x; apply forall_bv8; decide +kernel

/-- DAA after ADD/ADC of two valid BCD bytes, as a bit-vector fact over all 2^17 inputs -/
theorem daa_add_bv (a b : BitVec 8) (c : Bool) (ha : isBcd a = true) (hb : isBcd b = true) :
    isBcd (Spec.daa (a + b + Spec.cin8 c) (Spec.addFlags a b c)).1 = true ∧
    bcdBv (Spec.daa (a + b + Spec.cin8 c) (Spec.addFlags a b c)).1 +
        (if tst (Spec.daa (a + b + Spec.cin8 c) (Spec.addFlags a b c)).2 FC then 100 else 0) =
      bcdBv a + bcdBv b + (BitVec.ofBool c).setWidth 16 := by
  simp only [isBcd, bcdBv, Spec.daa, Spec.addFlags, Spec.sz53p, Spec.sz53, Spec.parityEven, Spec.halfAdd8,
    Spec.ovfAdd8, Spec.carryAdd8, Spec.cin8, flag, tst, zext, FC, FH, FN, FPV, FZ] at *
  constructor <;> bv_decide

/-- DAA after SUB/SBC of two valid BCD bytes -/
theorem daa_sub_bv (a b : BitVec 8) (c : Bool) (ha : isBcd a = true) (hb : isBcd b = true) :
    isBcd (Spec.daa (a - b - Spec.cin8 c) (Spec.subFlags a b c)).1 = true ∧
    bcdBv (Spec.daa (a - b - Spec.cin8 c) (Spec.subFlags a b c)).1 + bcdBv b + (BitVec.ofBool c).setWidth 16 =
      bcdBv a + (if tst (Spec.daa (a - b - Spec.cin8 c) (Spec.subFlags a b c)).2 FC then 100 else 0) := by
  simp only [isBcd, bcdBv, Spec.daa, Spec.subFlags, Spec.sz53p, Spec.sz53, Spec.parityEven, Spec.halfSub8,
    Spec.ovfSub8, Spec.carrySub8, Spec.cin8, flag, tst, zext, FC, FH, FN, FPV, FZ] at *
  constructor <;> bv_decide

end ZxVerif.Z80
