/-
Helper lemmas for the block-instruction laws (Props/C01Laws3.lean): one `emulate` of LDIR / CPIR on the
recording bus, spelled out field by field, and 16-bit address arithmetic with `BitVec.ofNat` offsets.
-/
import ZxVerif.Lemmas.Z80Laws
set_option linter.constructorNameAsVariable false
set_option linter.unusedSimpArgs false
namespace ZxVerif.Z80

theorem a16_ofNat_zero (x : BitVec 16) : x + BitVec.ofNat 16 0 = x := by simp
theorem a16_ofNat_succ (x : BitVec 16) (j : Nat) : x + 1 + BitVec.ofNat 16 j = x + BitVec.ofNat 16 (j + 1) := by
  bv_omega
theorem a16_ofNat_ne_self (x : BitVec 16) (k : Nat) (h0 : 0 < k) (hk : k < 65536) : x + BitVec.ofNat 16 k ≠ x := by
  bv_omega
theorem a16_toNat_succ (w : BitVec 16) (n : Nat) (h : w.toNat = n + 2) : (w - 1).toNat = n + 1 ∧ w - 1 ≠ 0 := by
  constructor <;> bv_omega
theorem a16_toNat_one (w : BitVec 16) (h : w.toNat = 1) : w - 1 = 0 := by bv_omega
theorem a16_ofNat_toNat (w : BitVec 16) (n : Nat) (h : w.toNat = n) : BitVec.ofNat 16 n = w := by bv_omega

/-- the registers LDIR/LDDR do not touch -/
def ldFrame (s : Cpu) : Cpu :=
  { s with b := 0, c := 0, d := 0, e := 0, h := 0, l := 0, f := 0, q := 0, lastQ := 0, pc := 0, r := 0, memptr := 0 }

theorem ldBlockFlags_bits (a m f : BitVec 8) (nz : Bool) :
    Spec.ldBlockFlags a m f nz &&& 193#8 = f &&& 193#8 ∧ tst (Spec.ldBlockFlags a m f nz) 4#8 = nz ∧
    tst (Spec.ldBlockFlags a m f nz) 16#8 = false ∧ tst (Spec.ldBlockFlags a m f nz) 2#8 = false := by
  simp only [Spec.ldBlockFlags, flag, tst, FPV, FX, FY]
  refine ⟨?_, ?_, ?_, ?_⟩ <;> bv_decide

theorem memRepeatFlags_bits (f pch : BitVec 8) :
    Spec.memRepeatFlags f pch &&& 193#8 = f &&& 193#8 ∧ tst (Spec.memRepeatFlags f pch) 4#8 = tst f 4#8 ∧
    tst (Spec.memRepeatFlags f pch) 16#8 = tst f 16#8 ∧ tst (Spec.memRepeatFlags f pch) 2#8 = tst f 2#8 ∧
    tst (Spec.memRepeatFlags f pch) 64#8 = tst f 64#8 ∧ tst (Spec.memRepeatFlags f pch) 128#8 = tst f 128#8 ∧
    tst (Spec.memRepeatFlags f pch) 1#8 = tst f 1#8 := by
  simp only [Spec.memRepeatFlags, tst]
  refine ⟨?_, ?_, ?_, ?_, ?_, ?_, ?_⟩ <;> bv_decide

theorem a16_add1_add1 (x : BitVec 16) : x + 1#16 + 1#16 = x + 2#16 := by bv_decide

theorem ldir_emulate_step (v : Variant) (s : Cpu) (b : RecBus) (hc : Calm s b)
    (h0 : b.mem s.pc = 0xED) (h1 : b.mem (s.pc + 1) = 0xB0) :
    let sb := emulate v (s, b)
    sb.2.mem = (fun x => if x = s.de then b.mem s.hl else b.mem x) ∧
    sb.2.int = b.int ∧ sb.2.nmi = b.nmi ∧
    sb.1.hl = s.hl + 1 ∧ sb.1.de = s.de + 1 ∧ sb.1.bc = s.bc - 1 ∧
    sb.1.pc = (if s.bc - 1 = 0 then s.pc + 2 else s.pc) ∧
    sb.1.f &&& 0xC1 = s.f &&& 0xC1 ∧ tst sb.1.f FPV = (s.bc - 1 != 0) ∧ tst sb.1.f FH = false ∧
    tst sb.1.f FN = false ∧ ldFrame sb.1 = ldFrame s := by
  have hd : decodeED 0xB0 = .ldBlock false true := by decide
  rw [emulate_ed v s b hc h0, h1, hd]
  by_cases hz : s.bc - 1 = 0
  · have hz' : mk16 s.b s.c - 1#16 = 0#16 := hz
    simp [execED, stepQ, rb_read, rb_read_mem, rb_write_mem, waitLoop_mem, waitLoop_int, dirAdd, Cpu.bc, Cpu.de, Cpu.hl,
      Cpu.setBC, Cpu.setDE, Cpu.setHL, Cpu.setF, hz', hi_mk16, lo_mk16, ldFrame, rb_pccb, mk16_hi_lo, rb_write_int,
      rb_read_int, a16_add1_add1, ldBlockFlags_bits]
    rfl
  · have hz' : ¬ (mk16 s.b s.c - 1#16 = 0#16) := hz
    simp [execED, stepQ, rb_read, rb_read_mem, rb_write_mem, waitLoop_mem, waitLoop_int, dirAdd, Cpu.bc, Cpu.de, Cpu.hl,
      Cpu.setBC, Cpu.setDE, Cpu.setHL, Cpu.setF, hz', hi_mk16, lo_mk16, ldFrame, rb_pccb, mk16_hi_lo, rb_write_int,
      rb_read_int, a16_add1_add1, ldBlockFlags_bits, memRepeatFlags_bits, a16_add2_sub2]
    rfl

theorem ldFrame_calm {s s' : Cpu} {b b' : RecBus} (hf : ldFrame s' = ldFrame s) (hi : b'.int = b.int)
    (hn : b'.nmi = b.nmi) (hc : Calm s b) : Calm s' b' := by
  have h1 : s'.activePrefix = s.activePrefix := congrArg (fun c => c.activePrefix) hf
  have h2 : s'.skipInt = s.skipInt := congrArg (fun c => c.skipInt) hf
  have h3 : s'.iff1 = s.iff1 := congrArg (fun c => c.iff1) hf
  obtain ⟨c1, c2, c3, c4⟩ := hc
  exact ⟨h1 ▸ c1, h2 ▸ c2, hn ▸ c3, by rw [hi, h3]; exact c4⟩

/-- the registers CPIR/CPDR do not touch -/
def cpFrame (s : Cpu) : Cpu :=
  { s with b := 0, c := 0, h := 0, l := 0, f := 0, q := 0, lastQ := 0, pc := 0, r := 0, memptr := 0 }

theorem cpBlockFlags_bits (a m f : BitVec 8) (nz : Bool) :
    tst (Spec.cpBlockFlags a m f nz) 64#8 = (a == m) ∧ tst (Spec.cpBlockFlags a m f nz) 4#8 = nz ∧
    tst (Spec.cpBlockFlags a m f nz) 2#8 = true ∧ Spec.cpBlockFlags a m f nz &&& 1#8 = f &&& 1#8 ∧
    tst (Spec.cpBlockFlags a m f nz) 128#8 = (a - m).msb := by
  simp only [Spec.cpBlockFlags, Spec.halfSub8, Spec.cin8, flag, tst, FC, FN, FPV, FX, FY, FZ, FS, FH]
  refine ⟨?_, ?_, ?_, ?_, ?_⟩ <;> bv_decide

theorem memRepeatFlags_c (f pch : BitVec 8) : Spec.memRepeatFlags f pch &&& 1#8 = f &&& 1#8 := by
  simp only [Spec.memRepeatFlags]; bv_decide

/-- number of iterations a block instruction makes at most: BC, or 65536 if BC = 0 -/
def blockCount (bc : BitVec 16) : Nat := if bc = 0 then 65536 else bc.toNat

theorem blockCount_step (bc : BitVec 16) (k : Nat) (h : k + 1 < blockCount bc) :
    bc - 1 ≠ 0 ∧ blockCount (bc - 1) = blockCount bc - 1 := by
  unfold blockCount at *
  split at h <;> (constructor; bv_omega; split <;> bv_omega)

theorem blockCount_one (bc : BitVec 16) (h : blockCount bc = 1) : bc - 1 = 0 := by
  unfold blockCount at h; split at h <;> bv_omega

theorem blockCount_pos (bc : BitVec 16) : 0 < blockCount bc ∧ blockCount bc ≤ 65536 := by
  unfold blockCount; split
  · omega
  · have := bc.isLt; constructor <;> bv_omega

theorem cpir_emulate_step (v : Variant) (s : Cpu) (b : RecBus) (hc : Calm s b)
    (h0 : b.mem s.pc = 0xED) (h1 : b.mem (s.pc + 1) = 0xB1) :
    let sb := emulate v (s, b)
    sb.2.mem = b.mem ∧ sb.2.int = b.int ∧ sb.2.nmi = b.nmi ∧
    sb.1.hl = s.hl + 1 ∧ sb.1.bc = s.bc - 1 ∧
    sb.1.pc = (if s.bc - 1 = 0 ∨ s.a = b.mem s.hl then s.pc + 2 else s.pc) ∧
    tst sb.1.f FZ = (s.a == b.mem s.hl) ∧ tst sb.1.f FPV = (s.bc - 1 != 0) ∧ tst sb.1.f FN = true ∧
    sb.1.f &&& FC = s.f &&& FC ∧ tst sb.1.f FS = (s.a - b.mem s.hl).msb ∧ cpFrame sb.1 = cpFrame s := by
  have hd : decodeED 0xB1 = .cpBlock false true := by decide
  rw [emulate_ed v s b hc h0, h1, hd]
  by_cases hz : s.bc - 1 = 0
  · have hz' : mk16 s.b s.c - 1#16 = 0#16 := hz
    simp [execED, stepQ, rb_read, rb_read_mem, rb_write_mem, waitLoop_mem, waitLoop_int, dirAdd, Cpu.bc, Cpu.de, Cpu.hl,
      Cpu.setBC, Cpu.setDE, Cpu.setHL, Cpu.setF, hz', hi_mk16, lo_mk16, cpFrame, rb_pccb, mk16_hi_lo, rb_write_int,
      rb_read_int, a16_add1_add1, cpBlockFlags_bits]
  · have hz' : ¬ (mk16 s.b s.c - 1#16 = 0#16) := hz
    by_cases ha : s.a = b.mem s.hl
    · have ha' : s.a = b.mem (mk16 s.h s.l) := ha
      simp [execED, stepQ, rb_read, rb_read_mem, rb_write_mem, waitLoop_mem, waitLoop_int, dirAdd, Cpu.bc, Cpu.de, Cpu.hl,
        Cpu.setBC, Cpu.setDE, Cpu.setHL, Cpu.setF, hz', hi_mk16, lo_mk16, cpFrame, rb_pccb, mk16_hi_lo, rb_write_int,
        rb_read_int, a16_add1_add1, cpBlockFlags_bits, memRepeatFlags_bits, a16_add2_sub2, ← ha']
    · have ha' : ¬ (s.a = b.mem (mk16 s.h s.l)) := ha
      simp [execED, stepQ, rb_read, rb_read_mem, rb_write_mem, waitLoop_mem, waitLoop_int, dirAdd, Cpu.bc, Cpu.de, Cpu.hl,
        Cpu.setBC, Cpu.setDE, Cpu.setHL, Cpu.setF, hz', hi_mk16, lo_mk16, cpFrame, rb_pccb, mk16_hi_lo, rb_write_int,
        rb_read_int, a16_add1_add1, cpBlockFlags_bits, memRepeatFlags_bits, a16_add2_sub2, ha', memRepeatFlags_c]

theorem cpFrame_calm {s s' : Cpu} {b b' : RecBus} (hf : cpFrame s' = cpFrame s) (hi : b'.int = b.int)
    (hn : b'.nmi = b.nmi) (hc : Calm s b) : Calm s' b' := by
  have h1 : s'.activePrefix = s.activePrefix := congrArg (fun c => c.activePrefix) hf
  have h2 : s'.skipInt = s.skipInt := congrArg (fun c => c.skipInt) hf
  have h3 : s'.iff1 = s.iff1 := congrArg (fun c => c.iff1) hf
  obtain ⟨c1, c2, c3, c4⟩ := hc
  exact ⟨h1 ▸ c1, h2 ▸ c2, hn ▸ c3, by rw [hi, h3]; exact c4⟩

/-! ### DJNZ -/

/-- the registers a DJNZ loop does not touch -/
def djnzFrame (s : Cpu) : Cpu := { s with b := 0, q := 0, lastQ := 0, pc := 0, r := 0, memptr := 0 }

/-- iterations of a DJNZ loop: B, or 256 if B = 0 -/
def loopCount (x : BitVec 8) : Nat := if x = 0 then 256 else x.toNat

theorem loopCount_step (x : BitVec 8) (n : Nat) (h : loopCount x = n + 2) :
    x - 1 ≠ 0 ∧ loopCount (x - 1) = n + 1 := by
  unfold loopCount at *
  split at h <;> (constructor; bv_omega; split <;> bv_omega)

theorem loopCount_one (x : BitVec 8) (h : loopCount x = 1) : x - 1 = 0 := by
  unfold loopCount at h; split at h <;> bv_omega

theorem sext_fe (x : BitVec 16) : x + 1#16 + sext 254#8 + 1#16 = x := by
  simp only [sext]; bv_decide

theorem djnz_emulate_step (v : Variant) (s : Cpu) (b : RecBus) (hc : Calm s b)
    (h0 : b.mem s.pc = 0x10) (h1 : b.mem (s.pc + 1) = 0xFE) :
    let sb := emulate v (s, b)
    sb.2.mem = b.mem ∧ sb.2.lines = b.lines ∧ sb.1.b = s.b - 1 ∧
    sb.1.pc = (if s.b - 1 = 0 then s.pc + 2 else s.pc) ∧ djnzFrame sb.1 = djnzFrame s := by
  have hd : decode 0x10 = .djnz := by decide
  have e1 := emulate_main v s b hc (by rw [h0]; decide)
  rw [h0, hd] at e1
  rw [e1]
  simp only [BitVec.ofNat_eq_ofNat] at h1
  by_cases hz : s.b - 1#8 = 0#8
  · simp [exec, stepQ, rb_read, rb_read_mem, rb_pccb, lines_pccb, lines_read, lines_nomreq, lines_waitLoop, hz, djnzFrame,
      a16_add1_add1, waitLoop_mem, rb_nomreq]
  · simp [exec, stepQ, rb_read, rb_read_mem, rb_pccb, lines_pccb, lines_read, lines_nomreq, lines_waitLoop, hz, djnzFrame,
      a16_add1_add1, waitLoop_mem, rb_nomreq, h1, sext_fe]

theorem a16_add1_add2 (x : BitVec 16) : x + 1#16 + 2#16 = x + 3#16 := by bv_decide

theorem djnzFrame_calm {s s' : Cpu} {b b' : RecBus} (hf : djnzFrame s' = djnzFrame s) (hl : b'.lines = b.lines)
    (hc : Calm s b) : Calm s' b' :=
  hc.transfer ((congrArg (fun c => c.activePrefix) hf).trans hc.1) ((congrArg (fun c => c.skipInt) hf).trans hc.2.1)
    (congrArg (fun c => c.iff1) hf) hl

end ZxVerif.Z80
