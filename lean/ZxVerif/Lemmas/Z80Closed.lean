/-
A "free theorem" of the Z80 model: `emulate` touches the bus only through the primitive operations
of the `Bus` class, so every relation on bus states that is reflexive, transitive and closed under
each primitive is closed under `emulate` (hence under `run n`) — for every instruction, every CPU
state and every bus. Whole-program statements about the machine (time is never lost, ROM never
changes, a locked 128K stays locked) follow by instantiating the relation (Props/C05Sys.lean,
Props/C06Sys.lean).
-/
import ZxVerif.Model.Z80.Exec
set_option linter.constructorNameAsVariable false
set_option linter.unusedSimpArgs false
namespace ZxVerif.Z80
variable {β : Type} [Bus β]

/-- a preorder on bus states closed under every primitive bus operation, the timed ones with at most
`K` clocks per call (the CPU never asks for more than 7: the interrupt acknowledge) -/
structure BusClosedB (K : Nat) (R : β → β → Prop) : Prop where
  big : 7 ≤ K
  refl : ∀ b, R b b
  trans : ∀ {a b c}, R a b → R b c → R a c
  waitMreq : ∀ a k b, k ≤ K → R b (Bus.waitMreq a k b)
  waitNoMreq : ∀ a k b, k ≤ K → R b (Bus.waitNoMreq a k b)
  waitInternal : ∀ k b, k ≤ K → R b (Bus.waitInternal k b)
  readInternal : ∀ a b, R b (Bus.readInternal a b).2
  writeInternal : ∀ a v b, R b (Bus.writeInternal a v b)
  readIo : ∀ p b, R b (Bus.readIo p b).2
  writeIo : ∀ p v b, R b (Bus.writeIo p v b)
  readInterrupt : ∀ b, R b (Bus.readInterrupt b).2
  reti : ∀ b, R b (Bus.reti b)
  halt : ∀ on b, R b (Bus.halt on b)
  pcCallback : ∀ a b, R b (Bus.pcCallback a b)

namespace BusClosedB
variable {K : Nat} {R : β → β → Prop} (h : BusClosedB K R)
include h

/-! continuation forms: `R b x → R b (op x)` -/
theorem k_waitMreq {b x} (a k) (hk : k ≤ K) (hx : R b x) : R b (Bus.waitMreq a k x) := h.trans hx (h.waitMreq a k x hk)
theorem k_waitNoMreq {b x} (a k) (hk : k ≤ K) (hx : R b x) : R b (Bus.waitNoMreq a k x) := h.trans hx (h.waitNoMreq a k x hk)
theorem k_waitInternal {b x} (k) (hk : k ≤ K) (hx : R b x) : R b (Bus.waitInternal k x) := h.trans hx (h.waitInternal k x hk)
theorem k_readInternal {b x} (a) (hx : R b x) : R b (Bus.readInternal a x).2 := h.trans hx (h.readInternal a x)
theorem k_writeInternal {b x} (a v) (hx : R b x) : R b (Bus.writeInternal a v x) := h.trans hx (h.writeInternal a v x)
theorem k_readIo {b x} (p) (hx : R b x) : R b (Bus.readIo p x).2 := h.trans hx (h.readIo p x)
theorem k_writeIo {b x} (p v) (hx : R b x) : R b (Bus.writeIo p v x) := h.trans hx (h.writeIo p v x)
theorem k_readInterrupt {b x} (hx : R b x) : R b (Bus.readInterrupt x).2 := h.trans hx (h.readInterrupt x)
theorem k_reti {b x} (hx : R b x) : R b (Bus.reti x) := h.trans hx (h.reti x)
theorem k_halt {b x} (on) (hx : R b x) : R b (Bus.halt on x) := h.trans hx (h.halt on x)
theorem k_pcCallback {b x} (a) (hx : R b x) : R b (Bus.pcCallback a x) := h.trans hx (h.pcCallback a x)

theorem k_read {b x} (a k) (hk : k ≤ K) (hx : R b x) : R b (read a k x).2 :=
  h.k_readInternal a (h.k_waitMreq a k hk hx)

theorem k_write {b x} (a v k) (hk : k ≤ K) (hx : R b x) : R b (write a v k x) :=
  h.k_writeInternal a v (h.k_waitMreq a k hk hx)

theorem one_le : 1 ≤ K := by have := h.big; omega
theorem three_le : 3 ≤ K := by have := h.big; omega

theorem k_waitLoop {b x} (a n) (hx : R b x) : R b (waitLoop a n x) := by
  induction n generalizing x with
  | zero => exact hx
  | succ n ih => exact ih (h.k_waitNoMreq a 1 h.one_le hx)

theorem k_readWord {b x} (a k) (hk : k ≤ K) (hx : R b x) : R b (readWord a k x).2 :=
  h.k_read (a + 1) k hk (h.k_read a k hk hx)

theorem k_writeWord {b x} (a w k) (hk : k ≤ K) (hx : R b x) : R b (writeWord a w k x) :=
  h.k_write (a + 1) (hi w) k hk (h.k_write a (lo w) k hk hx)

theorem k_fetchByte {b x} (c s) (hk : c ≤ K) (hx : R b x) : R b (fetchByte c s x).2.2 := h.k_read s.pc c hk hx

theorem k_fetchWord {b x} (c s) (hk : c ≤ K) (hx : R b x) : R b (fetchWord c s x).2.2 :=
  h.k_read (s.pc + 1) c hk (h.k_read s.pc c hk hx)

theorem k_push16 {b x} (w c s) (hk : c ≤ K) (hx : R b x) : R b (push16 w c s x).2 :=
  h.k_write (s.sp - 2) (lo w) c hk (h.k_write (s.sp - 1) (hi w) c hk hx)

theorem k_pop16 {b x} (c s) (hk : c ≤ K) (hx : R b x) : R b (pop16 c s x).2.2 :=
  h.k_read (s.sp + 1) c hk (h.k_read s.sp c hk hx)

theorem k_operandAddr {b x} (p s) (hx : R b x) : R b (operandAddr p s x).2.2 := by
  cases p
  · exact hx
  · exact h.k_waitLoop _ 5 (h.k_read _ 3 h.three_le hx)
  · exact h.k_waitLoop _ 5 (h.k_read _ 3 h.three_le hx)

theorem k_execCall {b x} (t m s) (hx : R b x) : R b (execCall t m s x).2 := by
  unfold execCall
  cases t
  · simp only [Bool.false_eq_true, if_false]
    exact h.k_read _ 3 h.three_le (h.k_fetchByte 3 s h.three_le hx)
  · simp only [if_true]
    exact h.k_push16 _ 3 _ h.three_le (h.k_waitNoMreq _ 1 h.one_le (h.k_read _ 3 h.three_le (h.k_fetchByte 3 s h.three_le hx)))

/-- `k ≤ K` for the literal clock counts of the model -/
macro "bnd" h:ident : tactic => `(tactic| (have hbig := BusClosedB.big $h; omega))

/-- backward chaining through the continuation forms -/
macro "bus_chain" h:ident hx:ident : tactic => `(tactic|
  repeat (first
    | exact $hx
    | (have hbig := BusClosedB.big $h; omega)
    | apply BusClosedB.k_write $h | apply BusClosedB.k_read $h | apply BusClosedB.k_waitLoop $h
    | apply BusClosedB.k_readWord $h | apply BusClosedB.k_writeWord $h
    | apply BusClosedB.k_fetchByte $h | apply BusClosedB.k_fetchWord $h
    | apply BusClosedB.k_push16 $h | apply BusClosedB.k_pop16 $h
    | apply BusClosedB.k_operandAddr $h | apply BusClosedB.k_execCall $h
    | apply BusClosedB.k_waitNoMreq $h | apply BusClosedB.k_waitMreq $h | apply BusClosedB.k_waitInternal $h
    | apply BusClosedB.k_readIo $h | apply BusClosedB.k_writeIo $h | apply BusClosedB.k_readInterrupt $h
    | apply BusClosedB.k_reti $h | apply BusClosedB.k_halt $h | apply BusClosedB.k_pcCallback $h))

theorem k_exec {b x} (v p i s) (hx : R b x) : R b (exec v p i s x).2 := by
  cases i <;> simp only [exec]
  all_goals (try (repeat' split)) 
  all_goals (try simp only [])
  all_goals (bus_chain h hx)

theorem k_execED {b x} (i s) (hx : R b x) : R b (execED i s x).2 := by
  cases i <;> simp only [execED]
  all_goals (try (repeat' split))
  all_goals (try simp only [])
  all_goals (bus_chain h hx)

theorem k_cbMem {b x} (i a c s) (hx : R b x) : R b (cbMem i a c s x).2 := by
  simp only [cbMem]
  repeat' split
  all_goals (try simp only [])
  all_goals (bus_chain h hx)

theorem k_execCB {b x} (s) (hx : R b x) : R b (execCB s x).2 := by
  simp only [execCB]
  repeat' split
  all_goals (try simp only [])
  all_goals first
    | exact h.k_cbMem _ _ _ _ (h.k_fetchByte _ _ (by bnd h) hx)
    | exact h.k_fetchByte _ _ (by bnd h) hx

theorem k_execIdxCB {b x} (p s) (hx : R b x) : R b (execIdxCB p s x).2 := by
  simp only [execIdxCB]
  exact h.k_cbMem _ _ _ _ (h.k_waitLoop _ _ (h.k_read _ _ (by bnd h) (h.k_fetchByte _ _ (by bnd h) hx)))

theorem k_releaseHalt {b x} (s) (hx : R b x) : R b (releaseHalt s x).2 := by
  unfold releaseHalt; split
  · exact h.k_halt _ hx
  · exact hx

theorem k_acceptNmi {b x} (s) (hx : R b x) : R b (acceptNmi s x).2 := by
  simp only [acceptNmi]
  exact h.k_push16 _ _ _ (by bnd h) (h.k_waitLoop _ _ (h.k_releaseHalt _ hx))

theorem k_acceptInt {b x} (s) (hx : R b x) : R b (acceptInt s x).2 := by
  simp only [acceptInt]
  split
  · exact h.k_waitInternal _ (by bnd h) (h.k_readWord _ _ (by bnd h) (h.k_readInterrupt (h.k_push16 _ _ _ (by bnd h) (h.k_releaseHalt _ hx))))
  · exact h.k_waitInternal _ (by bnd h) (h.k_push16 _ _ _ (by bnd h) (h.k_releaseHalt _ hx))

theorem k_handleInterrupt {b x} (s) (hx : R b x) : R b (handleInterrupt s x).2 := by
  unfold handleInterrupt
  split
  · exact h.k_acceptNmi _ hx
  · split
    · exact h.k_acceptInt _ hx
    · exact hx

theorem k_checkInterrupt {b x} (s) (hx : R b x) : R b (checkInterrupt s x).2 := by
  unfold checkInterrupt
  split
  · exact hx
  · exact h.k_handleInterrupt _ hx

theorem k_afterIndexPrefix {b x} (v p s) (hx : R b x) : R b (afterIndexPrefix v p s x).2 := by
  simp only [afterIndexPrefix]
  split
  all_goals first
    | exact h.k_fetchByte _ _ (by bnd h) hx
    | exact h.k_execIdxCB _ _ (h.k_fetchByte _ _ (by bnd h) hx)
    | exact h.k_exec _ _ _ _ (h.k_fetchByte _ _ (by bnd h) hx)

theorem k_afterEDPrefix {b x} (s) (hx : R b x) : R b (afterEDPrefix s x).2 := by
  simp only [afterEDPrefix]
  exact h.k_execED _ _ (h.k_fetchByte _ _ (by bnd h) hx)

theorem k_execOne {b x} (v s) (hx : R b x) : R b (execOne v s x).2 := by
  unfold execOne
  split
  · exact h.k_afterIndexPrefix _ _ _ hx
  · exact h.k_afterIndexPrefix _ _ _ hx
  · exact h.k_afterEDPrefix _ hx
  · exact h.k_execCB _ hx
  · simp only []
    split
    all_goals first
      | exact h.k_afterIndexPrefix _ _ _ (h.k_fetchByte _ _ (by bnd h) hx)
      | exact h.k_afterEDPrefix _ (h.k_fetchByte _ _ (by bnd h) hx)
      | exact h.k_execCB _ (h.k_fetchByte _ _ (by bnd h) hx)
      | exact h.k_exec _ _ _ _ (h.k_fetchByte _ _ (by bnd h) hx)

/-- every branch of `execOne` starts with a 4-T opcode fetch at PC; everything after that fetch
stays inside the preorder -/
theorem execOne_after_fetch (v : Variant) (s : Cpu) (b : β) :
    ∃ s', R (fetchByte 4 s' b).2.2 (execOne v s b).2 := by
  unfold execOne
  split
  · refine ⟨{ s with activePrefix := .none }, ?_⟩
    simp only [afterIndexPrefix]
    split
    all_goals first
      | exact h.refl _
      | exact h.k_execIdxCB _ _ (h.refl _)
      | exact h.k_exec _ _ _ _ (h.refl _)
  · refine ⟨{ s with activePrefix := .none }, ?_⟩
    simp only [afterIndexPrefix]
    split
    all_goals first
      | exact h.refl _
      | exact h.k_execIdxCB _ _ (h.refl _)
      | exact h.k_exec _ _ _ _ (h.refl _)
  · refine ⟨{ s with activePrefix := .none }, ?_⟩
    simp only [afterEDPrefix]
    exact h.k_execED _ _ (h.refl _)
  · refine ⟨stepQ { s with activePrefix := .none }, ?_⟩
    simp only [execCB]
    repeat' split
    all_goals (try simp only [])
    all_goals first
      | exact h.k_cbMem _ _ _ _ (h.refl _)
      | exact h.refl _
  · refine ⟨{ s with r := incR s.r }, ?_⟩
    simp only []
    split
    all_goals first
      | exact h.k_afterIndexPrefix _ _ _ (h.refl _)
      | exact h.k_afterEDPrefix _ (h.refl _)
      | exact h.k_execCB _ (h.refl _)
      | exact h.k_exec _ _ _ _ (h.refl _)

/-- **`emulate` stays inside every bus-closed preorder.** -/
theorem emulate (v : Variant) (s : Cpu) (b : β) : R b (emulate v (s, b)).2 := by
  simp only [Z80.emulate]
  exact h.k_pcCallback _ (h.k_execOne _ _ (h.k_checkInterrupt _ (h.refl b)))

/-- … and so does any number of steps: every program, every run length. -/
theorem run (v : Variant) (n : Nat) (sb : Cpu × β) : R sb.2 (Z80.run v n sb).2 := by
  induction n generalizing sb with
  | zero => exact h.refl _
  | succ n ih =>
    simp only [Z80.run]
    exact h.trans (h.emulate v sb.1 sb.2) (ih _)

end BusClosedB

/-- a preorder on bus states closed under every primitive bus operation, whatever the clock counts -/
structure BusClosed (R : β → β → Prop) : Prop where
  refl : ∀ b, R b b
  trans : ∀ {a b c}, R a b → R b c → R a c
  waitMreq : ∀ a k b, R b (Bus.waitMreq a k b)
  waitNoMreq : ∀ a k b, R b (Bus.waitNoMreq a k b)
  waitInternal : ∀ k b, R b (Bus.waitInternal k b)
  readInternal : ∀ a b, R b (Bus.readInternal a b).2
  writeInternal : ∀ a v b, R b (Bus.writeInternal a v b)
  readIo : ∀ p b, R b (Bus.readIo p b).2
  writeIo : ∀ p v b, R b (Bus.writeIo p v b)
  readInterrupt : ∀ b, R b (Bus.readInterrupt b).2
  reti : ∀ b, R b (Bus.reti b)
  halt : ∀ on b, R b (Bus.halt on b)
  pcCallback : ∀ a b, R b (Bus.pcCallback a b)

namespace BusClosed
variable {R : β → β → Prop} (h : BusClosed R)
include h

theorem toB : BusClosedB 7 R where
  big := Nat.le_refl 7
  refl := h.refl
  trans := h.trans
  waitMreq a k b _ := h.waitMreq a k b
  waitNoMreq a k b _ := h.waitNoMreq a k b
  waitInternal k b _ := h.waitInternal k b
  readInternal := h.readInternal
  writeInternal := h.writeInternal
  readIo := h.readIo
  writeIo := h.writeIo
  readInterrupt := h.readInterrupt
  reti := h.reti
  halt := h.halt
  pcCallback := h.pcCallback

theorem k_checkInterrupt {b x} (s) (hx : R b x) : R b (checkInterrupt s x).2 := h.toB.k_checkInterrupt s hx

theorem execOne_after_fetch (v : Variant) (s : Cpu) (b : β) :
    ∃ s', R (fetchByte 4 s' b).2.2 (execOne v s b).2 := h.toB.execOne_after_fetch v s b

theorem emulate (v : Variant) (s : Cpu) (b : β) : R b (emulate v (s, b)).2 := h.toB.emulate v s b

theorem run (v : Variant) (n : Nat) (sb : Cpu × β) : R sb.2 (Z80.run v n sb).2 := h.toB.run v n sb

end BusClosed
end ZxVerif.Z80
