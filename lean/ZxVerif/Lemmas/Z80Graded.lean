/-
A *graded* version of the closure theorem of `Lemmas/Z80Closed.lean`: `emulate` touches the bus only
through the primitive operations of the `Bus` class, **and only through a bounded number of them**.

`BusGraded K R`: `R n b x` reads "`x` is reachable from `b` with at most `n` timed bus operations"
(`waitMreq`, `waitNoMreq`, `waitInternal`, `readIo`, `writeIo` cost one unit each, at most `K`
clocks per call; the untimed primitives cost nothing). The preorder axioms of `BusClosedB` become
`refl : R 0 b b`, `trans : R n a b → R m b c → R (n+m) a c` and monotonicity in the grade. Then one
`emulate` — interrupt entry, prefixes, any instruction of any page, `pc_callback` — is inside
`R 20`: a single call of `cpu.emulate` issues at most 20 timed bus operations, for every CPU state
and every bus. Unlike the ungraded closure this gives *upper* bounds per step (Props/C16Sys.lean: one
step of the machine takes less than a frame, so it passes at most one frame end).
-/
import ZxVerif.Model.Z80.Exec
set_option linter.constructorNameAsVariable false
set_option linter.unusedSimpArgs false
namespace ZxVerif.Z80
variable {β : Type} [Bus β]

structure BusGraded (K : Nat) (R : Nat → β → β → Prop) : Prop where
  big : 7 ≤ K
  up : ∀ {n m a b}, R n a b → n ≤ m → R m a b
  refl : ∀ b, R 0 b b
  trans : ∀ {n m a b c}, R n a b → R m b c → R (n + m) a c
  waitMreq : ∀ a k b, k ≤ K → R 1 b (Bus.waitMreq a k b)
  waitNoMreq : ∀ a k b, k ≤ K → R 1 b (Bus.waitNoMreq a k b)
  waitInternal : ∀ k b, k ≤ K → R 1 b (Bus.waitInternal k b)
  readInternal : ∀ a b, R 0 b (Bus.readInternal a b).2
  writeInternal : ∀ a v b, R 0 b (Bus.writeInternal a v b)
  readIo : ∀ p b, R 1 b (Bus.readIo p b).2
  writeIo : ∀ p v b, R 1 b (Bus.writeIo p v b)
  readInterrupt : ∀ b, R 0 b (Bus.readInterrupt b).2
  reti : ∀ b, R 0 b (Bus.reti b)
  halt : ∀ on b, R 0 b (Bus.halt on b)
  pcCallback : ∀ a b, R 0 b (Bus.pcCallback a b)

namespace BusGraded
variable {K : Nat} {R : Nat → β → β → Prop} (h : BusGraded K R)
include h

/-! continuation forms: `R n b x → R (n + cost) b (op x)` -/
theorem k_waitMreq {n b x} (a k) (hk : k ≤ K) (hx : R n b x) : R (n + 1) b (Bus.waitMreq a k x) := h.trans hx (h.waitMreq a k x hk)
theorem k_waitNoMreq {n b x} (a k) (hk : k ≤ K) (hx : R n b x) : R (n + 1) b (Bus.waitNoMreq a k x) := h.trans hx (h.waitNoMreq a k x hk)
theorem k_waitInternal {n b x} (k) (hk : k ≤ K) (hx : R n b x) : R (n + 1) b (Bus.waitInternal k x) := h.trans hx (h.waitInternal k x hk)
theorem k_readInternal {n b x} (a) (hx : R n b x) : R n b (Bus.readInternal a x).2 := h.trans hx (h.readInternal a x)
theorem k_writeInternal {n b x} (a v) (hx : R n b x) : R n b (Bus.writeInternal a v x) := h.trans hx (h.writeInternal a v x)
theorem k_readIo {n b x} (p) (hx : R n b x) : R (n + 1) b (Bus.readIo p x).2 := h.trans hx (h.readIo p x)
theorem k_writeIo {n b x} (p v) (hx : R n b x) : R (n + 1) b (Bus.writeIo p v x) := h.trans hx (h.writeIo p v x)
theorem k_readInterrupt {n b x} (hx : R n b x) : R n b (Bus.readInterrupt x).2 := h.trans hx (h.readInterrupt x)
theorem k_reti {n b x} (hx : R n b x) : R n b (Bus.reti x) := h.trans hx (h.reti x)
theorem k_halt {n b x} (on) (hx : R n b x) : R n b (Bus.halt on x) := h.trans hx (h.halt on x)
theorem k_pcCallback {n b x} (a) (hx : R n b x) : R n b (Bus.pcCallback a x) := h.trans hx (h.pcCallback a x)

theorem k_read {n b x} (a k) (hk : k ≤ K) (hx : R n b x) : R (n + 1) b (read a k x).2 :=
  h.k_readInternal a (h.k_waitMreq a k hk hx)

theorem k_write {n b x} (a v k) (hk : k ≤ K) (hx : R n b x) : R (n + 1) b (write a v k x) :=
  h.k_writeInternal a v (h.k_waitMreq a k hk hx)

theorem one_le : 1 ≤ K := by have := h.big; omega
theorem three_le : 3 ≤ K := by have := h.big; omega
theorem four_le : 4 ≤ K := by have := h.big; omega

theorem k_waitLoop {n b x} (a m) (hx : R n b x) : R (n + m) b (waitLoop a m x) := by
  induction m generalizing n x with
  | zero => exact hx
  | succ m ih => exact h.up (ih (h.k_waitNoMreq a 1 h.one_le hx)) (by omega)

theorem k_readWord {n b x} (a k) (hk : k ≤ K) (hx : R n b x) : R (n + 2) b (readWord a k x).2 :=
  h.k_read (a + 1) k hk (h.k_read a k hk hx)

theorem k_writeWord {n b x} (a w k) (hk : k ≤ K) (hx : R n b x) : R (n + 2) b (writeWord a w k x) :=
  h.k_write (a + 1) (hi w) k hk (h.k_write a (lo w) k hk hx)

theorem k_fetchByte {n b x} (c s) (hk : c ≤ K) (hx : R n b x) : R (n + 1) b (fetchByte c s x).2.2 := h.k_read s.pc c hk hx

theorem k_fetchWord {n b x} (c s) (hk : c ≤ K) (hx : R n b x) : R (n + 2) b (fetchWord c s x).2.2 :=
  h.k_read (s.pc + 1) c hk (h.k_read s.pc c hk hx)

theorem k_push16 {n b x} (w c s) (hk : c ≤ K) (hx : R n b x) : R (n + 2) b (push16 w c s x).2 :=
  h.k_write (s.sp - 2) (lo w) c hk (h.k_write (s.sp - 1) (hi w) c hk hx)

theorem k_pop16 {n b x} (c s) (hk : c ≤ K) (hx : R n b x) : R (n + 2) b (pop16 c s x).2.2 :=
  h.k_read (s.sp + 1) c hk (h.k_read s.sp c hk hx)

theorem k_operandAddr {n b x} (p s) (hx : R n b x) : R (n + 6) b (operandAddr p s x).2.2 := by
  cases p
  · exact h.up hx (by omega)
  · exact h.k_waitLoop _ 5 (h.k_read _ 3 h.three_le hx)
  · exact h.k_waitLoop _ 5 (h.k_read _ 3 h.three_le hx)

theorem k_execCall {n b x} (t m s) (hx : R n b x) : R (n + 5) b (execCall t m s x).2 := by
  unfold execCall
  cases t
  · simp only [Bool.false_eq_true, if_false]
    exact h.up (h.k_read _ 3 h.three_le (h.k_fetchByte 3 s h.three_le hx)) (by omega)
  · simp only [if_true]
    exact h.k_push16 _ 3 _ h.three_le (h.k_waitNoMreq _ 1 h.one_le (h.k_read _ 3 h.three_le (h.k_fetchByte 3 s h.three_le hx)))

/-- `k ≤ K` for the literal clock counts of the model -/
macro "gbnd" h:ident : tactic => `(tactic| (have hbig := BusGraded.big $h; omega))

/-- backward chaining through the continuation forms: weaken the grade to a metavariable, let the
chain determine it, compare at the end -/
macro "graded_chain" h:ident hx:ident : tactic => `(tactic|
  (apply BusGraded.up $h
   · repeat (first
      | exact $hx
      | (have hbig := BusGraded.big $h; omega)
      | apply BusGraded.k_write $h | apply BusGraded.k_read $h | apply BusGraded.k_waitLoop $h
      | apply BusGraded.k_readWord $h | apply BusGraded.k_writeWord $h
      | apply BusGraded.k_fetchByte $h | apply BusGraded.k_fetchWord $h
      | apply BusGraded.k_push16 $h | apply BusGraded.k_pop16 $h
      | apply BusGraded.k_operandAddr $h | apply BusGraded.k_execCall $h
      | apply BusGraded.k_waitNoMreq $h | apply BusGraded.k_waitMreq $h | apply BusGraded.k_waitInternal $h
      | apply BusGraded.k_readIo $h | apply BusGraded.k_writeIo $h | apply BusGraded.k_readInterrupt $h
      | apply BusGraded.k_reti $h | apply BusGraded.k_halt $h | apply BusGraded.k_pcCallback $h)
   · omega))

/-- an unprefixed / DD / FD instruction after its opcode fetch: at most 10 timed operations
(`INC (IX+d)`: displacement, five delay T-states, read, one T-state, write) -/
theorem k_exec {n b x} (v p i s) (hx : R n b x) : R (n + 10) b (exec v p i s x).2 := by
  cases i <;> simp only [exec]
  all_goals (try (repeat' split))
  all_goals (try simp only [])
  all_goals (graded_chain h hx)

/-- an ED-page instruction after its second opcode fetch: at most 11 timed operations (repeating
`CPIR`/`CPDR`: one read, 5 + 5 single delay T-states) -/
theorem k_execED {n b x} (i s) (hx : R n b x) : R (n + 11) b (execED i s x).2 := by
  cases i <;> simp only [execED]
  all_goals (try (repeat' split))
  all_goals (try simp only [])
  all_goals (graded_chain h hx)

theorem k_cbMem {n b x} (i a c s) (hx : R n b x) : R (n + 3) b (cbMem i a c s x).2 := by
  simp only [cbMem]
  repeat' split
  all_goals (try simp only [])
  all_goals (graded_chain h hx)

theorem k_execCB {n b x} (s) (hx : R n b x) : R (n + 4) b (execCB s x).2 := by
  simp only [execCB]
  repeat' split
  all_goals (try simp only [])
  all_goals first
    | exact h.k_cbMem _ _ _ _ (h.k_fetchByte 4 _ h.four_le hx)
    | exact h.up (h.k_fetchByte 4 _ h.four_le hx) (by omega)

theorem k_execIdxCB {n b x} (p s) (hx : R n b x) : R (n + 7) b (execIdxCB p s x).2 := by
  simp only [execIdxCB]
  exact h.k_cbMem _ _ _ _ (h.k_waitLoop _ 2 (h.k_read _ 3 h.three_le (h.k_fetchByte 3 _ h.three_le hx)))

theorem k_releaseHalt {n b x} (s) (hx : R n b x) : R n b (releaseHalt s x).2 := by
  unfold releaseHalt; split
  · exact h.k_halt _ hx
  · exact hx

theorem k_acceptNmi {n b x} (s) (hx : R n b x) : R (n + 7) b (acceptNmi s x).2 := by
  simp only [acceptNmi]
  exact h.k_push16 _ _ _ (by gbnd h) (h.k_waitLoop _ _ (h.k_releaseHalt _ hx))

theorem k_acceptInt {n b x} (s) (hx : R n b x) : R (n + 5) b (acceptInt s x).2 := by
  simp only [acceptInt]
  split
  · exact h.k_waitInternal _ (by gbnd h) (h.k_readWord _ _ (by gbnd h) (h.k_readInterrupt (h.k_push16 _ _ _ (by gbnd h) (h.k_releaseHalt _ hx))))
  · exact h.up (h.k_waitInternal _ (by gbnd h) (h.k_push16 _ _ _ (by gbnd h) (h.k_releaseHalt _ hx))) (by omega)

theorem k_handleInterrupt {n b x} (s) (hx : R n b x) : R (n + 7) b (handleInterrupt s x).2 := by
  unfold handleInterrupt
  split
  · exact h.k_acceptNmi _ hx
  · split
    · exact h.up (h.k_acceptInt _ hx) (by omega)
    · exact h.up hx (by omega)

theorem k_checkInterrupt {n b x} (s) (hx : R n b x) : R (n + 7) b (checkInterrupt s x).2 := by
  unfold checkInterrupt
  split
  · exact h.up hx (by omega)
  · exact h.k_handleInterrupt _ hx

theorem k_afterIndexPrefix {n b x} (v p s) (hx : R n b x) : R (n + 11) b (afterIndexPrefix v p s x).2 := by
  simp only [afterIndexPrefix]
  split
  all_goals first
    | exact h.up (h.k_fetchByte 4 _ h.four_le hx) (by omega)
    | exact h.up (h.k_execIdxCB _ _ (h.k_fetchByte 4 _ h.four_le hx)) (by omega)
    | exact h.k_exec _ _ _ _ (h.k_fetchByte 4 _ h.four_le hx)

theorem k_afterEDPrefix {n b x} (s) (hx : R n b x) : R (n + 12) b (afterEDPrefix s x).2 := by
  simp only [afterEDPrefix]
  exact h.k_execED _ _ (h.k_fetchByte 4 _ h.four_le hx)

theorem k_execOne {n b x} (v s) (hx : R n b x) : R (n + 13) b (execOne v s x).2 := by
  unfold execOne
  split
  · exact h.up (h.k_afterIndexPrefix _ _ _ hx) (by omega)
  · exact h.up (h.k_afterIndexPrefix _ _ _ hx) (by omega)
  · exact h.up (h.k_afterEDPrefix _ hx) (by omega)
  · exact h.up (h.k_execCB _ hx) (by omega)
  · simp only []
    split
    all_goals first
      | exact h.up (h.k_afterIndexPrefix _ _ _ (h.k_fetchByte 4 _ h.four_le hx)) (by omega)
      | exact h.k_afterEDPrefix _ (h.k_fetchByte 4 _ h.four_le hx)
      | exact h.up (h.k_execCB _ (h.k_fetchByte 4 _ h.four_le hx)) (by omega)
      | exact h.up (h.k_exec _ _ _ _ (h.k_fetchByte 4 _ h.four_le hx)) (by omega)

/-- **One `emulate` issues at most 20 timed bus operations** (interrupt entry ≤ 7, prefix and opcode
fetches ≤ 2, the rest of the instruction ≤ 11:
a repeating `CPIR`/`CPDR` reads once and idles for 5 + 5 single T-states), whatever the CPU state and the bus. -/
theorem emulate (v : Variant) (s : Cpu) (b : β) : R 20 b (emulate v (s, b)).2 := by
  simp only [Z80.emulate]
  exact h.up (h.k_pcCallback _ (h.k_execOne _ _ (h.k_checkInterrupt _ (h.refl b)))) (by omega)

/-- … and `n` calls at most `20·n`. -/
theorem run (v : Variant) (n : Nat) (sb : Cpu × β) : R (20 * n) sb.2 (Z80.run v n sb).2 := by
  induction n generalizing sb with
  | zero => exact h.refl _
  | succ n ih =>
    simp only [Z80.run]
    exact h.up (h.trans (h.emulate v sb.1 sb.2) (ih _)) (by omega)

end BusGraded
end ZxVerif.Z80
