/-
A second "free theorem" of the Z80 model (the first is Lemmas/Z80Closed.lean): `emulate` touches
the bus only through the primitive operations of the `Bus` class, so a map `f : β → γ` between two
buses that commutes with every primitive (same values read, same interrupt lines) commutes with
`emulate`, hence with `run n`: the CPU goes through the same states on both buses and the bus
states stay related by `f` — for every instruction, every CPU state, every run length.

Use: a bus that wraps another bus and only *adds* ghost or derived state (`f` = the projection to
the wrapped bus) runs every program exactly as the wrapped bus does (Lemmas/AyBus.lean).
-/
import ZxVerif.Model.Z80.Exec
set_option linter.constructorNameAsVariable false
set_option linter.unusedSimpArgs false
namespace ZxVerif.Z80
variable {β γ : Type} [Bus β] [Bus γ]

/-- `f` commutes with every primitive bus operation; reads return the same values -/
structure BusHom (f : β → γ) : Prop where
  waitMreq : ∀ a k b, Bus.waitMreq a k (f b) = f (Bus.waitMreq a k b)
  waitNoMreq : ∀ a k b, Bus.waitNoMreq a k (f b) = f (Bus.waitNoMreq a k b)
  waitInternal : ∀ k b, Bus.waitInternal k (f b) = f (Bus.waitInternal k b)
  readInternal : ∀ a b, Bus.readInternal a (f b) = ((Bus.readInternal a b).1, f (Bus.readInternal a b).2)
  writeInternal : ∀ a v b, Bus.writeInternal a v (f b) = f (Bus.writeInternal a v b)
  readIo : ∀ p b, Bus.readIo p (f b) = ((Bus.readIo p b).1, f (Bus.readIo p b).2)
  writeIo : ∀ p v b, Bus.writeIo p v (f b) = f (Bus.writeIo p v b)
  readInterrupt : ∀ b, Bus.readInterrupt (f b) = ((Bus.readInterrupt b).1, f (Bus.readInterrupt b).2)
  reti : ∀ b, Bus.reti (f b) = f (Bus.reti b)
  halt : ∀ on b, Bus.halt on (f b) = f (Bus.halt on b)
  intActive : ∀ b, Bus.intActive (f b) = Bus.intActive b
  nmiActive : ∀ b, Bus.nmiActive (f b) = Bus.nmiActive b
  pcCallback : ∀ a b, Bus.pcCallback a (f b) = f (Bus.pcCallback a b)

namespace BusHom
variable {f : β → γ} (h : BusHom f)
include h

theorem read (a k) (b : β) : Z80.read a k (f b) = ((Z80.read a k b).1, f (Z80.read a k b).2) := by
  simp only [Z80.read, h.waitMreq, h.readInternal]

theorem write (a v k) (b : β) : Z80.write a v k (f b) = f (Z80.write a v k b) := by
  simp only [Z80.write, h.waitMreq, h.writeInternal]

theorem waitLoop (a n) (b : β) : Z80.waitLoop a n (f b) = f (Z80.waitLoop a n b) := by
  induction n generalizing b with
  | zero => rfl
  | succ n ih => simp only [Z80.waitLoop, h.waitNoMreq, ih]

theorem readWord (a k) (b : β) :
    Z80.readWord a k (f b) = ((Z80.readWord a k b).1, f (Z80.readWord a k b).2) := by
  simp only [Z80.readWord, h.read]

theorem writeWord (a w k) (b : β) : Z80.writeWord a w k (f b) = f (Z80.writeWord a w k b) := by
  simp only [Z80.writeWord, h.write]

theorem fetchByte (c s) (b : β) :
    Z80.fetchByte c s (f b) = ((Z80.fetchByte c s b).1, (Z80.fetchByte c s b).2.1, f (Z80.fetchByte c s b).2.2) := by
  simp only [Z80.fetchByte, h.read]

theorem fetchWord (c s) (b : β) :
    Z80.fetchWord c s (f b) = ((Z80.fetchWord c s b).1, (Z80.fetchWord c s b).2.1, f (Z80.fetchWord c s b).2.2) := by
  simp only [Z80.fetchWord, h.read]

theorem push16 (w c s) (b : β) :
    Z80.push16 w c s (f b) = ((Z80.push16 w c s b).1, f (Z80.push16 w c s b).2) := by
  simp only [Z80.push16, h.write]

theorem pop16 (c s) (b : β) :
    Z80.pop16 c s (f b) = ((Z80.pop16 c s b).1, (Z80.pop16 c s b).2.1, f (Z80.pop16 c s b).2.2) := by
  simp only [Z80.pop16, h.read]

theorem operandAddr (p s) (b : β) :
    Z80.operandAddr p s (f b) = ((Z80.operandAddr p s b).1, (Z80.operandAddr p s b).2.1, f (Z80.operandAddr p s b).2.2) := by
  cases p <;> simp only [Z80.operandAddr, h.read, h.waitLoop]

theorem execCall (t m s) (b : β) :
    Z80.execCall t m s (f b) = ((Z80.execCall t m s b).1, f (Z80.execCall t m s b).2) := by
  cases t <;> simp only [Z80.execCall, h.fetchByte, h.read, h.waitNoMreq, h.push16, if_true, Bool.false_eq_true, if_false]

theorem exec (v p i s) (b : β) :
    Z80.exec v p i s (f b) = ((Z80.exec v p i s b).1, f (Z80.exec v p i s b).2) := by
  cases i <;> simp only [Z80.exec, h.read, h.write, h.waitLoop, h.readWord, h.writeWord, h.fetchByte, h.fetchWord,
    h.push16, h.pop16, h.operandAddr, h.execCall, h.waitNoMreq, h.readIo, h.writeIo, h.halt]
  all_goals (try rfl)
  all_goals (try (repeat' split))
  all_goals (try rfl)

theorem execED (i s) (b : β) :
    Z80.execED i s (f b) = ((Z80.execED i s b).1, f (Z80.execED i s b).2) := by
  cases i <;> simp only [Z80.execED, h.read, h.write, h.waitLoop, h.readWord, h.writeWord, h.fetchByte, h.fetchWord,
    h.push16, h.pop16, h.waitNoMreq, h.readIo, h.writeIo, h.reti]
  all_goals (try rfl)
  all_goals (try (repeat' split))
  all_goals (try rfl)

theorem cbMem (i a c s) (b : β) :
    Z80.cbMem i a c s (f b) = ((Z80.cbMem i a c s b).1, f (Z80.cbMem i a c s b).2) := by
  simp only [Z80.cbMem, h.read, h.write, h.waitNoMreq]
  repeat' split
  all_goals rfl

theorem execCB (s) (b : β) : Z80.execCB s (f b) = ((Z80.execCB s b).1, f (Z80.execCB s b).2) := by
  simp only [Z80.execCB, h.fetchByte, h.cbMem]
  repeat' split
  all_goals rfl

theorem execIdxCB (p s) (b : β) :
    Z80.execIdxCB p s (f b) = ((Z80.execIdxCB p s b).1, f (Z80.execIdxCB p s b).2) := by
  simp only [Z80.execIdxCB, h.fetchByte, h.read, h.waitLoop, h.cbMem]

theorem releaseHalt (s) (b : β) :
    Z80.releaseHalt s (f b) = ((Z80.releaseHalt s b).1, f (Z80.releaseHalt s b).2) := by
  unfold Z80.releaseHalt
  split
  · simp only [h.halt]
  · rfl

theorem acceptNmi (s) (b : β) :
    Z80.acceptNmi s (f b) = ((Z80.acceptNmi s b).1, f (Z80.acceptNmi s b).2) := by
  simp only [Z80.acceptNmi, h.releaseHalt, h.waitLoop, h.push16]

theorem acceptInt (s) (b : β) :
    Z80.acceptInt s (f b) = ((Z80.acceptInt s b).1, f (Z80.acceptInt s b).2) := by
  simp only [Z80.acceptInt, h.releaseHalt, h.push16, h.readInterrupt, h.readWord, h.waitInternal]
  split <;> rfl

theorem handleInterrupt (s) (b : β) :
    Z80.handleInterrupt s (f b) = ((Z80.handleInterrupt s b).1, f (Z80.handleInterrupt s b).2) := by
  simp only [Z80.handleInterrupt, h.nmiActive, h.intActive, h.acceptNmi, h.acceptInt]
  repeat' split
  all_goals rfl

theorem checkInterrupt (s) (b : β) :
    Z80.checkInterrupt s (f b) = ((Z80.checkInterrupt s b).1, f (Z80.checkInterrupt s b).2) := by
  simp only [Z80.checkInterrupt, h.handleInterrupt]
  split <;> rfl

theorem afterIndexPrefix (v p s) (b : β) :
    Z80.afterIndexPrefix v p s (f b) = ((Z80.afterIndexPrefix v p s b).1, f (Z80.afterIndexPrefix v p s b).2) := by
  simp only [Z80.afterIndexPrefix, h.fetchByte, h.execIdxCB, h.exec]
  split <;> rfl

theorem afterEDPrefix (s) (b : β) :
    Z80.afterEDPrefix s (f b) = ((Z80.afterEDPrefix s b).1, f (Z80.afterEDPrefix s b).2) := by
  simp only [Z80.afterEDPrefix, h.fetchByte, h.execED]

theorem execOne (v s) (b : β) :
    Z80.execOne v s (f b) = ((Z80.execOne v s b).1, f (Z80.execOne v s b).2) := by
  simp only [Z80.execOne, h.fetchByte, h.afterIndexPrefix, h.afterEDPrefix, h.execCB, h.exec]
  repeat' split
  all_goals rfl

/-- **`emulate` commutes with every bus homomorphism**: same CPU state, related bus states. -/
theorem emulate (v : Variant) (s : Cpu) (b : β) :
    Z80.emulate v (s, f b) = ((Z80.emulate v (s, b)).1, f (Z80.emulate v (s, b)).2) := by
  simp only [Z80.emulate, h.checkInterrupt, h.execOne, h.pcCallback]

/-- … and so does any number of steps: every program, every run length. -/
theorem run (v : Variant) (n : Nat) (s : Cpu) (b : β) :
    Z80.run v n (s, f b) = ((Z80.run v n (s, b)).1, f (Z80.run v n (s, b)).2) := by
  induction n generalizing s b with
  | zero => rfl
  | succ n ih =>
    simp only [Z80.run]
    rw [h.emulate, ih]

end BusHom
end ZxVerif.Z80
