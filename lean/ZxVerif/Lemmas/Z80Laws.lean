/-
Helper lemmas for the architectural laws of the Z80 reference semantics (Props/C01Laws*.lean):
16-bit word assembly, address arithmetic, the recording bus as a read-your-write memory, and what one
`emulate` call is in terms of `exec`/`execED`/`execCB` once the opcode bytes in memory are known.
-/
import ZxVerif.Lemmas.Z80Trace
import ZxVerif.Props.C01
set_option linter.constructorNameAsVariable false
set_option linter.unusedSimpArgs false
namespace ZxVerif.Z80

/-! ### words -/

theorem hi_mk16 (h l : BitVec 8) : hi (mk16 h l) = h := by
  simp only [hi, mk16]; bv_decide
theorem lo_mk16 (h l : BitVec 8) : lo (mk16 h l) = l := by
  simp only [lo, mk16]; bv_decide
theorem mk16_hi_lo (w : BitVec 16) : mk16 (hi w) (lo w) = w := by
  simp only [hi, lo, mk16]; bv_decide
theorem mk16_inj (h l h' l' : BitVec 8) : (mk16 h l = mk16 h' l') = (h = h' ∧ l = l') := by
  simp only [mk16, eq_iff_iff]
  constructor
  · intro e; constructor <;> bv_decide
  · rintro ⟨rfl, rfl⟩; rfl

/-! ### 16-bit address arithmetic in the literal form `simp` produces -/

theorem a16_add1_sub1 (x : BitVec 16) : x + 1#16 - 1#16 = x := by bv_decide
theorem a16_sub1_add1 (x : BitVec 16) : x - 1#16 + 1#16 = x := by bv_decide
theorem a16_sub2_add1 (x : BitVec 16) : x - 2#16 + 1#16 = x - 1#16 := by bv_decide
theorem a16_sub2_add2 (x : BitVec 16) : x - 2#16 + 2#16 = x := by bv_decide
theorem a16_add2_sub2 (x : BitVec 16) : x + 2#16 - 2#16 = x := by bv_decide
theorem a16_sub2_ne_sub1 (x : BitVec 16) : (x - 2#16 = x - 1#16) = False := by simp
theorem a16_sub1_ne_sub2 (x : BitVec 16) : (x - 1#16 = x - 2#16) = False := by simp
theorem a16_add1_ne (x : BitVec 16) : (x + 1#16 = x) = False := by simp
theorem a16_ne_add1 (x : BitVec 16) : (x = x + 1#16) = False := by simp
theorem a8_add1_sub1 (x : BitVec 8) : x + 1#8 - 1#8 = x := by bv_decide
theorem a8_sub1_add1 (x : BitVec 8) : x - 1#8 + 1#8 = x := by bv_decide

/-! ### register file -/

theorem getR8_setR8 (p : Pfx) (r : R8) (x : BitVec 8) (s : Cpu) (h : r ≠ .m) :
    getR8 p r (setR8 p r x s) = x := by
  cases r <;> cases p <;> simp_all [getR8, setR8]

theorem setR8_getR8 (p : Pfx) (r : R8) (s : Cpu) : setR8 p r (getR8 p r s) s = s := by
  cases r <;> cases p <;> simp [getR8, setR8]

theorem setR8_setR8 (p : Pfx) (r : R8) (x y : BitVec 8) (s : Cpu) :
    setR8 p r x (setR8 p r y s) = setR8 p r x s := by
  cases r <;> cases p <;> simp [setR8]

/-! ### the recording bus is a read-your-write memory -/

theorem rb_read (a : BitVec 16) (c : Nat) (b : RecBus) : (read a c b).1 = b.mem a := rfl
theorem rb_read_mem (a : BitVec 16) (c : Nat) (b : RecBus) : (read a c b).2.mem = b.mem := rfl
theorem rb_write_mem (a : BitVec 16) (x : BitVec 8) (c : Nat) (b : RecBus) :
    (write a x c b).mem = fun y => if y = a then x else b.mem y := rfl
theorem rb_read_int (a : BitVec 16) (c : Nat) (b : RecBus) :
    (read a c b).2.int = b.int ∧ (read a c b).2.nmi = b.nmi := ⟨rfl, rfl⟩
theorem rb_write_int (a : BitVec 16) (x : BitVec 8) (c : Nat) (b : RecBus) :
    (write a x c b).int = b.int ∧ (write a x c b).nmi = b.nmi := ⟨rfl, rfl⟩
theorem rb_nomreq (a : BitVec 16) (c : Nat) (b : RecBus) :
    (Bus.waitNoMreq a c b).mem = b.mem ∧ (Bus.waitNoMreq a c b).int = b.int ∧
    (Bus.waitNoMreq a c b).nmi = b.nmi := ⟨rfl, rfl, rfl⟩
theorem rb_pccb (a : BitVec 16) (b : RecBus) :
    (Bus.pcCallback a b).mem = b.mem ∧ (Bus.pcCallback a b).int = b.int ∧
    (Bus.pcCallback a b).nmi = b.nmi := ⟨rfl, rfl, rfl⟩
theorem waitLoop_int (a : BitVec 16) (n : Nat) (b : RecBus) :
    (waitLoop a n b).int = b.int ∧ (waitLoop a n b).nmi = b.nmi := by
  induction n generalizing b with
  | zero => simp [waitLoop]
  | succ n ih => simp only [waitLoop]; rw [(ih _).1, (ih _).2]; exact ⟨rfl, rfl⟩

/-- the little-endian word stored at address `a` of a memory -/
def word (m : BitVec 16 → BitVec 8) (a : BitVec 16) : BitVec 16 := mk16 (m (a + 1)) (m a)

/-- unfold instruction semantics on the recording bus down to register fields and the memory function -/
macro "rb_simp" "[" xs:Lean.Parser.Tactic.simpLemma,* "]" : tactic => `(tactic|
  simp [exec, execED, execCall, operandAddr, fetchByte, fetchWord, push16, pop16, ZxVerif.Z80.read, ZxVerif.Z80.write,
    readWord, writeWord, waitLoop_mem, Bus.readInternal, Bus.writeInternal, Bus.waitMreq, Bus.waitNoMreq,
    RecBus.push, getRP, setRP, getRP2, setRP2, Cpu.bc, Cpu.de, Cpu.af, Cpu.idx, Cpu.hl, Cpu.ix, Cpu.iy,
    Cpu.setBC, Cpu.setDE, Cpu.setIdx, Cpu.setAF, Cpu.setHL, Cpu.setIX, Cpu.setIY, Cpu.setF,
    hi_mk16, lo_mk16, mk16_hi_lo, a16_sub2_add1, a16_sub2_add2, a16_sub1_ne_sub2, a16_sub2_ne_sub1,
    a16_add1_ne, a16_ne_add1, a16_add1_sub1, a16_sub1_add1, $xs,*])

/-! ### data-level inverse laws (pure bit-vector facts, whole operand spaces) -/

/-- F after `INC r; DEC r` on a register holding `x`: C as before, N set, S, Z and bits 5/3 of `x`,
H set iff the low nibble of `x` is 0xF, P/V set iff `x = 0x7F`. -/
def incDecF (x f : BitVec 8) : BitVec 8 :=
  (f &&& FC) ||| Spec.sz53 x ||| FN ||| flag ((x &&& 0x0F) == 0x0F) FH ||| flag (x == 0x7F) FPV

/-- F after `DEC r; INC r`: C as before, N clear, S, Z and bits 5/3 of `x`, H set iff the low nibble of
`x` is 0, P/V set iff `x = 0x80`. -/
def decIncF (x f : BitVec 8) : BitVec 8 :=
  (f &&& FC) ||| Spec.sz53 x ||| flag ((x &&& 0x0F) == 0) FH ||| flag (x == 0x80) FPV

theorem inc8_dec8 (x f : BitVec 8) :
    Spec.dec8 (Spec.inc8 x f).1 (Spec.inc8 x f).2 = (x, incDecF x f) := by
  simp only [Spec.dec8, Spec.inc8, incDecF, Spec.addFlags, Spec.subFlags, Spec.sz53, Spec.halfAdd8, Spec.halfSub8,
    Spec.ovfAdd8, Spec.ovfSub8, Spec.carryAdd8, Spec.carrySub8, Spec.cin8, flag, FC, FH, FN, FPV, FZ, Prod.mk.injEq]
  constructor <;> bv_decide

theorem dec8_inc8 (x f : BitVec 8) :
    Spec.inc8 (Spec.dec8 x f).1 (Spec.dec8 x f).2 = (x, decIncF x f) := by
  simp only [Spec.dec8, Spec.inc8, decIncF, Spec.addFlags, Spec.subFlags, Spec.sz53, Spec.halfAdd8, Spec.halfSub8,
    Spec.ovfAdd8, Spec.ovfSub8, Spec.carryAdd8, Spec.carrySub8, Spec.cin8, flag, FC, FH, FN, FPV, FZ, Prod.mk.injEq]
  constructor <;> bv_decide

/-- RLC then RRC of a byte: the byte is back, C = its bit 7, S Z P 5 3 of the byte -/
theorem rot_rlc_rrc (x : BitVec 8) (c : Bool) :
    Spec.rot 1 (Spec.rot 0 x c).1 (tst (Spec.rot 0 x c).2 FC) = (x, flag (x.getLsbD 7) FC ||| Spec.sz53p x) := by
  simp only [Spec.rot, Spec.sz53p, Spec.sz53, Spec.parityEven, flag, tst, FC, FPV, FZ, Prod.mk.injEq]
  constructor <;> bv_decide
theorem rot_rrc_rlc (x : BitVec 8) (c : Bool) :
    Spec.rot 0 (Spec.rot 1 x c).1 (tst (Spec.rot 1 x c).2 FC) = (x, flag (x.getLsbD 0) FC ||| Spec.sz53p x) := by
  simp only [Spec.rot, Spec.sz53p, Spec.sz53, Spec.parityEven, flag, tst, FC, FPV, FZ, Prod.mk.injEq]
  constructor <;> bv_decide
/-- RL then RR (9-bit rotation through carry): byte and carry are back -/
theorem rot_rl_rr (x : BitVec 8) (c : Bool) :
    Spec.rot 3 (Spec.rot 2 x c).1 (tst (Spec.rot 2 x c).2 FC) = (x, flag c FC ||| Spec.sz53p x) := by
  cases c <;> simp only [Spec.rot, Spec.sz53p, Spec.sz53, Spec.parityEven, Spec.cin8, flag, tst, FC, FPV, FZ, Prod.mk.injEq] <;>
  constructor <;> bv_decide
theorem rot_rr_rl (x : BitVec 8) (c : Bool) :
    Spec.rot 2 (Spec.rot 3 x c).1 (tst (Spec.rot 3 x c).2 FC) = (x, flag c FC ||| Spec.sz53p x) := by
  cases c <;> simp only [Spec.rot, Spec.sz53p, Spec.sz53, Spec.parityEven, Spec.cin8, flag, tst, FC, FPV, FZ, Prod.mk.injEq] <;>
  constructor <;> bv_decide

theorem rld_rrd_data (a m : BitVec 8) :
    Spec.rrd (Spec.rld a m).1 (Spec.rld a m).2 = (a, m) ∧ Spec.rld (Spec.rrd a m).1 (Spec.rrd a m).2 = (a, m) := by
  simp only [Spec.rrd, Spec.rld, Prod.mk.injEq]
  refine ⟨⟨?_, ?_⟩, ⟨?_, ?_⟩⟩ <;> bv_decide

theorem carry_of_sz53p (f y : BitVec 8) : ((f &&& 1#8) ||| Spec.sz53p y) &&& 1#8 = f &&& 1#8 := by
  simp only [Spec.sz53p, Spec.sz53, flag, FZ, FPV]
  split <;> split <;> bv_decide

/-! ### CB page on the recording bus -/

/-- one register-form CB rotate/shift whose opcode byte is at PC -/
theorem execCB_rot_reg (k : BitVec 3) (r : R8) (hr : r ≠ .m) (s : Cpu) (b : RecBus)
    (h : decodeCB (b.mem s.pc) = .rot k r) :
    execCB s b =
      (setR8 .none r (Spec.rot k (getR8 .none r s) (tst s.f FC)).1
        (({ s with pc := s.pc + 1, r := incR s.r }).setF (Spec.rot k (getR8 .none r s) (tst s.f FC)).2),
       (read s.pc 4 b).2) := by
  cases r <;> first | exact absurd rfl hr | skip
  all_goals simp [execCB, fetchByte, rb_read, h, CbInstr.reg, cbOp, applyF, getR8, setR8, Cpu.setF]

/-- one (HL)-form CB rotate/shift -/
theorem execCB_rot_mem (k : BitVec 3) (s : Cpu) (b : RecBus)
    (h : decodeCB (b.mem s.pc) = .rot k .m) :
    (execCB s b).1 = ({ s with pc := s.pc + 1, r := incR s.r }).setF (Spec.rot k (b.mem s.hl) (tst s.f FC)).2 ∧
    (execCB s b).2.mem = fun x => if x = s.hl then (Spec.rot k (b.mem s.hl) (tst s.f FC)).1 else b.mem x := by
  simp [execCB, fetchByte, rb_read, h, CbInstr.reg, cbOp, applyF, Cpu.setF, cbMem, Cpu.hl]
  exact ⟨rfl, rfl⟩

/-- two register-form CB rotates in a row whose data operations cancel (`hpair`) -/
theorem cb_rot_pair_r (k1 k2 : BitVec 3) (F : BitVec 8 → Bool → BitVec 8)
    (hpair : ∀ x c, Spec.rot k2 (Spec.rot k1 x c).1 (tst (Spec.rot k1 x c).2 FC) = (x, F x c))
    (r : R8) (hr : r ≠ .m) (s : Cpu) (b : RecBus)
    (h1 : decodeCB (b.mem s.pc) = .rot k1 r) (h2 : decodeCB (b.mem (s.pc + 1)) = .rot k2 r) :
    let sb1 := execCB s b
    let sb2 := execCB sb1.1 sb1.2
    getR8 .none r sb1.1 = (Spec.rot k1 (getR8 .none r s) (tst s.f FC)).1 ∧
    sb2.1 = ({ s with pc := s.pc + 1 + 1, r := incR (incR s.r) }).setF (F (getR8 .none r s) (tst s.f FC)) ∧
    sb2.2.mem = b.mem := by
  intro sb1 sb2
  have e1 : sb1 = _ := execCB_rot_reg k1 r hr s b h1
  have hpc : sb1.1.pc = s.pc + 1 := by rw [e1]; cases r <;> simp [setR8, Cpu.setF]
  have hm : sb1.2.mem = b.mem := by rw [e1]; rfl
  have e2 : sb2 = _ := execCB_rot_reg k2 r hr sb1.1 sb1.2 (by rw [hm, hpc]; exact h2)
  refine ⟨?_, ?_, ?_⟩
  · rw [e1]; simp [getR8_setR8 _ _ _ _ hr]
  · rw [e2]
    have hx : getR8 .none r sb1.1 = (Spec.rot k1 (getR8 .none r s) (tst s.f FC)).1 := by
      rw [e1]; simp [getR8_setR8 _ _ _ _ hr]
    have hf : sb1.1.f = (Spec.rot k1 (getR8 .none r s) (tst s.f FC)).2 := by
      rw [e1]; simp [setR8_f, Cpu.setF]
    rw [hx, hf, hpair]
    rw [e1]
    cases r <;> first | exact absurd rfl hr | skip
    all_goals cases s <;> simp [setR8, getR8, Cpu.setF]
  · rw [e2]; exact hm

/-! ### one `emulate` call in terms of `exec`/`execED`/`execCB` -/

/-- an instruction boundary of the recording bus at which `emulate` accepts no interrupt and no prefix
is pending -/
def Calm (s : Cpu) (b : RecBus) : Prop :=
  s.activePrefix = .none ∧ s.skipInt = false ∧ b.nmi = false ∧ (b.int && s.iff1) = false

theorem Calm.quiescent {s : Cpu} {b : RecBus} (h : Calm s b) : Quiescent s b := ⟨h.2.1, h.2.2.1, h.2.2.2⟩

/-- the byte of an index prefix -/
def idxByte : Pfx → BitVec 8
  | .dd => 0xDD | .fd => 0xFD | .none => 0x00

theorem emulate_main (v : Variant) (s : Cpu) (b : RecBus) (hc : Calm s b)
    (hnp : (decode (b.mem s.pc)).isPrefix = false) :
    emulate v (s, b) =
      let sb := exec v .none (decode (b.mem s.pc)) (stepQ { s with r := incR s.r, pc := s.pc + 1 }) (read s.pc 4 b).2
      (sb.1, Bus.pcCallback sb.1.pc sb.2) := by
  have hap := hc.1
  generalize hi : decode (b.mem s.pc) = i at hnp
  cases i <;> simp [Instr.isPrefix] at hnp <;>
    simp [emulate, checkInterrupt_quiescent s b hc.quiescent, execOne, hap, fetchByte, rb_read, hi]

theorem emulate_ed (v : Variant) (s : Cpu) (b : RecBus) (hc : Calm s b) (h0 : b.mem s.pc = 0xED) :
    emulate v (s, b) =
      let sb := execED (decodeED (b.mem (s.pc + 1))) (stepQ { s with r := incR (incR s.r), pc := s.pc + 1 + 1 })
        (read (s.pc + 1) 4 (read s.pc 4 b).2).2
      (sb.1, Bus.pcCallback sb.1.pc sb.2) := by
  have hap := hc.1
  have hd : decode 237#8 = .pfxED := by decide
  simp only [BitVec.ofNat_eq_ofNat] at h0
  simp [emulate, checkInterrupt_quiescent s b hc.quiescent, execOne, hap, fetchByte, rb_read, h0, hd, afterEDPrefix,
    rb_read_mem, stepQ]

theorem emulate_cb (v : Variant) (s : Cpu) (b : RecBus) (hc : Calm s b) (h0 : b.mem s.pc = 0xCB) :
    emulate v (s, b) =
      let sb := execCB (stepQ { s with r := incR s.r, pc := s.pc + 1 }) (read s.pc 4 b).2
      (sb.1, Bus.pcCallback sb.1.pc sb.2) := by
  have hap := hc.1
  have hd : decode 203#8 = .pfxCB := by decide
  simp only [BitVec.ofNat_eq_ofNat] at h0
  simp [emulate, checkInterrupt_quiescent s b hc.quiescent, execOne, hap, fetchByte, rb_read, h0, hd, stepQ]

theorem emulate_idx (v : Variant) (p : Pfx) (hp : p ≠ .none) (s : Cpu) (b : RecBus) (hc : Calm s b)
    (h0 : b.mem s.pc = idxByte p) (hnp : (decode (b.mem (s.pc + 1))).isPrefix = false) :
    emulate v (s, b) =
      let sb := exec v p (decode (b.mem (s.pc + 1))) (stepQ { s with r := incR (incR s.r), pc := s.pc + 1 + 1 })
        (read (s.pc + 1) 4 (read s.pc 4 b).2).2
      (sb.1, Bus.pcCallback sb.1.pc sb.2) := by
  have hap := hc.1
  have hdd : decode 221#8 = .pfxDD := by decide
  have hfd : decode 253#8 = .pfxFD := by decide
  generalize hi : decode (b.mem (s.pc + 1)) = i at hnp
  simp only [BitVec.ofNat_eq_ofNat] at hi
  cases p with
  | none => exact absurd rfl hp
  | dd =>
    simp only [idxByte, BitVec.ofNat_eq_ofNat] at h0
    cases i <;> simp [Instr.isPrefix] at hnp <;>
      simp [emulate, checkInterrupt_quiescent s b hc.quiescent, execOne, hap, fetchByte, rb_read, rb_read_mem, h0, hdd,
        afterIndexPrefix, hi, stepQ]
  | fd =>
    simp only [idxByte, BitVec.ofNat_eq_ofNat] at h0
    cases i <;> simp [Instr.isPrefix] at hnp <;>
      simp [emulate, checkInterrupt_quiescent s b hc.quiescent, execOne, hap, fetchByte, rb_read, rb_read_mem, h0, hfd,
        afterIndexPrefix, hi, stepQ]

/-! ### interrupt lines -/

/-- the interrupt request lines of the recording bus, which no bus operation changes -/
def RecBus.lines (b : RecBus) : Bool × Bool := (b.int, b.nmi)

theorem lines_read (a : BitVec 16) (c : Nat) (b : RecBus) : (read a c b).2.lines = b.lines := rfl
theorem lines_write (a : BitVec 16) (x : BitVec 8) (c : Nat) (b : RecBus) : (write a x c b).lines = b.lines := rfl
theorem lines_nomreq (a : BitVec 16) (c : Nat) (b : RecBus) : (Bus.waitNoMreq a c b).lines = b.lines := rfl
theorem lines_waitLoop (a : BitVec 16) (n : Nat) (b : RecBus) : (waitLoop a n b).lines = b.lines := by
  simp [RecBus.lines, waitLoop_int]
theorem lines_readIo (p : BitVec 16) (b : RecBus) : (Bus.readIo p b).2.lines = b.lines := by
  show (RecBus.readIo p b).2.lines = _
  unfold RecBus.readIo; cases b.io <;> rfl
theorem lines_writeIo (p : BitVec 16) (x : BitVec 8) (b : RecBus) : (Bus.writeIo p x b).lines = b.lines := rfl
theorem lines_halt (h : Bool) (b : RecBus) : (Bus.halt h b).lines = b.lines := rfl
theorem lines_reti (b : RecBus) : (Bus.reti b).lines = b.lines := rfl
theorem lines_pccb (a : BitVec 16) (b : RecBus) : (Bus.pcCallback a b).lines = b.lines := rfl
theorem lines_readWord (a : BitVec 16) (c : Nat) (b : RecBus) : (readWord a c b).2.lines = b.lines := rfl
theorem lines_writeWord (a w : BitVec 16) (c : Nat) (b : RecBus) : (writeWord a w c b).lines = b.lines := rfl
theorem lines_operandAddr (p : Pfx) (s : Cpu) (b : RecBus) : (operandAddr p s b).2.2.lines = b.lines := by
  cases p <;> simp [operandAddr, lines_waitLoop, lines_read]

theorem exec_lines (v : Variant) (p : Pfx) (i : Instr) (s : Cpu) (b : RecBus) :
    (exec v p i s b).2.lines = b.lines := by
  cases i with
  | inc r => cases r <;> simp [exec, lines_operandAddr, lines_read, lines_write, lines_nomreq]
  | dec r => cases r <;> simp [exec, lines_operandAddr, lines_read, lines_write, lines_nomreq]
  | alu op r => cases r <;> simp [exec, lines_operandAddr, lines_read]
  | ld d r => cases d <;> cases r <;> simp [exec, lines_operandAddr, lines_read, lines_write]
  | ldRN r => cases r <;> cases p <;> simp [exec, fetchByte, lines_read, lines_write, lines_waitLoop]
  | djnz => simp only [exec]; split <;> simp [lines_read, lines_waitLoop, lines_nomreq]
  | jrcc c => simp only [exec]; split <;> simp [lines_read, lines_waitLoop]
  | retcc c => simp only [exec]; split <;> simp [pop16, lines_read, lines_nomreq]
  | callcc c => simp only [exec, execCall]; split <;> simp [push16, fetchByte, lines_read, lines_write, lines_nomreq]
  | call => simp [exec, execCall, push16, fetchByte, lines_read, lines_write, lines_nomreq]
  | ldNNA => cases v <;> simp [exec, fetchWord, lines_read, lines_write]
  | outNA => cases v <;> simp [exec, fetchByte, lines_read, lines_writeIo]
  | _ => simp [exec, fetchWord, fetchByte, pop16, push16, lines_read, lines_write, lines_nomreq, lines_waitLoop,
      lines_readIo, lines_writeIo, lines_halt, lines_readWord, lines_writeWord]

theorem Calm.transfer {s s' : Cpu} {b b' : RecBus} (hc : Calm s b) (h1 : s'.activePrefix = .none)
    (h2 : s'.skipInt = false) (h3 : s'.iff1 = s.iff1) (hl : b'.lines = b.lines) : Calm s' b' := by
  obtain ⟨c1, c2, c3, c4⟩ := hc
  have hi : b'.int = b.int := congrArg Prod.fst hl
  have hn : b'.nmi = b.nmi := congrArg Prod.snd hl
  exact ⟨h1, h2, hn ▸ c3, by rw [hi, h3]; exact c4⟩

end ZxVerif.Z80
