/-
Helper lemmas for C01: the extracted lookup tables as functions of their index (every index checked).
-/
import ZxVerif.Model.Z80.Tables
import Std.Tactic.BVDecide
namespace ZxVerif.Z80.Impl
open ZxVerif.Z80 ZxVerif.Z80.Extracted

/-- an eight-entry table written as a chain of comparisons -/
def ite8 (t0 t1 t2 t3 t4 t5 t6 t7 : BitVec 8) (i : BitVec 8) : BitVec 8 :=
  if i = 0 then t0 else if i = 1 then t1 else if i = 2 then t2 else if i = 3 then t3
  else if i = 4 then t4 else if i = 5 then t5 else if i = 6 then t6 else if i = 7 then t7 else 0

theorem forall_bv8 {P : BitVec 8 → Prop} (h : ∀ n : Fin 256, P (BitVec.ofFin n)) (i : BitVec 8) : P i :=
  h i.toFin

theorem at8_halfCarryAdd (i : BitVec 8) :
    at8 halfCarryAdd i = ite8 0x00 0x10 0x10 0x10 0x00 0x00 0x00 0x10 i := by
  revert i; apply forall_bv8; decide +kernel

theorem at8_halfCarrySub (i : BitVec 8) :
    at8 halfCarrySub i = ite8 0x00 0x00 0x10 0x00 0x10 0x00 0x10 0x10 i := by
  revert i; apply forall_bv8; decide +kernel

theorem at8_overflowAdd (i : BitVec 8) :
    at8 overflowAdd i = ite8 0x00 0x00 0x00 0x04 0x04 0x00 0x00 0x00 i := by
  revert i; apply forall_bv8; decide +kernel

theorem at8_overflowSub (i : BitVec 8) :
    at8 overflowSub i = ite8 0x00 0x04 0x00 0x00 0x00 0x00 0x04 0x00 i := by
  revert i; apply forall_bv8; decide +kernel

theorem at8_parity (i : BitVec 8) : at8 parity i = flag (Spec.parityEven i) FPV := by
  revert i; apply forall_bv8; decide +kernel

theorem at8_f3f5 (i : BitVec 8) : at8 f3f5 i = i &&& 0x28 := by
  revert i; apply forall_bv8; decide +kernel

theorem at8_szf3f5 (i : BitVec 8) : at8 szf3f5 i = Spec.sz53 i := by
  revert i; apply forall_bv8; decide +kernel

theorem at8_szpf3f5 (i : BitVec 8) : at8 szpf3f5 i = Spec.sz53p i := by
  revert i; apply forall_bv8; decide +kernel

end ZxVerif.Z80.Impl
