/-
Helper lemmas for C03: the cycle view of the recording bus log and how the derived bus operations
extend it.
-/
import ZxVerif.Lemmas.Z80
import ZxVerif.Spec.Z80Cycles
set_option linter.constructorNameAsVariable false
set_option linter.unusedSimpArgs false
namespace ZxVerif.Z80
open Spec (Cyc)

/-- the (kind, address, clocks) view of a logged bus call; `halt`/`reti`/`pc_callback`/interrupt
acknowledge notifications take no time and are not cycles -/
def Ev.cyc : Ev → Option Cyc
  | .mreq a c => some (.m a c)
  | .nomreq a c => some (.n a c)
  | .internal c => some (.i c)
  | .rd a _ => some (.r a)
  | .wr a _ => some (.w a)
  | .ior p _ => some (.io p)
  | .iow p _ => some (.io p)
  | _ => none

/-- cycles of a log, newest first (as the log is kept) -/
def cyclesOf (log : List Ev) : List Cyc := log.filterMap Ev.cyc

/-- cycles of a bus in the order they happened -/
def RecBus.cycles (b : RecBus) : List Cyc := (cyclesOf b.log).reverse

theorem cyclesOf_cons (e : Ev) (l : List Ev) :
    cyclesOf (e :: l) = match e.cyc with | some c => c :: cyclesOf l | none => cyclesOf l := by
  simp only [cyclesOf, List.filterMap_cons]
  cases e.cyc <;> rfl

theorem waitLoop_mem (a : BitVec 16) (n : Nat) (b : RecBus) : (waitLoop a n b).mem = b.mem := by
  induction n generalizing b with
  | zero => rfl
  | succ n ih => simp only [waitLoop]; rw [ih]; rfl

theorem waitLoop_io (a : BitVec 16) (n : Nat) (b : RecBus) :
    (waitLoop a n b).io = b.io ∧ (waitLoop a n b).ioDefault = b.ioDefault ∧
    (waitLoop a n b).ioCount = b.ioCount ∧ (waitLoop a n b).busByte = b.busByte := by
  induction n generalizing b with
  | zero => simp [waitLoop]
  | succ n ih => simp only [waitLoop]; rw [(ih _).1, (ih _).2.1, (ih _).2.2.1, (ih _).2.2.2]; simp [Bus.waitNoMreq, RecBus.push]

/-- a `wait_loop` of `n` adds `n` one-T delay cycles at its address and leaves memory alone -/
theorem waitLoop_cycles (a : BitVec 16) (n : Nat) (b : RecBus) :
    cyclesOf (waitLoop a n b).log = Spec.idle a n ++ cyclesOf b.log := by
  induction n generalizing b with
  | zero => simp [waitLoop, Spec.idle]
  | succ n ih =>
    simp only [waitLoop]
    rw [ih]
    simp [Bus.waitNoMreq, RecBus.push, cyclesOf_cons, Ev.cyc, Spec.idle, List.replicate_succ']

theorem readIo_log (p : BitVec 16) (b : RecBus) :
    (RecBus.readIo p b).2.log = .ior p (RecBus.readIo p b).1 :: b.log := by
  unfold RecBus.readIo; cases b.io <;> rfl

theorem readIo_mem (p : BitVec 16) (b : RecBus) : (RecBus.readIo p b).2.mem = b.mem := by
  unfold RecBus.readIo; cases b.io <;> rfl

/-- newest-first statement → chronological statement -/
theorem cycles_of_rev {b b' : RecBus} {d : List Cyc}
    (h : cyclesOf b'.log = d.reverse ++ cyclesOf b.log) : b'.cycles = b.cycles ++ d := by
  simp [RecBus.cycles, h]

end ZxVerif.Z80
