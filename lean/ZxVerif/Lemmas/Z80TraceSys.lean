/-
Helper lemmas for C03Sys: how each primitive and derived bus operation of the *machine* bus
(`Spectrum.ZX`) acts on the three things the documented-cycle statements look at — the ghost log of
timed operations `tlog`, the memory as the CPU sees it (`ctl.mem`: contents and paging map) and the
paging latch `ctl.port7ffd`. Waits and port reads leave memory and latch alone; a memory write leaves
the latch and the log alone; only a port write can move the latch (and the map).
-/
import ZxVerif.Lemmas.Z80
import ZxVerif.Spec.Z80Timed
set_option linter.constructorNameAsVariable false
set_option linter.unusedSimpArgs false
namespace ZxVerif.Spectrum
open ZxVerif.Z80 ZxVerif.Machine
open ZxVerif.Z80.Spec (Cyc)

/-! ### the controller: clock operations touch neither memory nor latch -/

theorem ctl_waitInternal_mem (c : Ctl) (k : Nat) : (c.waitInternal k).mem = c.mem := by
  unfold Ctl.waitInternal; split <;> rfl

theorem ctl_waitInternal_latch (c : Ctl) (k : Nat) : (c.waitInternal k).port7ffd = c.port7ffd := by
  unfold Ctl.waitInternal; split <;> rfl

theorem ctl_waitMreq_mem (c : Ctl) (a : BitVec 16) (k : Nat) : (c.waitMreq a k).mem = c.mem := by
  unfold Ctl.waitMreq Ctl.doContention; split <;> simp [ctl_waitInternal_mem]

theorem ctl_waitMreq_latch (c : Ctl) (a : BitVec 16) (k : Nat) : (c.waitMreq a k).port7ffd = c.port7ffd := by
  unfold Ctl.waitMreq Ctl.doContention; split <;> simp [ctl_waitInternal_latch]

theorem ctl_ioFirst_mem (c : Ctl) (p : BitVec 16) : (c.ioContentionFirst p).mem = c.mem := by
  unfold Ctl.ioContentionFirst Ctl.doContention; split <;> simp [ctl_waitInternal_mem]

theorem ctl_ioFirst_latch (c : Ctl) (p : BitVec 16) : (c.ioContentionFirst p).port7ffd = c.port7ffd := by
  unfold Ctl.ioContentionFirst Ctl.doContention; split <;> simp [ctl_waitInternal_latch]

theorem ctl_ioLast_mem (c : Ctl) (p : BitVec 16) : (c.ioContentionLast p).mem = c.mem := by
  unfold Ctl.ioContentionLast Ctl.doContention Ctl.doContentionAndWait
  split
  · simp [ctl_waitInternal_mem]
  · split <;> simp [ctl_waitInternal_mem]

theorem ctl_ioLast_latch (c : Ctl) (p : BitVec 16) : (c.ioContentionLast p).port7ffd = c.port7ffd := by
  unfold Ctl.ioContentionLast Ctl.doContention Ctl.doContentionAndWait
  split
  · simp [ctl_waitInternal_latch]
  · split <;> simp [ctl_waitInternal_latch]

/-! ### primitive operations of the machine bus -/

section prim
variable (a : BitVec 16) (k : Nat) (v : BitVec 8) (z : ZX)

theorem waitMreq_tlog : (Bus.waitMreq a k z).tlog = (z.ctl.port7ffd, .mem a k) :: z.tlog := rfl
theorem waitMreq_mem : (Bus.waitMreq a k z).ctl.mem = z.ctl.mem := ctl_waitMreq_mem _ _ _
theorem waitMreq_latch : (Bus.waitMreq a k z).ctl.port7ffd = z.ctl.port7ffd := ctl_waitMreq_latch _ _ _

theorem waitNoMreq_tlog : (Bus.waitNoMreq a k z).tlog = (z.ctl.port7ffd, .mem a k) :: z.tlog := rfl
theorem waitNoMreq_mem : (Bus.waitNoMreq a k z).ctl.mem = z.ctl.mem := ctl_waitMreq_mem _ _ _
theorem waitNoMreq_latch : (Bus.waitNoMreq a k z).ctl.port7ffd = z.ctl.port7ffd := ctl_waitMreq_latch _ _ _

theorem waitInternal_tlog : (Bus.waitInternal k z).tlog = (z.ctl.port7ffd, .plain k) :: z.tlog := rfl
theorem waitInternal_mem : (Bus.waitInternal k z).ctl.mem = z.ctl.mem := ctl_waitInternal_mem _ _
theorem waitInternal_latch : (Bus.waitInternal k z).ctl.port7ffd = z.ctl.port7ffd := ctl_waitInternal_latch _ _

theorem readInternal_val : (Bus.readInternal a z).1 = z.ctl.mem.read a := rfl
theorem readInternal_bus : (Bus.readInternal a z).2 = z := rfl

theorem writeInternal_tlog : (Bus.writeInternal a v z).tlog = z.tlog := rfl
theorem writeInternal_latch : (Bus.writeInternal a v z).ctl.port7ffd = z.ctl.port7ffd := rfl
theorem writeInternal_mem : (Bus.writeInternal a v z).ctl.mem = z.ctl.mem.write a v := rfl

theorem readIo_tlog : (Bus.readIo a z).2.tlog = (z.ctl.port7ffd, .io a) :: z.tlog := rfl
theorem readIo_mem : (Bus.readIo a z).2.ctl.mem = z.ctl.mem := by
  show (((z.ctl.ioContentionFirst a).ioContentionLast a).waitInternal 1).mem = _
  rw [ctl_waitInternal_mem, ctl_ioLast_mem, ctl_ioFirst_mem]
theorem readIo_latch : (Bus.readIo a z).2.ctl.port7ffd = z.ctl.port7ffd := by
  show (((z.ctl.ioContentionFirst a).ioContentionLast a).waitInternal 1).port7ffd = _
  rw [ctl_waitInternal_latch, ctl_ioLast_latch, ctl_ioFirst_latch]

theorem writeIo_tlog : (Bus.writeIo a v z).tlog = (z.ctl.port7ffd, .io a) :: z.tlog := by
  show (ZX.writeIo a v z).tlog = _
  unfold ZX.writeIo
  cases h : writeDecode z.cfg a <;> rfl

theorem readInterrupt_eq : Bus.readInterrupt z = ((0xFF : BitVec 8), z) := rfl
theorem reti_eq : Bus.reti z = z := rfl
theorem halt_eq (on : Bool) : Bus.halt on z = z := rfl
theorem pcCallback_eq : Bus.pcCallback a z = z := rfl
theorem nmiActive_eq : Bus.nmiActive z = false := rfl
theorem intActive_eq : Bus.intActive z = z.ctl.intActive := rfl

end prim

/-! ### `wait_loop` -/

theorem waitLoop_mem (a : BitVec 16) (n : Nat) (z : ZX) : (waitLoop a n z).ctl.mem = z.ctl.mem := by
  induction n generalizing z with
  | zero => rfl
  | succ n ih => simp only [waitLoop]; rw [ih, waitNoMreq_mem]

theorem waitLoop_latch (a : BitVec 16) (n : Nat) (z : ZX) : (waitLoop a n z).ctl.port7ffd = z.ctl.port7ffd := by
  induction n generalizing z with
  | zero => rfl
  | succ n ih => simp only [waitLoop]; rw [ih, waitNoMreq_latch]

/-- a `wait_loop` of `n` adds `n` one-T memory-side operations at its address -/
theorem waitLoop_tlog (a : BitVec 16) (n : Nat) (z : ZX) :
    (waitLoop a n z).tlog = List.replicate n (z.ctl.port7ffd, TOp.mem a 1) ++ z.tlog := by
  induction n generalizing z with
  | zero => simp [waitLoop]
  | succ n ih =>
    simp only [waitLoop]
    rw [ih, waitNoMreq_latch, waitNoMreq_tlog]
    simp [List.replicate_succ']

/-! ### the timed projection -/

/-- the plain clocks of the timed view add up to the T-states of the cycle list (`f` = any function that
gives a memory-side/internal operation its clocks and a port cycle 4) -/
theorem timedOf_plain_sum (f : TOp → Nat) (hm : ∀ a k, f (.mem a k) = k) (hp : ∀ k, f (.plain k) = k)
    (hi : ∀ p, f (.io p) = 4) (l0 l1 : BitVec 8) (cs : List Cyc) :
    ((timedOf l0 l1 cs).map fun e => f e.2).sum = Spec.tsum cs := by
  induction cs generalizing l0 with
  | nil => rfl
  | cons c r ih =>
    have ih' := fun l => ih l
    simp only [Spec.tsum] at ih' ⊢
    cases c <;> simp [timedOf, Spec.Cyc.t, ih', hm, hp, hi]

/-- the second latch matters only behind a port cycle -/
theorem timedOf_no_io (l0 l1 l2 : BitVec 8) (cs : List Cyc) (h : ∀ p, Cyc.io p ∉ cs) :
    timedOf l0 l1 cs = timedOf l0 l2 cs := by
  induction cs with
  | nil => rfl
  | cons c r ih =>
    have hr : ∀ p, Cyc.io p ∉ r := fun p hp => h p (List.mem_cons_of_mem _ hp)
    cases c with
    | io p => exact absurd List.mem_cons_self (h p)
    | _ => simp only [timedOf, ih hr]

theorem tsum_append (xs ys : List Cyc) : Spec.tsum (xs ++ ys) = Spec.tsum xs + Spec.tsum ys := by
  simp [Spec.tsum]

theorem tsum_fetch4 (a : BitVec 16) : Spec.tsum (Spec.fetch4 a) = 4 := by
  simp [Spec.tsum, Spec.fetch4, Spec.Cyc.t]

/-! ### the memory view -/

theorem cpuMem_waitMreq (a : BitVec 16) (k : Nat) (z : ZX) : (Bus.waitMreq a k z : ZX).cpuMem = z.cpuMem := by
  funext x; simp only [ZX.cpuMem, Ctl.readInternal, waitMreq_mem]

/-! ### one `emulate` on the machine: what runs after the opcode fetch(es)

`pc_callback`, `halt`, `reti` do nothing to the machine state modelled here, and `read_internal`
returns the bus unchanged, so the bus after a 4-T opcode fetch at `a` is `Bus.waitMreq a 4 z`. -/

/-- an `emulate` whose interrupt check accepts nothing (no request, IFF1 clear, or held off by EI/DI/a
parked prefix) is the instruction part run with `skip_interrupt` cleared -/
theorem emulate_no_accept (v : Variant) (s : Cpu) (z : ZX) (hd : decision s z = .none) :
    emulate v (s, z) = execOne v { s with skipInt := false } z := by
  simp [emulate, checkInterrupt_eq_decision, hd, pcCallback_eq]

theorem decision_of_quiescent (s : Cpu) (z : ZX) (hq : Quiescent s z) : decision s z = .none := by
  obtain ⟨h1, h2, h3⟩ := hq
  simp [decision, h1, h2, h3]

theorem decision_of_skip (s : Cpu) (z : ZX) (h : s.skipInt = true) : decision s z = .none := by
  simp [decision, h]

macro "emu_simp" : tactic => `(tactic|
  simp [execOne, fetchByte, ZxVerif.Z80.read, readInternal_val, readInternal_bus, waitMreq_mem, afterIndexPrefix,
    afterEDPrefix, stepQ, body1, body2, *])

theorem emulate_unprefixed (v : Variant) (s : Cpu) (z : ZX) (hd : decision s z = .none)
    (hap : s.activePrefix = .none) (hnp : (decode (z.cpuMem s.pc)).isPrefix = false) :
    emulate v (s, z) = exec v .none (decode (z.cpuMem s.pc)) (body1 s) (Bus.waitMreq s.pc 4 z) := by
  rw [emulate_no_accept v s z hd]
  simp only [ZX.cpuMem, Ctl.readInternal] at hnp ⊢
  generalize hi : decode (z.ctl.mem.read s.pc) = i at hnp
  cases i <;> simp [Instr.isPrefix] at hnp <;> emu_simp

theorem decode_DD : decode 221#8 = .pfxDD := by decide
theorem decode_FD : decode 253#8 = .pfxFD := by decide
theorem decode_ED : decode 237#8 = .pfxED := by decide
theorem decode_CB : decode 203#8 = .pfxCB := by decide

theorem emulate_indexed (v : Variant) (p : Pfx) (hp : p ≠ .none) (s : Cpu) (z : ZX) (hd : decision s z = .none)
    (hap : s.activePrefix = .none) (h1 : z.cpuMem s.pc = pfxByte p)
    (hnp : (decode (z.cpuMem (s.pc + 1))).isPrefix = false) :
    emulate v (s, z) =
      exec v p (decode (z.cpuMem (s.pc + 1))) (body2 s) (Bus.waitMreq (s.pc + 1) 4 (Bus.waitMreq s.pc 4 z)) := by
  have hdd := decode_DD; have hfd := decode_FD
  rw [emulate_no_accept v s z hd]
  simp only [ZX.cpuMem, Ctl.readInternal] at hnp h1 ⊢
  generalize hi : decode (z.ctl.mem.read (s.pc + 1)) = i at hnp
  simp only [BitVec.ofNat_eq_ofNat] at hi
  cases p with
  | none => exact absurd rfl hp
  | dd =>
    simp only [pfxByte, BitVec.ofNat_eq_ofNat] at h1
    cases i <;> simp [Instr.isPrefix] at hnp <;> emu_simp
  | fd =>
    simp only [pfxByte, BitVec.ofNat_eq_ofNat] at h1
    cases i <;> simp [Instr.isPrefix] at hnp <;> emu_simp

theorem emulate_ed (v : Variant) (s : Cpu) (z : ZX) (hd : decision s z = .none)
    (hap : s.activePrefix = .none) (h1 : z.cpuMem s.pc = 0xED) :
    emulate v (s, z) =
      execED (decodeED (z.cpuMem (s.pc + 1))) (body2 s) (Bus.waitMreq (s.pc + 1) 4 (Bus.waitMreq s.pc 4 z)) := by
  have hed := decode_ED
  rw [emulate_no_accept v s z hd]
  simp only [ZX.cpuMem, Ctl.readInternal, BitVec.ofNat_eq_ofNat] at h1 ⊢
  emu_simp

theorem emulate_cb (v : Variant) (s : Cpu) (z : ZX) (hd : decision s z = .none)
    (hap : s.activePrefix = .none) (h1 : z.cpuMem s.pc = 0xCB) :
    emulate v (s, z) = execCB (body1 s) (Bus.waitMreq s.pc 4 z) := by
  have hcb := decode_CB
  rw [emulate_no_accept v s z hd]
  simp only [ZX.cpuMem, Ctl.readInternal, BitVec.ofNat_eq_ofNat] at h1 ⊢
  emu_simp

theorem emulate_ddcb (v : Variant) (p : Pfx) (hp : p ≠ .none) (s : Cpu) (z : ZX) (hd : decision s z = .none)
    (hap : s.activePrefix = .none) (h1 : z.cpuMem s.pc = pfxByte p) (h2 : z.cpuMem (s.pc + 1) = 0xCB) :
    emulate v (s, z) = execIdxCB p (body2 s) (Bus.waitMreq (s.pc + 1) 4 (Bus.waitMreq s.pc 4 z)) := by
  have hdd := decode_DD; have hfd := decode_FD; have hcb := decode_CB
  rw [emulate_no_accept v s z hd]
  simp only [ZX.cpuMem, Ctl.readInternal, BitVec.ofNat_eq_ofNat] at h1 h2 ⊢
  cases p with
  | none => exact absurd rfl hp
  | dd => simp only [pfxByte, BitVec.ofNat_eq_ofNat] at h1; emu_simp
  | fd => simp only [pfxByte, BitVec.ofNat_eq_ofNat] at h1; emu_simp

/-! a prefix parked by the previous `emulate` (DD/FD followed by another prefix byte) -/

theorem emulate_parked_indexed (v : Variant) (p : Pfx) (hp : p ≠ .none) (s : Cpu) (z : ZX)
    (hd : decision s z = .none) (hap : s.activePrefix = parked p)
    (hnp : (decode (z.cpuMem s.pc)).isPrefix = false) :
    emulate v (s, z) = exec v p (decode (z.cpuMem s.pc)) (body1 s) (Bus.waitMreq s.pc 4 z) := by
  rw [emulate_no_accept v s z hd]
  simp only [ZX.cpuMem, Ctl.readInternal] at hnp ⊢
  generalize hi : decode (z.ctl.mem.read s.pc) = i at hnp
  cases p with
  | none => exact absurd rfl hp
  | dd => simp only [parked] at hap; cases i <;> simp [Instr.isPrefix] at hnp <;> emu_simp
  | fd => simp only [parked] at hap; cases i <;> simp [Instr.isPrefix] at hnp <;> emu_simp

theorem emulate_parked_ddcb (v : Variant) (p : Pfx) (hp : p ≠ .none) (s : Cpu) (z : ZX)
    (hd : decision s z = .none) (hap : s.activePrefix = parked p) (h1 : z.cpuMem s.pc = 0xCB) :
    emulate v (s, z) = execIdxCB p (body1 s) (Bus.waitMreq s.pc 4 z) := by
  have hcb := decode_CB
  rw [emulate_no_accept v s z hd]
  simp only [ZX.cpuMem, Ctl.readInternal, BitVec.ofNat_eq_ofNat] at h1 ⊢
  cases p with
  | none => exact absurd rfl hp
  | dd => simp only [parked] at hap; emu_simp
  | fd => simp only [parked] at hap; emu_simp

theorem emulate_parked_ed (v : Variant) (s : Cpu) (z : ZX) (hd : decision s z = .none)
    (hap : s.activePrefix = .ed) :
    emulate v (s, z) = execED (decodeED (z.cpuMem s.pc)) (body1 s) (Bus.waitMreq s.pc 4 z) := by
  rw [emulate_no_accept v s z hd]
  simp only [ZX.cpuMem, Ctl.readInternal]
  emu_simp

end ZxVerif.Spectrum
