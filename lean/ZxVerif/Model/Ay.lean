/-
Model of the AY/YM sound chip as rustzx has it (C18):
  aym/src/backends/precise.rs   integer core of `AymPrecise`: tone / noise / envelope generators,
                                `ENVELOPES`, `ENVELOPE_RESET_TO_MAX`, `update_mixer` (DAC index per
                                channel), `write_register` decoding, DAC tables, pan table of `new`
  rustzx-core/src/zx/sound/ay.rs  `ZXAyChip` register file (select / write / read)
Hand transcription; tied to the code by the C18 correspondence check (hook `verif_raw_tick`).
NOT modelled here (IEEE-754, see DESIGN §10): interpolator, FIR decimator, DC filter — `process`,
`decimate`, `apply_dc_filter`. `left/right` before the filters are `Σ dac[out_i]·pan_i`; the model
yields the three `out_i`, the DAC table (as integers scaled by 10^14) and the squared pan gains.
No Mathlib imports here: this file is linked into the native driver.
-/
namespace ZxVerif.Ay

/-- the four functions the `ENVELOPES` table points to -/
inductive EnvFn | slideDown | slideUp | holdTop | holdBottom
  deriving DecidableEq, Repr, Inhabited

/-- `ENVELOPES[shape][segment]` -/
def envelopes (shape : Nat) (segment : Bool) : EnvFn :=
  match shape, segment with
  | 0, false | 1, false | 2, false | 3, false => .slideDown
  | 0, true | 1, true | 2, true | 3, true => .holdBottom
  | 4, false | 5, false | 6, false | 7, false => .slideUp
  | 4, true | 5, true | 6, true | 7, true => .holdBottom
  | 8, false => .slideDown | 8, true => .slideDown
  | 9, false => .slideDown | 9, true => .holdBottom
  | 10, false => .slideDown | 10, true => .slideUp
  | 11, false => .slideDown | 11, true => .holdTop
  | 12, false => .slideUp | 12, true => .slideUp
  | 13, false => .slideUp | 13, true => .holdTop
  | 14, false => .slideUp | 14, true => .slideDown
  | 15, false => .slideUp | 15, true => .holdBottom
  | _, _ => .holdBottom

/-- `ENVELOPE_RESET_TO_MAX[shape][segment]` -/
def resetToMax (shape : Nat) (segment : Bool) : Bool :=
  match shape, segment with
  | 0, false | 1, false | 2, false | 3, false => true
  | 8, _ => true
  | 9, false => true
  | 10, false => true
  | 11, _ => true
  | 13, true => true
  | 14, true => true
  | _, _ => false

/-- envelope generator: `envelope_counter/period/shape/segment`, `envelope` -/
structure Env where
  counter : Nat := 0
  period : Nat := 1
  shape : Nat := 0
  segment : Bool := false
  level : Nat := 0
  deriving DecidableEq, Repr

/-- `reset_segment` -/
def Env.resetSegment (e : Env) : Env :=
  { e with level := if resetToMax e.shape e.segment then 31 else 0 }

/-- `slide_up` -/
def Env.slideUp (e : Env) : Env :=
  if e.level = 31 then Env.resetSegment { e with segment := !e.segment }
  else { e with level := e.level + 1 }

/-- `slide_down` -/
def Env.slideDown (e : Env) : Env :=
  if e.level = 0 then Env.resetSegment { e with segment := !e.segment }
  else { e with level := e.level - 1 }

/-- `ENVELOPES[shape][segment](self)` -/
def Env.step (e : Env) : Env :=
  match envelopes e.shape e.segment with
  | .slideDown => e.slideDown
  | .slideUp => e.slideUp
  | .holdTop => e
  | .holdBottom => e

/-- `update_envelope` -/
def Env.tick (e : Env) : Env :=
  let c := e.counter + 1
  if c ≥ e.period then Env.step { e with counter := 0 } else { e with counter := c }

/-- `set_envelope`: period 0 acts as 1 -/
def Env.setPeriod (e : Env) (p : Nat) : Env := { e with period := if p = 0 then 1 else p }

/-- `set_envelope_shape` -/
def Env.setShape (e : Env) (shape : Nat) : Env :=
  Env.resetSegment { e with shape := shape % 16, counter := 0, segment := false }

/-- noise generator: `noise_period/counter`, `noise` (a `usize`; 64-bit here) -/
structure Noise where
  period : Nat := 0
  counter : Nat := 0
  lfsr : BitVec 64 := 1
  deriving DecidableEq, Repr

/-- `bit0x3 = (noise ^ (noise >> 3)) & 1; noise = (noise >> 1) | (bit0x3 << 16)` -/
def lfsrStep (x : BitVec 64) : BitVec 64 :=
  (x >>> 1) ||| (((x ^^^ (x >>> 3)) &&& 1) <<< 16)

/-- `update_noise` (the comparison is against `noise_period << 1`) -/
def Noise.tick (n : Noise) : Noise :=
  let c := n.counter + 1
  if c ≥ n.period * 2 then { n with counter := 0, lfsr := lfsrStep n.lfsr } else { n with counter := c }

/-- `noise & 1` -/
def Noise.bit (n : Noise) : Bool := n.lfsr.getLsbD 0

/-- `set_noise`: 5 bits, 0 acts as 1 -/
def Noise.setPeriod (n : Noise) (p : Nat) : Noise :=
  let p := p % 32
  { n with period := if p = 0 then 1 else p }

/-- `ToneChannel` without the pan gains -/
structure Chan where
  tonePeriod : Nat := 1
  toneCounter : Nat := 0
  tone : Bool := false
  toneOff : Bool := false
  noiseOff : Bool := false
  envEnabled : Bool := false
  volume : Nat := 0
  deriving DecidableEq, Repr

/-- `update_tone` -/
def Chan.tick (c : Chan) : Chan :=
  let n := c.toneCounter + 1
  if n ≥ c.tonePeriod then { c with toneCounter := 0, tone := !c.tone } else { c with toneCounter := n }

/-- `set_tone`: 12 bits, 0 acts as 1 -/
def Chan.setTone (c : Chan) (p : Nat) : Chan :=
  let p := p % 4096
  { c with tonePeriod := if p = 0 then 1 else p }

/-- `set_mixer` -/
def Chan.setMixer (c : Chan) (toneEnable noiseEnable envEnabled : Bool) : Chan :=
  { c with toneOff := !toneEnable, noiseOff := !noiseEnable, envEnabled := envEnabled }

/-- `set_volume` -/
def Chan.setVolume (c : Chan) (v : Nat) : Chan := { c with volume := v % 16 }

/-- the DAC index `out` of one channel in `update_mixer`
(`tone`, `noiseBit`, `level` are the values *after* this tick's generator updates) -/
def Chan.out (c : Chan) (noiseBit : Bool) (level : Nat) : Nat :=
  let gate := (c.tone || c.toneOff) && (noiseBit || c.noiseOff)
  (if gate then 1 else 0) * (if c.envEnabled then level else c.volume * 2 + 1)

def upd (f : Nat → BitVec 8) (i : Nat) (v : BitVec 8) : Nat → BitVec 8 :=
  fun j => if j = i then v else f j

/-- The integer state of `AymPrecise` (`registers` included). -/
structure Ay where
  ch0 : Chan := {}
  ch1 : Chan := {}
  ch2 : Chan := {}
  noise : Noise := {}
  env : Env := {}
  regs : Nat → BitVec 8 := fun _ => 0

/-- `AymPrecise::new` (integer part): `noise = 1`, `set_envelope(1)`, `set_tone(i, 1)`;
note `noise_period` stays 0 until R6 is written. -/
def Ay.init : Ay := {}

/-- One `update_mixer`: noise, envelope, then the three tones; returns the three DAC indices. -/
def Ay.tick (s : Ay) : Ay × (Nat × Nat × Nat) :=
  let noise := s.noise.tick
  let env := s.env.tick
  let c0 := s.ch0.tick
  let c1 := s.ch1.tick
  let c2 := s.ch2.tick
  ({ s with ch0 := c0, ch1 := c1, ch2 := c2, noise := noise, env := env },
   (c0.out noise.bit env.level, c1.out noise.bit env.level, c2.out noise.bit env.level))

def bit (v : BitVec 8) (mask : Nat) : Bool := v.toNat &&& mask ≠ 0

/-- the `set_mixer(i, …)` call of `write_register` for channel `i`, from the register file -/
def mixerOf (r : Nat → BitVec 8) (i : Nat) (c : Chan) : Chan :=
  c.setMixer (!bit (r 7) (1 <<< i)) (!bit (r 7) (8 <<< i)) (bit (r (8 + i)) 0x10)

/-- the `match address` of `write_register`, after `registers[address] = value` (`a < 14`) -/
def Ay.decode (s : Ay) (a : Nat) : Ay :=
  let r := s.regs
  match a with
  | 0 | 1 => { s with ch0 := s.ch0.setTone ((r 0).toNat + 256 * ((r 1).toNat % 16)) }
  | 2 | 3 => { s with ch1 := s.ch1.setTone ((r 2).toNat + 256 * ((r 3).toNat % 16)) }
  | 4 | 5 => { s with ch2 := s.ch2.setTone ((r 4).toNat + 256 * ((r 5).toNat % 16)) }
  | 6 => { s with noise := s.noise.setPeriod ((r 6).toNat % 32) }
  | 7 => { s with ch0 := mixerOf r 0 s.ch0, ch1 := mixerOf r 1 s.ch1, ch2 := mixerOf r 2 s.ch2 }
  | 8 => { s with ch0 := (mixerOf r 0 s.ch0).setVolume ((r 8).toNat % 16) }
  | 9 => { s with ch1 := (mixerOf r 1 s.ch1).setVolume ((r 9).toNat % 16) }
  | 10 => { s with ch2 := (mixerOf r 2 s.ch2).setVolume ((r 10).toNat % 16) }
  | 11 | 12 => { s with env := s.env.setPeriod ((r 11).toNat + 256 * (r 12).toNat) }
  | _ => { s with env := s.env.setShape ((r 13).toNat % 16) }

/-- `AymBackend::write_register` with the address as a number: addresses ≥ 14 are ignored -/
def Ay.writeReg (s : Ay) (a : Nat) (value : BitVec 8) : Ay :=
  if a ≥ 14 then s else Ay.decode { s with regs := upd s.regs a value } a

/-- `AymBackend::write_register` -/
def Ay.writeRegister (s : Ay) (address value : BitVec 8) : Ay := s.writeReg address.toNat value

/-- operations on the chip core: a register write or one `update_mixer` -/
inductive Op
  | write (address value : BitVec 8)
  | tick
  deriving Repr

def Ay.apply (s : Ay) : Op → Ay
  | .write a v => s.writeRegister a v
  | .tick => s.tick.1

def Ay.run (s : Ay) (ops : List Op) : Ay := ops.foldl Ay.apply s

/-- `AY_DAC_TABLE`, scaled by 10^14 -/
def dacAY : List Nat :=
  [0, 0, 999465934234, 999465934234, 1445029373620, 1445029373620, 2105745021740, 2105745021740,
   3070115205620, 3070115205620, 4554818036160, 4554818036160, 6449988555730, 6449988555730,
   10736247806500, 10736247806500, 12658884565500, 12658884565500, 20498970016000, 20498970016000,
   29221026932200, 29221026932200, 37283894102400, 37283894102400, 49253070878200, 49253070878200,
   63532463569100, 63532463569100, 80558480201400, 80558480201400, 100000000000000, 100000000000000]

/-- `YM_DAC_TABLE`, scaled by 10^14 -/
def dacYM : List Nat :=
  [0, 0, 465400167849, 772106507973, 1095597772180, 1396200503550, 1699855039290, 2001983672850,
   2436865796900, 2969405661100, 3506523231860, 4039063096060, 4853894865340, 5833524071110,
   6805523765930, 7777523460750, 9251544975970, 11108567940800, 12974746318800, 14848554207700,
   17666895552000, 21155107957600, 24638742656600, 28110170138100, 33373006790300, 40042725261300,
   46738384069600, 53443198291000, 63517204547200, 75800717174000, 87992675669500, 100000000000000]

def dacScale : Nat := 100000000000000

def dacTable (ym : Bool) : List Nat := if ym then dacYM else dacAY

/-- `AyMode`, in declaration order -/
inductive Mode | mono | abc | acb | bac | bca | cab | cba
  deriving DecidableEq, Repr, Inhabited

def Mode.all : List Mode := [.mono, .abc, .acb, .bac, .bca, .cab, .cba]

/-- The pan position of channels A, B, C per mode in `AymBackend::new`, doubled (0, 1 = centre, 2).
With `is_eqp = true` the gains are `pan_left = sqrt(1 - pan)`, `pan_right = sqrt(pan)`, i.e. the
squared gains are `(2 - pan2)/2` and `pan2/2`. -/
def pan2 : Mode → Nat × Nat × Nat
  | .mono => (1, 1, 1)
  | .abc => (0, 1, 2)
  | .acb => (0, 2, 1)
  | .bac => (1, 0, 2)
  | .bca => (2, 0, 1)
  | .cab => (1, 2, 0)
  | .cba => (2, 1, 0)

def pan2Of (m : Mode) (ch : Nat) : Nat :=
  match ch with
  | 0 => (pan2 m).1
  | 1 => (pan2 m).2.1
  | _ => (pan2 m).2.2

/-- `ZXAyChip` (the `AymPrecise` inside is fed every write) -/
structure Chip where
  currentReg : Nat := 0
  regs : Nat → BitVec 8 := fun _ => 0
  ay : Ay := {}

/-- `select_reg` -/
def Chip.selectReg (c : Chip) (reg : BitVec 8) : Chip := { c with currentReg := (reg &&& 0x0F).toNat }

/-- `write` -/
def Chip.write (c : Chip) (data : BitVec 8) : Chip :=
  { c with regs := upd c.regs c.currentReg data,
           ay := c.ay.writeRegister (BitVec.ofNat 8 c.currentReg) data }

/-- `read` -/
def Chip.read (c : Chip) : BitVec 8 := c.regs c.currentReg

end ZxVerif.Ay
