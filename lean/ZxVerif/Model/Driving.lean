/-
Model for C16 (determinism / independence of how the host drives the emulator):

  rustzx-core/src/emulator/mod.rs   `Emulator::emulate_frames`: frame loop, `'cpu` loop, event
                                    handling, `EmulationMode::{FrameCount, Max}`, stopwatch time-out
  rustzx-core/src/zx/controller.rs  `passed_frames`, `reset_frame_counter`, `frames_count`,
                                    `take_events`, `take_last_emulation_error`, the increment of
                                    `passed_frames` in `wait_internal`
  rustzx-core/src/utils/mod.rs      `EmulationMode`
  rustzx-core/src/host/io.rs        `LoadableAsset::read_exact`, `BufferCursor::{read, seek}`
  rustzx-utils/src/io/*.rs          `DynamicAsset`, `GzipAsset`, `FileAsset` (adapters: they forward
                                    `read`/`seek`; a std file may deliver short reads and signals EOF
                                    with `Ok(0)`, the buffer cursor with `Err(UnexpectedEof)`)

Part 1 transcribes the control loop over an *abstract deterministic machine* (the CPU, memory,
ULA, tape, ... are a parameter: one `step` is one `cpu.emulate` plus the event handling that
follows it). Part 2 transcribes `read_exact` over an asset whose `read` delivers the bytes in
scripted chunks, the seek arithmetic, and "a loader" as a program over these two operations.

Hand transcription; tied to the code by the C16 correspondence check (loop logic against a
timing-exact toy machine; `read_exact` against scripted chunkings) and by the metamorphic check on
the real emulator. No Mathlib imports here: this file is linked into the native driver.
-/
namespace ZxVerif.Driving

/-! ## Part 1 — the `emulate_frames` loop -/

/-- `rustzx_core::EmulationMode` -/
inductive Mode
  | frameCount (n : Nat)
  | max
  deriving DecidableEq, Repr

/-- `EmulationStopReason`, plus the two ways a call can end without an `EmulationInfo`:
`Err(e)` (`error`) and, in the model only, running out of fuel where the Rust loop would keep
spinning (`outOfFuel`). -/
inductive Stop
  | completed | timeout | breakpoint | error | outOfFuel
  deriving DecidableEq, Repr

/-- The abstract deterministic machine, everything the loop observes of one iteration of the `'cpu`
loop body as a function of the state *before* it:
* `step`    : `cpu.emulate(&mut controller)`, the error test, `take_events` and — if the fast-load
              trigger was raised — `process_fast_load_event` (state = CPU + controller without the
              per-call counter `passed_frames`, + the emulator's `fast_load` flag);
* `crossed` : how many times `wait_internal` executed `passed_frames += 1` during that step;
* `err`     : the step left `last_emulation_error` set, or fast loading returned `Err`.
Whether the step raised `PC_BREAKPOINT` is decided by the *host's* `DebugInterface`, so it is a
parameter of the call (`Call.bp`), not of the machine. -/
structure Machine (M : Type) where
  step : M → M
  crossed : M → Nat
  err : M → Bool

/-- `Stopwatch::measure` of a scripted stopwatch: every call consumes one reading; an exhausted
script reads zero (this is what `harness/src/host.rs::Sw` does). Durations are natural numbers
(nanoseconds). -/
def measure : List Nat → Nat × List Nat
  | [] => (0, [])
  | d :: ds => (d, ds)

/-- What the host fixes for one call of `emulate_frames`. `bp i m'` is the answer of
`DebugInterface::check_pc_breakpoint` after the `i`-th step of this call (0-based) when the machine
has reached `m'`: an arbitrary function of both, which covers breakpoint sets, one-shot
breakpoints, "stop after every instruction" and any stateful debugger. -/
structure Call (M : Type) where
  mode : Mode
  /-- `emulation_limit` -/
  limit : Nat
  bp : Nat → M → Bool

/-- Everything observable after a call. -/
structure Result (M : Type) where
  m : M
  reason : Stop
  /-- `controller.frames_count()` when the call returns -/
  passed : Nat
  /-- unread rest of the stopwatch script -/
  sw : List Nat
  /-- `EmulationInfo::duration` (0 for `Err`/fuel) -/
  duration : Nat
  /-- iterations of the `'cpu` loop body = calls of `cpu.emulate` -/
  steps : Nat
  /-- calls of `Stopwatch::measure` -/
  measures : Nat

/-- The two nested loops of `emulate_frames`, flattened into one recursion over `'cpu`-loop
iterations; `passed` is the controller's `passed_frames`. The outer (frame) loop only ever continues
from the `Max` branch, so "continue the outer loop" is the recursive call with `passed := 0`
(`reset_frame_counter` at the top of the outer loop).

```
loop {
    self.controller.reset_frame_counter();
    'cpu: loop {
        self.cpu.emulate(&mut self.controller);
        if let Some(e) = self.controller.take_last_emulation_error() { return Err(e); }
        let events = self.controller.take_events();
        if !events.is_empty() {
            if events.contains(TAPE_FAST_LOAD_TRIGGER_DETECTED) { self.process_fast_load_event()?; }
            if events.contains(PC_BREAKPOINT) { return Ok(.. stopwatch.measure(), Breakpoint) }
        }
        match self.mode {
            FrameCount(frames) => if self.controller.frames_count() >= frames { return Ok(.. measure(), Completed) },
            Max => if self.controller.frames_count() != 0 { break 'cpu; }
        }
    }
    if stopwatch.measure() > emulation_limit { return Ok(.. measure(), Timeout) }
}
``` -/
def run {M : Type} (mc : Machine M) (c : Call M) :
    Nat → M → Nat → List Nat → Nat → Nat → Result M
  | 0, m, passed, sw, steps, ms => ⟨m, .outOfFuel, passed, sw, 0, steps, ms⟩
  | fuel + 1, m, passed, sw, steps, ms =>
    let m' := mc.step m
    let passed' := passed + mc.crossed m
    if mc.err m then ⟨m', .error, passed', sw, 0, steps + 1, ms⟩
    else if c.bp steps m' then
      ⟨m', .breakpoint, passed', (measure sw).2, (measure sw).1, steps + 1, ms + 1⟩
    else
      match c.mode with
      | .frameCount n =>
        if n ≤ passed' then
          ⟨m', .completed, passed', (measure sw).2, (measure sw).1, steps + 1, ms + 1⟩
        else run mc c fuel m' passed' sw (steps + 1) ms
      | .max =>
        if passed' ≠ 0 then
          if c.limit < (measure sw).1 then
            ⟨m', .timeout, passed', (measure (measure sw).2).2, (measure (measure sw).2).1,
              steps + 1, ms + 2⟩
          else run mc c fuel m' 0 (measure sw).2 (steps + 1) (ms + 1)
        else run mc c fuel m' passed' sw (steps + 1) ms

/-- One call of `emulate_frames`: fresh stopwatch (the script `sw`), counter reset. -/
def emulateFrames {M : Type} (mc : Machine M) (c : Call M) (fuel : Nat) (m : M) (sw : List Nat) :
    Result M :=
  run mc c fuel m 0 sw 0 0

/-- One call together with what the host's stopwatch will answer and the fuel of the model. -/
structure CallSpec (M : Type) where
  call : Call M
  sw : List Nat
  fuel : Nat

/-- A driving: consecutive calls, each starting where the previous one stopped. -/
def drive {M : Type} (mc : Machine M) : List (CallSpec M) → M → List (Result M)
  | [], _ => []
  | c :: cs, m =>
    let r := emulateFrames mc c.call c.fuel m c.sw
    r :: drive mc cs r.m

/-- machine state after a driving -/
def finalOf {M : Type} (m0 : M) : List (Result M) → M
  | [] => m0
  | r :: rs => finalOf r.m rs

def totalSteps {M : Type} (rs : List (Result M)) : Nat := (rs.map (·.steps)).sum

/-- A driving in which the host additionally does something to the second (mixer) component of
the state before every call — draining the sample queue, changing volume, toggling sound. -/
def driveWith {C X : Type} (mc : Machine (C × X)) :
    List (CallSpec (C × X)) → List (X → X) → C × X → List (Result (C × X))
  | [], _, _ => []
  | c :: cs, gs, m =>
    let m1 : C × X := (m.1, (gs.headD id) m.2)
    let r := emulateFrames mc c.call c.fuel m1 c.sw
    r :: driveWith mc cs gs.tail r.m

/-- The timing-exact toy machine of the driver: a cyclic program of instructions with fixed
lengths (T-states) on a frame of `L` T-states; `idx` = next instruction, `clocks` = `frame_clocks`.
`wait_internal`: `frame_clocks += clk; if frame_clocks >= L { frame_clocks -= L; passed_frames += 1 }`
(an instruction is much shorter than a frame, so per instruction this happens at most once). -/
structure Toy where
  idx : Nat
  clocks : Nat
  deriving DecidableEq, Repr

def toyLen (table : List Nat) (m : Toy) : Nat := table.getD (m.idx % table.length) 0

def toyMachine (L : Nat) (table : List Nat) (errAt : List Nat) : Machine Toy where
  step m :=
    let c := m.clocks + toyLen table m
    ⟨(m.idx + 1) % table.length, if L ≤ c then c - L else c⟩
  crossed m := if L ≤ m.clocks + toyLen table m then 1 else 0
  err m := errAt.contains (m.idx % table.length)

/-! ## Part 2 — assets, `read_exact`, loaders -/

abbrev Byte := BitVec 8

/-- `IoError` kinds that matter here -/
inductive IoErr
  | unexpectedEof | seekBeforeStart | hostFailed
  deriving DecidableEq, Repr

/-- A file as the emulator sees it through `LoadableAsset + SeekableAsset`.
`chunks`: the `i`-th call of `read` delivers at most `chunks[i]` bytes (exhausted script: no cap).
`eofZero`: at end of data `read` answers `Ok(0)` (std files) instead of `Err(UnexpectedEof)`
(`BufferCursor`). -/
structure Asset where
  data : List Byte
  pos : Nat
  chunks : List Nat
  eofZero : Bool
  deriving DecidableEq, Repr

/-- the whole-buffer asset (`BufferCursor`) -/
def Asset.whole (data : List Byte) : Asset := ⟨data, 0, [], false⟩

/-- a short-reading asset -/
def Asset.chunked (data : List Byte) (chunks : List Nat) (eofZero : Bool) : Asset :=
  ⟨data, 0, chunks, eofZero⟩

/-- every scripted read makes progress (a cap of 0 in the middle of the data would be an early
end-of-file, not a chunking of the same bytes) -/
def Asset.productive (a : Asset) : Prop := ∀ c ∈ a.chunks, 1 ≤ c

/-- `LoadableAsset::read(&mut buf)` with `buf.len() = n` -/
def Asset.read (a : Asset) (n : Nat) : Except IoErr (List Byte) × Asset :=
  let a' := { a with chunks := a.chunks.tail }
  if a.data.length ≤ a.pos then
    (if a.eofZero then .ok [] else .error .unexpectedEof, a')
  else
    let avail := min n (a.data.length - a.pos)
    let k := match a.chunks with
      | [] => avail
      | c :: _ => min avail c
    (.ok ((a.data.drop a.pos).take k), { a' with pos := a.pos + k })

inductive Outcome
  | ok
  | err (e : IoErr)
  /-- model only: the fuel of the loop ran out (proved unreachable) -/
  | diverged
  deriving DecidableEq, Repr

/-- what the caller of `read_exact` sees: the bytes that landed in its buffer (a prefix of the
buffer, also when the call fails) and the outcome -/
structure ReadRes where
  data : List Byte
  out : Outcome
  deriving DecidableEq, Repr

/-- ```
while !buf.is_empty() {
    match self.read(buf)? { 0 => break, n => buf = &mut buf[n..] }
}
if !buf.is_empty() { return Err(IoError::UnexpectedEof) }
Ok(())
``` -/
def readExactGo : Nat → Asset → Nat → List Byte → ReadRes × Asset
  | _, a, 0, acc => (⟨acc, .ok⟩, a)
  | 0, a, _ + 1, acc => (⟨acc, .diverged⟩, a)
  | fuel + 1, a, rem + 1, acc =>
    match a.read (rem + 1) with
    | (.error e, a') => (⟨acc, .err e⟩, a')
    | (.ok bs, a') =>
      if bs.length = 0 then (⟨acc, .err .unexpectedEof⟩, a')
      else readExactGo fuel a' (rem + 1 - bs.length) (acc ++ bs)

def readExact (a : Asset) (n : Nat) : ReadRes × Asset := readExactGo n a n []

/-- `SeekFrom` -/
inductive SeekFrom
  | start (p : Nat)
  | fromEnd (d : Int)
  | current (d : Int)
  deriving DecidableEq, Repr

/-- target position of a seek, as the `isize` arithmetic of `BufferCursor::seek` computes it -/
def seekTarget (len pos : Nat) : SeekFrom → Int
  | .start p => (p : Int)
  | .fromEnd d => (len : Int) + d
  | .current d => (pos : Int) + d

/-- `BufferCursor::seek` (also `GzipAsset`); `FileAsset` forwards to the OS, which agrees on every
non-negative target. -/
def Asset.seek (a : Asset) (s : SeekFrom) : Except IoErr Nat × Asset :=
  if seekTarget a.data.length a.pos s < 0 then (.error .seekBeforeStart, a)
  else (.ok (seekTarget a.data.length a.pos s).toNat,
        { a with pos := (seekTarget a.data.length a.pos s).toNat })

/-- A loader: any computation that touches its asset only through `read_exact` and `seek`
(`Tap`, `sna::load`, `szx::load`, `scr::load`, ROM loading are of this form; they may inspect the
outcome and go on, as `szx::load` does). -/
inductive Prog (α : Type) where
  | ret : α → Prog α
  | readExact : Nat → (ReadRes → Prog α) → Prog α
  | seek : SeekFrom → (Except IoErr Nat → Prog α) → Prog α

def Prog.run {α : Type} : Prog α → Asset → α × Asset
  | .ret x, a => (x, a)
  | .readExact n k, a => (k (Driving.readExact a n).1).run (Driving.readExact a n).2
  | .seek s k, a => (k (a.seek s).1).run (a.seek s).2

end ZxVerif.Driving
