/-
Model of the input devices of rustzx-core (C17):
  rustzx-core/src/zx/keys.rs            ZXKey (row_id, mask, half_port), CompoundKey
  rustzx-core/src/zx/joy/sinclair.rs    sinclair_event_to_zx_key
  rustzx-core/src/zx/joy/kempston.rs    KempstonJoy
  rustzx-core/src/zx/mouse/kempston.rs  KempstonMouse
  rustzx-core/src/zx/controller.rs      send_key / send_sinclair_key / send_compound_key,
                                        the ULA branch of read_io
Hand transcription; tied to the code by the C17 correspondence check.
No Mathlib imports here: this file is linked into the native driver.
-/
set_option linter.constructorNameAsVariable false
namespace ZxVerif.Input

inductive ZXKey
  | shift | z | x | c | v
  | a | s | d | f | g
  | q | w | e | r | t
  | n1 | n2 | n3 | n4 | n5
  | n0 | n9 | n8 | n7 | n6
  | p | o | i | u | y
  | enter | l | k | j | h
  | space | symShift | m | n | b
  deriving DecidableEq, Repr, Inhabited

open ZXKey in
def ZXKey.all : List ZXKey :=
  [shift, z, x, c, v, a, s, d, f, g, q, w, e, r, t, n1, n2, n3, n4, n5,
   n0, n9, n8, n7, n6, p, o, i, u, y, enter, l, k, j, h, space, symShift, m, n, b]

inductive CompoundKey
  | arrowLeft | arrowRight | arrowUp | arrowDown | capsLock | delete | break_
  deriving DecidableEq, Repr, Inhabited

open CompoundKey in
def CompoundKey.all : List CompoundKey :=
  [arrowLeft, arrowRight, arrowUp, arrowDown, capsLock, delete, break_]

inductive SinclairKey | left | right | up | down | fire
  deriving DecidableEq, Repr, Inhabited

def SinclairKey.all : List SinclairKey := [.left, .right, .up, .down, .fire]

inductive JoyNum | first | second
  deriving DecidableEq, Repr, Inhabited

def JoyNum.all : List JoyNum := [.first, .second]

inductive KempstonKey | right | left | down | up | fire | ext1 | ext2 | ext3
  deriving DecidableEq, Repr, Inhabited

def KempstonKey.all : List KempstonKey := [.right, .left, .down, .up, .fire, .ext1, .ext2, .ext3]

inductive MouseButton | left | right | middle | additional
  deriving DecidableEq, Repr, Inhabited

def MouseButton.all : List MouseButton := [.left, .right, .middle, .additional]

/-- `ZXKey::half_port` -/
def ZXKey.halfPort : ZXKey → BitVec 8
  | .shift | .z | .x | .c | .v => 0xFE
  | .a | .s | .d | .f | .g => 0xFD
  | .q | .w | .e | .r | .t => 0xFB
  | .n1 | .n2 | .n3 | .n4 | .n5 => 0xF7
  | .n0 | .n9 | .n8 | .n7 | .n6 => 0xEF
  | .p | .o | .i | .u | .y => 0xDF
  | .enter | .l | .k | .j | .h => 0xBF
  | .space | .symShift | .m | .n | .b => 0x7F

/-- `ZXKey::row_id` (a match on `half_port`) -/
def ZXKey.rowId (k : ZXKey) : Nat :=
  let p := k.halfPort
  if p = 0xFE then 0 else if p = 0xFD then 1 else if p = 0xFB then 2 else if p = 0xF7 then 3
  else if p = 0xEF then 4 else if p = 0xDF then 5 else if p = 0xBF then 6 else 7

/-- `ZXKey::mask` -/
def ZXKey.mask : ZXKey → BitVec 8
  | .shift | .a | .q | .n1 | .n0 | .p | .enter | .space => 0x01
  | .z | .s | .w | .n2 | .n9 | .o | .l | .symShift => 0x02
  | .x | .d | .e | .n3 | .n8 | .i | .k | .m => 0x04
  | .c | .f | .r | .n4 | .n7 | .u | .j | .n => 0x08
  | .v | .g | .t | .n5 | .n6 | .y | .h | .b => 0x10

/-- `CompoundKey::modifier_mask` -/
def CompoundKey.modifierMask : CompoundKey → BitVec 32
  | .arrowLeft => 0x01 | .arrowRight => 0x02 | .arrowUp => 0x04 | .arrowDown => 0x08
  | .capsLock => 0x10 | .delete => 0x20 | .break_ => 0x40

/-- `CompoundKey::modifier_key` -/
def CompoundKey.modifierKey (_ : CompoundKey) : ZXKey := .shift

/-- `CompoundKey::primary_key` -/
def CompoundKey.primaryKey : CompoundKey → ZXKey
  | .arrowLeft => .n5 | .arrowRight => .n8 | .arrowUp => .n7 | .arrowDown => .n6
  | .capsLock => .n2 | .delete => .n0 | .break_ => .space

/-- `sinclair_event_to_zx_key` exactly as the code has it (note (second, down)). -/
def codeSinclairMap : JoyNum → SinclairKey → ZXKey
  | .first, .left => .n6 | .first, .right => .n7 | .first, .up => .n9
  | .first, .down => .n8 | .first, .fire => .n0
  | .second, .left => .n1 | .second, .right => .n2 | .second, .up => .n4
  | .second, .down => .n2 | .second, .fire => .n5

/-- `KempstonKey as u8` -/
def KempstonKey.bit : KempstonKey → BitVec 8
  | .right => 0x01 | .left => 0x02 | .down => 0x04 | .up => 0x08
  | .fire => 0x10 | .ext1 => 0x20 | .ext2 => 0x40 | .ext3 => 0x80

/-- `KempstonMouseButton as u8` -/
def MouseButton.bit : MouseButton → BitVec 8
  | .left => 0x01 | .right => 0x02 | .middle => 0x04 | .additional => 0x08

structure Mouse where
  buttons : BitVec 8 := 0xFF
  x : BitVec 8 := 0xFF
  y : BitVec 8 := 0xFF
  deriving DecidableEq, Repr

/-- point update of an array modelled as a function -/
def upd (f : Nat → BitVec 8) (i : Nat) (v : BitVec 8) : Nat → BitVec 8 :=
  fun j => if j = i then v else f j

/-- The input-related fields of `ZXController`. -/
structure Kbd where
  keyboard : Nat → BitVec 8 := fun _ => 0xFF
  extended : Nat → BitVec 8 := fun _ => 0xFF
  sinclair : Nat → BitVec 8 := fun _ => 0xFF
  capsMask : BitVec 32 := 0
  kempston : Option (BitVec 8) := some 0
  mouse : Option Mouse := some {}

def Kbd.init (kempston mouse : Bool) : Kbd :=
  { kempston := if kempston then some 0 else none,
    mouse := if mouse then some {} else none }

inductive Event
  | key (k : ZXKey) (pressed : Bool)
  | compound (c : CompoundKey) (pressed : Bool)
  | sinclair (n : JoyNum) (k : SinclairKey) (pressed : Bool)
  | kempston (k : KempstonKey) (pressed : Bool)
  | mouseButton (b : MouseButton) (pressed : Bool)
  | mouseWheel (up : Bool)
  | mouseMove (dx dy : BitVec 8)
  deriving Repr

/-- `ZXController::send_key` -/
def sendKey (s : Kbd) (k : ZXKey) (pressed : Bool) : Kbd :=
  if pressed then { s with keyboard := upd s.keyboard k.rowId (s.keyboard k.rowId &&& ~~~k.mask) }
  else { s with keyboard := upd s.keyboard k.rowId (s.keyboard k.rowId ||| k.mask) }

/-- `ZXController::send_sinclair_key`, parameterised by the key map -/
def sendSinclair (sm : JoyNum → SinclairKey → ZXKey) (s : Kbd) (n : JoyNum) (sk : SinclairKey)
    (pressed : Bool) : Kbd :=
  let k := sm n sk
  if pressed then { s with sinclair := upd s.sinclair k.rowId (s.sinclair k.rowId &&& ~~~k.mask) }
  else { s with sinclair := upd s.sinclair k.rowId (s.sinclair k.rowId ||| k.mask) }

/-- `ZXController::send_compound_key` (the modifier is always CAPS SHIFT, so the
`dummy_modifier_mask` branch is dead code) -/
def sendCompound (s : Kbd) (c : CompoundKey) (pressed : Bool) : Kbd :=
  let pk := c.primaryKey
  let mk := c.modifierKey
  if pressed then
    let m := s.capsMask ||| c.modifierMask
    let e1 := upd s.extended pk.rowId (s.extended pk.rowId &&& ~~~pk.mask)
    let e2 := upd e1 mk.rowId (e1 mk.rowId &&& ~~~mk.mask)
    { s with capsMask := m, extended := e2 }
  else
    let m := s.capsMask &&& ~~~c.modifierMask
    let e1 := if m = 0 then upd s.extended mk.rowId (s.extended mk.rowId ||| mk.mask) else s.extended
    let e2 := upd e1 pk.rowId (e1 pk.rowId ||| pk.mask)
    { s with capsMask := m, extended := e2 }

/-- `KempstonJoy::key` behind `Emulator::send_kempston_key` -/
def sendKempston (s : Kbd) (k : KempstonKey) (pressed : Bool) : Kbd :=
  match s.kempston with
  | none => s
  | some st => { s with kempston := some (if pressed then st ||| k.bit else st &&& ~~~k.bit) }

/-- `KempstonMouse::send_button` -/
def Mouse.sendButton (m : Mouse) (b : MouseButton) (pressed : Bool) : Mouse :=
  if pressed then { m with buttons := m.buttons &&& ~~~b.bit } else { m with buttons := m.buttons ||| b.bit }

/-- `KempstonMouse::send_wheel` -/
def Mouse.sendWheel (m : Mouse) (up : Bool) : Mouse :=
  let current := (m.buttons &&& 0xF0) >>> 4
  let current := current + (if up then 1 else 0xFF)
  { m with buttons := (m.buttons &&& ~~~(0xF0 : BitVec 8)) ||| ((current <<< 4) &&& 0xF0) }

/-- `KempstonMouse::send_pos_diff` (`dx`,`dy` are `i8` given as their bit patterns) -/
def Mouse.sendPosDiff (m : Mouse) (dx dy : BitVec 8) : Mouse :=
  { m with
    x := ((m.x.zeroExtend 16) + (dx.signExtend 16)).truncate 8
    y := ((m.y.zeroExtend 16) - (dy.signExtend 16)).truncate 8 }

def step (sm : JoyNum → SinclairKey → ZXKey) (s : Kbd) : Event → Kbd
  | .key k p => sendKey s k p
  | .compound c p => sendCompound s c p
  | .sinclair n k p => sendSinclair sm s n k p
  | .kempston k p => sendKempston s k p
  | .mouseButton b p => match s.mouse with
      | none => s | some m => { s with mouse := some (m.sendButton b p) }
  | .mouseWheel up => match s.mouse with
      | none => s | some m => { s with mouse := some (m.sendWheel up) }
  | .mouseMove dx dy => match s.mouse with
      | none => s | some m => { s with mouse := some (m.sendPosDiff dx dy) }

def run (sm : JoyNum → SinclairKey → ZXKey) (s : Kbd) (evs : List Event) : Kbd :=
  evs.foldl (step sm) s

/-- the row loop of the ULA branch of `read_io`: `tmp &= keyboard[n] & extended[n] & sinclair[n]`
for every `n` whose selector bit is 0 -/
def readRows (s : Kbd) (sel : BitVec 8) : BitVec 8 :=
  (List.range 8).foldl
    (fun tmp n => if !sel.getLsbD n
      then tmp &&& (s.keyboard n &&& s.extended n &&& s.sinclair n) else tmp) 0xFF

/-- the whole ULA read: rows, then `if !ear { tmp ^= 0x40 }` -/
def readUla (s : Kbd) (sel : BitVec 8) (ear : Bool) : BitVec 8 :=
  let tmp := readRows s sel
  if !ear then tmp ^^^ 0x40 else tmp

end ZxVerif.Input
