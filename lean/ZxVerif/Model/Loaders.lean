/- C15 model: see the four parts. -/
import ZxVerif.Model.Loaders.Asset
import ZxVerif.Model.Loaders.Snapshot
import ZxVerif.Model.Loaders.Tape
import ZxVerif.Model.Loaders.Vtx
