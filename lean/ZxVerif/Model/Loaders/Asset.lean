/-
C15 — loaders are total. Part 1 of the model: host assets with a fault script, `read_exact`,
and the small state/outcome monad in which every loader is written.

  rustzx-core/src/host/io.rs     LoadableAsset::read_exact (the loop), SeekFrom, BufferCursor
  harness/src/host.rs (VAsset)   the fault-injecting asset the correspondence check uses

Control-flow model with *explicit partiality*: an operation of the Rust code that can panic is a
branch to `Outcome.panic`, a loop that can spin is a fuel-bounded recursion that reports
`Outcome.hang`, every `vec![0; n]`/`to_vec`/`with_capacity` records `n`. The payload of a file
(register values, RAM contents) is not carried around: a successful `read_exact` of `n` bytes at
position `p` delivers exactly the window `[p, p+n)` of the byte string, and the model only looks
at the bytes that decide control flow, through `Asset.byte`.
Hand transcription; tied to the code by the C15 correspondence check. Core Lean only.
-/
namespace ZxVerif.Loaders

abbrev Byte := BitVec 8

/-- `rustzx_core::error::IoError` -/
inductive IoErr
  | unexpectedEof | writeZero | seekBeforeStart | hostFailed
  deriving DecidableEq, Repr, Inhabited

/-- error variants a loader can return (`rustzx_core::error::Error`, `vtx::VtxError`) -/
inductive ErrKind
  | io (e : IoErr)
  | moreAssetsRequired
  | invalidTap
  | invalidScr | scrMachineNotSupported
  | invalidSna | invalidSzx | machineNotSupported | zlibNotSupported
  | vtxHeader | vtxIo | vtxDecompress
  deriving DecidableEq, Repr, Inhabited

/-- The sites where the Rust code can leave the Ok/Err contract (panic, spin, allocation from an
unchecked length field). One tag per site; the same tags index the repair flags (`Fix`). -/
inductive Site
  | snaIm               -- `set_im`: assert!(value < 3) on IM byte 3
  | snaPage             -- `ram_page_data_mut`: 128K file, 48K receiver: page 5 does not exist
  | szxIdUtf8           -- `from_utf8(id_bytes).unwrap()`
  | szxAlloc            -- `vec![0; size]` from the 32-bit chunk length (no panic: allocation only)
  | szxCrtrShort | szxCrtrUtf8
  | szxZ80rShort | szxZ80rIm
  | szxSpcrShort | szxSpcrBorder   -- `ZXColor::from_bits`: assert!(bits <= 7)
  | szxAyShort
  | szxKeybShort
  | szxAmxmShort
  | szxRampShort | szxRampPage | szxRampData | szxRampInflated
  | tapArith            -- checked subtraction underflow in `next_block_byte`
  | tapIndex            -- `self.buffer[buffer_read_pos]`
  | tapPilot            -- `pulses_left -= 1` on 0
  | vtxSpin             -- string scan: `read` = 0 at EOF leaves the loop condition unchanged
  | vtxScan             -- string scan looks for NUL beyond `bytes_read` (zero padding of the buffer)
  | vtxArith            -- `strings_block_size - 1`
  | vtxStrings          -- assert_eq!(strings.len(), 5)
  | vtxAlloc            -- `vec![0u8; decompressed_frames_size]` from the header (allocation only)
  | vtxPlayerFreq       -- `sample_rate / player_frequency` with 0 (Player::new)
  | vtxLha              -- the LH5 decoder (external crate `delharc`, a parameter here) panics
  | snaRev              -- no failure site, a behaviour switch of the repair: a 48K snapshot is refused by the 128K machine too
  | snaRestore          -- behaviour switch (repo 7c58b25): the 0x7FFD latch of a snapshot is restored through
                        -- `restore_7ffd`, which unlocks the 128K machine first
  | szxMachine          -- behaviour switch (repo fce5ee2): an SZX file for the other machine model is refused
  deriving DecidableEq, Repr, Inhabited

def Site.all : List Site :=
  [.snaIm, .snaPage, .szxIdUtf8, .szxAlloc, .szxCrtrShort, .szxCrtrUtf8, .szxZ80rShort, .szxZ80rIm,
   .szxSpcrShort, .szxSpcrBorder, .szxAyShort, .szxKeybShort, .szxAmxmShort, .szxRampShort,
   .szxRampPage, .szxRampData, .szxRampInflated, .tapArith, .tapIndex, .tapPilot, .vtxSpin,
   .vtxScan, .vtxArith, .vtxStrings, .vtxAlloc, .vtxPlayerFreq, .vtxLha, .snaRev, .snaRestore, .szxMachine]

/-- Repair flags, one per site: `true` = the maintainer's check is present (the site answers with
an `Err` instead). `Fix.none` is the code as it stands, `Fix.all` the fully repaired code. -/
abbrev Fix := Site → Bool
def Fix.none : Fix := fun _ => false
def Fix.all : Fix := fun _ => true
/-- /repo as of e55b22a: the machine-model checks and `restore_7ffd` are in, the C15 sites are not -/
def Fix.head : Fix := fun s => s = .snaPage || s = .snaRev || s = .snaRestore || s = .szxMachine

inductive Outcome
  | ok
  | err (k : ErrKind)
  | panic (p : Site)
  | hang
  deriving DecidableEq, Repr, Inhabited

/-- the fault script of a host asset: how its `read`/`seek` calls answer -/
structure Script where
  /-- the n-th `read` call (0-based) delivers at most `chunk n` bytes; 0 = as many as asked -/
  chunk : Nat → Nat := fun _ => 0
  /-- indices of `read` calls that fail with `HostAssetImplFailed` -/
  readFails : List Nat := []
  /-- indices of `seek` calls that fail with `HostAssetImplFailed` -/
  seekFails : List Nat := []
  /-- at end of data `read` answers `Ok(0)` (std files) instead of `Err(UnexpectedEof)` (BufferCursor) -/
  eofZero : Bool := false

/-- a byte string (length + content) behind a cursor, with the counters the script is indexed by -/
structure Asset where
  len : Nat
  byte : Nat → Byte
  sc : Script := {}
  pos : Nat := 0
  reads : Nat := 0
  seeks : Nat := 0

def Asset.ofList (l : List Byte) (sc : Script := {}) : Asset :=
  { len := l.length, byte := fun i => l.getD i 0, sc := sc }

inductive SeekFrom
  | start (n : Nat) | fromEnd (d : Int) | current (d : Int)

/-- one `read(buf)` call with `buf.len() = want` -/
def Asset.read (a : Asset) (want : Nat) : Except IoErr Nat × Asset :=
  let a1 := { a with reads := a.reads + 1 }
  if a.sc.readFails.contains a.reads then (.error .hostFailed, a1)
  else if a.len ≤ a.pos then
    (if a.sc.eofZero then .ok 0 else .error .unexpectedEof, a1)
  else
    let k := min want (a.len - a.pos)
    let c := a.sc.chunk a.reads
    let k := if c = 0 then k else min k c
    (.ok k, { a1 with pos := a.pos + k })

/-- one `seek` call -/
def Asset.seek (a : Asset) (w : SeekFrom) : Except IoErr Nat × Asset :=
  let a1 := { a with seeks := a.seeks + 1 }
  if a.sc.seekFails.contains a.seeks then (.error .hostFailed, a1)
  else
    let np : Int := match w with
      | .start n => (n : Int)
      | .fromEnd d => (a.len : Int) + d
      | .current d => (a.pos : Int) + d
    if np < 0 then (.error .seekBeforeStart, a1)
    else (.ok np.toNat, { a1 with pos := np.toNat })

/-- `LoadableAsset::read_exact`: the loop `while !buf.is_empty() { match read(buf)? { 0 => break, n => buf = &mut buf[n..] } }`
followed by `if !buf.is_empty() { Err(UnexpectedEof) }`. `rem` = bytes still wanted. Every iteration
that continues has delivered at least one byte, so `fuel = rem` is never exhausted
(`Lemmas.readExactGo_fuel`). -/
def readExactGo (a : Asset) (rem : Nat) : Nat → Except IoErr Unit × Asset
  | 0 => (if rem = 0 then .ok () else .error .unexpectedEof, a)
  | fuel + 1 =>
    if rem = 0 then (.ok (), a) else
    match a.read rem with
    | (.error e, a') => (.error e, a')
    | (.ok 0, a') => (.error .unexpectedEof, a')
    | (.ok (k + 1), a') => readExactGo a' (rem - (k + 1)) fuel

def Asset.readExact (a : Asset) (n : Nat) : Except IoErr Unit × Asset := readExactGo a n n

/-! ### the loader monad -/

structure St where
  a : Asset
  /-- largest single allocation requested so far -/
  maxAlloc : Nat := 0
  /-- loop iterations and bytes copied (asset calls are counted by the asset itself) -/
  ticks : Nat := 0

inductive R (α : Type)
  | val (x : α) (s : St)
  | stop (o : Outcome) (s : St)

def M (α : Type) := St → R α

@[inline] def M.pure (x : α) : M α := fun s => .val x s
@[inline] def M.bind (m : M α) (f : α → M β) : M β := fun s =>
  match m s with
  | .val x s' => f x s'
  | .stop o s' => .stop o s'

instance : Monad M where
  pure := M.pure
  bind := M.bind

def stopM (o : Outcome) : M α := fun s => .stop o s
def failM (k : ErrKind) : M α := stopM (.err k)
def panicM (p : Site) : M α := stopM (.panic p)

/-- a validity check: `bad` input panics at site `p` in the code as it stands and is answered with
`Err k` where the repair flag of the site is set -/
def check (fx : Fix) (p : Site) (bad : Bool) (k : ErrKind) : M Unit :=
  if bad then (if fx p then failM k else panicM p) else pure ()

/-- `if bad { return Err(k) }` -/
def guardM (bad : Bool) (k : ErrKind) : M Unit :=
  if bad then failM k else pure ()

def tick (n : Nat := 1) : M Unit := fun s => .val () { s with ticks := s.ticks + n }

/-- `vec![0; n]`, `to_vec()`, `Vec::with_capacity(n)` -/
def alloc (n : Nat) : M Unit := fun s => .val () { s with maxAlloc := max s.maxAlloc n }

def getAsset : M Asset := fun s => .val s.a s

/-- `asset.seek(..)?` -/
def seekM (w : SeekFrom) : M Nat := fun s =>
  match s.a.seek w with
  | (.ok p, a') => .val p { s with a := a' }
  | (.error e, a') => .stop (.err (.io e)) { s with a := a' }

/-- `asset.read_exact(..)`, result inspected by the caller; on success the value is the offset of
the delivered window -/
def tryReadExact (n : Nat) : M (Except IoErr Nat) := fun s =>
  match s.a.readExact n with
  | (.ok (), a') => .val (.ok s.a.pos) { s with a := a' }
  | (.error e, a') => .val (.error e) { s with a := a' }

/-- `asset.read_exact(..)?` -/
def readExactM (n : Nat) : M Nat := fun s =>
  match s.a.readExact n with
  | (.ok (), a') => .val s.a.pos { s with a := a' }
  | (.error e, a') => .stop (.err (.io e)) { s with a := a' }

/-- what a whole load returns -/
structure Res where
  outcome : Outcome
  maxAlloc : Nat
  steps : Nat
  deriving Repr

def St.steps (s : St) : Nat := s.ticks + s.a.reads + s.a.seeks

def M.run (m : M Unit) (a : Asset) : Res :=
  match m { a := a } with
  | .val _ s => ⟨.ok, s.maxAlloc, s.steps⟩
  | .stop o s => ⟨o, s.maxAlloc, s.steps⟩

/-- little-endian fields -/
def Asset.u8 (a : Asset) (i : Nat) : Nat := (a.byte i).toNat
def Asset.le16 (a : Asset) (i : Nat) : Nat := a.u8 i + 256 * a.u8 (i + 1)
def Asset.le32 (a : Asset) (i : Nat) : Nat :=
  a.u8 i + 256 * a.u8 (i + 1) + 65536 * a.u8 (i + 2) + 16777216 * a.u8 (i + 3)

/-- the `n` bytes at `off` -/
def Asset.window (a : Asset) (off n : Nat) : List Nat :=
  (List.range n).map fun i => a.u8 (off + i)

end ZxVerif.Loaders
