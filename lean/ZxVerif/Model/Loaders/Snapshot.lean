/-
C15 — loaders are total. Part 2 of the model: SNA, SZX, SCR and ROM loading.

  rustzx-core/src/emulator/snapshot/sna.rs      load
  rustzx-core/src/emulator/snapshot/szx.rs      load, process_*_block, decompress_zlib_stream
  rustzx-core/src/emulator/screenshot/scr.rs    load
  rustzx-core/src/emulator/mod.rs               load_rom / load_rom_binary_16k_pages
  rustzx-core/src/zx/memory.rs                  ram_page_data_mut (page existence), get_page
  rustzx-core/src/zx/controller.rs              write_7ffd (lock, bank at 0xC000)
  rustzx-core/src/zx/video/colors.rs            ZXColor::from_bits (assert)
  rustzx-z80/src/cpu.rs                         set_im (assert)

Only what decides control flow, lengths and panics is kept. `tick` counts loop iterations and
handler invocations (a bulk copy is one step); asset calls are counted by the asset. Consecutive fixed-offset accesses
`block_data[0] … block_data[k]` with nothing observable in between are folded into one length
check (`size ≤ k` panics at the first missing index). `miniz_oxide` is a parameter (`inflate`).
-/
import ZxVerif.Model.Loaders.Asset
namespace ZxVerif.Loaders

/-- what the loaders can see of the emulator they load into -/
structure Recv where
  /-- Sinclair128K (8 RAM pages, 2 ROM pages) or Sinclair48K (3 RAM pages, 1 ROM page) -/
  m128 : Bool
  /-- `!paging_enabled`: always true on the 48K machine, the 0x20 lock bit on the 128K -/
  locked : Bool
  /-- RAM page mapped at 0xC000 (`get_page(0xFFFF)`); 2 on the 48K machine -/
  bank : Nat
  /-- `settings.ay_enabled` -/
  ay : Bool
  deriving Repr

def Recv.init (m128 ay : Bool) : Recv :=
  { m128 := m128, locked := !m128, bank := if m128 then 0 else 2, ay := ay }

def Recv.ramPages (r : Recv) : Nat := if r.m128 then 8 else 3
def Recv.romPages (r : Recv) : Nat := if r.m128 then 2 else 1

/-- `ZXController::write_7ffd`: ignored while locked; else top bank := low 3 bits, lock := bit 5.
(The `remap` calls cannot panic: unlocked means 128K, which has all 8 RAM and both ROM pages.) -/
def Recv.write7ffd (r : Recv) (v : Nat) : Recv :=
  if r.locked then r else { r with bank := v % 8, locked := (v / 32) % 2 = 1 }

/-- `ZXController::restore_7ffd`: the 128K machine is unlocked first, then `write_7ffd` -/
def Recv.restore7ffd (r : Recv) (v : Nat) : Recv :=
  (if r.m128 then { r with locked := false } else r).write7ffd v

/-- how a snapshot's latch value reaches the machine: `restore_7ffd` where the tree has it -/
def Recv.load7ffd (fx : Fix) (r : Recv) (v : Nat) : Recv :=
  if fx .snaRestore then r.restore7ffd v else r.write7ffd v

def PAGE : Nat := 16384

/-! ### SNA -/

def SNA_48K_SIZE : Nat := 49179

/-- `ram_page_data_mut(page)` followed by `asset.read_exact(page)?` -/
def loadPage (fx : Fix) (r : Recv) (site : Site) (k : ErrKind) (page : Nat) : M Unit := do
  check fx site (decide (r.ramPages ≤ page)) k
  let _ ← readExactM PAGE

def loadPages (fx : Fix) (r : Recv) (site : Site) (k : ErrKind) : List Nat → M Unit
  | [] => pure ()
  | p :: ps => do loadPage fx r site k p; loadPages fx r site k ps

/-- the 128K branch of `sna::load`: secondary header, `write_7ffd`, three head banks, tail banks -/
def sna128 (fx : Fix) (r : Recv) : M Unit := do
  let _ ← seekM (.start SNA_48K_SIZE)
  let t ← readExactM 4
  let a ← getAsset
  let r' := r.load7ffd fx (a.u8 (t + 2))
  let _ ← seekM (.start 27)
  let pb := r'.bank
  loadPages fx r' .snaPage .machineNotSupported [5, 2, pb]
  let _ ← seekM (.start 49183)
  loadPages fx r' .snaPage .machineNotSupported ([0, 1, 3, 4, 6, 7].filter (· ≠ pb))

/-- the 48K branch: three pages, then `pop_pc_from_stack` -/
def sna48 (fx : Fix) (r : Recv) : M Unit := do
  loadPages fx r .snaPage .machineNotSupported [0, 1, 2]
  tick 2

/-- `snapshot::sna::load` -/
def snaLoad (fx : Fix) (r : Recv) : M Unit := do
  let size ← seekM (.fromEnd 0)
  let _ ← seekM (.start 0)
  let is128 := decide (SNA_48K_SIZE < size)
  guardM (!is128 && decide (size < SNA_48K_SIZE)) (.io .unexpectedEof)
  -- repaired code: the snapshot kind must match the machine, checked before anything is touched
  guardM ((fx .snaPage && is128 && !r.m128) || (fx .snaRev && !is128 && r.m128)) .machineNotSupported
  let h ← readExactM 27
  let a ← getAsset
  -- emulator.cpu.set_im(header[25] & 3)
  check fx .snaIm (decide (a.u8 (h + 25) % 4 = 3)) .invalidSna
  (if is128 then sna128 fx r else sna48 fx r)
  tick              -- refresh_memory_dependent_devices

/-! ### SZX -/

/-- well-formed UTF-8 as `core::str::from_utf8` accepts it (Unicode table 3-7) -/
def utf8Valid : List Nat → Bool
  | [] => true
  | b0 :: rest =>
    let cont (b : Nat) : Bool := 0x80 ≤ b && b ≤ 0xBF
    if b0 < 0x80 then utf8Valid rest
    else if 0xC2 ≤ b0 && b0 ≤ 0xDF then
      match rest with
      | b1 :: r => cont b1 && utf8Valid r
      | _ => false
    else if 0xE0 ≤ b0 && b0 ≤ 0xEF then
      match rest with
      | b1 :: b2 :: r =>
        (if b0 = 0xE0 then 0xA0 ≤ b1 && b1 ≤ 0xBF
         else if b0 = 0xED then 0x80 ≤ b1 && b1 ≤ 0x9F
         else cont b1) && cont b2 && utf8Valid r
      | _ => false
    else if 0xF0 ≤ b0 && b0 ≤ 0xF4 then
      match rest with
      | b1 :: b2 :: b3 :: r =>
        (if b0 = 0xF0 then 0x90 ≤ b1 && b1 ≤ 0xBF
         else if b0 = 0xF4 then 0x80 ≤ b1 && b1 ≤ 0x8F
         else cont b1) && cont b2 && cont b3 && utf8Valid r
      | _ => false
    else false

/-- `str::to_uppercase` on the ids that matter: only ASCII letters can turn into the ASCII ids
(no multi-byte character upper-cases into a 4-character ASCII string of these shapes) -/
def upper (b : Nat) : Nat := if 0x61 ≤ b && b ≤ 0x7A then b - 0x20 else b

inductive ChunkId | crtr | z80r | spcr | ay | keyb | amxm | ramp | other
  deriving DecidableEq, Repr

def chunkId (id : List Nat) : ChunkId :=
  let u := id.map upper
  if u = [0x43, 0x52, 0x54, 0x52] then .crtr
  else if u = [0x5A, 0x38, 0x30, 0x52] then .z80r
  else if u = [0x53, 0x50, 0x43, 0x52] then .spcr
  else if u = [0x41, 0x59, 0, 0] then .ay
  else if u = [0x4B, 0x45, 0x59, 0x42] then .keyb
  else if u = [0x41, 0x4D, 0x58, 0x4D] then .amxm
  else if u = [0x52, 0x41, 0x4D, 0x50] then .ramp
  else .other

/-- result of `decompress_to_vec_zlib_with_limit(bytes, 65535)` for the compressed bytes found at
`(offset, length)` of the file: `none` = error, `some n` = n bytes -/
abbrev Inflate := Nat → Nat → Option Nat

/-- the receiving emulator as the chunk handlers see and change it -/
structure SzxEnv where
  r : Recv
  mid : Nat           -- machine id of the file header
  inflate : Inflate

/-- `process_crtr_block` -/
def szxCrtr (fx : Fix) (b size : Nat) : M Unit := do
  -- the repaired code checks the whole length first
  guardM (fx .szxCrtrShort && decide (size < 37)) .invalidSzx
  check fx .szxCrtrShort (decide (size < 33)) .invalidSzx
  let a ← getAsset
  check fx .szxCrtrUtf8 (!utf8Valid (a.window b 33)) .invalidSzx
  check fx .szxCrtrShort (decide (size < 37)) .invalidSzx

/-- `process_z80r_block`: indices 0..28, `set_im(block_data[28])`, indices 29..36 -/
def szxZ80r (fx : Fix) (b size : Nat) : M Unit := do
  guardM (fx .szxZ80rShort && decide (size < 37)) .invalidSzx
  check fx .szxZ80rShort (decide (size < 29)) .invalidSzx
  let a ← getAsset
  check fx .szxZ80rIm (decide (3 ≤ a.u8 (b + 28))) .invalidSzx
  check fx .szxZ80rShort (decide (size < 37)) .invalidSzx

/-- `process_spcr_block`: `[1]` only for a 128K file, `[3]`, then `ZXColor::from_bits([0])` -/
def szxSpcr (fx : Fix) (b size : Nat) : M Unit := do
  check fx .szxSpcrShort (decide (size < 4)) .invalidSzx
  let a ← getAsset
  check fx .szxSpcrBorder (decide (7 < a.u8 b)) .invalidSzx

/-- for 16K/48K files the AY chunk switches the AY on or off by bit 1 of its flags byte -/
def ayAfter (mid : Nat) (ay : Bool) (flags : Nat) : Bool :=
  let flag128 := decide ((flags / 2) % 2 = 1)
  if mid < 2 then (if flag128 && !ay then true else if !flag128 && ay then false else ay) else ay

/-- `process_ay_block`; returns the new `ay_enabled` -/
def szxAy (fx : Fix) (e : SzxEnv) (ay : Bool) (b size : Nat) : M Bool := do
  check fx .szxAyShort (decide (size < 1)) .invalidSzx
  let a ← getAsset
  let ay' := ayAfter e.mid ay (a.u8 b)
  -- only with the AY on: block_data[1], &block_data[2..], regs[..16]
  check fx .szxAyShort (ay' && decide (size < 18)) .invalidSzx
  pure ay'

def szxKeyb (fx : Fix) (size : Nat) : M Unit :=
  check fx .szxKeybShort (decide (size < 5)) .invalidSzx

def szxAmxm (fx : Fix) (size : Nat) : M Unit :=
  check fx .szxAmxmShort (decide (size < 1)) .invalidSzx

/-- page renumbering of `process_ramp_block` for 16K/48K files: 5 → 0, 2 → 1, 0 → 2 -/
def rampPage (mid page : Nat) : Nat :=
  if mid < 2 then (if page = 5 then 0 else if page = 2 then 1 else if page = 0 then 2 else page) else page

/-- `process_ramp_block` -/
def szxRamp (fx : Fix) (e : SzxEnv) (b size : Nat) : M Unit := do
  check fx .szxRampShort (decide (size < 3)) .invalidSzx
  let a ← getAsset
  let flags := a.le16 b
  let page := rampPage e.mid (a.u8 (b + 2))
  check fx .szxRampPage (decide (e.r.ramPages ≤ page)) .invalidSzx
  -- block_data[3..].to_vec()
  alloc (size - 3)
  tick
  if flags % 2 = 1 then
    match e.inflate (b + 3) (size - 3) with
    | none => failM .invalidSzx
    | some n => do
      alloc (min n 65535)
      check fx .szxRampInflated (decide (n < PAGE)) .invalidSzx
      tick
  else do
    check fx .szxRampData (decide (size - 3 < PAGE)) .invalidSzx
    tick

/-- `match id_str.as_str() { "CRTR" => .., .. }`; the value is the new `ay_enabled` -/
def szxDispatch (fx : Fix) (e : SzxEnv) (ay : Bool) (b size : Nat) : ChunkId → M Bool
  | .crtr => do szxCrtr fx b size; pure ay
  | .z80r => do szxZ80r fx b size; pure ay
  | .spcr => do szxSpcr fx b size; pure ay
  | .ay => szxAy fx e ay b size
  | .keyb => do szxKeyb fx size; pure ay
  | .amxm => do szxAmxm fx size; pure ay
  | .ramp => do szxRamp fx e b size; pure ay
  | .other => pure ay

/-- the `while asset.read_exact(&mut block_header).is_ok()` loop; `cursor` = `cursor_pos`,
`fileLen` = the answer of the initial `seek(End(0))` (used by the repaired code only) -/
def szxWalk (fx : Fix) (e : SzxEnv) (fileLen : Nat) : Nat → Nat → Bool → M Unit
  | 0, _, _ => stopM .hang
  | fuel + 1, cursor, ay => do
    tick
    match ← tryReadExact 8 with
    | .error _ => pure ()
    | .ok h => do
      let a ← getAsset
      let size := a.le32 (h + 4)
      let id := a.window h 4
      check fx .szxIdUtf8 (!utf8Valid id) .invalidSzx
      alloc 4                       -- the upper-cased String
      let cursor := cursor + 8
      let _ ← seekM (.start cursor)
      -- repaired code: the chunk cannot be longer than what is left of the file
      guardM (fx .szxAlloc && decide (fileLen - cursor < size)) .invalidSzx
      alloc size
      match ← tryReadExact size with
      | .error _ => failM .invalidSzx
      | .ok b => do
        let ay' ← szxDispatch fx e ay b size (chunkId id)
        let cursor := cursor + size
        let _ ← seekM (.start cursor)
        szxWalk fx e fileLen fuel cursor ay'

/-- `snapshot::szx::load` -/
def szxLoad (fx : Fix) (r : Recv) (inflate : Inflate) : M Unit := do
  let fileLen ← seekM (.fromEnd 0)
  let _ ← seekM (.start 0)
  let h ← readExactM 8
  let a ← getAsset
  guardM (decide (a.window h 4 ≠ [0x5A, 0x58, 0x53, 0x54])) .invalidSzx
  let mid := a.u8 (h + 6)
  guardM (decide (2 < mid)) .machineNotSupported
  -- the file's machine model must be the emulated one (where the tree checks it)
  guardM (fx .szxMachine && (decide (mid = 2) != r.m128)) .machineNotSupported
  let _ ← seekM (.start 8)
  szxWalk fx { r := r, mid := mid, inflate := inflate } fileLen (a.len + 1) 8 r.ay
  tick              -- refresh_memory_dependent_devices

/-! ### SCR -/

/-- `screenshot::scr::load`. Block 1 (0x4000) is RAM on both machines and never remapped, so the
`MachineNotSupported` arm is dead. -/
def scrLoad : M Unit := do
  let size ← seekM (.fromEnd 0)
  guardM (decide (size ≠ 6912)) .invalidScr
  let _ ← seekM (.start 0)
  tick 3            -- code generator: JP 0x8000 at 0x8000
  let _ ← readExactM 6912
  tick

/-! ### ROM -/

/-- `load_rom_binary_16k_pages`: one asset per ROM page of the machine -/
def romLoad (r : Recv) (assets : List Asset) : Res :=
  let rec go : Nat → List Asset → Nat → Res
    | 0, _, steps => ⟨.ok, 0, steps⟩
    | _ + 1, [], steps => ⟨.err .moreAssetsRequired, 0, steps⟩
    | n + 1, a :: rest, steps =>
      let res := M.run (do let _ ← readExactM PAGE) a
      match res.outcome with
      | .ok => go n rest (steps + res.steps + 1)
      | o => ⟨o, 0, steps + res.steps + 1⟩
  go r.romPages assets 0

end ZxVerif.Loaders
