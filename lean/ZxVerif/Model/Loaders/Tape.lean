/-
C15 — loaders are total. Part 3 of the model: the TAP tape (`Tap<A>`), playing and fast loading.

  rustzx-core/src/zx/tape/tap.rs            Tap::from_asset, next_block_byte, next_block,
                                            process_clocks, stop, play, rewind
  rustzx-core/src/emulator/fastload/tap.rs  fast_load_tap (its loop over the block bytes)

`Tap::from_asset` reads nothing, so "loading" a tape is total trivially; what can go wrong goes
wrong later, in the operations the emulator performs on the tape. They are modelled one by one
on a state that mirrors the Rust struct; checked arithmetic (`-` on usize) and indexing are
explicit `panic` branches.
-/
import ZxVerif.Model.Loaders.Asset
namespace ZxVerif.Loaders

inductive TState
  | stop | play
  | pilot (pulsesLeft : Nat)
  | sync | nextByte
  | nextBit (mask : Nat)
  | bitHalf (halfBitDelay mask : Nat)
  | pause
  deriving DecidableEq, Repr, Inhabited

def BUFFER_SIZE : Nat := 128

structure Tap where
  a : Asset
  state : TState := .stop
  prev : TState := .stop
  /-- `buffer: [u8; 128]` -/
  buf : Nat → Byte := fun _ => 0
  bufOff : Nat := 0          -- buffer_offset
  read : Nat := 0            -- block_bytes_read
  block : Option Nat := none -- current_block_size
  ended : Bool := false      -- tape_ended
  currBit : Bool := false
  currByte : Nat := 0
  delay : Nat := 0
  /-- loop iterations spent inside the operations so far -/
  ticks : Nat := 0

/-- `Tap::from_asset` -/
def Tap.fromAsset (a : Asset) : Tap := { a := a }

/-- result of one tape operation -/
inductive TR (α : Type)
  | ok (x : α)
  | stop (o : Outcome)
  deriving Repr

/-- `self.asset.read_exact(&mut self.buffer[0..n])`: the first `delivered` bytes of the buffer are
overwritten even when the call fails half way -/
def Tap.readInto (t : Tap) (n : Nat) : Except IoErr Unit × Tap :=
  match t.a.readExact n with
  | (r, a') =>
    let delivered := a'.pos - t.a.pos
    (r, { t with a := a', buf := fun i => if i < delivered then t.a.byte (t.a.pos + i) else t.buf i })

/-- `next_block_byte` -/
def Tap.nextBlockByte (t : Tap) : TR (Option Nat) × Tap :=
  if t.ended then (.ok none, t) else
  match t.block with
  | none => (.ok none, t)
  | some bs =>
    if bs ≤ t.read then (.ok none, t)
    -- let mut buffer_read_pos = self.block_bytes_read - self.buffer_offset;
    else if t.read < t.bufOff then (.stop (.panic .tapArith), t)
    else
      let pos := t.read - t.bufOff
      if BUFFER_SIZE ≤ pos then
        -- (block_size - self.buffer_offset - BUFFER_SIZE).min(BUFFER_SIZE)
        if bs < t.bufOff + BUFFER_SIZE then (.stop (.panic .tapArith), t)
        else
          let n := min (bs - t.bufOff - BUFFER_SIZE) BUFFER_SIZE
          match t.readInto n with
          | (.error e, t') => (.stop (.err (.io e)), t')
          | (.ok (), t') =>
            -- buffer_read_pos = 0; the second `block_bytes_read >= block_size` test repeats the first
            (.ok (some (t'.buf 0).toNat), { t' with bufOff := t'.bufOff + BUFFER_SIZE, read := t'.read + 1 })
      else
        -- self.buffer[buffer_read_pos] (pos < 128 here)
        (.ok (some (t.buf pos).toNat), { t with read := t.read + 1 })

/-- `while self.next_block_byte()?.is_some() {}` -/
def Tap.skipRest : Nat → Tap → TR Unit × Tap
  | 0, t => (.stop .hang, t)
  | fuel + 1, t =>
    match t.nextBlockByte with
    | (.stop o, t') => (.stop o, t')
    | (.ok none, t') => (.ok (), { t' with ticks := t'.ticks + 1 })
    | (.ok (some _), t') => Tap.skipRest fuel { t' with ticks := t'.ticks + 1 }

/-- `next_block` -/
def Tap.nextBlock (t : Tap) : TR Bool × Tap :=
  if t.ended then (.ok false, t) else
  match Tap.skipRest 65537 t with
  | (.stop o, t') => (.stop o, t')
  | (.ok (), t1) =>
    let p := t1.a.pos
    match t1.a.readExact 2 with
    | (.error _, a') => (.ok false, { t1 with a := a', ended := true })
    | (.ok (), a') =>
      let t2 := { t1 with a := a' }
      let bs := a'.le16 p
      match t2.readInto (min bs BUFFER_SIZE) with
      | (.error e, t3) => (.stop (.err (.io e)), t3)
      | (.ok (), t3) => (.ok true, { t3 with bufOff := 0, read := 0, block := some bs })

/-- `rewind`: on success the deck forgets where it was stopped and a running deck starts over -/
def Tap.rewind (t : Tap) : TR Unit × Tap :=
  let t1 := { t with currBit := false, currByte := 0, read := 0, bufOff := 0, block := none, delay := 0 }
  match t1.a.seek (.start 0) with
  | (.error e, a') => (.stop (.err (.io e)), { t1 with a := a' })
  | (.ok _, a') =>
    (.ok (), { t1 with a := a', ended := false, prev := .stop,
                       state := if t1.state = .stop then .stop else .play })

/-- `stop`: stopping a stopped deck keeps the remembered position -/
def Tap.stop (t : Tap) : Tap :=
  if t.state = .stop then t else { t with prev := t.state, state := .stop }

def Tap.play (t : Tap) : Tap :=
  if t.state = .stop then
    (if t.prev = .stop then { t with state := .play } else { t with state := t.prev })
  else t

/-- one pass through the `match self.state` of `process_clocks`: either `break 'state_machine`
(`done`) or another pass of the loop (`again`) -/
inductive Turn
  | done (r : TR Unit) (t : Tap)
  | again (t : Tap)

def Tap.turn (t : Tap) : Turn :=
  match t.state with
  | .stop =>
    match t.rewind with
    | (.stop o, t') => .done (.stop o) t'
    | (.ok (), t') => .done (.ok ()) { t' with state := .stop }
  | .play =>
    match t.nextBlock with
    | (.stop o, t') => .done (.stop o) t'
    | (.ok false, t') => .again { t' with state := .stop }
    | (.ok true, t') =>
      match t'.nextBlockByte with
      | (.stop o, t'') => .done (.stop o) t''
      | (.ok none, t'') => .done (.stop (.err .invalidTap)) t''
      | (.ok (some b), t'') =>
        .done (.ok ()) { t'' with currByte := b, currBit := true, delay := 2168,
                                  state := .pilot (if b = 0 then 8063 else 3223) }
  | .pilot n =>
    -- pulses_left -= 1
    if n = 0 then .done (.stop (.panic .tapPilot)) t
    else if n - 1 = 0 then .done (.ok ()) { t with currBit := !t.currBit, delay := 667, state := .sync }
    else .done (.ok ()) { t with currBit := !t.currBit, delay := 2168, state := .pilot (n - 1) }
  | .sync => .done (.ok ()) { t with currBit := !t.currBit, delay := 735, state := .nextBit 0x80 }
  | .nextByte =>
    match t.nextBlockByte with
    | (.stop o, t') => .done (.stop o) t'
    | (.ok (some b), t') => .again { t' with currByte := b, state := .nextBit 0x80 }
    | (.ok none, t') => .again { t' with state := .pause }
  | .nextBit mask =>
    let d := if t.currByte &&& mask = 0 then 855 else 1710
    .done (.ok ()) { t with currBit := !t.currBit, delay := d, state := .bitHalf d mask }
  | .bitHalf d mask =>
    let mask := mask / 2
    .done (.ok ()) { t with currBit := !t.currBit, delay := d,
                            state := if mask = 0 then .nextByte else .nextBit mask }
  | .pause => .done (.ok ()) { t with currBit := !t.currBit, delay := 3500000, state := .play }

/-- the `'state_machine: loop` of `process_clocks` -/
def Tap.machine : Nat → Tap → TR Unit × Tap
  | 0, t => (.stop .hang, t)
  | fuel + 1, t =>
    match Tap.turn { t with ticks := t.ticks + 1 } with
    | .done r t' => (r, t')
    | .again t' => Tap.machine fuel t'

/-- `process_clocks` -/
def Tap.processClocks (t : Tap) (clocks : Nat) : TR Unit × Tap :=
  if t.state = .stop then (.ok (), t)
  else if 0 < t.delay then
    (.ok (), { t with delay := if t.delay < clocks then 0 else t.delay - clocks })
  else Tap.machine 4 t

/-! ### fast loading -/

/-- the registers `fast_load_tap` works with (after its `swap_af_alt`) -/
structure FlRegs where
  f : Nat
  acc : Nat
  de : Nat
  ix : Nat
  deriving Repr, DecidableEq

def xor8 (x y : Nat) : Nat := (BitVec.ofNat 8 x ^^^ BitVec.ofNat 8 y).toNat

/-- the `'loader: loop`; `mem` answers the VERIFY reads. Returns the registers and whether a
result flag was set (= RET performed). -/
def Tap.flLoop (mem : Nat → Nat) : Nat → Tap → FlRegs → Nat → TR (FlRegs × Option Nat) × Tap
  | 0, t, _, _ => (.stop .hang, t)
  | fuel + 1, t0, g, parity =>
    let t := { t0 with ticks := t0.ticks + 1 }
    match t.nextBlockByte with
    | (.stop o, t') => (.stop o, t')
    | (.ok none, t') => (.ok (g, some 0x40), t')          -- FLAG_ZERO
    | (.ok (some b), t') =>
      let parity := xor8 parity b
      if g.de = 0 then
        (.ok ({ g with acc := parity }, some (if parity = 0 then 1 else 0)), t')
      else if g.f &&& 0x40 = 0 then
        let acc := xor8 g.acc b
        if acc ≠ 0 then (.ok ({ g with acc := acc }, some 0), t')
        else Tap.flLoop mem fuel t' { g with acc := acc, f := g.f ||| 0x40 } parity
      else if g.f &&& 1 ≠ 0 then
        -- LOAD: write_internal(dest, byte); length -= 1 (length ≠ 0 here)
        Tap.flLoop mem fuel t' { g with ix := (g.ix + 1) % 65536, de := g.de - 1 } parity
      else
        let acc := xor8 (mem g.ix) b
        if acc ≠ 0 then (.ok ({ g with acc := acc }, some 0), t')
        else Tap.flLoop mem fuel t' { g with acc := acc, ix := (g.ix + 1) % 65536, de := g.de - 1 } parity

/-- `fast_load_tap` (called only while `can_fast_load()`, i.e. the tape is stopped) -/
def Tap.fastLoad (mem : Nat → Nat) (t : Tap) (g : FlRegs) : TR (FlRegs × Option Nat) × Tap :=
  match t.nextBlock with
  | (.stop o, t') => (.stop o, t')
  | (.ok false, t') => (.ok (g, none), t')
  | (.ok true, t') => Tap.flLoop mem 65538 t' g 0

/-! ### operation sequences (what the emulator does with a loaded tape) -/

/-- `count` calls of `process_clocks(clocks)`; the first failure ends the run (the emulator stops
the frame at the first error) -/
def Tap.repeatClocks : Nat → Nat → Tap → TR Unit × Tap
  | 0, _, t => (.ok (), t)
  | n + 1, c, t =>
    match t.processClocks c with
    | (.stop o, t') => (.stop o, t')
    | (.ok (), t') => Tap.repeatClocks n c t'

inductive TapOp
  | play | stop | rewind
  | clocks (n : Nat)
  | repeatClocks (count n : Nat)
  | nextBlock | nextByte
  | fastLoad (g : FlRegs)
  deriving Repr

/-- outcome class of one operation -/
def Tap.step (mem : Nat → Nat) (t : Tap) : TapOp → Outcome × Tap
  | .play => (.ok, t.play)
  | .stop => (.ok, t.stop)
  | .rewind => match t.rewind with
    | (.ok _, t') => (.ok, t') | (.stop o, t') => (o, t')
  | .clocks n => match t.processClocks n with
    | (.ok _, t') => (.ok, t') | (.stop o, t') => (o, t')
  | .repeatClocks k n => match Tap.repeatClocks k n t with
    | (.ok _, t') => (.ok, t') | (.stop o, t') => (o, t')
  | .nextBlock => match t.nextBlock with
    | (.ok _, t') => (.ok, t') | (.stop o, t') => (o, t')
  | .nextByte => match t.nextBlockByte with
    | (.ok _, t') => (.ok, t') | (.stop o, t') => (o, t')
  | .fastLoad g =>
    if t.state = .stop then
      match t.fastLoad mem g with
      | (.ok _, t') => (.ok, t') | (.stop o, t') => (o, t')
    else (.ok, t)

/-- outcomes of a whole history of operations -/
def Tap.runOps (mem : Nat → Nat) : Tap → List TapOp → List Outcome
  | _, [] => []
  | t, op :: ops => let (o, t') := t.step mem op; o :: Tap.runOps mem t' ops

end ZxVerif.Loaders
